(* C01 — executable model of how tskit builds marginal trees.

   Modelled code (read line by line at the pinned commit):
     c/tskit/tables.c  tsk_table_collection_build_index   (11306-11371)  -> [build_index]
                       cmp_index_sort                      (10362-10378)  -> [key4_leb]
     c/tskit/trees.c   tsk_treeseq_init_trees              (243-330)      -> [sweep_loop], [breakpoints_of]
                       (the same two-cursor loop is tsk_table_collection_check_tree_integrity
                        tables.c 10834-10960, which supplies num_trees, and Python
                        TreeSequence._edge_diffs_forward trees.py 4808-4859 -> [edge_diffs_forward])
                       tsk_tree_position_next              (5191-5247)    -> [position_next]
                       tsk_tree_clear                      (6612-6700)    -> [tree_clear] (fresh tree), [tree_clear_from]
                       tsk_tree_remove_branch/insert_branch/insert_root/remove_root (6219-6284)
                       tsk_tree_remove_edge / insert_edge  (6286-6366)    -> [remove_edge], [insert_edge]
                       tsk_tree_update_sample_lists        (6184-6217)    -> [update_sample_lists]
                       tsk_tree_next / tsk_tree_first      (6368-6441)    -> [tree_next], [tree_first]
                       tsk_tree_preorder_from / postorder_from (6720-6902)
                       tsk_tree_get_mrca, is_descendant, depth, total_branch_length (5761-6045)

   Conventions.  Coordinates and times are [Z] (the algorithms only compare them).  Arrays are
   lists with the checked [get]/[set] of Base.Common, so an out-of-range index is the visible
   result [OOB].  A C cursor [j] into an index array is represented by the *remaining suffix*
   of that array (j = M - length suffix); `while (j < M && key[order[j]] == x) j++` is [span].
   The index arrays are resolved to (edge id, edge row) pairs once, with checked access
   ([resolve]).  `while (u != TSK_NULL) u = parent[u]` loops carry explicit fuel; running out
   is the visible result [Fuel] (never a normal-looking value). *)
From Coq Require Import List ZArith Bool Lia.
From TskVerif Require Import Base.Common.
Import ListNotations.
Open Scope Z_scope.

Definition NULL : Z := -1.

Record edge := mkEdge { eleft : Z; eright : Z; eparent : Z; echild : Z }.
Record node := mkNode { nsample : bool; ntime : Z }.

Definition edge_eqb (a b : edge) : bool :=
  (eleft a =? eleft b) && (eright a =? eright b) && (eparent a =? eparent b) && (echild a =? echild b).

(* ------------------------------------------------------------------------------------ *)
(* tsk_table_collection_build_index                                                       *)
(* ------------------------------------------------------------------------------------ *)

Definition key4 := (Z * Z * Z * Z)%type.

(* cmp_index_sort: lexicographic on (first, second, third, fourth) *)
Definition key4_leb (a b : key4) : bool :=
  let '(a1, a2, a3, a4) := a in
  let '(b1, b2, b3, b4) := b in
  if a1 <? b1 then true else if b1 <? a1 then false else
  if a2 <? b2 then true else if b2 <? a2 then false else
  if a3 <? b3 then true else if b3 <? a3 then false else
  a4 <=? b4.

(* libc qsort is modelled by a (stable) insertion sort.  For tables that pass the edge
   integrity checks no two edges have equal keys, so stability is not observable; the
   theorems about the sweep only use "sorted permutation". *)
Fixpoint ins_sorted (x : key4 * Z) (l : list (key4 * Z)) : list (key4 * Z) :=
  match l with
  | [] => [x]
  | y :: r => if key4_leb (fst x) (fst y) then x :: l else y :: ins_sorted x r
  end.
Definition isort (l : list (key4 * Z)) : list (key4 * Z) := fold_right ins_sorted [] l.

Definition node_time (ns : list node) (u : Z) : res Z := do n <- get ns u; Ok (ntime n).

Definition ins_key (e : edge) (t : Z) : key4 := (eleft e, t, eparent e, echild e).
Definition rem_key (e : edge) (t : Z) : key4 := (eright e, - t, - eparent e, - echild e).

Fixpoint keyed (ns : list node) (f : edge -> Z -> key4) (es : list edge) (i : Z) : res (list (key4 * Z)) :=
  match es with
  | [] => Ok []
  | e :: r => do t <- node_time ns (eparent e);
              do rest <- keyed ns f r (i + 1);
              Ok ((f e t, i) :: rest)
  end.

Definition build_index (ns : list node) (es : list edge) : res (list Z * list Z) :=
  do ki <- keyed ns ins_key es 0;
  do ko <- keyed ns rem_key es 0;
  Ok (map snd (isort ki), map snd (isort ko)).

(* index array -> (id, row) pairs; tables->edges.left[left_order[j]] etc. *)
Definition iedge := (Z * edge)%type.
Fixpoint resolve (es : list edge) (idx : list Z) : res (list iedge) :=
  match idx with
  | [] => Ok []
  | i :: r => do e <- get es i; do rest <- resolve es r; Ok ((i, e) :: rest)
  end.

(* ------------------------------------------------------------------------------------ *)
(* the two-cursor sweep                                                                   *)
(* ------------------------------------------------------------------------------------ *)

Fixpoint span {A} (p : A -> bool) (l : list A) : list A * list A :=
  match l with
  | [] => ([], [])
  | x :: r => if p x then let (a, b) := span p r in (x :: a, b) else ([], l)
  end.

Definition ileft (ie : iedge) : Z := eleft (snd ie).
Definition iright (ie : iedge) : Z := eright (snd ie).

Record step := mkStep { s_left : Z; s_right : Z; s_out : list iedge; s_in : list iedge;
                        s_irest : list iedge; s_orest : list iedge }.

Definition next_right (L : Z) (Ins' Rem' : list iedge) : Z :=
  let tr := L in
  let tr := match Ins' with ie :: _ => Z.min tr (ileft ie) | [] => tr end in
  match Rem' with ie :: _ => Z.min tr (iright ie) | [] => tr end.

(* while (j < num_edges || tree_left < sequence_length) { ... }  of tsk_treeseq_init_trees,
   check_tree_integrity and _edge_diffs_forward.  [Ins]/[Rem] are the unconsumed suffixes of the
   insertion / removal order.  Returns the per-tree steps and the final removal suffix. *)
Fixpoint sweep_loop (fuel : nat) (L tl : Z) (Ins Rem : list iedge) : res (list step * list iedge) :=
  match fuel with
  | O%nat => Fuel
  | S f =>
      if negb (match Ins with [] => true | _ => false end) || (tl <? L) then
        let (out, Rem') := span (fun ie => iright ie =? tl) Rem in
        let (inn, Ins') := span (fun ie => ileft ie =? tl) Ins in
        let tr := next_right L Ins' Rem' in
        do '(rest, Oend) <- sweep_loop f L tr Ins' Rem';
        Ok (mkStep tl tr out inn Ins' Rem' :: rest, Oend)
      else Ok ([], Rem)
  end.

Definition sweep_fuel (Ins Rem : list iedge) : nat := (length Ins + length Rem + 2)%nat.

Definition sweep (L : Z) (Ins Rem : list iedge) : res (list step * list iedge) :=
  sweep_loop (sweep_fuel Ins Rem) L 0 Ins Rem.

(* tsk_treeseq_init_trees: breakpoints[tree_index] = tree_left per iteration and finally
   breakpoints[tree_index] = tree_right (tree_right is initialised to sequence_length). *)
Fixpoint last_right (d : Z) (steps : list step) : Z :=
  match steps with [] => d | s :: r => last_right (s_right s) r end.
Definition breakpoints_of (L : Z) (steps : list step) : list Z :=
  map s_left steps ++ [last_right L steps].

(* Python TreeSequence._edge_diffs_forward: (interval, edges_out ids, edges_in ids) *)
Definition diff := (Z * Z * list Z * list Z)%type.
Definition edge_diffs_forward (L : Z) (Ins Rem : list iedge) (include_terminal : bool) : res (list diff) :=
  do '(steps, Oend) <- sweep L Ins Rem;
  let ds := map (fun s => (s_left s, s_right s, map fst (s_out s), map fst (s_in s))) steps in
  if include_terminal then
    let r := last_right 0 steps in
    Ok (ds ++ [(r, r, map fst Oend, [])])
  else Ok ds.

(* ------------------------------------------------------------------------------------ *)
(* tree sequence level record (what tsk_treeseq_init computes and the tree reads)         *)
(* ------------------------------------------------------------------------------------ *)

Record tseq := mkTseq {
  q_N : Z;                      (* num_nodes; virtual root id *)
  q_nodes : list node;
  q_edges : list edge;
  q_L : Z;
  q_I : list iedge;             (* resolved insertion order *)
  q_O : list iedge;             (* resolved removal order *)
  q_bps : list Z;
  q_ntrees : Z;
  q_samples : list Z;           (* node ids with the sample flag, ascending (tsk_treeseq_init_nodes) *)
  q_simap : list Z              (* sample_index_map *)
}.

Fixpoint samples_from (ns : list node) (i : Z) : list Z :=
  match ns with
  | [] => []
  | n :: r => if nsample n then i :: samples_from r (i + 1) else samples_from r (i + 1)
  end.

Fixpoint simap_from (ns : list node) (k : Z) : list Z :=
  match ns with
  | [] => []
  | n :: r => if nsample n then k :: simap_from r (k + 1) else NULL :: simap_from r k
  end.

Definition mk_tseq (L : Z) (ns : list node) (es : list edge) (Ins Rem : list Z) : res tseq :=
  do ie <- resolve es Ins;
  do oe <- resolve es Rem;
  do '(steps, _) <- sweep L ie oe;
  Ok (mkTseq (zlen ns) ns es L ie oe (breakpoints_of L steps) (zlen steps)
             (samples_from ns 0) (simap_from ns 0)).

(* load path used by the harness: sorted tables + tsk_table_collection_build_index *)
Definition load (L : Z) (ns : list node) (es : list edge) : res tseq :=
  do '(Ins, Rem) <- build_index ns es;
  mk_tseq L ns es Ins Rem.

(* ------------------------------------------------------------------------------------ *)
(* tsk_tree_position_t, forward direction                                                 *)
(* ------------------------------------------------------------------------------------ *)

Record tpos := mkPos {
  p_index : Z; p_left : Z; p_right : Z;
  p_out : list iedge;            (* order[out.start .. out.stop) *)
  p_in : list iedge;             (* order[in.start .. in.stop)  *)
  p_irest : list iedge;          (* insertion order from in.stop on  *)
  p_orest : list iedge           (* removal order from out.stop on   *)
}.

Definition null_pos : tpos := mkPos (-1) 0 0 [] [] [] [].

(* tsk_tree_position_next, reached from the null state or from a forward state
   (direction == TSK_DIR_FORWARD; the REVERSE branch belongs to property C06). *)
Definition position_next (q : tseq) (p : tpos) : res (tpos * bool) :=
  let '(right0, irest, orest) :=
    if p_index p =? -1 then (0, q_I q, q_O q) else (p_right p, p_irest p, p_orest p) in
  let left := right0 in
  let (out, orest') := span (fun ie => iright ie =? left) orest in
  let (inn, irest') := span (fun ie => ileft ie =? left) irest in
  let index := p_index p + 1 in
  if index =? q_ntrees q then
    Ok (mkPos (-1) 0 0 out inn irest' orest', false)
  else
    do r <- get (q_bps q) (index + 1);
    Ok (mkPos index left r out inn irest' orest', true).

(* ------------------------------------------------------------------------------------ *)
(* tsk_tree_t                                                                             *)
(* ------------------------------------------------------------------------------------ *)

Record topts := mkOpts { o_thr : Z; o_lists : bool; o_tracked : list Z }.

Record tree := mkTree {
  t_parent : list Z; t_lc : list Z; t_rc : list Z; t_ls : list Z; t_rs : list Z;
  t_nc : list Z; t_edge : list Z;
  t_ns : list Z; t_nt : list Z;
  t_lsamp : list Z; t_rsamp : list Z; t_nsamp : list Z;
  t_num_edges : Z;
  t_pos : tpos
}.

Definition w_parent t a := mkTree a (t_lc t) (t_rc t) (t_ls t) (t_rs t) (t_nc t) (t_edge t) (t_ns t) (t_nt t) (t_lsamp t) (t_rsamp t) (t_nsamp t) (t_num_edges t) (t_pos t).
Definition w_lc t a := mkTree (t_parent t) a (t_rc t) (t_ls t) (t_rs t) (t_nc t) (t_edge t) (t_ns t) (t_nt t) (t_lsamp t) (t_rsamp t) (t_nsamp t) (t_num_edges t) (t_pos t).
Definition w_rc t a := mkTree (t_parent t) (t_lc t) a (t_ls t) (t_rs t) (t_nc t) (t_edge t) (t_ns t) (t_nt t) (t_lsamp t) (t_rsamp t) (t_nsamp t) (t_num_edges t) (t_pos t).
Definition w_ls t a := mkTree (t_parent t) (t_lc t) (t_rc t) a (t_rs t) (t_nc t) (t_edge t) (t_ns t) (t_nt t) (t_lsamp t) (t_rsamp t) (t_nsamp t) (t_num_edges t) (t_pos t).
Definition w_rs t a := mkTree (t_parent t) (t_lc t) (t_rc t) (t_ls t) a (t_nc t) (t_edge t) (t_ns t) (t_nt t) (t_lsamp t) (t_rsamp t) (t_nsamp t) (t_num_edges t) (t_pos t).
Definition w_nc t a := mkTree (t_parent t) (t_lc t) (t_rc t) (t_ls t) (t_rs t) a (t_edge t) (t_ns t) (t_nt t) (t_lsamp t) (t_rsamp t) (t_nsamp t) (t_num_edges t) (t_pos t).
Definition w_edge t a := mkTree (t_parent t) (t_lc t) (t_rc t) (t_ls t) (t_rs t) (t_nc t) a (t_ns t) (t_nt t) (t_lsamp t) (t_rsamp t) (t_nsamp t) (t_num_edges t) (t_pos t).
Definition w_ns t a := mkTree (t_parent t) (t_lc t) (t_rc t) (t_ls t) (t_rs t) (t_nc t) (t_edge t) a (t_nt t) (t_lsamp t) (t_rsamp t) (t_nsamp t) (t_num_edges t) (t_pos t).
Definition w_nt t a := mkTree (t_parent t) (t_lc t) (t_rc t) (t_ls t) (t_rs t) (t_nc t) (t_edge t) (t_ns t) a (t_lsamp t) (t_rsamp t) (t_nsamp t) (t_num_edges t) (t_pos t).
Definition w_lsamp t a := mkTree (t_parent t) (t_lc t) (t_rc t) (t_ls t) (t_rs t) (t_nc t) (t_edge t) (t_ns t) (t_nt t) a (t_rsamp t) (t_nsamp t) (t_num_edges t) (t_pos t).
Definition w_rsamp t a := mkTree (t_parent t) (t_lc t) (t_rc t) (t_ls t) (t_rs t) (t_nc t) (t_edge t) (t_ns t) (t_nt t) (t_lsamp t) a (t_nsamp t) (t_num_edges t) (t_pos t).
Definition w_nsamp t a := mkTree (t_parent t) (t_lc t) (t_rc t) (t_ls t) (t_rs t) (t_nc t) (t_edge t) (t_ns t) (t_nt t) (t_lsamp t) (t_rsamp t) a (t_num_edges t) (t_pos t).
Definition w_num_edges t a := mkTree (t_parent t) (t_lc t) (t_rc t) (t_ls t) (t_rs t) (t_nc t) (t_edge t) (t_ns t) (t_nt t) (t_lsamp t) (t_rsamp t) (t_nsamp t) a (t_pos t).
Definition w_pos t a := mkTree (t_parent t) (t_lc t) (t_rc t) (t_ls t) (t_rs t) (t_nc t) (t_edge t) (t_ns t) (t_nt t) (t_lsamp t) (t_rsamp t) (t_nsamp t) (t_num_edges t) a.

Definition s_parent t u v := do a <- set (t_parent t) u v; Ok (w_parent t a).
Definition s_lc t u v := do a <- set (t_lc t) u v; Ok (w_lc t a).
Definition s_rc t u v := do a <- set (t_rc t) u v; Ok (w_rc t a).
Definition s_ls t u v := do a <- set (t_ls t) u v; Ok (w_ls t a).
Definition s_rs t u v := do a <- set (t_rs t) u v; Ok (w_rs t a).
Definition s_nc t u v := do a <- set (t_nc t) u v; Ok (w_nc t a).
Definition s_edge t u v := do a <- set (t_edge t) u v; Ok (w_edge t a).
Definition s_ns t u v := do a <- set (t_ns t) u v; Ok (w_ns t a).
Definition s_nt t u v := do a <- set (t_nt t) u v; Ok (w_nt t a).
Definition s_lsamp t u v := do a <- set (t_lsamp t) u v; Ok (w_lsamp t a).
Definition s_rsamp t u v := do a <- set (t_rsamp t) u v; Ok (w_rsamp t a).
Definition s_nsamp t u v := do a <- set (t_nsamp t) u v; Ok (w_nsamp t a).

(* tsk_tree_remove_branch *)
Definition remove_branch (t : tree) (p c : Z) : res tree :=
  do lsib <- get (t_ls t) c;
  do rsib <- get (t_rs t) c;
  do t <- (if lsib =? NULL then s_lc t p rsib else s_rs t lsib rsib);
  do t <- (if rsib =? NULL then s_rc t p lsib else s_ls t rsib lsib);
  do t <- s_parent t c NULL;
  do t <- s_ls t c NULL;
  do t <- s_rs t c NULL;
  do n <- get (t_nc t) p;
  s_nc t p (n - 1).

(* tsk_tree_insert_branch *)
Definition insert_branch (t : tree) (p c : Z) : res tree :=
  do t <- s_parent t c p;
  do u <- get (t_rc t) p;
  do t <- (if u =? NULL then
             do t <- s_lc t p c; do t <- s_ls t c NULL; s_rs t c NULL
           else
             do t <- s_rs t u c; do t <- s_ls t c u; s_rs t c NULL);
  do t <- s_rc t p c;
  do n <- get (t_nc t) p;
  s_nc t p (n + 1).

Definition insert_root (V : Z) (t : tree) (root : Z) : res tree :=
  do t <- insert_branch t V root; s_parent t root NULL.
Definition remove_root (V : Z) (t : tree) (root : Z) : res tree := remove_branch t V root.

(* the `while (u != TSK_NULL)` loop of remove_edge (sign = -1) / insert_edge (sign = +1):
   returns (tree, path_end, path_end_was_root) *)
Fixpoint propagate (fuel : nat) (thr sign : Z) (t : tree) (c u : Z) (path_end : Z) (was_root : bool)
  : res (tree * Z * bool) :=
  if u =? NULL then Ok (t, path_end, was_root) else
  match fuel with
  | O%nat => Fuel
  | S f =>
      do nsu <- get (t_ns t) u;
      do nsc <- get (t_ns t) c;
      do t <- s_ns t u (nsu + sign * nsc);
      do ntu <- get (t_nt t) u;
      do ntc <- get (t_nt t) c;
      do t <- s_nt t u (ntu + sign * ntc);
      do pu <- get (t_parent t) u;
      propagate f thr sign t c pu u (thr <=? nsu)
  end.

(* tsk_tree_update_sample_lists: inner loop over the children of u *)
Fixpoint usl_children (fuel : nat) (t : tree) (u v : Z) : res tree :=
  if v =? NULL then Ok t else
  match fuel with
  | O%nat => Fuel
  | S f =>
      do lv <- get (t_lsamp t) v;
      do t <- (if negb (lv =? NULL) then
                 do rv <- get (t_rsamp t) v;
                 if rv =? NULL then Err 1 (* tsk_bug_assert(right[v] != TSK_NULL) *) else
                 do lu <- get (t_lsamp t) u;
                 if lu =? NULL then
                   do t <- s_lsamp t u lv; s_rsamp t u rv
                 else
                   do ru <- get (t_rsamp t) u;
                   do t <- s_nsamp t ru lv;
                   s_rsamp t u rv
               else Ok t);
      do nv <- get (t_rs t) v;
      usl_children f t u nv
  end.

Fixpoint update_sample_lists (fuel : nat) (simap : list Z) (t : tree) (u : Z) : res tree :=
  if u =? NULL then Ok t else
  match fuel with
  | O%nat => Fuel
  | S f =>
      do si <- get simap u;
      do t <- (if negb (si =? NULL) then
                 do lu <- get (t_lsamp t) u; s_rsamp t u lu
               else
                 do t <- s_lsamp t u NULL; s_rsamp t u NULL);
      do v <- get (t_lc t) u;
      do t <- usl_children (length (t_parent t)) t u v;
      do pu <- get (t_parent t) u;
      update_sample_lists f simap t pu
  end.

Definition chain_fuel (t : tree) : nat := S (length (t_parent t)).

(* the conditional root updates of remove_edge / insert_edge, named for the proofs *)
Definition cond_remove_root_end (V thr : Z) (t : tree) (was_root : bool) (path_end : Z) : res tree :=
  if was_root then
    do nse <- get (t_ns t) path_end;
    if negb (thr <=? nse) then remove_root V t path_end else Ok t
  else Ok t.

Definition cond_insert_root_c (V thr : Z) (t : tree) (c : Z) : res tree :=
  do nsc <- get (t_ns t) c;
  if thr <=? nsc then insert_root V t c else Ok t.

Definition cond_remove_root_c (V thr : Z) (t : tree) (c : Z) : res tree :=
  do nsc <- get (t_ns t) c;
  if thr <=? nsc then remove_root V t c else Ok t.

Definition cond_insert_root_end (V thr : Z) (t : tree) (was_root : bool) (path_end : Z) : res tree :=
  do nse <- get (t_ns t) path_end;
  if (thr <=? nse) && negb was_root then insert_root V t path_end else Ok t.

Definition cond_lists (lists : bool) (simap : list Z) (t : tree) (p : Z) : res tree :=
  if lists then update_sample_lists (chain_fuel t) simap t p else Ok t.

(* tsk_tree_remove_edge *)
Definition remove_edge (q : tseq) (o : topts) (t : tree) (p c : Z) : res tree :=
  let V := q_N q in
  let thr := o_thr o in
  do t <- remove_branch t p c;
  let t := w_num_edges t (t_num_edges t - 1) in
  do t <- s_edge t c NULL;
  do '(t, path_end, was_root) <- propagate (chain_fuel t) thr (-1) t c p NULL false;
  do t <- cond_remove_root_end V thr t was_root path_end;
  do t <- cond_insert_root_c V thr t c;
  cond_lists (o_lists o) (q_simap q) t p.

(* tsk_tree_insert_edge *)
Definition insert_edge (q : tseq) (o : topts) (t : tree) (p c e : Z) : res tree :=
  let V := q_N q in
  let thr := o_thr o in
  do '(t, path_end, was_root) <- propagate (chain_fuel t) thr 1 t c p NULL false;
  do t <- cond_remove_root_c V thr t c;
  do t <- cond_insert_root_end V thr t was_root path_end;
  do t <- insert_branch t p c;
  let t := w_num_edges t (t_num_edges t + 1) in
  do t <- s_edge t c e;
  cond_lists (o_lists o) (q_simap q) t p.

Fixpoint set_all (l : list Z) (idx : list Z) (v : Z) : res (list Z) :=
  match idx with [] => Ok l | i :: r => do l <- set l i v; set_all l r v end.

Fixpoint set_enum (l : list Z) (idx : list Z) (k : Z) : res (list Z) :=
  match idx with [] => Ok l | i :: r => do l <- set l i k; set_enum l r (k + 1) end.

Fixpoint insert_roots (V : Z) (t : tree) (ss : list Z) : res tree :=
  match ss with [] => Ok t | s :: r => do t <- insert_root V t s; insert_roots V t r end.

(* State of a fresh tskit.Tree(ts, tracked_samples, sample_lists, root_threshold):
   tsk_tree_init; tsk_tree_set_tracked_samples (null state: no propagation beyond the node
   itself, num_tracked_samples[virtual_root] = count); tsk_tree_set_root_threshold -> tsk_tree_clear.
   tsk_tree_clear keeps num_tracked_samples of sample nodes and of the virtual root. *)
Definition tree_clear (q : tseq) (o : topts) : res tree :=
  let N1 := Z.to_nat (q_N q + 1) in
  let nul := repeat NULL N1 in
  let zero := repeat 0 N1 in
  let nsmp := zlen (q_samples q) in
  do ns <- set zero (q_N q) nsmp;
  do ns <- set_all ns (q_samples q) 1;
  do nt <- set_all zero (o_tracked o) 1;
  do nt <- set nt (q_N q) (zlen (o_tracked o));
  do ls0 <- (if o_lists o then set_enum nul (q_samples q) 0 else Ok []);
  let nxt := if o_lists o then repeat NULL (length (q_samples q)) else [] in
  let t := mkTree nul nul nul nul nul zero nul ns nt ls0 ls0 nxt 0 null_pos in
  if (o_thr o =? 1) && (0 <? nsmp) then insert_roots (q_N q) t (q_samples q) else Ok t.

(* tsk_tree_clear called on a tree that is not fresh (end of iteration, tsk_tree_first on a
   positioned tree).  Since fix fcbdf2e the tracked count that survives for a sample node is its
   own status: num_tracked_samples[u] minus the counts of its children, computed before the
   reset when num_edges > 0 (num_samples is the temporary).  Non-samples are zeroed, the virtual
   root keeps the total.  Everything else is as in [tree_clear]. *)
Fixpoint sub_children_nt (fuel : nat) (t : tree) (v acc : Z) : res Z :=
  if v =? NULL then Ok acc else
  match fuel with
  | O%nat => Fuel
  | S f => do x <- get (t_nt t) v; do nv <- get (t_rs t) v; sub_children_nt f t nv (acc - x)
  end.

Fixpoint own_tracked (t : tree) (ss : list Z) : res (list (Z * Z)) :=
  match ss with
  | [] => Ok []
  | u :: r =>
      do a <- get (t_nt t) u;
      do c <- get (t_lc t) u;
      do own <- (if 0 <? t_num_edges t then sub_children_nt (length (t_parent t)) t c a else Ok a);
      do rest <- own_tracked t r;
      Ok ((u, own) :: rest)
  end.

Fixpoint set_pairs (l : list Z) (ps : list (Z * Z)) : res (list Z) :=
  match ps with [] => Ok l | (i, v) :: r => do l <- set l i v; set_pairs l r end.

Definition tree_clear_from (q : tseq) (o : topts) (t0 : tree) : res tree :=
  let N1 := Z.to_nat (q_N q + 1) in
  let nul := repeat NULL N1 in
  let zero := repeat 0 N1 in
  let nsmp := zlen (q_samples q) in
  do own <- own_tracked t0 (q_samples q);
  do ntV <- get (t_nt t0) (q_N q);
  do ns <- set zero (q_N q) nsmp;
  do ns <- set_all ns (q_samples q) 1;
  do nt <- set_pairs zero own;
  do nt <- set nt (q_N q) ntV;
  do ls0 <- (if o_lists o then set_enum nul (q_samples q) 0 else Ok []);
  let nxt := if o_lists o then repeat NULL (length (q_samples q)) else [] in
  let t := mkTree nul nul nul nul nul zero nul ns nt ls0 ls0 nxt 0 null_pos in
  if (o_thr o =? 1) && (0 <? nsmp) then insert_roots (q_N q) t (q_samples q) else Ok t.

Fixpoint remove_edges (q : tseq) (o : topts) (t : tree) (l : list iedge) : res tree :=
  match l with
  | [] => Ok t
  | (_, e) :: r => do t <- remove_edge q o t (eparent e) (echild e); remove_edges q o t r
  end.

Fixpoint insert_edges (q : tseq) (o : topts) (t : tree) (l : list iedge) : res tree :=
  match l with
  | [] => Ok t
  | (i, e) :: r => do t <- insert_edge q o t (eparent e) (echild e) i; insert_edges q o t r
  end.

(* tsk_tree_next *)
Definition tree_next (q : tseq) (o : topts) (t : tree) : res (tree * bool) :=
  do '(p, valid) <- position_next q (t_pos t);
  if valid then
    do t <- remove_edges q o t (p_out p);
    do t <- insert_edges q o t (p_in p);
    Ok (w_pos t p, true)
  else
    do t <- tree_clear_from q o t; Ok (t, false).

(* tsk_tree_first = clear; next *)
Definition tree_first (q : tseq) (o : topts) : res (tree * bool) :=
  do t <- tree_clear q o; tree_next q o t.

(* first(); then k more next() calls, all of which must land on a tree *)
Fixpoint tree_at_index (q : tseq) (o : topts) (k : nat) : res tree :=
  match k with
  | O%nat => do '(t, v) <- tree_first q o; if v then Ok t else Err 2
  | S k' => do t <- tree_at_index q o k';
            do '(t, v) <- tree_next q o t; if v then Ok t else Err 2
  end.

(* all trees by forward iteration: first(), then next() until it reports the null state *)
Fixpoint trees_loop (fuel : nat) (q : tseq) (o : topts) (t : tree) : res (list tree) :=
  match fuel with
  | O%nat => Fuel
  | S f => do '(t', v) <- tree_next q o t;
           if v then do rest <- trees_loop f q o t'; Ok (t' :: rest) else Ok []
  end.
Definition all_trees (q : tseq) (o : topts) : res (list tree) :=
  do t <- tree_clear q o; trees_loop (S (Z.to_nat (q_ntrees q))) q o t.

(* ------------------------------------------------------------------------------------ *)
(* queries and traversals                                                                 *)
(* ------------------------------------------------------------------------------------ *)

(* for (u = start; u != TSK_NULL; u = next[u]) collect u *)
Fixpoint chain (fuel : nat) (next : list Z) (u : Z) : res (list Z) :=
  if u =? NULL then Ok [] else
  match fuel with
  | O%nat => Fuel
  | S f => do n <- get next u; do r <- chain f next n; Ok (u :: r)
  end.

Definition children_of (t : tree) (u : Z) : res (list Z) :=
  do c <- get (t_lc t) u; chain (length (t_parent t)) (t_rs t) c.

(* pushes right_child, then left_sib ...: the stack top is the leftmost child *)
Definition push_children (t : tree) (u : Z) (stack : list Z) : res (list Z) :=
  do c <- get (t_rc t) u;
  do l <- chain (length (t_parent t)) (t_ls t) c;
  Ok (rev l ++ stack).

Fixpoint preorder_loop (fuel : nat) (t : tree) (stack : list Z) : res (list Z) :=
  match stack with
  | [] => Ok []
  | u :: s =>
      match fuel with
      | O%nat => Fuel
      | S f => do s' <- push_children t u s; do r <- preorder_loop f t s'; Ok (u :: r)
      end
  end.

(* tsk_tree_preorder_from(root): root = -1 means all roots *)
Definition preorder_from (V : Z) (t : tree) (root : Z) : res (list Z) :=
  do st <- (if root =? -1 then push_children t V []
            else if (root <? 0) || (V <? root) then Err 3 else Ok [root]);
  preorder_loop (S (length (t_parent t))) t st.

Fixpoint postorder_loop (fuel : nat) (t : tree) (stack : list Z) (pp : Z) : res (list Z) :=
  match stack with
  | [] => Ok []
  | u :: s =>
      match fuel with
      | O%nat => Fuel
      | S f =>
          do rc <- get (t_rc t) u;
          if negb (rc =? NULL) && negb (u =? pp) then
            do s' <- push_children t u stack; postorder_loop f t s' pp
          else
            do pu <- get (t_parent t) u;
            do r <- postorder_loop f t s pu; Ok (u :: r)
      end
  end.

Definition postorder_from (V : Z) (t : tree) (root : Z) : res (list Z) :=
  let isv := root =? V in
  do st <- (if (root =? -1) || isv then push_children t V []
            else if (root <? 0) || (V <? root) then Err 3 else Ok [root]);
  do r <- postorder_loop (2 * S (length (t_parent t)))%nat t st NULL;
  Ok (if isv then r ++ [root] else r).

(* tsk_tree_is_descendant *)
Fixpoint is_desc_loop (fuel : nat) (par : list Z) (w v : Z) : res bool :=
  if (w =? v) || (w =? NULL) then Ok (w =? v) else
  match fuel with
  | O%nat => Fuel
  | S f => do p <- get par w; is_desc_loop f par p v
  end.
Definition is_descendant (V : Z) (t : tree) (u v : Z) : res bool :=
  if (u <? 0) || (V <? u) || (v <? 0) || (V <? v) then Ok false
  else is_desc_loop (S (length (t_parent t))) (t_parent t) u v.

(* tsk_tree_get_mrca *)
Fixpoint mrca_loop (fuel : nat) (q : tseq) (par : list Z) (u v tu tv : Z) : res Z :=
  if u =? v then Ok u else
  match fuel with
  | O%nat => Fuel
  | S f =>
      if tu <? tv then
        do u' <- get par u;
        if u' =? NULL then Ok NULL else
        do tu' <- node_time (q_nodes q) u'; mrca_loop f q par u' v tu' tv
      else
        do v' <- get par v;
        if v' =? NULL then Ok NULL else
        do tv' <- node_time (q_nodes q) v'; mrca_loop f q par u v' tu tv'
  end.
Definition mrca (q : tseq) (t : tree) (u v : Z) : res Z :=
  let V := q_N q in
  if (u <? 0) || (V <? u) || (v <? 0) || (V <? v) then Err 3 else
  if (u =? V) || (v =? V) then Ok V else
  do tu <- node_time (q_nodes q) u;
  do tv <- node_time (q_nodes q) v;
  mrca_loop (2 * S (length (t_parent t)))%nat q (t_parent t) u v tu tv.

(* tsk_tree_get_depth *)
Fixpoint depth_loop (fuel : nat) (par : list Z) (v : Z) (d : Z) : res Z :=
  if v =? NULL then Ok d else
  match fuel with
  | O%nat => Fuel
  | S f => do p <- get par v; depth_loop f par p (d + 1)
  end.
Definition depth (V : Z) (t : tree) (u : Z) : res Z :=
  if (u <? 0) || (V <? u) then Err 3 else
  if u =? V then Ok (-1) else
  do p <- get (t_parent t) u; depth_loop (S (length (t_parent t))) (t_parent t) p 0.

(* tsk_tree_get_total_branch_length(node): skips the first preorder node *)
Fixpoint tbl_sum (q : tseq) (par : list Z) (l : list Z) : res Z :=
  match l with
  | [] => Ok 0
  | u :: r =>
      do v <- get par u;
      do rest <- tbl_sum q par r;
      if v =? NULL then Ok rest else
      do tv <- node_time (q_nodes q) v; do tu <- node_time (q_nodes q) u; Ok (tv - tu + rest)
  end.
Definition total_branch_length (q : tseq) (t : tree) (root : Z) : res Z :=
  do l <- preorder_from (q_N q) t root;
  tbl_sum q (t_parent t) (tl l).

(* ------------------------------------------------------------------------------------ *)
(* the definition the property speaks about                                               *)
(* ------------------------------------------------------------------------------------ *)

Definition covers (x : Z) (e : edge) : bool := (eleft e <=? x) && (x <? eright e).

Definition parent_at (es : list edge) (x u : Z) : Z :=
  match find (fun e => (echild e =? u) && covers x e) es with
  | Some e => eparent e
  | None => NULL
  end.

(* boolean validity of the edge table: what tsk_table_collection_check_integrity with
   TSK_CHECK_TREES establishes for the rows (bounds, 0 <= left < right <= L, parent older
   than child, and no two edges of one child overlap) *)
Definition edge_okb (N L : Z) (ns : list node) (e : edge) : bool :=
  (0 <=? eleft e) && (eleft e <? eright e) && (eright e <=? L) &&
  (0 <=? echild e) && (echild e <? N) && (0 <=? eparent e) && (eparent e <? N) &&
  match get ns (eparent e), get ns (echild e) with
  | Ok p, Ok c => ntime c <? ntime p
  | _, _ => false
  end.

Definition disjointb (a b : edge) : bool :=
  negb (echild a =? echild b) || (eright a <=? eleft b) || (eright b <=? eleft a).

Fixpoint pairwise_disjointb (es : list edge) : bool :=
  match es with
  | [] => true
  | e :: r => forallb (disjointb e) r && pairwise_disjointb r
  end.

Definition valid_edgesb (L : Z) (ns : list node) (es : list edge) : bool :=
  (0 <? L) && forallb (edge_okb (zlen ns) L ns) es && pairwise_disjointb es.

(* The parent array alone (layer L1): tsk_tree_remove_edge / insert_edge change parent[] only
   by parent[c] = TSK_NULL / parent[c] = p (C01/ProjProofs.v proves this of the full model). *)
Fixpoint par_remove (P : list Z) (l : list iedge) : res (list Z) :=
  match l with
  | [] => Ok P
  | (_, e) :: r => do P <- set P (echild e) NULL; par_remove P r
  end.
Fixpoint par_insert (P : list Z) (l : list iedge) : res (list Z) :=
  match l with
  | [] => Ok P
  | (_, e) :: r => do P <- set P (echild e) (eparent e); par_insert P r
  end.
Fixpoint par_steps (P : list Z) (steps : list step) : res (list (list Z)) :=
  match steps with
  | [] => Ok []
  | s :: r => do P <- par_remove P (s_out s); do P <- par_insert P (s_in s);
              do rest <- par_steps P r; Ok (P :: rest)
  end.

(* specification functions for the counts: [csum P A x] is the sum of A[d] over the nodes d
   whose parent P[d] is x; [ind l u] is 1 if u is in l, else 0 *)
Fixpoint csum (P A : list Z) (x : Z) : Z :=
  match P, A with
  | p :: P', a :: A' => (if p =? x then a else 0) + csum P' A' x
  | _, _ => 0
  end.
Definition ind (l : list Z) (u : Z) : Z := if existsb (Z.eqb u) l then 1 else 0.

(* the number of (tracked) samples in the subtree of every node, by naive recursion over the
   children (depth-bounded by [fuel]; depth N+1 is the whole subtree since parents are older):
   count(u) = [u is a (tracked) sample] + sum of count(c) over the children c of u *)
Definition zseq0 (n : nat) : list Z := map Z.of_nat (seq 0 n).
Fixpoint sub_counts (fuel : nat) (P : list Z) (smp : Z -> Z) : list Z :=
  match fuel with
  | O%nat => map (fun _ => 0) P
  | S f => let A := sub_counts f P smp in map (fun u => smp u + csum P A u) (zseq0 (length P))
  end.

(* observation of one tree for the correspondence check *)
Definition obs_tree (o : topts) (t : tree) : list (list Z) :=
  [ [p_index (t_pos t); p_left (t_pos t); p_right (t_pos t); t_num_edges t];
    t_parent t; t_lc t; t_rc t; t_ls t; t_rs t; t_nc t; t_edge t; t_ns t; t_nt t ]
  ++ (if o_lists o then [t_lsamp t; t_rsamp t; t_nsamp t] else []).

Definition zll_eqb := list_eqb zlist_eqb.

Definition res_eqb {A} (eqb : A -> A -> bool) (r : res A) (x : A) : bool :=
  match r with Ok a => eqb a x | _ => false end.

(* ------------------------------------------------------------------------------------ *)
(* whole-case observation, compared with the implementation by the harness                *)
(* ------------------------------------------------------------------------------------ *)

Fixpoint mapM {A B} (f : A -> res B) (l : list A) : res (list B) :=
  match l with
  | [] => Ok []
  | x :: r => do y <- f x; do ys <- mapM f r; Ok (y :: ys)
  end.

Definition zseq (n : nat) : list Z := map Z.of_nat (seq 0 n).

Definition obs_queries (q : tseq) (t : tree) : res (list (list Z)) :=
  let V := q_N q in
  let nodes := zseq (Z.to_nat (V + 1)) in
  do pre <- preorder_from V t (-1);
  do post <- postorder_from V t (-1);
  do pres <- mapM (preorder_from V t) nodes;
  do posts <- mapM (postorder_from V t) nodes;
  do mr <- mapM (fun u => mapM (fun v => mrca q t u v) nodes) nodes;
  do dp <- mapM (depth V t) nodes;
  do isd <- mapM (fun u => mapM (fun v => do b <- is_descendant V t u v; Ok (if b then 1 else 0)) nodes) nodes;
  do tbl <- total_branch_length q t (-1);
  do ch <- mapM (children_of t) nodes;
  Ok ([pre; post] ++ pres ++ posts ++ mr ++ [dp] ++ isd ++ [[tbl]] ++ ch).

Definition obs_diffs (ds : list diff) : list (list Z) :=
  flat_map (fun d => let '(l, r, o, i) := d in [[l; r]; o; i]) ds.

(* the null state reached by calling next() on the last tree *)
Definition final_clear (q : tseq) (o : topts) (ts : list tree) : res tree :=
  match rev ts with
  | t :: _ => tree_clear_from q o t
  | [] => tree_clear q o
  end.

Definition model_obs (L : Z) (ns : list node) (es : list edge) (o : topts) (queries : bool)
  : res (list (list (list Z))) :=
  do q <- load L ns es;
  do d0 <- edge_diffs_forward L (q_I q) (q_O q) false;
  do d1 <- edge_diffs_forward L (q_I q) (q_O q) true;
  do ts <- all_trees q o;
  do tobs <- mapM (fun t => if queries then do qs <- obs_queries q t; Ok (obs_tree o t ++ qs)
                            else Ok (obs_tree o t)) ts;
  do tc <- final_clear q o ts;
  Ok ([ [map fst (q_I q); map fst (q_O q); q_bps q; [q_ntrees q];
         [if valid_edgesb L ns es then 1 else 0]; q_samples q; q_simap q];
        obs_diffs d0; obs_diffs d1 ] ++ tobs ++ [obs_tree o tc]).

Definition zlll_eqb := list_eqb zll_eqb.

(* ------------------------------------------------------------------------------------ *)
(* tsk_treeseq_init_trees: tree_sites[] and mutation->edge (node_edge_map)                *)
(* ------------------------------------------------------------------------------------ *)

Fixpoint nem_out (m : list Z) (l : list iedge) : res (list Z) :=
  match l with [] => Ok m | (_, e) :: r => do m <- set m (echild e) NULL; nem_out m r end.
Fixpoint nem_in (m : list Z) (l : list iedge) : res (list Z) :=
  match l with [] => Ok m | (i, e) :: r => do m <- set m (echild e) i; nem_in m r end.

(* while (mutation_id < num_mutations && mutation_site[mutation_id] == site_id) *)
Fixpoint muts_of_site (nem : list Z) (site_id : Z) (muts : list (Z * Z)) : res (list Z * list (Z * Z)) :=
  match muts with
  | (s, nd) :: r =>
      if s =? site_id then
        do e <- get nem nd; do '(es, rest) <- muts_of_site nem site_id r; Ok (e :: es, rest)
      else Ok ([], muts)
  | [] => Ok ([], [])
  end.

(* while (site_id < num_sites && site_position[site_id] < tree_right) *)
Fixpoint sites_of_tree (nem : list Z) (tr : Z) (sites muts : list (Z * Z))
  : res (list Z * list Z * list (Z * Z) * list (Z * Z)) :=
  match sites with
  | (sid, pos) :: r =>
      if pos <? tr then
        do '(me, muts') <- muts_of_site nem sid muts;
        do '(ids, mes, sr, mr) <- sites_of_tree nem tr r muts';
        Ok (sid :: ids, me ++ mes, sr, mr)
      else Ok ([], [], sites, muts)
  | [] => Ok ([], [], [], muts)
  end.

Fixpoint init_trees_sites (steps : list step) (nem : list Z) (sites muts : list (Z * Z))
  : res (list (list Z) * list Z) :=
  match steps with
  | [] => Ok ([], [])
  | s :: r =>
      do nem <- nem_out nem (s_out s);
      do nem <- nem_in nem (s_in s);
      do '(ids, mes, sites', muts') <- sites_of_tree nem (s_right s) sites muts;
      do '(rids, rmes) <- init_trees_sites r nem sites' muts';
      Ok (ids :: rids, mes ++ rmes)
  end.

Fixpoint enum_from {A} (i : Z) (l : list A) : list (Z * A) :=
  match l with [] => [] | x :: r => (i, x) :: enum_from (i + 1) r end.

(* sites: positions in id order; muts: (site, node) in id order.
   result: per-tree site id lists followed by the list of mutation edges *)
Definition model_sites (L : Z) (ns : list node) (es : list edge) (sites : list Z) (muts : list (Z * Z))
  : res (list (list Z)) :=
  do q <- load L ns es;
  do '(steps, _) <- sweep L (q_I q) (q_O q);
  do '(ids, mes) <- init_trees_sites steps (repeat NULL (length ns)) (enum_from 0 sites) muts;
  Ok (ids ++ [mes]).

(* ------------------------------------------------------------------------------------ *)
(* Python TreeSequence._edge_diffs_reverse (trees.py 4861-4912)                          *)
(* ------------------------------------------------------------------------------------ *)

(* [J] = removal order walked downwards (in_order[j], j = M-1 ..), [K] = insertion order walked
   downwards (out_order[k]); both are the *reversed* index lists, cursors are suffixes. *)
Definition next_left (J' K' : list iedge) : Z :=
  let l := 0 in
  let l := match J' with ie :: _ => Z.max l (iright ie) | [] => l end in
  match K' with ie :: _ => Z.max l (ileft ie) | [] => l end.

Fixpoint rsweep_loop (fuel : nat) (right : Z) (J K : list iedge) : res (list diff * list iedge) :=
  match fuel with
  | O%nat => Fuel
  | S f =>
      if negb (match J with [] => true | _ => false end) || (0 <? right) then
        let (out, K') := span (fun ie => ileft ie =? right) K in
        let (inn, J') := span (fun ie => iright ie =? right) J in
        let left := next_left J' K' in
        do '(rest, Kend) <- rsweep_loop f left J' K';
        Ok ((left, right, map fst out, map fst inn) :: rest, Kend)
      else Ok ([], K)
  end.

Definition edge_diffs_reverse (L : Z) (Ins Rem : list iedge) (include_terminal : bool) : res (list diff) :=
  do '(ds, Kend) <- rsweep_loop (sweep_fuel Ins Rem) L (rev Rem) (rev Ins);
  if include_terminal then
    let l := match rev ds with (l, _, _, _) :: _ => l | [] => 0 end in
    Ok (ds ++ [(l, l, map fst Kend, [])])
  else Ok ds.

(* ------------------------------------------------------------------------------------ *)
(* Python-level views of a tree (python/tskit/trees.py)                                   *)
(* ------------------------------------------------------------------------------------ *)

(* Tree.roots: left_root, right_sib, ... *)
Definition roots_of (V : Z) (t : tree) : res (list Z) := children_of t V.

Definition start_nodes (V : Z) (t : tree) (root : Z) : res (list Z) :=
  if root =? -1 then roots_of V t else Ok [root].

(* Tree._inorder_traversal (2438-2452) *)
Fixpoint inorder_rec (fuel : nat) (t : tree) (u : Z) : res (list Z) :=
  match fuel with
  | O%nat => Fuel
  | S f =>
      do ch <- children_of t u;
      let mid := Nat.div (length ch) 2 in
      do a <- mapM (inorder_rec f t) (firstn mid ch);
      do b <- mapM (inorder_rec f t) (skipn mid ch);
      Ok (concat a ++ [u] ++ concat b)
  end.
Definition inorder (V : Z) (t : tree) (root : Z) : res (list Z) :=
  do rs <- start_nodes V t root;
  do ls <- mapM (inorder_rec (S (length (t_parent t))) t) rs; Ok (concat ls).

(* Tree._levelorder_traversal (2454-2466): deque, popleft, extend(children) *)
Fixpoint level_loop (fuel : nat) (t : tree) (queue : list Z) : res (list Z) :=
  match queue with
  | [] => Ok []
  | v :: r =>
      match fuel with
      | O%nat => Fuel
      | S f => do ch <- children_of t v; do rest <- level_loop f t (r ++ ch); Ok (v :: rest)
      end
  end.
Definition levelorder (V : Z) (t : tree) (root : Z) : res (list Z) :=
  do rs <- start_nodes V t root; level_loop (S (length (t_parent t))) t rs.

(* Tree.timeasc (2390-2413): np.lexsort([nodes, time[nodes]]) of the preorder; the virtual
   root has time +inf.  key = (is virtual root, time, id) *)
Definition tkey (q : tseq) (u : Z) : res key4 :=
  if u =? q_N q then Ok (1, 0, u, 0) else do tm <- node_time (q_nodes q) u; Ok (0, tm, u, 0).
Definition timeasc (q : tseq) (t : tree) (root : Z) : res (list Z) :=
  do l <- preorder_from (q_N q) t root;
  do ks <- mapM (fun u => do k <- tkey q u; Ok (k, u)) l;
  Ok (map snd (isort ks)).
Definition timedesc (q : tseq) (t : tree) (root : Z) : res (list Z) :=
  do l <- timeasc q t root; Ok (rev l).

(* Tree._minlex_postorder_traversal (2480-2519) *)
Fixpoint assoc (m : list (Z * Z)) (k : Z) : res Z :=
  match m with [] => Err 4 | (a, b) :: r => if a =? k then Ok b else assoc r k end.
Fixpoint min_list (l : list Z) (d : Z) : Z :=
  match l with [] => d | x :: r => Z.min x (min_list r x) end.
Fixpoint min_leaf_map (t : tree) (post : list Z) (m : list (Z * Z)) : res (list (Z * Z)) :=
  match post with
  | [] => Ok m
  | u :: r =>
      do ch <- children_of t u;
      do v <- (match ch with
               | [] => Ok u
               | c :: _ => do ms <- mapM (assoc m) ch; Ok (min_list ms c)
               end);
      min_leaf_map t r ((u, v) :: m)
  end.
(* sorted(children, key=min_leaf, reverse=True) then pushed: the stack top is the child with
   the smallest min_leaf; a stable ascending sort gives the pop order *)
Fixpoint minlex_loop (fuel : nat) (t : tree) (V : Z) (isv : bool) (m : list (Z * Z))
                     (stack : list (Z * bool)) : res (list Z) :=
  match stack with
  | [] => Ok []
  | (u, visited) :: s =>
      match fuel with
      | O%nat => Fuel
      | S f =>
          if visited then
            do r <- minlex_loop f t V isv m s;
            Ok (if negb (u =? V) || isv then u :: r else r)
          else
            do ch <- children_of t u;
            do ks <- mapM (fun c => do k <- assoc m c; Ok ((k, 0, 0, 0), c)) ch;
            let sorted := map snd (isort ks) in
            minlex_loop f t V isv m (map (fun c => (c, false)) sorted ++ (u, true) :: s)
      end
  end.
Definition minlex_postorder (V : Z) (t : tree) (root : Z) : res (list Z) :=
  do post <- postorder_from V t root;
  do m <- min_leaf_map t post [];
  let isv := root =? V in
  let root' := if root =? -1 then V else root in
  minlex_loop (4 * S (length (t_parent t)))%nat t V isv m [(root', false)].

(* Tree.leaves(u) (2215-2239): preorder nodes without children *)
Fixpoint filterM (f : Z -> res bool) (l : list Z) : res (list Z) :=
  match l with
  | [] => Ok []
  | x :: r => do b <- f x; do rest <- filterM f r; Ok (if b then x :: rest else rest)
  end.
Definition leaves (V : Z) (t : tree) (root : Z) : res (list Z) :=
  do rs <- start_nodes V t root;
  do ls <- mapM (fun r => do l <- preorder_from V t r;
                          filterM (fun v => do ch <- children_of t v; Ok (match ch with [] => true | _ => false end)) l) rs;
  Ok (concat ls).

(* Tree.samples(u) (2241-2286, after fix 6e2f788: the virtual root is expanded to the roots) *)
Fixpoint sample_chain (fuel : nat) (samples nxt : list Z) (i stop : Z) : res (list Z) :=
  match fuel with
  | O%nat => Fuel
  | S f => do s <- get samples i;
           if i =? stop then Ok [s] else do n <- get nxt i; do r <- sample_chain f samples nxt n stop; Ok (s :: r)
  end.
Definition samples_of (q : tseq) (o : topts) (t : tree) (root : Z) : res (list Z) :=
  let V := q_N q in
  do rs <- (if (root =? -1) || (root =? V) then roots_of V t else Ok [root]);
  do ls <- mapM (fun r =>
      if o_lists o then
        do i <- get (t_lsamp t) r;
        if i =? NULL then Ok [] else
        do stop <- get (t_rsamp t) r;
        sample_chain (S (length (q_samples q))) (q_samples q) (t_nsamp t) i stop
      else
        do l <- preorder_from V t r;
        filterM (fun v => if v =? V then Ok false else do n <- get (q_nodes q) v; Ok (nsample n)) l) rs;
  Ok (concat ls).

(* all Python-level views of one tree, for the correspondence: per start node -1, 0..N *)
Definition obs_pyviews (q : tseq) (o : topts) (t : tree) : res (list (list Z)) :=
  let V := q_N q in
  let starts := (-1) :: zseq (Z.to_nat (V + 1)) in
  do r <- roots_of V t;
  do a <- mapM (inorder V t) starts;
  do b <- mapM (levelorder V t) starts;
  do c <- mapM (timeasc q t) starts;
  do d <- mapM (timedesc q t) starts;
  do e <- mapM (minlex_postorder V t) starts;
  do f <- mapM (leaves V t) starts;
  do g <- mapM (samples_of q o t) starts;
  Ok ([r] ++ a ++ b ++ c ++ d ++ e ++ f ++ g).

Definition model_pyviews (L : Z) (ns : list node) (es : list edge) (o : topts)
  : res (list (list (list Z))) :=
  do q <- load L ns es;
  do ts <- all_trees q o;
  do vs <- mapM (obs_pyviews q o) ts;
  do r0 <- edge_diffs_reverse L (q_I q) (q_O q) false;
  do r1 <- edge_diffs_reverse L (q_I q) (q_O q) true;
  Ok ([obs_diffs r0; obs_diffs r1] ++ vs).

(* ------------------------------------------------------------------------------------ *)
(* Python TreeSequence.edgesets (trees.py 4774-4806)                                     *)
(* ------------------------------------------------------------------------------------ *)
(* [children]: parent -> set of children, here an association list with sorted member lists;
   [active_edgesets]: a dict in insertion order, here a list of (parent, left). *)
Definition eset := (Z * Z * Z * list Z)%type.       (* left, right, parent, sorted children *)

Fixpoint kids_get (m : list (Z * list Z)) (p : Z) : list Z :=
  match m with [] => [] | (a, l) :: r => if a =? p then l else kids_get r p end.
Fixpoint kids_set (m : list (Z * list Z)) (p : Z) (l : list Z) : list (Z * list Z) :=
  match m with
  | [] => [(p, l)]
  | (a, x) :: r => if a =? p then (a, l) :: r else (a, x) :: kids_set r p l
  end.
Fixpoint zinsert (c : Z) (l : list Z) : list Z :=
  match l with [] => [c] | x :: r => if c <? x then c :: l else if c =? x then l else x :: zinsert c r end.
Fixpoint zremove (c : Z) (l : list Z) : list Z :=
  match l with [] => [] | x :: r => if c =? x then r else x :: zremove c r end.

Fixpoint act_pop (a : list (Z * Z)) (p : Z) : option Z * list (Z * Z) :=
  match a with
  | [] => (None, [])
  | (x, l) :: r => if x =? p then (Some l, r) else let (o, r') := act_pop r p in (o, (x, l) :: r')
  end.
Definition act_mem (a : list (Z * Z)) (p : Z) : bool := existsb (fun xl => fst xl =? p) a.

(* first loop of one transition: close the edgesets of every affected parent *)
Fixpoint es_close (kids : list (Z * list Z)) (left : Z) (ps : list Z) (act : list (Z * Z))
  : list eset * list (Z * Z) :=
  match ps with
  | [] => ([], act)
  | p :: r =>
      match act_pop act p with
      | (Some l0, act') => let (out, act'') := es_close kids left r act' in
                           ((l0, left, p, kids_get kids p) :: out, act'')
      | (None, _) => es_close kids left r act
      end
  end.

Fixpoint es_open (kids : list (Z * list Z)) (left : Z) (ps : list Z) (act : list (Z * Z)) : list (Z * Z) :=
  match ps with
  | [] => act
  | p :: r =>
      if negb (match kids_get kids p with [] => true | _ => false end) && negb (act_mem act p)
      then es_open kids left r (act ++ [(p, left)]) else es_open kids left r act
  end.

Fixpoint es_steps (steps : list step) (kids : list (Z * list Z)) (act : list (Z * Z)) : list eset * list (Z * list Z) * list (Z * Z) :=
  match steps with
  | [] => ([], kids, act)
  | s :: r =>
      let ps := map (fun ie => eparent (snd ie)) (s_out s ++ s_in s) in
      let (closed, act1) := es_close kids (s_left s) ps act in
      let kids1 := fold_left (fun k ie => kids_set k (eparent (snd ie)) (zremove (echild (snd ie)) (kids_get k (eparent (snd ie))))) (s_out s) kids in
      let kids2 := fold_left (fun k ie => kids_set k (eparent (snd ie)) (zinsert (echild (snd ie)) (kids_get k (eparent (snd ie))))) (s_in s) kids1 in
      let act2 := es_open kids2 (s_left s) ps act1 in
      let '(rest, kf, af) := es_steps r kids2 act2 in
      (closed ++ rest, kf, af)
  end.

Definition edgesets (L : Z) (Ins Rem : list iedge) : res (list eset) :=
  do '(steps, _) <- sweep L Ins Rem;
  let '(out, kids, act) := es_steps steps [] [] in
  Ok (out ++ map (fun pl => (snd pl, L, fst pl, kids_get kids (fst pl))) act).

Definition obs_edgesets (l : list eset) : list (list Z) :=
  flat_map (fun e => let '(a, b, p, ch) := e in [[a; b; p]; ch]) l.

Definition model_edgesets (L : Z) (ns : list node) (es : list edge) : res (list (list Z)) :=
  do q <- load L ns es; do l <- edgesets L (q_I q) (q_O q); Ok (obs_edgesets l).

(* ------------------------------------------------------------------------------------ *)
(* Python TreeSequence.coiterate (trees.py 5164-5199) on the two breakpoint lists         *)
(* ------------------------------------------------------------------------------------ *)
(* tree k of a sequence has interval [bps[k], bps[k+1]); [r1]/[r2] are the right ends of the
   current and all later trees, [lo] the left end and [k] the index of the current tree.
   `next(trees, None)` past the last tree gives None: the next use is Err 5. *)
Fixpoint coiter_loop (fuel : nat) (L right : Z) (r1 r2 : list Z) (k1 lo1 k2 lo2 : Z)
  : res (list (list Z)) :=
  if right =? L then Ok [] else
  match fuel with
  | O%nat => Fuel
  | S f =>
      match r1, r2 with
      | a :: r1', b :: r2' =>
          let right' := Z.min a b in
          let adv1 := a =? right' in
          let adv2 := b =? right' in
          do rest <- coiter_loop f L right'
                       (if adv1 then r1' else r1) (if adv2 then r2' else r2)
                       (if adv1 then k1 + 1 else k1) (if adv1 then a else lo1)
                       (if adv2 then k2 + 1 else k2) (if adv2 then b else lo2);
          Ok ([right; right'; k1; lo1; a; k2; lo2; b] :: rest)
      | _, _ => Err 5
      end
  end.

Definition coiterate (L : Z) (bps1 bps2 : list Z) : res (list (list Z)) :=
  coiter_loop (length bps1 + length bps2) L 0 (tl bps1) (tl bps2) 0 (hd 0 bps1) 0 (hd 0 bps2).

(* ------------------------------------------------------------------------------------ *)
(* Python Tree.mrca with a variable number of arguments (trees.py 1012-1029): fold of       *)
(* tsk_tree_get_mrca over the arguments, stopping as soon as there is no common ancestor   *)
(* ------------------------------------------------------------------------------------ *)
Fixpoint mrca_fold (q : tseq) (t : tree) (m : Z) (args : list Z) : res Z :=
  match args with
  | [] => Ok m
  | x :: r => do m' <- mrca q t m x; if m' =? NULL then Ok NULL else mrca_fold q t m' r
  end.
Definition py_mrca (q : tseq) (t : tree) (args : list Z) : res Z :=
  match args with
  | a :: ((_ :: _) as r) => mrca_fold q t a r
  | _ => Err 6          (* ValueError: Must supply at least two arguments *)
  end.

Definition model_mrca (L : Z) (ns : list node) (es : list edge) (o : topts) (argsl : list (list Z))
  : res (list (list Z)) :=
  do q <- load L ns es;
  do ts <- all_trees q o;
  mapM (fun t => mapM (py_mrca q t) argsl) ts.
