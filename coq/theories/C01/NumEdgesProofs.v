(* num_edges: in every tree of the sweep it is the number of nodes that have a parent. *)
From Coq Require Import List ZArith Bool Lia.
From TskVerif Require Import Base.Common.
From TskVerif Require Import C01.Model.
From TskVerif Require Import C01.ArrayLemmas.
From TskVerif Require Import C01.ProjProofs.
From TskVerif Require Import C01.TreeProofs.
From TskVerif Require Import C01.InductProofs.
Import ListNotations.
Open Scope Z_scope.

(* ---- projection of the full model onto edge[] ---- *)
Ltac setter_ne := intros H; match type of H with ?f _ _ _ = _ => unfold f in H end;
  bind_inv H; inversion H; reflexivity.
Lemma s_parent_n t u v t' : s_parent t u v = Ok t' -> t_num_edges t' = t_num_edges t. Proof. setter_ne. Qed.
Lemma s_lc_n t u v t' : s_lc t u v = Ok t' -> t_num_edges t' = t_num_edges t. Proof. setter_ne. Qed.
Lemma s_rc_n t u v t' : s_rc t u v = Ok t' -> t_num_edges t' = t_num_edges t. Proof. setter_ne. Qed.
Lemma s_ls_n t u v t' : s_ls t u v = Ok t' -> t_num_edges t' = t_num_edges t. Proof. setter_ne. Qed.
Lemma s_rs_n t u v t' : s_rs t u v = Ok t' -> t_num_edges t' = t_num_edges t. Proof. setter_ne. Qed.
Lemma s_nc_n t u v t' : s_nc t u v = Ok t' -> t_num_edges t' = t_num_edges t. Proof. setter_ne. Qed.
Lemma s_ns_n t u v t' : s_ns t u v = Ok t' -> t_num_edges t' = t_num_edges t. Proof. setter_ne. Qed.
Lemma s_nt_n t u v t' : s_nt t u v = Ok t' -> t_num_edges t' = t_num_edges t. Proof. setter_ne. Qed.
Lemma s_lsamp_n t u v t' : s_lsamp t u v = Ok t' -> t_num_edges t' = t_num_edges t. Proof. setter_ne. Qed.
Lemma s_rsamp_n t u v t' : s_rsamp t u v = Ok t' -> t_num_edges t' = t_num_edges t. Proof. setter_ne. Qed.
Lemma s_nsamp_n t u v t' : s_nsamp t u v = Ok t' -> t_num_edges t' = t_num_edges t. Proof. setter_ne. Qed.
Lemma s_edge_n t u v t' : s_edge t u v = Ok t' -> t_num_edges t' = t_num_edges t. Proof. setter_ne. Qed.

Ltac n_frames :=
  repeat match goal with
  | H : s_parent _ _ _ = Ok _ |- _ => apply s_parent_n in H
  | H : s_lc _ _ _ = Ok _ |- _ => apply s_lc_n in H
  | H : s_rc _ _ _ = Ok _ |- _ => apply s_rc_n in H
  | H : s_ls _ _ _ = Ok _ |- _ => apply s_ls_n in H
  | H : s_rs _ _ _ = Ok _ |- _ => apply s_rs_n in H
  | H : s_nc _ _ _ = Ok _ |- _ => apply s_nc_n in H
  | H : s_ns _ _ _ = Ok _ |- _ => apply s_ns_n in H
  | H : s_nt _ _ _ = Ok _ |- _ => apply s_nt_n in H
  | H : s_lsamp _ _ _ = Ok _ |- _ => apply s_lsamp_n in H
  | H : s_rsamp _ _ _ = Ok _ |- _ => apply s_rsamp_n in H
  | H : s_nsamp _ _ _ = Ok _ |- _ => apply s_nsamp_n in H
  | H : s_edge _ _ _ = Ok _ |- _ => apply s_edge_n in H
  end.

Lemma remove_branch_n t p c t' : remove_branch t p c = Ok t' -> t_num_edges t' = t_num_edges t.
Proof. unfold remove_branch. intros H. repeat bind_inv H. split_ifs; n_frames; congruence. Qed.

Lemma insert_branch_n t p c t' : insert_branch t p c = Ok t' -> t_num_edges t' = t_num_edges t.
Proof.
  unfold insert_branch. intros H. repeat bind_inv H.
  split_ifs; repeat match goal with H : bind _ _ = Ok _ |- _ => bind_inv H end; n_frames; congruence.
Qed.

Lemma insert_root_n V t r t' : insert_root V t r = Ok t' -> t_num_edges t' = t_num_edges t.
Proof. unfold insert_root. intros H. bind_inv H. apply insert_branch_n in E. n_frames. congruence. Qed.

Lemma propagate_n : forall fuel thr sign t c u pe wr t' pe' wr',
  propagate fuel thr sign t c u pe wr = Ok (t', pe', wr') -> t_num_edges t' = t_num_edges t.
Proof.
  induction fuel as [|f IH]; intros thr sign t c u pe wr t' pe' wr' H; simpl in H.
  - destruct (u =? NULL); [inversion H; reflexivity | discriminate].
  - destruct (u =? NULL); [inversion H; reflexivity|].
    bind_inv H. bind_inv H. bind_inv H. bind_inv H. bind_inv H. bind_inv H. bind_inv H.
    apply IH in H. n_frames. congruence.
Qed.

Lemma usl_children_n : forall fuel t u v t', usl_children fuel t u v = Ok t' -> t_num_edges t' = t_num_edges t.
Proof.
  induction fuel as [|f IH]; intros t u v t' H; simpl in H.
  - destruct (v =? NULL); [inversion H; reflexivity | discriminate].
  - destruct (v =? NULL); [inversion H; reflexivity|].
    bind_inv H. bind_inv H. bind_inv H. apply IH in H. rewrite H.
    destruct (negb (a =? NULL)); [|inversion E0; reflexivity].
    bind_inv E0. destruct (a2 =? NULL); [discriminate|]. bind_inv E0.
    destruct (a3 =? NULL).
    + bind_inv E0. n_frames. congruence.
    + bind_inv E0. bind_inv E0. n_frames. congruence.
Qed.

Lemma update_sample_lists_n : forall fuel simap t u t',
  update_sample_lists fuel simap t u = Ok t' -> t_num_edges t' = t_num_edges t.
Proof.
  induction fuel as [|f IH]; intros simap t u t' H; simpl in H.
  - destruct (u =? NULL); [inversion H; reflexivity | discriminate].
  - destruct (u =? NULL); [inversion H; reflexivity|].
    bind_inv H. bind_inv H. bind_inv H. bind_inv H. bind_inv H.
    apply IH in H. apply usl_children_n in E2. rewrite H, E2.
    destruct (negb (a =? NULL)).
    + bind_inv E0. n_frames. congruence.
    + bind_inv E0. n_frames. congruence.
Qed.

Lemma cond_lists_n lists simap t p t' : cond_lists lists simap t p = Ok t' -> t_num_edges t' = t_num_edges t.
Proof.
  unfold cond_lists. destruct lists; [apply update_sample_lists_n|]. intros H; inversion H; reflexivity.
Qed.
Lemma cond_remove_root_end_n V thr t wr pe t' : cond_remove_root_end V thr t wr pe = Ok t' -> t_num_edges t' = t_num_edges t.
Proof.
  unfold cond_remove_root_end. intros H. destruct wr; [|inversion H; reflexivity].
  bind_inv H. destruct (negb (thr <=? a)); [|inversion H; reflexivity].
  unfold remove_root in H. eapply remove_branch_n; eauto.
Qed.
Lemma cond_insert_root_c_n V thr t c t' : cond_insert_root_c V thr t c = Ok t' -> t_num_edges t' = t_num_edges t.
Proof.
  unfold cond_insert_root_c. intros H. bind_inv H.
  destruct (thr <=? a); [|inversion H; reflexivity]. eapply insert_root_n; eauto.
Qed.
Lemma cond_remove_root_c_n V thr t c t' : cond_remove_root_c V thr t c = Ok t' -> t_num_edges t' = t_num_edges t.
Proof.
  unfold cond_remove_root_c. intros H. bind_inv H.
  destruct (thr <=? a); [|inversion H; reflexivity]. unfold remove_root in H. eapply remove_branch_n; eauto.
Qed.
Lemma cond_insert_root_end_n V thr t wr pe t' : cond_insert_root_end V thr t wr pe = Ok t' -> t_num_edges t' = t_num_edges t.
Proof.
  unfold cond_insert_root_end. intros H. bind_inv H.
  destruct ((thr <=? a) && negb wr); [|inversion H; reflexivity]. eapply insert_root_n; eauto.
Qed.


Lemma remove_edge_n q o t p c t' :
  remove_edge q o t p c = Ok t' -> t_num_edges t' = t_num_edges t - 1.
Proof.
  unfold remove_edge. intros H.
  bind_inv H. apply remove_branch_n in E. bind_inv H. apply s_edge_n in E0. simpl in E0.
  bind_inv H. destruct a1 as [[t2 pe] wr]. apply propagate_n in E1.
  bind_inv H. apply cond_remove_root_end_n in E2. bind_inv H. apply cond_insert_root_c_n in E3.
  apply cond_lists_n in H. rewrite H, E3, E2, E1, E0, E. reflexivity.
Qed.

Lemma insert_edge_n q o t p c e t' :
  insert_edge q o t p c e = Ok t' -> t_num_edges t' = t_num_edges t + 1.
Proof.
  unfold insert_edge. intros H.
  bind_inv H. destruct a as [[t1 pe] wr]. apply propagate_n in E.
  bind_inv H. apply cond_remove_root_c_n in E0. bind_inv H. apply cond_insert_root_end_n in E1.
  bind_inv H. apply insert_branch_n in E2. bind_inv H. apply s_edge_n in E3. simpl in E3.
  apply cond_lists_n in H. rewrite H, E3, E2, E1, E0, E. reflexivity.
Qed.

Lemma insert_roots_n V : forall ss t t', insert_roots V t ss = Ok t' -> t_num_edges t' = t_num_edges t.
Proof.
  induction ss as [|s r IH]; intros t t' H; simpl in H.
  - inversion H; reflexivity.
  - bind_inv H. apply insert_root_n in E. apply IH in H. congruence.
Qed.

Lemma tree_clear_n q o t : tree_clear q o = Ok t -> t_num_edges t = 0.
Proof.
  unfold tree_clear. intros H.
  bind_inv H. bind_inv H. bind_inv H. bind_inv H. bind_inv H.
  match type of H with (if ?c then _ else _) = _ => destruct c end.
  - apply insert_roots_n in H. exact H.
  - inversion H; subst; reflexivity.
Qed.

(* number of nodes with a parent *)
Definition nparents (P : list Z) : Z := Z.of_nat (length (filter (fun p => negb (p =? NULL)) P)).

Definition np (P : list Z) : nat := length (filter (fun p => negb (p =? NULL)) P).

Lemma np_set_nat : forall P n v p0 P',
  set_nat P n v = Some P' -> nth_error P n = Some p0 ->
  (np P' + (if (p0 =? NULL)%Z then 0 else 1) = np P + (if (v =? NULL)%Z then 0 else 1))%nat.
Proof.
  unfold np. induction P as [|p P IH]; intros n v p0 P' S G; destruct n; simpl in S, G; try discriminate.
  - inversion S; inversion G; subst. cbn [filter]. destruct (p0 =? NULL), (v =? NULL); simpl; lia.
  - destruct (set_nat P n v) as [P1|] eqn:E; [|discriminate]. inversion S; subst. cbn [filter].
    specialize (IH n v p0 P1 E G). destruct (p =? NULL); simpl; lia.
Qed.

Lemma nparents_set_nat : forall P n v p0 P',
  set_nat P n v = Some P' -> nth_error P n = Some p0 ->
  nparents P' = nparents P - (if p0 =? NULL then 0 else 1) + (if v =? NULL then 0 else 1).
Proof.
  intros P n v p0 P' S G. pose proof (np_set_nat P n v p0 P' S G) as H.
  unfold nparents. fold (np P) (np P'). destruct (p0 =? NULL), (v =? NULL); lia.
Qed.

Lemma nparents_set P c v p0 P' : set P c v = Ok P' -> get P c = Ok p0 ->
  nparents P' = nparents P - (if p0 =? NULL then 0 else 1) + (if v =? NULL then 0 else 1).
Proof.
  intros S G. apply set_inv in S as [_ S]. eapply nparents_set_nat; eauto.
  unfold get in G. destruct (c <? 0); [discriminate|].
  destruct (nth_error P (Z.to_nat c)); [|discriminate]. now inversion G.
Qed.

Lemma nparents_repeat n : nparents (repeat NULL n) = 0.
Proof. unfold nparents. induction n; simpl; auto. Qed.

Section NumEdges.
  Variables (L : Z) (ns : list node) (es : list edge) (Ins Rem : list Z) (q : tseq).
  Hypothesis HV : valid_edges L ns es.
  Hypothesis HI : index_sorted es Ins Rem.
  Hypothesis HQ : mk_tseq L ns es Ins Rem = Ok q.
  Variable o : topts.

  Definition Jne (t : tree) : Prop := t_num_edges t = nparents (t_parent t).

  Theorem num_edges_invariant : forall k t, tree_at_index q o k = Ok t -> Jne t.
  Proof.
    apply (sweep_induction L ns es Ins Rem q HV HI HQ o Jne).
    - intros t H. unfold Jne. rewrite (tree_clear_n _ _ _ H).
      destruct (tree_clear_par _ _ _ H) as [-> _]. now rewrite nparents_repeat.
    - intros t e t' J He GP H. unfold Jne in *.
      rewrite (remove_edge_n _ _ _ _ _ _ H).
      rewrite (nparents_set _ _ _ _ _ (remove_edge_par _ _ _ _ _ _ H) GP).
      destruct (ve_ok _ _ _ HV e He) as (_ & _ & _ & Hp & _).
      replace (eparent e =? NULL) with false by (symmetry; apply Z.eqb_neq; unfold NULL; lia).
      simpl. lia.
    - intros t e i t' J He GP H. unfold Jne in *.
      rewrite (insert_edge_n _ _ _ _ _ _ _ H).
      rewrite (nparents_set _ _ _ _ _ (insert_edge_par _ _ _ _ _ _ _ H) GP).
      destruct (ve_ok _ _ _ HV e He) as (_ & _ & _ & Hp & _).
      replace (eparent e =? NULL) with false by (symmetry; apply Z.eqb_neq; unfold NULL; lia).
      simpl. lia.
    - intros t p J. exact J.
  Qed.
End NumEdges.
