(* levelorder visits nodes in non-decreasing depth *)
From Coq Require Import List ZArith Bool Lia Sorting.Sorted.
From TskVerif Require Import Base.Common.
From TskVerif Require Import C01.Model.
From TskVerif Require Import C01.ViewsProofs.
Import ListNotations.
Open Scope Z_scope.

(* the queue algorithm with every entry tagged by its depth: a child is one deeper than the
   node it was appended for *)
Inductive BFS2 (K : Z -> list Z) : list (Z * Z) -> list (Z * Z) -> Prop :=
| BFS2_nil : BFS2 K [] []
| BFS2_cons : forall v d r out,
    BFS2 K (r ++ map (fun c => (c, d + 1)) (K v)) out -> BFS2 K ((v, d) :: r) ((v, d) :: out).

Lemma BFS_tagged K : forall queue out, BFS K queue out ->
  forall q2, map fst q2 = queue -> exists out2, BFS2 K q2 out2 /\ map fst out2 = out.
Proof.
  induction 1 as [|v r out B IH]; intros q2 E.
  - destruct q2; [|discriminate]. exists []. split; constructor.
  - destruct q2 as [|[v' d] r2]; [discriminate|]. simpl in E. inversion E; subst v' r.
    destruct (IH (r2 ++ map (fun c => (c, d + 1)) (K v))) as (o2 & B2 & M).
    { rewrite map_app, map_map. simpl. rewrite map_id. reflexivity. }
    exists ((v, d) :: o2). split; [constructor; exact B2 | simpl; now rewrite M].
Qed.

Definition nondecr (l : list Z) : Prop := StronglySorted Z.le l.

Lemma nondecr_app l x : nondecr l -> (forall y, In y l -> y <= x) -> forall n, nondecr (l ++ repeat x n).
Proof.
  intros S H n. induction l as [|a r IH]; simpl.
  - induction n; simpl; constructor; auto. apply Forall_forall. intros y Hy. apply repeat_spec in Hy. lia.
  - apply StronglySorted_inv in S as [S1 S2]. rewrite Forall_forall in S2. constructor.
    + apply IH; [exact S1 | intros; apply H; right; assumption].
    + apply Forall_forall. intros y Hy. apply in_app_iff in Hy as [Hy|Hy]; [auto|].
      apply repeat_spec in Hy. subst y. apply H. left; reflexivity.
Qed.

Lemma BFS2_sorted K : forall q out, BFS2 K q out ->
  nondecr (map snd q) -> (forall d0 r, q = d0 :: r -> forall x, In x (map snd q) -> x <= snd d0 + 1) ->
  nondecr (map snd out) /\ (forall d0 r, q = d0 :: r -> forall x, In x (map snd out) -> snd d0 <= x).
Proof.
  induction 1 as [|v d r out B IH]; intros S Bd.
  - split; [constructor | intros; discriminate].
  - simpl in S. apply StronglySorted_inv in S as [S1 S2]. rewrite Forall_forall in S2.
    assert (Bd' : forall x, In x (map snd r) -> x <= d + 1).
    { intros x Hx. apply (Bd (v, d) r eq_refl). right; exact Hx. }
    assert (E : map snd (r ++ map (fun c => (c, d + 1)) (K v)) = map snd r ++ repeat (d + 1) (length (K v))).
    { rewrite map_app, map_map. simpl. f_equal. clear. induction (K v); simpl; congruence. }
    destruct IH as [I1 I2].
    + rewrite E. apply nondecr_app; auto.
    + intros d0 r0 Eq x Hx. rewrite E in Hx.
      assert (D0 : d <= snd d0).
      { destruct r as [|[v1 d1] r1]; simpl in Eq.
        - destruct (K v); simpl in Eq; [discriminate|]. inversion Eq; subst. simpl. lia.
        - inversion Eq; subst. simpl. apply S2. left; reflexivity. }
      apply in_app_iff in Hx as [Hx|Hx]; [specialize (Bd' x Hx); lia|].
      apply repeat_spec in Hx. lia.
    + split.
      * simpl. constructor; [exact I1|]. apply Forall_forall. intros x Hx.
        destruct (r ++ map (fun c => (c, d + 1)) (K v)) as [|d0 r0] eqn:Eq.
        -- inversion B; subst. destruct Hx.
        -- pose proof (I2 d0 r0 eq_refl x Hx) as G.
           assert (D0 : d <= snd d0).
           { destruct r as [|[v1 d1] r1]; simpl in Eq.
             - destruct (K v); simpl in Eq; [discriminate|]. inversion Eq; subst. simpl. lia.
             - inversion Eq; subst. simpl. apply S2. left; reflexivity. }
           lia.
      * intros d0 r0 Eq x Hx. injection Eq as E1 E2. subst d0 r0. simpl in Hx. destruct Hx as [<-|Hx]; [simpl; lia|].
        destruct (r ++ map (fun c => (c, d + 1)) (K v)) as [|d1 r1] eqn:Eq'.
        -- inversion B; subst. destruct Hx.
        -- pose proof (I2 d1 r1 eq_refl x Hx) as G.
           assert (D0 : d <= snd d1).
           { destruct r as [|[v1 dd] rr]; simpl in Eq'.
             - destruct (K v); simpl in Eq'; [discriminate|]. inversion Eq'; subst. simpl. lia.
             - inversion Eq'; subst. simpl. apply S2. left; reflexivity. }
           simpl. lia.
Qed.

(* started from nodes at depth 0 *)
Lemma levelorder_depth_sorted_lemma K starts out : BFS K starts out ->
  exists out2, BFS2 K (map (fun v => (v, 0)) starts) out2 /\ map fst out2 = out /\ nondecr (map snd out2).
Proof.
  intros B. destruct (BFS_tagged K _ _ B (map (fun v => (v, 0)) starts)) as (o2 & B2 & M).
  { rewrite map_map. simpl. apply map_id. }
  exists o2. split; [exact B2|]. split; [exact M|].
  apply (BFS2_sorted K _ _ B2).
  - rewrite map_map. simpl. clear. induction starts; simpl; constructor; auto.
    apply Forall_forall. intros y Hy. apply in_map_iff in Hy as (? & <- & _). lia.
  - intros d0 r Eq x Hx. rewrite map_map in Hx. simpl in Hx. apply in_map_iff in Hx as (? & <- & _).
    destruct starts; [discriminate|]. simpl in Eq. inversion Eq. simpl. lia.
Qed.
