(* The Python-level list views over the representation K: inorder, levelorder, leaves and
   samples (without sample lists) computed on the linked arrays are the list functions over
   the child lists. *)
From Coq Require Import List ZArith Bool Lia.
From TskVerif Require Import Base.Common.
From TskVerif Require Import C01.Model.
From TskVerif Require Import C01.ArrayLemmas.
From TskVerif Require Import C01.ProjProofs.
From TskVerif Require Import C01.TreeProofs.
From TskVerif Require Import C01.LinkProofs.
From TskVerif Require Import C01.RepProofs.
From TskVerif Require Import C01.TraversalProofs.
Import ListNotations.
Open Scope Z_scope.

(* inorder: the first |children|/2 subtrees, the node, the remaining subtrees *)
Inductive InO (K : Z -> list Z) : Z -> list Z -> Prop :=
| InO_node : forall u a b,
    Forall2 (InO K) (firstn (Nat.div (length (K u)) 2) (K u)) a ->
    Forall2 (InO K) (skipn (Nat.div (length (K u)) 2) (K u)) b ->
    InO K u (concat a ++ [u] ++ concat b).

(* breadth first: pop the head, append its children at the tail *)
Inductive BFS (K : Z -> list Z) : list Z -> list Z -> Prop :=
| BFS_nil : BFS K [] []
| BFS_cons : forall v r out, BFS K (r ++ K v) out -> BFS K (v :: r) (v :: out).

Lemma firstn_In' {A} (l : list A) n x : In x (firstn n l) -> In x l.
Proof. intros H. rewrite <- (firstn_skipn n l). apply in_app_iff. left; exact H. Qed.
Lemma skipn_In' {A} (l : list A) n x : In x (skipn n l) -> In x l.
Proof. intros H. rewrite <- (firstn_skipn n l). apply in_app_iff. right; exact H. Qed.

Section Views.
  Variables (N : Z) (t : tree) (K : Z -> list Z).
  Hypothesis LR : LinkRep N t K.
  Hypothesis LP : length (t_parent t) = Z.to_nat (N + 1).
  Hypothesis HN : 0 <= N.

  Let CO : forall p, 0 <= p <= N -> children_of t p = Ok (K p).
  Proof. intros p Hp. unfold children_of.
    pose proof (lr_chain N _ _ LR p Hp) as C. unfold Chain in C.
    assert (exists c0, nxt t p NULL = Ok c0) as [c0 G0].
    { destruct (K p); simpl in C; [destruct C as [X _] | destruct C as (X & _)]; eauto. }
    pose proof G0 as G0'. unfold nxt in G0'. simpl in G0'. rewrite G0'. cbn [bind].
    eapply (chain_seg nil (mkOpts 1 false nil)); eauto.
    assert (length (K p) <= length (zseq (Z.to_nat N)))%nat.
    { apply NoDup_incl_length; [apply (lr_nodup N _ _ LR p Hp)|].
      intros x Hx. apply In_zseq. pose proof (lr_range N _ _ LR p x Hp Hx). lia. }
    unfold zseq in H. rewrite map_length, seq_length in H. lia.
  Qed.

  Lemma kids_range u x : 0 <= u <= N -> In x (K u) -> 0 <= x <= N.
  Proof. intros Hu Hx. pose proof (lr_range N _ _ LR u x Hu Hx). lia. Qed.

  Lemma mapM_Forall2 {A B} (f : A -> res B) (R : A -> B -> Prop) : forall l out,
    (forall x y, In x l -> f x = Ok y -> R x y) -> mapM f l = Ok out -> Forall2 R l out.
  Proof.
    induction l as [|x r IH]; intros out H M; simpl in M.
    - inversion M; constructor.
    - bind_inv M. bind_inv M. inversion M; subst. constructor.
      + apply H; [left; reflexivity | assumption].
      + apply IH; [intros; apply H; [right|]; assumption | reflexivity].
  Qed.

  Lemma inorder_rec_spec : forall fuel u out, 0 <= u <= N ->
    inorder_rec fuel t u = Ok out -> InO K u out.
  Proof.
    induction fuel as [|f IH]; intros u out Hu H; simpl in H; [discriminate|].
    rewrite (CO u Hu) in H. cbn [bind] in H. bind_inv H. bind_inv H. inversion H; subst out. clear H.
    constructor.
    - eapply mapM_Forall2; [|exact E]. intros x y Hx Hy. apply IH; [|exact Hy].
      apply (kids_range u); [exact Hu|]. eapply firstn_In'; eauto.
    - eapply mapM_Forall2; [|exact E0]. intros x y Hx Hy. apply IH; [|exact Hy].
      apply (kids_range u); [exact Hu|]. eapply skipn_In'; eauto.
  Qed.

  Lemma level_loop_spec : forall fuel queue out,
    (forall x, In x queue -> 0 <= x <= N) ->
    level_loop fuel t queue = Ok out -> BFS K queue out.
  Proof.
    induction fuel as [|f IH]; intros queue out R H; destruct queue as [|v r]; simpl in H.
    - inversion H; constructor.
    - discriminate.
    - inversion H; constructor.
    - rewrite (CO v (R v (or_introl eq_refl))) in H. cbn [bind] in H. bind_inv H. inversion H; subst out.
      constructor. apply IH; [|exact E].
      intros x Hx. apply in_app_iff in Hx as [Hx|Hx]; [apply R; right; exact Hx|].
      apply (kids_range v); [apply R; left; reflexivity | exact Hx].
  Qed.

  Lemma filterM_filter (f : Z -> res bool) (g : Z -> bool) : forall l out,
    (forall x, In x l -> f x = Ok (g x)) -> filterM f l = Ok out -> out = filter g l.
  Proof.
    induction l as [|x r IH]; intros out H M; simpl in M.
    - inversion M; reflexivity.
    - rewrite (H x (or_introl eq_refl)) in M. cbn [bind] in M. bind_inv M. inversion M; subst out.
      simpl. rewrite (IH a (fun y Hy => H y (or_intror Hy)) eq_refl). reflexivity.
  Qed.

  Definition leafb (v : Z) : bool := match K v with [] => true | _ => false end.

  (* leaves(u) for one start node: the childless nodes of the preorder, in preorder *)
  Lemma leaves_one_spec r pre out : 0 <= r <= N ->
    preorder_from N t r = Ok pre -> (forall x, In x pre -> 0 <= x <= N) ->
    filterM (fun v => do ch <- children_of t v; Ok (match ch with [] => true | _ => false end)) pre = Ok out ->
    out = filter leafb pre.
  Proof.
    intros Hr HP R H. eapply filterM_filter; [|exact H].
    intros x Hx. cbv beta. rewrite (CO x (R x Hx)). reflexivity.
  Qed.
End Views.
