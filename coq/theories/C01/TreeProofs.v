(* first(); next()^k reaches a tree whose parent array is parent_at x for every x of the
   k-th interval; breakpoints; edge diffs. *)
From Coq Require Import List ZArith Bool Lia Sorting.Sorted Permutation.
From TskVerif Require Import Base.Common.
From TskVerif Require Import C01.Model.
From TskVerif Require Import C01.ArrayLemmas.
From TskVerif Require Import C01.SpanProofs.
From TskVerif Require Import C01.SweepProofs.
From TskVerif Require Import C01.ParentProofs.
From TskVerif Require Import C01.ProjProofs.
Import ListNotations.
Open Scope Z_scope.

(* ------------------------------------------------------------------------------------ *)
(* validity, as Props                                                                     *)
(* ------------------------------------------------------------------------------------ *)

Lemma pairwise_disjoint_spec : forall es,
  pairwise_disjointb es = true ->
  (forall e, In e es -> eleft e < eright e) ->
  forall e1 e2, In e1 es -> In e2 es -> echild e1 = echild e2 ->
  eleft e1 < eright e2 -> eleft e2 < eright e1 -> e1 = e2.
Proof.
  induction es as [|e r IH]; intros H Hlr e1 e2 H1 H2 Hc A B; [destruct H1|].
  simpl in H. apply andb_true_iff in H as [Hf Hr]. rewrite forallb_forall in Hf.
  assert (IH' := IH Hr (fun e' He' => Hlr e' (or_intror He'))).
  destruct H1 as [<-|H1], H2 as [<-|H2]; auto.
  - exfalso. specialize (Hf _ H2). unfold disjointb in Hf.
    apply orb_true_iff in Hf as [Hf|Hf]; [apply orb_true_iff in Hf as [Hf|Hf]|].
    + apply negb_true_iff, Z.eqb_neq in Hf. congruence.
    + apply Z.leb_le in Hf. lia.
    + apply Z.leb_le in Hf. lia.
  - exfalso. specialize (Hf _ H1). unfold disjointb in Hf.
    apply orb_true_iff in Hf as [Hf|Hf]; [apply orb_true_iff in Hf as [Hf|Hf]|].
    + apply negb_true_iff, Z.eqb_neq in Hf. congruence.
    + apply Z.leb_le in Hf. lia.
    + apply Z.leb_le in Hf. lia.
Qed.

Lemma pairwise_disjoint_nodup : forall es,
  pairwise_disjointb es = true -> (forall e, In e es -> eleft e < eright e) -> NoDup es.
Proof.
  induction es as [|e r IH]; intros H Hlr; [constructor|].
  simpl in H. apply andb_true_iff in H as [Hf Hr]. rewrite forallb_forall in Hf.
  constructor.
  - intros Hin. specialize (Hf _ Hin). unfold disjointb in Hf.
    rewrite Z.eqb_refl in Hf. simpl in Hf.
    assert (eleft e < eright e) by (apply Hlr; left; reflexivity).
    apply orb_true_iff in Hf as [Hf|Hf]; apply Z.leb_le in Hf; lia.
  - apply IH; auto. intros e' He'. apply Hlr. right; exact He'.
Qed.

Record valid_edges (L : Z) (ns : list node) (es : list edge) : Prop := {
  ve_nodup : NoDup es;
  ve_L : 0 < L;
  ve_ok : forall e, In e es ->
      0 <= eleft e < eright e /\ eright e <= L /\
      0 <= echild e < zlen ns /\ 0 <= eparent e < zlen ns /\
      exists p c, get ns (eparent e) = Ok p /\ get ns (echild e) = Ok c /\ ntime c < ntime p;
  ve_disj : forall e1 e2, In e1 es -> In e2 es -> echild e1 = echild e2 ->
      eleft e1 < eright e2 -> eleft e2 < eright e1 -> e1 = e2
}.

Lemma valid_edgesb_spec L ns es : valid_edgesb L ns es = true -> valid_edges L ns es.
Proof.
  unfold valid_edgesb. intros H. apply andb_true_iff in H as [H H3].
  apply andb_true_iff in H as [H1 H2]. apply Z.ltb_lt in H1. rewrite forallb_forall in H2.
  assert (OK : forall e, In e es ->
      0 <= eleft e < eright e /\ eright e <= L /\
      0 <= echild e < zlen ns /\ 0 <= eparent e < zlen ns /\
      exists p c, get ns (eparent e) = Ok p /\ get ns (echild e) = Ok c /\ ntime c < ntime p).
  { intros e He. specialize (H2 e He). unfold edge_okb in H2.
    repeat (apply andb_true_iff in H2 as [H2 ?]).
    destruct (get ns (eparent e)) as [p| | |] eqn:Ep; try discriminate.
    destruct (get ns (echild e)) as [c| | |] eqn:Ec; try discriminate.
    repeat match goal with
           | X : (_ <=? _) = true |- _ => apply Z.leb_le in X
           | X : (_ <? _) = true |- _ => apply Z.ltb_lt in X
           end.
    repeat split; try lia. exists p, c. auto. }
  constructor; auto.
  - apply pairwise_disjoint_nodup; auto. intros e He. destruct (OK e He) as (? & _). lia.
  - apply pairwise_disjoint_spec; auto. intros e He. destruct (OK e He) as (? & _). lia.
Qed.

(* ------------------------------------------------------------------------------------ *)
(* resolved index lists                                                                   *)
(* ------------------------------------------------------------------------------------ *)

Lemma resolve_spec es : forall idx l, resolve es idx = Ok l ->
  map fst l = idx /\ forall i e, In (i, e) l -> get es i = Ok e.
Proof.
  induction idx as [|i r IH]; intros l H; simpl in H.
  - inversion H; subst. split; [reflexivity | intros ? ? []].
  - bind_inv H. bind_inv H. inversion H; subst. destruct (IH _ eq_refl) as [M G]. split.
    + simpl. now rewrite M.
    + intros i' e' [X|X]; [inversion X; subst; exact E | eauto].
Qed.

Lemma get_In {A} (l : list A) i a : get l i = Ok a -> In a l.
Proof.
  unfold get. destruct (i <? 0); [discriminate|].
  destruct (nth_error l (Z.to_nat i)) eqn:E; [|discriminate].
  intros H; inversion H; subst. eapply nth_error_In; eauto.
Qed.

Lemma In_zseq n i : In i (zseq n) <-> 0 <= i < Z.of_nat n.
Proof.
  unfold zseq. rewrite in_map_iff. split.
  - intros (k & <- & H). apply in_seq in H. lia.
  - intros H. exists (Z.to_nat i). split; [lia|]. apply in_seq. lia.
Qed.

Lemma resolve_total es : forall idx,
  (forall i, In i idx -> 0 <= i < zlen es) -> exists l, resolve es idx = Ok l.
Proof.
  induction idx as [|i r IH]; intros H; simpl; [eauto|].
  destruct (get_ok es i) as [e E]; [apply H; left; reflexivity|]. rewrite E. simpl.
  destruct IH as [l El]; [intros; apply H; right; assumption|]. rewrite El. simpl. eauto.
Qed.

(* the index arrays are permutations of the edge ids, sorted by left / right *)
Record index_sorted (es : list edge) (Ins Rem : list Z) : Prop := {
  is_permI : Permutation Ins (zseq (length es));
  is_permO : Permutation Rem (zseq (length es));
  is_sortI : forall IE, resolve es Ins = Ok IE -> sorted_by ileft IE;
  is_sortO : forall OE, resolve es Rem = Ok OE -> sorted_by iright OE
}.

Lemma resolved_members es idx l :
  Permutation idx (zseq (length es)) -> resolve es idx = Ok l ->
  (forall ie, In ie l -> In (snd ie) es) /\ (forall e, In e es -> exists i, In (i, e) l).
Proof.
  intros P R. destruct (resolve_spec es idx l R) as [M G]. split.
  - intros [i e] H. simpl. eapply get_In; eauto.
  - intros e He. apply In_nth_error in He as [n Hn].
    assert (Hi : In (Z.of_nat n) idx).
    { eapply Permutation_in; [apply Permutation_sym; exact P|]. apply In_zseq.
      assert (nth_error es n <> None) by congruence. apply nth_error_Some in H. lia. }
    rewrite <- M in Hi. apply in_map_iff in Hi as ([i e'] & Hf & Hin). simpl in Hf. subst i.
    exists (Z.of_nat n). specialize (G _ _ Hin). unfold get in G.
    destruct (Z.of_nat n <? 0); [discriminate|]. rewrite Nat2Z.id, Hn in G. inversion G; subst. exact Hin.
Qed.

(* ------------------------------------------------------------------------------------ *)
(* everything that holds for a valid table collection with sorted indexes                 *)
(* ------------------------------------------------------------------------------------ *)

Section Main.
  Variables (L : Z) (ns : list node) (es : list edge) (Ins Rem : list Z) (q : tseq).
  Hypothesis HV : valid_edges L ns es.
  Hypothesis HI : index_sorted es Ins Rem.
  Hypothesis HQ : mk_tseq L ns es Ins Rem = Ok q.

  Let N := zlen ns.

  Lemma mk_tseq_inv : exists steps Oend,
    resolve es Ins = Ok (q_I q) /\ resolve es Rem = Ok (q_O q) /\
    sweep L (q_I q) (q_O q) = Ok (steps, Oend) /\
    q_bps q = breakpoints_of L steps /\ q_ntrees q = zlen steps /\ q_N q = N /\
    q_edges q = es /\ q_nodes q = ns /\ q_L q = L.
  Proof.
    unfold mk_tseq in HQ. bind_inv HQ. bind_inv HQ. bind_inv HQ. destruct a1 as [steps Oend].
    inversion HQ; subst; simpl. exists steps, Oend. repeat split; auto.
  Qed.

  Lemma sortedI : sorted_by ileft (q_I q).
  Proof. destruct mk_tseq_inv as (? & ? & R & _). eapply is_sortI; eauto. Qed.
  Lemma sortedO : sorted_by iright (q_O q).
  Proof. destruct mk_tseq_inv as (? & ? & _ & R & _). eapply is_sortO; eauto. Qed.

  Lemma memI : (forall ie, In ie (q_I q) -> In (snd ie) es) /\ (forall e, In e es -> exists i, In (i, e) (q_I q)).
  Proof. destruct mk_tseq_inv as (? & ? & R & _). exact (resolved_members es Ins (q_I q) (is_permI _ _ _ HI) R). Qed.
  Lemma memO : (forall ie, In ie (q_O q) -> In (snd ie) es) /\ (forall e, In e es -> exists i, In (i, e) (q_O q)).
  Proof. destruct mk_tseq_inv as (? & ? & _ & R & _). exact (resolved_members es Rem (q_O q) (is_permO _ _ _ HI) R). Qed.

  Lemma boundI : forall ie, In ie (q_I q) -> 0 <= ileft ie < L.
  Proof. intros ie H. apply memI in H. destruct (ve_ok _ _ _ HV _ H) as (? & ? & _). unfold ileft. lia. Qed.
  Lemma boundO : forall ie, In ie (q_O q) -> 0 < iright ie <= L.
  Proof. intros ie H. apply memO in H. destruct (ve_ok _ _ _ HV _ H) as (? & ? & _). unfold iright. lia. Qed.

  Lemma Hok' : forall e, In e es -> 0 <= eleft e < eright e /\ 0 <= echild e < N /\ 0 <= eparent e.
  Proof. intros e H. destruct (ve_ok _ _ _ HV _ H) as (? & ? & ? & ? & _). unfold N. lia. Qed.

  Definition sem := sem_step L (q_I q) (q_O q).

  (* parent transition for a step that satisfies the semantic description *)
  Lemma step_parent s P :
    sem s -> PreB N es P (s_left s) ->
    exists P1 P2, par_remove P (s_out s) = Ok P1 /\ par_insert P1 (s_in s) = Ok P2 /\
                  PostB N es P2 (s_left s) /\ PreB N es P2 (s_right s) /\
                  (forall x, s_left s <= x < s_right s -> PostB N es P2 x).
  Proof.
    intros (SO & SI & _ & _ & B1 & B2 & N1 & N2) Pre.
    destruct memI as [MI1 MI2]. destruct memO as [MO1 MO2].
    destruct (par_step N es Hok' (ve_disj _ _ _ HV) P (s_left s) (s_out s) (s_in s) Pre)
      as (P1 & P2 & E1 & E2 & Post).
    - intros ie H. rewrite SO in H. apply filter_In in H as [H1 H2]. apply Z.eqb_eq in H2. auto.
    - intros e He Hr. destruct (MO2 e He) as [i Hi]. exists i. rewrite SO.
      apply filter_In. split; [exact Hi | apply Z.eqb_eq; exact Hr].
    - intros ie H. rewrite SI in H. apply filter_In in H as [H1 H2]. apply Z.eqb_eq in H2. auto.
    - intros e He Hl. destruct (MI2 e He) as [i Hi]. exists i. rewrite SI.
      apply filter_In. split; [exact Hi | apply Z.eqb_eq; exact Hl].
    - assert (NL : forall e, In e es -> eleft e <= s_left s \/ s_right s <= eleft e).
      { intros e He. destruct (MI2 e He) as [i Hi]. apply (N1 _ Hi). }
      assert (NR : forall e, In e es -> eright e <= s_left s \/ s_right s <= eright e).
      { intros e He. destruct (MO2 e He) as [i Hi]. apply (N2 _ Hi). }
      exists P1, P2. split; [exact E1|]. split; [exact E2|]. split; [exact Post|]. split.
      + eapply post_pre; eauto using Hok', (ve_disj _ _ _ HV). lia.
      + intros x Hx. eapply post_interval; eauto.
  Qed.

  (* layer L1 is total: the parent-only sweep never fails on valid input *)
  Lemma par_steps_total : forall tl Ins' Rem' steps Oend,
    chain_ok L tl Ins' Rem' steps Oend -> Forall sem steps ->
    forall P, PreB N es P tl ->
    exists Ps, par_steps P steps = Ok Ps /\
      Forall2 (fun s P' => forall x, s_left s <= x < s_right s -> PostB N es P' x) steps Ps.
  Proof.
    induction 1 as [|tl I0 O0 s rest Oend C HL SO SI HR CH IH]; intros F P Pre.
    - exists []. split; [reflexivity | constructor].
    - inversion F as [|? ? Fs Fr]; subst.
      destruct (step_parent s P Fs Pre) as (P1 & P2 & E1 & E2 & _ & Pre' & Post).
      destruct (IH Fr P2 Pre') as (Ps & E & FA).
      exists (P2 :: Ps). simpl. rewrite E1. simpl. rewrite E2. simpl. rewrite E. simpl.
      split; [reflexivity|]. constructor; auto.
  Qed.

  (* ---- simulation: the tree position walks the sweep's steps ---- *)
  Variable o : topts.

  Definition at_step (steps : list step) (k : nat) (t : tree) : Prop :=
    exists s, nth_error steps k = Some s /\
      p_index (t_pos t) = Z.of_nat k /\ p_left (t_pos t) = s_left s /\ p_right (t_pos t) = s_right s /\
      p_out (t_pos t) = s_out s /\ p_in (t_pos t) = s_in s /\
      p_irest (t_pos t) = s_irest s /\ p_orest (t_pos t) = s_orest s /\
      s_left s < s_right s /\
      PreB N es (t_parent t) (s_right s) /\
      forall x, s_left s <= x < s_right s -> PostB N es (t_parent t) x.

  Lemma zlen_nth_error {A} (l : list A) k : Z.of_nat k < zlen l -> exists a, nth_error l k = Some a.
  Proof.
    unfold zlen. intros H. destruct (nth_error l k) eqn:E; [eauto|].
    apply nth_error_None in E. lia.
  Qed.

  Lemma breakpoints_len steps : zlen (breakpoints_of L steps) = zlen steps + 1.
  Proof. unfold breakpoints_of, zlen. rewrite app_length, map_length. simpl. lia. Qed.

  (* one call of tree_next from the state described by [pre_state] *)
  Lemma tree_next_step steps Oend (k : nat) (t t' : tree) :
    chain_ok L 0 (q_I q) (q_O q) steps Oend -> Forall sem steps ->
    q_bps q = breakpoints_of L steps -> q_ntrees q = zlen steps ->
    p_index (t_pos t) = Z.of_nat k - 1 ->
    (if p_index (t_pos t) =? -1 then (0, q_I q, q_O q)
     else (p_right (t_pos t), p_irest (t_pos t), p_orest (t_pos t)))
      = pre_state 0 (q_I q) (q_O q) steps k ->
    PreB N es (t_parent t) (fst (fst (pre_state 0 (q_I q) (q_O q) steps k))) ->
    tree_next q o t = Ok (t', true) ->
    at_step steps k t'.
  Proof.
    intros CH F EB EN HIdx HPre Pre H.
    unfold tree_next in H. bind_inv H. destruct a as [p v].
    destruct v; [|bind_inv H; inversion H].
    bind_inv H. bind_inv H. inversion H; subst t'. clear H.
    unfold position_next in E. rewrite HPre in E.
    destruct (pre_state 0 (q_I q) (q_O q) steps k) as [[tl0 ib] oc] eqn:PS. simpl in Pre.
    destruct (span (fun ie => iright ie =? tl0) oc) as [out orest'] eqn:SO.
    destruct (span (fun ie => ileft ie =? tl0) ib) as [inn irest'] eqn:SI.
    rewrite HIdx in E. replace (Z.of_nat k - 1 + 1) with (Z.of_nat k) in E by lia.
    destruct (Z.of_nat k =? q_ntrees q) eqn:EK; [inversion E|].
    bind_inv E. inversion E; subst p. clear E.
    assert (KL : Z.of_nat k < zlen steps).
    { match goal with X : get (q_bps q) _ = Ok _ |- _ => pose proof (get_inv _ _ _ X) as GI end.
      rewrite EB, breakpoints_len in GI. lia. }
    destruct (zlen_nth_error steps k KL) as [s Hs].
    pose proof (chain_nth L _ _ _ _ _ CH k s Hs) as CN. rewrite PS in CN.
    destruct CN as (C1 & C2 & C3 & C4).
    rewrite SO in C2. rewrite SI in C3. inversion C2; inversion C3; subst.
    destruct (bps_get L _ _ _ _ _ CH k s Hs) as [_ BG]. rewrite <- EB in BG.
    match goal with X : get (q_bps q) _ = Ok ?r |- _ => rewrite X in BG; inversion BG; subst r end.
    assert (Fs : sem s) by (rewrite Forall_forall in F; apply F; eapply nth_error_In; eauto).
    simpl in E0, E1.
    apply remove_edges_par in E0. apply insert_edges_par in E1.
    destruct (step_parent s (t_parent t) Fs Pre) as (P1 & P2 & R1 & R2 & _ & Pre' & Post).
    rewrite R1 in E0. inversion E0 as [X0]. rewrite <- X0 in E1. rewrite R2 in E1. inversion E1 as [X1].
    exists s. simpl. rewrite <- X1.
    destruct Fs as (_ & _ & _ & _ & B1 & _).
    repeat split; auto; try lia; try apply Pre'; try (apply Post; assumption).
  Qed.

  (* what one successful tree_next call executes, in terms of the sweep's step k *)
  Lemma tree_next_unfold steps Oend (k : nat) (t t' : tree) :
    chain_ok L 0 (q_I q) (q_O q) steps Oend -> Forall sem steps ->
    q_bps q = breakpoints_of L steps -> q_ntrees q = zlen steps ->
    p_index (t_pos t) = Z.of_nat k - 1 ->
    (if p_index (t_pos t) =? -1 then (0, q_I q, q_O q)
     else (p_right (t_pos t), p_irest (t_pos t), p_orest (t_pos t)))
      = pre_state 0 (q_I q) (q_O q) steps k ->
    tree_next q o t = Ok (t', true) ->
    exists s a a1, nth_error steps k = Some s /\ sem s /\
      s_left s = fst (fst (pre_state 0 (q_I q) (q_O q) steps k)) /\
      remove_edges q o t (s_out s) = Ok a /\ insert_edges q o a (s_in s) = Ok a1 /\
      t' = w_pos a1 (mkPos (Z.of_nat k) (s_left s) (s_right s) (s_out s) (s_in s) (s_irest s) (s_orest s)).
  Proof.
    intros CH F EB EN HIdx HPre H.
    unfold tree_next in H. bind_inv H. destruct a as [p v].
    destruct v; [|bind_inv H; inversion H].
    bind_inv H. bind_inv H. inversion H; subst t'. clear H.
    unfold position_next in E. rewrite HPre in E.
    destruct (pre_state 0 (q_I q) (q_O q) steps k) as [[tl0 ib] oc] eqn:PS.
    destruct (span (fun ie => iright ie =? tl0) oc) as [out orest'] eqn:SO.
    destruct (span (fun ie => ileft ie =? tl0) ib) as [inn irest'] eqn:SI.
    rewrite HIdx in E. replace (Z.of_nat k - 1 + 1) with (Z.of_nat k) in E by lia.
    destruct (Z.of_nat k =? q_ntrees q) eqn:EK; [inversion E|].
    bind_inv E. inversion E; subst p. clear E.
    assert (KL : Z.of_nat k < zlen steps).
    { match goal with X : get (q_bps q) _ = Ok _ |- _ => pose proof (get_inv _ _ _ X) as GI end.
      rewrite EB, breakpoints_len in GI. lia. }
    destruct (zlen_nth_error steps k KL) as [s Hs].
    pose proof (chain_nth L _ _ _ _ _ CH k s Hs) as CN. rewrite PS in CN.
    destruct CN as (C1 & C2 & C3 & C4).
    rewrite SO in C2. rewrite SI in C3. inversion C2; inversion C3; subst.
    destruct (bps_get L _ _ _ _ _ CH k s Hs) as [_ BG]. rewrite <- EB in BG.
    match goal with X : get (q_bps q) _ = Ok ?r |- _ => rewrite X in BG; inversion BG; subst r end.
    assert (Fs : sem s) by (rewrite Forall_forall in F; apply F; eapply nth_error_In; eauto).
    simpl in E0, E1.
    exists s, a, a0. split; [exact Hs|]. split; [exact Fs|]. split; [reflexivity|].
    split; [exact E0|]. split; [exact E1|]. reflexivity.
  Qed.

  Lemma tree_at_index_at_step steps Oend :
    chain_ok L 0 (q_I q) (q_O q) steps Oend -> Forall sem steps ->
    q_bps q = breakpoints_of L steps -> q_ntrees q = zlen steps -> q_N q = N ->
    forall k t, tree_at_index q o k = Ok t -> at_step steps k t.
  Proof.
    intros CH F EB EN ENn. induction k as [|k IH]; intros t H; simpl in H.
    - bind_inv H. destruct a as [t1 v]. destruct v; [|discriminate]. inversion H; subst t1. clear H.
      unfold tree_first in E. bind_inv E. apply tree_clear_par in E0 as [PP PN].
      eapply tree_next_step; eauto.
      + rewrite PN. reflexivity.
      + rewrite PN. reflexivity.
      + simpl. rewrite PP, ENn. apply pre_init; [apply Hok'|]. unfold N, zlen. lia.
    - bind_inv H. bind_inv H. destruct a0 as [t1 v]. destruct v; [|discriminate].
      inversion H; subst t1. clear H.
      destruct (IH a eq_refl) as (s & Hs & I1 & I2 & I3 & I4 & I5 & I6 & I7 & I8 & I9 & I10).
      eapply tree_next_step; eauto.
      + rewrite I1. lia.
      + rewrite I1. replace (Z.of_nat k =? -1) with false by (symmetry; apply Z.eqb_neq; lia).
        simpl. rewrite Hs, I3, I6, I7. reflexivity.
      + simpl. rewrite Hs. simpl. exact I9.
  Qed.
End Main.
