(* Python _edge_diffs_reverse: by mirroring coordinates x -> L - x the right-to-left loop is the
   forward sweep of the mirrored edge table, whose theory is then re-used. *)
From Coq Require Import List ZArith Bool Lia Sorting.Sorted Permutation.
From TskVerif Require Import Base.Common.
From TskVerif Require Import C01.Model.
From TskVerif Require Import C01.ArrayLemmas.
From TskVerif Require Import C01.SpanProofs.
From TskVerif Require Import C01.SweepProofs.
From TskVerif Require Import C01.ParentProofs.
From TskVerif Require Import C01.ProjProofs.
From TskVerif Require Import C01.TreeProofs.
Import ListNotations.
Open Scope Z_scope.

Definition mirror_e (L : Z) (e : edge) : edge := mkEdge (L - eright e) (L - eleft e) (eparent e) (echild e).
Definition mirror (L : Z) (ie : iedge) : iedge := (fst ie, mirror_e L (snd ie)).

Lemma span_map {A B} (f : A -> B) (p : B -> bool) : forall l,
  span p (map f l) = (map f (fst (span (fun x => p (f x)) l)), map f (snd (span (fun x => p (f x)) l))).
Proof.
  induction l as [|x r IH]; simpl; [reflexivity|].
  destruct (p (f x)); [|reflexivity]. rewrite IH.
  destruct (span (fun x0 => p (f x0)) r); reflexivity.
Qed.

Lemma span_ext {A} (p q : A -> bool) l : (forall x, p x = q x) -> span p l = span q l.
Proof.
  intros H. induction l as [|x r IH]; simpl; [reflexivity|]. rewrite H, IH. reflexivity.
Qed.

Definition rdiff (L : Z) (s : step) : diff :=
  (L - s_right s, L - s_left s, map fst (s_out s), map fst (s_in s)).

Lemma next_mirror L J K :
  next_right L (map (mirror L) J) (map (mirror L) K) = L - next_left J K.
Proof.
  unfold next_right, next_left. destruct J as [|j J], K as [|k K]; simpl; unfold ileft, iright; simpl; lia.
Qed.

Lemma rsweep_mirror L : forall fuel right J K ds Kend,
  rsweep_loop fuel right J K = Ok (ds, Kend) ->
  exists steps,
    sweep_loop fuel L (L - right) (map (mirror L) J) (map (mirror L) K) = Ok (steps, map (mirror L) Kend) /\
    ds = map (rdiff L) steps.
Proof.
  induction fuel as [|f IH]; intros right J K ds Kend H; simpl in H; [discriminate|].
  cbn [sweep_loop].
  replace (negb match map (mirror L) J with [] => true | _ :: _ => false end || (L - right <? L))
    with (negb match J with [] => true | _ :: _ => false end || (0 <? right)).
  2:{ destruct J; simpl; destruct (Z.ltb_spec 0 right), (Z.ltb_spec (L - right) L); try reflexivity; lia. }
  destruct (negb match J with [] => true | _ :: _ => false end || (0 <? right)).
  - rewrite (span_map (mirror L) (fun ie => iright ie =? L - right) K).
    rewrite (span_ext (fun x => iright (mirror L x) =? L - right) (fun ie => ileft ie =? right) K).
    2:{ intros x. unfold iright, ileft, mirror. simpl. destruct (Z.eqb_spec (L - eleft (snd x)) (L - right)), (Z.eqb_spec (eleft (snd x)) right); try reflexivity; lia. }
    rewrite (span_map (mirror L) (fun ie => ileft ie =? L - right) J).
    rewrite (span_ext (fun x => ileft (mirror L x) =? L - right) (fun ie => iright ie =? right) J).
    2:{ intros x. unfold iright, ileft, mirror. simpl. destruct (Z.eqb_spec (L - eright (snd x)) (L - right)), (Z.eqb_spec (eright (snd x)) right); try reflexivity; lia. }
    destruct (span (fun ie => ileft ie =? right) K) as [out K'] eqn:SK.
    destruct (span (fun ie => iright ie =? right) J) as [inn J'] eqn:SJ.
    cbn [fst snd]. rewrite next_mirror.
    bind_inv H. destruct a as [rest Ke]. inversion H; subst ds Kend. clear H.
    destruct (IH _ _ _ _ _ E) as (steps & ES & ->).
    rewrite ES. cbn [bind].
    eexists. split; [reflexivity|]. simpl. f_equal. unfold rdiff. simpl.
    rewrite !map_map. simpl.
    replace (L - (L - next_left J' K')) with (next_left J' K') by lia.
    replace (L - (L - right)) with right by lia. reflexivity.
  - inversion H; subst. exists []. split; reflexivity.
Qed.

(* parent_at on the mirrored table *)
Lemma parent_at_mirror L es x u :
  parent_at (map (mirror_e L) es) x u = parent_at es (L - 1 - x) u.
Proof.
  unfold parent_at. induction es as [|e r IH]; simpl; [reflexivity|].
  replace (covers x (mirror_e L e)) with (covers (L - 1 - x) e).
  2:{ unfold covers, mirror_e. simpl.
      destruct (Z.leb_spec (eleft e) (L - 1 - x)), (Z.ltb_spec (L - 1 - x) (eright e)),
               (Z.leb_spec (L - eright e) x), (Z.ltb_spec x (L - eleft e)); simpl; try reflexivity; lia. }
  destruct ((echild e =? u) && covers (L - 1 - x) e); [reflexivity | exact IH].
Qed.

(* resolution commutes with mirroring and with reversal *)
Lemma get_map {A B} (f : A -> B) l i : get (map f l) i = match get l i with Ok a => Ok (f a) | Err c => Err c | OOB => OOB | Fuel => Fuel end.
Proof.
  unfold get. destruct (i <? 0); [reflexivity|]. rewrite nth_error_map.
  destruct (nth_error l (Z.to_nat i)); reflexivity.
Qed.

Lemma resolve_mirror L es : forall idx l,
  resolve es idx = Ok l -> resolve (map (mirror_e L) es) idx = Ok (map (mirror L) l).
Proof.
  induction idx as [|i r IH]; intros l H; simpl in H; simpl.
  - inversion H; reflexivity.
  - bind_inv H. bind_inv H. inversion H; subst. rewrite get_map, E. cbn [bind].
    rewrite (IH _ eq_refl). reflexivity.
Qed.

Lemma resolve_app es : forall a b la lb,
  resolve es a = Ok la -> resolve es b = Ok lb -> resolve es (a ++ b) = Ok (la ++ lb).
Proof.
  induction a as [|i r IH]; intros b la lb Ha Hb; simpl in Ha; simpl.
  - inversion Ha; subst. exact Hb.
  - bind_inv Ha. bind_inv Ha. inversion Ha; subst. rewrite (IH b _ lb eq_refl Hb). reflexivity.
Qed.

Lemma resolve_rev es : forall idx l, resolve es idx = Ok l -> resolve es (rev idx) = Ok (rev l).
Proof.
  induction idx as [|i r IH]; intros l H; simpl in H; simpl.
  - inversion H; reflexivity.
  - bind_inv H. bind_inv H. inversion H; subst. simpl.
    apply resolve_app; [apply IH; reflexivity|]. simpl. rewrite E. reflexivity.
Qed.

Lemma sorted_by_snoc {A} (key : A -> Z) l x :
  sorted_by key l -> (forall y, In y l -> key y <= key x) -> sorted_by key (l ++ [x]).
Proof.
  induction l as [|a r IH]; intros S H; simpl.
  - constructor; constructor.
  - apply sorted_by_inv in S as [S1 S2]. constructor.
    + apply IH; [exact S1 | intros; apply H; right; assumption].
    + apply Forall_forall. intros y Hy. apply in_app_iff in Hy as [Hy|[<-|[]]]; [auto | apply H; left; reflexivity].
Qed.

(* reversing a list sorted by [key] sorts it by [L - key] *)
Lemma sorted_rev_mirror {A} (key key' : A -> Z) (L : Z) (f : A -> A) : forall l,
  (forall x, key' (f x) = L - key x) ->
  sorted_by key l -> sorted_by key' (map f (rev l)).
Proof.
  intros l Hk. induction l as [|a r IH]; intros S; simpl; [constructor|].
  apply sorted_by_inv in S as [S1 S2]. rewrite map_app. simpl.
  apply sorted_by_snoc; [apply IH; exact S1|].
  intros y Hy. apply in_map_iff in Hy as (z & <- & Hz). apply in_rev in Hz.
  rewrite !Hk. specialize (S2 z Hz). lia.
Qed.

Lemma sweep_mirror_back L : forall fuel right J K steps Oe,
  sweep_loop fuel L (L - right) (map (mirror L) J) (map (mirror L) K) = Ok (steps, Oe) ->
  exists Kend, rsweep_loop fuel right J K = Ok (map (rdiff L) steps, Kend) /\ Oe = map (mirror L) Kend.
Proof.
  induction fuel as [|f IH]; intros right J K steps Oe H; cbn [sweep_loop] in H; [discriminate|].
  cbn [rsweep_loop].
  replace (negb match map (mirror L) J with [] => true | _ :: _ => false end || (L - right <? L))
    with (negb match J with [] => true | _ :: _ => false end || (0 <? right)) in H.
  2:{ destruct J; simpl; destruct (Z.ltb_spec 0 right), (Z.ltb_spec (L - right) L); try reflexivity; lia. }
  destruct (negb match J with [] => true | _ :: _ => false end || (0 <? right)).
  - rewrite (span_map (mirror L) (fun ie => iright ie =? L - right) K) in H.
    rewrite (span_ext (fun x => iright (mirror L x) =? L - right) (fun ie => ileft ie =? right) K) in H.
    2:{ intros x. unfold iright, ileft, mirror. simpl. destruct (Z.eqb_spec (L - eleft (snd x)) (L - right)), (Z.eqb_spec (eleft (snd x)) right); try reflexivity; lia. }
    rewrite (span_map (mirror L) (fun ie => ileft ie =? L - right) J) in H.
    rewrite (span_ext (fun x => ileft (mirror L x) =? L - right) (fun ie => iright ie =? right) J) in H.
    2:{ intros x. unfold iright, ileft, mirror. simpl. destruct (Z.eqb_spec (L - eright (snd x)) (L - right)), (Z.eqb_spec (eright (snd x)) right); try reflexivity; lia. }
    destruct (span (fun ie => ileft ie =? right) K) as [out K'] eqn:SK.
    destruct (span (fun ie => iright ie =? right) J) as [inn J'] eqn:SJ.
    cbn [fst snd] in H. rewrite next_mirror in H.
    bind_inv H. destruct a as [rest Oe']. inversion H; subst steps Oe. clear H.
    destruct (IH _ _ _ _ _ E) as (Kend & ER & ->).
    rewrite ER. cbn [bind]. exists Kend. split; [|reflexivity].
    simpl. f_equal. f_equal. unfold rdiff. simpl. rewrite !map_map. simpl.
    replace (L - (L - next_left J' K')) with (next_left J' K') by lia.
    replace (L - (L - right)) with right by lia. reflexivity.
  - inversion H; subst. exists K. split; reflexivity.
Qed.

(* validity is invariant under mirroring *)
Lemma edge_okb_mirror N L ns e : edge_okb N L ns e = true -> edge_okb N L ns (mirror_e L e) = true.
Proof.
  unfold edge_okb, mirror_e. simpl. intros H.
  repeat (apply andb_true_iff in H as [H ?]).
  repeat (apply andb_true_iff; split); auto;
    repeat match goal with
           | X : (_ <=? _) = true |- _ => apply Z.leb_le in X
           | X : (_ <? _) = true |- _ => apply Z.ltb_lt in X
           end; try (apply Z.leb_le; lia); try (apply Z.ltb_lt; lia).
Qed.

Lemma disjointb_mirror L a b : disjointb (mirror_e L a) (mirror_e L b) = disjointb a b.
Proof.
  unfold disjointb, mirror_e. simpl.
  destruct (negb (echild a =? echild b)); [reflexivity|]. simpl.
  destruct (Z.leb_spec (L - eleft a) (L - eright b)), (Z.leb_spec (L - eleft b) (L - eright a)),
           (Z.leb_spec (eright a) (eleft b)), (Z.leb_spec (eright b) (eleft a)); simpl; try reflexivity; lia.
Qed.

Lemma forallb_map' {A B} (f : A -> B) (p : B -> bool) l : forallb p (map f l) = forallb (fun x => p (f x)) l.
Proof. induction l as [|x r IH]; simpl; [reflexivity|]. now rewrite IH. Qed.
Lemma forallb_ext' {A} (p q : A -> bool) l : (forall x, p x = q x) -> forallb p l = forallb q l.
Proof. intros H. induction l as [|x r IH]; simpl; [reflexivity|]. now rewrite H, IH. Qed.

Lemma pairwise_mirror L : forall es, pairwise_disjointb (map (mirror_e L) es) = pairwise_disjointb es.
Proof.
  induction es as [|e r IH]; simpl; [reflexivity|]. rewrite IH. f_equal.
  rewrite forallb_map'. apply forallb_ext'. intros x. apply disjointb_mirror.
Qed.

Lemma valid_mirror L ns es : valid_edgesb L ns es = true -> valid_edgesb L ns (map (mirror_e L) es) = true.
Proof.
  unfold valid_edgesb. intros H. apply andb_true_iff in H as [H H3]. apply andb_true_iff in H as [H1 H2].
  rewrite H1, pairwise_mirror, H3. simpl. rewrite andb_true_r.
  rewrite forallb_map'. rewrite forallb_forall in *. intros e He. apply edge_okb_mirror. auto.
Qed.

Lemma filter_map_comm {A B} (f : A -> B) (p : B -> bool) l :
  filter p (map f l) = map f (filter (fun x => p (f x)) l).
Proof.
  induction l as [|x r IH]; simpl; [reflexivity|]. destruct (p (f x)); simpl; now rewrite IH.
Qed.

Lemma index_sorted_mirror L es Ins Rem IE OE :
  index_sorted es Ins Rem -> resolve es Ins = Ok IE -> resolve es Rem = Ok OE ->
  index_sorted (map (mirror_e L) es) (rev Rem) (rev Ins) /\
  resolve (map (mirror_e L) es) (rev Rem) = Ok (map (mirror L) (rev OE)) /\
  resolve (map (mirror_e L) es) (rev Ins) = Ok (map (mirror L) (rev IE)).
Proof.
  intros [PI PO SI SO] RI RO.
  pose proof (resolve_mirror L es _ _ (resolve_rev es _ _ RO)) as R1.
  pose proof (resolve_mirror L es _ _ (resolve_rev es _ _ RI)) as R2.
  split; [|split; assumption].
  constructor.
  - rewrite map_length. eapply Permutation_trans; [apply Permutation_sym, Permutation_rev | exact PO].
  - rewrite map_length. eapply Permutation_trans; [apply Permutation_sym, Permutation_rev | exact PI].
  - intros X HX. rewrite R1 in HX. inversion HX; subst X.
    apply (sorted_rev_mirror iright ileft L (mirror L)); [|apply SO; exact RO].
    intros x. unfold ileft, iright, mirror. reflexivity.
  - intros X HX. rewrite R2 in HX. inversion HX; subst X.
    apply (sorted_rev_mirror ileft iright L (mirror L)); [|apply SI; exact RI].
    intros x. unfold ileft, iright, mirror. reflexivity.
Qed.
