(* tsk_treeseq_init_trees: mutation->edge = node_edge_map[mutation->node] is the id of the edge
   that covers the site position with the mutation's node as child, or NULL. *)
From Coq Require Import List ZArith Bool Lia Sorting.Sorted Permutation.
From TskVerif Require Import Base.Common.
From TskVerif Require Import C01.Model.
From TskVerif Require Import C01.ArrayLemmas.
From TskVerif Require Import C01.SweepProofs.
From TskVerif Require Import C01.ParentProofs.
From TskVerif Require Import C01.ProjProofs.
From TskVerif Require Import C01.TreeProofs.
From TskVerif Require Import C01.InductProofs.
From TskVerif Require Import C01.EdgeProofs.
From TskVerif Require Import C01.SitesProofs.
Import ListNotations.
Open Scope Z_scope.

Lemma nem_out_eq : forall l m, nem_out m l = par_remove m (map rel l).
Proof.
  induction l as [|[i e] r IH]; intros m; simpl; [reflexivity|].
  unfold ichild; simpl. destruct (set m (echild e) NULL); simpl; auto.
Qed.

Lemma nem_in_eq : forall l m, nem_in m l = par_insert m (map rel l).
Proof.
  induction l as [|[i e] r IH]; intros m; simpl; [reflexivity|].
  unfold ichild; simpl. destruct (set m (echild e) i); simpl; auto.
Qed.

Lemma Forall2_impl_in {A B} (R R' : A -> B -> Prop) l l' :
  (forall x y, In x l -> In y l' -> R x y -> R' x y) -> Forall2 R l l' -> Forall2 R' l l'.
Proof.
  intros H F. induction F as [|x y l l' Rxy F IH]; constructor.
  - apply H; [left; reflexivity | left; reflexivity | exact Rxy].
  - apply IH. intros a b Ha Hb. apply H; right; assumption.
Qed.
Lemma Forall2_impl {A B} (R R' : A -> B -> Prop) l l' :
  (forall x y, R x y -> R' x y) -> Forall2 R l l' -> Forall2 R' l l'.
Proof. intros H. apply Forall2_impl_in. intros; auto. Qed.

(* what the two inner loops did, without any assumption on the order of the mutations *)
Lemma muts_of_site_spec nem sid : forall muts es' rest,
  muts_of_site nem sid muts = Ok (es', rest) ->
  exists a, muts = a ++ rest /\ Forall2 (fun m e => fst m = sid /\ get nem (snd m) = Ok e) a es'.
Proof.
  induction muts as [|[s nd] r IH]; intros es' rest H; simpl in H.
  - inversion H; subst. exists []. split; [reflexivity | constructor].
  - destruct (s =? sid) eqn:E.
    + bind_inv H. bind_inv H. destruct a0 as [es0 rest0]. inversion H. subst es' rest. clear H.
      destruct (IH _ _ ltac:(first [eassumption | reflexivity])) as (a' & EQ & F).
      exists ((s, nd) :: a'). split; [simpl; now rewrite EQ|].
      constructor; [split; [apply Z.eqb_eq; exact E | assumption] | exact F].
    + inversion H; subst. exists []. split; [reflexivity | constructor].
Qed.

Lemma sites_of_tree_muts nem tr : forall sites muts ids mes sr mr,
  sites_of_tree nem tr sites muts = Ok (ids, mes, sr, mr) ->
  exists consumed, muts = consumed ++ mr /\
    Forall2 (fun m e => In (fst m) ids /\ get nem (snd m) = Ok e) consumed mes.
Proof.
  induction sites as [|[sid pos] r IH]; intros muts ids mes sr mr H; simpl in H.
  - inversion H; subst. exists []. split; [reflexivity | constructor].
  - destruct (pos <? tr).
    + bind_inv H. destruct a as [me muts']. bind_inv H. destruct a as [[[ids' mes'] sr'] mr'].
      inversion H; subst. clear H.
      destruct (muts_of_site_spec _ _ _ _ _ E) as (a & -> & F1).
      destruct (IH _ _ _ _ _ E0) as (c & -> & F2).
      exists (a ++ c). split; [now rewrite app_assoc|].
      apply Forall2_app.
      * eapply Forall2_impl; [|exact F1]. intros m e [A B]. split; [left; symmetry; exact A | exact B].
      * eapply Forall2_impl; [|exact F2]. intros m e [A B]. split; [right; exact A | exact B].
    + inversion H; subst. exists []. split; [reflexivity | constructor].
Qed.

Section MutEdge.
  Variables (L : Z) (ns : list node) (es : list edge) (Ins Rem : list Z) (q : tseq).
  Hypothesis HV : valid_edges L ns es.
  Hypothesis HI : index_sorted es Ins Rem.
  Hypothesis HQ : mk_tseq L ns es Ins Rem = Ok q.
  Variable S : list (Z * Z).            (* (site id, position), sorted by position *)
  Hypothesis HS : sorted_by spos S.

  Let N := zlen ns.
  Let esi := es_id es.

  Definition mut_ok (m : Z * Z) (e : Z) : Prop :=
    exists pos, In (fst m, pos) S /\ e = parent_at esi pos (snd m).

  Lemma init_trees_muts_spec : forall tl Ins' Rem' steps Oend,
    chain_ok L tl Ins' Rem' steps Oend -> Forall (sem_step L (q_I q) (q_O q)) steps ->
    forall nem muts ids mes,
    PreB N esi nem tl ->
    (forall m, In m muts -> 0 <= snd m < N) ->
    init_trees_sites steps nem (filter (fun ip => tl <=? spos ip) S) muts = Ok (ids, mes) ->
    exists consumed rest, muts = consumed ++ rest /\ Forall2 mut_ok consumed mes.
  Proof.
    induction 1 as [|tl I0 O0 s rest Oend C HL SO SI HR CH IH]; intros F nem muts ids mes Pre MR HX.
    - simpl in HX. inversion HX; subst. exists [], muts. split; [reflexivity | constructor].
    - inversion F as [|? ? Fs Fr]; subst.
      pose proof Fs as (_ & _ & _ & _ & B1 & _).
      simpl in HX. bind_inv HX. bind_inv HX. bind_inv HX. destruct a1 as [[[ids0 mes0] sr] mr].
      bind_inv HX. destruct a1 as [rids rmes]. inversion HX; subst ids mes. clear HX.
      rewrite nem_out_eq in E. rewrite nem_in_eq in E0.
      destruct (step_edge L ns es Ins Rem q HV HI HQ s nem Fs Pre) as (E1' & E2' & R1 & R2 & Pre' & Post).
      rewrite R1 in E. inversion E; subst a. rewrite R2 in E0. inversion E0; subst a0.
      destruct (sites_of_tree_sites _ _ _ _ _ _ _ _ E1) as [A B].
      rewrite (span_lt_sorted (s_left s) (s_right s) S HS ltac:(lia)) in A, B. simpl in A, B.
      destruct (sites_of_tree_muts _ _ _ _ _ _ _ _ E1) as (c1 & -> & F1).
      subst sr.
      destruct (IH Fr E2' mr rids rmes Pre') as (c2 & rest2 & -> & F2); auto.
      { intros m Hm. apply MR. apply in_app_iff. right; exact Hm. }
      exists (c1 ++ c2), rest2. split; [now rewrite app_assoc|].
      apply Forall2_app; [|exact F2].
      eapply Forall2_impl_in; [|exact F1]. intros m e Hm He [Hin G].
      rewrite A in Hin. apply in_map_iff in Hin as ([sid pos] & Ef & Hf). simpl in Ef. subst sid.
      apply filter_In in Hf as [HfS Hft]. unfold in_tree, spos in Hft. simpl in Hft.
      apply andb_true_iff in Hft as [T1 T2]. apply Z.leb_le in T1. apply Z.ltb_lt in T2.
      exists pos. split; [exact HfS|].
      destruct (Post pos ltac:(lia)) as [_ GP].
      rewrite (GP (snd m)) in G by (apply MR; apply in_app_iff; left; exact Hm). now inversion G.
  Qed.
End MutEdge.

(* ---- every mutation is assigned when the table is sorted by site ---- *)
Definition msite (m : Z * Z) : Z := fst m.

(* the remaining mutations all belong to remaining sites *)
Definition covered (sites muts : list (Z * Z)) : Prop :=
  forall m, In m muts -> exists ip, In ip sites /\ fst ip = msite m.

Lemma muts_of_site_rest nem sid : forall muts es' rest,
  muts_of_site nem sid muts = Ok (es', rest) -> sorted_by msite muts ->
  (forall m, In m muts -> sid <= msite m) ->
  sorted_by msite rest /\ forall m, In m rest -> sid < msite m.
Proof.
  induction muts as [|[s nd] r IH]; intros es' rest H S G; simpl in H.
  - inversion H; subst. split; [constructor | intros ? []].
  - apply sorted_by_inv in S as [S1 S2].
    destruct (s =? sid) eqn:E.
    + bind_inv H. bind_inv H. destruct a0 as [es0 rest0]. inversion H; subst.
      eapply IH; eauto. intros m Hm. apply G. right; exact Hm.
    + apply Z.eqb_neq in E. inversion H; subst. split; [constructor; [exact S1 | apply Forall_forall; exact S2]|].
      assert (sid < s) by (specialize (G (s, nd) (or_introl eq_refl)); unfold msite in G; simpl in G; lia).
      intros m [<-|Hm]; [unfold msite; simpl; lia|]. specialize (S2 m Hm). unfold msite in *. simpl in S2. lia.
Qed.

Lemma sites_of_tree_rest nem tr : forall sites muts ids mes sr mr,
  sites_of_tree nem tr sites muts = Ok (ids, mes, sr, mr) ->
  sorted_by msite muts -> StronglySorted (fun a b => fst a < fst b) sites -> covered sites muts ->
  sorted_by msite mr /\ covered sr mr /\ StronglySorted (fun a b => fst a < fst b) sr.
Proof.
  induction sites as [|[sid pos] r IH]; intros muts ids mes sr mr H S SS C; simpl in H.
  - inversion H; subst. auto.
  - destruct (pos <? tr).
    + bind_inv H. destruct a as [me muts']. bind_inv H. destruct a as [[[ids' mes'] sr'] mr'].
      inversion H; subst. clear H.
      apply StronglySorted_inv in SS as [SS1 SS2]. rewrite Forall_forall in SS2.
      assert (G : forall m, In m muts -> sid <= msite m).
      { intros m Hm. destruct (C m Hm) as (ip & [<-|Hip] & Eq); [simpl in Eq; lia|].
        specialize (SS2 ip Hip). simpl in SS2. lia. }
      destruct (muts_of_site_rest _ _ _ _ _ E S G) as [S' G'].
      destruct (muts_of_site_spec _ _ _ _ _ E) as (a & EA & _).
      eapply IH; eauto.
      intros m Hm. assert (Hm' : In m muts) by (rewrite EA; apply in_app_iff; right; exact Hm).
      destruct (C m Hm') as (ip & [<-|Hip] & Eq); [specialize (G' m Hm); simpl in Eq; lia|].
      exists ip. auto.
    + inversion H; subst. auto.
Qed.

Lemma SS_filter {A} (R : A -> A -> Prop) f l : StronglySorted R l -> StronglySorted R (filter f l).
Proof.
  induction 1 as [|x r S IH F]; simpl; [constructor|]. destruct (f x); [|exact IH].
  constructor; [exact IH|]. rewrite Forall_forall in *. intros y Hy. apply filter_In in Hy as [Hy _]. auto.
Qed.

Section MutAll.
  Variables (L : Z) (ns : list node) (es : list edge) (Ins Rem : list Z) (q : tseq).
  Hypothesis HV : valid_edges L ns es.
  Hypothesis HI : index_sorted es Ins Rem.
  Hypothesis HQ : mk_tseq L ns es Ins Rem = Ok q.
  Variable S : list (Z * Z).
  Hypothesis HS : sorted_by spos S.
  Hypothesis HSid : StronglySorted (fun a b => fst a < fst b) S.
  Hypothesis HSL : forall ip, In ip S -> spos ip < L.

  Let N := zlen ns.
  Let esi := es_id es.

  Lemma init_trees_muts_all : forall tl Ins' Rem' steps Oend,
    chain_ok L tl Ins' Rem' steps Oend -> Forall (sem_step L (q_I q) (q_O q)) steps ->
    forall nem muts ids mes,
    PreB N esi nem tl ->
    (forall m, In m muts -> 0 <= snd m < N) ->
    sorted_by msite muts -> covered (filter (fun ip => tl <=? spos ip) S) muts ->
    init_trees_sites steps nem (filter (fun ip => tl <=? spos ip) S) muts = Ok (ids, mes) ->
    Forall2 (mut_ok es S) muts mes.
  Proof.
    induction 1 as [tl I0 O0 C|tl I0 O0 s rest Oend C HL SO SI HR CH IH]; intros F nem muts ids mes Pre MR SM CV HX.
    - simpl in HX. inversion HX; subst.
      unfold loop_cond in C. apply orb_false_iff in C as [_ C]. apply Z.ltb_ge in C.
      destruct muts as [|m r]; [constructor|]. exfalso.
      destruct (CV m (or_introl eq_refl)) as (ip & Hip & _).
      apply filter_In in Hip as [Hip Hle]. apply Z.leb_le in Hle. specialize (HSL ip Hip). lia.
    - inversion F as [|? ? Fs Fr]; subst.
      pose proof Fs as (_ & _ & _ & _ & B1 & _).
      simpl in HX. bind_inv HX. bind_inv HX. bind_inv HX. destruct a1 as [[[ids0 mes0] sr] mr].
      bind_inv HX. destruct a1 as [rids rmes]. inversion HX; subst ids mes. clear HX.
      rewrite nem_out_eq in E. rewrite nem_in_eq in E0.
      destruct (step_edge L ns es Ins Rem q HV HI HQ s nem Fs Pre) as (E1' & E2' & R1 & R2 & Pre' & Post).
      rewrite R1 in E. inversion E; subst a. rewrite R2 in E0. inversion E0; subst a0.
      destruct (sites_of_tree_sites _ _ _ _ _ _ _ _ E1) as [A B].
      rewrite (span_lt_sorted (s_left s) (s_right s) S HS ltac:(lia)) in A, B. simpl in A, B.
      destruct (sites_of_tree_muts _ _ _ _ _ _ _ _ E1) as (c1 & EQ & F1).
      destruct (sites_of_tree_rest _ _ _ _ _ _ _ _ E1 SM (SS_filter _ _ _ HSid) CV) as (SM' & CV' & _).
      subst sr muts.
      apply Forall2_app.
      + eapply Forall2_impl_in; [|exact F1]. intros m e Hm He [Hin G].
        rewrite A in Hin. apply in_map_iff in Hin as ([sid pos] & Ef & Hf). simpl in Ef. subst sid.
        apply filter_In in Hf as [HfS Hft]. unfold in_tree, spos in Hft. simpl in Hft.
        apply andb_true_iff in Hft as [T1 T2]. apply Z.leb_le in T1. apply Z.ltb_lt in T2.
        exists pos. split; [exact HfS|].
        destruct (Post pos ltac:(lia)) as [_ GP].
        rewrite (GP (snd m)) in G by (apply MR; apply in_app_iff; left; exact Hm). now inversion G.
      + eapply IH; eauto. intros m Hm. apply MR. apply in_app_iff. right; exact Hm.
  Qed.
End MutAll.
