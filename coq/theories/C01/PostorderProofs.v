(* tsk_tree_postorder_from on the representation: the explicit-stack loop with the
   `postorder_parent` trick computes the recursive postorder over the child lists K. *)
From Coq Require Import List ZArith Bool Lia.
From TskVerif Require Import Base.Common.
From TskVerif Require Import C01.Model.
From TskVerif Require Import C01.ArrayLemmas.
From TskVerif Require Import C01.ProjProofs.
From TskVerif Require Import C01.TreeProofs.
From TskVerif Require Import C01.CountProofs.
From TskVerif Require Import C01.LinkProofs.
From TskVerif Require Import C01.RepProofs.
From TskVerif Require Import C01.TraversalProofs.
Import ListNotations.
Open Scope Z_scope.

Inductive Post (K : Z -> list Z) : Z -> list Z -> Prop :=
| Post_node : forall u ls, Forall2 (Post K) (K u) ls -> Post K u (concat ls ++ [u]).

Section Postorder.
  Variables (N : Z) (t : tree) (K : Z -> list Z) (tm : Z -> Z).
  Hypothesis LR : LinkRep N t K.
  Hypothesis LP : length (t_parent t) = Z.to_nat (N + 1).
  Hypothesis HN : 0 <= N.
  Hypothesis O1 : forall p c, 0 <= p < N -> In c (K p) -> get (t_parent t) c = Ok p.
  Hypothesis O2 : forall c, In c (K N) -> get (t_parent t) c = Ok NULL.
  Hypothesis MO : Mono N tm (t_parent t).

  Definition par (c : Z) : Z := match get (t_parent t) c with Ok p => p | _ => NULL end.

  (* pp is not an internal node of the subtree of u *)
  Definition notin (u pp : Z) : Prop := forall x, Desc K u x -> K x <> [] -> x <> pp.

  Fixpoint fresh_ok (cs : list Z) (pp : Z) : Prop :=
    match cs with [] => True | c :: r => 0 <= c < N /\ notin c pp /\ fresh_ok r (par c) end.

  Definition last_par (cs : list Z) (pp : Z) : Z := match rev cs with [] => pp | c :: _ => par c end.

  Lemma rc_null_iff u : 0 <= u <= N -> forall r, get (t_rc t) u = Ok r -> (r = NULL <-> K u = []).
  Proof.
    intros Hu r G. pose proof (lr_chain N _ _ LR u Hu) as C. unfold Chain in C.
    destruct (seg_last _ _ _ _ C) as [_ L2]. unfold prv in L2. simpl in L2.
    assert (r = lastz NULL (K u)) by congruence. subst r.
    pose proof (seg_nonnull _ _ _ _ C) as NN. split.
    - intros E. destruct (K u) as [|x l] eqn:EK; [reflexivity|]. exfalso.
      apply NN. rewrite <- E. destruct (lastz_In x l) as [X|X]; [left; exact X | right; exact X].
    - intros ->. reflexivity.
  Qed.

  Lemma desc_tm : forall u x, Desc K u x -> 0 <= u < N -> 0 <= x < N /\ tm x <= tm u.
  Proof.
    induction 1 as [u|u c x Hc D IH]; intros Hu; [split; [exact Hu | lia]|].
    pose proof (O1 u c Hu Hc) as G.
    assert (CR : 0 <= c < N) by (apply (lr_range N _ _ LR u c); [lia | exact Hc]).
    destruct (MO c u G ltac:(unfold NULL; lia)) as (_ & _ & T).
    destruct (IH CR). split; [assumption | lia].
  Qed.

  (* the children of u are fresh once the first one is started with a pp outside u's subtree *)
  Lemma children_fresh u pp : 0 <= u < N -> notin u pp -> fresh_ok (K u) pp.
  Proof.
    intros Hu NI.
    assert (G : forall cs pp', (forall c, In c cs -> In c (K u)) ->
              (forall c, In c cs -> notin c pp') -> fresh_ok cs pp').
    { induction cs as [|c r IH]; intros pp' Sub NI'; simpl; [exact I|].
      assert (Hc : In c (K u)) by (apply Sub; left; reflexivity).
      assert (CR : 0 <= c < N) by (apply (lr_range N _ _ LR u c); [lia | exact Hc]).
      split; [exact CR|]. split; [apply NI'; left; reflexivity|].
      apply IH; [intros; apply Sub; right; assumption|].
      intros c' Hc' x D NE. unfold par. rewrite (O1 u c Hu Hc).
      assert (Hc'' : In c' (K u)) by (apply Sub; right; exact Hc').
      assert (CR' : 0 <= c' < N) by (apply (lr_range N _ _ LR u c'); [lia | exact Hc'']).
      destruct (desc_tm c' x D CR') as [_ T].
      pose proof (O1 u c' Hu Hc'') as G'.
      destruct (MO c' u G' ltac:(unfold NULL; lia)) as (_ & _ & T'). intros ->. lia. }
    apply G; [auto|]. intros c Hc x D NE. apply NI; [|exact NE]. eapply Desc_step; eauto.
  Qed.

  Lemma last_par_children u pp : 0 <= u < N -> K u <> [] -> last_par (K u) pp = u.
  Proof.
    intros Hu NE. unfold last_par. destruct (rev (K u)) as [|c r] eqn:E.
    - exfalso. apply NE. rewrite <- (rev_involutive (K u)), E. reflexivity.
    - unfold par. rewrite (O1 u c Hu); [reflexivity|]. apply in_rev. rewrite E. left; reflexivity.
  Qed.

  Lemma last_par_cons c r pp : last_par (c :: r) pp = last_par r (par c).
  Proof.
    unfold last_par. simpl. destruct (rev r) as [|x l] eqn:E; simpl; [reflexivity|]. reflexivity.
  Qed.

  Lemma postorder_loop_spec : forall n fuel cs s pp out,
    (fuel <= n)%nat -> fresh_ok cs pp ->
    postorder_loop fuel t (cs ++ s) pp = Ok out ->
    exists ls rest fuel', Forall2 (Post K) cs ls /\ out = concat ls ++ rest /\
      (fuel' <= fuel)%nat /\ postorder_loop fuel' t s (last_par cs pp) = Ok rest.
  Proof.
    induction n as [|n IH]; intros fuel cs s pp out Hf FO H.
    - assert (fuel = O) by lia. subst fuel. destruct cs as [|c r].
      + exists [], out, O. simpl. repeat split; auto.
      + simpl in H. discriminate.
    - destruct cs as [|c r].
      + exists [], out, fuel. simpl. repeat split; auto.
      + destruct fuel as [|f]; [simpl in H; discriminate|].
        simpl in FO. destruct FO as (CR & NI & FO').
        cbn [app postorder_loop] in H. bind_inv H. rename a into rcv.
        pose proof (rc_null_iff c ltac:(lia) rcv E) as RN.
        destruct (negb (rcv =? NULL) && negb (c =? pp)) eqn:B.
        * (* expand c *)
          apply andb_true_iff in B as [B1 B2].
          apply negb_true_iff, Z.eqb_neq in B1.
          assert (KN : K c <> []) by (intros X; apply B1; apply RN; exact X).
          bind_inv H. rename a into st.
          rewrite (push_children_rep N t K c (c :: r ++ s) LR LP ltac:(lia)) in E0. inversion E0; subst st. clear E0.
          destruct (IH f (K c) (c :: r ++ s) pp out ltac:(lia) (children_fresh c pp CR NI) H)
            as (ls & rest1 & f1 & F1 & -> & Hf1 & H1).
          rewrite (last_par_children c pp CR KN) in H1.
          destruct f1 as [|f1']; [simpl in H1; discriminate|].
          cbn [postorder_loop] in H1. rewrite E in H1. cbn [bind] in H1.
          rewrite Z.eqb_refl in H1. rewrite andb_false_r in H1. bind_inv H1. bind_inv H1. inversion H1; subst rest1. clear H1.
          assert (a = par c) by (unfold par; now rewrite E0). subst a.
          destruct (IH f1' r s (par c) a0 ltac:(lia) FO' E1) as (ls2 & rest2 & f2 & F2 & -> & Hf2 & H2).
          exists ((concat ls ++ [c]) :: ls2), rest2, f2.
          split; [constructor; [constructor; exact F1 | exact F2]|].
          split; [simpl; rewrite <- !app_assoc; reflexivity|].
          split; [lia|]. rewrite last_par_cons. exact H2.
        * (* emit c: it is a leaf (c = pp is excluded for an internal node) *)
          assert (KL : K c = []).
          { apply andb_false_iff in B as [B|B].
            - apply negb_false_iff, Z.eqb_eq in B. apply RN. exact B.
            - apply negb_false_iff, Z.eqb_eq in B. destruct (K c) eqn:EK; [reflexivity|].
              exfalso. apply (NI c (Desc_refl K c)); [rewrite EK; discriminate | exact B]. }
          bind_inv H. bind_inv H. inversion H; subst out. clear H.
          assert (a = par c) by (unfold par; now rewrite E0). subst a.
          destruct (IH f r s (par c) a0 ltac:(lia) FO' E1) as (ls2 & rest2 & f2 & F2 & -> & Hf2 & H2).
          exists ([c] :: ls2), rest2, f2.
          split; [constructor; [|exact F2]|].
          { replace [c] with (concat (@nil (list Z)) ++ [c]) by reflexivity. constructor. rewrite KL. constructor. }
          split; [reflexivity|]. split; [lia|]. rewrite last_par_cons. exact H2.
  Qed.

  Lemma notin_null u : 0 <= u < N -> notin u NULL.
  Proof. intros Hu x D _. destruct (desc_tm u x D Hu). unfold NULL. lia. Qed.

  Lemma roots_fresh : forall cs, (forall c, In c cs -> In c (K N)) -> fresh_ok cs NULL.
  Proof.
    induction cs as [|c r IH]; intros Sub; simpl; [exact I|].
    assert (Hc : In c (K N)) by (apply Sub; left; reflexivity).
    assert (CR : 0 <= c < N) by (apply (lr_range N _ _ LR N c); [lia | exact Hc]).
    split; [exact CR|]. split; [apply notin_null; exact CR|].
    unfold par. rewrite (O2 c Hc). apply IH. intros; apply Sub; right; assumption.
  Qed.

  Lemma loop_nil_out : forall fuel pp out, postorder_loop fuel t [] pp = Ok out -> out = [].
  Proof. intros [|f] pp out H; simpl in H; inversion H; reflexivity. Qed.

  Lemma postorder_from_spec root out :
    postorder_from N t root = Ok out ->
    (root = -1 /\ exists ls, Forall2 (Post K) (K N) ls /\ out = concat ls) \/
    (root = N /\ exists ls, Forall2 (Post K) (K N) ls /\ out = concat ls ++ [N]) \/
    (0 <= root < N /\ Post K root out).
  Proof.
    unfold postorder_from. intros H.
    destruct ((root =? -1) || (root =? N)) eqn:B.
    - rewrite (push_children_rep N t K N [] LR LP ltac:(lia)) in H. cbn [bind] in H.
      bind_inv H. inversion H; subst out. clear H.
      destruct (postorder_loop_spec _ _ (K N) [] NULL a (le_n _) (roots_fresh (K N) (fun c H => H)) E) as (ls & rest & f' & F & -> & _ & HR).
      apply loop_nil_out in HR. subst rest. rewrite app_nil_r.
      apply orb_true_iff in B as [B|B]; apply Z.eqb_eq in B.
      + left. split; [exact B|]. replace (root =? N) with false by (symmetry; apply Z.eqb_neq; lia). eauto.
      + right; left. split; [exact B|]. subst root. rewrite Z.eqb_refl. eauto.
    - apply orb_false_iff in B as [B1 B2]. apply Z.eqb_neq in B1. apply Z.eqb_neq in B2.
      destruct ((root <? 0) || (N <? root)) eqn:R; [discriminate|].
      apply orb_false_iff in R as [R1 R2]. apply Z.ltb_ge in R1. apply Z.ltb_ge in R2.
      cbn [bind] in H. bind_inv H. inversion H; subst out. clear H.
      replace (root =? N) with false by (symmetry; apply Z.eqb_neq; exact B2).
      right; right. split; [lia|].
      assert (FO : fresh_ok [root] NULL) by (simpl; split; [lia | split; [apply notin_null; lia | exact I]]).
      destruct (postorder_loop_spec _ _ [root] [] NULL a (le_n _) FO E) as (ls & rest & f' & F & -> & _ & HR).
      apply loop_nil_out in HR. subst rest. rewrite app_nil_r.
      inversion F as [|? l1 ? ls' P1 F' E1 E2]; subst. inversion F'; subst. simpl. rewrite app_nil_r. exact P1.
  Qed.
End Postorder.
