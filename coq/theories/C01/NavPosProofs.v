(* Navigation, position level: for a valid table with sorted indexes the bookmarks of
   tsk_tree_position_t are a function of (tree index, direction) — the *cuts* of the two index
   arrays at the right end of the current interval — after next, prev and after a seek from
   the null state in either direction; and the index ranges that next / prev / seek hand to
   the tree are the ranges between two cuts. *)
From Coq Require Import List ZArith Bool Lia Sorting.Sorted Permutation.
From TskVerif Require Import Base.Common.
From TskVerif Require Import C01.Model.
From TskVerif Require Import C01.NavModel.
From TskVerif Require Import C01.ArrayLemmas.
From TskVerif Require Import C01.SweepProofs.
From TskVerif Require Import C01.ProjProofs.
From TskVerif Require Import C01.TreeProofs.
From TskVerif Require Import C01.CountProofs.
From TskVerif Require Import C01.Theorems.
From TskVerif Require Import C01.NavScanProofs.
Import ListNotations.
Open Scope Z_scope.

Lemma get_last {A} (l : list A) d : l <> [] -> get l (zlen l - 1) = Ok (last l d).
Proof.
  induction l as [|a r IH]; intros H; [congruence|].
  destruct r as [|b r'].
  - reflexivity.
  - rewrite get_cons_S by (unfold zlen; simpl length; lia).
    replace (zlen (a :: b :: r') - 1 - 1) with (zlen (b :: r') - 1) by (unfold zlen; simpl length; lia).
    rewrite IH by congruence. reflexivity.
Qed.

Section Pos.
  Variables (L : Z) (ns : list node) (es : list edge) (Ins Rem : list Z) (q : tseq).
  Hypothesis HVb : valid_edgesb L ns es = true.
  Let HV : valid_edges L ns es := valid_edgesb_spec L ns es HVb.
  Hypothesis HI : index_sorted es Ins Rem.
  Hypothesis HQ : mk_tseq L ns es Ins Rem = Ok q.

  Let M := zlen es.
  Definition cI (x : Z) : Z := cut ileft (q_I q) x.
  Definition cO (x : Z) : Z := cut iright (q_O q) x.

  Let SI := sortedI L ns es Ins Rem q HI HQ.
  Let SO := sortedO L ns es Ins Rem q HI HQ.

  Lemma q_edges_es : q_edges q = es.
  Proof. destruct (mk_tseq_inv L ns es Ins Rem q HQ) as (? & ? & _ & _ & _ & _ & _ & _ & E & _). exact E. Qed.
  Lemma q_L_L : q_L q = L.
  Proof. destruct (mk_tseq_inv L ns es Ins Rem q HQ) as (? & ? & _ & _ & _ & _ & _ & _ & _ & _ & E). exact E. Qed.

  Lemma resolve_len idx l : resolve es idx = Ok l -> length l = length idx.
  Proof. intros R. destruct (resolve_spec es idx l R) as [E _]. rewrite <- E. now rewrite map_length. Qed.

  Lemma zlen_I : zlen (q_I q) = M.
  Proof.
    destruct (mk_tseq_inv L ns es Ins Rem q HQ) as (? & ? & R & _).
    unfold zlen, M. rewrite (resolve_len _ _ R), (Permutation_length (is_permI _ _ _ HI)).
    unfold zseq. now rewrite map_length, seq_length.
  Qed.
  Lemma zlen_O : zlen (q_O q) = M.
  Proof.
    destruct (mk_tseq_inv L ns es Ins Rem q HQ) as (? & ? & _ & R & _).
    unfold zlen, M. rewrite (resolve_len _ _ R), (Permutation_length (is_permO _ _ _ HI)).
    unfold zseq. now rewrite map_length, seq_length.
  Qed.
  Lemma nedges_M : nedges q = M.
  Proof. unfold nedges. now rewrite q_edges_es. Qed.
  Lemma scan_fuel_M : scan_fuel q = S (Z.to_nat M).
  Proof. unfold scan_fuel, M, zlen. rewrite q_edges_es. now rewrite Nat2Z.id. Qed.

  Lemma edgeI ie : In ie (q_I q) -> 0 <= ileft ie < iright ie /\ iright ie <= L /\ In (snd ie) es.
  Proof.
    intros H. apply (proj1 (memI L ns es Ins Rem q HI HQ)) in H.
    destruct (ve_ok _ _ _ HV _ H) as (? & ? & _). unfold ileft, iright. auto.
  Qed.
  Lemma edgeO ie : In ie (q_O q) -> 0 <= ileft ie < iright ie /\ iright ie <= L /\ In (snd ie) es.
  Proof.
    intros H. apply (proj1 (memO L ns es Ins Rem q HI HQ)) in H.
    destruct (ve_ok _ _ _ HV _ H) as (? & ? & _). unfold ileft, iright. auto.
  Qed.

  (* ---- breakpoints ---- *)
  Lemma BP : Sorted Z.lt (q_bps q) /\ hd 0 (q_bps q) = 0 /\ last (q_bps q) 0 = L /\
    zlen (q_bps q) = q_ntrees q + 1 /\ 0 < q_ntrees q /\
    forall x, In x (q_bps q) <->
      x = 0 \/ x = L \/ exists e, In e es /\ (x = eleft e \/ x = eright e).
  Proof. exact (breakpoints_partition_lemma L ns es Ins Rem q HVb HI HQ). Qed.

  Lemma bps_incr : incr (q_bps q).
  Proof. apply sorted_lt_incr. apply BP. Qed.
  Lemma bps_len : zlen (q_bps q) = q_ntrees q + 1.
  Proof. apply BP. Qed.
  Lemma ntrees_pos : 0 < q_ntrees q.
  Proof. apply BP. Qed.
  Lemma bps_first : get (q_bps q) 0 = Ok 0.
  Proof.
    destruct BP as (_ & H & _ & Z1 & Z2 & _). destruct (q_bps q) as [|a r]; [unfold zlen in Z1; simpl in Z1; lia|].
    simpl in H. subst. reflexivity.
  Qed.
  Lemma bps_last : get (q_bps q) (q_ntrees q) = Ok L.
  Proof.
    destruct BP as (_ & _ & H & Z1 & Z2 & _).
    replace (q_ntrees q) with (zlen (q_bps q) - 1) by lia. rewrite <- H. apply get_last.
    intros E. rewrite E in Z1. unfold zlen in Z1; simpl in Z1; lia.
  Qed.
  Lemma bps_get i : 0 <= i <= q_ntrees q -> exists b, get (q_bps q) i = Ok b.
  Proof. intros H. apply get_ok. rewrite bps_len. lia. Qed.
  Lemma bps_bounds i b : get (q_bps q) i = Ok b -> 0 <= b <= L.
  Proof.
    intros G. pose proof (get_inv _ _ _ G) as R. rewrite bps_len in R.
    pose proof bps_first as G0. pose proof bps_last as GL. pose proof bps_incr as Inc.
    split.
    - destruct (Z.eq_dec i 0) as [->|N0]; [rewrite G0 in G; inversion G; lia|].
      pose proof (Inc 0 i 0 b ltac:(lia) G0 G). lia.
    - destruct (Z.eq_dec i (q_ntrees q)) as [->|N0]; [rewrite GL in G; inversion G; lia|].
      pose proof (Inc i (q_ntrees q) b L ltac:(lia) G GL). lia.
  Qed.

  (* every end-point is a breakpoint, so none lies strictly between two consecutive ones *)
  Lemma no_between i l r x :
    get (q_bps q) i = Ok l -> get (q_bps q) (i + 1) = Ok r -> In x (q_bps q) -> ~ (l < x < r).
  Proof.
    intros Gl Gr Hx [H1 H2]. apply In_get in Hx as [k Gk]. pose proof bps_incr as Inc.
    destruct (Z_le_gt_dec k i) as [Le|Gt].
    - destruct (Z.eq_dec k i) as [->|Nk]; [rewrite Gl in Gk; inversion Gk; lia|].
      pose proof (Inc k i x l ltac:(lia) Gk Gl). lia.
    - destruct (Z.eq_dec k (i + 1)) as [->|Nk]; [rewrite Gr in Gk; inversion Gk; lia|].
      pose proof (Inc (i + 1) k r x ltac:(lia) Gr Gk). lia.
  Qed.

  Lemma ends_bps e : In e es -> In (eleft e) (q_bps q) /\ In (eright e) (q_bps q).
  Proof.
    intros H. destruct BP as (_ & _ & _ & _ & _ & Mem). split; apply Mem; right; right; exists e; auto.
  Qed.

  Lemma no_end_between i l r e :
    get (q_bps q) i = Ok l -> get (q_bps q) (i + 1) = Ok r -> In e es ->
    ~ (l < eleft e < r) /\ ~ (l < eright e < r).
  Proof.
    intros Gl Gr He. destruct (ends_bps e He). split; eapply no_between; eauto.
  Qed.

  Lemma bps_lt i l r : get (q_bps q) i = Ok l -> get (q_bps q) (i + 1) = Ok r -> l < r.
  Proof. intros Gl Gr. eapply bps_incr; eauto. lia. Qed.

  (* cuts at consecutive breakpoints *)
  Lemma cI_step i l r : get (q_bps q) i = Ok l -> get (q_bps q) (i + 1) = Ok r -> cI (l + 1) = cI r.
  Proof.
    intros Gl Gr. pose proof (bps_lt _ _ _ Gl Gr). apply cut_between; [lia|].
    intros ie Hie X. destruct (edgeI ie Hie) as (_ & _ & He).
    destruct (no_end_between i l r _ Gl Gr He) as [A _]. apply A. unfold ileft in X. lia.
  Qed.
  Lemma cO_step i l r : get (q_bps q) i = Ok l -> get (q_bps q) (i + 1) = Ok r -> cO (l + 1) = cO r.
  Proof.
    intros Gl Gr. pose proof (bps_lt _ _ _ Gl Gr). apply cut_between; [lia|].
    intros ie Hie X. destruct (edgeO ie Hie) as (_ & _ & He).
    destruct (no_end_between i l r _ Gl Gr He) as [_ A]. apply A. unfold iright in X. lia.
  Qed.

  Lemma cI_0 : cI 0 = 0.
  Proof. apply cut_low. intros ie H. destruct (edgeI ie H). lia. Qed.
  Lemma cO_0 : cO 0 = 0.
  Proof. apply cut_low. intros ie H. destruct (edgeO ie H). lia. Qed.
  Lemma cI_top : cI (L + 1) = M.
  Proof. unfold cI. rewrite cut_high; [apply zlen_I|]. intros ie H. destruct (edgeI ie H). lia. Qed.
  Lemma cO_top : cO (L + 1) = M.
  Proof. unfold cO. rewrite cut_high; [apply zlen_O|]. intros ie H. destruct (edgeO ie H) as (? & ? & _). lia. Qed.
  Lemma cI_range x : 0 <= cI x <= M.
  Proof. rewrite <- zlen_I. apply cut_range. Qed.
  Lemma cO_range x : 0 <= cO x <= M.
  Proof. rewrite <- zlen_O. apply cut_range. Qed.

  (* the scans of this tree sequence, in terms of the cuts *)
  Lemma scanO_up c y j : 0 <= j <= cO y ->
    (forall k ie, j <= k -> get (q_O q) k = Ok ie -> c ie = (iright ie <? y)) ->
    scan_up (S (Z.to_nat M)) (q_O q) M c j = Ok (cO y).
  Proof.
    intros Hj Hc. rewrite <- zlen_O. apply scan_up_cut; auto. rewrite zlen_O. lia.
  Qed.
  Lemma scanI_up c y j : 0 <= j <= cI y ->
    (forall k ie, j <= k -> get (q_I q) k = Ok ie -> c ie = (ileft ie <? y)) ->
    scan_up (S (Z.to_nat M)) (q_I q) M c j = Ok (cI y).
  Proof.
    intros Hj Hc. rewrite <- zlen_I. apply scan_up_cut; auto. rewrite zlen_I. lia.
  Qed.
  Lemma scanO_down c y j : cO y - 1 <= j < M ->
    (forall k ie, k <= j -> get (q_O q) k = Ok ie -> c ie = (y <=? iright ie)) ->
    scan_down (S (Z.to_nat M)) (q_O q) c j = Ok (cO y - 1).
  Proof.
    intros Hj Hc. apply scan_down_cut; auto; [rewrite zlen_O; exact Hj | lia].
  Qed.
  Lemma scanI_down c y j : cI y - 1 <= j < M ->
    (forall k ie, k <= j -> get (q_I q) k = Ok ie -> c ie = (y <=? ileft ie)) ->
    scan_down (S (Z.to_nat M)) (q_I q) c j = Ok (cI y - 1).
  Proof.
    intros Hj Hc. apply scan_down_cut; auto; [rewrite zlen_I; exact Hj | lia].
  Qed.
  Lemma cI_mono x y : x <= y -> cI x <= cI y.
  Proof. apply cut_mono. Qed.
  Lemma cO_mono x y : x <= y -> cO x <= cO y.
  Proof. apply cut_mono. Qed.
  Lemma cI_spec x : Cut ileft (q_I q) x (cI x).
  Proof. apply cut_spec. exact SI. Qed.
  Lemma cO_spec x : Cut iright (q_O q) x (cO x).
  Proof. apply cut_spec. exact SO. Qed.

  (* ---- canonical bookmarks ---- *)
  Definition Canon (p : npos) (r : Z) : Prop :=
    (n_dir p = 1 /\ b_stop (n_in p) = cI r /\ b_stop (n_out p) = cO r) \/
    (n_dir p = -1 /\ b_stop (n_out p) = cI r - 1 /\ b_stop (n_in p) = cO r - 1).

  Definition PosAt (p : npos) (i : Z) : Prop :=
    0 <= i < q_ntrees q /\ n_index p = i /\
    get (q_bps q) i = Ok (n_left p) /\ get (q_bps q) (i + 1) = Ok (n_right p) /\
    Canon p (n_right p).

  Lemma canon_fwd p r : Canon p r -> cur_fwd p = (cI r, cO r).
  Proof.
    intros [(D & A & B)|(D & A & B)]; unfold cur_fwd; rewrite D; simpl.
    - now rewrite A, B.
    - rewrite A, B. f_equal; lia.
  Qed.
  Lemma canon_rev p r : Canon p r -> cur_rev p = (cI r - 1, cO r - 1).
  Proof.
    intros [(D & A & B)|(D & A & B)]; unfold cur_rev; rewrite D; simpl.
    - now rewrite A, B.
    - now rewrite A, B.
  Qed.

  (* ---- next ---- *)
  Lemma npos_next_gen p x :
    cur_fwd (init_fwd p) = (cI x, cO x) -> n_right (init_fwd p) = x ->
    npos_next q p =
      let out := mkBm (cO x) (cO (x + 1)) true in
      let inn := mkBm (cI x) (cI (x + 1)) false in
      let index := n_index (init_fwd p) + 1 in
      if index =? q_ntrees q then Ok (mkNpos (-1) 0 0 1 inn out, false)
      else do r <- get (q_bps q) (index + 1); Ok (mkNpos index x r 1 inn out, true).
  Proof.
    intros C R. unfold npos_next. rewrite C, R. rewrite nedges_M, scan_fuel_M.
    pose proof (cI_range x). pose proof (cO_range x).
    rewrite (scanO_up _ (x + 1)).
    2:{ split; [lia|]. apply cO_mono. lia. }
    2:{ intros k ie Hk G. destruct (cO_spec x) as (_ & _ & C2).
        pose proof (C2 k ie Hk G). destruct (Z.eqb_spec (iright ie) x), (Z.ltb_spec (iright ie) (x + 1)); auto; lia. }
    cbn [bind].
    rewrite (scanI_up _ (x + 1)).
    2:{ split; [lia|]. apply cI_mono. lia. }
    2:{ intros k ie Hk G. destruct (cI_spec x) as (_ & _ & C2).
        pose proof (C2 k ie Hk G). destruct (Z.eqb_spec (ileft ie) x), (Z.ltb_spec (ileft ie) (x + 1)); auto; lia. }
    cbn [bind]. reflexivity.
  Qed.

  Lemma init_fwd_id p : n_index p <> -1 -> init_fwd p = p.
  Proof. intros H. unfold init_fwd. apply Z.eqb_neq in H. now rewrite H. Qed.
  Lemma init_rev_id p : n_index p <> -1 -> init_rev q p = p.
  Proof. intros H. unfold init_rev. apply Z.eqb_neq in H. now rewrite H. Qed.

  Lemma next_pos p i : PosAt p i -> i + 1 < q_ntrees q ->
    exists p', npos_next q p = Ok (p', true) /\ PosAt p' (i + 1) /\ n_left p' = n_right p /\
      n_out p' = mkBm (cO (n_right p)) (cO (n_right p + 1)) true /\
      n_in p' = mkBm (cI (n_right p)) (cI (n_right p + 1)) false.
  Proof.
    intros (R & Ix & Gl & Gr & C) Hi. set (x := n_right p) in *.
    rewrite (npos_next_gen p x); [|rewrite init_fwd_id by lia; apply canon_fwd; exact C | rewrite init_fwd_id by lia; reflexivity].
    rewrite init_fwd_id by lia. rewrite Ix. cbv zeta.
    replace (i + 1 =? q_ntrees q) with false by (symmetry; apply Z.eqb_neq; lia).
    destruct (bps_get (i + 1 + 1) ltac:(lia)) as [r' Gr']. rewrite Gr'. cbn [bind].
    eexists. split; [reflexivity|]. split; [|simpl; auto].
    split; [lia|]. simpl. split; [reflexivity|]. split; [exact Gr|]. split; [exact Gr'|].
    left. simpl. split; [reflexivity|]. split.
    - apply (cI_step (i + 1)); auto.
    - apply (cO_step (i + 1)); auto.
  Qed.

  Lemma next_pos_end p : PosAt p (q_ntrees q - 1) ->
    exists p', npos_next q p = Ok (p', false) /\ n_index p' = -1 /\ n_left p' = 0 /\ n_right p' = 0.
  Proof.
    intros (R & Ix & Gl & Gr & C). set (x := n_right p) in *.
    rewrite (npos_next_gen p x); [|rewrite init_fwd_id by lia; apply canon_fwd; exact C | rewrite init_fwd_id by lia; reflexivity].
    rewrite init_fwd_id by lia. rewrite Ix. cbv zeta.
    replace (q_ntrees q - 1 + 1 =? q_ntrees q) with true by (symmetry; apply Z.eqb_eq; lia).
    eexists. split; [reflexivity|]. simpl. auto.
  Qed.

  Lemma next_pos_null p : n_index p = -1 ->
    exists p', npos_next q p = Ok (p', true) /\ PosAt p' 0 /\ n_left p' = 0 /\
      n_out p' = mkBm (cO 0) (cO 1) true /\ n_in p' = mkBm (cI 0) (cI 1) false.
  Proof.
    intros Ix. pose proof ntrees_pos as NT.
    assert (IF : init_fwd p = mkNpos (-1) (n_left p) 0 1 (mkBm (b_start (n_in p)) 0 (b_rem (n_in p)))
                                (mkBm (b_start (n_out p)) 0 (b_rem (n_out p)))).
    { unfold init_fwd. rewrite Ix. reflexivity. }
    rewrite (npos_next_gen p 0); [|rewrite IF; unfold cur_fwd; simpl; now rewrite cI_0, cO_0 | rewrite IF; reflexivity].
    rewrite IF. cbv zeta. simpl n_index.
    replace (-1 + 1 =? q_ntrees q) with false by (symmetry; apply Z.eqb_neq; lia).
    destruct (bps_get (-1 + 1 + 1) ltac:(lia)) as [r' Gr']. rewrite Gr'. cbn [bind].
    eexists. split; [reflexivity|]. split; [|simpl; auto].
    split; [lia|]. simpl. split; [reflexivity|]. split; [apply bps_first|]. split; [exact Gr'|].
    left. simpl. split; [reflexivity|]. pose proof bps_first as G0. split.
    - exact (cI_step 0 0 r' G0 Gr').
    - exact (cO_step 0 0 r' G0 Gr').
  Qed.

  (* ---- prev ---- *)
  Lemma npos_prev_gen p x :
    cur_rev (init_rev q p) = (cI (x + 1) - 1, cO (x + 1) - 1) -> n_left (init_rev q p) = x ->
    npos_prev q p =
      let out := mkBm (cI (x + 1) - 1) (cI x - 1) false in
      let inn := mkBm (cO (x + 1) - 1) (cO x - 1) true in
      let index := n_index (init_rev q p) - 1 in
      if index =? -1 then Ok (mkNpos (-1) 0 0 (-1) inn out, false)
      else do l <- get (q_bps q) index; Ok (mkNpos index l x (-1) inn out, true).
  Proof.
    intros C R. unfold npos_prev. rewrite C, R. rewrite scan_fuel_M.
    pose proof (cI_range (x + 1)). pose proof (cO_range (x + 1)).
    pose proof (cI_mono x (x + 1) ltac:(lia)). pose proof (cO_mono x (x + 1) ltac:(lia)).
    rewrite (scanI_down _ x).
    2:{ lia. }
    2:{ intros k ie Hk G. destruct (cI_spec (x + 1)) as (_ & C1 & _).
        pose proof (C1 k ie ltac:(lia) G).
        destruct (Z.eqb_spec (ileft ie) x), (Z.leb_spec x (ileft ie)); auto; lia. }
    cbn [bind].
    rewrite (scanO_down _ x).
    2:{ lia. }
    2:{ intros k ie Hk G. destruct (cO_spec (x + 1)) as (_ & C1 & _).
        pose proof (C1 k ie ltac:(lia) G).
        destruct (Z.eqb_spec (iright ie) x), (Z.leb_spec x (iright ie)); auto; lia. }
    cbn [bind]. reflexivity.
  Qed.

  Lemma prev_pos p i : PosAt p i -> 0 < i ->
    exists p', npos_prev q p = Ok (p', true) /\ PosAt p' (i - 1) /\ n_right p' = n_left p /\
      n_out p' = mkBm (cI (n_left p + 1) - 1) (cI (n_left p) - 1) false /\
      n_in p' = mkBm (cO (n_left p + 1) - 1) (cO (n_left p) - 1) true.
  Proof.
    intros (R & Ix & Gl & Gr & C) Hi. set (x := n_left p) in *.
    assert (CR : cur_rev p = (cI (x + 1) - 1, cO (x + 1) - 1)).
    { rewrite (canon_rev p _ C). rewrite (cI_step i x _ Gl Gr), (cO_step i x _ Gl Gr). reflexivity. }
    rewrite (npos_prev_gen p x); [|rewrite init_rev_id by lia; exact CR | rewrite init_rev_id by lia; reflexivity].
    rewrite init_rev_id by lia. rewrite Ix. cbv zeta.
    replace (i - 1 =? -1) with false by (symmetry; apply Z.eqb_neq; lia).
    destruct (bps_get (i - 1) ltac:(lia)) as [l' Gl']. rewrite Gl'. cbn [bind].
    eexists. split; [reflexivity|]. split; [|simpl; auto].
    split; [lia|]. simpl. split; [reflexivity|]. split; [exact Gl'|].
    split; [replace (i - 1 + 1) with i by lia; exact Gl|].
    right. simpl. auto.
  Qed.

  Lemma prev_pos_end p : PosAt p 0 ->
    exists p', npos_prev q p = Ok (p', false) /\ n_index p' = -1 /\ n_left p' = 0 /\ n_right p' = 0.
  Proof.
    intros (R & Ix & Gl & Gr & C). set (x := n_left p) in *.
    assert (CR : cur_rev p = (cI (x + 1) - 1, cO (x + 1) - 1)).
    { rewrite (canon_rev p _ C). rewrite (cI_step 0 x _ Gl Gr), (cO_step 0 x _ Gl Gr). reflexivity. }
    rewrite (npos_prev_gen p x); [|rewrite init_rev_id by lia; exact CR | rewrite init_rev_id by lia; reflexivity].
    rewrite init_rev_id by lia. rewrite Ix. cbv zeta. simpl.
    eexists. split; [reflexivity|]. simpl. auto.
  Qed.

  Lemma prev_pos_null p : n_index p = -1 ->
    exists p', npos_prev q p = Ok (p', true) /\ PosAt p' (q_ntrees q - 1) /\ n_right p' = L /\
      n_out p' = mkBm (cI (L + 1) - 1) (cI L - 1) false /\
      n_in p' = mkBm (cO (L + 1) - 1) (cO L - 1) true.
  Proof.
    intros Ix. pose proof ntrees_pos as NT.
    assert (IR : init_rev q p = mkNpos (q_ntrees q) L (n_right p) (-1)
                                (mkBm (b_start (n_in p)) (M - 1) (b_rem (n_in p)))
                                (mkBm (b_start (n_out p)) (M - 1) (b_rem (n_out p)))).
    { unfold init_rev. rewrite Ix, nedges_M, q_L_L. reflexivity. }
    rewrite (npos_prev_gen p L); [|rewrite IR; unfold cur_rev; simpl; now rewrite cI_top, cO_top | rewrite IR; reflexivity].
    rewrite IR. cbv zeta. simpl n_index.
    replace (q_ntrees q - 1 =? -1) with false by (symmetry; apply Z.eqb_neq; lia).
    destruct (bps_get (q_ntrees q - 1) ltac:(lia)) as [l' Gl']. rewrite Gl'. cbn [bind].
    eexists. split; [reflexivity|]. split; [|simpl; auto].
    split; [lia|]. simpl. split; [reflexivity|]. split; [exact Gl'|].
    split; [replace (q_ntrees q - 1 + 1) with (q_ntrees q) by lia; apply bps_last|].
    right. simpl. auto.
  Qed.

  (* ---- seek from the null state ---- *)
  Lemma seek_forward_null p i l r :
    n_index p = -1 -> 0 <= i < q_ntrees q ->
    get (q_bps q) i = Ok l -> get (q_bps q) (i + 1) = Ok r ->
    exists p' j1, npos_seek_forward q p i = Ok p' /\ PosAt p' i /\ n_left p' = l /\ n_right p' = r /\
      n_in p' = mkBm j1 (cI r) false /\ 0 <= j1 <= cI r /\
      (forall k ie, k < j1 -> get (q_I q) k = Ok ie -> iright ie <= l).
  Proof.
    intros Ix Hi Gl Gr. unfold npos_seek_forward. rewrite Ix.
    replace ((-1 <=? i) && (i <? q_ntrees q)) with true
      by (symmetry; apply andb_true_iff; split; [apply Z.leb_le | apply Z.ltb_lt]; lia).
    cbn [negb].
    assert (IF : init_fwd p = mkNpos (-1) (n_left p) 0 1 (mkBm (b_start (n_in p)) 0 (b_rem (n_in p)))
                                (mkBm (b_start (n_out p)) 0 (b_rem (n_out p)))).
    { unfold init_fwd. rewrite Ix. reflexivity. }
    rewrite IF. unfold cur_fwd. simpl n_dir. simpl b_stop. simpl n_index. cbn [Z.eqb Pos.eqb].
    rewrite Gl. cbn [bind]. rewrite nedges_M, scan_fuel_M.
    pose proof (cI_range r). pose proof (cO_range r).
    rewrite (scanO_up _ (l + 1)).
    2:{ split; [lia|]. apply cO_range. }
    2:{ intros k ie Hk G. destruct (Z.leb_spec (iright ie) l), (Z.ltb_spec (iright ie) (l + 1)); auto; lia. }
    cbn [bind].
    destruct (scan_up_spec (q_I q) (fun ie => iright ie <=? l) (S (Z.to_nat M)) 0) as (j1 & E1 & R1 & A1 & B1).
    { rewrite zlen_I. pose proof (cI_range 0). lia. }
    { rewrite zlen_I. lia. }
    rewrite zlen_I in E1, R1. rewrite E1. cbn [bind].
    assert (J1 : j1 <= cI (l + 1)).
    { destruct (Z_le_gt_dec j1 (cI (l + 1))) as [|Gt]; [assumption|exfalso].
      pose proof (cI_range (l + 1)).
      destruct (get_ok (q_I q) (cI (l + 1)) ltac:(rewrite zlen_I; lia)) as [ie G].
      pose proof (A1 (cI (l + 1)) ie ltac:(lia) G) as T. apply Z.leb_le in T.
      destruct (cI_spec (l + 1)) as (_ & _ & C2).
      pose proof (C2 (cI (l + 1)) ie ltac:(lia) G).
      destruct (edgeI ie (get_In _ _ _ G)). lia. }
    rewrite (scanI_up _ (l + 1)).
    2:{ lia. }
    2:{ intros k ie Hk G. destruct (Z.leb_spec (ileft ie) l), (Z.ltb_spec (ileft ie) (l + 1)); auto; lia. }
    cbn [bind]. rewrite Gr. cbn [bind].
    rewrite (cI_step i l r Gl Gr) in *. rewrite (cO_step i l r Gl Gr).
    eexists. exists j1. split; [reflexivity|]. simpl.
    split; [|split; [reflexivity|split; [reflexivity|split; [reflexivity|split; [lia|]]]]].
    - split; [lia|]. simpl. split; [reflexivity|]. split; [exact Gl|]. split; [exact Gr|].
      left. simpl. auto.
    - intros k ie Hk G. pose proof (get_inv _ _ _ G).
      pose proof (A1 k ie ltac:(lia) G) as T. apply Z.leb_le in T. exact T.
  Qed.

  Lemma seek_backward_null p i l r :
    n_index p = -1 -> 0 <= i < q_ntrees q ->
    get (q_bps q) i = Ok l -> get (q_bps q) (i + 1) = Ok r ->
    exists p' j1, npos_seek_backward q p i = Ok p' /\ PosAt p' i /\ n_left p' = l /\ n_right p' = r /\
      n_in p' = mkBm j1 (cO r - 1) true /\ cO r - 1 <= j1 < M /\
      (forall k ie, j1 < k -> get (q_O q) k = Ok ie -> r <= ileft ie).
  Proof.
    intros Ix Hi Gl Gr. unfold npos_seek_backward.
    assert (IR : init_rev q p = mkNpos (q_ntrees q) L (n_right p) (-1)
                                (mkBm (b_start (n_in p)) (M - 1) (b_rem (n_in p)))
                                (mkBm (b_start (n_out p)) (M - 1) (b_rem (n_out p)))).
    { unfold init_rev. rewrite Ix, nedges_M, q_L_L. reflexivity. }
    rewrite IR. simpl n_index.
    replace (i <=? q_ntrees q) with true by (symmetry; apply Z.leb_le; lia). cbn [negb].
    unfold cur_rev. simpl n_dir. simpl b_stop. cbn [Z.eqb Pos.eqb].
    rewrite Gr. cbn [bind]. rewrite scan_fuel_M.
    pose proof (cI_range r). pose proof (cO_range r).
    destruct (Z.eq_dec M 0) as [M0|MN].
    { (* no edges: every scan starts at -1 *)
      rewrite M0. cbn [scan_down Z.to_nat Z.leb Z.compare Z.sub Z.add Z.opp Z.pos_sub]. cbn [bind].
      rewrite Z.eqb_refl. rewrite Gl. cbn [bind].
      eexists. exists (-1). split; [reflexivity|]. simpl.
      assert (cI r = 0) by lia. assert (cO r = 0) by lia.
      split; [|split; [reflexivity|split; [reflexivity|split; [f_equal; lia|split; [lia|]]]]].
      - split; [lia|]. simpl. split; [reflexivity|]. split; [exact Gl|]. split; [exact Gr|].
        right. simpl. split; [reflexivity|]. split; lia.
      - intros k ie Hk G. apply get_inv in G. rewrite zlen_O in G. lia. }
    rewrite (scanI_down _ r).
    2:{ lia. }
    2:{ reflexivity. }
    cbn [bind].
    destruct (scan_down_spec (q_O q) (fun ie => r <=? ileft ie) (S (Z.to_nat M)) (M - 1)) as (j1 & E1 & R1 & A1 & B1).
    { rewrite zlen_O. lia. }
    { lia. }
    rewrite E1. cbn [bind].
    assert (J1 : cO r - 1 <= j1).
    { destruct (Z_le_gt_dec (cO r - 1) j1) as [|Gt]; [assumption|exfalso].
      destruct (get_ok (q_O q) (cO r - 1) ltac:(rewrite zlen_O; lia)) as [ie G].
      pose proof (A1 (cO r - 1) ie ltac:(lia) G) as T. apply Z.leb_le in T.
      destruct (cO_spec r) as (_ & C1 & _).
      pose proof (C1 (cO r - 1) ie ltac:(lia) G).
      destruct (edgeO ie (get_In _ _ _ G)). lia. }
    rewrite (scanO_down _ r).
    2:{ lia. }
    2:{ reflexivity. }
    cbn [bind]. rewrite Gl. cbn [bind]. rewrite Z.eqb_refl.
    eexists. exists j1. split; [reflexivity|]. simpl.
    split; [|split; [reflexivity|split; [reflexivity|split; [reflexivity|split; [lia|]]]]].
    - split; [lia|]. simpl. split; [reflexivity|]. split; [exact Gl|]. split; [exact Gr|].
      right. simpl. auto.
    - intros k ie Hk G. pose proof (get_inv _ _ _ G) as Rk. rewrite zlen_O in Rk.
      pose proof (A1 k ie ltac:(lia) G) as T. apply Z.leb_le in T. exact T.
  Qed.
End Pos.
