(* The edge array: in every tree of the sweep, edge[u] is the id of the edge that covers the
   interval with child u, or NULL.  Obtained by re-using the parent-array theory on the edge
   table whose "parent" column is replaced by the edge id. *)
From Coq Require Import List ZArith Bool Lia Sorting.Sorted Permutation.
From TskVerif Require Import Base.Common.
From TskVerif Require Import C01.Model.
From TskVerif Require Import C01.ArrayLemmas.
From TskVerif Require Import C01.SpanProofs.
From TskVerif Require Import C01.SweepProofs.
From TskVerif Require Import C01.ParentProofs.
From TskVerif Require Import C01.ProjProofs.
From TskVerif Require Import C01.TreeProofs.
From TskVerif Require Import C01.InductProofs.
Import ListNotations.
Open Scope Z_scope.

Definition rel (ie : iedge) : iedge :=
  (fst ie, mkEdge (ileft ie) (iright ie) (fst ie) (ichild ie)).
Definition es_id (es : list edge) : list edge := map (fun ie => snd (rel ie)) (enum_from 0 es).

Lemma enum_from_In {A} : forall (l : list A) i0 i a,
  In (i, a) (enum_from i0 l) <-> i0 <= i /\ nth_error l (Z.to_nat (i - i0)) = Some a.
Proof.
  induction l as [|x r IH]; intros i0 i a; simpl.
  - split; [intros [] | intros [_ H]; destruct (Z.to_nat (i - i0)); discriminate].
  - split.
    + intros [H|H].
      * inversion H; subst. split; [lia|]. replace (i - i) with 0 by lia. reflexivity.
      * apply IH in H as [H1 H2]. split; [lia|].
        replace (Z.to_nat (i - i0)) with (S (Z.to_nat (i - (i0 + 1)))) by lia. exact H2.
    + intros [H1 H2]. destruct (Z.eq_dec i i0) as [->|NE].
      * replace (i0 - i0) with 0 in H2 by lia. simpl in H2. inversion H2. left; reflexivity.
      * right. apply IH. split; [lia|].
        replace (Z.to_nat (i - i0)) with (S (Z.to_nat (i - (i0 + 1)))) in H2 by lia. exact H2.
Qed.

Lemma get_enum {A} (l : list A) i a : get l i = Ok a <-> In (i, a) (enum_from 0 l).
Proof.
  rewrite enum_from_In. unfold get. rewrite Z.sub_0_r. split.
  - destruct (i <? 0) eqn:E; [discriminate|]. apply Z.ltb_ge in E.
    destruct (nth_error l (Z.to_nat i)); [|discriminate]. intros H; inversion H; auto.
  - intros [H1 H2]. destruct (i <? 0) eqn:E; [apply Z.ltb_lt in E; lia|]. now rewrite H2.
Qed.

(* ---- projection of the full model onto edge[] ---- *)
Ltac setter_edge := intros H; match type of H with ?f _ _ _ = _ => unfold f in H end;
  bind_inv H; inversion H; reflexivity.
Lemma s_parent_e t u v t' : s_parent t u v = Ok t' -> t_edge t' = t_edge t. Proof. setter_edge. Qed.
Lemma s_lc_e t u v t' : s_lc t u v = Ok t' -> t_edge t' = t_edge t. Proof. setter_edge. Qed.
Lemma s_rc_e t u v t' : s_rc t u v = Ok t' -> t_edge t' = t_edge t. Proof. setter_edge. Qed.
Lemma s_ls_e t u v t' : s_ls t u v = Ok t' -> t_edge t' = t_edge t. Proof. setter_edge. Qed.
Lemma s_rs_e t u v t' : s_rs t u v = Ok t' -> t_edge t' = t_edge t. Proof. setter_edge. Qed.
Lemma s_nc_e t u v t' : s_nc t u v = Ok t' -> t_edge t' = t_edge t. Proof. setter_edge. Qed.
Lemma s_ns_e t u v t' : s_ns t u v = Ok t' -> t_edge t' = t_edge t. Proof. setter_edge. Qed.
Lemma s_nt_e t u v t' : s_nt t u v = Ok t' -> t_edge t' = t_edge t. Proof. setter_edge. Qed.
Lemma s_lsamp_e t u v t' : s_lsamp t u v = Ok t' -> t_edge t' = t_edge t. Proof. setter_edge. Qed.
Lemma s_rsamp_e t u v t' : s_rsamp t u v = Ok t' -> t_edge t' = t_edge t. Proof. setter_edge. Qed.
Lemma s_nsamp_e t u v t' : s_nsamp t u v = Ok t' -> t_edge t' = t_edge t. Proof. setter_edge. Qed.
Lemma s_edge_e t u v t' : s_edge t u v = Ok t' -> set (t_edge t) u v = Ok (t_edge t').
Proof. unfold s_edge. intros H. bind_inv H. inversion H. reflexivity. Qed.

Ltac e_frames :=
  repeat match goal with
  | H : s_parent _ _ _ = Ok _ |- _ => apply s_parent_e in H
  | H : s_lc _ _ _ = Ok _ |- _ => apply s_lc_e in H
  | H : s_rc _ _ _ = Ok _ |- _ => apply s_rc_e in H
  | H : s_ls _ _ _ = Ok _ |- _ => apply s_ls_e in H
  | H : s_rs _ _ _ = Ok _ |- _ => apply s_rs_e in H
  | H : s_nc _ _ _ = Ok _ |- _ => apply s_nc_e in H
  | H : s_ns _ _ _ = Ok _ |- _ => apply s_ns_e in H
  | H : s_nt _ _ _ = Ok _ |- _ => apply s_nt_e in H
  | H : s_lsamp _ _ _ = Ok _ |- _ => apply s_lsamp_e in H
  | H : s_rsamp _ _ _ = Ok _ |- _ => apply s_rsamp_e in H
  | H : s_nsamp _ _ _ = Ok _ |- _ => apply s_nsamp_e in H
  end.

Lemma remove_branch_e t p c t' : remove_branch t p c = Ok t' -> t_edge t' = t_edge t.
Proof. unfold remove_branch. intros H. repeat bind_inv H. split_ifs; e_frames; congruence. Qed.

Lemma insert_branch_e t p c t' : insert_branch t p c = Ok t' -> t_edge t' = t_edge t.
Proof.
  unfold insert_branch. intros H. repeat bind_inv H.
  split_ifs; repeat match goal with H : bind _ _ = Ok _ |- _ => bind_inv H end; e_frames; congruence.
Qed.

Lemma insert_root_e V t r t' : insert_root V t r = Ok t' -> t_edge t' = t_edge t.
Proof. unfold insert_root. intros H. bind_inv H. apply insert_branch_e in E. e_frames. congruence. Qed.

Lemma propagate_e : forall fuel thr sign t c u pe wr t' pe' wr',
  propagate fuel thr sign t c u pe wr = Ok (t', pe', wr') -> t_edge t' = t_edge t.
Proof.
  induction fuel as [|f IH]; intros thr sign t c u pe wr t' pe' wr' H; simpl in H.
  - destruct (u =? NULL); [inversion H; reflexivity | discriminate].
  - destruct (u =? NULL); [inversion H; reflexivity|].
    bind_inv H. bind_inv H. bind_inv H. bind_inv H. bind_inv H. bind_inv H. bind_inv H.
    apply IH in H. e_frames. congruence.
Qed.

Lemma usl_children_e : forall fuel t u v t', usl_children fuel t u v = Ok t' -> t_edge t' = t_edge t.
Proof.
  induction fuel as [|f IH]; intros t u v t' H; simpl in H.
  - destruct (v =? NULL); [inversion H; reflexivity | discriminate].
  - destruct (v =? NULL); [inversion H; reflexivity|].
    bind_inv H. bind_inv H. bind_inv H. apply IH in H. rewrite H.
    destruct (negb (a =? NULL)); [|inversion E0; reflexivity].
    bind_inv E0. destruct (a2 =? NULL); [discriminate|]. bind_inv E0.
    destruct (a3 =? NULL).
    + bind_inv E0. e_frames. congruence.
    + bind_inv E0. bind_inv E0. e_frames. congruence.
Qed.

Lemma update_sample_lists_e : forall fuel simap t u t',
  update_sample_lists fuel simap t u = Ok t' -> t_edge t' = t_edge t.
Proof.
  induction fuel as [|f IH]; intros simap t u t' H; simpl in H.
  - destruct (u =? NULL); [inversion H; reflexivity | discriminate].
  - destruct (u =? NULL); [inversion H; reflexivity|].
    bind_inv H. bind_inv H. bind_inv H. bind_inv H. bind_inv H.
    apply IH in H. apply usl_children_e in E2. rewrite H, E2.
    destruct (negb (a =? NULL)).
    + bind_inv E0. e_frames. congruence.
    + bind_inv E0. e_frames. congruence.
Qed.

Lemma cond_lists_e lists simap t p t' : cond_lists lists simap t p = Ok t' -> t_edge t' = t_edge t.
Proof.
  unfold cond_lists. destruct lists; [apply update_sample_lists_e|]. intros H; inversion H; reflexivity.
Qed.
Lemma cond_remove_root_end_e V thr t wr pe t' : cond_remove_root_end V thr t wr pe = Ok t' -> t_edge t' = t_edge t.
Proof.
  unfold cond_remove_root_end. intros H. destruct wr; [|inversion H; reflexivity].
  bind_inv H. destruct (negb (thr <=? a)); [|inversion H; reflexivity].
  unfold remove_root in H. eapply remove_branch_e; eauto.
Qed.
Lemma cond_insert_root_c_e V thr t c t' : cond_insert_root_c V thr t c = Ok t' -> t_edge t' = t_edge t.
Proof.
  unfold cond_insert_root_c. intros H. bind_inv H.
  destruct (thr <=? a); [|inversion H; reflexivity]. eapply insert_root_e; eauto.
Qed.
Lemma cond_remove_root_c_e V thr t c t' : cond_remove_root_c V thr t c = Ok t' -> t_edge t' = t_edge t.
Proof.
  unfold cond_remove_root_c. intros H. bind_inv H.
  destruct (thr <=? a); [|inversion H; reflexivity]. unfold remove_root in H. eapply remove_branch_e; eauto.
Qed.
Lemma cond_insert_root_end_e V thr t wr pe t' : cond_insert_root_end V thr t wr pe = Ok t' -> t_edge t' = t_edge t.
Proof.
  unfold cond_insert_root_end. intros H. bind_inv H.
  destruct ((thr <=? a) && negb wr); [|inversion H; reflexivity]. eapply insert_root_e; eauto.
Qed.

Lemma remove_edge_e q o t p c t' :
  remove_edge q o t p c = Ok t' -> set (t_edge t) c NULL = Ok (t_edge t').
Proof.
  unfold remove_edge. intros H.
  bind_inv H. apply remove_branch_e in E. bind_inv H. apply s_edge_e in E0. simpl in E0.
  bind_inv H. destruct a1 as [[t2 pe] wr]. apply propagate_e in E1.
  bind_inv H. apply cond_remove_root_end_e in E2. bind_inv H. apply cond_insert_root_c_e in E3.
  apply cond_lists_e in H. rewrite H, E3, E2, E1. rewrite <- E. exact E0.
Qed.

Lemma insert_edge_e q o t p c e t' :
  insert_edge q o t p c e = Ok t' -> set (t_edge t) c e = Ok (t_edge t').
Proof.
  unfold insert_edge. intros H.
  bind_inv H. destruct a as [[t1 pe] wr]. apply propagate_e in E.
  bind_inv H. apply cond_remove_root_c_e in E0. bind_inv H. apply cond_insert_root_end_e in E1.
  bind_inv H. apply insert_branch_e in E2. bind_inv H. apply s_edge_e in E3. simpl in E3.
  apply cond_lists_e in H. rewrite H. rewrite <- E, <- E0, <- E1, <- E2. exact E3.
Qed.

Lemma remove_edges_e q o : forall l t t',
  remove_edges q o t l = Ok t' -> par_remove (t_edge t) (map rel l) = Ok (t_edge t').
Proof.
  induction l as [|[i e] r IH]; intros t t' H; simpl in H.
  - inversion H; reflexivity.
  - bind_inv H. apply remove_edge_e in E. simpl. unfold ichild; simpl. rewrite E. simpl. auto.
Qed.

Lemma insert_edges_e q o : forall l t t',
  insert_edges q o t l = Ok t' -> par_insert (t_edge t) (map rel l) = Ok (t_edge t').
Proof.
  induction l as [|[i e] r IH]; intros t t' H; simpl in H.
  - inversion H; reflexivity.
  - bind_inv H. apply insert_edge_e in E. simpl. unfold ichild; simpl. rewrite E. simpl. auto.
Qed.

Lemma insert_roots_e V : forall ss t t', insert_roots V t ss = Ok t' -> t_edge t' = t_edge t.
Proof.
  induction ss as [|s r IH]; intros t t' H; simpl in H.
  - inversion H; reflexivity.
  - bind_inv H. apply insert_root_e in E. apply IH in H. congruence.
Qed.

Lemma tree_clear_e q o t : tree_clear q o = Ok t -> t_edge t = repeat NULL (Z.to_nat (q_N q + 1)).
Proof.
  unfold tree_clear. intros H.
  bind_inv H. bind_inv H. bind_inv H. bind_inv H. bind_inv H.
  match type of H with (if ?c then _ else _) = _ => destruct c end.
  - apply insert_roots_e in H. exact H.
  - inversion H; subst; reflexivity.
Qed.

Section EdgeArray.
  Variables (L : Z) (ns : list node) (es : list edge) (Ins Rem : list Z) (q : tseq).
  Hypothesis HV : valid_edges L ns es.
  Hypothesis HI : index_sorted es Ins Rem.
  Hypothesis HQ : mk_tseq L ns es Ins Rem = Ok q.
  Variable o : topts.
  Let N := zlen ns.
  Let esi := es_id es.

  Lemma esi_In e' : In e' esi <-> exists i e, get es i = Ok e /\ e' = snd (rel (i, e)).
  Proof.
    unfold esi, es_id. rewrite in_map_iff. split.
    - intros ([i e] & <- & Hin). exists i, e. split; [apply get_enum; exact Hin | reflexivity].
    - intros (i & e & G & ->). exists (i, e). split; [reflexivity | apply get_enum; exact G].
  Qed.

  Lemma get_unique i1 i2 e : get es i1 = Ok e -> get es i2 = Ok e -> i1 = i2.
  Proof.
    intros G1 G2. unfold get in *.
    destruct (i1 <? 0) eqn:L1; [discriminate|]. destruct (i2 <? 0) eqn:L2; [discriminate|].
    apply Z.ltb_ge in L1. apply Z.ltb_ge in L2.
    destruct (nth_error es (Z.to_nat i1)) eqn:N1; [|discriminate].
    destruct (nth_error es (Z.to_nat i2)) eqn:N2; [|discriminate].
    inversion G1; inversion G2; subst.
    assert (Z.to_nat i1 = Z.to_nat i2).
    { eapply (proj1 (NoDup_nth_error es) (ve_nodup _ _ _ HV)); [|congruence].
      apply nth_error_Some. congruence. }
    lia.
  Qed.

  Lemma Hok_id : forall e', In e' esi -> 0 <= eleft e' < eright e' /\ 0 <= echild e' < N /\ 0 <= eparent e'.
  Proof.
    intros e' H. apply esi_In in H as (i & e & G & ->). simpl.
    pose proof (get_In _ _ _ G) as He. destruct (ve_ok _ _ _ HV e He) as (? & _ & ? & _).
    unfold ileft, iright, ichild; simpl. apply get_inv in G. fold N in H0. lia.
  Qed.

  Lemma Hdisj_id : forall e1 e2, In e1 esi -> In e2 esi -> echild e1 = echild e2 ->
    eleft e1 < eright e2 -> eleft e2 < eright e1 -> e1 = e2.
  Proof.
    intros e1 e2 H1 H2. apply esi_In in H1 as (i1 & a1 & G1 & ->). apply esi_In in H2 as (i2 & a2 & G2 & ->).
    unfold rel, ileft, iright, ichild; simpl. intros Hc A B.
    assert (a1 = a2) by (apply (ve_disj _ _ _ HV); eauto using get_In). subst a2.
    rewrite (get_unique _ _ _ G1 G2). reflexivity.
  Qed.

  Lemma resolvedI ie : In ie (q_I q) -> get es (fst ie) = Ok (snd ie).
  Proof.
    destruct (mk_tseq_inv L ns es Ins Rem q HQ) as (? & ? & R & _).
    destruct (resolve_spec _ _ _ R) as [_ G]. destruct ie. apply G.
  Qed.
  Lemma resolvedO ie : In ie (q_O q) -> get es (fst ie) = Ok (snd ie).
  Proof.
    destruct (mk_tseq_inv L ns es Ins Rem q HQ) as (? & ? & _ & R & _).
    destruct (resolve_spec _ _ _ R) as [_ G]. destruct ie. apply G.
  Qed.

  Lemma step_edge s E :
    sem_step L (q_I q) (q_O q) s -> PreB N esi E (s_left s) ->
    exists E1 E2, par_remove E (map rel (s_out s)) = Ok E1 /\ par_insert E1 (map rel (s_in s)) = Ok E2 /\
                  PreB N esi E2 (s_right s) /\
                  (forall x, s_left s <= x < s_right s -> PostB N esi E2 x).
  Proof.
    intros (SO & SI & _ & _ & B1 & B2 & N1 & N2) Pre.
    destruct (memI L ns es Ins Rem q HI HQ) as [MI1 MI2]. destruct (memO L ns es Ins Rem q HI HQ) as [MO1 MO2].
    destruct (par_step N esi Hok_id Hdisj_id E (s_left s) (map rel (s_out s)) (map rel (s_in s)) Pre)
      as (E1 & E2 & R1 & R2 & Post).
    - intros ie' H. apply in_map_iff in H as (ie & <- & H). rewrite SO in H.
      apply filter_In in H as [H1 H2]. apply Z.eqb_eq in H2. split; [|exact H2].
      apply esi_In. exists (fst ie), (snd ie). split; [apply resolvedO; exact H1 | destruct ie; reflexivity].
    - intros e' He' Hr. apply esi_In in He' as (i & e & G & ->). exists i.
      destruct (MO2 e (get_In _ _ _ G)) as [i' Hi'].
      assert (i' = i) by (eapply get_unique; [apply (resolvedO (i', e)); exact Hi' | exact G]). subst i'.
      apply in_map_iff. exists (i, e). split; [reflexivity|]. rewrite SO. apply filter_In.
      split; [exact Hi' | apply Z.eqb_eq; exact Hr].
    - intros ie' H. apply in_map_iff in H as (ie & <- & H). rewrite SI in H.
      apply filter_In in H as [H1 H2]. apply Z.eqb_eq in H2. split; [|exact H2].
      apply esi_In. exists (fst ie), (snd ie). split; [apply resolvedI; exact H1 | destruct ie; reflexivity].
    - intros e' He' Hl. apply esi_In in He' as (i & e & G & ->). exists i.
      destruct (MI2 e (get_In _ _ _ G)) as [i' Hi'].
      assert (i' = i) by (eapply get_unique; [apply (resolvedI (i', e)); exact Hi' | exact G]). subst i'.
      apply in_map_iff. exists (i, e). split; [reflexivity|]. rewrite SI. apply filter_In.
      split; [exact Hi' | apply Z.eqb_eq; exact Hl].
    - assert (NL : forall e', In e' esi -> eleft e' <= s_left s \/ s_right s <= eleft e').
      { intros e' He'. apply esi_In in He' as (i & e & G & ->).
        destruct (MI2 e (get_In _ _ _ G)) as [i' Hi']. apply (N1 _ Hi'). }
      assert (NR : forall e', In e' esi -> eright e' <= s_left s \/ s_right s <= eright e').
      { intros e' He'. apply esi_In in He' as (i & e & G & ->).
        destruct (MO2 e (get_In _ _ _ G)) as [i' Hi']. apply (N2 _ Hi'). }
      exists E1, E2. split; [exact R1|]. split; [exact R2|]. split.
      + eapply post_pre; eauto using Hok_id, Hdisj_id. lia.
      + intros x Hx. eapply post_interval; eauto.
  Qed.

  Definition edge_at_step (steps : list step) (k : nat) (t : tree) : Prop :=
    exists s, nth_error steps k = Some s /\
      PreB N esi (t_edge t) (s_right s) /\
      forall x, s_left s <= x < s_right s -> PostB N esi (t_edge t) x.

  Lemma tree_next_edge steps Oend (k : nat) (t t' : tree) :
    chain_ok L 0 (q_I q) (q_O q) steps Oend -> Forall (sem_step L (q_I q) (q_O q)) steps ->
    q_bps q = breakpoints_of L steps -> q_ntrees q = zlen steps ->
    p_index (t_pos t) = Z.of_nat k - 1 ->
    (if p_index (t_pos t) =? -1 then (0, q_I q, q_O q)
     else (p_right (t_pos t), p_irest (t_pos t), p_orest (t_pos t)))
      = pre_state 0 (q_I q) (q_O q) steps k ->
    PreB N esi (t_edge t) (fst (fst (pre_state 0 (q_I q) (q_O q) steps k))) ->
    tree_next q o t = Ok (t', true) ->
    edge_at_step steps k t'.
  Proof.
    intros CH F EB EN HIdx HPre Pre H.
    destruct (tree_next_unfold L ns q o steps Oend k t t' CH F EB EN HIdx HPre H)
      as (s & a & a1 & Hs & Fs & SL & E0 & E1 & ->).
    rewrite <- SL in Pre.
    apply remove_edges_e in E0. apply insert_edges_e in E1.
    destruct (step_edge s (t_edge t) Fs Pre) as (X1 & X2 & R1 & R2 & Pre' & Post).
    rewrite R1 in E0. inversion E0 as [Y0]. rewrite <- Y0 in E1. rewrite R2 in E1. inversion E1 as [Y1].
    exists s. simpl. rewrite <- Y1. auto.
  Qed.

  Theorem edge_array_at_step steps Oend :
    chain_ok L 0 (q_I q) (q_O q) steps Oend -> Forall (sem_step L (q_I q) (q_O q)) steps ->
    q_bps q = breakpoints_of L steps -> q_ntrees q = zlen steps -> q_N q = N ->
    forall k t, tree_at_index q o k = Ok t -> edge_at_step steps k t.
  Proof.
    intros CH F EB EN ENn. induction k as [|k IH]; intros t H; simpl in H.
    - bind_inv H. destruct a as [t1 v]. destruct v; [|discriminate]. inversion H; subst t1. clear H.
      unfold tree_first in E. bind_inv E. pose proof (tree_clear_e _ _ _ E0) as PE.
      apply tree_clear_par in E0 as [_ PN].
      eapply tree_next_edge; eauto.
      + rewrite PN. reflexivity.
      + rewrite PN. reflexivity.
      + simpl. rewrite PE, ENn. apply pre_init; [apply Hok_id|]. unfold N, zlen. lia.
    - bind_inv H. bind_inv H. destruct a0 as [t1 v]. destruct v; [|discriminate].
      inversion H; subst t1. clear H.
      destruct (tree_at_index_at_step L ns es Ins Rem q HV HI HQ o steps Oend CH F EB EN ENn k a E)
        as (s & Hs & I1 & I2 & I3 & I4 & I5 & I6 & I7 & I8 & I9 & I10).
      destruct (IH a ltac:(first [exact E | reflexivity])) as (s1 & Hs1 & Pre1 & _).
      assert (s1 = s) by congruence. subst s1.
      eapply tree_next_edge; eauto.
      + rewrite I1. lia.
      + rewrite I1. replace (Z.of_nat k =? -1) with false by (symmetry; apply Z.eqb_neq; lia).
        simpl. rewrite Hs, I3, I6, I7. reflexivity.
      + simpl. rewrite Hs. simpl. exact Pre1.
  Qed.
End EdgeArray.
