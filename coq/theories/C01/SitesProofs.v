(* tsk_treeseq_init_trees: the sites of tree k are exactly the sites whose position lies in the
   interval of tree k. *)
From Coq Require Import List ZArith Bool Lia Sorting.Sorted.
From TskVerif Require Import Base.Common.
From TskVerif Require Import C01.Model.
From TskVerif Require Import C01.ArrayLemmas.
From TskVerif Require Import C01.ProjProofs.
From TskVerif Require Import C01.SweepProofs.
Import ListNotations.
Open Scope Z_scope.

Definition spos (ip : Z * Z) : Z := snd ip.

Lemma span_lt_sorted (tl tr : Z) (l : list (Z * Z)) :
  sorted_by spos l -> tl <= tr ->
  span (fun ip => spos ip <? tr) (filter (fun ip => tl <=? spos ip) l) =
  (filter (fun ip => (tl <=? spos ip) && (spos ip <? tr)) l, filter (fun ip => tr <=? spos ip) l).
Proof.
  induction l as [|x r IH]; simpl; intros H Hle; [reflexivity|].
  apply sorted_by_inv in H as [H1 H2]. specialize (IH H1 Hle).
  destruct (Z.leb_spec tl (spos x)); destruct (Z.ltb_spec (spos x) tr); destruct (Z.leb_spec tr (spos x));
    try lia; simpl.
  - replace (spos x <? tr) with true by (symmetry; apply Z.ltb_lt; lia). rewrite IH. reflexivity.
  - replace (spos x <? tr) with false by (symmetry; apply Z.ltb_ge; lia).
    rewrite (filter_all_false (fun ip => (tl <=? spos ip) && (spos ip <? tr)) r).
    2:{ intros y Hy. specialize (H2 y Hy). apply andb_false_iff. right. apply Z.ltb_ge. lia. }
    f_equal. f_equal.
    rewrite (filter_all_true (fun ip => tl <=? spos ip) r) by (intros y Hy; specialize (H2 y Hy); apply Z.leb_le; lia).
    rewrite (filter_all_true (fun ip => tr <=? spos ip) r) by (intros y Hy; specialize (H2 y Hy); apply Z.leb_le; lia).
    reflexivity.
  - exact IH.
Qed.

(* the site part of sites_of_tree is a span, whatever the mutations are *)
Lemma sites_of_tree_sites nem tr : forall sites muts ids mes sr mr,
  sites_of_tree nem tr sites muts = Ok (ids, mes, sr, mr) ->
  ids = map fst (fst (span (fun ip => spos ip <? tr) sites)) /\
  sr = snd (span (fun ip => spos ip <? tr) sites).
Proof.
  induction sites as [|[sid pos] r IH]; intros muts ids mes sr mr H; simpl in H.
  - inversion H; subst. split; reflexivity.
  - simpl. change (spos (sid, pos)) with pos. destruct (pos <? tr) eqn:E.
    + bind_inv H. destruct a as [me muts']. bind_inv H. destruct a as [[[ids' mes'] sr'] mr'].
      inversion H; subst. destruct (IH _ _ _ _ _ E1) as [A B].
      destruct (span (fun ip => spos ip <? tr) r) as [a b]. simpl in *. subst. split; reflexivity.
    + inversion H; subst. split; reflexivity.
Qed.

Section Sites.
  Variables (L : Z) (IE OE : list iedge) (S : list (Z * Z)).
  Hypothesis HS : sorted_by spos S.

  Definition in_tree (s : step) (ip : Z * Z) : bool := (s_left s <=? spos ip) && (spos ip <? s_right s).

  Lemma init_trees_sites_spec : forall tl Ins Rem steps Oend,
    chain_ok L tl Ins Rem steps Oend -> Forall (sem_step L IE OE) steps ->
    forall nem muts ids mes,
    init_trees_sites steps nem (filter (fun ip => tl <=? spos ip) S) muts = Ok (ids, mes) ->
    Forall2 (fun s l => l = map fst (filter (in_tree s) S)) steps ids.
  Proof.
    induction 1 as [|tl Ins Rem s rest Oend C HL SO SI HR CH IH]; intros F nem muts ids mes HX.
    - simpl in HX. inversion HX. constructor.
    - inversion F as [|? ? Fs Fr]; subst.
      destruct Fs as (_ & _ & _ & _ & B1 & _).
      simpl in HX. bind_inv HX. bind_inv HX. bind_inv HX. destruct a1 as [[[ids0 mes0] sr] mr].
      bind_inv HX. destruct a1 as [rids rmes]. inversion HX; subst ids mes. clear HX.
      destruct (sites_of_tree_sites _ _ _ _ _ _ _ _ E1) as [A B].
      rewrite (span_lt_sorted (s_left s) (s_right s) S HS ltac:(lia)) in A, B. simpl in A, B.
      constructor; [exact A|]. subst sr. eapply IH; eauto.
  Qed.
End Sites.
