(* An induction principle for the forward sweep: any tree predicate J that is established by
   tsk_tree_clear and preserved by tsk_tree_remove_edge / tsk_tree_insert_edge *when they are
   called on an edge that is currently present / on a child that is currently parentless*
   holds of every tree reached by first(); next()^k.  The preconditions are discharged here
   once, from the sweep semantics (each batch touches every child at most once). *)
From Coq Require Import List ZArith Bool Lia Sorting.Sorted Permutation.
From TskVerif Require Import Base.Common.
From TskVerif Require Import C01.Model.
From TskVerif Require Import C01.ArrayLemmas.
From TskVerif Require Import C01.SpanProofs.
From TskVerif Require Import C01.SweepProofs.
From TskVerif Require Import C01.ParentProofs.
From TskVerif Require Import C01.ProjProofs.
From TskVerif Require Import C01.TreeProofs.
Import ListNotations.
Open Scope Z_scope.

Lemma NoDup_map_on {A B} (f : A -> B) (l : list A) :
  NoDup l -> (forall x y, In x l -> In y l -> f x = f y -> x = y) -> NoDup (map f l).
Proof.
  induction 1 as [|x r Hx Hr IH]; intros Inj; simpl; constructor.
  - intros Hin. apply in_map_iff in Hin as (y & Hy & Hin).
    assert (y = x) by (apply Inj; [right; exact Hin | left; reflexivity | exact Hy]).
    subst. contradiction.
  - apply IH. intros a b Ha Hb. apply Inj; right; assumption.
Qed.

Lemma NoDup_filter {A} (f : A -> bool) l : NoDup l -> NoDup (filter f l).
Proof.
  induction 1 as [|x r Hx Hr IH]; simpl; [constructor|].
  destruct (f x); [|exact IH]. constructor; [|exact IH].
  intros H. apply filter_In in H as [H _]. contradiction.
Qed.

Lemma NoDup_zseq n : NoDup (zseq n).
Proof.
  unfold zseq. apply NoDup_map_on; [apply seq_NoDup|]. intros x y _ _ H. lia.
Qed.

Definition ichild (ie : iedge) : Z := echild (snd ie).
Definition iparent (ie : iedge) : Z := eparent (snd ie).

Section Induct.
  Variables (L : Z) (ns : list node) (es : list edge) (Ins Rem : list Z) (q : tseq).
  Hypothesis HV : valid_edges L ns es.
  Hypothesis HI : index_sorted es Ins Rem.
  Hypothesis HQ : mk_tseq L ns es Ins Rem = Ok q.
  Variable o : topts.
  Variable J : tree -> Prop.

  Let N := zlen ns.

  Hypothesis J_clear : forall t, tree_clear q o = Ok t -> J t.
  Hypothesis J_remove : forall t e t', J t -> In e es ->
    get (t_parent t) (echild e) = Ok (eparent e) ->
    remove_edge q o t (eparent e) (echild e) = Ok t' -> J t'.
  Hypothesis J_insert : forall t e i t', J t -> In e es ->
    get (t_parent t) (echild e) = Ok NULL ->
    insert_edge q o t (eparent e) (echild e) i = Ok t' -> J t'.
  Hypothesis J_pos : forall t p, J t -> J (w_pos t p).

  Lemma remove_edges_J : forall l t t',
    J t -> (forall ie, In ie l -> In (snd ie) es) ->
    NoDup (map ichild l) ->
    (forall ie, In ie l -> get (t_parent t) (ichild ie) = Ok (iparent ie)) ->
    remove_edges q o t l = Ok t' -> J t'.
  Proof.
    induction l as [|[i e] r IH]; intros t t' Jt Hin ND G H; simpl in H.
    - inversion H; subst; exact Jt.
    - bind_inv H. inversion ND as [|? ? Hx Hr]; subst.
      assert (J a).
      { eapply J_remove; eauto.
        - apply (Hin (i, e)). left; reflexivity.
        - apply (G (i, e)). left; reflexivity. }
      eapply IH; eauto.
      + intros ie Hie. apply Hin. right; exact Hie.
      + intros ie Hie. apply remove_edge_par in E.
        rewrite (get_set_other _ _ _ (ichild ie) _ E).
        * apply G. right; exact Hie.
        * intros X. apply Hx. change (ichild (i, e)) with (echild e). rewrite X.
          apply in_map. exact Hie.
  Qed.

  Lemma insert_edges_J : forall l t t',
    J t -> (forall ie, In ie l -> In (snd ie) es) ->
    NoDup (map ichild l) ->
    (forall ie, In ie l -> get (t_parent t) (ichild ie) = Ok NULL) ->
    insert_edges q o t l = Ok t' -> J t'.
  Proof.
    induction l as [|[i e] r IH]; intros t t' Jt Hin ND G H; simpl in H.
    - inversion H; subst; exact Jt.
    - bind_inv H. inversion ND as [|? ? Hx Hr]; subst.
      assert (J a).
      { eapply J_insert; eauto.
        - apply (Hin (i, e)). left; reflexivity.
        - apply (G (i, e)). left; reflexivity. }
      eapply IH; eauto.
      + intros ie Hie. apply Hin. right; exact Hie.
      + intros ie Hie. apply insert_edge_par in E.
        rewrite (get_set_other _ _ _ (ichild ie) _ E).
        * apply G. right; exact Hie.
        * intros X. apply Hx. change (ichild (i, e)) with (echild e). rewrite X.
          apply in_map. exact Hie.
  Qed.

  (* ids are distinct, so the resolved lists have no repeated element *)
  Lemma nodup_resolved idx l :
    Permutation idx (zseq (length es)) -> resolve es idx = Ok l -> NoDup l.
  Proof.
    intros P R. destruct (resolve_spec es idx l R) as [M _].
    apply (NoDup_map_inv fst). rewrite M.
    eapply Permutation_NoDup; [apply Permutation_sym; exact P | apply NoDup_zseq].
  Qed.

  Lemma same_edge_same_elem idx l ie1 ie2 :
    resolve es idx = Ok l -> In ie1 l -> In ie2 l -> snd ie1 = snd ie2 -> ie1 = ie2.
  Proof.
    intros R H1 H2 E. destruct (resolve_spec es idx l R) as [_ G].
    destruct ie1 as [i1 e1], ie2 as [i2 e2]. simpl in E. subst e2.
    pose proof (G _ _ H1) as G1. pose proof (G _ _ H2) as G2.
    unfold get in G1, G2.
    destruct (i1 <? 0) eqn:L1; [discriminate|]. destruct (i2 <? 0) eqn:L2; [discriminate|].
    apply Z.ltb_ge in L1. apply Z.ltb_ge in L2.
    destruct (nth_error es (Z.to_nat i1)) eqn:N1; [|discriminate].
    destruct (nth_error es (Z.to_nat i2)) eqn:N2; [|discriminate].
    inversion G1; inversion G2; subst.
    assert (Z.to_nat i1 = Z.to_nat i2).
    { eapply (proj1 (NoDup_nth_error es) (ve_nodup _ _ _ HV)); [|congruence].
      apply nth_error_Some. congruence. }
    f_equal. lia.
  Qed.

  (* batches: children are pairwise distinct *)
  Lemma batch_children_nodup (key : iedge -> Z) (idx : list Z) (l : list iedge) (t' : Z) :
    Permutation idx (zseq (length es)) -> resolve es idx = Ok l ->
    (forall ie1 ie2, In ie1 l -> In ie2 l -> key ie1 = t' -> key ie2 = t' ->
       ichild ie1 = ichild ie2 -> snd ie1 = snd ie2) ->
    NoDup (map ichild (filter (fun ie => key ie =? t') l)).
  Proof.
    intros P R Same. apply NoDup_map_on.
    - apply NoDup_filter. eapply nodup_resolved; eauto.
    - intros x y Hx Hy Hc. apply filter_In in Hx as [Hx Kx]. apply filter_In in Hy as [Hy Ky].
      apply Z.eqb_eq in Kx. apply Z.eqb_eq in Ky.
      eapply same_edge_same_elem; eauto.
  Qed.

  (* one tree_next call preserves J (same premises as tree_next_step) *)
  Lemma tree_next_J steps Oend (k : nat) (t t' : tree) :
    chain_ok L 0 (q_I q) (q_O q) steps Oend -> Forall (sem_step L (q_I q) (q_O q)) steps ->
    q_bps q = breakpoints_of L steps -> q_ntrees q = zlen steps ->
    p_index (t_pos t) = Z.of_nat k - 1 ->
    (if p_index (t_pos t) =? -1 then (0, q_I q, q_O q)
     else (p_right (t_pos t), p_irest (t_pos t), p_orest (t_pos t)))
      = pre_state 0 (q_I q) (q_O q) steps k ->
    PreB N es (t_parent t) (fst (fst (pre_state 0 (q_I q) (q_O q) steps k))) ->
    J t ->
    tree_next q o t = Ok (t', true) ->
    J t'.
  Proof.
    intros CH F EB EN HIdx HPre Pre Jt H.
    destruct (mk_tseq_inv L ns es Ins Rem q HQ) as (steps' & Oend' & RI & RO & _).
    unfold tree_next in H. bind_inv H. destruct a as [p v].
    destruct v; [|bind_inv H; inversion H].
    bind_inv H. bind_inv H. inversion H; subst t'. clear H. apply J_pos.
    unfold position_next in E. rewrite HPre in E.
    destruct (pre_state 0 (q_I q) (q_O q) steps k) as [[tl0 ib] oc] eqn:PS. simpl in Pre.
    destruct (span (fun ie => iright ie =? tl0) oc) as [out orest'] eqn:SO.
    destruct (span (fun ie => ileft ie =? tl0) ib) as [inn irest'] eqn:SI.
    rewrite HIdx in E. replace (Z.of_nat k - 1 + 1) with (Z.of_nat k) in E by lia.
    destruct (Z.of_nat k =? q_ntrees q) eqn:EK; [inversion E|].
    bind_inv E. inversion E; subst p. clear E.
    assert (KL : Z.of_nat k < zlen steps).
    { match goal with X : get (q_bps q) _ = Ok _ |- _ => pose proof (get_inv _ _ _ X) as GI end.
      rewrite EB, (breakpoints_len L ns) in GI. lia. }
    destruct (zlen_nth_error ns steps k KL) as [s Hs].
    pose proof (chain_nth L _ _ _ _ _ CH k s Hs) as CN. rewrite PS in CN.
    destruct CN as (C1 & C2 & C3 & C4).
    rewrite SO in C2. rewrite SI in C3. inversion C2; inversion C3; subst.
    assert (Fs : sem_step L (q_I q) (q_O q) s) by (rewrite Forall_forall in F; apply F; eapply nth_error_In; eauto).
    simpl in E0, E1.
    destruct Fs as (SO' & SI' & _ & _ & B1 & B2 & N1 & N2).
    destruct (memI L ns es Ins Rem q HI HQ) as [MI1 MI2].
    destruct (memO L ns es Ins Rem q HI HQ) as [MO1 MO2].
    destruct Pre as (ZL & A1 & A2).
    set (t' := s_left s) in *.
    (* removal batch *)
    assert (Ja0 : J a).
    { eapply (remove_edges_J (s_out s)); eauto.
      - intros ie Hie. rewrite SO' in Hie. apply filter_In in Hie as [Hie _]. auto.
      - rewrite SO'. apply (batch_children_nodup iright Rem (q_O q) t'); auto. apply HI.
        intros ie1 ie2 H1 H2 K1 K2 Hc.
        apply (ve_disj _ _ _ HV); auto.
        + destruct (ve_ok _ _ _ HV _ (MO1 _ H1)) as (? & _). unfold iright in *. lia.
        + destruct (ve_ok _ _ _ HV _ (MO1 _ H2)) as (? & _). unfold iright in *. lia.
      - intros ie Hie. rewrite SO' in Hie. apply filter_In in Hie as [Hie K]. apply Z.eqb_eq in K.
        unfold ichild, iparent. apply A2; auto.
        + destruct (ve_ok _ _ _ HV _ (MO1 _ Hie)) as (? & _). unfold iright in K. lia.
        + unfold iright in K. lia. }
    (* insertion batch: every child to insert is parentless after the removals *)
    eapply (insert_edges_J (s_in s)); eauto.
    - intros ie Hie. rewrite SI' in Hie. apply filter_In in Hie as [Hie _]. auto.
    - rewrite SI'. apply (batch_children_nodup ileft Ins (q_I q) t'); auto. apply HI.
      intros ie1 ie2 H1 H2 K1 K2 Hc.
      apply (ve_disj _ _ _ HV); auto.
      + destruct (ve_ok _ _ _ HV _ (MI1 _ H2)) as (? & _). unfold ileft in *. lia.
      + destruct (ve_ok _ _ _ HV _ (MI1 _ H1)) as (? & _). unfold ileft in *. lia.
    - intros ie Hie. rewrite SI' in Hie. apply filter_In in Hie as [Hie K]. apply Z.eqb_eq in K.
      pose proof (MI1 _ Hie) as He.
      destruct (ve_ok _ _ _ HV _ He) as (Hlr & _ & Hc & _).
      apply remove_edges_par in E0.
      destruct (par_remove_spec (s_out s) (t_parent t)) as (P1 & R1 & Z1 & G1).
      { intros ie' Hie'. rewrite SO' in Hie'. apply filter_In in Hie' as [Hie' _].
        destruct (ve_ok _ _ _ HV _ (MO1 _ Hie')) as (_ & _ & ? & _). fold N in H. lia. }
      rewrite R1 in E0. inversion E0 as [X0]. rewrite <- X0.
      destruct (G1 (ichild ie)) as [G1a G1b].
      destruct (existsb (childb (ichild ie)) (s_out s)) eqn:EX; [auto|].
      rewrite (G1b eq_refl).
      destruct (A1 (ichild ie)) as (p0 & Gp & Sp). { unfold ichild. fold N in Hc. lia. }
      rewrite Gp. f_equal.
      destruct (Z.eq_dec p0 NULL) as [|NP]; [assumption|]. exfalso.
      destruct (Sp NP) as (e0 & He0 & Hc0 & Hp0 & Hcov).
      destruct (Z.eq_dec (eright e0) t') as [ER|ER].
      + (* e0 ends here: it is in the removal batch *)
        destruct (MO2 e0 He0) as [i0 Hi0].
        assert (existsb (childb (ichild ie)) (s_out s) = true).
        { apply existsb_exists. exists (i0, e0). split.
          - rewrite SO'. apply filter_In. split; [exact Hi0 | apply Z.eqb_eq; exact ER].
          - unfold childb. simpl. apply Z.eqb_eq. exact Hc0. }
        congruence.
      + assert (e0 = snd ie).
        { apply (ve_disj _ _ _ HV); auto; unfold ileft in K; lia. }
        subst e0. unfold ileft in K. lia.
  Qed.

  Theorem sweep_induction : forall k t, tree_at_index q o k = Ok t -> J t.
  Proof.
    destruct (mk_tseq_inv L ns es Ins Rem q HQ) as (steps & Oend & R1 & R2 & SW & EB & EN & ENn & _).
    pose proof (sweep_sem L (q_I q) (q_O q) (sortedI L ns es Ins Rem q HI HQ) (sortedO L ns es Ins Rem q HI HQ)
                  (boundI L ns es Ins Rem q HV HI HQ) (boundO L ns es Ins Rem q HV HI HQ)
                  steps Oend (ve_L _ _ _ HV) SW) as (CH & F & _).
    induction k as [|k IH]; intros t H; simpl in H.
    - bind_inv H. destruct a as [t1 v]. destruct v; [|discriminate]. inversion H; subst t1. clear H.
      assert (exists t0, tree_clear q o = Ok t0 /\ tree_next q o t0 = Ok (t, true)) as (t0 & E0 & E1).
      { unfold tree_first in E. revert E. case_eq (tree_clear q o); cbn [bind]; intros; try discriminate. eauto. }
      clear E. pose proof (J_clear _ E0) as J0.
      apply tree_clear_par in E0 as [PP PN].
      eapply (tree_next_J steps Oend 0); eauto.
      + rewrite PN. reflexivity.
      + rewrite PN. reflexivity.
      + simpl. rewrite PP, ENn. apply pre_init; [apply (Hok' L ns es HV)|]. unfold zlen. lia.
    - bind_inv H. bind_inv H. destruct a0 as [t1 v]. destruct v; [|discriminate].
      inversion H; subst t1. clear H.
      pose proof (IH a eq_refl) as Ja.
      destruct (tree_at_index_at_step L ns es Ins Rem q HV HI HQ o steps Oend CH F EB EN ENn k a E)
        as (s & Hs & I1 & I2 & I3 & I4 & I5 & I6 & I7 & I8 & I9 & I10).
      eapply (tree_next_J steps Oend (S k)); eauto.
      + rewrite I1. lia.
      + rewrite I1. replace (Z.of_nat k =? -1) with false by (symmetry; apply Z.eqb_neq; lia).
        simpl. rewrite Hs, I3, I6, I7. reflexivity.
      + simpl. rewrite Hs. simpl. exact I9.
  Qed.
End Induct.
