(* Top-level statements of C01 assembled from the lemma files, with non-vacuity examples. *)
From Coq Require Import List ZArith Bool Lia Sorting.Sorted Permutation.
From TskVerif Require Import Base.Common.
From TskVerif Require Import C01.Model.
From TskVerif Require Import C01.ArrayLemmas.
From TskVerif Require Import C01.SpanProofs.
From TskVerif Require Import C01.SweepProofs.
From TskVerif Require Import C01.ParentProofs.
From TskVerif Require Import C01.ProjProofs.
From TskVerif Require Import C01.TreeProofs.
From TskVerif Require Import C01.IndexProofs.
From TskVerif Require Import C01.InductProofs.
From TskVerif Require Import C01.CountProofs.
From TskVerif Require Import C01.QueryProofs.
From TskVerif Require Import C01.EdgeProofs.
From TskVerif Require Import C01.LinkProofs.
From TskVerif Require Import C01.RepProofs.
From TskVerif Require Import C01.TraversalProofs.
From TskVerif Require Import C01.ClosedProofs.
From TskVerif Require Import C01.NumEdgesProofs.
From TskVerif Require Import C01.OrderProofs.
From TskVerif Require Import C01.PostorderProofs.
From TskVerif Require Import C01.ViewsProofs.
Import ListNotations.
Open Scope Z_scope.

(* the relational reading of parent_at *)
Lemma parent_at_spec_lemma L ns es x u p :
  valid_edgesb L ns es = true ->
  (parent_at es x u = p /\ p <> NULL) <->
  (exists e, In e es /\ echild e = u /\ eparent e = p /\ eleft e <= x < eright e).
Proof.
  intros HV. apply valid_edgesb_spec in HV. split.
  - intros [H1 H2]. eapply parent_at_some; eauto.
  - intros (e & Hin & Hc & Hp & Hcov). subst u p. split.
    + apply parent_at_unique; auto. apply (ve_disj _ _ _ HV).
    + destruct (ve_ok _ _ _ HV e Hin) as (_ & _ & _ & ? & _). unfold NULL. lia.
Qed.

Lemma mk_tseq_total L ns es Ins Rem :
  valid_edges L ns es -> index_sorted es Ins Rem -> exists q, mk_tseq L ns es Ins Rem = Ok q.
Proof.
  intros HV HI. unfold mk_tseq.
  assert (RI : forall idx, Permutation idx (zseq (length es)) -> exists l, resolve es idx = Ok l).
  { intros idx P. apply resolve_total. intros i Hi. eapply Permutation_in in Hi; [|exact P].
    apply In_zseq in Hi. unfold zlen. lia. }
  destruct (RI Ins (is_permI _ _ _ HI)) as [IE EI].
  destruct (RI Rem (is_permO _ _ _ HI)) as [OE EO].
  rewrite EI, EO. simpl.
  destruct (resolved_members es Ins IE (is_permI _ _ _ HI) EI) as [MI _].
  destruct (resolved_members es Rem OE (is_permO _ _ _ HI) EO) as [MO _].
  destruct (sweep_total L IE OE (is_sortI _ _ _ HI IE EI) (is_sortO _ _ _ HI OE EO)) as (steps & Oend & ES).
  - intros ie H. specialize (MI ie H). destruct (ve_ok _ _ _ HV _ MI) as (? & ? & _). unfold ileft. lia.
  - intros ie H. specialize (MO ie H). destruct (ve_ok _ _ _ HV _ MO) as (? & ? & _). unfold iright. lia.
  - apply (ve_L _ _ _ HV).
  - rewrite ES. simpl. eauto.
Qed.

Section WithTseq.
  Variables (L : Z) (ns : list node) (es : list edge) (Ins Rem : list Z) (q : tseq).
  Hypothesis HVb : valid_edgesb L ns es = true.
  Hypothesis HI : index_sorted es Ins Rem.
  Hypothesis HQ : mk_tseq L ns es Ins Rem = Ok q.

  Let HV : valid_edges L ns es := valid_edgesb_spec L ns es HVb.

  Lemma tseq_facts : exists steps Oend,
    sweep L (q_I q) (q_O q) = Ok (steps, Oend) /\
    chain_ok L 0 (q_I q) (q_O q) steps Oend /\
    Forall (sem_step L (q_I q) (q_O q)) steps /\ steps <> [] /\
    Oend = filter (fun ie => L <=? iright ie) (q_O q) /\
    q_bps q = breakpoints_of L steps /\ q_ntrees q = zlen steps /\ q_N q = zlen ns /\
    Sorted Z.lt (q_bps q) /\ hd 0 (q_bps q) = 0 /\ last (q_bps q) 0 = L /\
    (forall x, In x (q_bps q) <->
       x = 0 \/ x = L \/ (exists ie, In ie (q_I q) /\ x = ileft ie) \/ (exists ie, In ie (q_O q) /\ x = iright ie)).
  Proof.
    destruct (mk_tseq_inv L ns es Ins Rem q HQ) as (steps & Oend & R1 & R2 & SW & EB & EN & ENn & _).
    pose proof (sweep_sem L (q_I q) (q_O q) (sortedI L ns es Ins Rem q HI HQ) (sortedO L ns es Ins Rem q HI HQ)
                  (boundI L ns es Ins Rem q HV HI HQ) (boundO L ns es Ins Rem q HV HI HQ)
                  steps Oend (ve_L _ _ _ HV) SW) as (CH & F & NE & OE & SRT & HD & LA & MEM).
    exists steps, Oend. rewrite EB. repeat split; auto; apply MEM.
  Qed.

  Lemma sweep_parent_exact_lemma o k t :
    tree_at_index q o k = Ok t ->
    exists l r,
      get (q_bps q) (Z.of_nat k) = Ok l /\ get (q_bps q) (Z.of_nat k + 1) = Ok r /\
      p_index (t_pos t) = Z.of_nat k /\ p_left (t_pos t) = l /\ p_right (t_pos t) = r /\ l < r /\
      forall x, l <= x < r -> forall u, 0 <= u < zlen ns ->
        get (t_parent t) u = Ok (parent_at es x u).
  Proof.
    intros H.
    destruct tseq_facts as (steps & Oend & SW & CH & F & NE & OE & EB & EN & ENn & _).
    destruct (tree_at_index_at_step L ns es Ins Rem q HV HI HQ o steps Oend CH F EB EN ENn k t H)
      as (s & Hs & I1 & I2 & I3 & I4 & I5 & I6 & I7 & I8 & I9 & I10).
    destruct (bps_get L _ _ _ _ _ CH k s Hs) as [B1 B2]. rewrite <- EB in B1, B2.
    exists (s_left s), (s_right s). repeat split; auto.
    intros x Hx u Hu. destruct (I10 x Hx) as [_ G]. apply G. exact Hu.
  Qed.

  Lemma breakpoints_partition_lemma :
    Sorted Z.lt (q_bps q) /\ hd 0 (q_bps q) = 0 /\ last (q_bps q) 0 = L /\
    zlen (q_bps q) = q_ntrees q + 1 /\ 0 < q_ntrees q /\
    forall x, In x (q_bps q) <->
      x = 0 \/ x = L \/ exists e, In e es /\ (x = eleft e \/ x = eright e).
  Proof.
    destruct tseq_facts as (steps & Oend & SW & CH & F & NE & OE & EB & EN & ENn & SRT & HD & LA & MEM).
    destruct (memI L ns es Ins Rem q HI HQ) as [MI1 MI2].
    destruct (memO L ns es Ins Rem q HI HQ) as [MO1 MO2].
    repeat split; auto.
    - rewrite EB, EN. unfold breakpoints_of, zlen. rewrite app_length, map_length. simpl. lia.
    - rewrite EN. unfold zlen. destruct steps; [congruence|simpl; lia].
    - intros Hx. apply MEM in Hx as [->|[->|[(ie & Hin & ->)|(ie & Hin & ->)]]]; auto.
      + right; right. exists (snd ie). split; [apply MI1; exact Hin | left; reflexivity].
      + right; right. exists (snd ie). split; [apply MO1; exact Hin | right; reflexivity].
    - intros [ -> | [ -> | (e & He & [ -> | -> ]) ] ]; apply MEM; auto.
      + destruct (MI2 e He) as [i Hi]. right; right; left. exists (i, e). split; [exact Hi|reflexivity].
      + destruct (MO2 e He) as [i Hi]. right; right; right. exists (i, e). split; [exact Hi|reflexivity].
  Qed.

  Definition diff_of_step (s : step) : diff :=
    (s_left s, s_right s, map fst (s_out s), map fst (s_in s)).

  Lemma edge_diffs_replay_lemma :
    exists steps Ps,
      edge_diffs_forward L (q_I q) (q_O q) false = Ok (map diff_of_step steps) /\
      edge_diffs_forward L (q_I q) (q_O q) true =
        Ok (map diff_of_step steps ++
            [(L, L, map fst (filter (fun ie => iright ie =? L) (q_O q)), [])]) /\
      zlen steps = q_ntrees q /\
      (forall k s, nth_error steps k = Some s ->
         get (q_bps q) (Z.of_nat k) = Ok (s_left s) /\ get (q_bps q) (Z.of_nat k + 1) = Ok (s_right s) /\
         s_out s = filter (fun ie => iright ie =? s_left s) (q_O q) /\
         s_in s = filter (fun ie => ileft ie =? s_left s) (q_I q)) /\
      par_steps (repeat NULL (Z.to_nat (zlen ns + 1))) steps = Ok Ps /\
      Forall2 (fun s P => forall x, s_left s <= x < s_right s ->
                 forall u, 0 <= u < zlen ns -> get P u = Ok (parent_at es x u)) steps Ps.
  Proof.
    destruct tseq_facts as (steps & Oend & SW & CH & F & NE & OE & EB & EN & ENn & SRT & HD & LA & MEM).
    destruct (par_steps_total L ns es Ins Rem q HV HI HQ 0 _ _ steps Oend CH F
                (repeat NULL (Z.to_nat (zlen ns + 1)))) as (Ps & EP & FA).
    { apply pre_init; [apply (Hok' L ns es HV)|]. unfold zlen. lia. }
    exists steps, Ps. unfold edge_diffs_forward. rewrite SW. cbn [bind].
    assert (LR : last_right 0 steps = L).
    { rewrite EB in LA. unfold breakpoints_of in LA. rewrite last_last in LA.
      destruct steps; [congruence|exact LA]. }
    repeat split; auto.
    - rewrite LR, OE.
      replace (filter (fun ie => L <=? iright ie) (q_O q))
        with (filter (fun ie => iright ie =? L) (q_O q)); [reflexivity|].
      apply filter_ext_in. intros ie Hin.
      pose proof (boundO L ns es Ins Rem q HV HI HQ ie Hin).
      destruct (Z.leb_spec L (iright ie)), (Z.eqb_spec (iright ie) L); auto; lia.
    - rewrite EB. eapply bps_get; eauto.
    - rewrite EB. eapply bps_get; eauto.
    - rewrite Forall_forall in F. apply (F s). eapply nth_error_In; eauto.
    - rewrite Forall_forall in F. apply (F s). eapply nth_error_In; eauto.
    - clear -FA. induction FA as [|s P ss Ps' HsP FA' IH]; constructor; auto.
      intros y Hy u Hu. destruct (HsP y Hy) as [_ G]. auto.
  Qed.
End WithTseq.

Lemma counts_local_lemma L ns es Ins Rem q :
  valid_edgesb L ns es = true -> index_sorted es Ins Rem -> mk_tseq L ns es Ins Rem = Ok q ->
  forall o k t, tree_at_index q o k = Ok t ->
  forall u, 0 <= u < zlen ns ->
    exists a b,
      get (t_ns t) u = Ok a /\ a = ind (q_samples q) u + csum (t_parent t) (t_ns t) u /\
      get (t_nt t) u = Ok b /\ b = ind (o_tracked o) u + csum (t_parent t) (t_nt t) u.
Proof.
  intros HVb HI HQ o k t H u Hu.
  destruct (counts_invariant L ns es Ins Rem q (valid_edgesb_spec _ _ _ HVb) HI HQ o k t H)
    as (_ & _ & _ & _ & _ & LE1 & LE2 & _).
  destruct (LE1 u Hu) as (a & Ga & Ea). destruct (LE2 u Hu) as (b & Gb & Eb).
  exists a, b. auto.
Qed.

Lemma tmq_tmf ns q u : q_nodes q = ns -> tmq q u = tmf ns u.
Proof. intros <-. unfold tmq, tmf, node_time. destruct (get (q_nodes q) u); reflexivity. Qed.

Lemma queries_correct_lemma L ns es Ins Rem q :
  valid_edgesb L ns es = true -> index_sorted es Ins Rem -> mk_tseq L ns es Ins Rem = Ok q ->
  forall o k t, tree_at_index q o k = Ok t ->
  let N := zlen ns in let P := t_parent t in
  (forall u, 0 <= u <= N -> exists l, path P u l) /\
  (forall u p, get P u = Ok p -> p <> NULL -> 0 <= u < N /\ 0 <= p < N /\ tmq q u < tmq q p) /\
  (forall u r, depth N t u = Ok r ->
     (u = N /\ r = -1) \/ (u <> N /\ exists l, path P u (u :: l) /\ r = zlen l)) /\
  (forall u v b l, 0 <= u <= N -> 0 <= v <= N -> path P u l ->
     is_descendant N t u v = Ok b -> (b = true <-> In v l)) /\
  (forall u v m lu lv, 0 <= u < N -> 0 <= v < N -> path P u lu -> path P v lv ->
     mrca q t u v = Ok m ->
     (m <> NULL -> In m lu /\ In m lv /\ forall a, In a lu -> In a lv -> tmq q m <= tmq q a) /\
     (m = NULL -> forall a, In a lu -> ~ In a lv)).
Proof.
  intros HVb HI HQ o k t H N P.
  pose proof (valid_edgesb_spec _ _ _ HVb) as HV.
  destruct (counts_invariant L ns es Ins Rem q HV HI HQ o k t H) as (L0 & _ & _ & GV & MO & _).
  destruct (mk_tseq_inv L ns es Ins Rem q HQ) as (_ & _ & _ & _ & _ & _ & _ & ENn & _ & ENs & _).
  assert (ZL : zlen P = N + 1). { unfold zlen, P. rewrite L0. unfold N, zlen. lia. }
  assert (MO' : forall u p, get P u = Ok p -> p <> NULL -> 0 <= u < N /\ 0 <= p < N /\ tmq q u < tmq q p).
  { intros u p G NP. destruct (MO u p G NP) as (A & B & C). rewrite !(tmq_tmf ns q) by exact ENs. auto. }
  split; [intros u Hu; eapply path_exists; eauto|].
  split; [exact MO'|]. split; [|split].
  - intros u r Hd. destruct (depth_spec _ _ _ _ Hd) as [[-> ->]|(NE & Hu & p & l & G & Pl & ->)]; [left; auto|].
    right. split; [exact NE|]. exists l. split; [|reflexivity].
    econstructor; eauto. unfold NULL; lia.
  - intros u v b l Hu Hv Pl Hd. eapply is_descendant_spec; eauto.
  - intros u v m lu lv Hu Hv Pu Pv Hm. unfold mrca in Hm. rewrite ENn in Hm. fold N in Hm.
    replace ((u <? 0) || (N <? u) || (v <? 0) || (N <? v)) with false in Hm.
    2:{ symmetry. repeat (apply orb_false_iff; split); apply Z.ltb_ge; lia. }
    replace ((u =? N) || (v =? N)) with false in Hm.
    2:{ symmetry. apply orb_false_iff; split; apply Z.eqb_neq; lia. }
    bind_inv Hm. bind_inv Hm.
    eapply (mrca_loop_spec q P); eauto; try (unfold NULL; lia).
    intros u0 p0 G NP _. apply MO'; auto.
Qed.

Lemma edge_id_spec_lemma L ns es x u i :
  valid_edgesb L ns es = true ->
  (parent_at (es_id es) x u = i /\ i <> NULL) <->
  (exists e, get es i = Ok e /\ echild e = u /\ eleft e <= x < eright e).
Proof.
  intros HVb. pose proof (valid_edgesb_spec _ _ _ HVb) as HV. split.
  - intros [H1 H2]. destruct (parent_at_some _ _ _ _ H1 H2) as (e' & Hin & Hc & Hp & Hcov).
    apply (esi_In es) in Hin as (i0 & e & G & ->). simpl in *. subst i0.
    exists e. unfold ileft, iright, ichild in *. simpl in *. auto.
  - intros (e & G & Hc & Hcov). subst u.
    assert (Hin : In (snd (rel (i, e))) (es_id es)) by (apply esi_In; eauto).
    split.
    + change (echild e) with (echild (snd (rel (i, e)))).
      rewrite (parent_at_unique (es_id es) (Hdisj_id L ns es HV) x (snd (rel (i, e))) Hin); [reflexivity|].
      simpl. exact Hcov.
    + apply get_inv in G. unfold NULL. lia.
Qed.

Lemma edge_array_exact_lemma L ns es Ins Rem q :
  valid_edgesb L ns es = true -> index_sorted es Ins Rem -> mk_tseq L ns es Ins Rem = Ok q ->
  forall o k t, tree_at_index q o k = Ok t ->
  forall x, p_left (t_pos t) <= x < p_right (t_pos t) ->
  forall u, 0 <= u < zlen ns -> get (t_edge t) u = Ok (parent_at (es_id es) x u).
Proof.
  intros HVb HI HQ o k t H x Hx u Hu.
  pose proof (valid_edgesb_spec _ _ _ HVb) as HV.
  destruct (tseq_facts L ns es Ins Rem q HVb HI HQ) as (steps & Oend & SW & CH & F & NE & OE & EB & EN & ENn & _).
  destruct (tree_at_index_at_step L ns es Ins Rem q HV HI HQ o steps Oend CH F EB EN ENn k t H)
    as (s & Hs & I1 & I2 & I3 & _).
  destruct (edge_array_at_step L ns es Ins Rem q HV HI HQ o steps Oend CH F EB EN ENn k t H)
    as (s1 & Hs1 & _ & Post).
  assert (s1 = s) by congruence. subst s1. rewrite I2, I3 in Hx.
  destruct (Post x Hx) as [_ G]. apply G. exact Hu.
Qed.

Lemma links_consistent_top L ns es Ins Rem q :
  valid_edgesb L ns es = true -> index_sorted es Ins Rem -> mk_tseq L ns es Ins Rem = Ok q ->
  forall o, 1 <= o_thr o -> forall k t, tree_at_index q o k = Ok t ->
  let N := zlen ns in
  exists K : Z -> list Z,
    (forall p, 0 <= p <= N ->
       Chain t p (K p) /\ NoDup (K p) /\ get (t_nc t) p = Ok (zlen (K p)) /\
       children_of t p = Ok (K p)) /\
    (forall p c, 0 <= p < N -> (In c (K p) <-> 0 <= c < N /\ get (t_parent t) c = Ok p)) /\
    (forall c, In c (K N) <->
       0 <= c < N /\ get (t_parent t) c = Ok NULL /\
       exists n, get (t_ns t) c = Ok n /\ o_thr o <= n).
Proof.
  intros HVb HI HQ o Hthr k t H.
  exact (links_consistent_lemma L ns es Ins Rem q (valid_edgesb_spec _ _ _ HVb) HI HQ o Hthr k t H).
Qed.

Lemma preorder_correct_lemma L ns es Ins Rem q :
  valid_edgesb L ns es = true -> index_sorted es Ins Rem -> mk_tseq L ns es Ins Rem = Ok q ->
  forall o, 1 <= o_thr o -> forall k t, tree_at_index q o k = Ok t ->
  let N := zlen ns in
  exists K : Z -> list Z,
    (forall p c, 0 <= p < N -> (In c (K p) <-> 0 <= c < N /\ get (t_parent t) c = Ok p)) /\
    (forall c, In c (K N) <->
       0 <= c < N /\ get (t_parent t) c = Ok NULL /\
       exists n, get (t_ns t) c = Ok n /\ o_thr o <= n) /\
    (forall p, 0 <= p <= N -> children_of t p = Ok (K p)) /\
    forall root out, preorder_from N t root = Ok out ->
      (root = -1 /\ exists ls, Forall2 (Pre K) (K N) ls /\ out = concat ls) \/
      (0 <= root <= N /\ Pre K root out).
Proof.
  intros HVb HI HQ o Hthr k t H N.
  pose proof (valid_edgesb_spec _ _ _ HVb) as HV.
  destruct (rep_invariant L ns es Ins Rem q HV HI HQ o Hthr k t H) as [JC (K & LR & [O1 O2])].
  destruct JC as (L0 & _).
  exists K. split; [exact O1|]. split; [exact O2|]. split.
  - intros p Hp. apply (children_of_rep ns o t K p LR L0 Hp).
  - intros root out Hr. apply (preorder_from_spec (zlen ns) t K LR L0 ltac:(unfold zlen; lia) root out Hr).
Qed.

Lemma counts_closed_form_lemma L ns es Ins Rem q :
  valid_edgesb L ns es = true -> index_sorted es Ins Rem -> mk_tseq L ns es Ins Rem = Ok q ->
  forall o k t, tree_at_index q o k = Ok t ->
  let N := zlen ns in
  forall u, 0 <= u < N ->
    get (t_ns t) u = get (sub_counts (S (Z.to_nat N)) (t_parent t) (ind (q_samples q))) u /\
    get (t_nt t) u = get (sub_counts (S (Z.to_nat N)) (t_parent t) (ind (o_tracked o))) u.
Proof.
  intros HVb HI HQ o k t H N u Hu.
  destruct (counts_invariant L ns es Ins Rem q (valid_edgesb_spec _ _ _ HVb) HI HQ o k t H)
    as (L0 & L1 & L2 & _ & MO & LE1 & LE2 & _).
  assert (HN : 0 <= N) by (unfold N, zlen; lia).
  split; eapply closed_form; eauto.
Qed.

Lemma num_edges_exact_lemma L ns es Ins Rem q :
  valid_edgesb L ns es = true -> index_sorted es Ins Rem -> mk_tseq L ns es Ins Rem = Ok q ->
  forall o k t, tree_at_index q o k = Ok t -> t_num_edges t = nparents (t_parent t).
Proof.
  intros HVb HI HQ o k t H.
  exact (num_edges_invariant L ns es Ins Rem q (valid_edgesb_spec _ _ _ HVb) HI HQ o k t H).
Qed.

Lemma roots_correct_lemma L ns es Ins Rem q :
  valid_edgesb L ns es = true -> index_sorted es Ins Rem -> mk_tseq L ns es Ins Rem = Ok q ->
  forall o, 1 <= o_thr o -> forall k t, tree_at_index q o k = Ok t ->
  exists rs, roots_of (zlen ns) t = Ok rs /\ NoDup rs /\ get (t_nc t) (zlen ns) = Ok (zlen rs) /\
    forall c, In c rs <->
      0 <= c < zlen ns /\ get (t_parent t) c = Ok NULL /\ exists n, get (t_ns t) c = Ok n /\ o_thr o <= n.
Proof.
  intros HVb HI HQ o Hthr k t H.
  destruct (links_consistent_top L ns es Ins Rem q HVb HI HQ o Hthr k t H) as (K & A & _ & C).
  destruct (A (zlen ns) ltac:(unfold zlen; lia)) as (_ & ND & NC & CO).
  exists (K (zlen ns)). unfold roots_of. auto.
Qed.

Lemma postorder_correct_lemma L ns es Ins Rem q :
  valid_edgesb L ns es = true -> index_sorted es Ins Rem -> mk_tseq L ns es Ins Rem = Ok q ->
  forall o, 1 <= o_thr o -> forall k t, tree_at_index q o k = Ok t ->
  let N := zlen ns in
  exists K : Z -> list Z,
    (forall p, 0 <= p <= N -> children_of t p = Ok (K p)) /\
    forall root out, postorder_from N t root = Ok out ->
      (root = -1 /\ exists ls, Forall2 (Post K) (K N) ls /\ out = concat ls) \/
      (root = N /\ exists ls, Forall2 (Post K) (K N) ls /\ out = concat ls ++ [N]) \/
      (0 <= root < N /\ Post K root out).
Proof.
  intros HVb HI HQ o Hthr k t H N.
  pose proof (valid_edgesb_spec _ _ _ HVb) as HV.
  destruct (rep_invariant L ns es Ins Rem q HV HI HQ o Hthr k t H) as [JC (K & LR & [O1 O2])].
  destruct JC as (L0 & _ & _ & _ & MO & _).
  exists K. split.
  - intros p Hp. apply (children_of_rep ns o t K p LR L0 Hp).
  - intros root out Hr.
    apply (postorder_from_spec (zlen ns) t K (tmf ns) LR L0 ltac:(unfold zlen; lia)); auto.
    + intros p c Hp Hc. apply (O1 p c Hp). exact Hc.
    + intros c Hc. apply O2 in Hc. tauto.
Qed.

Lemma pyviews_correct_lemma L ns es Ins Rem q :
  valid_edgesb L ns es = true -> index_sorted es Ins Rem -> mk_tseq L ns es Ins Rem = Ok q ->
  forall o, 1 <= o_thr o -> forall k t, tree_at_index q o k = Ok t ->
  let N := zlen ns in
  exists K : Z -> list Z,
    (forall p, 0 <= p <= N -> children_of t p = Ok (K p)) /\
    (forall root out, root = -1 \/ 0 <= root <= N ->
       let starts := if root =? -1 then K N else [root] in
       (inorder N t root = Ok out -> exists ls, Forall2 (InO K) starts ls /\ out = concat ls) /\
       (levelorder N t root = Ok out -> BFS K starts out)).
Proof.
  intros HVb HI HQ o Hthr k t H N.
  pose proof (valid_edgesb_spec _ _ _ HVb) as HV.
  destruct (rep_invariant L ns es Ins Rem q HV HI HQ o Hthr k t H) as [JC (K & LR & _)].
  destruct JC as (L0 & _).
  assert (HN : 0 <= N) by (unfold N, zlen; lia).
  assert (CO : forall p, 0 <= p <= N -> children_of t p = Ok (K p)).
  { intros p Hp. apply (children_of_rep ns o t K p LR L0 Hp). }
  exists K. split; [exact CO|].
  intros root out Hroot starts.
  assert (ST : start_nodes N t root = Ok starts).
  { unfold start_nodes, starts, roots_of. destruct (root =? -1); [apply CO; lia | reflexivity]. }
  assert (SR : forall x, In x starts -> 0 <= x <= N).
  { unfold starts. destruct (root =? -1) eqn:E.
    - intros x Hx. pose proof (lr_range _ _ _ LR N x ltac:(lia) Hx). lia.
    - apply Z.eqb_neq in E. intros x [<-|[]]. lia. }
  split.
  - unfold inorder. rewrite ST. cbn [bind]. intros HI'. bind_inv HI'. inversion HI'; subst out.
    exists a. split; [|reflexivity].
    eapply mapM_Forall2; [|exact E]. intros x y Hx Hy.
    eapply (inorder_rec_spec (zlen ns) t K LR L0 HN); [apply SR; exact Hx | exact Hy].
  - unfold levelorder. rewrite ST. cbn [bind]. intros HL.
    eapply (level_loop_spec (zlen ns) t K LR L0 HN); eauto.
Qed.

(* --- the same for the load path (tsk_table_collection_build_index) --- *)

Lemma load_inv L ns es q : load L ns es = Ok q ->
  exists Ins Rem, build_index ns es = Ok (Ins, Rem) /\ mk_tseq L ns es Ins Rem = Ok q.
Proof. unfold load. intros H. bind_inv H. destruct a as [Ins Rem]. eauto. Qed.

Lemma load_total_lemma L ns es : valid_edgesb L ns es = true -> exists q, load L ns es = Ok q.
Proof.
  intros HVb. pose proof (valid_edgesb_spec _ _ _ HVb) as HV.
  destruct (build_index_total L ns es HV) as (Ins & Rem & EB).
  destruct (mk_tseq_total L ns es Ins Rem HV (build_index_sorted L ns es Ins Rem HV EB)) as [q EQ].
  exists q. unfold load. rewrite EB. exact EQ.
Qed.

(* non-vacuity: a concrete valid table collection with three trees (a gap, a unary node,
   a polytomy, an isolated sample and a dead branch) *)
Definition ex_nodes : list node :=
  [mkNode true 0; mkNode true 0; mkNode true 0; mkNode false 1; mkNode false 2; mkNode false 1; mkNode true 0].
Definition ex_edges : list edge :=
  [mkEdge 0 4 3 0; mkEdge 0 2 3 1; mkEdge 2 4 4 1; mkEdge 0 4 4 3; mkEdge 3 6 5 2; mkEdge 4 6 4 0].
Definition ex_opts : topts := mkOpts 1 true [0; 2].

Example ex_valid : valid_edgesb 6 ex_nodes ex_edges = true.
Proof. vm_compute. reflexivity. Qed.

Example ex_load :
  exists q, load 6 ex_nodes ex_edges = Ok q /\ q_bps q = [0; 2; 3; 4; 6] /\ q_ntrees q = 4.
Proof. eexists. split; [vm_compute; reflexivity|]. split; reflexivity. Qed.

Example ex_tree2 :
  exists q t, load 6 ex_nodes ex_edges = Ok q /\ tree_at_index q ex_opts 2 = Ok t /\
    t_parent t = [3; 4; 5; 4; -1; -1; -1; -1] /\ p_left (t_pos t) = 3 /\ p_right (t_pos t) = 4 /\
    t_ns t = [1; 1; 1; 1; 2; 1; 1; 4].
Proof. eexists. eexists. split; [vm_compute; reflexivity|]. split; [vm_compute; reflexivity|]. repeat split. Qed.

Example ex_diffs :
  exists q, load 6 ex_nodes ex_edges = Ok q /\
    edge_diffs_forward 6 (q_I q) (q_O q) true =
      Ok [(0, 2, [], [0; 1; 3]); (2, 3, [1], [2]); (3, 4, [], [4]); (4, 6, [3; 2; 0], [5]); (6, 6, [5; 4], [])].
Proof. eexists. split; vm_compute; reflexivity. Qed.

(* --- corollaries for the load path --- *)
Lemma build_index_sorted_b L ns es Ins Rem :
  valid_edgesb L ns es = true -> build_index ns es = Ok (Ins, Rem) -> index_sorted es Ins Rem.
Proof. intros H. exact (build_index_sorted L ns es Ins Rem (valid_edgesb_spec L ns es H)). Qed.

Lemma load_parent_exact_lemma L ns es q o k t :
  valid_edgesb L ns es = true -> load L ns es = Ok q -> tree_at_index q o k = Ok t ->
  exists l r,
    get (q_bps q) (Z.of_nat k) = Ok l /\ get (q_bps q) (Z.of_nat k + 1) = Ok r /\
    p_index (t_pos t) = Z.of_nat k /\ p_left (t_pos t) = l /\ p_right (t_pos t) = r /\ l < r /\
    forall x, l <= x < r -> forall u, 0 <= u < zlen ns ->
      get (t_parent t) u = Ok (parent_at es x u).
Proof.
  intros HV HL. destruct (load_inv _ _ _ _ HL) as (Ins & Rem & EB & EQ).
  eapply sweep_parent_exact_lemma; eauto using build_index_sorted_b.
Qed.

Lemma load_breakpoints_lemma L ns es q :
  valid_edgesb L ns es = true -> load L ns es = Ok q ->
  Sorted Z.lt (q_bps q) /\ hd 0 (q_bps q) = 0 /\ last (q_bps q) 0 = L /\
  zlen (q_bps q) = q_ntrees q + 1 /\ 0 < q_ntrees q /\
  forall x, In x (q_bps q) <->
    x = 0 \/ x = L \/ exists e, In e es /\ (x = eleft e \/ x = eright e).
Proof.
  intros HV HL. destruct (load_inv _ _ _ _ HL) as (Ins & Rem & EB & EQ).
  eapply breakpoints_partition_lemma; eauto using build_index_sorted_b.
Qed.

Example ex_chain :
  exists q t, load 6 ex_nodes ex_edges = Ok q /\ tree_at_index q ex_opts 1 = Ok t /\
    Chain t 4 [3; 1] /\ Chain t 7 [2; 6; 4] /\ children_of t 7 = Ok [2; 6; 4].
Proof.
  eexists. eexists. split; [vm_compute; reflexivity|]. split; [vm_compute; reflexivity|].
  split; [|split]; [| |reflexivity]; unfold Chain; simpl; unfold nxt, prv, NULL; simpl;
    repeat split; try reflexivity; discriminate.
Qed.

Example ex_views :
  exists q t, load 6 ex_nodes ex_edges = Ok q /\ tree_at_index q ex_opts 1 = Ok t /\
    preorder_from 7 t (-1) = Ok [2; 6; 4; 3; 0; 1] /\ preorder_from 7 t 7 = Ok [7; 2; 6; 4; 3; 0; 1] /\
    t_edge t = [0; 2; -1; 3; -1; -1; -1; -1] /\ mrca q t 0 1 = Ok 4 /\ depth 7 t 0 = Ok 2 /\
    t_ns t = [1; 1; 1; 1; 2; 0; 1; 4] /\ t_nt t = [1; 0; 1; 1; 1; 0; 0; 2].
Proof.
  eexists. eexists. split; [vm_compute; reflexivity|]. split; [vm_compute; reflexivity|].
  repeat split; vm_compute; reflexivity.
Qed.
