(* The sibling lists of the quintuply linked tree: tsk_tree_insert_branch appends to, and
   tsk_tree_remove_branch deletes from, a doubly linked list threaded through
   left_child/right_child/left_sib/right_sib. *)
From Coq Require Import List ZArith Bool Lia.
From TskVerif Require Import Base.Common.
From TskVerif Require Import C01.Model.
From TskVerif Require Import C01.ArrayLemmas.
From TskVerif Require Import C01.ProjProofs.
Import ListNotations.
Open Scope Z_scope.

(* ---- each setter changes exactly one field ---- *)
Ltac setter_inv := intros H; match type of H with ?f _ _ _ = _ => unfold f in H end;
  bind_inv H; inversion H; eexists; split; [reflexivity | reflexivity].
Lemma s_parent_inv t u v t' : s_parent t u v = Ok t' -> exists a, set (t_parent t) u v = Ok a /\ t' = w_parent t a. Proof. setter_inv. Qed.
Lemma s_lc_inv t u v t' : s_lc t u v = Ok t' -> exists a, set (t_lc t) u v = Ok a /\ t' = w_lc t a. Proof. setter_inv. Qed.
Lemma s_rc_inv t u v t' : s_rc t u v = Ok t' -> exists a, set (t_rc t) u v = Ok a /\ t' = w_rc t a. Proof. setter_inv. Qed.
Lemma s_ls_inv t u v t' : s_ls t u v = Ok t' -> exists a, set (t_ls t) u v = Ok a /\ t' = w_ls t a. Proof. setter_inv. Qed.
Lemma s_rs_inv t u v t' : s_rs t u v = Ok t' -> exists a, set (t_rs t) u v = Ok a /\ t' = w_rs t a. Proof. setter_inv. Qed.
Lemma s_nc_inv t u v t' : s_nc t u v = Ok t' -> exists a, set (t_nc t) u v = Ok a /\ t' = w_nc t a. Proof. setter_inv. Qed.

Ltac inv_setters :=
  repeat match goal with
  | H : s_parent _ _ _ = Ok _ |- _ => apply s_parent_inv in H; destruct H as (? & ? & ?); subst
  | H : s_lc _ _ _ = Ok _ |- _ => apply s_lc_inv in H; destruct H as (? & ? & ?); subst
  | H : s_rc _ _ _ = Ok _ |- _ => apply s_rc_inv in H; destruct H as (? & ? & ?); subst
  | H : s_ls _ _ _ = Ok _ |- _ => apply s_ls_inv in H; destruct H as (? & ? & ?); subst
  | H : s_rs _ _ _ = Ok _ |- _ => apply s_rs_inv in H; destruct H as (? & ? & ?); subst
  | H : s_nc _ _ _ = Ok _ |- _ => apply s_nc_inv in H; destruct H as (? & ? & ?); subst
  end.

(* the uniform view of a sibling list of parent p: NULL is the sentinel at both ends *)
Definition nxt (t : tree) (p a : Z) : res Z := if a =? NULL then get (t_lc t) p else get (t_rs t) a.
Definition prv (t : tree) (p b : Z) : res Z := if b =? NULL then get (t_rc t) p else get (t_ls t) b.

(* [seg t p prev l]: l is linked after prev, up to the end of p's list *)
Fixpoint seg (t : tree) (p prev : Z) (l : list Z) : Prop :=
  match l with
  | [] => nxt t p prev = Ok NULL /\ prv t p NULL = Ok prev
  | x :: r => nxt t p prev = Ok x /\ prv t p x = Ok prev /\ x <> NULL /\ seg t p x r
  end.

Definition Chain (t : tree) (p : Z) (l : list Z) : Prop := seg t p NULL l.

Lemma seg_frame t t' p p' : forall l prev,
  (forall x, In x (prev :: l) -> nxt t' p' x = nxt t p x) ->
  (forall x, In x (l ++ [NULL]) -> prv t' p' x = prv t p x) ->
  seg t p prev l -> seg t' p' prev l.
Proof.
  induction l as [|x r IH]; intros prev HN HP S; simpl in *.
  - destruct S as [S1 S2]. rewrite HN by auto. rewrite HP by auto. auto.
  - destruct S as (S1 & S2 & S3 & S4). rewrite HN by auto. rewrite HP by auto.
    split; [exact S1|]. split; [exact S2|]. split; [exact S3|].
    apply IH; [intros y Hy; apply HN; right; exact Hy | intros y Hy; apply HP; right; exact Hy | exact S4].
Qed.

(* the last element of prev :: l *)
Fixpoint lastz (prev : Z) (l : list Z) : Z := match l with [] => prev | x :: r => lastz x r end.

Lemma lastz_In prev l : In (lastz prev l) (prev :: l).
Proof.
  revert prev; induction l as [|x r IH]; intros prev; simpl; [auto|].
  destruct (IH x) as [H|H]; [right; left; exact H | right; right; exact H].
Qed.

Lemma seg_last t p : forall l prev, seg t p prev l -> nxt t p (lastz prev l) = Ok NULL /\ prv t p NULL = Ok (lastz prev l).
Proof.
  induction l as [|x r IH]; intros prev S; simpl in *; [exact S|].
  destruct S as (_ & _ & _ & S). apply IH. exact S.
Qed.

(* appending c at the tail *)
Lemma seg_snoc t t' p c : forall l prev,
  NoDup (prev :: l) -> ~ In c (prev :: l) -> c <> NULL -> ~ In NULL l ->
  seg t p prev l ->
  nxt t' p (lastz prev l) = Ok c -> prv t' p c = Ok (lastz prev l) ->
  nxt t' p c = Ok NULL -> prv t' p NULL = Ok c ->
  (forall x, x <> lastz prev l -> x <> c -> nxt t' p x = nxt t p x) ->
  (forall x, x <> NULL -> x <> c -> prv t' p x = prv t p x) ->
  seg t' p prev (l ++ [c]).
Proof.
  induction l as [|x r IH]; intros prev ND NC CN NN S A1 A2 A3 A4 FN FP; simpl in *.
  - repeat split; auto.
  - destruct S as (S1 & S2 & S3 & S4).
    inversion ND as [|? ? ND1 ND2]; subst.
    assert (PL : prev <> lastz x r).
    { intros E. apply ND1. rewrite E. apply lastz_In. }
    assert (NC' : ~ In c (x :: r)) by (intros E; apply NC; right; exact E).
    assert (NN' : ~ In NULL r) by (intros E; apply NN; right; exact E).
    assert (PC : prev <> c) by (intros E; apply NC; left; exact E).
    assert (XC : x <> c) by (intros E; apply NC; right; left; exact E).
    rewrite (FN prev PL PC). rewrite (FP x S3 XC).
    split; [exact S1|]. split; [exact S2|]. split; [exact S3|].
    exact (IH x ND2 NC' CN NN' S4 A1 A2 A3 A4 FN FP).
Qed.

(* the element before / after position |l1| in l1 ++ c :: l2 *)
Definition hdz (l : list Z) : Z := match l with [] => NULL | x :: _ => x end.

(* unlinking c *)
Lemma seg_unlink t t' p c : forall l1 prev l2,
  NoDup (prev :: l1 ++ c :: l2) -> ~ In NULL (l1 ++ c :: l2) ->
  seg t p prev (l1 ++ c :: l2) ->
  nxt t' p (lastz prev l1) = Ok (hdz l2) -> prv t' p (hdz l2) = Ok (lastz prev l1) ->
  (forall x, x <> lastz prev l1 -> x <> c -> nxt t' p x = nxt t p x) ->
  (forall x, x <> hdz l2 -> x <> c -> prv t' p x = prv t p x) ->
  seg t' p prev (l1 ++ l2).
Proof.
  induction l1 as [|x r IH]; intros prev l2 ND NN S A1 A2 FN FP; simpl in *.
  - destruct S as (S1 & S2 & S3 & S4).
    inversion ND as [|? ? ND1 ND2]; subst. inversion ND2 as [|? ? ND3 ND4]; subst.
    destruct l2 as [|y r2]; simpl in *.
    + auto.
    + destruct S4 as (T1 & T2 & T3 & T4). repeat split; auto.
      eapply seg_frame; [| |exact T4].
      * intros z Hz. apply FN.
        -- intros E. subst z. apply ND1. right. exact Hz.
        -- intros E. subst z. apply ND3. exact Hz.
      * intros z Hz. apply in_app_iff in Hz as [Hz|[Hz|[]]].
        -- apply FP.
           ++ intros E. subst z. inversion ND4; contradiction.
           ++ intros E. subst z. apply ND3. right. exact Hz.
        -- subst z. apply FP; auto.
  - destruct S as (S1 & S2 & S3 & S4).
    inversion ND as [|? ? ND1 ND2]; subst.
    assert (PL : prev <> lastz x r).
    { intros E. apply ND1. rewrite E. destruct (lastz_In x r) as [H|H]; [left; exact H|].
      right. apply in_app_iff. left. exact H. }
    assert (PC : prev <> c). { intros E. apply ND1. right. apply in_app_iff. right. left. auto. }
    assert (XC : x <> c). { intros E. inversion ND2 as [|? ? N1 N2]. apply N1. apply in_app_iff. right. left. auto. }
    assert (XH : x <> hdz l2).
    { intros E. destruct l2 as [|y r2]; simpl in E; [congruence|].
      inversion ND2 as [|? ? N1 N2]. apply N1. apply in_app_iff. right. right. left. auto. }
    assert (NN' : ~ In NULL (r ++ c :: l2)) by (intros E; apply NN; right; exact E).
    rewrite (FN prev PL PC). rewrite (FP x XH XC).
    split; [exact S1|]. split; [exact S2|]. split; [exact S3|].
    exact (IH x l2 ND2 NN' S4 A1 A2 FN FP).
Qed.

(* ---- what the two primitives do to the link arrays ---- *)
Lemma remove_branch_spec t p c t' : remove_branch t p c = Ok t' ->
  exists lsib rsib n,
    get (t_ls t) c = Ok lsib /\ get (t_rs t) c = Ok rsib /\ get (t_nc t) p = Ok n /\
    (forall y, get (t_lc t') y = if (lsib =? NULL) && (y =? p) then Ok rsib else get (t_lc t) y) /\
    (forall y, get (t_rs t') y = if y =? c then Ok NULL
                                 else if negb (lsib =? NULL) && (y =? lsib) then Ok rsib else get (t_rs t) y) /\
    (forall y, get (t_rc t') y = if (rsib =? NULL) && (y =? p) then Ok lsib else get (t_rc t) y) /\
    (forall y, get (t_ls t') y = if y =? c then Ok NULL
                                 else if negb (rsib =? NULL) && (y =? rsib) then Ok lsib else get (t_ls t) y) /\
    (forall y, get (t_nc t') y = if y =? p then Ok (n - 1) else get (t_nc t) y).
Proof.
  unfold remove_branch. intros H.
  bind_inv H. rename a into lsib. bind_inv H. rename a into rsib.
  bind_inv H. bind_inv H. bind_inv H. bind_inv H. bind_inv H. bind_inv H. rename a4 into n.
  exists lsib, rsib.
  destruct (lsib =? NULL) eqn:EL; destruct (rsib =? NULL) eqn:ER; inv_setters; cbn in *;
    exists n; (split; [reflexivity|]); (split; [reflexivity|]); (split; [assumption|]);
    repeat split; intros y;
    repeat match goal with
           | S : set _ _ _ = Ok ?l |- context [get ?l ?y] => rewrite (get_set _ _ _ y _ S)
           end; reflexivity.
Qed.

Lemma insert_branch_spec t p c t' : insert_branch t p c = Ok t' ->
  exists u n,
    get (t_rc t) p = Ok u /\ get (t_nc t) p = Ok n /\
    (forall y, get (t_lc t') y = if (u =? NULL) && (y =? p) then Ok c else get (t_lc t) y) /\
    (forall y, get (t_rs t') y = if y =? c then Ok NULL
                                 else if negb (u =? NULL) && (y =? u) then Ok c else get (t_rs t) y) /\
    (forall y, get (t_rc t') y = if y =? p then Ok c else get (t_rc t) y) /\
    (forall y, get (t_ls t') y = if y =? c then Ok u else get (t_ls t) y) /\
    (forall y, get (t_nc t') y = if y =? p then Ok (n + 1) else get (t_nc t) y).
Proof.
  unfold insert_branch. intros H.
  bind_inv H. bind_inv H. rename a0 into u. bind_inv H. bind_inv H. bind_inv H. rename a2 into n.
  exists u, n.
  destruct (u =? NULL) eqn:EU.
  - apply Z.eqb_eq in EU. subst u.
    bind_inv E1. bind_inv E1. inv_setters; cbn in *.
    (split; [first [reflexivity | assumption]|]); (split; [assumption|]);
    repeat split; intros y;
    repeat match goal with
           | S : set _ _ _ = Ok ?l |- context [get ?l ?y] => rewrite (get_set _ _ _ y _ S)
           end; reflexivity.
  - bind_inv E1. bind_inv E1. inv_setters; cbn in *.
    (split; [first [reflexivity | assumption]|]); (split; [assumption|]);
    repeat split; intros y;
    repeat match goal with
           | S : set _ _ _ = Ok ?l |- context [get ?l ?y] => rewrite (get_set _ _ _ y _ S)
           end; reflexivity.
Qed.

Lemma seg_nonnull t p : forall l prev, seg t p prev l -> ~ In NULL l.
Proof.
  induction l as [|x r IH]; intros prev S; simpl in *; [tauto|].
  destruct S as (_ & _ & S3 & S4). intros [E|E]; [congruence | exact (IH x S4 E)].
Qed.

Lemma seg_middle t p c : forall l1 prev l2, seg t p prev (l1 ++ c :: l2) ->
  prv t p c = Ok (lastz prev l1) /\ nxt t p c = Ok (hdz l2).
Proof.
  induction l1 as [|x r IH]; intros prev l2 S; simpl in *.
  - destruct S as (S1 & S2 & S3 & S4). split; [exact S2|].
    destruct l2; simpl in *; tauto.
  - destruct S as (_ & _ & _ & S4). apply IH. exact S4.
Qed.

(* ---- the two primitives on the list of one parent, and on the lists of the others ---- *)
Lemma insert_branch_chain t p c t' l :
  insert_branch t p c = Ok t' -> Chain t p l -> NoDup l -> ~ In c l -> c <> NULL ->
  Chain t' p (l ++ [c]) /\
  (forall p' l', p' <> p -> Chain t p' l' -> ~ In c l' -> (forall x, In x l -> ~ In x l') -> Chain t' p' l').
Proof.
  intros H C ND NC CN.
  destruct (insert_branch_spec _ _ _ _ H) as (u & n & GU & GN & LC & RS & RC & LS & NCc).
  pose proof (seg_nonnull _ _ _ _ C) as NN.
  destruct (seg_last _ _ _ _ C) as [L1 L2]. unfold prv in L2. simpl in L2.
  assert (U : u = lastz NULL l) by congruence.
  assert (UIn : In u (NULL :: l)) by (rewrite U; apply lastz_In).
  assert (UC : u <> c) by (intros E; subst c; destruct UIn as [E|E]; [congruence | contradiction]).
  split.
  - unfold Chain. apply (seg_snoc t t' p c l NULL); auto.
    + constructor; auto.
    + intros [E|E]; [congruence | contradiction].
    + rewrite <- U. unfold nxt. destruct (u =? NULL) eqn:EU.
      * rewrite LC, ?EU, Z.eqb_refl. reflexivity.
      * rewrite RS. replace (u =? c) with false by (symmetry; apply Z.eqb_neq; exact UC).
        rewrite ?EU, Z.eqb_refl. reflexivity.
    + rewrite <- U. unfold prv. replace (c =? NULL) with false by (symmetry; apply Z.eqb_neq; exact CN).
      rewrite LS, Z.eqb_refl. reflexivity.
    + unfold nxt. replace (c =? NULL) with false by (symmetry; apply Z.eqb_neq; exact CN).
      rewrite RS, Z.eqb_refl. reflexivity.
    + unfold prv. simpl. rewrite RC, Z.eqb_refl. reflexivity.
    + rewrite <- U. intros x XU XC. unfold nxt. destruct (x =? NULL) eqn:EX.
      * apply Z.eqb_eq in EX. subst x. rewrite LC.
        replace (u =? NULL) with false by (symmetry; apply Z.eqb_neq; congruence). reflexivity.
      * rewrite RS. replace (x =? c) with false by (symmetry; apply Z.eqb_neq; exact XC).
        replace (x =? u) with false by (symmetry; apply Z.eqb_neq; exact XU).
        rewrite andb_false_r. reflexivity.
    + intros x XN XC. unfold prv. replace (x =? NULL) with false by (symmetry; apply Z.eqb_neq; exact XN).
      rewrite LS. replace (x =? c) with false by (symmetry; apply Z.eqb_neq; exact XC). reflexivity.
  - intros p' l' PP C' NC' DJ. unfold Chain in *.
    pose proof (seg_nonnull _ _ _ _ C') as NN'.
    eapply seg_frame; [| |exact C'].
    + intros x [<-|Hx]; unfold nxt.
      * simpl. rewrite LC. replace (p' =? p) with false by (symmetry; apply Z.eqb_neq; exact PP).
        rewrite andb_false_r. reflexivity.
      * assert (XN : x <> NULL) by (intros E; subst; contradiction).
        replace (x =? NULL) with false by (symmetry; apply Z.eqb_neq; exact XN).
        rewrite RS. replace (x =? c) with false by (symmetry; apply Z.eqb_neq; intros E; subst; contradiction).
        destruct (negb (u =? NULL) && (x =? u)) eqn:EE; [|reflexivity].
        apply andb_true_iff in EE as [E1 E2]. apply Z.eqb_eq in E2. subst x.
        apply negb_true_iff, Z.eqb_neq in E1. exfalso.
        destruct UIn as [E|E]; [congruence | exact (DJ u E Hx)].
    + intros x Hx. apply in_app_iff in Hx as [Hx|[<-|[]]]; unfold prv.
      * assert (XN : x <> NULL) by (intros E; subst; contradiction).
        replace (x =? NULL) with false by (symmetry; apply Z.eqb_neq; exact XN).
        rewrite LS. replace (x =? c) with false by (symmetry; apply Z.eqb_neq; intros E; subst; contradiction).
        reflexivity.
      * simpl. rewrite RC. replace (p' =? p) with false by (symmetry; apply Z.eqb_neq; exact PP). reflexivity.
Qed.

Lemma remove_branch_chain t p c t' l1 l2 :
  remove_branch t p c = Ok t' -> Chain t p (l1 ++ c :: l2) -> NoDup (l1 ++ c :: l2) ->
  Chain t' p (l1 ++ l2) /\
  (forall p' l', p' <> p -> Chain t p' l' -> (forall x, In x (l1 ++ c :: l2) -> ~ In x l') -> Chain t' p' l').
Proof.
  intros H C ND.
  destruct (remove_branch_spec _ _ _ _ H) as (lsib & rsib & n & GL & GR & GN & LC & RS & RC & LS & NCc).
  pose proof (seg_nonnull _ _ _ _ C) as NN.
  destruct (seg_middle _ _ _ _ _ _ C) as [M1 M2].
  assert (CN : c <> NULL) by (intros E; apply NN; apply in_app_iff; right; left; auto).
  unfold prv in M1. unfold nxt in M2.
  replace (c =? NULL) with false in M1, M2 by (symmetry; apply Z.eqb_neq; exact CN).
  assert (EL : lsib = lastz NULL l1) by congruence. assert (ER : rsib = hdz l2) by congruence.
  assert (NDN : NoDup (NULL :: l1 ++ c :: l2)) by (constructor; auto).
  assert (LIn : In lsib (NULL :: l1)) by (rewrite EL; apply lastz_In).
  assert (LC' : lsib <> c).
  { intros E. subst lsib. destruct LIn as [X|X]; [congruence|].
    apply NoDup_remove_2 in ND. apply ND. apply in_app_iff. left. rewrite <- E. exact X. }
  assert (RIn : rsib = NULL \/ In rsib l2) by (rewrite ER; destruct l2; simpl; auto).
  assert (RC' : rsib <> c).
  { intros E. destruct RIn as [X|X]; [congruence|].
    apply NoDup_remove_2 in ND. apply ND. apply in_app_iff. right. rewrite <- E. exact X. }
  split.
  - unfold Chain. apply (seg_unlink t t' p c l1 NULL l2); auto.
    + rewrite <- EL, <- ER. unfold nxt. destruct (lsib =? NULL) eqn:E1.
      * rewrite LC, ?E1, Z.eqb_refl. reflexivity.
      * rewrite RS. replace (lsib =? c) with false by (symmetry; apply Z.eqb_neq; exact LC').
        rewrite ?E1, Z.eqb_refl. reflexivity.
    + rewrite <- EL, <- ER. unfold prv. destruct (rsib =? NULL) eqn:E1.
      * rewrite RC, ?E1, Z.eqb_refl. reflexivity.
      * rewrite LS. replace (rsib =? c) with false by (symmetry; apply Z.eqb_neq; exact RC').
        rewrite ?E1, Z.eqb_refl. reflexivity.
    + rewrite <- EL. intros x XL XC. unfold nxt. destruct (x =? NULL) eqn:EX.
      * apply Z.eqb_eq in EX. subst x. rewrite LC.
        replace (lsib =? NULL) with false by (symmetry; apply Z.eqb_neq; congruence). reflexivity.
      * rewrite RS. replace (x =? c) with false by (symmetry; apply Z.eqb_neq; exact XC).
        replace (x =? lsib) with false by (symmetry; apply Z.eqb_neq; exact XL).
        rewrite andb_false_r. reflexivity.
    + rewrite <- ER. intros x XR XC. unfold prv. destruct (x =? NULL) eqn:EX.
      * apply Z.eqb_eq in EX. subst x. rewrite RC.
        replace (rsib =? NULL) with false by (symmetry; apply Z.eqb_neq; congruence). reflexivity.
      * rewrite LS. replace (x =? c) with false by (symmetry; apply Z.eqb_neq; exact XC).
        replace (x =? rsib) with false by (symmetry; apply Z.eqb_neq; exact XR).
        rewrite andb_false_r. reflexivity.
  - intros p' l' PP C' DJ. unfold Chain in *.
    pose proof (seg_nonnull _ _ _ _ C') as NN'.
    assert (InL : forall x, x <> NULL -> (x = lsib \/ x = rsib \/ x = c) -> In x (l1 ++ c :: l2)).
    { intros x XN [ -> | [ -> | -> ] ].
      - destruct LIn as [X|X]; [congruence|]. apply in_app_iff. left. exact X.
      - destruct RIn as [X|X]; [congruence|]. apply in_app_iff. right. right. exact X.
      - apply in_app_iff. right. left. reflexivity. }
    eapply seg_frame; [| |exact C'].
    + intros x [<-|Hx]; unfold nxt.
      * simpl. rewrite LC. replace (p' =? p) with false by (symmetry; apply Z.eqb_neq; exact PP).
        rewrite andb_false_r. reflexivity.
      * assert (XN : x <> NULL) by (intros E; subst; contradiction).
        replace (x =? NULL) with false by (symmetry; apply Z.eqb_neq; exact XN).
        rewrite RS.
        replace (x =? c) with false by (symmetry; apply Z.eqb_neq; intros E; apply (DJ x); auto).
        destruct (negb (lsib =? NULL) && (x =? lsib)) eqn:EE; [|reflexivity].
        apply andb_true_iff in EE as [_ E2]. apply Z.eqb_eq in E2. exfalso. apply (DJ x); auto.
    + intros x Hx. apply in_app_iff in Hx as [Hx|[<-|[]]]; unfold prv.
      * assert (XN : x <> NULL) by (intros E; subst; contradiction).
        replace (x =? NULL) with false by (symmetry; apply Z.eqb_neq; exact XN).
        rewrite LS.
        replace (x =? c) with false by (symmetry; apply Z.eqb_neq; intros E; apply (DJ x); auto).
        destruct (negb (rsib =? NULL) && (x =? rsib)) eqn:EE; [|reflexivity].
        apply andb_true_iff in EE as [_ E2]. apply Z.eqb_eq in E2. exfalso. apply (DJ x); auto.
      * simpl. rewrite RC. replace (p' =? p) with false by (symmetry; apply Z.eqb_neq; exact PP).
        rewrite andb_false_r. reflexivity.
Qed.
