(* The representation invariant of the quintuply linked tree, carried through the sweep:
   for every node p (and the virtual root) the sibling list hanging off left_child[p] is a
   duplicate-free list of exactly the nodes whose parent is p (for the virtual root: exactly the
   parentless nodes with at least root_threshold samples below them). *)
From Coq Require Import List ZArith Bool Lia Sorting.Sorted Permutation.
From TskVerif Require Import Base.Common.
From TskVerif Require Import C01.Model.
From TskVerif Require Import C01.ArrayLemmas.
From TskVerif Require Import C01.ProjProofs.
From TskVerif Require Import C01.TreeProofs.
From TskVerif Require Import C01.InductProofs.
From TskVerif Require Import C01.CountProofs.
From TskVerif Require Import C01.QueryProofs.
From TskVerif Require Import C01.LinkProofs.
Import ListNotations.
Open Scope Z_scope.

Definition updK (K : Z -> list Z) (p : Z) (l : list Z) : Z -> list Z :=
  fun x => if x =? p then l else K x.

Lemma updK_same K p l : updK K p l p = l.
Proof. unfold updK. now rewrite Z.eqb_refl. Qed.
Lemma updK_other K p l x : x <> p -> updK K p l x = K x.
Proof. unfold updK. intros H. apply Z.eqb_neq in H. now rewrite H. Qed.

(* the link arrays *)
Definition same_links (t t' : tree) : Prop :=
  t_lc t' = t_lc t /\ t_rc t' = t_rc t /\ t_ls t' = t_ls t /\ t_rs t' = t_rs t /\ t_nc t' = t_nc t.

Lemma same_links_refl t : same_links t t.
Proof. repeat split. Qed.
Lemma same_links_trans a b c : same_links a b -> same_links b c -> same_links a c.
Proof. unfold same_links. intros (?&?&?&?&?) (?&?&?&?&?). repeat split; congruence. Qed.

Lemma Chain_same t t' p l : same_links t t' -> Chain t p l -> Chain t' p l.
Proof.
  intros (A & B & C & D & E) H. unfold Chain in *.
  eapply seg_frame; [| |exact H]; intros x _; unfold nxt, prv; rewrite ?A, ?B, ?C, ?D; reflexivity.
Qed.

Ltac setter_links := intros H; match type of H with ?f _ _ _ = _ => unfold f in H end;
  bind_inv H; inversion H; repeat split; reflexivity.
Lemma s_parent_l t u v t' : s_parent t u v = Ok t' -> same_links t t'. Proof. setter_links. Qed.
Lemma s_edge_l t u v t' : s_edge t u v = Ok t' -> same_links t t'. Proof. setter_links. Qed.
Lemma s_ns_l t u v t' : s_ns t u v = Ok t' -> same_links t t'. Proof. setter_links. Qed.
Lemma s_nt_l t u v t' : s_nt t u v = Ok t' -> same_links t t'. Proof. setter_links. Qed.
Lemma s_lsamp_l t u v t' : s_lsamp t u v = Ok t' -> same_links t t'. Proof. setter_links. Qed.
Lemma s_rsamp_l t u v t' : s_rsamp t u v = Ok t' -> same_links t t'. Proof. setter_links. Qed.
Lemma s_nsamp_l t u v t' : s_nsamp t u v = Ok t' -> same_links t t'. Proof. setter_links. Qed.

Ltac l_frames :=
  repeat match goal with
  | H : s_parent _ _ _ = Ok _ |- _ => apply s_parent_l in H
  | H : s_edge _ _ _ = Ok _ |- _ => apply s_edge_l in H
  | H : s_ns _ _ _ = Ok _ |- _ => apply s_ns_l in H
  | H : s_nt _ _ _ = Ok _ |- _ => apply s_nt_l in H
  | H : s_lsamp _ _ _ = Ok _ |- _ => apply s_lsamp_l in H
  | H : s_rsamp _ _ _ = Ok _ |- _ => apply s_rsamp_l in H
  | H : s_nsamp _ _ _ = Ok _ |- _ => apply s_nsamp_l in H
  end.

Ltac l_trans := repeat match goal with
  | H1 : same_links ?a ?b, H2 : same_links ?b ?c |- same_links ?a ?c => exact (same_links_trans _ _ _ H1 H2)
  | H1 : same_links ?a ?b, H2 : same_links ?b ?c |- _ =>
      pose proof (same_links_trans _ _ _ H1 H2); clear H1 H2
  end.

Lemma propagate_l : forall fuel thr sign t c u pe wr t' pe' wr',
  propagate fuel thr sign t c u pe wr = Ok (t', pe', wr') -> same_links t t'.
Proof.
  induction fuel as [|f IH]; intros thr sign t c u pe wr t' pe' wr' H; simpl in H.
  - destruct (u =? NULL); [inversion H; apply same_links_refl | discriminate].
  - destruct (u =? NULL); [inversion H; apply same_links_refl|].
    bind_inv H. bind_inv H. bind_inv H. bind_inv H. bind_inv H. bind_inv H. bind_inv H.
    apply IH in H. l_frames. eapply same_links_trans; [|exact H]. eapply same_links_trans; eauto.
Qed.

Lemma usl_children_l : forall fuel t u v t', usl_children fuel t u v = Ok t' -> same_links t t'.
Proof.
  induction fuel as [|f IH]; intros t u v t' H; simpl in H.
  - destruct (v =? NULL); [inversion H; apply same_links_refl | discriminate].
  - destruct (v =? NULL); [inversion H; apply same_links_refl|].
    bind_inv H. bind_inv H. bind_inv H. apply IH in H.
    eapply same_links_trans; [|exact H]. clear H.
    destruct (negb (a =? NULL)); [|inversion E0; apply same_links_refl].
    bind_inv E0. destruct (a2 =? NULL); [discriminate|]. bind_inv E0.
    destruct (a3 =? NULL).
    + bind_inv E0. l_frames. eauto 6 using same_links_trans, same_links_refl.
    + bind_inv E0. bind_inv E0. l_frames. eauto 6 using same_links_trans, same_links_refl.
Qed.

Lemma update_sample_lists_l : forall fuel simap t u t',
  update_sample_lists fuel simap t u = Ok t' -> same_links t t'.
Proof.
  induction fuel as [|f IH]; intros simap t u t' H; simpl in H.
  - destruct (u =? NULL); [inversion H; apply same_links_refl | discriminate].
  - destruct (u =? NULL); [inversion H; apply same_links_refl|].
    bind_inv H. bind_inv H. bind_inv H. bind_inv H. bind_inv H.
    apply IH in H. apply usl_children_l in E2.
    eapply same_links_trans; [|exact H]. eapply same_links_trans; [|exact E2].
    destruct (negb (a =? NULL)).
    + bind_inv E0. l_frames. eauto 6 using same_links_trans, same_links_refl.
    + bind_inv E0. l_frames. eauto 6 using same_links_trans, same_links_refl.
Qed.

Lemma cond_lists_l lists simap t p t' : cond_lists lists simap t p = Ok t' -> same_links t t'.
Proof.
  unfold cond_lists. destruct lists; [apply update_sample_lists_l|].
  intros H; inversion H; apply same_links_refl.
Qed.

Lemma NoDup_app_snoc {A} (l : list A) c : NoDup l -> ~ In c l -> NoDup (l ++ [c]).
Proof.
  induction l as [|x r IH]; intros ND NI; simpl.
  - constructor; [intros []|constructor].
  - inversion ND; subst. constructor.
    + intros H. apply in_app_iff in H as [H|[H|[]]]; [contradiction|]. subst. apply NI. left; reflexivity.
    + apply IH; auto. intros H. apply NI. right; exact H.
Qed.

Section Rep.
  Variable N : Z.

  Record LinkRep (t : tree) (K : Z -> list Z) : Prop := {
    lr_chain : forall p, 0 <= p <= N -> Chain t p (K p);
    lr_nodup : forall p, 0 <= p <= N -> NoDup (K p);
    lr_nc : forall p, 0 <= p <= N -> get (t_nc t) p = Ok (zlen (K p));
    lr_range : forall p x, 0 <= p <= N -> In x (K p) -> 0 <= x < N;
    lr_disj : forall p p' x, 0 <= p <= N -> 0 <= p' <= N -> p <> p' -> In x (K p) -> ~ In x (K p')
  }.

  Lemma LinkRep_same t t' K : same_links t t' -> LinkRep t K -> LinkRep t' K.
  Proof.
    intros SL [A B C D E]. constructor; auto.
    - intros p Hp. eapply Chain_same; eauto.
    - intros p Hp. destruct SL as (_ & _ & _ & _ & ->). auto.
  Qed.

  Lemma LinkRep_insert t t' K p c :
    insert_branch t p c = Ok t' -> LinkRep t K -> 0 <= p <= N -> 0 <= c < N ->
    (forall p', 0 <= p' <= N -> ~ In c (K p')) ->
    LinkRep t' (updK K p (K p ++ [c])).
  Proof.
    intros H [A B C D E] Hp Hc Fr.
    assert (CN : c <> NULL) by (unfold NULL; lia).
    destruct (insert_branch_chain t p c t' (K p) H (A p Hp) (B p Hp) (Fr p Hp) CN) as [C1 C2].
    destruct (insert_branch_spec _ _ _ _ H) as (u & n & _ & GN & _ & _ & _ & _ & NCc).
    constructor.
    - intros p' Hp'. destruct (Z.eq_dec p' p) as [->|NE].
      + rewrite updK_same. exact C1.
      + rewrite updK_other by exact NE. apply C2; auto.
        intros x Hx. apply (E p p' x); auto.
    - intros p' Hp'. destruct (Z.eq_dec p' p) as [->|NE].
      + rewrite updK_same. apply NoDup_app_snoc; auto.
      + rewrite updK_other by exact NE. auto.
    - intros p' Hp'. rewrite NCc. destruct (Z.eq_dec p' p) as [->|NE].
      + rewrite updK_same, Z.eqb_refl. f_equal.
        rewrite (C p Hp) in GN. inversion GN. unfold zlen. rewrite app_length. simpl. lia.
      + rewrite updK_other by exact NE. replace (p' =? p) with false by (symmetry; apply Z.eqb_neq; exact NE). auto.
    - intros p' x Hp' Hx. destruct (Z.eq_dec p' p) as [->|NE].
      + rewrite updK_same in Hx. apply in_app_iff in Hx as [Hx|[<-|[]]]; eauto.
      + rewrite updK_other in Hx by exact NE. eauto.
    - intros p1 p2 x H1 H2 NE Hx1 Hx2.
      destruct (Z.eq_dec p1 p) as [->|N1]; destruct (Z.eq_dec p2 p) as [->|N2]; try congruence.
      + rewrite updK_same in Hx1. rewrite updK_other in Hx2 by exact N2.
        apply in_app_iff in Hx1 as [Hx1|[<-|[]]]; [exact (E p p2 x Hp H2 NE Hx1 Hx2) | exact (Fr p2 H2 Hx2)].
      + rewrite updK_other in Hx1 by exact N1. rewrite updK_same in Hx2.
        apply in_app_iff in Hx2 as [Hx2|[<-|[]]]; [exact (E p1 p x H1 Hp NE Hx1 Hx2) | exact (Fr p1 H1 Hx1)].
      + rewrite updK_other in Hx1 by exact N1. rewrite updK_other in Hx2 by exact N2.
        exact (E p1 p2 x H1 H2 NE Hx1 Hx2).
  Qed.

  Lemma LinkRep_remove t t' K p c l1 l2 :
    remove_branch t p c = Ok t' -> LinkRep t K -> 0 <= p <= N -> K p = l1 ++ c :: l2 ->
    LinkRep t' (updK K p (l1 ++ l2)).
  Proof.
    intros H [A B C D E] Hp EK.
    pose proof (A p Hp) as Ap. pose proof (B p Hp) as Bp. rewrite EK in Ap, Bp.
    destruct (remove_branch_chain t p c t' l1 l2 H Ap Bp) as [C1 C2].
    destruct (remove_branch_spec _ _ _ _ H) as (lsib & rsib & n & _ & _ & GN & _ & _ & _ & _ & NCc).
    assert (Sub : forall x, In x (l1 ++ l2) -> In x (K p)).
    { intros x Hx. rewrite EK. apply in_app_iff in Hx as [Hx|Hx]; apply in_app_iff; [left | right; right]; exact Hx. }
    constructor.
    - intros p' Hp'. destruct (Z.eq_dec p' p) as [->|NE].
      + rewrite updK_same. exact C1.
      + rewrite updK_other by exact NE. apply C2; auto.
        intros x Hx. rewrite <- EK in Hx. apply (E p p' x); auto.
    - intros p' Hp'. destruct (Z.eq_dec p' p) as [->|NE].
      + rewrite updK_same. eapply NoDup_remove_1; eauto.
      + rewrite updK_other by exact NE. auto.
    - intros p' Hp'. rewrite NCc. destruct (Z.eq_dec p' p) as [->|NE].
      + rewrite updK_same, Z.eqb_refl. f_equal.
        rewrite (C p Hp), EK in GN. inversion GN. unfold zlen. rewrite !app_length. simpl. lia.
      + rewrite updK_other by exact NE. replace (p' =? p) with false by (symmetry; apply Z.eqb_neq; exact NE). auto.
    - intros p' x Hp' Hx. destruct (Z.eq_dec p' p) as [->|NE].
      + rewrite updK_same in Hx. eauto.
      + rewrite updK_other in Hx by exact NE. eauto.
    - intros p1 p2 x H1 H2 NE Hx1 Hx2.
      destruct (Z.eq_dec p1 p) as [->|N1]; destruct (Z.eq_dec p2 p) as [->|N2]; try congruence.
      + rewrite updK_same in Hx1. rewrite updK_other in Hx2 by exact N2. exact (E p p2 x Hp H2 NE (Sub _ Hx1) Hx2).
      + rewrite updK_other in Hx1 by exact N1. rewrite updK_same in Hx2. exact (E p1 p x H1 Hp NE Hx1 (Sub _ Hx2)).
      + rewrite updK_other in Hx1 by exact N1. rewrite updK_other in Hx2 by exact N2.
        exact (E p1 p2 x H1 H2 NE Hx1 Hx2).
  Qed.
End Rep.

(* ------------------------------------------------------------------------------------ *)
(* the propagation loop along the ancestor path                                          *)
(* ------------------------------------------------------------------------------------ *)

Lemma path_last_null P : forall u l, path P u l -> l <> [] -> get P (last l NULL) = Ok NULL.
Proof.
  induction 1 as [|u p l NU G Pl IH]; intros NE; [congruence|].
  destruct l as [|y r].
  - inversion Pl; subst. simpl. exact G.
  - change (last (u :: y :: r) NULL) with (last (y :: r) NULL). apply IH. discriminate.
Qed.

Lemma propagate_path thr sign c : forall l fuel t u pe0 wr0 t' pe' wr',
  path (t_parent t) u l -> NoDup l -> ~ In c l ->
  propagate fuel thr sign t c u pe0 wr0 = Ok (t', pe', wr') ->
  (l = [] -> pe' = pe0 /\ wr' = wr0) /\
  (l <> [] -> pe' = last l NULL /\ exists n, get (t_ns t) pe' = Ok n /\ wr' = (thr <=? n)) /\
  (l <> [] -> exists ac, get (t_ns t) c = Ok ac /\
     forall x, (In x l -> exists a, get (t_ns t) x = Ok a /\ get (t_ns t') x = Ok (a + sign * ac)) /\
               (~ In x l -> get (t_ns t') x = get (t_ns t) x)) /\
  (l = [] -> t_ns t' = t_ns t).
Proof.
  induction l as [|u0 l IH]; intros fuel t u pe0 wr0 t' pe' wr' Pl ND NC H.
  - inversion Pl; subst. destruct fuel; simpl in H; inversion H; subst. repeat split; congruence.
  - inversion Pl as [|u1 p l1 NU G Pl' E1 E2]; subst.
    destruct fuel; simpl in H; replace (u0 =? NULL) with false in H by (symmetry; apply Z.eqb_neq; exact NU);
      [discriminate|].
    bind_inv H. bind_inv H. bind_inv H. bind_inv H. bind_inv H. bind_inv H. bind_inv H.
    rename a into nsu, a0 into ac.
    unfold s_ns in E1. bind_inv E1. inversion E1; subst a1. clear E1.
    unfold s_nt in E4. bind_inv E4. inversion E4; subst a4. clear E4. simpl in *.
    assert (a5 = p) by congruence. subst a5.
    inversion ND as [|? ? ND1 ND2]; subst.
    assert (UC : u0 <> c) by (intros X; apply NC; left; exact X).
    assert (NC' : ~ In c l) by (intros X; apply NC; right; exact X).
    destruct (IH _ _ _ _ _ _ _ _ Pl' ND2 NC' H) as (I1 & I2 & I3 & I4). simpl in *.
    split; [discriminate|]. split; [|split; [|discriminate]].
    + intros _. destruct l as [|y r].
      * destruct (I1 eq_refl) as [-> ->]. simpl. split; [reflexivity|]. exists nsu. auto.
      * destruct (I2 ltac:(discriminate)) as (-> & n & Gn & ->).
        split; [reflexivity|]. exists n. split; [|reflexivity].
        rewrite (get_set_other _ _ _ _ _ E6) in Gn; [exact Gn|].
        intros X. apply ND1. rewrite X. apply (@exists_last_in Z). 
    + intros _. exists ac. split; [exact E0|]. intros x. split.
      * intros [<-|Hx].
        -- exists nsu. split; [exact E|]. destruct l as [|y r].
           ++ rewrite (I4 eq_refl). eapply get_set_same; eauto.
           ++ destruct (I3 ltac:(discriminate)) as (ac' & _ & F). destruct (F u0) as [_ F2].
              rewrite (F2 ND1). eapply get_set_same; eauto.
        -- destruct l as [|y r]; [destruct Hx|].
           destruct (I3 ltac:(discriminate)) as (ac' & Gc' & F). destruct (F x) as [F1 _].
           destruct (F1 Hx) as (a & Ga & Ga').
           assert (XU : x <> u0) by (intros X; subst; contradiction).
           rewrite (get_set_other _ _ _ x _ E6) in Ga by auto.
           rewrite (get_set_other _ _ _ c _ E6) in Gc' by auto.
           assert (ac' = ac) by congruence. subst ac'.
           exists a. auto.
      * intros NI. assert (XU : x <> u0) by (intros X; apply NI; left; auto).
        assert (NI' : ~ In x l) by (intros X; apply NI; right; exact X).
        destruct l as [|y r].
        -- rewrite (I4 eq_refl). eapply get_set_other; eauto.
        -- destruct (I3 ltac:(discriminate)) as (ac' & _ & F). destruct (F x) as [_ F2].
           rewrite (F2 NI'). eapply get_set_other; eauto.
Qed.
