(* The representation invariant of the quintuply linked tree, carried through the sweep:
   for every node p (and the virtual root) the sibling list hanging off left_child[p] is a
   duplicate-free list of exactly the nodes whose parent is p (for the virtual root: exactly the
   parentless nodes with at least root_threshold samples below them). *)
From Coq Require Import List ZArith Bool Lia Sorting.Sorted Permutation.
From TskVerif Require Import Base.Common.
From TskVerif Require Import C01.Model.
From TskVerif Require Import C01.ArrayLemmas.
From TskVerif Require Import C01.ProjProofs.
From TskVerif Require Import C01.TreeProofs.
From TskVerif Require Import C01.InductProofs.
From TskVerif Require Import C01.CountProofs.
From TskVerif Require Import C01.QueryProofs.
From TskVerif Require Import C01.LinkProofs.
Import ListNotations.
Open Scope Z_scope.

Definition updK (K : Z -> list Z) (p : Z) (l : list Z) : Z -> list Z :=
  fun x => if x =? p then l else K x.

Lemma updK_same K p l : updK K p l p = l.
Proof. unfold updK. now rewrite Z.eqb_refl. Qed.
Lemma updK_other K p l x : x <> p -> updK K p l x = K x.
Proof. unfold updK. intros H. apply Z.eqb_neq in H. now rewrite H. Qed.

(* the link arrays *)
Definition same_links (t t' : tree) : Prop :=
  t_lc t' = t_lc t /\ t_rc t' = t_rc t /\ t_ls t' = t_ls t /\ t_rs t' = t_rs t /\ t_nc t' = t_nc t.

Lemma same_links_refl t : same_links t t.
Proof. repeat split. Qed.
Lemma same_links_trans a b c : same_links a b -> same_links b c -> same_links a c.
Proof. unfold same_links. intros (?&?&?&?&?) (?&?&?&?&?). repeat split; congruence. Qed.

Lemma Chain_same t t' p l : same_links t t' -> Chain t p l -> Chain t' p l.
Proof.
  intros (A & B & C & D & E) H. unfold Chain in *.
  eapply seg_frame; [| |exact H]; intros x _; unfold nxt, prv; rewrite ?A, ?B, ?C, ?D; reflexivity.
Qed.

Ltac setter_links := intros H; match type of H with ?f _ _ _ = _ => unfold f in H end;
  bind_inv H; inversion H; repeat split; reflexivity.
Lemma s_parent_l t u v t' : s_parent t u v = Ok t' -> same_links t t'. Proof. setter_links. Qed.
Lemma s_edge_l t u v t' : s_edge t u v = Ok t' -> same_links t t'. Proof. setter_links. Qed.
Lemma s_ns_l t u v t' : s_ns t u v = Ok t' -> same_links t t'. Proof. setter_links. Qed.
Lemma s_nt_l t u v t' : s_nt t u v = Ok t' -> same_links t t'. Proof. setter_links. Qed.
Lemma s_lsamp_l t u v t' : s_lsamp t u v = Ok t' -> same_links t t'. Proof. setter_links. Qed.
Lemma s_rsamp_l t u v t' : s_rsamp t u v = Ok t' -> same_links t t'. Proof. setter_links. Qed.
Lemma s_nsamp_l t u v t' : s_nsamp t u v = Ok t' -> same_links t t'. Proof. setter_links. Qed.

Ltac l_frames :=
  repeat match goal with
  | H : s_parent _ _ _ = Ok _ |- _ => apply s_parent_l in H
  | H : s_edge _ _ _ = Ok _ |- _ => apply s_edge_l in H
  | H : s_ns _ _ _ = Ok _ |- _ => apply s_ns_l in H
  | H : s_nt _ _ _ = Ok _ |- _ => apply s_nt_l in H
  | H : s_lsamp _ _ _ = Ok _ |- _ => apply s_lsamp_l in H
  | H : s_rsamp _ _ _ = Ok _ |- _ => apply s_rsamp_l in H
  | H : s_nsamp _ _ _ = Ok _ |- _ => apply s_nsamp_l in H
  end.

Ltac l_trans := repeat match goal with
  | H1 : same_links ?a ?b, H2 : same_links ?b ?c |- same_links ?a ?c => exact (same_links_trans _ _ _ H1 H2)
  | H1 : same_links ?a ?b, H2 : same_links ?b ?c |- _ =>
      pose proof (same_links_trans _ _ _ H1 H2); clear H1 H2
  end.

Lemma propagate_l : forall fuel thr sign t c u pe wr t' pe' wr',
  propagate fuel thr sign t c u pe wr = Ok (t', pe', wr') -> same_links t t'.
Proof.
  induction fuel as [|f IH]; intros thr sign t c u pe wr t' pe' wr' H; simpl in H.
  - destruct (u =? NULL); [inversion H; apply same_links_refl | discriminate].
  - destruct (u =? NULL); [inversion H; apply same_links_refl|].
    bind_inv H. bind_inv H. bind_inv H. bind_inv H. bind_inv H. bind_inv H. bind_inv H.
    apply IH in H. l_frames. eapply same_links_trans; [|exact H]. eapply same_links_trans; eauto.
Qed.

Lemma usl_children_l : forall fuel t u v t', usl_children fuel t u v = Ok t' -> same_links t t'.
Proof.
  induction fuel as [|f IH]; intros t u v t' H; simpl in H.
  - destruct (v =? NULL); [inversion H; apply same_links_refl | discriminate].
  - destruct (v =? NULL); [inversion H; apply same_links_refl|].
    bind_inv H. bind_inv H. bind_inv H. apply IH in H.
    eapply same_links_trans; [|exact H]. clear H.
    destruct (negb (a =? NULL)); [|inversion E0; apply same_links_refl].
    bind_inv E0. destruct (a2 =? NULL); [discriminate|]. bind_inv E0.
    destruct (a3 =? NULL).
    + bind_inv E0. l_frames. eauto 6 using same_links_trans, same_links_refl.
    + bind_inv E0. bind_inv E0. l_frames. eauto 6 using same_links_trans, same_links_refl.
Qed.

Lemma update_sample_lists_l : forall fuel simap t u t',
  update_sample_lists fuel simap t u = Ok t' -> same_links t t'.
Proof.
  induction fuel as [|f IH]; intros simap t u t' H; simpl in H.
  - destruct (u =? NULL); [inversion H; apply same_links_refl | discriminate].
  - destruct (u =? NULL); [inversion H; apply same_links_refl|].
    bind_inv H. bind_inv H. bind_inv H. bind_inv H. bind_inv H.
    apply IH in H. apply usl_children_l in E2.
    eapply same_links_trans; [|exact H]. eapply same_links_trans; [|exact E2].
    destruct (negb (a =? NULL)).
    + bind_inv E0. l_frames. eauto 6 using same_links_trans, same_links_refl.
    + bind_inv E0. l_frames. eauto 6 using same_links_trans, same_links_refl.
Qed.

Lemma cond_lists_l lists simap t p t' : cond_lists lists simap t p = Ok t' -> same_links t t'.
Proof.
  unfold cond_lists. destruct lists; [apply update_sample_lists_l|].
  intros H; inversion H; apply same_links_refl.
Qed.

Lemma NoDup_app_snoc {A} (l : list A) c : NoDup l -> ~ In c l -> NoDup (l ++ [c]).
Proof.
  induction l as [|x r IH]; intros ND NI; simpl.
  - constructor; [intros []|constructor].
  - inversion ND; subst. constructor.
    + intros H. apply in_app_iff in H as [H|[H|[]]]; [contradiction|]. subst. apply NI. left; reflexivity.
    + apply IH; auto. intros H. apply NI. right; exact H.
Qed.

Section Rep.
  Variable N : Z.

  Record LinkRep (t : tree) (K : Z -> list Z) : Prop := {
    lr_chain : forall p, 0 <= p <= N -> Chain t p (K p);
    lr_nodup : forall p, 0 <= p <= N -> NoDup (K p);
    lr_nc : forall p, 0 <= p <= N -> get (t_nc t) p = Ok (zlen (K p));
    lr_range : forall p x, 0 <= p <= N -> In x (K p) -> 0 <= x < N;
    lr_disj : forall p p' x, 0 <= p <= N -> 0 <= p' <= N -> p <> p' -> In x (K p) -> ~ In x (K p')
  }.

  Lemma LinkRep_same t t' K : same_links t t' -> LinkRep t K -> LinkRep t' K.
  Proof.
    intros SL [A B C D E]. constructor; auto.
    - intros p Hp. eapply Chain_same; eauto.
    - intros p Hp. destruct SL as (_ & _ & _ & _ & ->). auto.
  Qed.

  Lemma LinkRep_insert t t' K p c :
    insert_branch t p c = Ok t' -> LinkRep t K -> 0 <= p <= N -> 0 <= c < N ->
    (forall p', 0 <= p' <= N -> ~ In c (K p')) ->
    LinkRep t' (updK K p (K p ++ [c])).
  Proof.
    intros H [A B C D E] Hp Hc Fr.
    assert (CN : c <> NULL) by (unfold NULL; lia).
    destruct (insert_branch_chain t p c t' (K p) H (A p Hp) (B p Hp) (Fr p Hp) CN) as [C1 C2].
    destruct (insert_branch_spec _ _ _ _ H) as (u & n & _ & GN & _ & _ & _ & _ & NCc).
    constructor.
    - intros p' Hp'. destruct (Z.eq_dec p' p) as [->|NE].
      + rewrite updK_same. exact C1.
      + rewrite updK_other by exact NE. apply C2; auto.
        intros x Hx. apply (E p p' x); auto.
    - intros p' Hp'. destruct (Z.eq_dec p' p) as [->|NE].
      + rewrite updK_same. apply NoDup_app_snoc; auto.
      + rewrite updK_other by exact NE. auto.
    - intros p' Hp'. rewrite NCc. destruct (Z.eq_dec p' p) as [->|NE].
      + rewrite updK_same, Z.eqb_refl. f_equal.
        rewrite (C p Hp) in GN. inversion GN. unfold zlen. rewrite app_length. simpl. lia.
      + rewrite updK_other by exact NE. replace (p' =? p) with false by (symmetry; apply Z.eqb_neq; exact NE). auto.
    - intros p' x Hp' Hx. destruct (Z.eq_dec p' p) as [->|NE].
      + rewrite updK_same in Hx. apply in_app_iff in Hx as [Hx|[<-|[]]]; eauto.
      + rewrite updK_other in Hx by exact NE. eauto.
    - intros p1 p2 x H1 H2 NE Hx1 Hx2.
      destruct (Z.eq_dec p1 p) as [->|N1]; destruct (Z.eq_dec p2 p) as [->|N2]; try congruence.
      + rewrite updK_same in Hx1. rewrite updK_other in Hx2 by exact N2.
        apply in_app_iff in Hx1 as [Hx1|[<-|[]]]; [exact (E p p2 x Hp H2 NE Hx1 Hx2) | exact (Fr p2 H2 Hx2)].
      + rewrite updK_other in Hx1 by exact N1. rewrite updK_same in Hx2.
        apply in_app_iff in Hx2 as [Hx2|[<-|[]]]; [exact (E p1 p x H1 Hp NE Hx1 Hx2) | exact (Fr p1 H1 Hx1)].
      + rewrite updK_other in Hx1 by exact N1. rewrite updK_other in Hx2 by exact N2.
        exact (E p1 p2 x H1 H2 NE Hx1 Hx2).
  Qed.

  Lemma LinkRep_remove t t' K p c l1 l2 :
    remove_branch t p c = Ok t' -> LinkRep t K -> 0 <= p <= N -> K p = l1 ++ c :: l2 ->
    LinkRep t' (updK K p (l1 ++ l2)).
  Proof.
    intros H [A B C D E] Hp EK.
    pose proof (A p Hp) as Ap. pose proof (B p Hp) as Bp. rewrite EK in Ap, Bp.
    destruct (remove_branch_chain t p c t' l1 l2 H Ap Bp) as [C1 C2].
    destruct (remove_branch_spec _ _ _ _ H) as (lsib & rsib & n & _ & _ & GN & _ & _ & _ & _ & NCc).
    assert (Sub : forall x, In x (l1 ++ l2) -> In x (K p)).
    { intros x Hx. rewrite EK. apply in_app_iff in Hx as [Hx|Hx]; apply in_app_iff; [left | right; right]; exact Hx. }
    constructor.
    - intros p' Hp'. destruct (Z.eq_dec p' p) as [->|NE].
      + rewrite updK_same. exact C1.
      + rewrite updK_other by exact NE. apply C2; auto.
        intros x Hx. rewrite <- EK in Hx. apply (E p p' x); auto.
    - intros p' Hp'. destruct (Z.eq_dec p' p) as [->|NE].
      + rewrite updK_same. eapply NoDup_remove_1; eauto.
      + rewrite updK_other by exact NE. auto.
    - intros p' Hp'. rewrite NCc. destruct (Z.eq_dec p' p) as [->|NE].
      + rewrite updK_same, Z.eqb_refl. f_equal.
        rewrite (C p Hp), EK in GN. inversion GN. unfold zlen. rewrite !app_length. simpl. lia.
      + rewrite updK_other by exact NE. replace (p' =? p) with false by (symmetry; apply Z.eqb_neq; exact NE). auto.
    - intros p' x Hp' Hx. destruct (Z.eq_dec p' p) as [->|NE].
      + rewrite updK_same in Hx. eauto.
      + rewrite updK_other in Hx by exact NE. eauto.
    - intros p1 p2 x H1 H2 NE Hx1 Hx2.
      destruct (Z.eq_dec p1 p) as [->|N1]; destruct (Z.eq_dec p2 p) as [->|N2]; try congruence.
      + rewrite updK_same in Hx1. rewrite updK_other in Hx2 by exact N2. exact (E p p2 x Hp H2 NE (Sub _ Hx1) Hx2).
      + rewrite updK_other in Hx1 by exact N1. rewrite updK_same in Hx2. exact (E p1 p x H1 Hp NE Hx1 (Sub _ Hx2)).
      + rewrite updK_other in Hx1 by exact N1. rewrite updK_other in Hx2 by exact N2.
        exact (E p1 p2 x H1 H2 NE Hx1 Hx2).
  Qed.
  Lemma LinkRep_ext t K K' : (forall p, K' p = K p) -> LinkRep t K -> LinkRep t K'.
  Proof.
    intros EQ [A B C D E]. constructor; intros; rewrite ?EQ in *; eauto.
  Qed.
End Rep.

(* ------------------------------------------------------------------------------------ *)
(* the propagation loop along the ancestor path                                          *)
(* ------------------------------------------------------------------------------------ *)

Lemma last_In {A} (l : list A) d : l <> [] -> In (last l d) l.
Proof.
  induction l as [|x r IH]; intros NE; [congruence|].
  destruct r as [|y r']; [left; reflexivity|]. right. apply IH. discriminate.
Qed.

Lemma path_last_null P : forall u l, path P u l -> l <> [] -> get P (last l NULL) = Ok NULL.
Proof.
  induction 1 as [|u p l NU G Pl IH]; intros NE; [congruence|].
  destruct l as [|y r].
  - inversion Pl; subst. simpl. exact G.
  - change (last (u :: y :: r) NULL) with (last (y :: r) NULL). apply IH. discriminate.
Qed.

Lemma path_inner_has_parent P : forall u l, path P u l ->
  forall x, In x l -> x <> last l NULL -> get P x <> Ok NULL.
Proof.
  induction 1 as [|u p l NU G Pl IH]; intros x Hx NL; [destruct Hx|].
  destruct Hx as [<-|Hx].
  - intros X. rewrite X in G. inversion G; subst p. inversion Pl; subst; [|congruence].
    simpl in NL. congruence.
  - destruct l as [|y r]; [destruct Hx|].
    apply IH; [exact Hx|]. exact NL.
Qed.

Lemma propagate_path thr sign c : forall l fuel t u pe0 wr0 t' pe' wr',
  path (t_parent t) u l -> NoDup l -> ~ In c l ->
  propagate fuel thr sign t c u pe0 wr0 = Ok (t', pe', wr') ->
  (l = [] -> pe' = pe0 /\ wr' = wr0) /\
  (l <> [] -> pe' = last l NULL /\ exists n, get (t_ns t) pe' = Ok n /\ wr' = (thr <=? n)) /\
  (l <> [] -> exists ac, get (t_ns t) c = Ok ac /\
     forall x, (In x l -> exists a, get (t_ns t) x = Ok a /\ get (t_ns t') x = Ok (a + sign * ac)) /\
               (~ In x l -> get (t_ns t') x = get (t_ns t) x)) /\
  (l = [] -> t_ns t' = t_ns t).
Proof.
  induction l as [|u0 l IH]; intros fuel t u pe0 wr0 t' pe' wr' Pl ND NC H.
  - inversion Pl; subst. destruct fuel; simpl in H; inversion H; subst; repeat split; try congruence.
  - inversion Pl as [|u1 p l1 NU G Pl' E1 E2]; subst.
    destruct fuel; simpl in H; replace (u0 =? NULL) with false in H by (symmetry; apply Z.eqb_neq; exact NU);
      [discriminate|].
    bind_inv H. bind_inv H. bind_inv H. bind_inv H. bind_inv H. bind_inv H. bind_inv H.
    rename a into nsu, a0 into ac.
    unfold s_ns in E1. bind_inv E1. inversion E1; subst a1. clear E1.
    unfold s_nt in E4. bind_inv E4. inversion E4; subst a4. clear E4. simpl in *.
    assert (a5 = p) by congruence. subst a5.
    inversion ND as [|? ? ND1 ND2]; subst.
    assert (UC : u0 <> c) by (intros X; apply NC; left; exact X).
    assert (NC' : ~ In c l) by (intros X; apply NC; right; exact X).
    destruct (IH fuel (w_nt (w_ns t a) a0) p u0 (thr <=? nsu) t' pe' wr' Pl' ND2 NC' H) as (I1 & I2 & I3 & I4). simpl in *.
    split; [discriminate|]. split; [|split; [|discriminate]].
    + intros _. destruct l as [|y r].
      * destruct (I1 eq_refl) as [-> ->]. simpl. split; [reflexivity|]. exists nsu. auto.
      * destruct (I2 ltac:(discriminate)) as (-> & n & Gn & ->).
        split; [reflexivity|]. exists n. split; [|reflexivity].
        rewrite (get_set_other _ _ _ _ _ E6) in Gn; [exact Gn|].
        intros X. apply ND1. rewrite X. apply last_In. discriminate.
    + intros _. exists ac. split; [first [exact E0 | reflexivity]|]. intros x. split.
      * intros [<-|Hx].
        -- exists nsu. split; [first [exact E | reflexivity]|]. destruct l as [|y r].
           ++ rewrite (I4 eq_refl). eapply get_set_same; eauto.
           ++ destruct (I3 ltac:(discriminate)) as (ac' & _ & F). destruct (F u0) as [_ F2].
              rewrite (F2 ND1). eapply get_set_same; eauto.
        -- destruct l as [|y r]; [destruct Hx|].
           destruct (I3 ltac:(discriminate)) as (ac' & Gc' & F). destruct (F x) as [F1 _].
           destruct (F1 Hx) as (ax & Ga & Ga').
           assert (XU : x <> u0) by (intros X; subst; contradiction).
           rewrite (get_set_other _ _ _ x _ E6) in Ga by auto.
           rewrite (get_set_other _ _ _ c _ E6) in Gc' by auto.
           assert (ac' = ac) by congruence. subst ac'.
           exists ax. auto.
      * intros NI. assert (XU : x <> u0) by (intros X; apply NI; left; auto).
        assert (NI' : ~ In x l) by (intros X; apply NI; right; exact X).
        destruct l as [|y r].
        -- rewrite (I4 eq_refl). eapply get_set_other; eauto.
        -- destruct (I3 ltac:(discriminate)) as (ac' & _ & F). destruct (F x) as [_ F2].
           rewrite (F2 NI'). eapply get_set_other; eauto.
Qed.

(* ------------------------------------------------------------------------------------ *)
(* case analysis of the conditional root updates                                          *)
(* ------------------------------------------------------------------------------------ *)

Lemma cond_remove_root_end_cases V thr t wr pe t3 :
  cond_remove_root_end V thr t wr pe = Ok t3 ->
  (wr = true /\ exists n, get (t_ns t) pe = Ok n /\ n < thr /\ remove_branch t V pe = Ok t3) \/
  (t3 = t /\ (wr = false \/ exists n, get (t_ns t) pe = Ok n /\ thr <= n)).
Proof.
  unfold cond_remove_root_end. intros H. destruct wr; [|inversion H; right; auto].
  bind_inv H. destruct (thr <=? a) eqn:E1; simpl in H.
  - apply Z.leb_le in E1. inversion H; subst. right. split; [reflexivity|]. right. eauto.
  - apply Z.leb_gt in E1. left. split; [reflexivity|]. exists a. auto.
Qed.

Lemma cond_insert_root_c_cases V thr t c t4 :
  cond_insert_root_c V thr t c = Ok t4 ->
  exists n, get (t_ns t) c = Ok n /\ ((thr <= n /\ insert_root V t c = Ok t4) \/ (n < thr /\ t4 = t)).
Proof.
  unfold cond_insert_root_c. intros H. bind_inv H. exists a. split; [reflexivity|].
  destruct (thr <=? a) eqn:E1.
  - apply Z.leb_le in E1. left; auto.
  - apply Z.leb_gt in E1. inversion H. right; auto.
Qed.

Lemma cond_remove_root_c_cases V thr t c t2 :
  cond_remove_root_c V thr t c = Ok t2 ->
  exists n, get (t_ns t) c = Ok n /\ ((thr <= n /\ remove_branch t V c = Ok t2) \/ (n < thr /\ t2 = t)).
Proof.
  unfold cond_remove_root_c. intros H. bind_inv H. exists a. split; [reflexivity|].
  destruct (thr <=? a) eqn:E1.
  - apply Z.leb_le in E1. left; auto.
  - apply Z.leb_gt in E1. inversion H. right; auto.
Qed.

Lemma cond_insert_root_end_cases V thr t wr pe t3 :
  cond_insert_root_end V thr t wr pe = Ok t3 ->
  exists n, get (t_ns t) pe = Ok n /\
    ((thr <= n /\ wr = false /\ insert_root V t pe = Ok t3) \/ ((n < thr \/ wr = true) /\ t3 = t)).
Proof.
  unfold cond_insert_root_end. intros H. bind_inv H. exists a. split; [reflexivity|].
  destruct (thr <=? a) eqn:E1; destruct wr; simpl in H.
  - inversion H. right. auto.
  - apply Z.leb_le in E1. left. auto.
  - apply Z.leb_gt in E1. inversion H. right. auto.
  - apply Z.leb_gt in E1. inversion H. right. auto.
Qed.

Lemma insert_root_split V t r t' : insert_root V t r = Ok t' ->
  exists t1, insert_branch t V r = Ok t1 /\ same_links t1 t' /\ t_ns t' = t_ns t.
Proof.
  unfold insert_root. intros H. bind_inv H. exists a. split; [reflexivity|].
  pose proof (insert_branch_cnt _ _ _ _ E) as [X _]. pose proof (s_parent_cnt _ _ _ _ H) as [Y _].
  split; [eapply s_parent_l; eauto | congruence].
Qed.

(* paths in a forest whose parents are strictly older *)
Lemma path_facts N tm P : Mono N tm P -> forall u l, path P u l -> 0 <= u < N ->
  NoDup l /\ (forall a, In a l -> 0 <= a < N /\ tm u <= tm a) /\ l <> [].
Proof.
  intros MO. induction 1 as [|u p l NU G Pl IH]; intros Hu; [unfold NULL in Hu; lia|].
  split; [|split; [|discriminate]].
  - constructor.
    + destruct (Z.eq_dec p NULL) as [->|NP]; [inversion Pl; subst; [intros []|congruence]|].
      destruct (MO u p G NP) as (_ & Hp & Ht). destruct (IH Hp) as (_ & R & _).
      intros X. destruct (R u X). lia.
    + destruct (Z.eq_dec p NULL) as [->|NP]; [inversion Pl; subst; [constructor|congruence]|].
      destruct (MO u p G NP) as (_ & Hp & _). apply IH. exact Hp.
  - intros a [<-|Ha]; [split; [exact Hu | lia]|].
    destruct (Z.eq_dec p NULL) as [->|NP]; [inversion Pl; subst; [destruct Ha|congruence]|].
    destruct (MO u p G NP) as (_ & Hp & Ht). destruct (IH Hp) as (_ & R & _).
    destruct (R a Ha). split; [assumption | lia].
Qed.

Section RepInv.
  Variables (L : Z) (ns : list node) (es : list edge) (Ins Rem : list Z) (q : tseq).
  Hypothesis HV : valid_edges L ns es.
  Hypothesis HI : index_sorted es Ins Rem.
  Hypothesis HQ : mk_tseq L ns es Ins Rem = Ok q.
  Variable o : topts.
  Hypothesis Hthr : 1 <= o_thr o.

  Let N := zlen ns.
  Let thr := o_thr o.

  Definition Own (t : tree) (K : Z -> list Z) : Prop :=
    (forall p c, 0 <= p < N -> (In c (K p) <-> 0 <= c < N /\ get (t_parent t) c = Ok p)) /\
    (forall c, In c (K N) <->
       0 <= c < N /\ get (t_parent t) c = Ok NULL /\ exists n, get (t_ns t) c = Ok n /\ thr <= n).

  Definition Jrep (t : tree) : Prop :=
    Jcnt ns q o t /\ exists K, LinkRep N t K /\ Own t K.

  Lemma in_remove_mid {A} (l1 l2 : list A) c x : NoDup (l1 ++ c :: l2) ->
    (In x (l1 ++ l2) <-> In x (l1 ++ c :: l2) /\ x <> c).
  Proof.
    intros ND. pose proof (NoDup_remove_2 _ _ _ ND) as NI. split.
    - intros H. split.
      + apply in_app_iff in H as [H|H]; apply in_app_iff; [left | right; right]; exact H.
      + intros ->. contradiction.
    - intros [H NE]. apply in_app_iff in H as [H|[H|H]]; apply in_app_iff; [left; exact H | congruence | right; exact H].
  Qed.

  Lemma qN' : q_N q = N.
  Proof. exact (qN L ns es Ins Rem q HQ). Qed.

  Lemma Jrep_remove t e t' : Jrep t -> In e es ->
    get (t_parent t) (echild e) = Ok (eparent e) ->
    remove_edge q o t (eparent e) (echild e) = Ok t' -> Jrep t'.
  Proof.
    intros [JC (K & LR & [O1 O2])] He GP H.
    pose proof (Jcnt_remove L ns es q HV o t e t' JC He GP H) as JC'.
    split; [exact JC'|].
    destruct JC as (L0 & L1 & L2 & GV & MO & LE1 & LE2 & NN1 & NN2).
    destruct (edge_tm L ns es HV e He) as (Hc & Hp & Ht). fold N in Hc, Hp.
    set (p := eparent e) in *. set (c := echild e) in *.
    pose proof (remove_edge_par _ _ _ _ _ _ H) as SP.
    destruct (remove_edge_cnt _ _ _ _ _ _ H) as (_ & C1 & _).
    unfold remove_edge in H. rewrite qN' in H. fold thr in H.
    bind_inv H. rename a into t0. bind_inv H. rename a into t1.
    bind_inv H. destruct a as [[t2 pe] wr]. bind_inv H. rename a into t3. bind_inv H. rename a into t4.
    (* the child list of p loses c *)
    assert (CK : In c (K p)) by (apply O1; auto).
    destruct (in_split _ _ CK) as (l1 & l2 & EK).
    pose proof (LinkRep_remove N t t0 K p c l1 l2 E LR ltac:(lia) EK) as LR0.
    set (K0 := updK K p (l1 ++ l2)) in *.
    pose proof (remove_branch_par _ _ _ _ E) as P0.
    pose proof (remove_branch_cnt _ _ _ _ E) as [N0 _].
    assert (SL1 : same_links t0 t1) by (apply s_edge_l in E0; exact E0).
    pose proof (s_edge_par _ _ _ _ E0) as P1. simpl in P1.
    pose proof (s_edge_cnt _ _ _ _ E0) as [N1 _]. simpl in N1.
    pose proof (LinkRep_same N _ _ _ SL1 LR0) as LR1.
    (* the ancestor path of p after the removal *)
    assert (MO0 : Mono N (tmf ns) (t_parent t0)) by (eapply Mono_set_null; eauto).
    assert (ZL0 : zlen (t_parent t0) = N + 1).
    { unfold zlen. rewrite (set_length _ _ _ _ P0), L0. lia. }
    destruct (path_exists N (tmf ns) (t_parent t0) ZL0 MO0 p ltac:(lia)) as [l Pl].
    destruct (path_facts N (tmf ns) (t_parent t0) MO0 p l Pl Hp) as (NDl & Rl & NEl).
    assert (NCl : ~ In c l) by (intros X; destruct (Rl c X); lia).
    rewrite <- P1 in Pl.
    destruct (propagate_path thr (-1) c l _ t1 p NULL false t2 pe wr Pl NDl NCl E1) as (_ & PE & NS & _).
    destruct (PE NEl) as (EPE & npe & Gnpe & EWR). destruct (NS NEl) as (ac & Gac & NSx).
    pose proof (propagate_l _ _ _ _ _ _ _ _ _ _ _ E1) as SL2.
    pose proof (propagate_par _ _ _ _ _ _ _ _ _ _ _ E1) as (P2 & _ & _).
    pose proof (LinkRep_same N _ _ _ SL2 LR1) as LR2.
    assert (PEin : In pe l) by (rewrite EPE; apply last_In; exact NEl).
    destruct (Rl pe PEin) as [PEr _].
    assert (PEC : pe <> c) by (intros X; rewrite X in PEin; contradiction).
    assert (PEnull : get (t_parent t0) pe = Ok NULL).
    { rewrite EPE. rewrite P1 in Pl. apply (path_last_null _ _ _ Pl NEl). }
    assert (PEnull' : get (t_parent t) pe = Ok NULL).
    { rewrite <- PEnull. symmetry. eapply get_set_other; eauto. }
    assert (NS1 : t_ns t1 = t_ns t) by congruence.
    rewrite NS1 in *.
    assert (ACnn : 0 <= ac).
    { apply (nonneg_get (t_ns t) c); [exact NN1 | first [exact Gac | rewrite <- NS1; exact Gac]]. }
    (* root removal of path_end *)
    assert (exists K3, LinkRep N t3 K3 /\ t_parent t3 = t_parent t0 /\ t_ns t3 = t_ns t2 /\
              (forall p', p' <> N -> K3 p' = K0 p') /\
              (forall x, In x (K3 N) <-> In x (K N) /\
                 ~ (x = pe /\ wr = true /\ exists n, get (t_ns t2) pe = Ok n /\ n < thr)))
      as (K3 & LR3 & P3 & N3 & K3o & K3n).
    { destruct (cond_remove_root_end_cases _ _ _ _ _ _ E2) as [(W & n & Gn & Ln & RB)|(-> & W)].
      - assert (PK : In pe (K0 N)).
        { unfold K0. rewrite updK_other by lia. apply O2. split; [exact PEr|]. split; [exact PEnull'|].
          exists npe. split; [exact Gnpe|]. subst wr. apply Z.leb_le. exact W. }
        destruct (in_split _ _ PK) as (m1 & m2 & EM).
        pose proof (LinkRep_remove N t2 t3 K0 N pe m1 m2 RB LR2 ltac:(unfold N, zlen; lia) EM) as LR3.
        exists (updK K0 N (m1 ++ m2)). split; [exact LR3|].
        pose proof (remove_branch_par _ _ _ _ RB) as P3.
        pose proof (remove_branch_cnt _ _ _ _ RB) as [N3 _].
        split; [|split; [exact N3|split]].
        + transitivity (t_parent t2); [|congruence]. eapply set_same; [|exact P3]. rewrite P2, P1. exact PEnull.
        + intros p' NE. apply updK_other. exact NE.
        + intros x. rewrite updK_same.
          assert (NDm : NoDup (m1 ++ pe :: m2)) by (rewrite <- EM; apply (lr_nodup N _ _ LR2); unfold N, zlen; lia).
          rewrite (in_remove_mid m1 m2 pe x NDm). rewrite <- EM. unfold K0. rewrite updK_other by lia.
          split.
          * intros [A B]. split; [exact A|]. intros (X & _). contradiction.
          * intros [A B]. split; [exact A|]. intros X. apply B. split; [exact X|]. split; [exact W|]. eauto.
      - exists K0. split; [exact LR2|]. split; [congruence|]. split; [reflexivity|]. split; [reflexivity|].
        intros x. unfold K0. rewrite updK_other by lia. split.
        + intros A. split; [exact A|]. intros (_ & W1 & n & Gn & Ln).
          destruct W as [W|(n' & Gn' & Ln')]; [congruence|]. assert (n = n') by congruence. lia.
        + intros [A _]. exact A. }
    (* root insertion of c *)
    destruct (cond_insert_root_c_cases _ _ _ _ _ E3) as (nc & Gnc & Cc).
    assert (NCc : get (t_ns t2) c = Ok ac).
    { destruct (NSx c) as [_ X]. rewrite (X NCl). exact Gac. }
    rewrite N3, NCc in Gnc. inversion Gnc; subst nc. clear Gnc.
    assert (Fresh : forall p', 0 <= p' <= N -> ~ In c (K3 p')).
    { intros p' Hp' X. destruct (Z.eq_dec p' N) as [->|NE].
      - apply K3n in X as [X _]. apply O2 in X as (_ & X & _). rewrite GP in X. inversion X as [X']. unfold NULL in X'. lia.
      - rewrite (K3o p' NE) in X. unfold K0, updK in X. destruct (p' =? p) eqn:EP.
        + pose proof (lr_nodup N _ _ LR p ltac:(lia)) as NDp. rewrite EK in NDp.
          apply (in_remove_mid l1 l2 c c NDp) in X. destruct X; congruence.
        + apply Z.eqb_neq in EP. exact (lr_disj N _ _ LR p p' c ltac:(lia) Hp' ltac:(congruence) CK X). }
    assert (exists K4, LinkRep N t4 K4 /\ t_parent t4 = t_parent t0 /\ t_ns t4 = t_ns t2 /\
              (forall p', p' <> N -> K4 p' = K0 p') /\
              (forall x, In x (K4 N) <-> In x (K3 N) \/ (x = c /\ thr <= ac)))
      as (K4 & LR4 & P4 & N4 & K4o & K4n).
    { destruct Cc as [(Tc & IR)|(Tc & ->)].
      - destruct (insert_root_split _ _ _ _ IR) as (t3' & IB & SL & NSs).
        pose proof (LinkRep_insert N t3 t3' K3 N c IB LR3 ltac:(unfold N, zlen; lia) Hc Fresh) as LRi.
        exists (updK K3 N (K3 N ++ [c])). split; [eapply LinkRep_same; eauto|].
        split; [|split; [congruence|split]].
        + rewrite <- P3. eapply insert_root_par_same; eauto. rewrite P3. eapply get_set_same; eauto.
        + intros p' NE. rewrite updK_other by exact NE. auto.
        + intros x. rewrite updK_same, in_app_iff. simpl. split.
          * intros [A|[A|[]]]; [left; exact A | right; split; [congruence | exact Tc]].
          * intros [A|[A _]]; [left; exact A | right; left; congruence].
      - exists K3. split; [exact LR3|]. split; [exact P3|]. split; [exact N3|]. split; [exact K3o|].
        intros x. split; [intros A; left; exact A | intros [A|[_ A]]; [exact A | lia]]. }
    pose proof (cond_lists_l _ _ _ _ _ H) as SL5.
    pose proof (cond_lists_cnt _ _ _ _ _ H) as [N5 _].
    exists K4. split; [eapply LinkRep_same; eauto|].
    assert (PF : t_parent t' = t_parent t0) by (rewrite SP in P0; inversion P0; reflexivity).
    assert (NF : t_ns t' = t_ns t2) by congruence.
    split.
    - (* lists of real nodes *)
      intros p' x Hp'. rewrite (K4o p' ltac:(lia)). rewrite PF. unfold K0, updK.
      rewrite (get_set _ _ _ x _ P0).
      destruct (p' =? p) eqn:EP.
      + apply Z.eqb_eq in EP. subst p'.
        pose proof (lr_nodup N _ _ LR p ltac:(lia)) as NDp. rewrite EK in NDp.
        rewrite (in_remove_mid l1 l2 c x NDp), <- EK, (O1 p x Hp').
        destruct (x =? c) eqn:EX.
        * apply Z.eqb_eq in EX. subst x. split; [intros [_ X]; congruence | intros [_ X]; inversion X; unfold NULL in *; lia].
        * apply Z.eqb_neq in EX. tauto.
      + apply Z.eqb_neq in EP. rewrite (O1 p' x Hp').
        destruct (x =? c) eqn:EX.
        * apply Z.eqb_eq in EX. subst x. rewrite GP.
          split; [intros [_ X]; inversion X; congruence | intros [_ X]; inversion X; unfold NULL in *; lia].
        * tauto.
    - (* roots *)
      intros x. rewrite K4n, K3n, O2, PF, NF. rewrite (get_set _ _ _ x _ P0).
      destruct (Z.eq_dec x c) as [->|XC].
      + rewrite Z.eqb_refl. rewrite GP. split.
        * intros [[(_ & X & _) _]|[_ T]]; [inversion X; unfold NULL in *; lia|].
          split; [exact Hc|]. split; [reflexivity|]. exists ac. auto.
        * intros (_ & _ & n & Gn & Tn). right. split; [reflexivity|]. rewrite NCc in Gn. inversion Gn. lia.
      + replace (x =? c) with false by (symmetry; apply Z.eqb_neq; exact XC).
        destruct (NSx x) as [NSin NSout].
        destruct (in_dec Z.eq_dec x l) as [Xin|Xout].
        * destruct (NSin Xin) as (a & Ga & Ga').
          destruct (Z.eq_dec x pe) as [->|XP].
          -- assert (a = npe) by congruence. subst a. split.
             ++ intros [[(_ & _ & n & Gn & Tn) NR]|[X _]]; [|congruence].
                split; [exact PEr|]. split; [exact PEnull'|]. exists (npe + -1 * ac). split; [exact Ga'|].
                destruct (Z_lt_le_dec (npe + -1 * ac) thr) as [Lt|Ge]; [|exact Ge].
                exfalso. apply NR. split; [reflexivity|]. split; [|eauto].
                rewrite EWR. apply Z.leb_le. assert (n = npe) by congruence. lia.
             ++ intros (_ & _ & n & Gn & Tn). left.
                assert (En : n = npe + -1 * ac) by congruence. split.
                ** split; [exact PEr|]. split; [exact PEnull'|]. exists npe. split; [exact Ga|]. lia.
                ** intros (_ & _ & n' & Gn' & Ln'). assert (n' = npe + -1 * ac) by congruence. lia.
          -- (* an inner node of the path has a parent *)
             assert (NP : get (t_parent t) x <> Ok NULL).
             { rewrite P1 in Pl. rewrite <- (get_set_other _ _ _ x _ P0) by auto.
               apply (path_inner_has_parent _ _ _ Pl x Xin). rewrite <- EPE. exact XP. }
             split.
             ++ intros [[(_ & X & _) _]|[X _]]; congruence.
             ++ intros (_ & X & _). congruence.
        * rewrite (NSout Xout). split.
          -- intros [[A _]|[X _]]; [exact A | congruence].
          -- intros A. left. split; [exact A|]. intros (X & _). subst x. contradiction.
  Qed.

  Lemma Jrep_insert t e i t' : Jrep t -> In e es ->
    get (t_parent t) (echild e) = Ok NULL ->
    insert_edge q o t (eparent e) (echild e) i = Ok t' -> Jrep t'.
  Proof.
    intros [JC (K & LR & [O1 O2])] He GP H.
    pose proof (Jcnt_insert L ns es q HV o t e i t' JC He GP H) as JC'.
    split; [exact JC'|].
    destruct JC as (L0 & L1 & L2 & GV & MO & LE1 & LE2 & NN1 & NN2).
    destruct (edge_tm L ns es HV e He) as (Hc & Hp & Ht). fold N in Hc, Hp.
    set (p := eparent e) in *. set (c := echild e) in *.
    pose proof (insert_edge_par _ _ _ _ _ _ _ H) as SP.
    unfold insert_edge in H. rewrite qN' in H. fold thr in H.
    bind_inv H. destruct a as [[t1 pe] wr]. bind_inv H. rename a into t2. bind_inv H. rename a into t3.
    bind_inv H. rename a into t4. bind_inv H. rename a into t5.
    (* the ancestor path of p *)
    assert (ZL0 : zlen (t_parent t) = N + 1) by (unfold zlen; rewrite L0; lia).
    destruct (path_exists N (tmf ns) (t_parent t) ZL0 MO p ltac:(lia)) as [l Pl].
    destruct (path_facts N (tmf ns) (t_parent t) MO p l Pl Hp) as (NDl & Rl & NEl).
    assert (NCl : ~ In c l) by (intros X; destruct (Rl c X); lia).
    destruct (propagate_path thr 1 c l _ t p NULL false t1 pe wr Pl NDl NCl E) as (_ & PE & NS & _).
    destruct (PE NEl) as (EPE & npe & Gnpe & EWR). destruct (NS NEl) as (ac & Gac & NSx).
    pose proof (propagate_l _ _ _ _ _ _ _ _ _ _ _ E) as SL1.
    pose proof (propagate_par _ _ _ _ _ _ _ _ _ _ _ E) as (P1 & _ & _).
    pose proof (LinkRep_same N _ _ _ SL1 LR) as LR1.
    assert (PEin : In pe l) by (rewrite EPE; apply last_In; exact NEl).
    destruct (Rl pe PEin) as [PEr _].
    assert (PEC : pe <> c) by (intros X; rewrite X in PEin; contradiction).
    assert (PEnull : get (t_parent t) pe = Ok NULL).
    { rewrite EPE. apply (path_last_null _ _ _ Pl NEl). }
    assert (ACnn : 0 <= ac) by (apply (nonneg_get (t_ns t) c); [exact NN1 | exact Gac]).
    assert (NCc : get (t_ns t1) c = Ok ac).
    { destruct (NSx c) as [_ X]. rewrite (X NCl). exact Gac. }
    destruct (NSx pe) as [NSpe _]. destruct (NSpe PEin) as (npe' & Gnpe' & Gpe1).
    assert (npe' = npe) by congruence. subst npe'.
    (* root removal of c *)
    assert (exists K2, LinkRep N t2 K2 /\ t_parent t2 = t_parent t /\ t_ns t2 = t_ns t1 /\
              (forall p', p' <> N -> K2 p' = K p') /\
              (forall x, In x (K2 N) <-> In x (K N) /\ ~ (x = c /\ thr <= ac)))
      as (K2 & LR2 & P2 & N2 & K2o & K2n).
    { destruct (cond_remove_root_c_cases _ _ _ _ _ E0) as (n & Gn & Cn).
      rewrite NCc in Gn. inversion Gn; subst n. clear Gn.
      destruct Cn as [(Tc & RB)|(Tc & ->)].
      - assert (CK : In c (K N)).
        { apply O2. split; [exact Hc|]. split; [exact GP|]. exists ac. auto. }
        destruct (in_split _ _ CK) as (m1 & m2 & EM).
        pose proof (LinkRep_remove N t1 t2 K N c m1 m2 RB LR1 ltac:(unfold N, zlen; lia) EM) as LR2.
        exists (updK K N (m1 ++ m2)). split; [exact LR2|].
        pose proof (remove_branch_par _ _ _ _ RB) as P2.
        pose proof (remove_branch_cnt _ _ _ _ RB) as [N2 _].
        split; [|split; [exact N2|split]].
        + transitivity (t_parent t1); [|exact P1]. eapply set_same; [|exact P2]. rewrite P1. exact GP.
        + intros p' NE. apply updK_other. exact NE.
        + intros x. rewrite updK_same.
          assert (NDm : NoDup (m1 ++ c :: m2)) by (rewrite <- EM; apply (lr_nodup N _ _ LR); unfold N, zlen; lia).
          rewrite (in_remove_mid m1 m2 c x NDm). rewrite <- EM. split.
          * intros [A B]. split; [exact A|]. intros (X & _). contradiction.
          * intros [A B]. split; [exact A|]. intros X. apply B. split; [exact X | exact Tc].
      - exists K. split; [exact LR1|]. split; [exact P1|]. split; [reflexivity|]. split; [reflexivity|].
        intros x. split; [intros A; split; [exact A | intros (_ & X); lia] | intros [A _]; exact A]. }
    (* root insertion of path_end *)
    destruct (cond_insert_root_end_cases _ _ _ _ _ _ E1) as (n & Gn & Cn).
    rewrite N2, Gpe1 in Gn. assert (En : n = npe + 1 * ac) by congruence. clear Gn.
    assert (PEfresh : wr = false -> forall p', 0 <= p' <= N -> ~ In pe (K2 p')).
    { intros W p' Hp' X. destruct (Z.eq_dec p' N) as [->|NE].
      - apply K2n in X as [X _]. apply O2 in X as (_ & _ & n' & Gn' & Tn').
        assert (n' = npe) by congruence. subst n'. rewrite EWR in W. apply Z.leb_gt in W. lia.
      - rewrite (K2o p' NE) in X. apply (O1 p' pe ltac:(lia)) in X as [_ X]. rewrite PEnull in X.
        inversion X. unfold NULL in *. lia. }
    assert (exists K3, LinkRep N t3 K3 /\ t_parent t3 = t_parent t /\ t_ns t3 = t_ns t1 /\
              (forall p', p' <> N -> K3 p' = K p') /\
              (forall x, In x (K3 N) <-> In x (K2 N) \/ (x = pe /\ thr <= n /\ wr = false)))
      as (K3 & LR3 & P3 & N3 & K3o & K3n).
    { destruct Cn as [(Tn & W & IR)|(Tn & ->)].
      - destruct (insert_root_split _ _ _ _ IR) as (t2' & IB & SL & NSs).
        pose proof (LinkRep_insert N t2 t2' K2 N pe IB LR2 ltac:(unfold N, zlen; lia) PEr (PEfresh W)) as LRi.
        exists (updK K2 N (K2 N ++ [pe])). split; [eapply LinkRep_same; eauto|].
        split; [|split; [congruence|split]].
        + rewrite <- P2. eapply insert_root_par_same; eauto. rewrite P2. exact PEnull.
        + intros p' NE. rewrite updK_other by exact NE. auto.
        + intros x. rewrite updK_same, in_app_iff. simpl. split.
          * intros [A|[A|[]]]; [left; exact A | right; auto].
          * intros [A|[A _]]; [left; exact A | right; left; congruence].
      - exists K2. split; [exact LR2|]. split; [exact P2|]. split; [exact N2|]. split; [exact K2o|].
        intros x. split; [intros A; left; exact A|].
        intros [A|(_ & T1 & W)]; [exact A|]. destruct Tn as [Tn|Tn]; [lia | congruence]. }
    (* c becomes the last child of p *)
    assert (Cfresh : forall p', 0 <= p' <= N -> ~ In c (K3 p')).
    { intros p' Hp' X. destruct (Z.eq_dec p' N) as [->|NE].
      - apply K3n in X as [X|(X & _)]; [|congruence].
        apply K2n in X as [X NX]. apply NX. split; [reflexivity|].
        apply O2 in X as (_ & _ & n' & Gn' & Tn'). assert (n' = ac) by congruence. lia.
      - rewrite (K3o p' NE) in X. apply (O1 p' c ltac:(lia)) in X as [_ X]. rewrite GP in X.
        inversion X. unfold NULL in *. lia. }
    pose proof (LinkRep_insert N t3 t4 K3 p c E2 LR3 ltac:(lia) Hc Cfresh) as LR4.
    pose proof (insert_branch_cnt _ _ _ _ E2) as [N4 _].
    assert (SL5 : same_links t4 t5) by (apply s_edge_l in E3; exact E3).
    pose proof (s_edge_cnt _ _ _ _ E3) as [N5 _]. simpl in N5.
    pose proof (cond_lists_l _ _ _ _ _ H) as SL6.
    pose proof (cond_lists_cnt _ _ _ _ _ H) as [N6 _].
    exists (updK K3 p (K3 p ++ [c])). split.
    { eapply LinkRep_same; [exact SL6|]. eapply LinkRep_same; [exact SL5 | exact LR4]. }
    assert (NF : t_ns t' = t_ns t1) by congruence.
    split.
    - intros p' x Hp'. rewrite (get_set _ _ _ x _ SP). unfold updK.
      destruct (p' =? p) eqn:EP.
      + apply Z.eqb_eq in EP. subst p'. rewrite in_app_iff, (K3o p ltac:(lia)), (O1 p x Hp'). simpl.
        destruct (x =? c) eqn:EX.
        * apply Z.eqb_eq in EX. subst x. split; [intros _; split; [exact Hc | reflexivity] | intros _; right; left; reflexivity].
        * apply Z.eqb_neq in EX. split; [intros [A|[A|[]]]; [exact A | congruence] | intros A; left; exact A].
      + apply Z.eqb_neq in EP. rewrite (K3o p' ltac:(lia)), (O1 p' x Hp').
        destruct (x =? c) eqn:EX.
        * apply Z.eqb_eq in EX. subst x. rewrite GP.
          split; [intros [_ X]; inversion X; unfold NULL in *; lia | intros [_ X]; inversion X; congruence].
        * tauto.
    - intros x. rewrite updK_other by lia. rewrite K3n, K2n, O2, NF. rewrite (get_set _ _ _ x _ SP).
      destruct (Z.eq_dec x c) as [->|XC].
      + rewrite Z.eqb_refl. split.
        * intros [[(_ & _ & n' & Gn' & Tn') NX]|(X & _)]; [|congruence].
          exfalso. apply NX. split; [reflexivity|]. assert (n' = ac) by congruence. lia.
        * intros (_ & X & _). inversion X. unfold NULL in *. lia.
      + replace (x =? c) with false by (symmetry; apply Z.eqb_neq; exact XC).
        destruct (NSx x) as [NSin NSout].
        destruct (in_dec Z.eq_dec x l) as [Xin|Xout].
        * destruct (NSin Xin) as (a & Ga & Ga').
          destruct (Z.eq_dec x pe) as [->|XP].
          -- assert (a = npe) by congruence. subst a. split.
             ++ intros [[(_ & _ & n' & Gn' & Tn') _]|(_ & T1 & _)].
                ** split; [exact PEr|]. split; [exact PEnull|]. exists (npe + 1 * ac). split; [exact Ga'|].
                   assert (n' = npe) by congruence. lia.
                ** split; [exact PEr|]. split; [exact PEnull|]. exists (npe + 1 * ac). split; [exact Ga'|]. lia.
             ++ intros (_ & _ & n' & Gn' & Tn'). assert (n' = npe + 1 * ac) by congruence.
                destruct wr eqn:W.
                ** left. split; [|intros (X & _); congruence].
                   split; [exact PEr|]. split; [exact PEnull|]. exists npe. split; [exact Ga|].
                   symmetry in EWR. apply Z.leb_le in EWR. exact EWR.
                ** right. split; [reflexivity|]. split; [lia | reflexivity].
          -- assert (NP : get (t_parent t) x <> Ok NULL).
             { apply (path_inner_has_parent _ _ _ Pl x Xin). rewrite <- EPE. exact XP. }
             split.
             ++ intros [[(_ & X & _) _]|(X & _)]; congruence.
             ++ intros (_ & X & _). congruence.
        * rewrite (NSout Xout). split.
          -- intros [[A _]|(X & _)]; [exact A|]. subst x. contradiction.
          -- intros A. left. split; [exact A|]. intros (X & _). congruence.
  Qed.

  (* ---- the initial state ---- *)
  Lemma samples_from_spec : forall l i s, In s (samples_from l i) -> i <= s < i + zlen l.
  Proof.
    induction l as [|n r IH]; intros i s H; simpl in H; [destruct H|].
    unfold zlen in *. simpl length. destruct (nsample n).
    - destruct H as [<-|H]; [lia|]. apply IH in H. lia.
    - apply IH in H. lia.
  Qed.

  Lemma samples_from_nodup : forall l i, NoDup (samples_from l i).
  Proof.
    induction l as [|n r IH]; intros i; simpl; [constructor|].
    destruct (nsample n); [|apply IH]. constructor; [|apply IH].
    intros H. apply samples_from_spec in H. lia.
  Qed.

  Lemma qsamples : q_samples q = samples_from ns 0.
  Proof.
    destruct (mk_tseq_inv L ns es Ins Rem q HQ) as (steps & Oend & _).
    unfold mk_tseq in HQ. revert HQ. clear.
    destruct (resolve es Ins); cbn [bind]; try discriminate.
    destruct (resolve es Rem); cbn [bind]; try discriminate.
    destruct (sweep L a a0) as [[st oe]| | |]; cbn [bind]; try discriminate.
    intros H; inversion H; reflexivity.
  Qed.

  Lemma insert_roots_rep : forall ss t K t',
    LinkRep N t K -> (forall s, In s ss -> 0 <= s < N) -> NoDup ss ->
    (forall s p', In s ss -> 0 <= p' <= N -> ~ In s (K p')) ->
    insert_roots N t ss = Ok t' ->
    LinkRep N t' (updK K N (K N ++ ss)).
  Proof.
    induction ss as [|s r IH]; intros t K t' LR R ND Fr H; simpl in H.
    - inversion H; subst. eapply LinkRep_ext; [|exact LR].
      intros p. unfold updK. destruct (p =? N) eqn:E; [|reflexivity].
      apply Z.eqb_eq in E. subst p. apply app_nil_r.
    - bind_inv H. destruct (insert_root_split _ _ _ _ E) as (t1 & IB & SL & _).
      assert (NN : 0 <= N) by (unfold N, zlen; lia).
      pose proof (LinkRep_insert N t t1 K N s IB LR ltac:(lia) (R s (or_introl eq_refl))
                    (fun p' Hp' => Fr s p' (or_introl eq_refl) Hp')) as LR1.
      pose proof (LinkRep_same N _ _ _ SL LR1) as LRa.
      inversion ND as [|? ? ND1 ND2]; subst.
      specialize (IH a (updK K N (K N ++ [s])) t' LRa (fun x Hx => R x (or_intror Hx)) ND2).
      eapply LinkRep_ext; [|apply IH; [|exact H]].
      + intros p. unfold updK. destruct (p =? N) eqn:EPN; [|reflexivity].
        rewrite Z.eqb_refl. rewrite <- app_assoc. reflexivity.
      + intros s' p' Hs' Hp' X. unfold updK in X. destruct (p' =? N) eqn:EPN.
        * apply in_app_iff in X as [X|[X|[]]].
          -- apply Z.eqb_eq in EPN. subst p'. exact (Fr s' N (or_intror Hs') Hp' X).
          -- subst s'. contradiction.
        * exact (Fr s' p' (or_intror Hs') Hp' X).
  Qed.

  Lemma insert_roots_ns V : forall ss t t', insert_roots V t ss = Ok t' -> t_ns t' = t_ns t.
  Proof. intros ss t t' H. apply insert_roots_cnt in H as [X _]. exact X. Qed.

  Lemma existsb_eqb_In x l : existsb (Z.eqb x) l = true <-> In x l.
  Proof.
    rewrite existsb_exists. split.
    - intros (y & Hy & E). apply Z.eqb_eq in E. now subst.
    - intros H. exists x. split; [exact H | apply Z.eqb_refl].
  Qed.

  Lemma Jrep_clear t : tree_clear q o = Ok t -> Jrep t.
  Proof.
    intros H. pose proof (Jcnt_clear L ns es Ins Rem q HQ o t H) as JC. split; [exact JC|].
    pose proof (tree_clear_par _ _ _ H) as [PP _].
    assert (HN : 0 <= q_N q) by (rewrite qN'; unfold N, zlen; lia).
    destruct (tree_clear_cnt _ _ _ H HN) as (_ & _ & _ & _ & G). rewrite qN' in *.
    assert (SR : forall s, In s (q_samples q) -> 0 <= s < N).
    { intros s Hs. rewrite qsamples in Hs. apply samples_from_spec in Hs. fold N in Hs. lia. }
    unfold tree_clear in H. rewrite qN' in H.
    bind_inv H. bind_inv H. bind_inv H. bind_inv H. bind_inv H.
    set (nul := repeat NULL (Z.to_nat (N + 1))) in *.
    set (t0 := mkTree nul nul nul nul nul (repeat 0 (Z.to_nat (N + 1))) nul a0 a2 a3 a3
                 (if o_lists o then repeat NULL (length (q_samples q)) else []) 0 null_pos) in *.
    assert (GN : forall p, 0 <= p <= N -> get nul p = Ok NULL) by (intros p Hp; apply get_repeat; lia).
    assert (LR0 : LinkRep N t0 (fun _ => [])).
    { constructor; simpl; auto.
      - intros p Hp. unfold Chain. simpl. unfold nxt, prv. simpl. rewrite (GN p Hp). auto.
      - intros; constructor.
      - intros p Hp. apply get_repeat. lia.
      - intros p x _ []. }
    assert (PNULL : forall c, 0 <= c < N -> get (t_parent t) c = Ok NULL).
    { intros c Hc. rewrite PP. apply get_repeat. lia. }
    assert (O1g : forall K, (forall p, p <> N -> K p = []) ->
              forall p c, 0 <= p < N -> (In c (K p) <-> 0 <= c < N /\ get (t_parent t) c = Ok p)).
    { intros K HK p c Hp. rewrite (HK p ltac:(lia)). split; [intros []|].
      intros [Hc X]. rewrite (PNULL c Hc) in X. inversion X. unfold NULL in *. lia. }
    destruct ((o_thr o =? 1) && (0 <? zlen (q_samples q))) eqn:C.
    - apply andb_true_iff in C as [C1 C2]. apply Z.eqb_eq in C1.
      pose proof (insert_roots_rep (q_samples q) t0 (fun _ => []) t LR0 SR) as LRt.
      specialize (LRt ltac:(rewrite qsamples; apply samples_from_nodup) ltac:(intros ? ? ? ? []) H).
      exists (updK (fun _ => []) N ([] ++ q_samples q)). split; [exact LRt|]. split.
      + apply O1g. intros p NE. apply updK_other. exact NE.
      + intros c. rewrite updK_same. simpl. split.
        * intros Hc. pose proof (SR c Hc) as Rc. split; [exact Rc|]. split; [apply PNULL; exact Rc|].
          destruct (G c Rc) as [G1 _]. exists (ind (q_samples q) c). split; [exact G1|].
          unfold ind. rewrite (proj2 (existsb_eqb_In c _) Hc). unfold thr. lia.
        * intros (Rc & _ & n & Gn & Tn). destruct (G c Rc) as [G1 _].
          rewrite G1 in Gn. inversion Gn; subst n. unfold ind in Tn.
          destruct (existsb (Z.eqb c) (q_samples q)) eqn:EX; [apply existsb_eqb_In; exact EX|].
          unfold thr in Tn. lia.
    - inversion H; subst t. exists (fun _ => []). split; [exact LR0|]. split.
      + apply O1g. reflexivity.
      + intros c. split; [intros []|]. intros (Rc & _ & n & Gn & Tn).
        destruct (G c Rc) as [G1 _].
        assert (En : Ok n = Ok (ind (q_samples q) c)) by (etransitivity; [symmetry; exact Gn | exact G1]).
        inversion En; subst n.
        unfold ind in Tn. apply andb_false_iff in C as [C|C].
        * apply Z.eqb_neq in C. destruct (existsb (Z.eqb c) (q_samples q)); unfold thr in *; lia.
        * apply Z.ltb_ge in C. assert (q_samples q = []).
          { destruct (q_samples q); [reflexivity|]. unfold zlen in C. simpl in C. lia. }
          rewrite H0 in Tn. simpl in Tn. unfold thr in *. lia.
  Qed.

  Lemma Jrep_pos t p : Jrep t -> Jrep (w_pos t p).
  Proof.
    intros [JC (K & LR & OW)]. split; [apply Jcnt_pos; exact JC|].
    exists K. split; [|exact OW].
    eapply LinkRep_same; [|exact LR]. repeat split.
  Qed.

  Theorem rep_invariant : forall k t, tree_at_index q o k = Ok t -> Jrep t.
  Proof.
    apply (sweep_induction L ns es Ins Rem q HV HI HQ o Jrep).
    - exact Jrep_clear.
    - exact Jrep_remove.
    - exact Jrep_insert.
    - exact Jrep_pos.
  Qed.

  (* the model's own child-list walk returns the abstract list *)
  Lemma chain_seg t p : forall l prev fuel first,
    seg t p prev l -> (length l <= fuel)%nat -> nxt t p prev = Ok first ->
    chain fuel (t_rs t) first = Ok l.
  Proof.
    induction l as [|x r IH]; intros prev fuel first S HL HF; simpl in S.
    - destruct S as [S1 _]. assert (first = NULL) by congruence. subst first.
      destruct fuel; reflexivity.
    - destruct S as (S1 & S2 & S3 & S4). assert (first = x) by congruence. subst first.
      destruct fuel as [|f]; [simpl in HL; lia|]. simpl.
      replace (x =? NULL) with false by (symmetry; apply Z.eqb_neq; exact S3).
      assert (exists n, nxt t p x = Ok n) as [n Gn].
      { destruct r; simpl in S4; [destruct S4 as [X _] | destruct S4 as (X & _)]; eauto. }
      pose proof Gn as Gn'. unfold nxt in Gn'.
      replace (x =? NULL) with false in Gn' by (symmetry; apply Z.eqb_neq; exact S3).
      rewrite Gn'. cbn [bind]. rewrite (IH x f n S4 ltac:(simpl in HL; lia) Gn). reflexivity.
  Qed.

  Lemma children_of_rep t K p : LinkRep N t K -> length (t_parent t) = Z.to_nat (N + 1) ->
    0 <= p <= N -> children_of t p = Ok (K p).
  Proof.
    intros LR LP Hp. unfold children_of.
    pose proof (lr_chain N _ _ LR p Hp) as C. unfold Chain in C.
    assert (exists c0, nxt t p NULL = Ok c0) as [c0 G0].
    { destruct (K p); simpl in C; [destruct C as [X _] | destruct C as (X & _)]; eauto. }
    pose proof G0 as G0'. unfold nxt in G0'. simpl in G0'. rewrite G0'. cbn [bind].
    eapply chain_seg; eauto.
    (* |K p| <= N by pigeonhole *)
    assert (length (K p) <= length (zseq (Z.to_nat N)))%nat.
    { apply NoDup_incl_length; [apply (lr_nodup N _ _ LR p Hp)|].
      intros x Hx. apply In_zseq. pose proof (lr_range N _ _ LR p x Hp Hx). lia. }
    unfold zseq in H. rewrite map_length, seq_length in H. lia.
  Qed.

  Theorem links_consistent_lemma : forall k t, tree_at_index q o k = Ok t ->
    exists K : Z -> list Z,
      (forall p, 0 <= p <= N ->
         Chain t p (K p) /\ NoDup (K p) /\ get (t_nc t) p = Ok (zlen (K p)) /\
         children_of t p = Ok (K p)) /\
      (forall p c, 0 <= p < N -> (In c (K p) <-> 0 <= c < N /\ get (t_parent t) c = Ok p)) /\
      (forall c, In c (K N) <->
         0 <= c < N /\ get (t_parent t) c = Ok NULL /\
         exists n, get (t_ns t) c = Ok n /\ o_thr o <= n).
  Proof.
    intros k t H. destruct (rep_invariant k t H) as [JC (K & LR & [O1 O2])].
    destruct JC as (L0 & _).
    exists K. split; [|split; [exact O1 | exact O2]].
    intros p Hp. split; [apply (lr_chain N _ _ LR p Hp)|]. split; [apply (lr_nodup N _ _ LR p Hp)|].
    split; [apply (lr_nc N _ _ LR p Hp)|]. apply children_of_rep; auto.
  Qed.
End RepInv.
