(* Layer L0/L1: removing the edges that end at t' and inserting those that start at t'
   turns the parent array of the previous tree into parent_at t'. *)
From Coq Require Import List ZArith Bool Lia.
From TskVerif Require Import Base.Common.
From TskVerif Require Import C01.Model.
From TskVerif Require Import C01.ArrayLemmas.
Import ListNotations.
Open Scope Z_scope.

Lemma covers_iff x e : covers x e = true <-> eleft e <= x < eright e.
Proof. unfold covers. rewrite andb_true_iff, Z.leb_le, Z.ltb_lt. tauto. Qed.

Lemma parent_at_ext es x y u :
  (forall e, In e es -> covers x e = covers y e) -> parent_at es x u = parent_at es y u.
Proof.
  unfold parent_at. induction es as [|e r IH]; intros H; [reflexivity|]. simpl.
  rewrite (H e) by (left; reflexivity).
  destruct ((echild e =? u) && covers y e); [reflexivity|].
  apply IH. intros; apply H; right; assumption.
Qed.

Lemma parent_at_some es x u p :
  parent_at es x u = p -> p <> NULL ->
  exists e, In e es /\ echild e = u /\ eparent e = p /\ eleft e <= x < eright e.
Proof.
  unfold parent_at. destruct (find _ es) as [e|] eqn:F; [|congruence].
  intros <- _. apply find_some in F as [Hin F]. apply andb_true_iff in F as [F1 F2].
  apply Z.eqb_eq in F1. apply covers_iff in F2. eauto.
Qed.

Lemma parent_at_none es x u :
  (forall e, In e es -> echild e = u -> ~ (eleft e <= x < eright e)) -> parent_at es x u = NULL.
Proof.
  intros H. unfold parent_at. destruct (find _ es) as [e|] eqn:F; [|reflexivity].
  apply find_some in F as [Hin F]. apply andb_true_iff in F as [F1 F2].
  apply Z.eqb_eq in F1. apply covers_iff in F2. exfalso. eapply H; eauto.
Qed.

Section Valid.
  Variables (N : Z) (es : list edge).
  Hypothesis Hok : forall e, In e es ->
    0 <= eleft e < eright e /\ 0 <= echild e < N /\ 0 <= eparent e.
  (* two edges of one child never overlap (so in particular no duplicates) *)
  Hypothesis Hdisj : forall e1 e2, In e1 es -> In e2 es -> echild e1 = echild e2 ->
    eleft e1 < eright e2 -> eleft e2 < eright e1 -> e1 = e2.

  Lemma parent_at_unique x e :
    In e es -> eleft e <= x < eright e -> parent_at es x (echild e) = eparent e.
  Proof.
    intros Hin Hc. unfold parent_at.
    destruct (find _ es) as [e'|] eqn:F.
    - apply find_some in F as [Hin' F]. apply andb_true_iff in F as [F1 F2].
      apply Z.eqb_eq in F1. apply covers_iff in F2.
      assert (e' = e) by (apply Hdisj; auto; lia). now subst.
    - exfalso. pose proof (find_none _ _ F e Hin) as F'. simpl in F'.
      apply andb_false_iff in F' as [F'|F'].
      + apply Z.eqb_neq in F'. congruence.
      + assert (covers x e = true) by (apply covers_iff; exact Hc). congruence.
  Qed.

  Definition childb (u : Z) (ie : iedge) : bool := echild (snd ie) =? u.

  Lemma par_remove_spec : forall l P,
    (forall ie, In ie l -> 0 <= echild (snd ie) < zlen P) ->
    exists P1, par_remove P l = Ok P1 /\ zlen P1 = zlen P /\
      forall u, (existsb (childb u) l = true -> get P1 u = Ok NULL) /\
                (existsb (childb u) l = false -> get P1 u = get P u).
  Proof.
    induction l as [|[i e] r IH]; intros P H.
    - exists P. simpl. repeat split; auto; discriminate.
    - simpl. destruct (set_ok P (echild e) NULL) as [P' S]. { apply (H (i, e)). left; reflexivity. }
      rewrite S. simpl.
      destruct (IH P') as (P1 & E & Z1 & G).
      { intros ie Hin. rewrite (set_zlen _ _ _ _ S). apply H. right; exact Hin. }
      exists P1. split; [exact E|]. split; [rewrite Z1; eapply set_zlen; eauto|].
      intros u. destruct (G u) as [G1 G2]. unfold childb at 1 3. simpl. split; intros X.
      + destruct (existsb (childb u) r) eqn:Er; [auto|].
        rewrite orb_false_r in X. apply Z.eqb_eq in X. subst u.
        rewrite G2 by reflexivity. eapply get_set_same; eauto.
      + apply orb_false_iff in X as [X1 X2]. rewrite G2 by exact X2.
        apply Z.eqb_neq in X1. eapply get_set_other; eauto.
  Qed.

  Lemma par_insert_spec : forall l P,
    (forall ie, In ie l -> 0 <= echild (snd ie) < zlen P) ->
    exists P2, par_insert P l = Ok P2 /\ zlen P2 = zlen P /\
      forall u, (existsb (childb u) l = false -> get P2 u = get P u) /\
                (forall p, existsb (childb u) l = true ->
                           (forall ie, In ie l -> echild (snd ie) = u -> eparent (snd ie) = p) ->
                           get P2 u = Ok p).
  Proof.
    induction l as [|[i e] r IH]; intros P H.
    - exists P. simpl. repeat split; auto; discriminate.
    - simpl. destruct (set_ok P (echild e) (eparent e)) as [P' S]. { apply (H (i, e)). left; reflexivity. }
      rewrite S. simpl.
      destruct (IH P') as (P2 & E & Z2 & G).
      { intros ie Hin. rewrite (set_zlen _ _ _ _ S). apply H. right; exact Hin. }
      exists P2. split; [exact E|]. split; [rewrite Z2; eapply set_zlen; eauto|].
      intros u. destruct (G u) as [G1 G2]. unfold childb at 1 3. simpl. split.
      + intros X. apply orb_false_iff in X as [X1 X2]. rewrite G1 by exact X2.
        apply Z.eqb_neq in X1. eapply get_set_other; eauto.
      + intros p X U. destruct (existsb (childb u) r) eqn:Er.
        * apply G2; [reflexivity|]. intros ie Hin. apply U. right; exact Hin.
        * rewrite orb_false_r in X. apply Z.eqb_eq in X. subst u.
          rewrite G1 by reflexivity.
          rewrite (get_set_same _ _ _ _ S). f_equal. apply (U (i, e)); [left|]; reflexivity.
  Qed.

  Definition PostB (P : list Z) (t : Z) : Prop :=
    N <= zlen P /\ forall u, 0 <= u < N -> get P u = Ok (parent_at es t u).

  Definition PreB (P : list Z) (t' : Z) : Prop :=
    N <= zlen P /\
    (forall u, 0 <= u < N -> exists p, get P u = Ok p /\
        (p <> NULL -> exists e, In e es /\ echild e = u /\ eparent e = p /\ eleft e < t' <= eright e)) /\
    (forall e, In e es -> eleft e < t' -> t' <= eright e -> get P (echild e) = Ok (eparent e)).

  Lemma pre_init : 0 <= N -> PreB (repeat NULL (Z.to_nat (N + 1))) 0.
  Proof.
    intros HN. split; [unfold zlen; rewrite repeat_length; lia|]. split.
    - intros u Hu. exists NULL. split; [apply get_repeat; lia | congruence].
    - intros e Hin H1. destruct (Hok e Hin) as [? _]. lia.
  Qed.

  (* the same for an array with exactly N entries (node_edge_map of tsk_treeseq_init_trees) *)
  Lemma pre_init_n : 0 <= N -> PreB (repeat NULL (Z.to_nat N)) 0.
  Proof.
    intros HN. split; [unfold zlen; rewrite repeat_length; lia|]. split.
    - intros u Hu. exists NULL. split; [apply get_repeat; lia | congruence].
    - intros e Hin H1. destruct (Hok e Hin) as [? _]. lia.
  Qed.

  Lemma post_pre P t t' :
    PostB P t -> t < t' ->
    (forall e, In e es -> eleft e <= t \/ t' <= eleft e) ->
    (forall e, In e es -> eright e <= t \/ t' <= eright e) ->
    PreB P t'.
  Proof.
    intros [ZL G] Hlt NL NR. split; [exact ZL|]. split.
    - intros u Hu. exists (parent_at es t u). split; [auto|]. intros Hp.
      destruct (parent_at_some es t u _ eq_refl Hp) as (e & Hin & Hc & Hpar & Hcov).
      exists e. repeat split; auto.
      + destruct (NL e Hin); lia.
      + destruct (NR e Hin); lia.
    - intros e Hin H1 H2. destruct (Hok e Hin) as (_ & Hc & _).
      rewrite (G _ Hc). f_equal. apply parent_at_unique; [exact Hin|].
      destruct (NL e Hin); lia.
  Qed.

  Lemma post_interval P t t' x :
    PostB P t -> t <= x < t' ->
    (forall e, In e es -> eleft e <= t \/ t' <= eleft e) ->
    (forall e, In e es -> eright e <= t \/ t' <= eright e) ->
    PostB P x.
  Proof.
    intros [ZL G] Hx NL NR. split; [exact ZL|]. intros u Hu. rewrite (G u Hu). f_equal.
    apply parent_at_ext. intros e Hin. unfold covers.
    destruct (NL e Hin), (NR e Hin);
      repeat match goal with |- context [?a <=? ?b] => destruct (Z.leb_spec a b) end;
      repeat match goal with |- context [?a <? ?b] => destruct (Z.ltb_spec a b) end;
      simpl; try reflexivity; lia.
  Qed.

  (* the transition at boundary t' *)
  Lemma par_step P t' (outs ins : list iedge) :
    PreB P t' ->
    (forall ie, In ie outs -> In (snd ie) es /\ eright (snd ie) = t') ->
    (forall e, In e es -> eright e = t' -> exists i, In (i, e) outs) ->
    (forall ie, In ie ins -> In (snd ie) es /\ eleft (snd ie) = t') ->
    (forall e, In e es -> eleft e = t' -> exists i, In (i, e) ins) ->
    exists P1 P2, par_remove P outs = Ok P1 /\ par_insert P1 ins = Ok P2 /\ PostB P2 t'.
  Proof.
    intros (ZL & A1 & A2) O1 O2 I1 I2.
    destruct (par_remove_spec outs P) as (P1 & E1 & Z1 & G1).
    { intros ie Hin. destruct (O1 ie Hin) as [Hin' _]. destruct (Hok _ Hin') as (_ & ? & _). lia. }
    destruct (par_insert_spec ins P1) as (P2 & E2 & Z2 & G2).
    { intros ie Hin. destruct (I1 ie Hin) as [Hin' _]. destruct (Hok _ Hin') as (_ & ? & _). lia. }
    exists P1, P2. split; [exact E1|]. split; [exact E2|].
    split; [lia|]. intros u Hu.
    destruct (G1 u) as [R1 R2]. destruct (G2 u) as [J1 J2].
    (* does some edge of child u cover t'? *)
    destruct (find (fun e => (echild e =? u) && covers t' e) es) as [e|] eqn:F.
    - apply find_some in F as [Hin F]. apply andb_true_iff in F as [F1 F2].
      apply Z.eqb_eq in F1. apply covers_iff in F2. subst u.
      rewrite (parent_at_unique t' e Hin F2).
      destruct (Hok e Hin) as (B1 & B2 & B3).
      destruct (Z.eq_dec (eleft e) t') as [EL|NL].
      + (* inserted now *)
        destruct (I2 e Hin EL) as [i Hi].
        apply J2.
        * apply existsb_exists. exists (i, e). split; [exact Hi|]. unfold childb; simpl. apply Z.eqb_refl.
        * intros ie Hie Hch. destruct (I1 ie Hie) as [Hin' HL'].
          destruct (Hok _ Hin') as (B1' & _).
          assert (snd ie = e) by (apply Hdisj; auto; lia). now subst.
      + (* already present, untouched *)
        assert (NI : existsb (childb (echild e)) ins = false).
        { apply not_true_is_false. intros X. apply existsb_exists in X as (ie & Hie & Hch).
          unfold childb in Hch. apply Z.eqb_eq in Hch.
          destruct (I1 ie Hie) as [Hin' HL']. destruct (Hok _ Hin') as (B1' & _).
          assert (snd ie = e) by (apply Hdisj; auto; lia). subst. lia. }
        assert (NO : existsb (childb (echild e)) outs = false).
        { apply not_true_is_false. intros X. apply existsb_exists in X as (ie & Hie & Hch).
          unfold childb in Hch. apply Z.eqb_eq in Hch.
          destruct (O1 ie Hie) as [Hin' HR']. destruct (Hok _ Hin') as (B1' & _).
          assert (snd ie = e) by (apply Hdisj; auto; lia). subst. lia. }
        rewrite (J1 NI), (R2 NO). apply A2; auto; lia.
    - (* no edge of child u covers t' *)
      assert (NC : forall e, In e es -> echild e = u -> ~ (eleft e <= t' < eright e)).
      { intros e Hin Hch Hc. pose proof (find_none _ _ F e Hin) as X. simpl in X.
        apply andb_false_iff in X as [X|X].
        - apply Z.eqb_neq in X. congruence.
        - assert (covers t' e = true) by (apply covers_iff; exact Hc). congruence. }
      rewrite (parent_at_none es t' u NC).
      assert (NI : existsb (childb u) ins = false).
      { apply not_true_is_false. intros X. apply existsb_exists in X as (ie & Hie & Hch).
        unfold childb in Hch. apply Z.eqb_eq in Hch.
        destruct (I1 ie Hie) as [Hin' HL']. destruct (Hok _ Hin') as (B1' & _).
        apply (NC _ Hin' Hch). lia. }
      rewrite (J1 NI).
      destruct (existsb (childb u) outs) eqn:EO; [auto|].
      rewrite (R2 eq_refl).
      destruct (A1 u Hu) as (p & Gp & Sp). rewrite Gp. f_equal.
      destruct (Z.eq_dec p NULL) as [|NP]; [assumption|]. exfalso.
      destruct (Sp NP) as (e & Hin & Hch & Hpar & Hcov).
      assert (eright e = t').
      { destruct (Z_le_gt_dec (eright e) t'); [lia|]. exfalso. apply (NC e Hin Hch). lia. }
      destruct (O2 e Hin H) as [i Hi].
      assert (existsb (childb u) outs = true).
      { apply existsb_exists. exists (i, e). split; [exact Hi|]. unfold childb; simpl. now apply Z.eqb_eq. }
      congruence.
  Qed.
End Valid.
