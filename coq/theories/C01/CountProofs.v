(* num_samples / num_tracked_samples maintained by the propagation loops of
   tsk_tree_insert_edge / tsk_tree_remove_edge satisfy, in every tree of the sweep,
       count[u] = [u is a (tracked) sample] + sum of count[c] over the children c of u
   for every node u (children by the parent array, which is parent_at).  *)
From Coq Require Import List ZArith Bool Lia Sorting.Sorted Permutation.
From TskVerif Require Import Base.Common.
From TskVerif Require Import C01.Model.
From TskVerif Require Import C01.ArrayLemmas.
From TskVerif Require Import C01.ProjProofs.
From TskVerif Require Import C01.TreeProofs.
From TskVerif Require Import C01.InductProofs.
Import ListNotations.
Open Scope Z_scope.

Lemma csum_set_A_nat : forall P A A' n v pu a0 x,
  length P = length A -> set_nat A n v = Some A' -> nth_error P n = Some pu -> nth_error A n = Some a0 ->
  csum P A' x = csum P A x + (if pu =? x then v - a0 else 0).
Proof.
  induction P as [|p P IH]; intros A A' n v pu a0 x HL S NP NA; destruct A as [|a A]; simpl in *; try lia.
  - destruct n; discriminate.
  - destruct n as [|n]; simpl in *.
    + inversion S; inversion NP; inversion NA; subst. simpl. destruct (pu =? x); lia.
    + destruct (set_nat A n v) as [A1|] eqn:E; [|discriminate]. inversion S; subst. simpl.
      rewrite (IH A A1 n v pu a0 x); auto; lia.
Qed.

Lemma csum_set_P_nat : forall P P' A n v p0 a0 x,
  length P = length A -> set_nat P n v = Some P' -> nth_error P n = Some p0 -> nth_error A n = Some a0 ->
  csum P' A x = csum P A x - (if p0 =? x then a0 else 0) + (if v =? x then a0 else 0).
Proof.
  induction P as [|p P IH]; intros P' A n v p0 a0 x HL S NP NA; destruct A as [|a A]; simpl in *; try lia.
  - destruct n; discriminate.
  - destruct n as [|n]; simpl in *.
    + inversion S; inversion NP; inversion NA; subst. simpl. lia.
    + destruct (set_nat P n v) as [P1|] eqn:E; [|discriminate]. inversion S; subst. simpl.
      rewrite (IH P1 A n v p0 a0 x); auto; lia.
Qed.

Lemma get_nth {A} (l : list A) i a : get l i = Ok a -> nth_error l (Z.to_nat i) = Some a.
Proof.
  unfold get. destruct (i <? 0); [discriminate|].
  destruct (nth_error l (Z.to_nat i)); [|discriminate]. now intros H; inversion H.
Qed.

Lemma csum_set_A P A A' u v pu a0 x :
  length P = length A -> set A u v = Ok A' -> get P u = Ok pu -> get A u = Ok a0 ->
  csum P A' x = csum P A x + (if pu =? x then v - a0 else 0).
Proof.
  intros HL S GP GA. apply set_inv in S as [_ S].
  eapply csum_set_A_nat; eauto using get_nth.
Qed.

Lemma csum_set_P P P' A c v p0 a0 x :
  length P = length A -> set P c v = Ok P' -> get P c = Ok p0 -> get A c = Ok a0 ->
  csum P' A x = csum P A x - (if p0 =? x then a0 else 0) + (if v =? x then a0 else 0).
Proof.
  intros HL S GP GA. apply set_inv in S as [_ S].
  eapply csum_set_P_nat; eauto using get_nth.
Qed.

(* the propagation loop on one count array *)
Fixpoint prop_arr (fuel : nat) (sign : Z) (P A : list Z) (c u : Z) : res (list Z) :=
  if u =? NULL then Ok A else
  match fuel with
  | O => Fuel
  | S f =>
      do au <- get A u;
      do ac <- get A c;
      do A' <- set A u (au + sign * ac);
      do pu <- get P u;
      prop_arr f sign P A' c pu
  end.

Definition nonneg (A : list Z) : Prop := Forall (fun a => 0 <= a) A.

Lemma csum_nonneg : forall P A x, nonneg A -> 0 <= csum P A x.
Proof.
  induction P as [|p P IH]; intros A x H; destruct A as [|a A]; simpl; try lia.
  inversion H; subst. specialize (IH A x H3). destruct (p =? x); lia.
Qed.

Lemma nonneg_set_nat : forall A n v A', nonneg A -> 0 <= v -> set_nat A n v = Some A' -> nonneg A'.
Proof.
  induction A as [|a A IH]; intros n v A' H Hv S; destruct n; simpl in S; try discriminate.
  - inversion S; subst. inversion H; subst. constructor; auto.
  - destruct (set_nat A n v) as [A1|] eqn:E; [|discriminate]. inversion S; subst. inversion H; subst.
    constructor; [assumption|]. exact (IH n v A1 H3 Hv E).
Qed.

Lemma nonneg_set A u v A' : nonneg A -> 0 <= v -> set A u v = Ok A' -> nonneg A'.
Proof. intros H Hv S. apply set_inv in S as [_ S]. eapply nonneg_set_nat; eauto. Qed.

Lemma nonneg_get A u a : nonneg A -> get A u = Ok a -> 0 <= a.
Proof.
  intros H G. apply get_In in G. unfold nonneg in H. rewrite Forall_forall in H. auto.
Qed.

Section Counts.
  Variables (N : Z) (smp tm : Z -> Z).

  (* the local count equation *)
  Definition LE (P A : list Z) : Prop :=
    forall x, 0 <= x < N -> exists a, get A x = Ok a /\ a = smp x + csum P A x.

  (* parents are real nodes and strictly older *)
  Definition Mono (P : list Z) : Prop :=
    forall u p, get P u = Ok p -> p <> NULL -> 0 <= u < N /\ 0 <= p < N /\ tm u < tm p.

  Definition Defect (P A : list Z) (c u d : Z) : Prop :=
    exists ac, get A c = Ok ac /\
    forall x, 0 <= x < N -> exists a, get A x = Ok a /\
      a + (if x =? u then d * ac else 0) = smp x + csum P A x.

  (* Ploop: the array the loop reads; P': the array of the equation; they agree off c *)
  Lemma prop_arr_LE (Ploop P' : list Z) (c sign : Z) : forall fuel u A A',
    length P' = length A ->
    (forall w, w <> c -> get Ploop w = get P' w) ->
    Mono Ploop ->
    Defect P' A c u sign ->
    (u <> NULL -> tm c < tm u) ->
    (forall x, 0 <= smp x) -> nonneg A -> 0 <= u < N \/ u = NULL ->
    prop_arr fuel sign Ploop A c u = Ok A' ->
    LE P' A' /\ length A' = length A /\ get A' c = get A c /\ nonneg A'.
  Proof.
    induction fuel as [|f IH]; intros u A A' HL AG MO (ac & GC & D) TM SM NNA UR H; simpl in H.
    - destruct (u =? NULL) eqn:U; [|discriminate]. inversion H; subst A'. split; [|auto].
      intros x Hx. destruct (D x Hx) as (a & Ga & Ea). exists a. split; [exact Ga|].
      apply Z.eqb_eq in U. subst u. replace (x =? NULL) with false in Ea by (symmetry; apply Z.eqb_neq; unfold NULL; lia). lia.
    - destruct (u =? NULL) eqn:U.
      + inversion H; subst A'. split; [|auto].
        intros x Hx. destruct (D x Hx) as (a & Ga & Ea). exists a. split; [exact Ga|].
        apply Z.eqb_eq in U. subst u. replace (x =? NULL) with false in Ea by (symmetry; apply Z.eqb_neq; unfold NULL; lia). lia.
      + apply Z.eqb_neq in U. specialize (TM U).
        bind_inv H. bind_inv H. bind_inv H. bind_inv H.
        rename a into au, a0 into ac', a1 into A1, a2 into pu.
        assert (ac' = ac) by congruence. subst ac'.
        assert (UC : u <> c) by (intros ->; lia).
        assert (GP' : get P' u = Ok pu) by (rewrite <- (AG u UC); exact E2).
        assert (HL1 : length P' = length A1) by (rewrite (set_length _ _ _ _ E1); exact HL).
        assert (UN : 0 <= u < N) by (destruct UR; [assumption | congruence]).
        assert (NN1 : nonneg A1).
        { eapply nonneg_set; [exact NNA| |exact E1].
          destruct (D u UN) as (a & Ga & Ea). rewrite Z.eqb_refl in Ea.
          assert (a = au) by congruence. subst a.
          pose proof (csum_nonneg P' A u NNA). specialize (SM u). lia. }
        destruct (IH pu A1 A' HL1 AG MO) as (LE' & L' & GC' & NN'); auto.
        * exists ac. split.
          { rewrite (get_set_other _ _ _ c _ E1); auto. }
          intros x Hx. destruct (D x Hx) as (a & Ga & Ea).
          rewrite (csum_set_A P' A A1 u (au + sign * ac) pu au x HL E1 GP' E).
          rewrite (get_set _ _ _ x _ E1).
          destruct (x =? u) eqn:XU.
          -- apply Z.eqb_eq in XU. subst x. exists (au + sign * ac). split; [reflexivity|].
             assert (a = au) by congruence. subst a.
             destruct (u =? pu) eqn:UP.
             ++ apply Z.eqb_eq in UP. rewrite <- UP. rewrite Z.eqb_refl. lia.
             ++ rewrite Z.eqb_sym in UP. rewrite UP. lia.
          -- exists a. split; [exact Ga|]. rewrite Z.eqb_sym. destruct (pu =? x); lia.
        * intros NP. destruct (MO u pu E2 NP) as (_ & _ & ?). lia.
        * destruct (Z.eq_dec pu NULL) as [|NP]; [right; assumption|left].
          destruct (MO u pu E2 NP) as (_ & ? & _). assumption.
        * split; [exact LE'|]. split; [rewrite L'; eapply set_length; eauto|]. split; [|exact NN'].
          rewrite GC'. rewrite (get_set_other _ _ _ c _ E1) by auto. first [assumption | reflexivity | congruence].
  Qed.
End Counts.

(* ------------------------------------------------------------------------------------ *)
(* projection of the full model onto (parent, ns) and (parent, nt)                        *)
(* ------------------------------------------------------------------------------------ *)

Ltac setter_ns := intros H; match type of H with ?f _ _ _ = _ => unfold f in H end;
  bind_inv H; inversion H; split; reflexivity.
Lemma s_parent_cnt t u v t' : s_parent t u v = Ok t' -> t_ns t' = t_ns t /\ t_nt t' = t_nt t. Proof. setter_ns. Qed.
Lemma s_lc_cnt t u v t' : s_lc t u v = Ok t' -> t_ns t' = t_ns t /\ t_nt t' = t_nt t. Proof. setter_ns. Qed.
Lemma s_rc_cnt t u v t' : s_rc t u v = Ok t' -> t_ns t' = t_ns t /\ t_nt t' = t_nt t. Proof. setter_ns. Qed.
Lemma s_ls_cnt t u v t' : s_ls t u v = Ok t' -> t_ns t' = t_ns t /\ t_nt t' = t_nt t. Proof. setter_ns. Qed.
Lemma s_rs_cnt t u v t' : s_rs t u v = Ok t' -> t_ns t' = t_ns t /\ t_nt t' = t_nt t. Proof. setter_ns. Qed.
Lemma s_nc_cnt t u v t' : s_nc t u v = Ok t' -> t_ns t' = t_ns t /\ t_nt t' = t_nt t. Proof. setter_ns. Qed.
Lemma s_edge_cnt t u v t' : s_edge t u v = Ok t' -> t_ns t' = t_ns t /\ t_nt t' = t_nt t. Proof. setter_ns. Qed.
Lemma s_lsamp_cnt t u v t' : s_lsamp t u v = Ok t' -> t_ns t' = t_ns t /\ t_nt t' = t_nt t. Proof. setter_ns. Qed.
Lemma s_rsamp_cnt t u v t' : s_rsamp t u v = Ok t' -> t_ns t' = t_ns t /\ t_nt t' = t_nt t. Proof. setter_ns. Qed.
Lemma s_nsamp_cnt t u v t' : s_nsamp t u v = Ok t' -> t_ns t' = t_ns t /\ t_nt t' = t_nt t. Proof. setter_ns. Qed.

Ltac cnt_frames :=
  repeat match goal with
  | H : s_parent _ _ _ = Ok _ |- _ => apply s_parent_cnt in H; destruct H
  | H : s_lc _ _ _ = Ok _ |- _ => apply s_lc_cnt in H; destruct H
  | H : s_rc _ _ _ = Ok _ |- _ => apply s_rc_cnt in H; destruct H
  | H : s_ls _ _ _ = Ok _ |- _ => apply s_ls_cnt in H; destruct H
  | H : s_rs _ _ _ = Ok _ |- _ => apply s_rs_cnt in H; destruct H
  | H : s_nc _ _ _ = Ok _ |- _ => apply s_nc_cnt in H; destruct H
  | H : s_edge _ _ _ = Ok _ |- _ => apply s_edge_cnt in H; destruct H
  | H : s_lsamp _ _ _ = Ok _ |- _ => apply s_lsamp_cnt in H; destruct H
  | H : s_rsamp _ _ _ = Ok _ |- _ => apply s_rsamp_cnt in H; destruct H
  | H : s_nsamp _ _ _ = Ok _ |- _ => apply s_nsamp_cnt in H; destruct H
  end.

Definition same_cnt (t t' : tree) : Prop := t_ns t' = t_ns t /\ t_nt t' = t_nt t.

Lemma same_cnt_trans a b c : same_cnt a b -> same_cnt b c -> same_cnt a c.
Proof. unfold same_cnt. intros [? ?] [? ?]. split; congruence. Qed.

Lemma remove_branch_cnt t p c t' : remove_branch t p c = Ok t' -> same_cnt t t'.
Proof.
  unfold remove_branch, same_cnt. intros H. repeat bind_inv H. split_ifs; cnt_frames; split; congruence.
Qed.

Lemma insert_branch_cnt t p c t' : insert_branch t p c = Ok t' -> same_cnt t t'.
Proof.
  unfold insert_branch, same_cnt. intros H. repeat bind_inv H.
  split_ifs; repeat match goal with H : bind _ _ = Ok _ |- _ => bind_inv H end; cnt_frames; split; congruence.
Qed.

Lemma insert_root_cnt V t r t' : insert_root V t r = Ok t' -> same_cnt t t'.
Proof.
  unfold insert_root. intros H. bind_inv H. apply insert_branch_cnt in E.
  apply s_parent_cnt in H. eapply same_cnt_trans; eauto.
Qed.

Lemma usl_children_cnt : forall fuel t u v t', usl_children fuel t u v = Ok t' -> same_cnt t t'.
Proof.
  induction fuel as [|f IH]; intros t u v t' H; simpl in H.
  - destruct (v =? NULL); [inversion H; split; reflexivity | discriminate].
  - destruct (v =? NULL); [inversion H; split; reflexivity|].
    bind_inv H. bind_inv H. bind_inv H. apply IH in H.
    eapply same_cnt_trans; [|exact H]. clear H.
    destruct (negb (a =? NULL)); [|inversion E0; split; reflexivity].
    bind_inv E0. destruct (a2 =? NULL); [discriminate|]. bind_inv E0.
    destruct (a3 =? NULL).
    + bind_inv E0. cnt_frames. split; congruence.
    + bind_inv E0. bind_inv E0. cnt_frames. split; congruence.
Qed.

Lemma update_sample_lists_cnt : forall fuel simap t u t',
  update_sample_lists fuel simap t u = Ok t' -> same_cnt t t'.
Proof.
  induction fuel as [|f IH]; intros simap t u t' H; simpl in H.
  - destruct (u =? NULL); [inversion H; split; reflexivity | discriminate].
  - destruct (u =? NULL); [inversion H; split; reflexivity|].
    bind_inv H. bind_inv H. bind_inv H. bind_inv H. bind_inv H.
    apply IH in H. apply usl_children_cnt in E2.
    eapply same_cnt_trans; [|exact H]. eapply same_cnt_trans; [|exact E2].
    destruct (negb (a =? NULL)).
    + bind_inv E0. cnt_frames. split; congruence.
    + bind_inv E0. cnt_frames. split; congruence.
Qed.

Lemma cond_lists_cnt lists simap t p t' : cond_lists lists simap t p = Ok t' -> same_cnt t t'.
Proof.
  unfold cond_lists. destruct lists; [apply update_sample_lists_cnt|].
  intros H; inversion H; split; reflexivity.
Qed.

Lemma cond_remove_root_end_cnt V thr t wr pe t' : cond_remove_root_end V thr t wr pe = Ok t' -> same_cnt t t'.
Proof.
  unfold cond_remove_root_end. intros H. destruct wr; [|inversion H; split; reflexivity].
  bind_inv H. destruct (negb (thr <=? a)); [|inversion H; split; reflexivity].
  unfold remove_root in H. eapply remove_branch_cnt; eauto.
Qed.
Lemma cond_insert_root_c_cnt V thr t c t' : cond_insert_root_c V thr t c = Ok t' -> same_cnt t t'.
Proof.
  unfold cond_insert_root_c. intros H. bind_inv H.
  destruct (thr <=? a); [|inversion H; split; reflexivity]. eapply insert_root_cnt; eauto.
Qed.
Lemma cond_remove_root_c_cnt V thr t c t' : cond_remove_root_c V thr t c = Ok t' -> same_cnt t t'.
Proof.
  unfold cond_remove_root_c. intros H. bind_inv H.
  destruct (thr <=? a); [|inversion H; split; reflexivity].
  unfold remove_root in H. eapply remove_branch_cnt; eauto.
Qed.
Lemma cond_insert_root_end_cnt V thr t wr pe t' : cond_insert_root_end V thr t wr pe = Ok t' -> same_cnt t t'.
Proof.
  unfold cond_insert_root_end. intros H. bind_inv H.
  destruct ((thr <=? a) && negb wr); [|inversion H; split; reflexivity]. eapply insert_root_cnt; eauto.
Qed.

Lemma propagate_cnt : forall fuel thr sign t c u pe wr t' pe' wr',
  propagate fuel thr sign t c u pe wr = Ok (t', pe', wr') ->
  prop_arr fuel sign (t_parent t) (t_ns t) c u = Ok (t_ns t') /\
  prop_arr fuel sign (t_parent t) (t_nt t) c u = Ok (t_nt t').
Proof.
  induction fuel as [|f IH]; intros thr sign t c u pe wr t' pe' wr' H; simpl in H; simpl.
  - destruct (u =? NULL); [inversion H; split; reflexivity | discriminate].
  - destruct (u =? NULL); [inversion H; split; reflexivity|].
    bind_inv H. bind_inv H. bind_inv H. bind_inv H. bind_inv H. bind_inv H. bind_inv H.
    apply IH in H as [H1 H2].
    unfold s_ns in E1. bind_inv E1. inversion E1; subst. clear E1.
    unfold s_nt in E4. bind_inv E4. inversion E4; subst. clear E4.
    simpl in *.
    repeat match goal with X : ?x = Ok _ |- context [?x] => rewrite X; cbn [bind] end.
    split; reflexivity.
Qed.

Lemma remove_edge_cnt q o t p c t' :
  remove_edge q o t p c = Ok t' ->
  set (t_parent t) c NULL = Ok (t_parent t') /\
  prop_arr (chain_fuel t) (-1) (t_parent t') (t_ns t) c p = Ok (t_ns t') /\
  prop_arr (chain_fuel t) (-1) (t_parent t') (t_nt t) c p = Ok (t_nt t').
Proof.
  intros H. pose proof (remove_edge_par _ _ _ _ _ _ H) as HP. split; [exact HP|].
  unfold remove_edge in H.
  bind_inv H. rename a into t0. pose proof (remove_branch_par _ _ _ _ E) as P0.
  apply remove_branch_cnt in E as [N0 T0].
  bind_inv H. rename a into t1. pose proof (s_edge_par _ _ _ _ E) as P1. apply s_edge_cnt in E as [N1 T1].
  simpl in P1, N1, T1.
  bind_inv H. destruct a as [[t2 pe] wr]. apply propagate_cnt in E as [C1 C2].
  bind_inv H. rename a into t3. apply cond_remove_root_end_cnt in E as [N3 T3].
  bind_inv H. rename a into t4. apply cond_insert_root_c_cnt in E as [N4 T4].
  apply cond_lists_cnt in H as [N5 T5].
  assert (PE : t_parent t1 = t_parent t') by (rewrite HP in P0; inversion P0; congruence).
  assert (FU : chain_fuel t1 = chain_fuel t).
  { unfold chain_fuel. f_equal. rewrite PE. eapply set_length; eauto. }
  rewrite FU, PE, N1, N0, T1, T0 in *. split; congruence.
Qed.

Lemma insert_edge_cnt q o t p c e t' :
  insert_edge q o t p c e = Ok t' ->
  set (t_parent t) c p = Ok (t_parent t') /\
  prop_arr (chain_fuel t) 1 (t_parent t) (t_ns t) c p = Ok (t_ns t') /\
  prop_arr (chain_fuel t) 1 (t_parent t) (t_nt t) c p = Ok (t_nt t').
Proof.
  intros H. pose proof (insert_edge_par _ _ _ _ _ _ _ H) as HP. split; [exact HP|].
  unfold insert_edge in H.
  bind_inv H. destruct a as [[t1 pe] wr]. apply propagate_cnt in E as [C1 C2].
  bind_inv H. rename a into t2. apply cond_remove_root_c_cnt in E as [N2 T2].
  bind_inv H. rename a into t3. apply cond_insert_root_end_cnt in E as [N3 T3].
  bind_inv H. rename a into t4. apply insert_branch_cnt in E as [N4 T4].
  bind_inv H. rename a into t5. apply s_edge_cnt in E as [N5 T5]. simpl in N5, T5.
  apply cond_lists_cnt in H as [N6 T6].
  split; congruence.
Qed.

Lemma csum_all_null : forall n A x, 0 <= x -> csum (repeat NULL n) A x = 0.
Proof.
  induction n as [|n IH]; intros A x Hx; cbn [repeat csum]; [reflexivity|].
  destruct A as [|a A]; [reflexivity|].
  replace (NULL =? x) with false by (symmetry; apply Z.eqb_neq; unfold NULL; lia).
  rewrite IH by auto. reflexivity.
Qed.

Lemma set_all_spec : forall idx l v l', set_all l idx v = Ok l' ->
  length l' = length l /\
  forall x, (existsb (Z.eqb x) idx = true -> get l' x = Ok v) /\
            (existsb (Z.eqb x) idx = false -> get l' x = get l x).
Proof.
  induction idx as [|i r IH]; intros l v l' H; simpl in H.
  - inversion H; subst. split; [reflexivity|]. intros x; split; [discriminate|reflexivity].
  - bind_inv H. destruct (IH _ _ _ H) as [HL G]. split; [rewrite HL; eapply set_length; eauto|].
    intros x. destruct (G x) as [G1 G2]. simpl. split; intros X.
    + destruct (existsb (Z.eqb x) r) eqn:Er; [auto|].
      rewrite orb_false_r in X. apply Z.eqb_eq in X. subst x.
      rewrite G2 by reflexivity. eapply get_set_same; eauto.
    + apply orb_false_iff in X as [X1 X2]. rewrite G2 by exact X2.
      apply Z.eqb_neq in X1. eapply get_set_other; eauto.
Qed.

Lemma insert_roots_cnt V : forall ss t t', insert_roots V t ss = Ok t' -> same_cnt t t'.
Proof.
  induction ss as [|s r IH]; intros t t' H; simpl in H.
  - inversion H; split; reflexivity.
  - bind_inv H. apply insert_root_cnt in E. apply IH in H. eapply same_cnt_trans; eauto.
Qed.


Lemma nonneg_set_all : forall idx l v l', nonneg l -> 0 <= v -> set_all l idx v = Ok l' -> nonneg l'.
Proof.
  induction idx as [|i r IH]; intros l v l' H Hv S; simpl in S.
  - inversion S; subst; exact H.
  - bind_inv S. eapply IH; [|exact Hv|exact S]. eapply nonneg_set; eauto.
Qed.

Lemma nonneg_repeat0 n : nonneg (repeat 0 n).
Proof. induction n; simpl; constructor; auto; lia. Qed.

Lemma tree_clear_cnt q o t : tree_clear q o = Ok t -> 0 <= q_N q ->
  nonneg (t_ns t) /\ nonneg (t_nt t) /\
  length (t_ns t) = Z.to_nat (q_N q + 1) /\ length (t_nt t) = Z.to_nat (q_N q + 1) /\
  forall x, 0 <= x < q_N q ->
    get (t_ns t) x = Ok (ind (q_samples q) x) /\ get (t_nt t) x = Ok (ind (o_tracked o) x).
Proof.
  unfold tree_clear. intros H HN.
  bind_inv H. bind_inv H. bind_inv H. bind_inv H. bind_inv H.
  rename a into ns0, a0 into ns1, a1 into nt0, a2 into nt1.
  assert (SC : t_ns t = ns1 /\ t_nt t = nt1).
  { match type of H with (if ?c then _ else _) = _ => destruct c end.
    - apply insert_roots_cnt in H as [? ?]. simpl in *. split; assumption.
    - inversion H; subst; simpl. split; reflexivity. }
  destruct SC as [-> ->].
  destruct (set_all_spec _ _ _ _ E0) as [L1 G1]. destruct (set_all_spec _ _ _ _ E1) as [L2 G2].
  pose proof (set_length _ _ _ _ E) as L0. pose proof (set_length _ _ _ _ E2) as L3.
  rewrite repeat_length in *.
  split.
  { assert (X : nonneg ns0).
    { refine (nonneg_set _ _ _ _ (nonneg_repeat0 _) _ E). unfold zlen; lia. }
    exact (nonneg_set_all _ _ 1 _ X ltac:(lia) E0). }
  split.
  { assert (X : nonneg nt0) by exact (nonneg_set_all _ _ 1 _ (nonneg_repeat0 _) ltac:(lia) E1).
    refine (nonneg_set _ _ _ _ X _ E2). unfold zlen; lia. }
  split; [lia|]. split; [lia|]. intros x Hx. unfold ind. split.
  - destruct (G1 x) as [A B]. destruct (existsb (Z.eqb x) (q_samples q)); [auto|].
    rewrite B by reflexivity. rewrite (get_set_other _ _ _ x _ E) by lia. apply get_repeat. lia.
  - rewrite (get_set_other _ _ _ x _ E2) by lia.
    destruct (G2 x) as [A B]. destruct (existsb (Z.eqb x) (o_tracked o)); [auto|].
    rewrite B by reflexivity. apply get_repeat. lia.
Qed.

Section CountInv.
  Variables (L : Z) (ns : list node) (es : list edge) (Ins Rem : list Z) (q : tseq).
  Hypothesis HV : valid_edges L ns es.
  Hypothesis HI : index_sorted es Ins Rem.
  Hypothesis HQ : mk_tseq L ns es Ins Rem = Ok q.
  Variable o : topts.

  Let N := zlen ns.
  Definition tmf (u : Z) : Z := match get ns u with Ok n => ntime n | _ => 0 end.

  Definition Jcnt (t : tree) : Prop :=
    length (t_parent t) = Z.to_nat (N + 1) /\
    length (t_ns t) = Z.to_nat (N + 1) /\ length (t_nt t) = Z.to_nat (N + 1) /\
    get (t_parent t) N = Ok NULL /\
    Mono N tmf (t_parent t) /\
    LE N (ind (q_samples q)) (t_parent t) (t_ns t) /\
    LE N (ind (o_tracked o)) (t_parent t) (t_nt t) /\
    nonneg (t_ns t) /\ nonneg (t_nt t).

  Lemma qN : q_N q = N.
  Proof. destruct (mk_tseq_inv L ns es Ins Rem q HQ) as (? & ? & _ & _ & _ & _ & _ & E & _). exact E. Qed.

  Lemma edge_tm e : In e es -> 0 <= echild e < N /\ 0 <= eparent e < N /\ tmf (echild e) < tmf (eparent e).
  Proof.
    intros He. destruct (ve_ok _ _ _ HV e He) as (_ & _ & Hc & Hp & (pn & cn & Gp & Gc & Ht)).
    unfold tmf. rewrite Gp, Gc. fold N in Hc, Hp. auto.
  Qed.

  Lemma Jcnt_clear t : tree_clear q o = Ok t -> Jcnt t.
  Proof.
    intros H. pose proof (tree_clear_par _ _ _ H) as [PP _].
    assert (HN : 0 <= q_N q) by (rewrite qN; unfold N, zlen; lia).
    destruct (tree_clear_cnt _ _ _ H HN) as (NN1 & NN2 & L1 & L2 & G). rewrite qN in *.
    unfold Jcnt. rewrite PP.
    split; [apply repeat_length|]. split; [lia|]. split; [lia|].
    split; [apply get_repeat; lia|]. split; [|split; [|split; [|split; [exact NN1 | exact NN2]]]].
    - intros u p Gp NP. exfalso. apply get_inv in Gp as Gr. unfold zlen in Gr. rewrite repeat_length in Gr.
      rewrite get_repeat in Gp by lia. congruence.
    - intros x Hx. destruct (G x Hx) as [G1 _]. eexists. split; [exact G1|].
      rewrite csum_all_null; lia.
    - intros x Hx. destruct (G x Hx) as [_ G2]. eexists. split; [exact G2|].
      rewrite csum_all_null; lia.
  Qed.

  Lemma LE_after (smp : Z -> Z) (Ploop P' P A A' : list Z) (c p pold pnew sign : Z) fuel :
    length P = length A ->
    set P c pnew = Ok P' -> get P c = Ok pold ->
    (pold = NULL /\ pnew = p /\ sign = 1 /\ Ploop = P) \/ (pold = p /\ pnew = NULL /\ sign = -1 /\ Ploop = P') ->
    0 <= p < N -> Mono N tmf Ploop -> tmf c < tmf p ->
    (forall x, 0 <= smp x) -> nonneg A ->
    LE N smp P A ->
    prop_arr fuel sign Ploop A c p = Ok A' ->
    LE N smp P' A' /\ length A' = length A /\ nonneg A'.
  Proof.
    intros HL SP GP Cases Hp MO TM SM NNA LEq H.
    assert (HL' : length P' = length A) by (rewrite (set_length _ _ _ _ SP); exact HL).
    assert (exists ac, get A c = Ok ac) as [ac GA].
    { apply get_ok. apply get_inv in GP. unfold zlen in *. lia. }
    destruct (prop_arr_LE N smp tmf Ploop P' c sign fuel p A A') as (R1 & R2 & _ & R4); auto.
    - intros w Hw. destruct Cases as [(_ & _ & _ & ->)|(_ & _ & _ & ->)]; [|reflexivity].
      symmetry. eapply get_set_other; eauto.
    - exists ac. split; [exact GA|]. intros x Hx. destruct (LEq x Hx) as (a & Ga & Ea).
      exists a. split; [exact Ga|].
      rewrite (csum_set_P P P' A c pnew pold ac x HL SP GP GA).
      destruct Cases as [(-> & -> & -> & _)|(-> & -> & -> & _)].
      + replace (NULL =? x) with false by (symmetry; apply Z.eqb_neq; unfold NULL; lia).
        rewrite (Z.eqb_sym x p). destruct (p =? x); lia.
      + replace (NULL =? x) with false by (symmetry; apply Z.eqb_neq; unfold NULL; lia).
        rewrite (Z.eqb_sym x p). destruct (p =? x); lia.
  Qed.

  Lemma Mono_set_null P P' c : Mono N tmf P -> set P c NULL = Ok P' -> Mono N tmf P'.
  Proof.
    intros MO S u p G NP. rewrite (get_set _ _ _ u _ S) in G.
    destruct (u =? c); [inversion G; congruence | eauto].
  Qed.

  Lemma Jcnt_remove t e t' : Jcnt t -> In e es ->
    get (t_parent t) (echild e) = Ok (eparent e) ->
    remove_edge q o t (eparent e) (echild e) = Ok t' -> Jcnt t'.
  Proof.
    intros (L0 & L1 & L2 & GV & MO & LE1 & LE2 & NN1 & NN2) He GP H.
    assert (SM : forall l x, 0 <= ind l x) by (intros l x; unfold ind; destruct (existsb (Z.eqb x) l); lia).
    destruct (edge_tm e He) as (Hc & Hp & Ht).
    destruct (remove_edge_cnt _ _ _ _ _ _ H) as (SP & C1 & C2).
    pose proof (Mono_set_null _ _ _ MO SP) as MO'.
    destruct (LE_after (ind (q_samples q)) (t_parent t') (t_parent t') (t_parent t) (t_ns t) (t_ns t')
                (echild e) (eparent e) (eparent e) NULL (-1) (chain_fuel t)) as (R1 & R1' & R1n); auto; try lia.
    destruct (LE_after (ind (o_tracked o)) (t_parent t') (t_parent t') (t_parent t) (t_nt t) (t_nt t')
                (echild e) (eparent e) (eparent e) NULL (-1) (chain_fuel t)) as (R2 & R2' & R2n); auto; try lia.
    unfold Jcnt. rewrite (set_length _ _ _ _ SP).
    split; [exact L0|]. split; [lia|]. split; [lia|].
    split; [rewrite (get_set_other _ _ _ N _ SP) by lia; exact GV|].
    split; [exact MO'|]. split; [exact R1|]. split; [exact R2|]. split; [exact R1n | exact R2n].
  Qed.

  Lemma Jcnt_insert t e i t' : Jcnt t -> In e es ->
    get (t_parent t) (echild e) = Ok NULL ->
    insert_edge q o t (eparent e) (echild e) i = Ok t' -> Jcnt t'.
  Proof.
    intros (L0 & L1 & L2 & GV & MO & LE1 & LE2 & NN1 & NN2) He GP H.
    assert (SM : forall l x, 0 <= ind l x) by (intros l x; unfold ind; destruct (existsb (Z.eqb x) l); lia).
    destruct (edge_tm e He) as (Hc & Hp & Ht).
    destruct (insert_edge_cnt _ _ _ _ _ _ _ H) as (SP & C1 & C2).
    destruct (LE_after (ind (q_samples q)) (t_parent t) (t_parent t') (t_parent t) (t_ns t) (t_ns t')
                (echild e) (eparent e) NULL (eparent e) 1 (chain_fuel t)) as (R1 & R1' & R1n); auto; try lia.
    destruct (LE_after (ind (o_tracked o)) (t_parent t) (t_parent t') (t_parent t) (t_nt t) (t_nt t')
                (echild e) (eparent e) NULL (eparent e) 1 (chain_fuel t)) as (R2 & R2' & R2n); auto; try lia.
    unfold Jcnt. rewrite (set_length _ _ _ _ SP).
    split; [exact L0|]. split; [lia|]. split; [lia|].
    split; [rewrite (get_set_other _ _ _ N _ SP) by lia; exact GV|].
    split; [|split; [exact R1 | split; [exact R2 | split; [exact R1n | exact R2n]]]].
    intros u p G NP. rewrite (get_set _ _ _ u _ SP) in G.
    destruct (u =? echild e) eqn:EU.
    - apply Z.eqb_eq in EU. inversion G; subst. auto.
    - eauto.
  Qed.

  Lemma Jcnt_pos t p : Jcnt t -> Jcnt (w_pos t p).
  Proof. unfold Jcnt. simpl. auto. Qed.

  Theorem counts_invariant : forall k t, tree_at_index q o k = Ok t -> Jcnt t.
  Proof.
    apply (sweep_induction L ns es Ins Rem q HV HI HQ o Jcnt).
    - exact Jcnt_clear.
    - exact Jcnt_remove.
    - exact Jcnt_insert.
    - exact Jcnt_pos.
  Qed.
End CountInv.
