(* The full quintuply-linked model projects onto the parent-only layer: whenever
   remove_edge / insert_edge return Ok, their effect on parent[] is exactly
   parent[c] := NULL / parent[c] := p. *)
From Coq Require Import List ZArith Bool Lia.
From TskVerif Require Import Base.Common.
From TskVerif Require Import C01.Model.
From TskVerif Require Import C01.ArrayLemmas.
Import ListNotations.
Open Scope Z_scope.

Ltac bind_inv H :=
  match type of H with
  | bind ?r _ = Ok _ =>
      let E := fresh "E" in let a := fresh "a" in
      destruct r as [a| | |] eqn:E; cbn [bind] in H; [|discriminate..]
  end.

Ltac setter_frame := intros H; match type of H with ?f _ _ _ = _ => unfold f in H end;
  bind_inv H; inversion H; reflexivity.

Lemma s_lc_par t u v t' : s_lc t u v = Ok t' -> t_parent t' = t_parent t. Proof. setter_frame. Qed.
Lemma s_rc_par t u v t' : s_rc t u v = Ok t' -> t_parent t' = t_parent t. Proof. setter_frame. Qed.
Lemma s_ls_par t u v t' : s_ls t u v = Ok t' -> t_parent t' = t_parent t. Proof. setter_frame. Qed.
Lemma s_rs_par t u v t' : s_rs t u v = Ok t' -> t_parent t' = t_parent t. Proof. setter_frame. Qed.
Lemma s_nc_par t u v t' : s_nc t u v = Ok t' -> t_parent t' = t_parent t. Proof. setter_frame. Qed.
Lemma s_edge_par t u v t' : s_edge t u v = Ok t' -> t_parent t' = t_parent t. Proof. setter_frame. Qed.
Lemma s_ns_par t u v t' : s_ns t u v = Ok t' -> t_parent t' = t_parent t. Proof. setter_frame. Qed.
Lemma s_nt_par t u v t' : s_nt t u v = Ok t' -> t_parent t' = t_parent t. Proof. setter_frame. Qed.
Lemma s_lsamp_par t u v t' : s_lsamp t u v = Ok t' -> t_parent t' = t_parent t. Proof. setter_frame. Qed.
Lemma s_rsamp_par t u v t' : s_rsamp t u v = Ok t' -> t_parent t' = t_parent t. Proof. setter_frame. Qed.
Lemma s_nsamp_par t u v t' : s_nsamp t u v = Ok t' -> t_parent t' = t_parent t. Proof. setter_frame. Qed.

Lemma s_parent_par t u v t' : s_parent t u v = Ok t' -> set (t_parent t) u v = Ok (t_parent t').
Proof. unfold s_parent. intros H. bind_inv H. inversion H. reflexivity. Qed.

(* rewrite t_parent of intermediate states backwards *)
Ltac frames :=
  repeat match goal with
  | H : s_lc _ _ _ = Ok _ |- _ => apply s_lc_par in H
  | H : s_rc _ _ _ = Ok _ |- _ => apply s_rc_par in H
  | H : s_ls _ _ _ = Ok _ |- _ => apply s_ls_par in H
  | H : s_rs _ _ _ = Ok _ |- _ => apply s_rs_par in H
  | H : s_nc _ _ _ = Ok _ |- _ => apply s_nc_par in H
  | H : s_edge _ _ _ = Ok _ |- _ => apply s_edge_par in H
  | H : s_ns _ _ _ = Ok _ |- _ => apply s_ns_par in H
  | H : s_nt _ _ _ = Ok _ |- _ => apply s_nt_par in H
  | H : s_lsamp _ _ _ = Ok _ |- _ => apply s_lsamp_par in H
  | H : s_rsamp _ _ _ = Ok _ |- _ => apply s_rsamp_par in H
  | H : s_nsamp _ _ _ = Ok _ |- _ => apply s_nsamp_par in H
  | H : s_parent _ _ _ = Ok _ |- _ => apply s_parent_par in H
  end.

Ltac split_ifs := repeat match goal with
  | H : (if ?c then _ else _) = Ok _ |- _ => destruct c
  end.

Lemma remove_branch_par t p c t' :
  remove_branch t p c = Ok t' -> set (t_parent t) c NULL = Ok (t_parent t').
Proof.
  unfold remove_branch. intros H. repeat bind_inv H. split_ifs; frames; congruence.
Qed.

Lemma insert_branch_par t p c t' :
  insert_branch t p c = Ok t' -> set (t_parent t) c p = Ok (t_parent t').
Proof.
  unfold insert_branch. intros H. repeat bind_inv H.
  split_ifs; repeat match goal with H : bind _ _ = Ok _ |- _ => bind_inv H end; frames; congruence.
Qed.

Lemma insert_root_par V t r t' :
  insert_root V t r = Ok t' -> set (t_parent t) r NULL = Ok (t_parent t').
Proof.
  unfold insert_root. intros H. bind_inv H. apply insert_branch_par in E. frames.
  eapply set_set; eauto.
Qed.

Lemma insert_root_par_same V t r t' :
  insert_root V t r = Ok t' -> get (t_parent t) r = Ok NULL -> t_parent t' = t_parent t.
Proof. intros H G. apply insert_root_par in H. eapply set_same; eauto. Qed.

Lemma remove_root_par_same V t r t' :
  remove_root V t r = Ok t' -> get (t_parent t) r = Ok NULL -> t_parent t' = t_parent t.
Proof. unfold remove_root. intros H G. apply remove_branch_par in H. eapply set_same; eauto. Qed.

Lemma propagate_par : forall fuel thr sign t c u pe wr t' pe' wr',
  propagate fuel thr sign t c u pe wr = Ok (t', pe', wr') ->
  t_parent t' = t_parent t /\
  (u <> NULL -> get (t_parent t) pe' = Ok NULL) /\
  (u = NULL -> pe' = pe /\ wr' = wr).
Proof.
  induction fuel as [|f IH]; intros thr sign t c u pe wr t' pe' wr' H; simpl in H.
  - destruct (u =? NULL) eqn:U; [|discriminate]. inversion H; subst.
    apply Z.eqb_eq in U. repeat split; auto; congruence.
  - destruct (u =? NULL) eqn:U.
    + inversion H; subst. apply Z.eqb_eq in U. repeat split; auto; congruence.
    + apply Z.eqb_neq in U.
      bind_inv H. bind_inv H. bind_inv H. bind_inv H. bind_inv H. bind_inv H. bind_inv H.
      apply IH in H as (Q1 & Q2 & Q3). frames.
      assert (PP : t_parent a4 = t_parent t) by congruence.
      split; [congruence|]. split; [|congruence]. intros _.
      destruct (Z.eq_dec a5 NULL) as [N|N].
      * destruct (Q3 N) as [-> _]. rewrite <- PP, <- N. exact E5.
      * rewrite <- PP. auto.
Qed.

Lemma usl_children_par : forall fuel t u v t',
  usl_children fuel t u v = Ok t' -> t_parent t' = t_parent t.
Proof.
  induction fuel as [|f IH]; intros t u v t' H; simpl in H.
  - destruct (v =? NULL); [inversion H; reflexivity | discriminate].
  - destruct (v =? NULL); [inversion H; reflexivity|].
    bind_inv H. bind_inv H. bind_inv H. apply IH in H. rewrite H.
    destruct (negb (a =? NULL)); [|inversion E0; reflexivity].
    bind_inv E0. destruct (a2 =? NULL); [discriminate|]. bind_inv E0.
    destruct (a3 =? NULL).
    + bind_inv E0. frames. congruence.
    + bind_inv E0. bind_inv E0. frames. congruence.
Qed.

Lemma update_sample_lists_par : forall fuel simap t u t',
  update_sample_lists fuel simap t u = Ok t' -> t_parent t' = t_parent t.
Proof.
  induction fuel as [|f IH]; intros simap t u t' H; simpl in H.
  - destruct (u =? NULL); [inversion H; reflexivity | discriminate].
  - destruct (u =? NULL); [inversion H; reflexivity|].
    bind_inv H. bind_inv H. bind_inv H. bind_inv H. bind_inv H.
    apply IH in H. apply usl_children_par in E2. rewrite H, E2.
    destruct (negb (a =? NULL)).
    + bind_inv E0. frames. congruence.
    + bind_inv E0. frames. congruence.
Qed.

Lemma cond_remove_root_end_par V thr t wr pe t' :
  cond_remove_root_end V thr t wr pe = Ok t' ->
  (wr = true -> get (t_parent t) pe = Ok NULL) -> t_parent t' = t_parent t.
Proof.
  unfold cond_remove_root_end. intros H G. destruct wr; [|inversion H; reflexivity].
  bind_inv H. destruct (negb (thr <=? a)); [|inversion H; reflexivity].
  eapply remove_root_par_same; eauto.
Qed.

Lemma cond_insert_root_c_par V thr t c t' :
  cond_insert_root_c V thr t c = Ok t' -> get (t_parent t) c = Ok NULL -> t_parent t' = t_parent t.
Proof.
  unfold cond_insert_root_c. intros H G. bind_inv H.
  destruct (thr <=? a); [|inversion H; reflexivity]. eapply insert_root_par_same; eauto.
Qed.

Lemma cond_remove_root_c_par V thr t c t' :
  cond_remove_root_c V thr t c = Ok t' ->
  t_parent t' = t_parent t \/ set (t_parent t) c NULL = Ok (t_parent t').
Proof.
  unfold cond_remove_root_c. intros H. bind_inv H.
  destruct (thr <=? a); [|inversion H; left; reflexivity].
  right. unfold remove_root in H. now apply remove_branch_par in H.
Qed.

Lemma cond_insert_root_end_par V thr t wr pe t' :
  cond_insert_root_end V thr t wr pe = Ok t' ->
  get (t_parent t) pe = Ok NULL -> t_parent t' = t_parent t.
Proof.
  unfold cond_insert_root_end. intros H G. bind_inv H.
  destruct ((thr <=? a) && negb wr); [|inversion H; reflexivity].
  eapply insert_root_par_same; eauto.
Qed.

Lemma cond_insert_root_end_inrange V thr t wr pe t' :
  cond_insert_root_end V thr t wr pe = Ok t' -> pe <> NULL.
Proof.
  unfold cond_insert_root_end. intros H. bind_inv H. intros ->. unfold get in E. simpl in E. discriminate.
Qed.

Lemma cond_lists_par lists simap t p t' :
  cond_lists lists simap t p = Ok t' -> t_parent t' = t_parent t.
Proof.
  unfold cond_lists. destruct lists; [|intros H; inversion H; reflexivity].
  apply update_sample_lists_par.
Qed.

Lemma remove_edge_par q o t p c t' :
  remove_edge q o t p c = Ok t' -> set (t_parent t) c NULL = Ok (t_parent t').
Proof.
  unfold remove_edge. intros H.
  bind_inv H. rename a into t0. apply remove_branch_par in E.
  bind_inv H. rename a into t1. apply s_edge_par in E0. simpl in E0.
  bind_inv H. destruct a as [[t2 pe] wr]. apply propagate_par in E1 as (Q1 & Q2 & Q3).
  bind_inv H. rename a into t3. bind_inv H. rename a into t4.
  apply cond_lists_par in H.
  assert (P2 : t_parent t2 = t_parent t0) by congruence.
  assert (GC : get (t_parent t0) c = Ok NULL) by (eapply get_set_same; eauto).
  assert (P3 : t_parent t3 = t_parent t2).
  { eapply cond_remove_root_end_par; eauto. intros ->.
    destruct (Z.eq_dec p NULL) as [N|N].
    - destruct (Q3 N) as [_ X]. discriminate.
    - rewrite Q1. auto. }
  assert (P4 : t_parent t4 = t_parent t3).
  { eapply cond_insert_root_c_par; eauto. congruence. }
  rewrite H, P4, P3, P2. exact E.
Qed.

Lemma insert_edge_par q o t p c e t' :
  insert_edge q o t p c e = Ok t' -> set (t_parent t) c p = Ok (t_parent t').
Proof.
  unfold insert_edge. intros H.
  bind_inv H. destruct a as [[t1 pe] wr]. apply propagate_par in E as (Q1 & Q2 & Q3).
  bind_inv H. rename a into t2. bind_inv H. rename a into t3.
  bind_inv H. rename a into t4. bind_inv H. rename a into t5.
  apply cond_lists_par in H. apply s_edge_par in E2. simpl in E2.
  apply insert_branch_par in E1.
  pose proof (cond_insert_root_end_inrange _ _ _ _ _ _ E0) as NPE.
  assert (NP : p <> NULL). { intros N. destruct (Q3 N) as [X _]. congruence. }
  specialize (Q2 NP). rewrite <- Q1 in Q2.
  pose proof (cond_remove_root_c_par _ _ _ _ _ E) as P1.
  assert (G0 : get (t_parent t2) pe = Ok NULL).
  { destruct P1 as [->|S]; [exact Q2|].
    rewrite (get_set _ _ _ pe _ S). destruct (pe =? c); [reflexivity | exact Q2]. }
  pose proof (cond_insert_root_end_par _ _ _ _ _ _ E0 G0) as P2.
  rewrite H, E2. rewrite P2 in E1. rewrite <- Q1.
  destruct P1 as [P1|S]; [rewrite <- P1; exact E1|].
  eapply set_set; eauto.
Qed.

Lemma remove_edges_par q o : forall l t t',
  remove_edges q o t l = Ok t' -> par_remove (t_parent t) l = Ok (t_parent t').
Proof.
  induction l as [|[i e] r IH]; intros t t' H; simpl in H.
  - inversion H; reflexivity.
  - bind_inv H. apply remove_edge_par in E. simpl. rewrite E. simpl. auto.
Qed.

Lemma insert_edges_par q o : forall l t t',
  insert_edges q o t l = Ok t' -> par_insert (t_parent t) l = Ok (t_parent t').
Proof.
  induction l as [|[i e] r IH]; intros t t' H; simpl in H.
  - inversion H; reflexivity.
  - bind_inv H. apply insert_edge_par in E. simpl. rewrite E. simpl. auto.
Qed.

Lemma insert_roots_par V : forall ss t t',
  insert_roots V t ss = Ok t' ->
  (forall u, 0 <= u < zlen (t_parent t) -> get (t_parent t) u = Ok NULL) ->
  t_parent t' = t_parent t.
Proof.
  induction ss as [|s r IH]; intros t t' H G; simpl in H.
  - inversion H; reflexivity.
  - bind_inv H. pose proof E as E'. apply insert_root_par in E'.
    assert (t_parent a = t_parent t).
    { eapply insert_root_par_same; eauto. apply G. eapply set_inv; eauto. }
    rewrite <- H0. apply IH; [exact H|]. rewrite H0. exact G.
Qed.

Ltac setter_pos := intros H; match type of H with ?f _ _ _ = _ => unfold f in H end;
  bind_inv H; inversion H; reflexivity.
Lemma s_parent_pos t u v t' : s_parent t u v = Ok t' -> t_pos t' = t_pos t. Proof. setter_pos. Qed.
Lemma s_lc_pos t u v t' : s_lc t u v = Ok t' -> t_pos t' = t_pos t. Proof. setter_pos. Qed.
Lemma s_rc_pos t u v t' : s_rc t u v = Ok t' -> t_pos t' = t_pos t. Proof. setter_pos. Qed.
Lemma s_ls_pos t u v t' : s_ls t u v = Ok t' -> t_pos t' = t_pos t. Proof. setter_pos. Qed.
Lemma s_rs_pos t u v t' : s_rs t u v = Ok t' -> t_pos t' = t_pos t. Proof. setter_pos. Qed.
Lemma s_nc_pos t u v t' : s_nc t u v = Ok t' -> t_pos t' = t_pos t. Proof. setter_pos. Qed.

Ltac pos_frames :=
  repeat match goal with
  | H : s_parent _ _ _ = Ok _ |- _ => apply s_parent_pos in H
  | H : s_lc _ _ _ = Ok _ |- _ => apply s_lc_pos in H
  | H : s_rc _ _ _ = Ok _ |- _ => apply s_rc_pos in H
  | H : s_ls _ _ _ = Ok _ |- _ => apply s_ls_pos in H
  | H : s_rs _ _ _ = Ok _ |- _ => apply s_rs_pos in H
  | H : s_nc _ _ _ = Ok _ |- _ => apply s_nc_pos in H
  end.

Lemma insert_branch_pos t p c t' : insert_branch t p c = Ok t' -> t_pos t' = t_pos t.
Proof.
  unfold insert_branch. intros H.
  bind_inv H. bind_inv H. bind_inv H. bind_inv H. bind_inv H.
  assert (P1 : t_pos a1 = t_pos a).
  { destruct (a0 =? NULL).
    - bind_inv E1. bind_inv E1. pos_frames. congruence.
    - bind_inv E1. bind_inv E1. pos_frames. congruence. }
  pos_frames. congruence.
Qed.

Lemma insert_roots_pos V : forall ss t t', insert_roots V t ss = Ok t' -> t_pos t' = t_pos t.
Proof.
  induction ss as [|s r IH]; intros t t' H; simpl in H.
  - inversion H; reflexivity.
  - bind_inv H. unfold insert_root in E. bind_inv E. apply insert_branch_pos in E0.
    pos_frames. apply IH in H. congruence.
Qed.

Lemma tree_clear_par q o t :
  tree_clear q o = Ok t ->
  t_parent t = repeat NULL (Z.to_nat (q_N q + 1)) /\ t_pos t = null_pos.
Proof.
  unfold tree_clear. intros H.
  bind_inv H. bind_inv H. bind_inv H. bind_inv H. bind_inv H.
  match type of H with (if ?c then _ else _) = _ => destruct c end.
  - split.
    + apply insert_roots_par in H; [exact H|]. simpl. intros u Hu.
      apply get_repeat. unfold zlen in Hu. rewrite repeat_length in Hu. lia.
    + apply insert_roots_pos in H. exact H.
  - inversion H; subst; simpl. split; reflexivity.
Qed.
