(* Tree.timeasc / timedesc: a permutation of the preorder, sorted by (virtual root last, time, id). *)
From Coq Require Import List ZArith Bool Lia Sorting.Sorted Permutation.
From TskVerif Require Import Base.Common.
From TskVerif Require Import C01.Model.
From TskVerif Require Import C01.ProjProofs.
From TskVerif Require Import C01.SweepProofs.
From TskVerif Require Import C01.IndexProofs.
Import ListNotations.
Open Scope Z_scope.

Definition kle (a b : key4) : Prop := key4_leb a b = true.

Lemma key4_leb_total a b : key4_leb a b = false -> key4_leb b a = true.
Proof.
  destruct a as [[[a1 a2] a3] a4], b as [[[b1 b2] b3] b4]. simpl.
  repeat match goal with |- context [?x <? ?y] => destruct (Z.ltb_spec x y) end;
    try discriminate; try reflexivity; try lia;
    intros H; try (apply Z.leb_gt in H); try (apply Z.leb_le; lia); try lia.
Qed.

Lemma key4_leb_trans a b c : key4_leb a b = true -> key4_leb b c = true -> key4_leb a c = true.
Proof.
  destruct a as [[[a1 a2] a3] a4], b as [[[b1 b2] b3] b4], c as [[[c1 c2] c3] c4]. simpl.
  repeat match goal with |- context [?x <? ?y] => destruct (Z.ltb_spec x y) end;
    try discriminate; try reflexivity; try lia;
    intros H1 H2; try (apply Z.leb_le in H1); try (apply Z.leb_le in H2); try (apply Z.leb_le); lia.
Qed.

Definition kle2 (x y : key4 * Z) : Prop := kle (fst x) (fst y).

Lemma ins_sorted_full x l : StronglySorted kle2 l -> StronglySorted kle2 (ins_sorted x l).
Proof.
  induction l as [|y r IH]; simpl; intros H.
  - constructor; constructor.
  - apply StronglySorted_inv in H as [H1 H2]. rewrite Forall_forall in H2.
    destruct (key4_leb (fst x) (fst y)) eqn:E.
    + constructor; [constructor; [exact H1 | apply Forall_forall; exact H2]|].
      apply Forall_forall. intros z [<-|Hz]; [exact E|].
      unfold kle2, kle. eapply key4_leb_trans; [exact E | apply (H2 z Hz)].
    + constructor; [apply IH; exact H1|].
      apply Forall_forall. intros z Hz. eapply Permutation_in in Hz; [|apply ins_sorted_perm].
      destruct Hz as [<-|Hz]; [apply key4_leb_total; exact E | apply (H2 z Hz)].
Qed.

Lemma isort_sorted_full l : StronglySorted kle2 (isort l).
Proof. induction l as [|x r IH]; simpl; [constructor | apply ins_sorted_full; exact IH]. Qed.

Lemma mapM_keys {A} (f : Z -> res A) : forall l ks,
  mapM (fun u => do k <- f u; Ok (k, u)) l = Ok ks ->
  map snd ks = l /\ forall k u, In (k, u) ks -> f u = Ok k.
Proof.
  induction l as [|x r IH]; intros ks H; simpl in H.
  - inversion H; subst. split; [reflexivity | intros ? ? []].
  - bind_inv H. bind_inv E. inversion E; subst a. bind_inv H. inversion H; subst ks. clear H E.
    destruct (IH _ eq_refl) as [M G]. split; [simpl; now rewrite M|].
    intros k u [X|X]; [inversion X; subst; assumption | eauto].
Qed.

Lemma timeasc_spec q t root l :
  timeasc q t root = Ok l ->
  exists pre ks,
    preorder_from (q_N q) t root = Ok pre /\ Permutation l pre /\
    Forall2 (fun u k => tkey q u = Ok k) l ks /\ StronglySorted kle ks.
Proof.
  unfold timeasc. intros H. bind_inv H. rename a into pre. bind_inv H. rename a into ks0.
  inversion H; subst l. clear H.
  destruct (mapM_keys (tkey q) pre ks0 E0) as [M G].
  exists pre, (map fst (isort ks0)). split; [reflexivity|]. split.
  - rewrite <- M. apply Permutation_map. apply isort_perm.
  - assert (GI : forall k u, In (k, u) (isort ks0) -> tkey q u = Ok k).
    { intros k u Hin. apply G. eapply Permutation_in; [apply isort_perm | exact Hin]. }
    pose proof (isort_sorted_full ks0) as S. revert GI S. generalize (isort ks0). clear.
    induction l as [|[k u] r IH]; intros GI S; simpl.
    + split; constructor.
    + apply StronglySorted_inv in S as [S1 S2]. destruct (IH (fun k' u' H' => GI k' u' (or_intror H')) S1) as [F SS].
      split; [constructor; [apply GI; left; reflexivity | exact F]|].
      constructor; [exact SS|]. rewrite Forall_forall in S2. apply Forall_forall.
      intros k' Hk'. apply in_map_iff in Hk' as ([k2 u2] & <- & Hin). exact (S2 _ Hin).
Qed.

Lemma timedesc_spec q t root l :
  timedesc q t root = Ok l -> exists a, timeasc q t root = Ok a /\ l = rev a.
Proof. unfold timedesc. intros H. bind_inv H. inversion H. eauto. Qed.
