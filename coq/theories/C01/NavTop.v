(* Navigation: the top-level statements (see Props/C01.v) and non-vacuity examples. *)
From Coq Require Import List ZArith Bool Lia Sorting.Sorted Permutation.
From TskVerif Require Import Base.Common.
From TskVerif Require Import C01.Model.
From TskVerif Require Import C01.NavModel.
From TskVerif Require Import C01.ArrayLemmas.
From TskVerif Require Import C01.SweepProofs.
From TskVerif Require Import C01.ParentProofs.
From TskVerif Require Import C01.ProjProofs.
From TskVerif Require Import C01.TreeProofs.
From TskVerif Require Import C01.NumEdgesProofs.
From TskVerif Require Import C01.NavScanProofs.
From TskVerif Require Import C01.NavPosProofs.
From TskVerif Require Import C01.NavMoveProofs.
From TskVerif Require Import C01.NavProofs.
Import ListNotations.
Open Scope Z_scope.

(* after ANY history: position, bookmarks, parent array, index *)
Lemma nav_state_exact_lemma L ns es Ins Rem q :
  valid_edgesb L ns es = true -> index_sorted es Ins Rem -> mk_tseq L ns es Ins Rem = Ok q ->
  forall o s0 ops s, nav_fresh q o = Ok s0 -> nav_run q o s0 ops = Ok s ->
  hist_spec q (-1) ops (n_index (v_pos s)) /\
  ((n_index (v_pos s) = -1 /\ n_left (v_pos s) = 0 /\ n_right (v_pos s) = 0 /\
    forall u, 0 <= u < zlen ns -> get (t_parent (v_tree s)) u = Ok NULL) \/
   (exists i, PosAt q (v_pos s) i /\
      forall x, n_left (v_pos s) <= x < n_right (v_pos s) ->
      forall u, 0 <= u < zlen ns -> get (t_parent (v_tree s)) u = Ok (parent_at es x u))).
Proof.
  intros HVb HI HQ o s0 ops s F R.
  destruct (nav_invariant L ns es Ins Rem q HVb HI HQ o (fun _ => True)) with (s0 := s0) (ops := ops) (s := s)
    as [[_ I] HS]; auto.
  split; [exact HS|].
  destruct I as [(A & B & C & (_ & D))|(i & PA & G)]; [left; auto|right].
  exists i. split; [exact PA|]. intros x Hx. apply (G x Hx).
Qed.

(* any local tree invariant carries over to arbitrary histories *)
Lemma nav_induction_lemma L ns es Ins Rem q :
  valid_edgesb L ns es = true -> index_sorted es Ins Rem -> mk_tseq L ns es Ins Rem = Ok q ->
  forall o (J : tree -> Prop),
  (forall t, tree_clear q o = Ok t -> J t) ->
  (forall t t', J t -> tree_clear_from q o t = Ok t' -> J t') ->
  (forall t e t', J t -> In e es -> get (t_parent t) (echild e) = Ok (eparent e) ->
     remove_edge q o t (eparent e) (echild e) = Ok t' -> J t') ->
  (forall t e i t', J t -> In e es -> get (t_parent t) (echild e) = Ok NULL ->
     insert_edge q o t (eparent e) (echild e) i = Ok t' -> J t') ->
  forall s0 ops s, nav_fresh q o = Ok s0 -> nav_run q o s0 ops = Ok s -> J (v_tree s).
Proof.
  intros HVb HI HQ o J J1 J2 J3 J4 s0 ops s F R.
  destruct (nav_invariant L ns es Ins Rem q HVb HI HQ o J J1 J2 J3 J4 s0 ops s F R) as [[Jt _] _]. exact Jt.
Qed.

Lemma tree_clear_from_n q o t0 t : tree_clear_from q o t0 = Ok t -> t_num_edges t = 0.
Proof.
  unfold tree_clear_from. intros H.
  bind_inv H. bind_inv H. bind_inv H. bind_inv H. bind_inv H. bind_inv H. bind_inv H.
  match type of H with (if ?c then _ else _) = _ => destruct c end.
  - apply insert_roots_n in H. exact H.
  - inversion H; subst; reflexivity.
Qed.

(* instance: num_edges is the number of nodes with a parent, after any history *)
Lemma nav_num_edges_lemma L ns es Ins Rem q :
  valid_edgesb L ns es = true -> index_sorted es Ins Rem -> mk_tseq L ns es Ins Rem = Ok q ->
  forall o s0 ops s, nav_fresh q o = Ok s0 -> nav_run q o s0 ops = Ok s ->
  t_num_edges (v_tree s) = nparents (t_parent (v_tree s)).
Proof.
  intros HVb HI HQ o. pose proof (valid_edgesb_spec _ _ _ HVb) as HV.
  apply (nav_induction_lemma L ns es Ins Rem q HVb HI HQ o (fun t => t_num_edges t = nparents (t_parent t))).
  - intros t H. rewrite (tree_clear_n _ _ _ H).
    destruct (tree_clear_par _ _ _ H) as [-> _]. now rewrite nparents_repeat.
  - intros t t' _ H. rewrite (tree_clear_from_n _ _ _ _ H), (tree_clear_from_par _ _ _ _ H).
    now rewrite nparents_repeat.
  - intros t e t' J He GP H.
    rewrite (remove_edge_n _ _ _ _ _ _ H).
    rewrite (nparents_set _ _ _ _ _ (remove_edge_par _ _ _ _ _ _ H) GP).
    destruct (ve_ok _ _ _ HV e He) as (_ & _ & _ & Hp & _).
    replace (eparent e =? NULL) with false by (symmetry; apply Z.eqb_neq; unfold NULL; lia).
    simpl. lia.
  - intros t e i t' J He GP H.
    rewrite (insert_edge_n _ _ _ _ _ _ _ H).
    rewrite (nparents_set _ _ _ _ _ (insert_edge_par _ _ _ _ _ _ _ H) GP).
    destruct (ve_ok _ _ _ HV e He) as (_ & _ & _ & Hp & _).
    replace (eparent e =? NULL) with false by (symmetry; apply Z.eqb_neq; unfold NULL; lia).
    simpl. lia.
Qed.

(* from canonical bookmarks, next() hands the tree exactly the edges that end / start at the
   new left end, and leaves canonical bookmarks *)
Lemma bookmarks_next_lemma L ns es Ins Rem q :
  valid_edgesb L ns es = true -> index_sorted es Ins Rem -> mk_tseq L ns es Ins Rem = Ok q ->
  forall p i, PosAt q p i -> i + 1 < q_ntrees q ->
  exists p', npos_next q p = Ok (p', true) /\ PosAt q p' (i + 1) /\ n_left p' = n_right p /\
    b_rem (n_out p') = true /\ b_rem (n_in p') = false /\
    (forall ie, (exists k, b_start (n_out p') <= k < b_stop (n_out p') /\ get (q_O q) k = Ok ie) <->
                In ie (q_O q) /\ iright ie = n_right p) /\
    (forall ie, (exists k, b_start (n_in p') <= k < b_stop (n_in p') /\ get (q_I q) k = Ok ie) <->
                In ie (q_I q) /\ ileft ie = n_right p).
Proof.
  intros HVb HI HQ p i PA Hi.
  destruct (next_pos L ns es Ins Rem q HVb HI HQ p i PA Hi) as (p' & E & PA' & Lp & EO & EI).
  exists p'. split; [exact E|]. split; [exact PA'|]. split; [exact Lp|]. rewrite EO, EI. simpl.
  split; [reflexivity|]. split; [reflexivity|]. split; intros ie.
  - apply between_cuts. exact (sortedO L ns es Ins Rem q HI HQ).
  - apply between_cuts. exact (sortedI L ns es Ins Rem q HI HQ).
Qed.

Lemma bookmarks_prev_lemma L ns es Ins Rem q :
  valid_edgesb L ns es = true -> index_sorted es Ins Rem -> mk_tseq L ns es Ins Rem = Ok q ->
  forall p i, PosAt q p i -> 0 < i ->
  exists p', npos_prev q p = Ok (p', true) /\ PosAt q p' (i - 1) /\ n_right p' = n_left p /\
    b_rem (n_out p') = false /\ b_rem (n_in p') = true /\
    (forall ie, (exists k, b_stop (n_out p') < k <= b_start (n_out p') /\ get (q_I q) k = Ok ie) <->
                In ie (q_I q) /\ ileft ie = n_left p) /\
    (forall ie, (exists k, b_stop (n_in p') < k <= b_start (n_in p') /\ get (q_O q) k = Ok ie) <->
                In ie (q_O q) /\ iright ie = n_left p).
Proof.
  intros HVb HI HQ p i PA Hi.
  destruct (prev_pos L ns es Ins Rem q HVb HI HQ p i PA Hi) as (p' & E & PA' & Lp & EO & EI).
  exists p'. split; [exact E|]. split; [exact PA'|]. split; [exact Lp|]. rewrite EO, EI. simpl.
  split; [reflexivity|]. split; [reflexivity|]. split; intros ie.
  - rewrite <- (between_cuts ileft (q_I q) (n_left p) ie (sortedI L ns es Ins Rem q HI HQ)).
    unfold cI. split; intros (k & Hk & G); exists k; (split; [lia | exact G]).
  - rewrite <- (between_cuts iright (q_O q) (n_left p) ie (sortedO L ns es Ins Rem q HI HQ)).
    unfold cO. split; intros (k & Hk & G); exists k; (split; [lia | exact G]).
Qed.

(* a seek from the null state, in either direction, leaves canonical bookmarks on the sought tree *)
Lemma seek_bookmarks_lemma L ns es Ins Rem q :
  valid_edgesb L ns es = true -> index_sorted es Ins Rem -> mk_tseq L ns es Ins Rem = Ok q ->
  forall p i, n_index p = -1 -> 0 <= i < q_ntrees q ->
  (exists p', npos_seek_forward q p i = Ok p' /\ PosAt q p' i) /\
  (exists p', npos_seek_backward q p i = Ok p' /\ PosAt q p' i).
Proof.
  intros HVb HI HQ p i Ix Hi.
  destruct (bps_get L ns es Ins Rem q HVb HI HQ i ltac:(lia)) as [l Gl].
  destruct (bps_get L ns es Ins Rem q HVb HI HQ (i + 1) ltac:(lia)) as [r Gr].
  split.
  - destruct (seek_forward_null L ns es Ins Rem q HVb HI HQ p i l r Ix Hi Gl Gr) as (p' & j1 & E & PA & _).
    exists p'. auto.
  - destruct (seek_backward_null L ns es Ins Rem q HVb HI HQ p i l r Ix Hi Gl Gr) as (p' & j1 & E & PA & _).
    exists p'. auto.
Qed.

(* ---- non-vacuity: a sequence with a long edge-less tail; seek into the tail from a fresh
   tree (forward, x <= L/2), then prev(), next(), seek back, last, prev ---- *)
Definition ex_nav_ns := [mkNode true 0; mkNode true 0; mkNode false 1].
Definition ex_nav_es := [mkEdge 0 1 2 0; mkEdge 0 1 2 1].
Definition ex_nav_o := mkOpts 1 false [].

Definition ex_nav_run (ops : list (Z * Z)) : res (list (list Z)) :=
  do q <- load 4 ex_nav_ns ex_nav_es;
  do s <- nav_fresh q ex_nav_o;
  do s' <- nav_run q ex_nav_o s ops;
  Ok (firstn 2 (obs_nav ex_nav_o s')).

Example ex_nav_seek_prev :
  ex_nav_run [(5, 1); (1, 0)] = Ok [[0; 0; 1; 2]; [2; 2; -1; -1]].
Proof. vm_compute. reflexivity. Qed.

Example ex_nav_seek_back_next :
  ex_nav_run [(5, 3); (1, 0); (0, 0); (5, 0)] = Ok [[0; 0; 1; 2]; [2; 2; -1; -1]].
Proof. vm_compute. reflexivity. Qed.

Example ex_nav_reject :
  ex_nav_run [(3, 0); (5, 4); (6, -3); (1, 0)] = Ok [[0; 0; 1; 2]; [2; 2; -1; -1]].
Proof. vm_compute. reflexivity. Qed.
