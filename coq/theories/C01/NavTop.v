(* Navigation: the top-level statements (see Props/C01.v) and non-vacuity examples. *)
From Coq Require Import List ZArith Bool Lia Sorting.Sorted Permutation.
From TskVerif Require Import Base.Common.
From TskVerif Require Import C01.Model.
From TskVerif Require Import C01.NavModel.
From TskVerif Require Import C01.ArrayLemmas.
From TskVerif Require Import C01.SweepProofs.
From TskVerif Require Import C01.ParentProofs.
From TskVerif Require Import C01.ProjProofs.
From TskVerif Require Import C01.TreeProofs.
From TskVerif Require Import C01.NumEdgesProofs.
From TskVerif Require Import C01.NavScanProofs.
From TskVerif Require Import C01.NavPosProofs.
From TskVerif Require Import C01.NavMoveProofs.
From TskVerif Require Import C01.NavProofs.
Import ListNotations.
Open Scope Z_scope.

(* after ANY history: position, bookmarks, parent array, index *)
Lemma nav_state_exact_lemma L ns es Ins Rem q :
  valid_edgesb L ns es = true -> index_sorted es Ins Rem -> mk_tseq L ns es Ins Rem = Ok q ->
  forall o s0 ops s, nav_fresh q o = Ok s0 -> nav_run q o s0 ops = Ok s ->
  hist_spec q (-1) ops (n_index (v_pos s)) /\
  ((n_index (v_pos s) = -1 /\ n_left (v_pos s) = 0 /\ n_right (v_pos s) = 0 /\
    forall u, 0 <= u < zlen ns -> get (t_parent (v_tree s)) u = Ok NULL) \/
   (exists i, PosAt q (v_pos s) i /\
      forall x, n_left (v_pos s) <= x < n_right (v_pos s) ->
      forall u, 0 <= u < zlen ns -> get (t_parent (v_tree s)) u = Ok (parent_at es x u))).
Proof.
  intros HVb HI HQ o s0 ops s F R.
  destruct (nav_invariant L ns es Ins Rem q HVb HI HQ o (fun _ => True)) with (s0 := s0) (ops := ops) (s := s)
    as [[_ I] HS]; auto.
  split; [exact HS|].
  destruct I as [(A & B & C & (_ & D))|(i & PA & G)]; [left; auto|right].
  exists i. split; [exact PA|]. intros x Hx. apply (G x Hx).
Qed.

(* any local tree invariant carries over to arbitrary histories *)
Lemma nav_induction_lemma L ns es Ins Rem q :
  valid_edgesb L ns es = true -> index_sorted es Ins Rem -> mk_tseq L ns es Ins Rem = Ok q ->
  forall o (J : tree -> Prop),
  (forall t, tree_clear q o = Ok t -> J t) ->
  (forall t t', J t -> tree_clear_from q o t = Ok t' -> J t') ->
  (forall t e t', J t -> In e es -> get (t_parent t) (echild e) = Ok (eparent e) ->
     remove_edge q o t (eparent e) (echild e) = Ok t' -> J t') ->
  (forall t e i t', J t -> In e es -> get (t_parent t) (echild e) = Ok NULL ->
     insert_edge q o t (eparent e) (echild e) i = Ok t' -> J t') ->
  forall s0 ops s, nav_fresh q o = Ok s0 -> nav_run q o s0 ops = Ok s -> J (v_tree s).
Proof.
  intros HVb HI HQ o J J1 J2 J3 J4 s0 ops s F R.
  destruct (nav_invariant L ns es Ins Rem q HVb HI HQ o J J1 J2 J3 J4 s0 ops s F R) as [[Jt _] _]. exact Jt.
Qed.

Lemma tree_clear_from_n q o t0 t : tree_clear_from q o t0 = Ok t -> t_num_edges t = 0.
Proof.
  unfold tree_clear_from. intros H.
  bind_inv H. bind_inv H. bind_inv H. bind_inv H. bind_inv H. bind_inv H. bind_inv H.
  match type of H with (if ?c then _ else _) = _ => destruct c end.
  - apply insert_roots_n in H. exact H.
  - inversion H; subst; reflexivity.
Qed.

(* instance: num_edges is the number of nodes with a parent, after any history *)
Lemma nav_num_edges_lemma L ns es Ins Rem q :
  valid_edgesb L ns es = true -> index_sorted es Ins Rem -> mk_tseq L ns es Ins Rem = Ok q ->
  forall o s0 ops s, nav_fresh q o = Ok s0 -> nav_run q o s0 ops = Ok s ->
  t_num_edges (v_tree s) = nparents (t_parent (v_tree s)).
Proof.
  intros HVb HI HQ o. pose proof (valid_edgesb_spec _ _ _ HVb) as HV.
  apply (nav_induction_lemma L ns es Ins Rem q HVb HI HQ o (fun t => t_num_edges t = nparents (t_parent t))).
  - intros t H. rewrite (tree_clear_n _ _ _ H).
    destruct (tree_clear_par _ _ _ H) as [-> _]. now rewrite nparents_repeat.
  - intros t t' _ H. rewrite (tree_clear_from_n _ _ _ _ H), (tree_clear_from_par _ _ _ _ H).
    now rewrite nparents_repeat.
  - intros t e t' J He GP H.
    rewrite (remove_edge_n _ _ _ _ _ _ H).
    rewrite (nparents_set _ _ _ _ _ (remove_edge_par _ _ _ _ _ _ H) GP).
    destruct (ve_ok _ _ _ HV e He) as (_ & _ & _ & Hp & _).
    replace (eparent e =? NULL) with false by (symmetry; apply Z.eqb_neq; unfold NULL; lia).
    simpl. lia.
  - intros t e i t' J He GP H.
    rewrite (insert_edge_n _ _ _ _ _ _ _ H).
    rewrite (nparents_set _ _ _ _ _ (insert_edge_par _ _ _ _ _ _ _ H) GP).
    destruct (ve_ok _ _ _ HV e He) as (_ & _ & _ & Hp & _).
    replace (eparent e =? NULL) with false by (symmetry; apply Z.eqb_neq; unfold NULL; lia).
    simpl. lia.
Qed.

(* from canonical bookmarks, next() hands the tree exactly the edges that end / start at the
   new left end, and leaves canonical bookmarks *)
Lemma bookmarks_next_lemma L ns es Ins Rem q :
  valid_edgesb L ns es = true -> index_sorted es Ins Rem -> mk_tseq L ns es Ins Rem = Ok q ->
  forall p i, PosAt q p i -> i + 1 < q_ntrees q ->
  exists p', npos_next q p = Ok (p', true) /\ PosAt q p' (i + 1) /\ n_left p' = n_right p /\
    b_rem (n_out p') = true /\ b_rem (n_in p') = false /\
    (forall ie, (exists k, b_start (n_out p') <= k < b_stop (n_out p') /\ get (q_O q) k = Ok ie) <->
                In ie (q_O q) /\ iright ie = n_right p) /\
    (forall ie, (exists k, b_start (n_in p') <= k < b_stop (n_in p') /\ get (q_I q) k = Ok ie) <->
                In ie (q_I q) /\ ileft ie = n_right p).
Proof.
  intros HVb HI HQ p i PA Hi.
  destruct (next_pos L ns es Ins Rem q HVb HI HQ p i PA Hi) as (p' & E & PA' & Lp & EO & EI).
  exists p'. split; [exact E|]. split; [exact PA'|]. split; [exact Lp|]. rewrite EO, EI. simpl.
  split; [reflexivity|]. split; [reflexivity|]. split; intros ie.
  - apply between_cuts. exact (sortedO L ns es Ins Rem q HI HQ).
  - apply between_cuts. exact (sortedI L ns es Ins Rem q HI HQ).
Qed.

Lemma bookmarks_prev_lemma L ns es Ins Rem q :
  valid_edgesb L ns es = true -> index_sorted es Ins Rem -> mk_tseq L ns es Ins Rem = Ok q ->
  forall p i, PosAt q p i -> 0 < i ->
  exists p', npos_prev q p = Ok (p', true) /\ PosAt q p' (i - 1) /\ n_right p' = n_left p /\
    b_rem (n_out p') = false /\ b_rem (n_in p') = true /\
    (forall ie, (exists k, b_stop (n_out p') < k <= b_start (n_out p') /\ get (q_I q) k = Ok ie) <->
                In ie (q_I q) /\ ileft ie = n_left p) /\
    (forall ie, (exists k, b_stop (n_in p') < k <= b_start (n_in p') /\ get (q_O q) k = Ok ie) <->
                In ie (q_O q) /\ iright ie = n_left p).
Proof.
  intros HVb HI HQ p i PA Hi.
  destruct (prev_pos L ns es Ins Rem q HVb HI HQ p i PA Hi) as (p' & E & PA' & Lp & EO & EI).
  exists p'. split; [exact E|]. split; [exact PA'|]. split; [exact Lp|]. rewrite EO, EI. simpl.
  split; [reflexivity|]. split; [reflexivity|]. split; intros ie.
  - rewrite <- (between_cuts ileft (q_I q) (n_left p) ie (sortedI L ns es Ins Rem q HI HQ)).
    unfold cI. split; intros (k & Hk & G); exists k; (split; [lia | exact G]).
  - rewrite <- (between_cuts iright (q_O q) (n_left p) ie (sortedO L ns es Ins Rem q HI HQ)).
    unfold cO. split; intros (k & Hk & G); exists k; (split; [lia | exact G]).
Qed.

(* a seek from the null state, in either direction, leaves canonical bookmarks on the sought tree *)
Lemma seek_bookmarks_lemma L ns es Ins Rem q :
  valid_edgesb L ns es = true -> index_sorted es Ins Rem -> mk_tseq L ns es Ins Rem = Ok q ->
  forall p i, n_index p = -1 -> 0 <= i < q_ntrees q ->
  (exists p', npos_seek_forward q p i = Ok p' /\ PosAt q p' i) /\
  (exists p', npos_seek_backward q p i = Ok p' /\ PosAt q p' i).
Proof.
  intros HVb HI HQ p i Ix Hi.
  destruct (bps_get L ns es Ins Rem q HVb HI HQ i ltac:(lia)) as [l Gl].
  destruct (bps_get L ns es Ins Rem q HVb HI HQ (i + 1) ltac:(lia)) as [r Gr].
  split.
  - destruct (seek_forward_null L ns es Ins Rem q HVb HI HQ p i l r Ix Hi Gl Gr) as (p' & j1 & E & PA & _).
    exists p'. auto.
  - destruct (seek_backward_null L ns es Ins Rem q HVb HI HQ p i l r Ix Hi Gl Gr) as (p' & j1 & E & PA & _).
    exists p'. auto.
Qed.

(* the position machine is total: every history of position operations returns a position, which
   is null or canonical on an existing tree (no out-of-bounds access to the index arrays or the
   breakpoints, no fuel exhaustion in the scans, no assertion failure) *)
Definition PosOk (q : tseq) (p : npos) : Prop := n_index p = -1 \/ exists i, PosAt q p i.

Lemma pos_op_total L ns es Ins Rem q :
  valid_edgesb L ns es = true -> index_sorted es Ins Rem -> mk_tseq L ns es Ins Rem = Ok q ->
  forall p op, PosOk q p -> exists p', pos_op q p op = Ok p' /\ PosOk q p'.
Proof.
  intros HVb HI HQ p [kind a] OK. unfold pos_op.
  pose proof (ntrees_pos L ns es Ins Rem q HVb HI HQ) as NT.
  destruct (Z.eqb_spec kind 0) as [K0|K0].
  { destruct OK as [Ix|[i PA]].
    - destruct (next_pos_null L ns es Ins Rem q HVb HI HQ p Ix) as (p' & E & PA' & _).
      rewrite E. cbn [bind]. exists p'. split; [reflexivity|]. right. eauto.
    - pose proof PA as (R & _).
      destruct (Z.eq_dec (i + 1) (q_ntrees q)) as [End|NE].
      + assert (PA' : PosAt q p (q_ntrees q - 1)) by (replace (q_ntrees q - 1) with i by lia; exact PA).
        destruct (next_pos_end L ns es Ins Rem q HI HQ p PA') as (p' & E & Ix' & _).
        rewrite E. cbn [bind]. exists p'. split; [reflexivity|]. left. exact Ix'.
      + destruct (next_pos L ns es Ins Rem q HVb HI HQ p i PA ltac:(lia)) as (p' & E & PA' & _).
        rewrite E. cbn [bind]. exists p'. split; [reflexivity|]. right. eauto. }
  destruct (Z.eqb_spec kind 1) as [K1|K1].
  { destruct OK as [Ix|[i PA]].
    - destruct (prev_pos_null L ns es Ins Rem q HVb HI HQ p Ix) as (p' & E & PA' & _).
      rewrite E. cbn [bind]. exists p'. split; [reflexivity|]. right. eauto.
    - pose proof PA as (R & _).
      destruct (Z.eq_dec i 0) as [End|NE].
      + assert (PA' : PosAt q p 0) by (rewrite <- End; exact PA).
        destruct (prev_pos_end L ns es Ins Rem q HVb HI HQ p PA') as (p' & E & Ix' & _).
        rewrite E. cbn [bind]. exists p'. split; [reflexivity|]. left. exact Ix'.
      + destruct (prev_pos L ns es Ins Rem q HVb HI HQ p i PA ltac:(lia)) as (p' & E & PA' & _).
        rewrite E. cbn [bind]. exists p'. split; [reflexivity|]. right. eauto. }
  destruct (Z.eqb_spec kind 2) as [K2|K2].
  { exists (set_null p). split; [reflexivity|]. left. reflexivity. }
  assert (SK : (n_index p =? -1) && (0 <=? a) && (a <? q_ntrees q) = true ->
               n_index p = -1 /\ 0 <= a < q_ntrees q).
  { intros B. apply andb_true_iff in B as [B B3]. apply andb_true_iff in B as [B1 B2].
    apply Z.eqb_eq in B1. apply Z.leb_le in B2. apply Z.ltb_lt in B3. lia. }
  destruct (Z.eqb_spec kind 3) as [K3|K3].
  { destruct ((n_index p =? -1) && (0 <=? a) && (a <? q_ntrees q)) eqn:B; [|exists p; auto].
    destruct (SK eq_refl) as [Ix Ha].
    destruct (seek_bookmarks_lemma L ns es Ins Rem q HVb HI HQ p a Ix Ha) as [(p' & E & PA) _].
    exists p'. split; [exact E|]. right. eauto. }
  destruct (Z.eqb_spec kind 4) as [K4|K4]; [|exists p; auto].
  destruct ((n_index p =? -1) && (0 <=? a) && (a <? q_ntrees q)) eqn:B; [|exists p; auto].
  destruct (SK eq_refl) as [Ix Ha].
  destruct (seek_bookmarks_lemma L ns es Ins Rem q HVb HI HQ p a Ix Ha) as [_ (p' & E & PA)].
  exists p'. split; [exact E|]. right. eauto.
Qed.

Lemma pos_run_total_lemma L ns es Ins Rem q :
  valid_edgesb L ns es = true -> index_sorted es Ins Rem -> mk_tseq L ns es Ins Rem = Ok q ->
  forall ops p, n_index p = -1 \/ (exists i, PosAt q p i) ->
  exists p', pos_run q p ops = Ok p' /\ (n_index p' = -1 \/ exists i, PosAt q p' i).
Proof.
  intros HVb HI HQ. induction ops as [|op r IH]; intros p OK; simpl.
  - exists p. auto.
  - destruct (pos_op_total L ns es Ins Rem q HVb HI HQ p op OK) as (p1 & E & OK1).
    rewrite E. cbn [bind]. apply IH. exact OK1.
Qed.

(* ---- non-vacuity: a sequence with a long edge-less tail; seek into the tail from a fresh
   tree (forward, x <= L/2), then prev(), next(), seek back, last, prev ---- *)
Definition ex_nav_ns := [mkNode true 0; mkNode true 0; mkNode false 1].
Definition ex_nav_es := [mkEdge 0 1 2 0; mkEdge 0 1 2 1].
Definition ex_nav_o := mkOpts 1 false [].

Definition ex_nav_run (ops : list (Z * Z)) : res (list (list Z)) :=
  do q <- load 4 ex_nav_ns ex_nav_es;
  do s <- nav_fresh q ex_nav_o;
  do s' <- nav_run q ex_nav_o s ops;
  Ok (firstn 2 (obs_nav ex_nav_o s')).

Example ex_nav_seek_prev :
  ex_nav_run [(5, 1); (1, 0)] = Ok [[0; 0; 1; 2]; [2; 2; -1; -1]].
Proof. vm_compute. reflexivity. Qed.

Example ex_nav_seek_back_next :
  ex_nav_run [(5, 3); (1, 0); (0, 0); (5, 0)] = Ok [[0; 0; 1; 2]; [2; 2; -1; -1]].
Proof. vm_compute. reflexivity. Qed.

Example ex_nav_reject :
  ex_nav_run [(3, 0); (5, 4); (6, -3); (1, 0)] = Ok [[0; 0; 1; 2]; [2; 2; -1; -1]].
Proof. vm_compute. reflexivity. Qed.

Example ex_pos_run :
  (do q <- load 4 ex_nav_ns ex_nav_es;
   do p <- pos_run q npos0 [(3, 1); (1, 0); (0, 0); (2, 0); (4, 0); (0, 0)];
   Ok [n_index p; n_left p; n_right p; b_stop (n_in p); b_stop (n_out p)]) = Ok [1; 1; 4; 2; 2].
Proof. vm_compute. reflexivity. Qed.
