(* tsk_tree_preorder_from on the representation: the explicit-stack loop computes the
   recursive preorder over the child lists K. *)
From Coq Require Import List ZArith Bool Lia.
From TskVerif Require Import Base.Common.
From TskVerif Require Import C01.Model.
From TskVerif Require Import C01.ArrayLemmas.
From TskVerif Require Import C01.ProjProofs.
From TskVerif Require Import C01.TreeProofs.
From TskVerif Require Import C01.LinkProofs.
From TskVerif Require Import C01.RepProofs.
Import ListNotations.
Open Scope Z_scope.

(* a link between neighbours a -> b of parent p's list (NULL = sentinel) *)
Definition link (t : tree) (p a b : Z) : Prop := nxt t p a = Ok b /\ prv t p b = Ok a.

Fixpoint lseg (t : tree) (p a : Z) (l : list Z) (b : Z) : Prop :=
  match l with
  | [] => link t p a b
  | x :: r => link t p a x /\ x <> NULL /\ lseg t p x r b
  end.

(* the same list walked from the right end *)
Fixpoint rseg (t : tree) (p b : Z) (l : list Z) (a : Z) : Prop :=
  match l with
  | [] => link t p a b
  | x :: r => link t p x b /\ x <> NULL /\ rseg t p x r a
  end.

Lemma seg_lseg t p : forall l prev, seg t p prev l <-> lseg t p prev l NULL.
Proof.
  induction l as [|x r IH]; intros prev; simpl; unfold link; [tauto|].
  rewrite IH. tauto.
Qed.

Lemma lseg_snoc t p : forall l a x b,
  lseg t p a (l ++ [x]) b <-> lseg t p a l x /\ x <> NULL /\ link t p x b.
Proof.
  induction l as [|y r IH]; intros a x b; simpl; [tauto|]. rewrite IH. tauto.
Qed.

Lemma rseg_snoc t p : forall l b x a,
  rseg t p b (l ++ [x]) a <-> rseg t p b l x /\ x <> NULL /\ link t p a x.
Proof.
  induction l as [|y r IH]; intros b x a; simpl; [tauto|]. rewrite IH. tauto.
Qed.

Lemma lseg_rseg t p : forall l a b, lseg t p a l b <-> rseg t p b (rev l) a.
Proof.
  induction l as [|x r IH]; intros a b; simpl; [tauto|].
  rewrite rseg_snoc, IH. tauto.
Qed.

(* walking left_sib from right_child[p] yields the reversed list *)
Lemma chain_rseg t p : forall l b fuel first,
  rseg t p b l NULL -> (length l <= fuel)%nat -> prv t p b = Ok first ->
  chain fuel (t_ls t) first = Ok l.
Proof.
  induction l as [|x r IH]; intros b fuel first S HL HF; simpl in S.
  - destruct S as [_ S2]. assert (first = NULL) by congruence. subst first. destruct fuel; reflexivity.
  - destruct S as ([S1 S2] & S3 & S4). assert (first = x) by congruence. subst first.
    destruct fuel as [|f]; [simpl in HL; lia|]. simpl.
    replace (x =? NULL) with false by (symmetry; apply Z.eqb_neq; exact S3).
    assert (exists n, prv t p x = Ok n) as [n Gn].
    { destruct r; simpl in S4; [destruct S4 as [_ X] | destruct S4 as ([_ X] & _)]; eauto. }
    pose proof Gn as Gn'. unfold prv in Gn'.
    replace (x =? NULL) with false in Gn' by (symmetry; apply Z.eqb_neq; exact S3).
    rewrite Gn'. cbn [bind]. rewrite (IH x f n S4 ltac:(simpl in HL; lia) Gn). reflexivity.
Qed.

Lemma push_children_rep N t K u s :
  LinkRep N t K -> length (t_parent t) = Z.to_nat (N + 1) -> 0 <= u <= N ->
  push_children t u s = Ok (K u ++ s).
Proof.
  intros LR LP Hu. unfold push_children.
  pose proof (lr_chain N _ _ LR u Hu) as C. unfold Chain in C.
  apply seg_lseg in C. apply lseg_rseg in C.
  assert (exists c0, prv t u NULL = Ok c0) as [c0 G0].
  { destruct (rev (K u)); simpl in C; [destruct C as [_ X] | destruct C as ([_ X] & _)]; eauto. }
  pose proof G0 as G0'. unfold prv in G0'. simpl in G0'. rewrite G0'. cbn [bind].
  rewrite (chain_rseg t u (rev (K u)) NULL _ c0 C); [cbn [bind]; now rewrite rev_involutive | | exact G0].
  rewrite rev_length.
  assert (length (K u) <= length (zseq (Z.to_nat N)))%nat.
  { apply NoDup_incl_length; [apply (lr_nodup N _ _ LR u Hu)|].
    intros x Hx. apply In_zseq. pose proof (lr_range N _ _ LR u x Hu Hx). lia. }
  unfold zseq in H. rewrite map_length, seq_length in H. lia.
Qed.

(* the recursive definition of preorder over child lists *)
Inductive Pre (K : Z -> list Z) : Z -> list Z -> Prop :=
| Pre_node : forall u ls, Forall2 (Pre K) (K u) ls -> Pre K u (u :: concat ls).

Lemma Forall2_app_inv_l' {A B} (R : A -> B -> Prop) l1 l2 l :
  Forall2 R (l1 ++ l2) l -> exists a b, l = a ++ b /\ Forall2 R l1 a /\ Forall2 R l2 b.
Proof.
  revert l. induction l1 as [|x r IH]; intros l H; simpl in H.
  - exists [], l. repeat split; auto.
  - inversion H as [|? y ? l' Rxy H' E1 E2]; subst.
    destruct (IH _ H') as (a & b & -> & Fa & Fb). exists (y :: a), b. repeat split; auto.
Qed.

(* the stack loop: every stack entry contributes its recursive preorder, in stack order *)
Lemma preorder_loop_spec N t K :
  LinkRep N t K -> length (t_parent t) = Z.to_nat (N + 1) ->
  forall fuel stack out,
    (forall u, In u stack -> 0 <= u <= N) ->
    preorder_loop fuel t stack = Ok out ->
    exists ls, Forall2 (Pre K) stack ls /\ out = concat ls.
Proof.
  intros LR LP. induction fuel as [|f IH]; intros stack out R H.
  - destruct stack; simpl in H; [|discriminate]. inversion H; subst. exists []. split; [constructor|reflexivity].
  - destruct stack as [|u s]; simpl in H.
    + inversion H; subst. exists []. split; [constructor|reflexivity].
    + rewrite (push_children_rep N t K u s LR LP (R u (or_introl eq_refl))) in H. cbn [bind] in H.
      bind_inv H. inversion H; subst out. clear H.
      destruct (IH (K u ++ s) a) as (ls & F & ->); auto.
      * intros x Hx. apply in_app_iff in Hx as [Hx|Hx]; [|apply R; right; exact Hx].
        pose proof (lr_range N _ _ LR u x (R u (or_introl eq_refl)) Hx). lia.
      * destruct (Forall2_app_inv_l' _ _ _ _ F) as (l1 & l2 & -> & F1 & F2).
        exists ((u :: concat l1) :: l2). split.
        -- constructor; [constructor; exact F1 | exact F2].
        -- simpl. now rewrite concat_app.
Qed.


(* properties of the recursive preorder *)
Lemma Pre_ind2 (K : Z -> list Z) (P : Z -> list Z -> Prop) :
  (forall u ls, Forall2 (Pre K) (K u) ls -> Forall2 P (K u) ls -> P u (u :: concat ls)) ->
  forall u l, Pre K u l -> P u l.
Proof.
  intros H. fix IH 3. intros u l HP. destruct HP as [u ls F]. apply H; [exact F|].
  induction F as [|c l0 kids ls' P0 F' IHF]; constructor; [apply IH; exact P0 | exact IHF].
Qed.

Inductive Desc (K : Z -> list Z) : Z -> Z -> Prop :=
| Desc_refl : forall u, Desc K u u
| Desc_step : forall u c x, In c (K u) -> Desc K c x -> Desc K u x.

Lemma Forall2_in_r {A B} (R : A -> B -> Prop) a b y :
  Forall2 R a b -> In y b -> exists x, In x a /\ R x y.
Proof.
  induction 1 as [|x0 y0 a' b' R0 F IH]; intros Hy; [destruct Hy|].
  destruct Hy as [<-|Hy]; [exists x0; split; [left; reflexivity | exact R0]|].
  destruct (IH Hy) as (x & Hx & Rx). exists x. split; [right; exact Hx | exact Rx].
Qed.

Lemma Forall2_in_l {A B} (R : A -> B -> Prop) a b x :
  Forall2 R a b -> In x a -> exists y, In y b /\ R x y.
Proof.
  induction 1 as [|x0 y0 a' b' R0 F IH]; intros Hx; [destruct Hx|].
  destruct Hx as [<-|Hx]; [exists y0; split; [left; reflexivity | exact R0]|].
  destruct (IH Hx) as (y & Hy & Ry). exists y. split; [right; exact Hy | exact Ry].
Qed.

(* the preorder of u lists exactly the descendants of u (u first) *)
Lemma Pre_members K u l : Pre K u l -> hd NULL l = u /\ forall x, In x l <-> Desc K u x.
Proof.
  intros HP. split; [destruct HP; reflexivity|]. intros x. split.
  - revert x. apply (Pre_ind2 K (fun u l => forall x, In x l -> Desc K u x)); [|exact HP].
    clear. intros u ls F FP x [<-|Hx]; [constructor|].
    apply in_concat in Hx as (l' & Hl' & Hx).
    destruct (Forall2_in_r _ _ _ _ FP Hl') as (c & Hc & Pc).
    eapply Desc_step; eauto.
  - intros D. revert l HP. induction D as [u|u c x Hc D IH]; intros l HP.
    + destruct HP. left; reflexivity.
    + destruct HP as [u ls F]. right.
      destruct (Forall2_in_l _ _ _ _ F Hc) as (l' & Hl' & Pl').
      apply in_concat. exists l'. split; [exact Hl' | apply IH; exact Pl'].
Qed.

Lemma preorder_from_spec N t K :
  LinkRep N t K -> length (t_parent t) = Z.to_nat (N + 1) -> 0 <= N ->
  forall root out, preorder_from N t root = Ok out ->
    (root = -1 /\ exists ls, Forall2 (Pre K) (K N) ls /\ out = concat ls) \/
    (0 <= root <= N /\ Pre K root out).
Proof.
  intros LR LP HN root out H. unfold preorder_from in H.
  destruct (root =? -1) eqn:E.
  - apply Z.eqb_eq in E. left. split; [exact E|].
    rewrite (push_children_rep N t K N [] LR LP ltac:(lia)) in H. cbn [bind] in H.
    rewrite app_nil_r in H.
    eapply preorder_loop_spec; eauto.
    intros u Hu. pose proof (lr_range N _ _ LR N u ltac:(lia) Hu). lia.
  - right. destruct ((root <? 0) || (N <? root)) eqn:B; [discriminate|].
    apply orb_false_iff in B as [B1 B2]. apply Z.ltb_ge in B1. apply Z.ltb_ge in B2.
    cbn [bind] in H. split; [lia|].
    destruct (preorder_loop_spec N t K LR LP _ [root] out ltac:(intros u [<-|[]]; lia) H) as (ls & F & ->).
    inversion F as [|? l1 ? ls' P1 F' E1 E2]; subst. inversion F'; subst. simpl. rewrite app_nil_r. exact P1.
Qed.
