(* Property C01, navigation: the tree position with numeric bookmarks in BOTH directions and
   every way a tskit.Tree moves — executable definitions only.

   Source (c/tskit/trees.c, line numbers at HEAD):
     tsk_tree_position_t / set_null / init         (5165-5185)   -> [npos], [npos0], [set_null]
     tsk_tree_position_next                        (5206-5261)   -> [npos_next]
     tsk_tree_position_prev                        (5264-5321)   -> [npos_prev]
     tsk_tree_position_seek_forward                (5324-5385)   -> [npos_seek_forward]
     tsk_tree_position_seek_backward               (5388-5450)   -> [npos_seek_backward]
     tsk_tree_first / last / next / prev           (6383-6487)   -> [nav_first] .. [nav_prev]
     tsk_tree_seek_from_null                       (6496-6547)   -> [nav_seek_from_null]
     tsk_tree_seek_index / seek_linear / seek      (6550-6625)   -> [nav_seek_index] ..
     tsk_search_sorted (core.c 848-869)                          -> [search_sorted]
     tskit.Tree.seek / seek_index (python/tskit/trees.py 831-866)-> [nav_op]
   The tree arrays and tsk_tree_remove_edge / insert_edge / clear are those of C01.Model
   ([remove_edge], [insert_edge], [tree_clear], [tree_clear_from]); the field [t_pos] of the
   Model tree (forward cursor as list suffixes) is not used here: the position is [v_pos].

   Coordinates are integers (the harness maps the doubles of a case to the half-lattice by an
   exact inverse map), so `x <= L / 2.0` is `2 * x <= L` and the distances of seek_linear are
   exact. *)
From Coq Require Import List ZArith Bool Lia.
From TskVerif Require Import Base.Common.
From TskVerif Require Import C01.Model.
Import ListNotations.
Open Scope Z_scope.

(* one of tree_pos.in / tree_pos.out: start, stop and which index array `order` points to
   ([b_rem] = true: edge_removal_order, false: edge_insertion_order) *)
Record bm := mkBm { b_start : Z; b_stop : Z; b_rem : bool }.

Record npos := mkNpos {
  n_index : Z; n_left : Z; n_right : Z;
  n_dir : Z;                    (* TSK_DIR_FORWARD = 1, TSK_DIR_REVERSE = -1, 0 after memset *)
  n_in : bm; n_out : bm
}.

Definition npos0 : npos := mkNpos (-1) 0 0 0 (mkBm 0 0 false) (mkBm 0 0 false).

(* tsk_tree_position_set_null: only index and interval are reset *)
Definition set_null (p : npos) : npos := mkNpos (-1) 0 0 (n_dir p) (n_in p) (n_out p).

Definition ord_of (q : tseq) (rem : bool) : list iedge := if rem then q_O q else q_I q.
Definition nedges (q : tseq) : Z := zlen (q_edges q).
Definition scan_fuel (q : tseq) : nat := S (length (q_edges q)).

(* while (j < M && cond(order[j])) j++; *)
Fixpoint scan_up (fuel : nat) (ord : list iedge) (M : Z) (c : iedge -> bool) (j : Z) : res Z :=
  match fuel with
  | O%nat => Fuel
  | S f => if j <? M then
             do ie <- get ord j;
             if c ie then scan_up f ord M c (j + 1) else Ok j
           else Ok j
  end.

(* while (j >= 0 && cond(order[j])) j--; *)
Fixpoint scan_down (fuel : nat) (ord : list iedge) (c : iedge -> bool) (j : Z) : res Z :=
  match fuel with
  | O%nat => Fuel
  | S f => if 0 <=? j then
             do ie <- get ord j;
             if c ie then scan_down f ord c (j - 1) else Ok j
           else Ok j
  end.

(* if (self->index == -1) { interval.right = 0; in.stop = 0; out.stop = 0; direction = FORWARD } *)
Definition init_fwd (p : npos) : npos :=
  if n_index p =? -1 then
    mkNpos (n_index p) (n_left p) 0 1 (mkBm (b_start (n_in p)) 0 (b_rem (n_in p)))
           (mkBm (b_start (n_out p)) 0 (b_rem (n_out p)))
  else p.

(* if (self->index == -1) { index = num_trees; interval.left = L; in.stop = out.stop = M - 1;
   direction = REVERSE } *)
Definition init_rev (q : tseq) (p : npos) : npos :=
  if n_index p =? -1 then
    mkNpos (q_ntrees q) (q_L q) (n_right p) (-1)
           (mkBm (b_start (n_in p)) (nedges q - 1) (b_rem (n_in p)))
           (mkBm (b_start (n_out p)) (nedges q - 1) (b_rem (n_out p)))
  else p.

(* (left_current_index, right_current_index) when moving right *)
Definition cur_fwd (p : npos) : Z * Z :=
  if n_dir p =? 1 then (b_stop (n_in p), b_stop (n_out p))
  else (b_stop (n_out p) + 1, b_stop (n_in p) + 1).

(* (left_current_index, right_current_index) when moving left *)
Definition cur_rev (p : npos) : Z * Z :=
  if n_dir p =? -1 then (b_stop (n_out p), b_stop (n_in p))
  else (b_stop (n_in p) - 1, b_stop (n_out p) - 1).

Definition npos_next (q : tseq) (p0 : npos) : res (npos * bool) :=
  let M := nedges q in
  let p := init_fwd p0 in
  let '(lci, rci) := cur_fwd p in
  let left := n_right p in
  do jo <- scan_up (scan_fuel q) (q_O q) M (fun ie => iright ie =? left) rci;
  do ji <- scan_up (scan_fuel q) (q_I q) M (fun ie => ileft ie =? left) lci;
  let out := mkBm rci jo true in
  let inn := mkBm lci ji false in
  let index := n_index p + 1 in
  if index =? q_ntrees q then Ok (mkNpos (-1) 0 0 1 inn out, false)
  else do r <- get (q_bps q) (index + 1); Ok (mkNpos index left r 1 inn out, true).

Definition npos_prev (q : tseq) (p0 : npos) : res (npos * bool) :=
  let p := init_rev q p0 in
  let '(lci, rci) := cur_rev p in
  let right := n_left p in
  do jo <- scan_down (scan_fuel q) (q_I q) (fun ie => ileft ie =? right) lci;
  do ji <- scan_down (scan_fuel q) (q_O q) (fun ie => iright ie =? right) rci;
  let out := mkBm lci jo false in
  let inn := mkBm rci ji true in
  let index := n_index p - 1 in
  if index =? -1 then Ok (mkNpos (-1) 0 0 (-1) inn out, false)
  else do l <- get (q_bps q) index; Ok (mkNpos index l right (-1) inn out, true).

(* tsk_bug_assert failure *)
Definition ERR_ASSERT : Z := 3.
(* TSK_ERR_SEEK_OUT_OF_BOUNDS, and the ValueError / IndexError of the Python wrappers *)
Definition ERR_SEEK : Z := 4.

Definition npos_seek_forward (q : tseq) (p0 : npos) (index : Z) : res npos :=
  let M := nedges q in
  if negb ((n_index p0 <=? index) && (index <? q_ntrees q)) then Err ERR_ASSERT else
  let p := init_fwd p0 in
  let '(lci, rci) := cur_fwd p in
  do left <- get (q_bps q) index;
  do jo <- scan_up (scan_fuel q) (q_O q) M (fun ie => iright ie <=? left) rci;
  let out_start := if n_index p =? -1 then jo else rci in
  do j1 <- scan_up (scan_fuel q) (q_I q) M (fun ie => iright ie <=? left) lci;
  do ji <- scan_up (scan_fuel q) (q_I q) M (fun ie => ileft ie <=? left) j1;
  do r <- get (q_bps q) (index + 1);
  Ok (mkNpos index left r 1 (mkBm j1 ji false) (mkBm out_start jo true)).

Definition npos_seek_backward (q : tseq) (p0 : npos) (index : Z) : res npos :=
  let p := init_rev q p0 in
  if negb (index <=? n_index p) then Err ERR_ASSERT else
  let '(lci, rci) := cur_rev p in
  do right <- get (q_bps q) (index + 1);
  do jo <- scan_down (scan_fuel q) (q_I q) (fun ie => right <=? ileft ie) lci;
  let out_start := if n_index p =? q_ntrees q then jo else lci in
  do j1 <- scan_down (scan_fuel q) (q_O q) (fun ie => right <=? ileft ie) rci;
  do ji <- scan_down (scan_fuel q) (q_O q) (fun ie => right <=? iright ie) j1;
  do l <- get (q_bps q) index;
  Ok (mkNpos index l right (-1) (mkBm j1 ji true) (mkBm out_start jo false)).

(* ------------------------------------------------------------------------------------ *)
(* the tree with its position                                                             *)
(* ------------------------------------------------------------------------------------ *)

Record nav := mkNav { v_tree : tree; v_pos : npos }.

Definition act_remove (q : tseq) (o : topts) (t : tree) (ie : iedge) : res tree :=
  remove_edge q o t (eparent (snd ie)) (echild (snd ie)).
Definition act_insert (q : tseq) (o : topts) (t : tree) (ie : iedge) : res tree :=
  insert_edge q o t (eparent (snd ie)) (echild (snd ie)) (fst ie).
Definition act_insert_if (q : tseq) (o : topts) (c : iedge -> bool) (t : tree) (ie : iedge) : res tree :=
  if c ie then act_insert q o t ie else Ok t.

(* for (j = start; j != stop; j += step) { e = order[j]; act(e) } *)
Fixpoint range_loop (fuel : nat) (act : tree -> iedge -> res tree) (ord : list iedge)
         (t : tree) (j stop step : Z) : res tree :=
  match fuel with
  | O%nat => Fuel
  | S f => if j =? stop then Ok t else
           do ie <- get ord j;
           do t <- act t ie;
           range_loop f act ord t (j + step) stop step
  end.

Definition apply_bm (q : tseq) (act : tree -> iedge -> res tree) (b : bm) (step : Z) (t : tree) : res tree :=
  range_loop (scan_fuel q) act (ord_of q (b_rem b)) t (b_start b) (b_stop b) step.

(* tsk_tree_clear (also resets the position to null) *)
Definition nav_clear (q : tseq) (o : topts) (s : nav) : res nav :=
  do t <- tree_clear_from q o (v_tree s); Ok (mkNav t (set_null (v_pos s))).

Definition nav_move (q : tseq) (o : topts) (s : nav) (r : npos * bool) (step : Z) : res (nav * bool) :=
  let '(p, valid) := r in
  if valid then
    do t <- apply_bm q (act_remove q o) (n_out p) step (v_tree s);
    do t <- apply_bm q (act_insert q o) (n_in p) step t;
    Ok (mkNav t p, true)
  else
    do s' <- nav_clear q o (mkNav (v_tree s) p); Ok (s', false).

Definition nav_next (q : tseq) (o : topts) (s : nav) : res (nav * bool) :=
  do r <- npos_next q (v_pos s); nav_move q o s r 1.

Definition nav_prev (q : tseq) (o : topts) (s : nav) : res (nav * bool) :=
  do r <- npos_prev q (v_pos s); nav_move q o s r (-1).

Definition nav_first (q : tseq) (o : topts) (s : nav) : res (nav * bool) :=
  do s <- nav_clear q o s; nav_next q o s.

Definition nav_last (q : tseq) (o : topts) (s : nav) : res (nav * bool) :=
  do s <- nav_clear q o s; nav_prev q o s.

(* tsk_search_sorted *)
Fixpoint ss_loop (fuel : nat) (a : list Z) (lower upper v : Z) : res Z :=
  match fuel with
  | O%nat => Fuel
  | S f => if 1 <? upper - lower then
             let mid := (upper + lower) / 2 in
             do am <- get a mid;
             if am <=? v then ss_loop f a mid upper v else ss_loop f a lower mid v
           else Ok lower
  end.

Definition search_sorted (a : list Z) (size v : Z) : res Z :=
  if size =? 0 then Ok 0 else
  do lower <- ss_loop (S (Z.to_nat size)) a 0 size v;
  do al <- get a lower;
  Ok (lower + (if al <? v then 1 else 0)).

Definition find_index (q : tseq) (x : Z) : res Z :=
  do i <- search_sorted (q_bps q) (q_ntrees q + 1) x;
  do b <- get (q_bps q) i;
  Ok (if x <? b then i - 1 else i).

Definition nav_seek_from_null (q : tseq) (o : topts) (s : nav) (x : Z) : res nav :=
  do index <- find_index q x;
  if 2 * x <=? q_L q then
    do p <- npos_seek_forward q (v_pos s) index;
    let il := n_left p in
    do t <- apply_bm q (act_insert_if q o (fun ie => (ileft ie <=? il) && (il <? iright ie)))
                     (n_in p) 1 (v_tree s);
    Ok (mkNav t p)
  else
    do p <- npos_seek_backward q (v_pos s) index;
    let ir := n_right p in
    do t <- apply_bm q (act_insert_if q o (fun ie => (ir <=? iright ie) && (ileft ie <? ir)))
                     (n_in p) (-1) (v_tree s);
    Ok (mkNav t p).

Definition in_interval (p : npos) (x : Z) : bool := (n_left p <=? x) && (x <? n_right p).

(* while (!tsk_tree_position_in_interval(self, x)) { tsk_tree_next / tsk_tree_prev } — the
   walk passes through the null state when it runs off an end *)
Fixpoint seek_loop (fuel : nat) (q : tseq) (o : topts) (fwd : bool) (s : nav) (x : Z) : res nav :=
  match fuel with
  | O%nat => Fuel
  | S f => if in_interval (v_pos s) x then Ok s else
           do '(s', _) <- (if fwd then nav_next q o s else nav_prev q o s);
           seek_loop f q o fwd s' x
  end.

Definition seek_fuel (q : tseq) : nat := S (S (Z.to_nat (q_ntrees q))).

Definition nav_seek_linear (q : tseq) (o : topts) (s : nav) (x : Z) : res nav :=
  let L := q_L q in
  let tl := n_left (v_pos s) in
  let tr := n_right (v_pos s) in
  let '(dl, dr) := if x <? tl then (tl - x, L - tr + x) else (tl + L - x, x - tr) in
  seek_loop (seek_fuel q) q o (dr <=? dl) s x.

Definition nav_seek (q : tseq) (o : topts) (s : nav) (x : Z) : res nav :=
  if negb ((0 <=? x) && (x <? q_L q)) then Err ERR_SEEK else
  if n_index (v_pos s) =? -1 then nav_seek_from_null q o s x else nav_seek_linear q o s x.

Definition nav_seek_index (q : tseq) (o : topts) (s : nav) (k : Z) : res nav :=
  if (k <? 0) || (q_ntrees q <=? k) then Err ERR_SEEK else
  do x <- get (q_bps q) k; nav_seek q o s x.

(* the operations of tskit.Tree: (0, _) next; (1, _) prev; (2, _) first; (3, _) last;
   (4, _) clear; (5, x) seek(x); (6, k) seek_index(k), negative k counted from the end *)
Definition nav_op (q : tseq) (o : topts) (s : nav) (op : Z * Z) : res nav :=
  let '(kind, a) := op in
  if kind =? 0 then do '(s, _) <- nav_next q o s; Ok s
  else if kind =? 1 then do '(s, _) <- nav_prev q o s; Ok s
  else if kind =? 2 then do '(s, _) <- nav_first q o s; Ok s
  else if kind =? 3 then do '(s, _) <- nav_last q o s; Ok s
  else if kind =? 4 then nav_clear q o s
  else if kind =? 5 then nav_seek q o s a
  else if kind =? 6 then nav_seek_index q o s (if a <? 0 then a + q_ntrees q else a)
  else Err 5.

(* state of a fresh tskit.Tree *)
Definition nav_fresh (q : tseq) (o : topts) : res nav :=
  do t <- tree_clear q o; Ok (mkNav t npos0).

(* tskit.Tree.seek / seek_index check their argument first and raise ValueError / IndexError
   without calling into C: the state is left as it was *)
Definition op_rejected (q : tseq) (op : Z * Z) : bool :=
  let '(kind, a) := op in
  if kind =? 5 then negb ((0 <=? a) && (a <? q_L q))
  else if kind =? 6 then let k := if a <? 0 then a + q_ntrees q else a in (k <? 0) || (q_ntrees q <=? k)
  else false.

(* a history *)
Fixpoint nav_run (q : tseq) (o : topts) (s : nav) (ops : list (Z * Z)) : res nav :=
  match ops with
  | [] => Ok s
  | op :: r => if op_rejected q op then nav_run q o s r
               else do s' <- nav_op q o s op; nav_run q o s' r
  end.

(* ------------------------------------------------------------------------------------ *)
(* observation for the correspondence check: the state after EVERY step                   *)
(* ------------------------------------------------------------------------------------ *)

Definition obs_nav (o : topts) (s : nav) : list (list Z) :=
  let p := v_pos s in
  obs_tree o (w_pos (v_tree s) (mkPos (n_index p) (n_left p) (n_right p) [] [] [] [])).

Fixpoint nav_trace (q : tseq) (o : topts) (s : nav) (ops : list (Z * Z)) : res (list (list (list Z))) :=
  match ops with
  | [] => Ok []
  | op :: r =>
      if op_rejected q op then do rest <- nav_trace q o s r; Ok (([1] :: obs_nav o s) :: rest)
      else do s' <- nav_op q o s op; do rest <- nav_trace q o s' r; Ok (([0] :: obs_nav o s') :: rest)
  end.

Definition model_nav (L : Z) (ns : list node) (es : list edge) (o : topts)
           (hists : list (list (Z * Z))) : res (list (list (list (list Z)))) :=
  do q <- load L ns es;
  do s <- nav_fresh q o;
  mapM (nav_trace q o s) hists.

Definition zllll_eqb := list_eqb zlll_eqb.

(* ------------------------------------------------------------------------------------ *)
(* the position on its own                                                                *)
(* ------------------------------------------------------------------------------------ *)

(* histories of the operations on tsk_tree_position_t as the tree issues them: (0, _) next;
   (1, _) prev; (2, _) set_null (tsk_tree_clear); (3, i) / (4, i) seek_forward / seek_backward to
   tree i, which tsk_tree_seek_from_null calls only in the null state and for an existing tree
   (otherwise the operation is skipped) *)
Definition pos_op (q : tseq) (p : npos) (op : Z * Z) : res npos :=
  let '(kind, a) := op in
  let seekable := (n_index p =? -1) && (0 <=? a) && (a <? q_ntrees q) in
  if kind =? 0 then do '(p', _) <- npos_next q p; Ok p'
  else if kind =? 1 then do '(p', _) <- npos_prev q p; Ok p'
  else if kind =? 2 then Ok (set_null p)
  else if kind =? 3 then (if seekable then npos_seek_forward q p a else Ok p)
  else if kind =? 4 then (if seekable then npos_seek_backward q p a else Ok p)
  else Ok p.

Fixpoint pos_run (q : tseq) (p : npos) (ops : list (Z * Z)) : res npos :=
  match ops with
  | [] => Ok p
  | op :: r => do p' <- pos_op q p op; pos_run q p' r
  end.

