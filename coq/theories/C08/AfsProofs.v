(* C08-F2: the faithful port of the branch-mode AFS code violates the documented
   definition on a valid tree sequence (a sample that gains its parent at x = 1 inside the
   single window [0,2)): witness, replayed on the real code by corpus/C08/afs.jsonl. *)
From Coq Require Import List ZArith QArith Bool.
From TskVerif Require Import C08.Model C08.Incremental C08.Afs.
Import ListNotations.
Open Scope Q_scope.

Definition w_time : list Q := [0; 0; 1].
Definition w_samples : list Z := [0; 1]%Z.
Definition w_edges : list edge := [mkedge 0 2 2 0; mkedge 1 2 2 1].
Definition w_segs : list seg := [mkseg 0 1 [2; (-1); (-1)]%Z; mkseg 1 2 [2; 2; (-1)]%Z].

Lemma afs_branch_witness :
  check_afs_port (afs_branch_port w_time w_samples w_samples w_edges [0; 1]%Z [0; 1]%Z 2 [0; 2])
                 false [0; 2] [[0; 4; 0]] = true
  /\ qtable_eqb (afs_branch_spec_table w_time w_samples w_samples w_segs [0; 2]) [[0; 3; 0]] = true.
Proof. split; vm_compute; reflexivity. Qed.

Lemma afs_branch_port_violates_definition :
  exists time S all E I O L ws segs,
    (* segs are the marginal forests of the edge table E *)
    segs = w_segs /\ E = w_edges /\
    check_afs_port (afs_branch_port time S all E I O L ws) false ws
                   (afs_branch_spec_table time S all segs ws) = false.
Proof.
  exists w_time, w_samples, w_samples, w_edges, [0; 1]%Z, [0; 1]%Z, 2, [0; 2], w_segs.
  split; [reflexivity|]. split; [reflexivity|]. vm_compute. reflexivity.
Qed.

(* with windows that end where the sample joins, the code agrees with the definition
   (the flush at the window end refreshes last_update): the defect needs the gap and the
   insertion inside one window *)
Example afs_branch_agrees_when_window_ends_at_join :
  check_afs_port (afs_branch_port w_time w_samples w_samples w_edges [0; 1]%Z [0; 1]%Z 2 [0; 1; 2])
                 false [0; 1; 2] (afs_branch_spec_table w_time w_samples w_samples w_segs [0; 1; 2]) = true.
Proof. vm_compute. reflexivity. Qed.
