(* C08-F2 (fixed by 093fdd5).  The definition of the branch-mode AFS is additive over
   windows (all tree sequences); the repaired port equals the definition on the former
   witness; the pinned pre-fix port does not (historical record). *)
From Coq Require Import List ZArith QArith Bool.
From TskVerif Require Import C08.Model C08.Incremental C08.Afs C08.WindowProofs.
Import ListNotations.
Open Scope Q_scope.

(* every entry of the documented branch AFS adds over [a,b) u [b,c) *)
Lemma afs_branch_spec_additive time S all segs c : additive (afs_branch_spec time S all segs c).
Proof. apply tree_stat_additive. Qed.

Lemma afs_branch_spec_refinement time S all segs c gs : chained gs -> Forall incr gs ->
  Forall2 Qeq (fine_sums (afs_branch_spec time S all segs c) gs)
              (windowed (afs_branch_spec time S all segs c) (coarse gs)).
Proof.
  intros Hc Hi. apply (refinement_additivity _ gs (afs_branch_spec_additive time S all segs c) Hc Hi).
Qed.

Definition w_time : list Q := [0; 0; 1].
Definition w_samples : list Z := [0; 1]%Z.
Definition w_edges : list edge := [mkedge 0 2 2 0; mkedge 1 2 2 1].
Definition w_segs : list seg := [mkseg 0 1 [2; (-1); (-1)]%Z; mkseg 1 2 [2; 2; (-1)]%Z].

(* the repaired code on the former witness (a sample that gains its parent at x = 1
   inside the single window [0,2)): equal to the definition, [0; 3; 0] *)
Example afs_branch_port_agrees_on_former_witness :
  check_afs_port (afs_branch_port w_time w_samples w_samples w_edges [0; 1]%Z [0; 1]%Z 2 [0; 2])
                 false [0; 2] (afs_branch_spec_table w_time w_samples w_samples w_segs [0; 2]) = true
  /\ qtable_eqb (afs_branch_spec_table w_time w_samples w_samples w_segs [0; 2]) [[0; 3; 0]] = true.
Proof. split; vm_compute; reflexivity. Qed.

Example afs_branch_port_agrees_split_windows :
  check_afs_port (afs_branch_port w_time w_samples w_samples w_edges [0; 1]%Z [0; 1]%Z 2 [0; 1 # 2; 3 # 2; 2])
                 false [0; 1 # 2; 3 # 2; 2]
                 (afs_branch_spec_table w_time w_samples w_samples w_segs [0; 1 # 2; 3 # 2; 2]) = true.
Proof. vm_compute. reflexivity. Qed.

(* historical: the pinned (pre-fix) port credits [0; 4; 0] *)
Lemma afs_branch_pinned_violates_definition :
  exists time S all E I O L ws segs,
    segs = w_segs /\ E = w_edges /\
    check_afs_port (afs_branch_port_pinned time S all E I O L ws) false ws
                   (afs_branch_spec_table time S all segs ws) = false.
Proof.
  exists w_time, w_samples, w_samples, w_edges, [0; 1]%Z, [0; 1]%Z, 2, [0; 2], w_segs.
  split; [reflexivity|]. split; [reflexivity|]. vm_compute. reflexivity.
Qed.
