(* C08 — forest lemmas for the edge sweep: the ancestor relation of the specification
   ([anc_or_self] with fuel = number of nodes) on forests whose node times strictly increase
   towards the roots, and how it changes when an edge is inserted above a root. *)
From Coq Require Import List ZArith QArith Qminmax Bool Lia Lqa Arith.
From TskVerif Require Import C08.Model C08.Incremental C08.WindowProofs C08.IncrementalProofs.
Import ListNotations.
Open Scope Q_scope.

Section Forest.
  Variable time : list Q.
  Variable N : nat.

  Definition tm (u : Z) : Q := znth time u 0.
  Definition inr (u : Z) : Prop := (0 <= u < Z.of_nat N)%Z.

  (* well-formed forest: parents are NULL or in range and strictly older *)
  Definition wf (p : list Z) : Prop :=
    length p = N /\
    forall u, inr u -> parent_of p u = NULL \/ (inr (parent_of p u) /\ tm u < tm (parent_of p u)).

  (* ---------- a measure: number of strictly older nodes ---------- *)
  Definition m (u : Z) : nat := length (filter (fun w => Qltb (tm u) (tm w)) (zseq N)).

  Lemma filter_length_le {A} (P Q : A -> bool) l :
    (forall w, P w = true -> Q w = true) -> (length (filter P l) <= length (filter Q l))%nat.
  Proof.
    intros H. induction l as [|a l IH]; simpl; [lia|].
    destruct (P a) eqn:EP; [rewrite (H a EP); simpl; lia|]. destruct (Q a); simpl; lia.
  Qed.

  Lemma filter_length_lt {A} (P Q : A -> bool) l a :
    (forall w, P w = true -> Q w = true) -> In a l -> Q a = true -> P a = false ->
    (length (filter P l) < length (filter Q l))%nat.
  Proof.
    intros H. induction l as [|b l IH]; simpl; intros Hin HQ HP; [tauto|].
    destruct Hin as [E|Hin].
    - subst b. rewrite HP, HQ. simpl. pose proof (filter_length_le P Q l H). lia.
    - specialize (IH Hin HQ HP). destruct (P b) eqn:EP; [rewrite (H b EP); simpl; lia|].
      destruct (Q b); simpl; lia.
  Qed.

  Lemma in_zseq u : inr u <-> In u (zseq N).
  Proof.
    unfold zseq, inr. rewrite in_map_iff. split.
    - intros H. exists (Z.to_nat u). split; [lia|]. apply in_seq. lia.
    - intros [n [E Hn]]. apply in_seq in Hn. lia.
  Qed.

  Lemma Qltb_true a b : Qltb a b = true <-> a < b.
  Proof.
    unfold Qltb. rewrite negb_true_iff. split; intros H.
    - apply Qnot_le_lt. intros C. apply Qle_bool_iff in C. congruence.
    - destruct (Qle_bool b a) eqn:E; [|reflexivity]. apply Qle_bool_iff in E. lra.
  Qed.
  Lemma Qltb_false a b : Qltb a b = false <-> b <= a.
  Proof.
    unfold Qltb. rewrite negb_false_iff. apply Qle_bool_iff.
  Qed.

  Lemma m_lt u v : inr v -> tm u < tm v -> (m v < m u)%nat.
  Proof.
    intros Hv Ht. unfold m. apply (filter_length_lt _ _ _ v).
    - intros w Hw. apply Qltb_true in Hw. apply Qltb_true. lra.
    - apply in_zseq. exact Hv.
    - apply Qltb_true. exact Ht.
    - apply Qltb_false. lra.
  Qed.

  Lemma m_bound u : inr u -> (m u < N)%nat.
  Proof.
    intros Hu. unfold m.
    assert (E : length (filter (fun _ : Z => true) (zseq N)) = N).
    { assert (G : forall l : list Z, filter (fun _ => true) l = l)
        by (induction l as [|a l IH]; simpl; [reflexivity | rewrite IH; reflexivity]).
      rewrite G. unfold zseq. rewrite map_length, seq_length. reflexivity. }
    rewrite <- E at 2.
    apply (filter_length_lt _ _ _ u); auto; [apply in_zseq; exact Hu | apply Qltb_false; lra].
  Qed.

  (* induction towards the roots *)
  Lemma up_ind (P : Z -> Prop) :
    (forall s, inr s -> (forall v, inr v -> tm s < tm v -> P v) -> P s) ->
    forall s, inr s -> P s.
  Proof.
    intros Hstep.
    assert (G : forall n s, inr s -> (m s < n)%nat -> P s).
    { induction n as [|n IH]; intros s Hs Hm; [lia|].
      apply Hstep; [exact Hs|]. intros v Hv Ht. apply IH; [exact Hv|].
      pose proof (m_lt s v Hv Ht). lia. }
    intros s Hs. apply (G (S (m s)) s Hs). lia.
  Qed.

  (* ---------- the ancestor test does not depend on the fuel ---------- *)
  Definition anc (p : list Z) (s x : Z) : bool := anc_or_self p N s x.

  Lemma A_stable p : wf p -> forall f s x, inr s -> (m s < f)%nat ->
    anc_or_self p (S f) s x = anc_or_self p f s x.
  Proof.
    intros [Hl Hw]. induction f as [|f IH]; intros s x Hs Hm; [lia|].
    cbn [anc_or_self]. f_equal.
    destruct (Hw s Hs) as [E|[Hv Ht]].
    - rewrite E. reflexivity.
    - destruct (parent_of p s <? 0)%Z eqn:En; [reflexivity|].
      apply IH; [exact Hv|]. pose proof (m_lt s _ Hv Ht). lia.
  Qed.

  Lemma anc_step p s x : wf p -> inr s ->
    anc p s x = ((s =? x)%Z || (if (parent_of p s <? 0)%Z then false else anc p (parent_of p s) x)).
  Proof.
    intros Hwf Hs. unfold anc.
    rewrite <- (A_stable p Hwf N s x Hs (m_bound s Hs)). reflexivity.
  Qed.

  Lemma anc_refl p s : wf p -> inr s -> anc p s s = true.
  Proof. intros H Hs. rewrite (anc_step p s s H Hs), Z.eqb_refl. reflexivity. Qed.

  Lemma anc_root p s x : wf p -> inr s -> parent_of p s = NULL -> anc p s x = (s =? x)%Z.
  Proof. intros H Hs E. rewrite (anc_step p s x H Hs), E. simpl. apply orb_false_r. Qed.

  (* ancestors are not younger *)
  Lemma anc_time p : wf p -> forall s, inr s -> forall x, anc p s x = true -> tm s <= tm x /\ inr x.
  Proof.
    intros Hwf. apply (up_ind (fun s => forall x, anc p s x = true -> tm s <= tm x /\ inr x)).
    intros s Hs IH x H. rewrite (anc_step p s x Hwf Hs) in H.
    apply orb_true_iff in H. destruct H as [E|H].
    - apply Z.eqb_eq in E. subst x. split; [lra | exact Hs].
    - destruct Hwf as [Hl Hw]. destruct (Hw s Hs) as [E|[Hv Ht]].
      + rewrite E in H. discriminate.
      + destruct (parent_of p s <? 0)%Z; [discriminate|].
        destruct (IH _ Hv Ht x H) as [H1 H2]. split; [lra | exact H2].
  Qed.

  (* ---------- inserting an edge u -> v above a root u ---------- *)
  Section Insert.
    Variable p : list Z.
    Variables u v : Z.
    Hypothesis Hwf : wf p.
    Hypothesis Hu : inr u.
    Hypothesis Hv : inr v.
    Hypothesis Hroot : parent_of p u = NULL.
    Hypothesis Htime : tm u < tm v.

    Let p' := zupd p u v.

    Lemma parent_of_zupd w : inr w -> parent_of p' w = if (w =? u)%Z then v else parent_of p w.
    Proof.
      intros Hw. unfold parent_of, p'. destruct (w =? u)%Z eqn:E.
      - apply Z.eqb_eq in E. subst w. destruct Hwf as [Hl _].
        unfold znth, zupd. unfold inr in Hu.
        destruct (u <? 0)%Z eqn:En; [lia|].
        assert (G : forall (l : list Z) i a d, (i < length l)%nat -> nth i (upd_nat l i a) d = a).
        { induction l as [|h t IH]; intros [|i] a d Hi; simpl in *; try lia; try reflexivity. apply IH; lia. }
        apply G. lia.
      - apply Z.eqb_neq in E. apply znth_zupd_other. congruence.
    Qed.

    Lemma wf_insert : wf p'.
    Proof.
      destruct Hwf as [Hl Hw]. split; [unfold p'; rewrite zupd_length; exact Hl|].
      intros w Hw'. rewrite (parent_of_zupd w Hw'). destruct (w =? u)%Z eqn:E.
      - apply Z.eqb_eq in E. subst w. right. split; assumption.
      - apply Hw. exact Hw'.
    Qed.

    (* nodes older than u keep their ancestors *)
    Lemma anc_insert_above : forall s, inr s -> tm u < tm s -> forall x, anc p' s x = anc p s x.
    Proof.
      apply (up_ind (fun s => tm u < tm s -> forall x, anc p' s x = anc p s x)).
      intros s Hs IH Ht x.
      rewrite (anc_step p' s x wf_insert Hs), (anc_step p s x Hwf Hs), (parent_of_zupd s Hs).
      assert (E : (s =? u)%Z = false) by (apply Z.eqb_neq; intros C; subst s; lra).
      rewrite E. f_equal.
      destruct Hwf as [_ Hw]. destruct (Hw s Hs) as [En|[Hpv Hpt]].
      - rewrite En. reflexivity.
      - destruct (parent_of p s <? 0)%Z; [reflexivity|]. apply IH; [exact Hpv | exact Hpt | lra].
    Qed.

    Lemma anc_insert : forall s, inr s -> forall x,
      anc p' s x = (anc p s x || (anc p s u && anc p v x)).
    Proof.
      apply (up_ind (fun s => forall x, anc p' s x = (anc p s x || (anc p s u && anc p v x)))).
      intros s Hs IH x.
      rewrite (anc_step p' s x wf_insert Hs), (parent_of_zupd s Hs).
      destruct (s =? u)%Z eqn:E.
      - apply Z.eqb_eq in E. subst s.
        rewrite (anc_root p u x Hwf Hu Hroot), (anc_refl p u Hwf Hu).
        assert (Hn : (v <? 0)%Z = false) by (unfold inr in Hv; lia). rewrite Hn.
        rewrite (anc_insert_above v Hv Htime x). reflexivity.
      - rewrite (anc_step p s x Hwf Hs), (anc_step p s u Hwf Hs), E.
        destruct Hwf as [_ Hw]. destruct (Hw s Hs) as [En|[Hpv Hpt]].
        + rewrite En. simpl. rewrite !orb_false_r. reflexivity.
        + destruct (parent_of p s <? 0)%Z eqn:Eneg; [unfold inr in Hpv; lia|].
          rewrite (IH _ Hpv Hpt x). simpl.
          destruct (s =? x)%Z, (anc p (parent_of p s) x), (anc p (parent_of p s) u), (anc p v x); reflexivity.
    Qed.

    (* the two parts are disjoint: below u versus above v *)
    Lemma anc_below_root : forall s, inr s -> forall x, anc p s u = true -> anc p s x = true -> tm x <= tm u.
    Proof.
      apply (up_ind (fun s => forall x, anc p s u = true -> anc p s x = true -> tm x <= tm u)).
      intros s Hs IH x H1 H2.
      rewrite (anc_step p s x Hwf Hs) in H2. apply orb_true_iff in H2. destruct H2 as [E|H2].
      - apply Z.eqb_eq in E. subst x. apply (anc_time p Hwf s Hs u H1).
      - rewrite (anc_step p s u Hwf Hs) in H1. apply orb_true_iff in H1. destruct H1 as [E|H1].
        + apply Z.eqb_eq in E. subst s. rewrite Hroot in H2. discriminate.
        + destruct Hwf as [_ Hw]. destruct (Hw s Hs) as [En|[Hpv Hpt]].
          * rewrite En in H2. discriminate.
          * destruct (parent_of p s <? 0)%Z; [discriminate|]. apply (IH _ Hpv Hpt x H1 H2).
    Qed.

    Lemma anc_insert_disjoint s x : inr s -> anc p s u = true -> anc p v x = true -> anc p s x = false.
    Proof.
      intros Hs H1 H2. destruct (anc p s x) eqn:E; [|reflexivity].
      pose proof (anc_below_root s Hs x H1 E).
      pose proof (proj1 (anc_time p Hwf v Hv x H2)). lra.
    Qed.

    Lemma anc_insert_child_unchanged s : inr s -> anc p' s u = anc p s u.
    Proof.
      intros Hs. rewrite (anc_insert s Hs u).
      destruct (anc p v u) eqn:E; [|rewrite andb_false_r, orb_false_r; reflexivity].
      pose proof (proj1 (anc_time p Hwf v Hv u E)). lra.
    Qed.
  End Insert.
End Forest.
