(* C08 — Gallina port (over Q) of the incremental branch-mode algorithm
   tsk_treeseq_branch_general_stat, c/tskit/trees.c 1277-1448, for one output component
   of the (possibly unpolarised-wrapped, trees.c 1869-1897) summary function F.
   Arrays are lists with total access (znth default / zupd no-op outside the array):
   memory safety is property C09's business, here only the arithmetic matters and every
   read-after-write order of the C code is kept.  Executable definitions only. *)
From Coq Require Import List ZArith QArith Qminmax Bool Lia.
From TskVerif Require Import C08.Model.
Import ListNotations.
Open Scope Q_scope.

Record edge := mkedge { e_left : Q; e_right : Q; e_parent : Z; e_child : Z }.

Fixpoint upd_nat {A} (l : list A) (i : nat) (a : A) : list A :=
  match l, i with
  | [], _ => []
  | _ :: t, O => a :: t
  | h :: t, S i' => h :: upd_nat t i' a
  end.
Definition zupd {A} (l : list A) (i : Z) (a : A) : list A :=
  if (i <? 0)%Z then l else upd_nat l (Z.to_nat i) a.

Record bstate := mkb {
  b_parent : list Z;         (* parent[]          *)
  b_bl : list Q;             (* branch_length[]   *)
  b_state : list vec;        (* state[] rows      *)
  b_summary : list Q;        (* summary[] rows    *)
  b_rs : Q                   (* running_sum       *)
}.

Section Incr.
  Variable k : nat.
  Variable F : vec -> Q.       (* wrapped summary function, one output component *)
  Variable time : list Q.

  (* update_running_sum(u, sign, ...) : running_sum += sign * branch_length[u] * summary[u] *)
  Definition urs (sign : Q) (u : Z) (s : bstate) : bstate :=
    mkb (b_parent s) (b_bl s) (b_state s) (b_summary s)
        (b_rs s + sign * znth (b_bl s) u 0 * znth (b_summary s) u 0).

  (* one iteration of the `while (u != TSK_NULL)` loops (1360-1372 / 1386-1398):
     running sum -, state[u] +/-= state[child], summary[u] = f(state[u]), running sum + *)
  Definition climb_step (sign : bool) (child u : Z) (s : bstate) : bstate :=
    let s1 := urs (-1) u s in
    let xc := znth (b_state s1) child [] in
    let xu := znth (b_state s1) u [] in
    let xu' := if sign then vadd xu xc else vsub xu xc in
    let st' := zupd (b_state s1) u xu' in
    let s2 := mkb (b_parent s1) (b_bl s1) st' (zupd (b_summary s1) u (F xu')) (b_rs s1) in
    urs 1 u s2.

  Fixpoint climb (fuel : nat) (sign : bool) (child u : Z) (s : bstate) : bstate :=
    if (u <? 0)%Z then s else
    match fuel with
    | O => s
    | S f => let s' := climb_step sign child u s in
             climb f sign child (znth (b_parent s') u NULL) s'
    end.

  Definition fuel_of (s : bstate) : nat := S (length (b_parent s)).

  (* edge removal, trees.c 1350-1373 *)
  Definition remove_edge (e : edge) (s : bstate) : bstate :=
    let u := e_child e in
    let s1 := urs (-1) u s in
    let s2 := mkb (zupd (b_parent s1) u NULL) (zupd (b_bl s1) u 0) (b_state s1) (b_summary s1) (b_rs s1) in
    climb (fuel_of s2) false (e_child e) (e_parent e) s2.

  (* edge insertion, trees.c 1375-1399 *)
  Definition insert_edge (e : edge) (s : bstate) : bstate :=
    let u := e_child e in
    let v := e_parent e in
    let s1 := mkb (zupd (b_parent s) u v) (zupd (b_bl s) u (znth time v 0 - znth time u 0))
                  (b_state s) (b_summary s) (b_rs s) in
    let s2 := urs 1 u s1 in
    climb (fuel_of s2) true u v s2.

  (* initial conditions, trees.c 1318-1340: parent = NULL, branch_length = 0,
     state[sample] = weight, summary[u] = f(state[u]) *)
  Definition init_state (n : nat) (W : weights) : bstate :=
    let st := fold_left (fun acc sw => zupd acc (fst sw) (snd sw)) W (repeat (vzero k) n) in
    mkb (repeat NULL n) (repeat 0 n) st (map F st) 0.

  (* ---- the sweep with window accounting, trees.c 1344-1433 ---- *)
  Definition eget (E : list edge) (i : Z) : edge := znth E i (mkedge 0 0 NULL NULL).

  Fixpoint drain_out (fuel : nat) (E : list edge) (O : list Z) (tk : Z) (t_left : Q) (s : bstate)
    : Z * bstate :=
    match fuel with
    | O => (tk, s)
    | S f =>
        if (tk <? Z.of_nat (length E))%Z && Qeq_bool (e_right (eget E (znth O tk 0%Z))) t_left
        then drain_out f E O (tk + 1)%Z t_left (remove_edge (eget E (znth O tk 0%Z)) s)
        else (tk, s)
    end.
  Fixpoint drain_in (fuel : nat) (E : list edge) (I : list Z) (tj : Z) (t_left : Q) (s : bstate)
    : Z * bstate :=
    match fuel with
    | O => (tj, s)
    | S f =>
        if (tj <? Z.of_nat (length E))%Z && Qeq_bool (e_left (eget E (znth I tj 0%Z))) t_left
        then drain_in f E I (tj + 1)%Z t_left (insert_edge (eget E (znth I tj 0%Z)) s)
        else (tj, s)
    end.

  (* `while (windows[window_index] < t_right)` loop, 1409-1429 *)
  Fixpoint account (fuel : nat) (ws : list Q) (wi : nat) (t_left t_right rs : Q) (result : list Q)
    : nat * list Q :=
    match fuel with
    | O => (wi, result)
    | S f =>
        let w_left := nth wi ws 0 in
        let w_right := nth (S wi) ws 0 in
        if Qltb w_left t_right && Nat.ltb (S wi) (length ws) then
          let scale := Qmin t_right w_right - Qmax t_left w_left in
          let result' := upd_nat result wi (nth wi result 0 + rs * scale) in
          if Qle_bool w_right t_right then account f ws (S wi) t_left t_right rs result'
          else (wi, result')
        else (wi, result)
    end.

  Fixpoint sweep (fuel : nat) (E : list edge) (I O : list Z) (L : Q) (ws : list Q)
           (tj tk : Z) (t_left : Q) (wi : nat) (s : bstate) (result : list Q) : option (list Q) :=
    if negb ((tj <? Z.of_nat (length E))%Z || Qltb t_left L) then Some result else
    match fuel with
    | O => None
    | S f =>
        let '(tk', s1) := drain_out (S (length E)) E O tk t_left s in
        let '(tj', s2) := drain_in (S (length E)) E I tj t_left s1 in
        let r0 := L in
        let r1 := if (tj' <? Z.of_nat (length E))%Z then Qmin r0 (e_left (eget E (znth I tj' 0%Z))) else r0 in
        let t_right := if (tk' <? Z.of_nat (length E))%Z then Qmin r1 (e_right (eget E (znth O tk' 0%Z))) else r1 in
        let '(wi', result') := account (S (length ws)) ws wi t_left t_right (b_rs s2) result in
        sweep f E I O L ws tj' tk' t_right wi' s2 result'
    end.

  (* un-normalised per-window sums; None = fuel exhausted (never on valid tables) *)
  Definition branch_incremental (W : weights) (E : list edge) (I O : list Z) (L : Q) (ws : list Q)
    : option (list Q) :=
    sweep (2 * length E + 2) E I O L ws 0%Z 0%Z 0 0%nat
          (init_state (length time) W) (repeat 0 (length ws - 1)).
End Incr.

(* trees.c span_normalise applied to one value per window *)
Fixpoint normalise_rows (ws : list Q) (rows : list Q) : list Q :=
  match ws, rows with
  | a :: ((b :: _) as t), r :: rs => (r / (b - a)) :: normalise_rows t rs
  | _, _ => []
  end.

Definition check_incremental (r : option (list Q)) (norm : bool) (ws expected : list Q) : bool :=
  match r with
  | Some rows => qlist_eqb (if norm then normalise_rows ws rows else rows) expected
  | None => false
  end.
