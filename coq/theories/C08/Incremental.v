(* C08 — Gallina port (over Q) of the incremental branch-mode algorithm
   tsk_treeseq_branch_general_stat, c/tskit/trees.c 1277-1448, for one output component
   of the (possibly unpolarised-wrapped, trees.c 1869-1897) summary function F.
   Arrays are lists with total access (znth default / zupd no-op outside the array):
   memory safety is property C09's business, here only the arithmetic matters and every
   read-after-write order of the C code is kept.  Executable definitions only. *)
From Coq Require Import List ZArith QArith Qminmax Bool Lia.
From TskVerif Require Import C08.Model.
Import ListNotations.
Open Scope Q_scope.

Record edge := mkedge { e_left : Q; e_right : Q; e_parent : Z; e_child : Z }.

Fixpoint upd_nat {A} (l : list A) (i : nat) (a : A) : list A :=
  match l, i with
  | [], _ => []
  | _ :: t, O => a :: t
  | h :: t, S i' => h :: upd_nat t i' a
  end.
Definition zupd {A} (l : list A) (i : Z) (a : A) : list A :=
  if (i <? 0)%Z then l else upd_nat l (Z.to_nat i) a.

Record bstate := mkb {
  b_parent : list Z;         (* parent[]          *)
  b_bl : list Q;             (* branch_length[]   *)
  b_state : list vec;        (* state[] rows      *)
  b_summary : list Q;        (* summary[] rows    *)
  b_rs : Q                   (* running_sum       *)
}.

Section Incr.
  Variable k : nat.
  Variable F : vec -> Q.       (* wrapped summary function, one output component *)
  Variable time : list Q.

  (* update_running_sum(u, sign, ...) : running_sum += sign * branch_length[u] * summary[u] *)
  Definition urs (sign : Q) (u : Z) (s : bstate) : bstate :=
    mkb (b_parent s) (b_bl s) (b_state s) (b_summary s)
        (b_rs s + sign * znth (b_bl s) u 0 * znth (b_summary s) u 0).

  (* one iteration of the `while (u != TSK_NULL)` loops (1360-1372 / 1386-1398):
     running sum -, state[u] +/-= state[child], summary[u] = f(state[u]), running sum + *)
  Definition climb_step (sign : bool) (child u : Z) (s : bstate) : bstate :=
    let s1 := urs (-1) u s in
    let xc := znth (b_state s1) child [] in
    let xu := znth (b_state s1) u [] in
    let xu' := if sign then vadd xu xc else vsub xu xc in
    let st' := zupd (b_state s1) u xu' in
    let s2 := mkb (b_parent s1) (b_bl s1) st' (zupd (b_summary s1) u (F xu')) (b_rs s1) in
    urs 1 u s2.

  Fixpoint climb (fuel : nat) (sign : bool) (child u : Z) (s : bstate) : bstate :=
    if (u <? 0)%Z then s else
    match fuel with
    | O => s
    | S f => let s' := climb_step sign child u s in
             climb f sign child (znth (b_parent s') u NULL) s'
    end.

  Definition fuel_of (s : bstate) : nat := S (length (b_parent s)).

  (* edge removal, trees.c 1350-1373 *)
  Definition remove_edge (e : edge) (s : bstate) : bstate :=
    let u := e_child e in
    let s1 := urs (-1) u s in
    let s2 := mkb (zupd (b_parent s1) u NULL) (zupd (b_bl s1) u 0) (b_state s1) (b_summary s1) (b_rs s1) in
    climb (fuel_of s2) false (e_child e) (e_parent e) s2.

  (* edge insertion, trees.c 1375-1399 *)
  Definition insert_edge (e : edge) (s : bstate) : bstate :=
    let u := e_child e in
    let v := e_parent e in
    let s1 := mkb (zupd (b_parent s) u v) (zupd (b_bl s) u (znth time v 0 - znth time u 0))
                  (b_state s) (b_summary s) (b_rs s) in
    let s2 := urs 1 u s1 in
    climb (fuel_of s2) true u v s2.

  (* initial conditions, trees.c 1318-1340: parent = NULL, branch_length = 0,
     state[sample] = weight, summary[u] = f(state[u]) *)
  Definition init_state (n : nat) (W : weights) : bstate :=
    let st := fold_left (fun acc sw => zupd acc (fst sw) (snd sw)) W (repeat (vzero k) n) in
    mkb (repeat NULL n) (repeat 0 n) st (map F st) 0.

  (* ---- the sweep with window accounting, trees.c 1344-1433 ---- *)
  Definition eget (E : list edge) (i : Z) : edge := znth E i (mkedge 0 0 NULL NULL).

  Fixpoint drain_out (fuel : nat) (E : list edge) (O : list Z) (tk : Z) (t_left : Q) (s : bstate)
    : Z * bstate :=
    match fuel with
    | O => (tk, s)
    | S f =>
        if (tk <? Z.of_nat (length E))%Z && Qeq_bool (e_right (eget E (znth O tk 0%Z))) t_left
        then drain_out f E O (tk + 1)%Z t_left (remove_edge (eget E (znth O tk 0%Z)) s)
        else (tk, s)
    end.
  Fixpoint drain_in (fuel : nat) (E : list edge) (I : list Z) (tj : Z) (t_left : Q) (s : bstate)
    : Z * bstate :=
    match fuel with
    | O => (tj, s)
    | S f =>
        if (tj <? Z.of_nat (length E))%Z && Qeq_bool (e_left (eget E (znth I tj 0%Z))) t_left
        then drain_in f E I (tj + 1)%Z t_left (insert_edge (eget E (znth I tj 0%Z)) s)
        else (tj, s)
    end.

  (* `while (windows[window_index] < t_right)` loop, 1409-1429.  The cursor window_index
     is rendered as the suffix of the breakpoint list starting at windows[window_index];
     [cur] is result_row[window_index] accumulated so far.  Returns (finished windows,
     remaining suffix, partial sum of the window still open). *)
  Fixpoint account (ws : list Q) (cur : Q) (t_left t_right rs : Q) : list Q * list Q * Q :=
    match ws with
    | w_left :: ((w_right :: _) as t) =>
        if Qltb w_left t_right then
          let scale := Qmin t_right w_right - Qmax t_left w_left in
          let cur' := cur + rs * scale in
          if Qle_bool w_right t_right then
            let '(out, rest, c) := account t 0 t_left t_right rs in (cur' :: out, rest, c)
          else ([], ws, cur')
        else ([], ws, cur)
    | _ => ([], ws, cur)
    end.

  (* one visited tree: interval and the running sum while it is current *)
  (* tr_p: snapshot of parent[] while the tree is current *)
  Record trec := mktr { tr_l : Q; tr_r : Q; tr_v : Q; tr_p : list Z }.

  (* the sweep over the trees; returns the visited trees (trace) *)
  Fixpoint sweep_trace (fuel : nat) (E : list edge) (I O : list Z) (L : Q)
           (tj tk : Z) (t_left : Q) (s : bstate) : option (list trec) :=
    if negb ((tj <? Z.of_nat (length E))%Z || Qltb t_left L) then Some [] else
    match fuel with
    | O => None
    | S f =>
        let '(tk', s1) := drain_out (S (length E)) E O tk t_left s in
        let '(tj', s2) := drain_in (S (length E)) E I tj t_left s1 in
        let r0 := L in
        let r1 := if (tj' <? Z.of_nat (length E))%Z then Qmin r0 (e_left (eget E (znth I tj' 0%Z))) else r0 in
        let t_right := if (tk' <? Z.of_nat (length E))%Z then Qmin r1 (e_right (eget E (znth O tk' 0%Z))) else r1 in
        match sweep_trace f E I O L tj' tk' t_right s2 with
        | Some tr => Some (mktr t_left t_right (b_rs s2) (b_parent s2) :: tr)
        | None => None
        end
    end.

  (* the same sweep with the window accounting done tree by tree, as in the C loop *)
  Fixpoint sweep (fuel : nat) (E : list edge) (I O : list Z) (L : Q) (ws : list Q) (cur : Q)
           (tj tk : Z) (t_left : Q) (s : bstate) : option (list Q) :=
    if negb ((tj <? Z.of_nat (length E))%Z || Qltb t_left L) then Some [] else
    match fuel with
    | O => None
    | S f =>
        let '(tk', s1) := drain_out (S (length E)) E O tk t_left s in
        let '(tj', s2) := drain_in (S (length E)) E I tj t_left s1 in
        let r0 := L in
        let r1 := if (tj' <? Z.of_nat (length E))%Z then Qmin r0 (e_left (eget E (znth I tj' 0%Z))) else r0 in
        let t_right := if (tk' <? Z.of_nat (length E))%Z then Qmin r1 (e_right (eget E (znth O tk' 0%Z))) else r1 in
        let '(out, ws', cur') := account ws cur t_left t_right (b_rs s2) in
        match sweep f E I O L ws' cur' tj' tk' t_right s2 with
        | Some r => Some (out ++ r)
        | None => None
        end
    end.

  (* un-normalised per-window sums; None = fuel exhausted (never on valid tables) *)
  Definition branch_incremental (W : weights) (E : list edge) (I O : list Z) (L : Q) (ws : list Q)
    : option (list Q) :=
    sweep (2 * length E + 2) E I O L ws 0 0%Z 0%Z 0 (init_state (length time) W).
  Definition branch_trace (W : weights) (E : list edge) (I O : list Z) (L : Q) : option (list trec) :=
    sweep_trace (2 * length E + 2) E I O L 0%Z 0%Z 0 (init_state (length time) W).
End Incr.

(* trees.c span_normalise applied to one value per window *)
Fixpoint normalise_rows (ws : list Q) (rows : list Q) : list Q :=
  match ws, rows with
  | a :: ((b :: _) as t), r :: rs => (r / (b - a)) :: normalise_rows t rs
  | _, _ => []
  end.

Definition check_incremental (r : option (list Q)) (norm : bool) (ws expected : list Q) : bool :=
  match r with
  | Some rows => qlist_eqb (if norm then normalise_rows ws rows else rows) expected
  | None => false
  end.

(* the hypothesis of AccountProofs.incremental_window_accounting, checked per run *)
Fixpoint trec_tiles_b (t : list trec) (lo hi : Q) : bool :=
  match t with
  | [] => Qeq_bool lo hi
  | x :: r => Qeq_bool (tr_l x) lo && Qltb (tr_l x) (tr_r x) && trec_tiles_b r (tr_r x) hi
  end.
Definition trace_tiles_b (tr : option (list trec)) (lo hi : Q) : bool :=
  match tr with Some t => trec_tiles_b t lo hi | None => false end.

(* ---------- validity of the edge operations of a sweep (boolean, checked per run):
   an edge is removed only where it currently is, and inserted only above a parentless
   child below a strictly older in-range parent.  This is what a valid, indexed edge table
   guarantees (properties C01 / C02). ---------- *)
Definition inr_b (n : nat) (u : Z) : bool := (0 <=? u)%Z && (u <? Z.of_nat n)%Z.
Definition remove_ok_b (n : nat) (e : edge) (s : bstate) : bool :=
  inr_b n (e_child e) && (parent_of (b_parent s) (e_child e) =? e_parent e)%Z && negb (e_parent e =? NULL)%Z.
Definition insert_ok_b (time : list Q) (n : nat) (e : edge) (s : bstate) : bool :=
  inr_b n (e_child e) && inr_b n (e_parent e) && (parent_of (b_parent s) (e_child e) =? NULL)%Z
  && Qltb (znth time (e_child e) 0) (znth time (e_parent e) 0).

Section Ok.
  Variable F : vec -> Q.
  Variable time : list Q.
  Variable n : nat.

  Fixpoint drain_out_ok (fuel : nat) (E : list edge) (O : list Z) (tk : Z) (t_left : Q) (s : bstate) : bool :=
    match fuel with
    | O => true
    | S f =>
        if (tk <? Z.of_nat (length E))%Z && Qeq_bool (e_right (eget E (znth O tk 0%Z))) t_left
        then remove_ok_b n (eget E (znth O tk 0%Z)) s
             && drain_out_ok f E O (tk + 1)%Z t_left (remove_edge F (eget E (znth O tk 0%Z)) s)
        else true
    end.
  Fixpoint drain_in_ok (fuel : nat) (E : list edge) (I : list Z) (tj : Z) (t_left : Q) (s : bstate) : bool :=
    match fuel with
    | O => true
    | S f =>
        if (tj <? Z.of_nat (length E))%Z && Qeq_bool (e_left (eget E (znth I tj 0%Z))) t_left
        then insert_ok_b time n (eget E (znth I tj 0%Z)) s
             && drain_in_ok f E I (tj + 1)%Z t_left (insert_edge F time (eget E (znth I tj 0%Z)) s)
        else true
    end.
  Fixpoint sweep_ok (fuel : nat) (E : list edge) (I O : list Z) (L : Q)
           (tj tk : Z) (t_left : Q) (s : bstate) : bool :=
    if negb ((tj <? Z.of_nat (length E))%Z || Qltb t_left L) then true else
    match fuel with
    | O => true
    | S f =>
        let '(tk', s1) := drain_out F (S (length E)) E O tk t_left s in
        let '(tj', s2) := drain_in F time (S (length E)) E I tj t_left s1 in
        let r0 := L in
        let r1 := if (tj' <? Z.of_nat (length E))%Z then Qmin r0 (e_left (eget E (znth I tj' 0%Z))) else r0 in
        let t_right := if (tk' <? Z.of_nat (length E))%Z then Qmin r1 (e_right (eget E (znth O tk' 0%Z))) else r1 in
        drain_out_ok (S (length E)) E O tk t_left s
        && drain_in_ok (S (length E)) E I tj t_left s1
        && sweep_ok f E I O L tj' tk' t_right s2
    end.
End Ok.

(* per-run checks of the remaining hypotheses of FullBranchProofs.branch_incremental_is_branch_stat:
   the weights are well-formed, and the trees the sweep visits are the segments (marginal
   forests of the table) the specification is evaluated on *)
Definition wok_b (k n : nat) (W : weights) : bool :=
  forallb (fun sw => Nat.eqb (length (snd sw)) k && inr_b n (fst sw)) W
  && (fix nodup (l : list Z) : bool :=
        match l with [] => true | x :: t => negb (existsb (Z.eqb x) t) && nodup t end) (map fst W).
Fixpoint zlist_eqb' (a b : list Z) : bool :=
  match a, b with
  | [], [] => true
  | x :: a', y :: b' => (x =? y)%Z && zlist_eqb' a' b'
  | _, _ => false
  end.
Fixpoint trec_segs_b (t : list trec) (segs : list seg) : bool :=
  match t, segs with
  | [], [] => true
  | x :: t', s :: segs' => Qeq_bool (tr_l x) (s_left s) && Qeq_bool (tr_r x) (s_right s)
                           && zlist_eqb' (tr_p x) (s_parent s) && trec_segs_b t' segs'
  | _, _ => false
  end.
Definition trace_segs_b (tr : option (list trec)) (segs : list seg) : bool :=
  match tr with Some t => trec_segs_b t segs | None => false end.
