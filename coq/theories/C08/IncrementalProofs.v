(* C08 — (d) the running-sum update of tsk_treeseq_branch_general_stat (Gallina port in
   C08/Incremental.v) maintains   running_sum == sum_u branch_length[u] * f(state[u])
   along ANY sequence of edge removals / insertions in which an edge is only inserted
   above a currently parentless child (what the edge sweep of a valid table guarantees).

   PARTIAL.  Full statement (not proved):
     branch_incremental k F time W E I O L ws = Some (windowed (branch_stat ...) ws)
   for every valid, indexed edge table.  Missing: (i) the algorithm's state[] / parent[]
   arrays coincide with the specification's [state] / parent_at at every tree (needs the
   shared edge-sweep lemmas of property C01), (ii) the window accounting loop equals the
   overlap-weighted sum.  Both are tied to the implementation only by the per-run
   correspondence (check_incremental in harness/props/c08.py). *)
From Coq Require Import List ZArith QArith Qminmax Bool Lia Lqa Setoid.
From TskVerif Require Import C08.Model C08.Incremental C08.WindowProofs.
Import ListNotations.
Open Scope Q_scope.

(* ---------- array lemmas ---------- *)
Lemma upd_nat_length {A} (l : list A) i a : length (upd_nat l i a) = length l.
Proof. revert i; induction l as [|h t IH]; intros [|i]; simpl; auto. Qed.

Lemma zupd_length {A} (l : list A) i a : length (zupd l i a) = length l.
Proof. unfold zupd. destruct (i <? 0)%Z; [reflexivity | apply upd_nat_length]. Qed.

Lemma map_upd_nat {A B} (g : A -> B) l i a : map g (upd_nat l i a) = upd_nat (map g l) i (g a).
Proof. revert i; induction l as [|h t IH]; intros [|i]; simpl; try reflexivity. rewrite IH. reflexivity. Qed.

Lemma map_zupd {A B} (g : A -> B) l i a : map g (zupd l i a) = zupd (map g l) i (g a).
Proof. unfold zupd. destruct (i <? 0)%Z; [reflexivity | apply map_upd_nat]. Qed.

Lemma nth_upd_nat_other {A} (l : list A) i j a d : i <> j -> nth j (upd_nat l i a) d = nth j l d.
Proof.
  revert i j; induction l as [|h t IH]; intros [|i] [|j] H; simpl; try reflexivity; try congruence.
  apply IH. congruence.
Qed.

Lemma znth_zupd_other {A} (l : list A) i j a d : i <> j -> znth (zupd l i a) j d = znth l j d.
Proof.
  intros H. unfold znth, zupd. destruct (j <? 0)%Z eqn:Ej; [reflexivity|].
  destruct (i <? 0)%Z eqn:Ei; [reflexivity|].
  apply nth_upd_nat_other. apply Z.ltb_ge in Ej, Ei. lia.
Qed.

Definition dot (bl sm : list Q) : Q := qsum (map (fun p => fst p * snd p) (combine bl sm)).

Lemma dot_upd_nat_l bl : forall sm i b', length bl = length sm ->
  dot (upd_nat bl i b') sm == dot bl sm + (nth i (upd_nat bl i b') 0 - nth i bl 0) * nth i sm 0.
Proof.
  unfold dot. induction bl as [|b bl IH]; intros [|s sm] [|i] b' H; simpl in *; try lia; try lra.
  rewrite (IH sm i b') by lia. lra.
Qed.

Lemma dot_upd_nat_r bl : forall sm i s', length bl = length sm ->
  dot bl (upd_nat sm i s') == dot bl sm + nth i bl 0 * (nth i (upd_nat sm i s') 0 - nth i sm 0).
Proof.
  unfold dot. induction bl as [|b bl IH]; intros [|s sm] [|i] s' H; simpl in *; try lia; try lra.
  rewrite (IH sm i s') by lia. lra.
Qed.

Lemma dot_zupd_l bl sm u b' : length bl = length sm ->
  dot (zupd bl u b') sm == dot bl sm + (znth (zupd bl u b') u 0 - znth bl u 0) * znth sm u 0.
Proof.
  intros H. unfold zupd, znth. destruct (u <? 0)%Z; [lra|]. apply dot_upd_nat_l; assumption.
Qed.

Lemma dot_zupd_r bl sm u s' : length bl = length sm ->
  dot bl (zupd sm u s') == dot bl sm + znth bl u 0 * (znth (zupd sm u s') u 0 - znth sm u 0).
Proof.
  intros H. unfold zupd, znth. destruct (u <? 0)%Z; [lra|]. apply dot_upd_nat_r; assumption.
Qed.

Lemma dot_zero n sm : dot (repeat 0 n) sm == 0.
Proof.
  unfold dot. revert sm; induction n as [|n IH]; intros [|s sm]; simpl; try lra.
  rewrite IH. lra.
Qed.

Lemma nth_upd_nat_zero (bl : list Q) i : nth i (upd_nat bl i 0) 0 == 0.
Proof. revert i; induction bl as [|b bl IH]; intros [|i]; simpl; try lra. apply IH. Qed.

Lemma znth_zupd_zero (bl : list Q) u : znth (zupd bl u 0) u 0 == 0.
Proof. unfold znth, zupd. destruct (u <? 0)%Z; [lra | apply nth_upd_nat_zero]. Qed.

Lemma nth_repeat_Z n j : nth j (repeat NULL n) NULL = NULL.
Proof. revert j; induction n; intros [|j]; simpl; auto. Qed.
Lemma nth_repeat_Q n j : nth j (repeat 0 n) 0 == 0.
Proof. revert j; induction n; intros [|j]; simpl; try lra. apply IHn. Qed.

Section Inv.
  Variable k : nat.
  Variable F : vec -> Q.
  Variable time : list Q.

  Record Inv (s : bstate) : Prop := mkInv {
    inv_len_bl : length (b_bl s) = length (b_summary s);
    inv_len_par : length (b_parent s) = length (b_bl s);
    inv_summary : b_summary s = map F (b_state s);                   (* summary[u] = f(state[u]) *)
    inv_rs : b_rs s == dot (b_bl s) (b_summary s);                   (* the running sum *)
    inv_root : forall u, znth (b_parent s) u NULL = NULL -> znth (b_bl s) u 0 == 0
  }.

  Lemma climb_step_inv sign child u s : Inv s -> Inv (climb_step F sign child u s).
  Proof.
    intros [H1 H2 H3 H4 H5]. unfold climb_step, urs; simpl.
    set (xu' := if sign then _ else _).
    constructor; simpl.
    - rewrite zupd_length. assumption.
    - assumption.
    - rewrite map_zupd, H3. reflexivity.
    - rewrite (dot_zupd_r _ _ u (F xu') H1), H4. lra.
    - assumption.
  Qed.

  Lemma climb_step_parent sign child u s :
    b_parent (climb_step F sign child u s) = b_parent s /\ b_bl (climb_step F sign child u s) = b_bl s.
  Proof. split; reflexivity. Qed.

  Lemma climb_inv fuel : forall sign child u s, Inv s -> Inv (climb F fuel sign child u s).
  Proof.
    induction fuel as [|f IH]; intros sign child u s H; simpl; destruct (u <? 0)%Z; try assumption.
    apply IH. apply climb_step_inv. assumption.
  Qed.

  Lemma remove_edge_inv e s : Inv s -> Inv (remove_edge F e s).
  Proof.
    intros [H1 H2 H3 H4 H5]. unfold remove_edge. apply climb_inv.
    constructor; simpl.
    - rewrite zupd_length. assumption.
    - rewrite !zupd_length. assumption.
    - assumption.
    - rewrite (dot_zupd_l _ _ (e_child e) 0 H1), H4, znth_zupd_zero. lra.
    - intros u Hu. destruct (Z.eq_dec (e_child e) u) as [E|E].
      + subst u. apply znth_zupd_zero.
      + rewrite znth_zupd_other by assumption. apply H5.
        rewrite znth_zupd_other in Hu by assumption. assumption.
  Qed.

  Lemma nth_upd_nat_same_or {A} (l : list A) i a d :
    nth i (upd_nat l i a) d = a \/ (length l <= i)%nat.
  Proof.
    revert i; induction l as [|h t IH]; intros [|i]; simpl; auto with arith.
    destruct (IH i); [left; assumption | right; lia].
  Qed.

  Lemma insert_edge_inv e s : Inv s ->
    znth (b_parent s) (e_child e) NULL = NULL -> (0 <= e_parent e)%Z ->
    Inv (insert_edge F time e s).
  Proof.
    intros [H1 H2 H3 H4 H5] Hroot Hpar. unfold insert_edge. apply climb_inv.
    pose proof (H5 _ Hroot) as Hz.
    constructor; simpl.
    - rewrite zupd_length. assumption.
    - rewrite !zupd_length. assumption.
    - assumption.
    - rewrite (dot_zupd_l _ _ (e_child e) _ H1), H4. rewrite Hz. lra.
    - intros u Hu. destruct (Z.eq_dec (e_child e) u) as [E|E].
      + subst u. (* in range: parent'[u] = e_parent e >= 0, contradiction; out of range: unchanged *)
        unfold znth, zupd in Hu |- *. destruct (e_child e <? 0)%Z eqn:Ec; [lra|].
        destruct (nth_upd_nat_same_or (b_parent s) (Z.to_nat (e_child e)) (e_parent e) NULL) as [Es|Es].
        * rewrite Es in Hu. unfold NULL in Hu. lia.
        * rewrite H2 in Es. rewrite nth_overflow by (rewrite upd_nat_length; assumption). lra.
      + rewrite znth_zupd_other by assumption. apply H5.
        rewrite znth_zupd_other in Hu by assumption. assumption.
  Qed.

  Lemma init_state_inv n W : Inv (init_state k F n W).
  Proof.
    unfold init_state.
    set (st := fold_left _ W _).
    assert (G : forall W0 (l : list vec), length (fold_left (fun acc (sw : Z * vec) => zupd acc (fst sw) (snd sw)) W0 l) = length l).
    { induction W0 as [|w W0 IH]; intros l; simpl; [reflexivity|]. rewrite IH, zupd_length. reflexivity. }
    assert (Hst : length st = n) by (unfold st; rewrite G, repeat_length; reflexivity).
    constructor; simpl.
    - rewrite repeat_length, map_length. auto.
    - rewrite !repeat_length. reflexivity.
    - reflexivity.
    - rewrite dot_zero. reflexivity.
    - intros u _. unfold znth. destruct (u <? 0)%Z; [lra | apply nth_repeat_Q].
  Qed.

  (* ---------- any sequence of sweep operations ---------- *)
  Inductive op := Ins (e : edge) | Rem (e : edge).
  Definition apply_op (s : bstate) (o : op) : bstate :=
    match o with Ins e => insert_edge F time e s | Rem e => remove_edge F e s end.
  (* an edge is inserted only above a currently parentless child, below a real parent *)
  Fixpoint ops_ok (ops : list op) (s : bstate) : Prop :=
    match ops with
    | [] => True
    | Ins e :: r => znth (b_parent s) (e_child e) NULL = NULL /\ (0 <= e_parent e)%Z
                    /\ ops_ok r (insert_edge F time e s)
    | Rem e :: r => ops_ok r (remove_edge F e s)
    end.

  Lemma ops_inv ops : forall s, Inv s -> ops_ok ops s -> Inv (fold_left apply_op ops s).
  Proof.
    induction ops as [|o ops IH]; intros s H Hok; [assumption|].
    destruct o as [e|e]; simpl in *.
    - destruct Hok as [Hr [Hp Hrest]]. apply IH; [apply insert_edge_inv; assumption | assumption].
    - apply IH; [apply remove_edge_inv; assumption | assumption].
  Qed.

  Lemma running_sum_is_tree_sum ops n W :
    ops_ok ops (init_state k F n W) ->
    let s := fold_left apply_op ops (init_state k F n W) in
    b_rs s == dot (b_bl s) (map F (b_state s)).
  Proof.
    intros Hok s. destruct (ops_inv ops _ (init_state_inv n W) Hok) as [_ _ H3 H4 _].
    fold s in H3, H4. rewrite <- H3. exact H4.
  Qed.
End Inv.

(* ---------- non-vacuity: two samples under a root, then one edge replaced ---------- *)
Example ex_ops : list op :=
  [Ins (mkedge 0 2 2 0); Ins (mkedge 0 5 2 1); Rem (mkedge 0 2 2 0); Ins (mkedge 2 5 3 0)].
Example ex_ops_ok : ops_ok ex_f [0; 0; 3; 4] ex_ops (init_state 1 ex_f 4 ex_W).
Proof. vm_compute. repeat split; discriminate. Qed.
Example ex_running_sum :
  b_rs (fold_left (apply_op ex_f [0; 0; 3; 4]) ex_ops (init_state 1 ex_f 4 ex_W)) == 7 # 2.
Proof. vm_compute. reflexivity. Qed.
(* and the whole sweep of the port agrees with the specification on the example *)
Example ex_incremental_agrees :
  check_incremental
    (branch_incremental 1 (polar 1 ex_f ex_W false) ex_time ex_W
       [mkedge 0 2 2 0; mkedge 3 5 2 0; mkedge 0 5 2 1] [0; 2; 1]%Z [0; 1; 2]%Z 5 [0; 1 # 2; 3; 5])
    false [0; 1 # 2; 3; 5]
    (windowed (branch_stat 1 ex_f ex_W ex_time false ex_segs) [0; 1 # 2; 3; 5]) = true
  /\ Forall2 Qeq (windowed (branch_stat 1 ex_f ex_W ex_time false ex_segs) [0; 1 # 2; 3; 5]) [3; 12; 12].
Proof. split; [vm_compute; reflexivity | vm_compute; repeat constructor]. Qed.
