(* C08-F4 (fixed by e85e341): the repaired rf_distance is the documented symmetric
   difference of the sample bipartitions, for all trees; the pinned pre-fix code was not. *)
From Coq Require Import List ZArith Bool Lia.
From TskVerif Require Import Base.Common C08.Rf.
Import ListNotations.
Open Scope Z_scope.

Lemma zlist_eqb_true x y : zlist_eqb x y = true -> x = y.
Proof. apply (list_eqb_eq Z.eqb). intros a b. apply Z.eqb_eq. Qed.

Lemma existsb_filter_nonempty x t :
  nonempty x = true -> existsb (zlist_eqb x) t = existsb (zlist_eqb x) (filter nonempty t).
Proof.
  intros Hx. induction t as [|y t IH]; [reflexivity|]. simpl.
  destruct (nonempty y) eqn:Ey; simpl.
  - rewrite IH. reflexivity.
  - destruct (zlist_eqb x y) eqn:E; [|exact IH].
    apply zlist_eqb_true in E. subst y. congruence.
Qed.

Lemma filter_ldedup l : filter nonempty (ldedup l) = ldedup (filter nonempty l).
Proof.
  induction l as [|x t IH]; [reflexivity|]. simpl.
  destruct (nonempty x) eqn:Ex.
  - simpl. rewrite <- (existsb_filter_nonempty x t Ex).
    destruct (existsb (zlist_eqb x) t); [exact IH|]. simpl. rewrite Ex, IH. reflexivity.
  - destruct (existsb (zlist_eqb x) t); [exact IH|]. simpl. rewrite Ex. exact IH.
Qed.

Lemma clades_code_is_spec p samples : clades_code p samples = clades_spec p samples.
Proof. unfold clades_code, clades_spec, clades_code_pinned. apply filter_ldedup. Qed.

Lemma rf_code_is_spec p1 p2 samples : rf_code p1 p2 samples = rf_spec p1 p2 samples.
Proof. unfold rf_code, rf_spec. rewrite !clades_code_is_spec. reflexivity. Qed.

(* the former witness: samples 0 and 2; tree 1: 0 -> 1 -> 2; tree 2: 0 -> 2 and the
   sample-less leaf 1 -> 2 *)
Example rf_former_witness :
  rf_code [1; 2; -1] [2; 2; -1] [0; 2] = 0 /\ rf_code [3; 3; 4; 4; -1] [4; 3; 3; 4; -1] [0; 1; 2] = 2.
Proof. split; reflexivity. Qed.

(* historical: the pinned pre-fix code counted the empty sample set *)
Lemma rf_pinned_counts_empty_clade :
  exists p1 p2 samples,
    p1 = [1; 2; -1] /\ p2 = [2; 2; -1] /\ samples = [0; 2] /\
    rf_code_pinned p1 p2 samples = 1 /\ rf_spec p1 p2 samples = 0.
Proof. exists [1; 2; -1], [2; 2; -1], [0; 2]. repeat split; reflexivity. Qed.
