From Coq Require Import List ZArith Bool.
From TskVerif Require Import C08.Rf.
Import ListNotations.
Open Scope Z_scope.

(* samples 0 and 2; tree 1: 0 -> 1 -> 2 (node 1 unary); tree 2: 0 -> 2 and the
   sample-less leaf 1 -> 2.  Same sample bipartitions, rf_distance = 1. *)
Lemma rf_counts_empty_clade :
  exists p1 p2 samples,
    p1 = [1; 2; -1] /\ p2 = [2; 2; -1] /\ samples = [0; 2] /\
    rf_code p1 p2 samples = 1 /\ rf_spec p1 p2 samples = 0.
Proof. exists [1; 2; -1], [2; 2; -1], [0; 2]. repeat split; reflexivity. Qed.

(* without sample-less subtrees the two notions coincide on this pair *)
Example rf_agree_without_dead_subtrees :
  rf_code [3; 3; 4; 4; -1] [4; 3; 3; 4; -1] [0; 1; 2] = 2 /\
  rf_spec [3; 3; 4; 4; -1] [4; 3; 3; 4; -1] [0; 1; 2] = 2.
Proof. split; reflexivity. Qed.
