(* C08-F4 (fixed by e85e341): the repaired rf_distance is the documented symmetric
   difference of the sample bipartitions, for all trees; the pinned pre-fix code was not. *)
From Coq Require Import List ZArith Bool Lia.
From TskVerif Require Import Base.Common C08.Rf.
Import ListNotations.
Open Scope Z_scope.

Lemma zlist_eqb_true x y : zlist_eqb x y = true -> x = y.
Proof. apply (list_eqb_eq Z.eqb). intros a b. apply Z.eqb_eq. Qed.

Lemma existsb_filter_nonempty x t :
  nonempty x = true -> existsb (zlist_eqb x) t = existsb (zlist_eqb x) (filter nonempty t).
Proof.
  intros Hx. induction t as [|y t IH]; [reflexivity|]. simpl.
  destruct (nonempty y) eqn:Ey; simpl.
  - rewrite IH. reflexivity.
  - destruct (zlist_eqb x y) eqn:E; [|exact IH].
    apply zlist_eqb_true in E. subst y. congruence.
Qed.

Lemma filter_ldedup l : filter nonempty (ldedup l) = ldedup (filter nonempty l).
Proof.
  induction l as [|x t IH]; [reflexivity|]. simpl.
  destruct (nonempty x) eqn:Ex.
  - simpl. rewrite <- (existsb_filter_nonempty x t Ex).
    destruct (existsb (zlist_eqb x) t); [exact IH|]. simpl. rewrite Ex, IH. reflexivity.
  - destruct (existsb (zlist_eqb x) t); [exact IH|]. simpl. rewrite Ex. exact IH.
Qed.

Lemma clades_code_is_spec p samples : clades_code p samples = clades_spec p samples.
Proof. unfold clades_code, clades_spec, clade_set. apply filter_ldedup. Qed.

Lemma rf_code_is_spec p1 p2 samples : rf_code p1 p2 samples = rf_spec p1 p2 samples.
Proof. unfold rf_code, rf_spec. rewrite !clades_code_is_spec. reflexivity. Qed.

(* the former witness: samples 0 and 2; tree 1: 0 -> 1 -> 2; tree 2: 0 -> 2 and the
   sample-less leaf 1 -> 2 *)
Example rf_former_witness :
  rf_code [1; 2; -1] [2; 2; -1] [0; 2] = 0 /\ rf_code [3; 3; 4; 4; -1] [4; 3; 3; 4; -1] [0; 1; 2] = 2.
Proof. split; reflexivity. Qed.

(* historical: the pinned pre-fix code counted the empty sample set *)
Lemma rf_pinned_counts_empty_clade :
  exists p1 p2 samples,
    p1 = [1; 2; -1] /\ p2 = [2; 2; -1] /\ samples = [0; 2] /\
    rf_code_pinned p1 p2 samples = 1 /\ rf_spec p1 p2 samples = 0.
Proof. exists [1; 2; -1], [2; 2; -1], [0; 2]. repeat split; reflexivity. Qed.

(* ---------- rf is a function of the SETS of clades ---------- *)
From Coq Require Import Permutation.

Lemma zlist_eqb_refl x : zlist_eqb x x = true.
Proof. apply (list_eqb_eq Z.eqb); [intros a b; apply Z.eqb_eq | reflexivity]. Qed.

Lemma existsb_In x l : existsb (zlist_eqb x) l = true <-> In x l.
Proof.
  rewrite existsb_exists. split.
  - intros [y [H1 H2]]. apply zlist_eqb_true in H2. subst. exact H1.
  - intros H. exists x. split; [exact H | apply zlist_eqb_refl].
Qed.

Lemma ldedup_In x l : In x (ldedup l) <-> In x l.
Proof.
  induction l as [|a l IH]; [reflexivity|]. simpl.
  destruct (existsb (zlist_eqb a) l) eqn:E.
  - rewrite IH. split; [auto|]. intros [H|H]; [subst; apply existsb_In; exact E | exact H].
  - simpl. rewrite IH. reflexivity.
Qed.

Lemma ldedup_NoDup l : NoDup (ldedup l).
Proof.
  induction l as [|a l IH]; [constructor|]. simpl.
  destruct (existsb (zlist_eqb a) l) eqn:E; [exact IH|].
  constructor; [|exact IH]. rewrite ldedup_In. intros H. apply existsb_In in H. congruence.
Qed.

Lemma clade_set_NoDup l : NoDup (clade_set l).
Proof. unfold clade_set. apply NoDup_filter. apply ldedup_NoDup. Qed.

Lemma clade_set_In x l : In x (clade_set l) <-> In x l /\ nonempty x = true.
Proof. unfold clade_set. rewrite filter_In, ldedup_In. reflexivity. Qed.

Lemma existsb_ext_members x (a b : list (list Z)) :
  (forall y, In y a <-> In y b) -> existsb (zlist_eqb x) a = existsb (zlist_eqb x) b.
Proof.
  intros H. destruct (existsb (zlist_eqb x) a) eqn:Ea; destruct (existsb (zlist_eqb x) b) eqn:Eb; try reflexivity.
  - apply existsb_In in Ea. apply H in Ea. apply existsb_In in Ea. congruence.
  - apply existsb_In in Eb. apply H in Eb. apply existsb_In in Eb. congruence.
Qed.

Lemma perm_filter {A} (f : A -> bool) l l' : Permutation l l' -> Permutation (filter f l) (filter f l').
Proof.
  induction 1 as [|x l l' H IH|x y l|l l' l'' H1 IH1 H2 IH2]; simpl.
  - constructor.
  - destruct (f x); [constructor; exact IH | exact IH].
  - destruct (f x), (f y); try apply Permutation_refl; apply perm_swap.
  - eapply Permutation_trans; eassumption.
Qed.

Lemma symdiff_members a a' b b' :
  NoDup a -> NoDup a' -> NoDup b -> NoDup b' ->
  (forall y, In y a <-> In y a') -> (forall y, In y b <-> In y b') ->
  symdiff a b = symdiff a' b'.
Proof.
  intros Na Na' Nb Nb' Ha Hb. unfold symdiff.
  pose proof (NoDup_Permutation Na Na' Ha) as Pa. pose proof (NoDup_Permutation Nb Nb' Hb) as Pb.
  assert (E1 : forall l, filter (fun x => negb (existsb (zlist_eqb x) b)) l
                         = filter (fun x => negb (existsb (zlist_eqb x) b')) l).
  { intros l. apply filter_ext. intros x. rewrite (existsb_ext_members x b b' Hb). reflexivity. }
  assert (E2 : forall l, filter (fun x => negb (existsb (zlist_eqb x) a)) l
                         = filter (fun x => negb (existsb (zlist_eqb x) a')) l).
  { intros l. apply filter_ext. intros x. rewrite (existsb_ext_members x a a' Ha). reflexivity. }
  rewrite E1, E2.
  rewrite (Permutation_length (perm_filter _ _ _ Pa)), (Permutation_length (perm_filter _ _ _ Pb)).
  reflexivity.
Qed.

(* two per-node clade lists with the same members give the same distance *)
Lemma rf_of_lists_members l1 l1' l2 l2' :
  (forall c, In c l1 <-> In c l1') -> (forall c, In c l2 <-> In c l2') ->
  rf_of_lists l1 l2 = rf_of_lists l1' l2'.
Proof.
  intros H1 H2. unfold rf_of_lists.
  apply symdiff_members; try apply clade_set_NoDup.
  - intros y. rewrite !clade_set_In, H1. reflexivity.
  - intros y. rewrite !clade_set_In, H2. reflexivity.
Qed.

(* a node that repeats an existing clade (a unary node above c, or a parent whose other
   children carry no samples) does not change the distance, in either argument *)
Lemma rf_repeated_clade l1 l2 c : In c l1 ->
  rf_of_lists (l1 ++ [c]) l2 = rf_of_lists l1 l2 /\ rf_of_lists l2 (l1 ++ [c]) = rf_of_lists l2 l1.
Proof.
  intros Hc.
  assert (M : forall y, In y (l1 ++ [c]) <-> In y l1).
  { intros y. rewrite in_app_iff. simpl. split; [intros [H|[H|[]]]; [exact H | subst; exact Hc] | auto]. }
  split; apply rf_of_lists_members; try exact M; intros y; reflexivity.
Qed.

Lemma rf_code_of_lists p1 p2 samples :
  rf_code p1 p2 samples = rf_of_lists (clade_list p1 samples) (clade_list p2 samples).
Proof. reflexivity. Qed.

(* non-vacuity: samples 0,1,2; A = ((0,1),2); A' = A with the unary node 5 between 3 and 4;
   B = (0,(1,2)).  The per-node clade list of A' repeats {0,1}; the distance stays 2. *)
Example rf_unary_example :
  rf_code [3; 3; 4; 4; -1] [4; 3; 3; 4; -1] [0; 1; 2] = 2 /\
  rf_code [3; 3; 4; 5; -1; 4] [4; 3; 3; 4; -1] [0; 1; 2] = 2 /\
  clade_list [3; 3; 4; 5; -1; 4] [0; 1; 2] = [[0]; [1]; [2]; [0; 1]; [0; 1; 2]; [0; 1]].
Proof. repeat split; reflexivity. Qed.

Lemma rf_sets_all :
  (forall l1 l1' l2 l2' : list (list Z),
      (forall c, In c l1 <-> In c l1') -> (forall c, In c l2 <-> In c l2') ->
      rf_of_lists l1 l2 = rf_of_lists l1' l2') /\
  (forall (l1 l2 : list (list Z)) (c : list Z), In c l1 ->
      rf_of_lists (l1 ++ [c]) l2 = rf_of_lists l1 l2 /\ rf_of_lists l2 (l1 ++ [c]) = rf_of_lists l2 l1) /\
  (forall p1 p2 samples,
      rf_code p1 p2 samples = rf_of_lists (clade_list p1 samples) (clade_list p2 samples)).
Proof. exact (conj rf_of_lists_members (conj rf_repeated_clade rf_code_of_lists)). Qed.
