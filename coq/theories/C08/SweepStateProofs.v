(* C08 — (d''): along valid edge removals / insertions the arrays of the port of
   tsk_treeseq_branch_general_stat are the specification's: state[x] is the sum of the
   sample weights at or below x in the forest given by parent[], branch_length[x] is the
   time difference to the parent, hence running_sum == branch_tree (specification). *)
From Coq Require Import List ZArith QArith Qminmax Bool Lia Lqa Arith Setoid.
From TskVerif Require Import C08.Model C08.Incremental C08.WindowProofs C08.IncrementalProofs
  C08.ForestProofs C08.StateProofs.
Import ListNotations.
Open Scope Q_scope.

Section Track.
  Variable k : nat.
  Variable F : vec -> Q.
  Variable W : weights.
  Variable time : list Q.
  Variable N : nat.

  Definition vop (sign : bool) (a b : vec) : vec := if sign then vadd a b else vsub a b.

  (* ---------- the ancestor walk ---------- *)
  Lemma climb_state : forall fuel sign child w s,
    wf time N (b_parent s) -> length (b_state s) = N ->
    inr N child -> inr N w -> tm time child < tm time w -> (m time N w < fuel)%nat ->
    let s' := climb F fuel sign child w s in
    b_parent s' = b_parent s /\ b_bl s' = b_bl s /\ length (b_state s') = N /\
    forall x, inr N x ->
      znth (b_state s') x [] =
      if anc N (b_parent s) w x then vop sign (znth (b_state s) x []) (znth (b_state s) child [])
      else znth (b_state s) x [].
  Proof.
    induction fuel as [|f IH]; intros sign child w s Hwf Hlen Hc Hw Ht Hm; [lia|].
    cbn [climb]. assert (Hn : (w <? 0)%Z = false) by (unfold inr in Hw; lia). rewrite Hn.
    set (s1 := climb_step F sign child w s).
    assert (P1 : b_parent s1 = b_parent s) by reflexivity.
    assert (B1 : b_bl s1 = b_bl s) by reflexivity.
    assert (S1 : b_state s1 = zupd (b_state s) w (vop sign (znth (b_state s) w []) (znth (b_state s) child [])))
      by (unfold s1, climb_step, vop; destruct sign; reflexivity).
    assert (L1 : length (b_state s1) = N) by (rewrite S1, zupd_length; exact Hlen).
    assert (Hcw : child <> w) by (intros C; subst; lra).
    rewrite P1. change (znth (b_parent s) w NULL) with (parent_of (b_parent s) w).
    pose proof Hwf as [Hl Hpw]. destruct (Hpw w Hw) as [E|[Hv Htv]].
    - (* w is a root: the walk stops *)
      rewrite E. assert (Es : climb F f sign child NULL s1 = s1) by (destruct f; reflexivity).
      rewrite Es. repeat split; auto.
      intros x Hx. rewrite (anc_root time N (b_parent s) w x Hwf Hw E), S1.
      destruct (w =? x)%Z eqn:Ewx.
      + apply Z.eqb_eq in Ewx. subst x. apply znth_zupd_same. unfold inr in Hw. lia.
      + apply Z.eqb_neq in Ewx. apply znth_zupd_other. exact Ewx.
    - set (w' := parent_of (b_parent s) w) in *.
      assert (Hwf1 : wf time N (b_parent s1)) by (rewrite P1; exact Hwf).
      pose proof (m_lt time N w w' Hv Htv) as Hm'.
      specialize (IH sign child w' s1 Hwf1 L1 Hc Hv ltac:(lra) ltac:(lia)).
      cbv zeta in IH. destruct IH as [I1 [I2 [I3 I4]]].
      repeat split; [congruence | congruence | exact I3 |].
      intros x Hx. rewrite (I4 x Hx), P1, S1.
      rewrite (znth_zupd_other _ w child) by congruence.
      rewrite (anc_step time N (b_parent s) w x Hwf Hw). fold w'.
      assert (Hn' : (w' <? 0)%Z = false) by (unfold inr in Hv; lia). rewrite Hn'.
      destruct (w =? x)%Z eqn:Ewx.
      + apply Z.eqb_eq in Ewx. subst x. simpl.
        destruct (anc N (b_parent s) w' w) eqn:Ea.
        * pose proof (proj1 (anc_time time N (b_parent s) Hwf w' Hv w Ea)). lra.
        * apply znth_zupd_same. unfold inr in Hw. lia.
      + apply Z.eqb_neq in Ewx. simpl. rewrite (znth_zupd_other _ w x) by exact Ewx. reflexivity.
  Qed.

  (* ---------- the tracking invariant ---------- *)
  Record Tracks (s : bstate) : Prop := mkTracks {
    tr_inv : Inv F s;
    tr_wf : wf time N (b_parent s);
    tr_len : length (b_state s) = N;
    tr_state : forall x, inr N x -> veq (znth (b_state s) x []) (spec_state k W (b_parent s) x);
    tr_bl : forall x, inr N x -> parent_of (b_parent s) x <> NULL ->
              znth (b_bl s) x 0 == tm time (parent_of (b_parent s) x) - tm time x
  }.

  Hypothesis HW : Wok k W N.

  Lemma insert_tracks e s : Tracks s ->
    inr N (e_child e) -> inr N (e_parent e) -> parent_of (b_parent s) (e_child e) = NULL ->
    tm time (e_child e) < tm time (e_parent e) ->
    Tracks (insert_edge F time e s).
  Proof.
    intros [Hinv Hwf Hlen Hst Hbl] Hu Hv Hroot Ht. set (u := e_child e) in *. set (v := e_parent e) in *.
    pose proof (wf_insert time N (b_parent s) u v Hwf Hu Hv Ht) as Hwf'.
    unfold insert_edge. fold u v.
    set (s2 := urs 1 u _).
    assert (P2 : b_parent s2 = zupd (b_parent s) u v) by reflexivity.
    assert (S2 : b_state s2 = b_state s) by reflexivity.
    assert (B2 : b_bl s2 = zupd (b_bl s) u (znth time v 0 - znth time u 0)) by reflexivity.
    assert (Hf : (m time N v < fuel_of s2)%nat).
    { unfold fuel_of. rewrite P2, zupd_length, (proj1 Hwf). pose proof (m_bound time N v Hv). lia. }
    pose proof (climb_state (fuel_of s2) true u v s2 ltac:(rewrite P2; exact Hwf') ltac:(rewrite S2; exact Hlen)
                            Hu Hv Ht Hf) as C.
    cbv zeta in C. destruct C as [C1 [C2 [C3 C4]]].
    constructor.
    - apply (insert_edge_inv F time e s Hinv); [exact Hroot | unfold inr in Hv; fold v; lia].
    - rewrite C1, P2. exact Hwf'.
    - exact C3.
    - intros x Hx. rewrite (C4 x Hx), C1, P2, S2.
      rewrite (anc_insert_above time N (b_parent s) u v Hwf Hu Hv Ht v Hv Ht x).
      eapply veq_trans; [|apply veq_sym; apply (spec_state_insert k W time N (b_parent s) u v x HW Hwf Hu Hv Hroot Ht)].
      destruct (anc N (b_parent s) v x); [|apply Hst; exact Hx].
      simpl. apply veq_vadd; [apply Hst; exact Hx | apply Hst; exact Hu].
    - intros x Hx Hp. rewrite C1, P2 in Hp |- *. rewrite C2, B2.
      rewrite (parent_of_zupd time N (b_parent s) u v Hwf Hu x Hx) in Hp |- *.
      destruct (x =? u)%Z eqn:E.
      + apply Z.eqb_eq in E. subst x. rewrite znth_zupd_same; [reflexivity|].
        rewrite <- (inv_len_par F s Hinv), (proj1 Hwf). exact Hu.
      + apply Z.eqb_neq in E. rewrite znth_zupd_other by congruence. apply Hbl; assumption.
  Qed.

  Lemma remove_tracks e s : Tracks s ->
    inr N (e_child e) -> parent_of (b_parent s) (e_child e) = e_parent e -> e_parent e <> NULL ->
    Tracks (remove_edge F e s).
  Proof.
    intros [Hinv Hwf Hlen Hst Hbl] Hu Hpar Hnn. set (u := e_child e) in *. set (v := e_parent e) in *.
    pose proof Hwf as [Hl Hpw]. destruct (Hpw u Hu) as [E|[Hv Ht]]; [congruence|]. rewrite Hpar in Hv, Ht.
    pose proof (wf_remove time N (b_parent s) u Hwf Hu) as Hwf'.
    unfold remove_edge. fold u v.
    set (s2 := mkb (zupd (b_parent (urs (-1) u s)) u NULL) _ _ _ _).
    assert (P2 : b_parent s2 = zupd (b_parent s) u NULL) by reflexivity.
    assert (S2 : b_state s2 = b_state s) by reflexivity.
    assert (B2 : b_bl s2 = zupd (b_bl s) u 0) by reflexivity.
    assert (Hf : (m time N v < fuel_of s2)%nat).
    { unfold fuel_of. rewrite P2, zupd_length, Hl. pose proof (m_bound time N v Hv). lia. }
    pose proof (climb_state (fuel_of s2) false u v s2 ltac:(rewrite P2; exact Hwf') ltac:(rewrite S2; exact Hlen)
                            Hu Hv Ht Hf) as C.
    cbv zeta in C. destruct C as [C1 [C2 [C3 C4]]].
    constructor.
    - apply (remove_edge_inv F e s Hinv).
    - rewrite C1, P2. exact Hwf'.
    - exact C3.
    - intros x Hx. rewrite (C4 x Hx), C1, P2, S2.
      assert (Hp' : parent_of (b_parent s) u <> NULL) by congruence.
      pose proof (spec_state_remove k W time N (b_parent s) u x HW Hwf Hu Hp') as R. rewrite Hpar in R.
      eapply veq_trans; [|apply veq_sym; exact R].
      destruct (anc N (zupd (b_parent s) u NULL) v x); [|apply Hst; exact Hx].
      simpl. apply veq_vsub; [apply Hst; exact Hx | apply Hst; exact Hu].
    - intros x Hx Hp. rewrite C1, P2 in Hp |- *. rewrite C2, B2.
      rewrite (parent_of_zupd time N (b_parent s) u NULL Hwf Hu x Hx) in Hp |- *.
      destruct (x =? u)%Z eqn:E; [congruence|].
      apply Z.eqb_neq in E. rewrite znth_zupd_other by congruence. apply Hbl; assumption.
  Qed.
End Track.

(* ---------- running sum = specification's per-tree value ---------- *)
Lemma dot_seq : forall bl sm, length bl = length sm ->
  dot bl sm == qsum (map (fun i => nth i bl 0 * nth i sm 0) (seq 0 (length bl))).
Proof.
  unfold dot. induction bl as [|b bl IH]; intros [|s sm] H; simpl in *; try lia; [reflexivity|].
  rewrite (IH sm) by lia. rewrite <- seq_shift, map_map. reflexivity.
Qed.

Lemma znth_of_nat {A} (l : list A) i d : znth l (Z.of_nat i) d = nth i l d.
Proof. unfold znth. destruct (Z.of_nat i <? 0)%Z eqn:E; [apply Z.ltb_lt in E; lia|]. rewrite Nat2Z.id. reflexivity. Qed.

Lemma dot_zseq bl sm n : length bl = n -> length sm = n ->
  dot bl sm == qsum (map (fun u => znth bl u 0 * znth sm u 0) (zseq n)).
Proof.
  intros H1 H2. rewrite dot_seq by congruence. unfold zseq. rewrite map_map, H1.
  apply qsum_map_ext. intros i _. rewrite !znth_of_nat. reflexivity.
Qed.

Section TreeValue.
  Variable k : nat.
  Variable f : vec -> Q.
  Variable W : weights.
  Variable time : list Q.
  Variable N : nat.
  Variable polarised : bool.
  (* the summary function is a function of the rational values of its argument *)
  Hypothesis f_proper : forall a b, veq a b -> f a == f b.
  Hypothesis HW : Wok k W N.

  Let F := polar k f W polarised.

  Lemma F_proper a b : veq a b -> F a == F b.
  Proof.
    intros H. unfold F, polar. destruct polarised; [apply f_proper; exact H|].
    rewrite (f_proper a b H), (f_proper (vsub (total_weight k W) a) (vsub (total_weight k W) b)); [reflexivity|].
    apply veq_vsub; [apply veq_refl | exact H].
  Qed.

  Lemma tracks_running_sum s : Tracks k F W time N s ->
    b_rs s == branch_tree k f W time polarised (b_parent s).
  Proof.
    intros [Hinv Hwf Hlen Hst Hbl]. destruct Hinv as [I1 I2 I3 I4 I5]. pose proof Hwf as [Hl Hpw].
    rewrite I4. rewrite (dot_zseq _ _ N) by congruence.
    unfold branch_tree. rewrite Hl. apply qsum_map_ext. intros u Hu. apply in_zseq in Hu.
    destruct (Hpw u Hu) as [E|[Hv Ht]].
    - rewrite E. simpl. rewrite (I5 u E). lra.
    - assert (Hn : (parent_of (b_parent s) u <? 0)%Z = false) by (unfold inr in Hv; lia).
      cbv zeta. rewrite Hn.
      assert (Hp : parent_of (b_parent s) u <> NULL) by (unfold NULL; unfold inr in Hv; lia).
      rewrite (Hbl u Hu Hp). unfold tm.
      assert (E : znth (b_summary s) u 0 == polar k f W polarised (state k (b_parent s) W u)).
      { rewrite I3. unfold znth. destruct (u <? 0)%Z eqn:En; [apply Z.ltb_lt in En; unfold inr in Hu; lia|].
        rewrite (nth_indep _ 0 (F [])) by (rewrite map_length, Hlen; unfold inr in Hu; lia).
        rewrite map_nth. apply F_proper. specialize (Hst u Hu). unfold znth in Hst. rewrite En in Hst. exact Hst. }
      rewrite E. reflexivity.
  Qed.
End TreeValue.
