(* C08-F3 (fixed by a2ba426).  BOUNDED positive statement: for every tiling of [0,4) by
   trees with integer end points (each with or without edges) and every window list with
   breakpoints on the half-integer grid, the repaired span bookkeeping equals the
   documented non-missing span.  (Proof by exhaustive evaluation of the 54 x 128 scope,
   lifted with forallb_forall: a proof of the bounded statement only; the unbounded claim
   is tied by the per-run correspondence.)  The pinned pre-fix code is refuted. *)
From Coq Require Import List ZArith QArith Bool.
From TskVerif Require Import C08.Model C08.PairSpan.
Import ListNotations.
Open Scope Q_scope.

Fixpoint sublists {A} (l : list A) : list (list A) :=
  match l with [] => [[]] | x :: t => let r := sublists t in map (cons x) r ++ r end.
Fixpoint bool_lists (n : nat) : list (list bool) :=
  match n with O => [[]] | S m => flat_map (fun l => [true :: l; false :: l]) (bool_lists m) end.
Fixpoint mk_trees (bps : list Q) (flags : list bool) : list ptree :=
  match bps, flags with
  | a :: ((b :: _) as t), f :: fs => mkpt a b f :: mk_trees t fs
  | _, _ => []
  end.

Definition windows_scope : list (list Q) :=
  map (fun mid => 0 :: mid ++ [4]) (sublists [1 # 2; 1; 3 # 2; 2; 5 # 2; 3; 7 # 2]).
Definition tilings_scope : list (list ptree) :=
  flat_map (fun mid => let bps := 0 :: mid ++ [4] in
                       map (mk_trees bps) (bool_lists (length bps - 1)))
           (sublists [1; 2; 3]).

Lemma pcc_spans_scope_checked :
  forallb (fun trees => forallb (fun ws => qlist_eqb (pcc_code_spans trees ws) (pcc_spec_spans trees ws))
                                windows_scope) tilings_scope = true.
Proof. vm_compute. reflexivity. Qed.

Lemma pcc_spans_bounded trees ws :
  In trees tilings_scope -> In ws windows_scope ->
  qlist_eqb (pcc_code_spans trees ws) (pcc_spec_spans trees ws) = true.
Proof.
  intros Ht Hw. pose proof pcc_spans_scope_checked as H.
  rewrite forallb_forall in H. specialize (H trees Ht).
  rewrite forallb_forall in H. exact (H ws Hw).
Qed.

Example scope_sizes : length tilings_scope = 54%nat /\ length windows_scope = 128%nat.
Proof. split; reflexivity. Qed.

(* the former witness is inside the pattern (tree with edges, then none; window ending
   inside the edgeless interval) *)
Definition w_ptrees : list ptree := [mkpt 0 2 false; mkpt 2 6 true].
Example pcc_span_former_witness :
  qlist_eqb (pcc_code_spans w_ptrees [0; 11 # 2; 6]) [2; 0] = true /\
  In [mkpt 0 2 false; mkpt 2 4 true] tilings_scope /\ In [0; 7 # 2; 4] windows_scope.
Proof.
  split; [vm_compute; reflexivity|]. split.
  - unfold tilings_scope. vm_compute. tauto.
  - unfold windows_scope. vm_compute. tauto.
Qed.

(* historical: the pinned pre-fix bookkeeping *)
Lemma pcc_span_pinned_violates_definition :
  exists trees ws,
    trees = w_ptrees /\
    qlist_eqb (pcc_code_spans_pinned trees ws) (pcc_spec_spans trees ws) = false.
Proof. exists w_ptrees, [0; 11 # 2; 6]. split; [reflexivity | vm_compute; reflexivity]. Qed.
