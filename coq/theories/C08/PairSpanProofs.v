From Coq Require Import List ZArith QArith Bool.
From TskVerif Require Import C08.Model C08.PairSpan.
Import ListNotations.
Open Scope Q_scope.

(* tree with edges on [0,2), nothing on [2,6); windows [0, 11/2, 6] *)
Definition w_ptrees : list ptree := [mkpt 0 2 false; mkpt 2 6 true].

Lemma pcc_span_witness :
  qlist_eqb (pcc_code_spans w_ptrees [0; 11 # 2; 6]) [1; 0] = true /\
  qlist_eqb (pcc_spec_spans w_ptrees [0; 11 # 2; 6]) [2; 0] = true.
Proof. split; vm_compute; reflexivity. Qed.

Lemma pcc_span_violates_definition :
  exists trees ws,
    trees = w_ptrees /\
    qlist_eqb (pcc_code_spans trees ws) (pcc_spec_spans trees ws) = false.
Proof. exists w_ptrees, [0; 11 # 2; 6]. split; [reflexivity | vm_compute; reflexivity]. Qed.

(* when no window ends inside an edgeless interval the bookkeeping is right *)
Example pcc_span_agrees_on_tree_aligned_windows :
  qlist_eqb (pcc_code_spans w_ptrees [0; 1; 2; 6]) (pcc_spec_spans w_ptrees [0; 1; 2; 6]) = true.
Proof. vm_compute. reflexivity. Qed.
