(* C08 — Kendall-Colijn distance.  Per tree pair: the squared distance between the KC vectors
   (c/tskit/trees.c fill_kc_vectors / norm_kc_vectors, 7466-7535), exactly over Q (the
   square root is left to the comparison).  Convention of the code, kept here: a pair of
   samples one of which is an ancestor of the other gets no entry (0 in both trees); the
   per-sample entry is m = 1, M = length of the branch above the sample (0 for a root).
   Tree-sequence level (tsk_treeseq_kc_distance): the span-weighted mean, over the
   coiterated tree pairs, of the per-pair distances.  Executable definitions only. *)
From Coq Require Import List ZArith QArith Qminmax Qabs Bool Lia.
From TskVerif Require Import C08.Model.
Import ListNotations.
Open Scope Q_scope.

Fixpoint chain (p : list Z) (fuel : nat) (u : Z) : list Z :=
  u :: match fuel with
       | O => []
       | S f => let v := parent_of p u in if (v <? 0)%Z then [] else chain p f v
       end.
Definition zmem (x : Z) (l : list Z) : bool := existsb (Z.eqb x) l.
Definition mrca (p : list Z) (a b : Z) : Z :=
  let cb := chain p (length p) b in
  hd (-1)%Z (filter (fun w => zmem w cb) (chain p (length p) a)).
Definition depth (p : list Z) (u : Z) : Q := inject_Z (Z.of_nat (length (chain p (length p) u)) - 1).
Definition root_of_node (p : list Z) (u : Z) : Z := last (chain p (length p) u) u.

Definition kc_pair (lam : Q) (p : list Z) (time : list Q) (a b : Z) : Q :=
  let m := mrca p a b in
  if (m =? a)%Z || (m =? b)%Z then 0           (* ancestor / descendant samples: no entry *)
  else (1 - lam) * depth p m + lam * (znth time (root_of_node p a) 0 - znth time m 0).
Definition kc_single (lam : Q) (p : list Z) (time : list Q) (a : Z) : Q :=
  let v := parent_of p a in
  (1 - lam) * 1 + lam * (if (v <? 0)%Z then 0 else znth time v 0 - znth time a 0).

Fixpoint all_pairs (l : list Z) : list (Z * Z) :=
  match l with [] => [] | a :: t => map (fun b => (a, b)) t ++ all_pairs t end.
Definition kc_vector (lam : Q) (p : list Z) (time : list Q) (samples : list Z) : list Q :=
  map (fun ab => kc_pair lam p time (fst ab) (snd ab)) (all_pairs samples)
  ++ map (kc_single lam p time) samples.
Fixpoint sqdist (a b : list Q) : Q :=
  match a, b with x :: a', y :: b' => (x - y) * (x - y) + sqdist a' b' | _, _ => 0 end.
Definition kc2 (lam : Q) (p1 p2 : list Z) (t1 t2 : list Q) (samples : list Z) : Q :=
  sqdist (kc_vector lam p1 t1 samples) (kc_vector lam p2 t2 samples).

(* tree-sequence level: segments (left, right, per-tree-pair distance) *)
Record kseg := mkks { k_left : Q; k_right : Q; k_d : Q }.
Definition kc_sum (segs : list kseg) (a b : Q) : Q :=
  qsum (map (fun s => overlap (k_left s) (k_right s) a b * k_d s) segs).
Definition kc_ts (segs : list kseg) (L : Q) : Q := kc_sum segs 0 L / L.

(* comparisons with the implementation's floats, within a tolerance *)
Definition qclose (tol a b : Q) : bool := Qle_bool (Qabs (a - b)) (tol * Qmax 1 (Qabs b)).
