From Coq Require Import List ZArith QArith Qminmax Bool Lia Lqa.
From TskVerif Require Import C08.Model C08.Kc C08.WindowProofs.
Import ListNotations.
Open Scope Q_scope.

(* the span-weighted KC sum is additive over any split of a window *)
Lemma kc_sum_additive segs : additive (kc_sum segs).
Proof.
  intros a b c H1 H2. unfold kc_sum. rewrite <- qsum_map_add. apply qsum_map_ext. intros s _.
  rewrite (overlap_additive _ _ a b c H1 H2). lra.
Qed.

(* hence over any refinement of the breakpoints (e.g. the common refinement of the two
   sequences' breakpoints): the pieces add up to the whole *)
Lemma kc_sum_refinement segs a t : incr (a :: t) ->
  qsum (windowed (kc_sum segs) (a :: t)) == kc_sum segs a (last (a :: t) 0).
Proof. intros H. apply (window_sum_telescopes _ (kc_sum_additive segs) a t H). Qed.

(* cutting a tree pair at an extra breakpoint (both halves carry the same distance) changes
   nothing *)
Lemma kc_sum_split l m r d rest a b : l <= m -> m <= r ->
  kc_sum (mkks l r d :: rest) a b == kc_sum (mkks l m d :: mkks m r d :: rest) a b.
Proof.
  intros H1 H2. unfold kc_sum. simpl. rewrite (overlap_split_lr l m r a b H1 H2). lra.
Qed.

Lemma kc_all :
  (forall segs a b c, a <= b -> b <= c -> kc_sum segs a c == kc_sum segs a b + kc_sum segs b c) /\
  (forall segs a t, incr (a :: t) -> qsum (windowed (kc_sum segs) (a :: t)) == kc_sum segs a (last (a :: t) 0)) /\
  (forall l m r d rest a b, l <= m -> m <= r ->
     kc_sum (mkks l r d :: rest) a b == kc_sum (mkks l m d :: mkks m r d :: rest) a b).
Proof. split; [exact kc_sum_additive | split; [exact kc_sum_refinement | exact kc_sum_split]]. Qed.

(* non-vacuity: ((0,1),2) against (0,(1,2)), lambda = 1/2, unit branch lengths *)
Example kc2_example :
  kc2 (1 # 2) [3; 3; 4; 4; -1]%Z [4; 3; 3; 4; -1]%Z [0; 0; 0; 1; 2] [0; 0; 0; 1; 2] [0; 1; 2]%Z == 5 # 2
  /\ kc_ts [mkks 0 2 1; mkks 2 3 3] 3 == 5 # 3.
Proof. split; vm_compute; reflexivity. Qed.
