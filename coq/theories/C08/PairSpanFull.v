(* C08-F3, unbounded: for every contiguous sequence of trees tiling [lo,hi) and every strictly
   increasing window list from lo to hi, the repaired span bookkeeping of
   tsk_treeseq_pair_coalescence_stat (PairSpan.pcc_code_spans) equals the documented
   non-missing span of every window. *)
From Coq Require Import List ZArith QArith Qminmax Bool Lia Lqa Setoid.
From TskVerif Require Import C08.Model C08.PairSpan C08.WindowProofs.
Import ListNotations.
Open Scope Q_scope.

(* span of [x,y) covered by edgeless trees *)
Definition Em (trees : list ptree) (x y : Q) : Q :=
  qsum (map (fun t => if p_empty t then overlap (p_left t) (p_right t) x y else 0) trees).

Fixpoint ptiles (trees : list ptree) (lo hi : Q) : Prop :=
  match trees with
  | [] => lo == hi
  | t :: r => p_left t == lo /\ p_left t <= p_right t /\ ptiles r (p_right t) hi
  end.

Lemma ptiles_le trees : forall lo hi, ptiles trees lo hi -> lo <= hi.
Proof.
  induction trees as [|t r IH]; simpl; intros lo hi H; [lra|].
  destruct H as [H1 [H2 H3]]. specialize (IH _ _ H3). lra.
Qed.

Lemma Em_zero_before trees : forall lo hi x b, ptiles trees lo hi -> b <= lo -> Em trees x b == 0.
Proof.
  induction trees as [|t r IH]; intros lo hi x b H Hb; unfold Em; simpl; [reflexivity|].
  destruct H as [H1 [H2 H3]].
  fold (Em r x b). rewrite (IH _ _ x b H3) by lra.
  destruct (p_empty t); [|lra]. unfold overlap. qmm; lra.
Qed.

Lemma Em_zero_after_left trees : forall lo hi x y, ptiles trees lo hi -> hi <= x -> Em trees x y == 0.
Proof.
  induction trees as [|t r IH]; intros lo hi x y H Hx; unfold Em; simpl; [reflexivity|].
  destruct H as [H1 [H2 H3]]. pose proof (ptiles_le _ _ _ H3).
  fold (Em r x y). rewrite (IH _ _ x y H3) by lra.
  destruct (p_empty t); [|lra]. unfold overlap. qmm; lra.
Qed.

Lemma Em_cons t0 rest x y :
  Em (t0 :: rest) x y == (if p_empty t0 then overlap (p_left t0) (p_right t0) x y else 0) + Em rest x y.
Proof. unfold Em. simpl. reflexivity. Qed.

Definition V (trees : list ptree) (extra x y : Q) : Q := (y - x) - extra - Em trees x y.
Definition Vlist (trees : list ptree) (extra : Q) (ws : list Q) : list Q :=
  match ws with
  | x :: ((y :: _) as t) => V trees extra x y :: windowed (V trees 0) t
  | _ => []
  end.

Lemma Forall2_Qeq_refl l : Forall2 Qeq l l.
Proof. induction l; constructor; [reflexivity | assumption]. Qed.

(* windows entirely to the right of tree t0 do not see it *)
Lemma windowed_drop_tree t0 rest : forall b t, sincr (b :: t) -> p_right t0 <= b -> p_left t0 <= p_right t0 ->
  Forall2 Qeq (windowed (V rest 0) (b :: t)) (windowed (V (t0 :: rest) 0) (b :: t)).
Proof.
  intros b t; revert b; induction t as [|c t IH]; intros b Hs Hb Hl; [constructor|].
  destruct Hs as [H1 H2].
  change (windowed ?f (b :: c :: t)) with (f b c :: windowed f (c :: t)).
  constructor; [|apply IH; [assumption | lra | assumption]].
  unfold V. rewrite Em_cons. destruct (p_empty t0); [|lra].
  assert (E : overlap (p_left t0) (p_right t0) b c == 0) by (unfold overlap; qmm; lra).
  rewrite E. lra.
Qed.

(* ---- the flush loop ---- *)
Lemma pcc_flush_step fixed a b t right empty missing :
  pcc_flush fixed (a :: b :: t) right empty missing =
  if Qle_bool b right then
    let span0 := b - a - missing in
    let rem := right - b in
    let span := if empty then (if fixed then span0 + rem else span0 - rem) else span0 in
    let missing' := if empty then rem else 0 in
    let '(out, rest, m) := pcc_flush fixed (b :: t) right empty missing' in
    (span :: out, rest, m)
  else ([], a :: b :: t, missing).
Proof. reflexivity. Qed.

Lemma flush_correct (t0 : ptree) rest hi : ptiles rest (p_right t0) hi -> p_left t0 <= p_right t0 ->
  forall ws' x m extra,
    sincr (x :: ws') -> x <= p_right t0 ->
    Forall (fun b => p_left t0 < b) ws' -> Forall (fun b => b <= hi) ws' ->
    m == extra + (if p_empty t0 then p_right t0 - Qmax x (p_left t0) else 0) ->
    let '(out, rws, m') := pcc_flush true (x :: ws') (p_right t0) (p_empty t0) m in
    Forall2 Qeq (out ++ Vlist rest m' rws) (Vlist (t0 :: rest) extra (x :: ws')) /\
    exists x' ws'', rws = x' :: ws'' /\ sincr rws /\ x' <= p_right t0 /\
                    Forall (fun b => p_right t0 < b) ws'' /\ Forall (fun b => b <= hi) ws''.
Proof.
  intros Ht Hl. set (l := p_left t0) in *. set (r := p_right t0) in *. set (e := p_empty t0) in *.
  induction ws' as [|b t IH]; intros x m extra Hs Hx Hgt Hhi Hm.
  - simpl. split; [constructor|]. exists x, []. repeat split; auto.
  - destruct Hs as [Hxb Hs'].
    inversion Hgt as [|? ? Hlb Hgt']; subst. inversion Hhi as [|? ? Hbhi Hhi']; subst.
    rewrite pcc_flush_step. cbv zeta. destruct (Qle_bool b r) eqn:Ebr.
    + apply Qle_bool_iff in Ebr.
      specialize (IH b (if e then r - b else 0) 0 Hs' Ebr Hgt' Hhi').
      assert (Hm' : (if e then r - b else 0) == 0 + (if e then r - Qmax b l else 0)).
      { destruct e; [|lra]. assert (Qmax b l == b) by (apply Q.max_l; lra). lra. }
      specialize (IH Hm'). revert IH.
      destruct (pcc_flush true (b :: t) r e (if e then r - b else 0)) as [[out rws] m'].
      intros IH. cbv beta iota zeta in IH |- *. destruct IH as [IH1 IH2]. split; [|exact IH2].
      cbn [app Vlist].
      constructor.
      * (* the flushed window [x,b) *)
        unfold V. rewrite Em_cons, (Em_zero_before rest r hi x b Ht Ebr).
        fold e l r. destruct e.
        -- assert (Eo : overlap l r x b == b - Qmax x l) by (unfold overlap; qmm; lra).
           rewrite Eo, Hm. lra.
        -- rewrite Hm. lra.
      * (* the remaining ones *)
        destruct t as [|c t'].
        -- simpl in IH1 |- *. exact IH1.
        -- exact IH1.
    + apply Qle_bool_false in Ebr.
      split.
      * cbn [app Vlist]. constructor.
        -- unfold V. rewrite Em_cons. fold e l r.
           destruct e.
           ++ assert (Eo : overlap l r x b == r - Qmax x l) by (unfold overlap; qmm; lra).
              rewrite Eo, Hm. lra.
           ++ rewrite Hm. lra.
        -- apply windowed_drop_tree; [assumption | fold r; lra | assumption].
      * exists x, (b :: t). repeat split; auto.
        -- constructor; [exact Ebr|].
           clear - Hs' Ebr. revert b Hs' Ebr. induction t as [|c t IHt]; intros b Hs' Ebr; [constructor|].
           destruct Hs' as [H1 H2]. constructor; [lra | apply (IHt c H2); lra].
Qed.

(* ---- the loop over the trees ---- *)
Lemma go_correct rest : forall hi l ws' x extra,
  ptiles rest l hi -> sincr (x :: ws') -> x <= l ->
  Forall (fun b => l < b) ws' -> Forall (fun b => b <= hi) ws' ->
  Forall2 Qeq (pcc_code_spans_go true rest (x :: ws') extra) (Vlist rest extra (x :: ws')).
Proof.
  induction rest as [|t0 rest IH]; intros hi l ws' x extra Ht Hs Hx Hgt Hhi.
  - (* no tree left: every window has been flushed *)
    simpl in Ht. destruct ws' as [|b t]; [constructor|].
    inversion Hgt; subst. inversion Hhi; subst. lra.
  - destruct Ht as [H1 [H2 H3]].
    cbn [pcc_code_spans_go].
    assert (Hgt' : Forall (fun b => p_left t0 < b) ws').
    { eapply Forall_impl; [|exact Hgt]. intros b Hb. simpl in Hb. lra. }
    assert (Hm : (if p_empty t0 then extra + (p_right t0 - p_left t0) else extra)
                 == extra + (if p_empty t0 then p_right t0 - Qmax x (p_left t0) else 0)).
    { destruct (p_empty t0); [|lra]. assert (Qmax x (p_left t0) == p_left t0) by (apply Q.max_r; lra). lra. }
    pose proof (flush_correct t0 rest hi H3 H2 ws' x _ extra Hs ltac:(lra) Hgt' Hhi Hm) as F.
    revert F.
    destruct (pcc_flush true (x :: ws') (p_right t0) (p_empty t0)
               (if p_empty t0 then extra + (p_right t0 - p_left t0) else extra)) as [[out rws] m'].
    intros F. cbv beta iota in F. destruct F as [F1 [x' [ws'' [Er [Hs' [Hx' [Hg'' Hh'']]]]]]]. subst rws.
    specialize (IH hi (p_right t0) ws'' x' m' H3 Hs' Hx' Hg'' Hh'').
    (* out ++ go == out ++ Vlist rest m' rws == Vlist (t0::rest) extra ws *)
    assert (T : Forall2 Qeq (out ++ pcc_code_spans_go true rest (x' :: ws'') m')
                            (out ++ Vlist rest m' (x' :: ws''))).
    { apply Forall2_app; [apply Forall2_Qeq_refl | exact IH]. }
    clear IH. revert T F1.
    generalize (out ++ pcc_code_spans_go true rest (x' :: ws'') m').
    generalize (out ++ Vlist rest m' (x' :: ws'')).
    generalize (Vlist (t0 :: rest) extra (x :: ws')).
    intros c b a Hab. revert c. induction Hab as [|p q a' b' Hpq Hab IHab]; intros c Hbc.
    + exact Hbc.
    + inversion Hbc as [|? r' ? c' Hqr Hbc']; subst. constructor; [rewrite Hpq; exact Hqr | apply IHab; assumption].
Qed.

(* overlap with the whole tiled range *)
Lemma all_overlap_tiles trees : forall lo hi x y, ptiles trees lo hi ->
  qsum (map (fun t => overlap (p_left t) (p_right t) x y) trees) == overlap lo hi x y.
Proof.
  induction trees as [|t r IH]; simpl; intros lo hi x y H.
  - unfold overlap. qmm; lra.
  - destruct H as [H1 [H2 H3]]. pose proof (ptiles_le _ _ _ H3).
    rewrite (IH _ _ x y H3). unfold overlap. qmm; lra.
Qed.

Lemma nonmissing_plus_missing trees x y :
  nonmissing_span trees x y + Em trees x y
  == qsum (map (fun t => overlap (p_left t) (p_right t) x y) trees).
Proof.
  unfold nonmissing_span, Em. induction trees as [|t r IH]; simpl; [lra|].
  destruct (p_empty t); lra.
Qed.

Lemma V_is_nonmissing trees lo hi x y : ptiles trees lo hi -> lo <= x -> x <= y -> y <= hi ->
  V trees 0 x y == nonmissing_span trees x y.
Proof.
  intros Ht H1 H2 H3. unfold V.
  pose proof (nonmissing_plus_missing trees x y) as E.
  rewrite (all_overlap_tiles trees lo hi x y Ht) in E.
  assert (O : overlap lo hi x y == y - x) by (unfold overlap; qmm; lra). lra.
Qed.

Lemma windowed_V_spec trees lo hi : ptiles trees lo hi -> forall x ws', sincr (x :: ws') -> lo <= x ->
  Forall (fun b => b <= hi) ws' ->
  Forall2 Qeq (windowed (V trees 0) (x :: ws')) (windowed (nonmissing_span trees) (x :: ws')).
Proof.
  intros Ht x ws'; revert x; induction ws' as [|b t IH]; intros x Hs Hx Hh; [constructor|].
  destruct Hs as [H1 H2]. inversion Hh; subst.
  change (windowed ?f (x :: b :: t)) with (f x b :: windowed f (b :: t)).
  constructor; [apply (V_is_nonmissing trees lo hi); try assumption; lra | apply IH; [assumption | lra | assumption]].
Qed.

Lemma pcc_spans_correct trees lo hi x ws' :
  ptiles trees lo hi -> x == lo -> sincr (x :: ws') -> Forall (fun b => b <= hi) ws' ->
  Forall2 Qeq (pcc_code_spans trees (x :: ws')) (pcc_spec_spans trees (x :: ws')).
Proof.
  intros Ht Hx Hs Hh. unfold pcc_code_spans, pcc_spec_spans.
  assert (Hgt : Forall (fun b => lo < b) ws').
  { clear - Hs Hx. revert x Hs Hx. induction ws' as [|b t IH]; intros x Hs Hx; [constructor|].
    destruct Hs as [H1 H2]. constructor; [lra|].
    assert (G : forall t b, sincr (b :: t) -> lo < b -> Forall (fun c => lo < c) t).
    { clear. induction t as [|c t IHt]; intros b Hs Hb; [constructor|]. destruct Hs as [H1 H2].
      constructor; [lra | apply (IHt c H2); lra]. }
    apply (G t b H2). lra. }
  pose proof (go_correct trees hi lo ws' x 0 Ht Hs ltac:(lra) Hgt Hh) as G.
  pose proof (windowed_V_spec trees lo hi Ht x ws' Hs ltac:(lra) Hh) as S.
  assert (E : Vlist trees 0 (x :: ws') = windowed (V trees 0) (x :: ws')) by (destruct ws'; reflexivity).
  rewrite E in G. clear E.
  revert G S. generalize (pcc_code_spans_go true trees (x :: ws') 0).
  generalize (windowed (V trees 0) (x :: ws')). generalize (windowed (nonmissing_span trees) (x :: ws')).
  intros c b a Hab. revert c. induction Hab as [|p q a' b' Hpq Hab IHab]; intros c Hbc.
  - exact Hbc.
  - inversion Hbc; subst. constructor; [rewrite Hpq; assumption | apply IHab; assumption].
Qed.

(* non-vacuity: the former witness meets the hypotheses *)
Example pcc_witness_hypotheses :
  ptiles [mkpt 0 2 false; mkpt 2 6 true] 0 6 /\ sincr [0; 11 # 2; 6] /\ Forall (fun b => b <= 6) [11 # 2; 6].
Proof.
  split; [simpl; repeat split; try reflexivity; discriminate|].
  split; [simpl; repeat split; reflexivity|]. repeat constructor; discriminate.
Qed.
