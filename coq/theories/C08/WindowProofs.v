(* C08 — window additivity and span normalisation of the specification (Model.v),
   for all three modes and an arbitrary summary function. *)
From Coq Require Import List ZArith QArith Qminmax Bool Lia Lqa Setoid Morphisms.
From TskVerif Require Import C08.Model.
Import ListNotations.
Open Scope Q_scope.

(* ---------- Qmin/Qmax elimination for lra ---------- *)
Ltac qmm1 x y spec op :=
  let m := fresh "m" in let E := fresh "E" in let Hm := fresh "Hm" in
  destruct (spec x y) as [[? E]|[? E]];
  remember (op x y) as m eqn:Hm; clear Hm.
Ltac qmm :=
  repeat match goal with
  | |- context [Qmax ?x ?y] => qmm1 x y Q.max_spec Qmax
  | |- context [Qmin ?x ?y] => qmm1 x y Q.min_spec Qmin
  | H : context [Qmax ?x ?y] |- _ => qmm1 x y Q.max_spec Qmax
  | H : context [Qmin ?x ?y] |- _ => qmm1 x y Q.min_spec Qmin
  end.

Lemma overlap_additive l r a b c : a <= b -> b <= c ->
  overlap l r a c == overlap l r a b + overlap l r b c.
Proof. intros H1 H2. unfold overlap. qmm; lra. Qed.

Lemma overlap_nonneg l r a b : 0 <= overlap l r a b.
Proof. unfold overlap. qmm; lra. Qed.

Lemma overlap_empty l r a : overlap l r a a == 0 \/ r < l.
Proof. unfold overlap. destruct (Qlt_le_dec r l); [right; assumption | left; qmm; lra]. Qed.

(* ---------- sums ---------- *)
Lemma qsum_map_add {A} (g h : A -> Q) l :
  qsum (map (fun x => g x + h x) l) == qsum (map g l) + qsum (map h l).
Proof. induction l as [|x l IH]; simpl; [lra | rewrite IH; lra]. Qed.

Lemma qsum_map_ext {A} (g h : A -> Q) l :
  (forall x, In x l -> g x == h x) -> qsum (map g l) == qsum (map h l).
Proof.
  induction l as [|x l IH]; simpl; intros H; [reflexivity|].
  rewrite (H x (or_introl eq_refl)), IH; [reflexivity | intros; apply H; auto].
Qed.

Lemma qsum_app l1 l2 : qsum (l1 ++ l2) == qsum l1 + qsum l2.
Proof. induction l1 as [|x l IH]; simpl; [lra | rewrite IH; lra]. Qed.

Lemma qsum_map_scale {A} (c : Q) (g : A -> Q) l :
  qsum (map (fun x => c * g x) l) == c * qsum (map g l).
Proof. induction l as [|x l IH]; simpl; [lra | rewrite IH; lra]. Qed.

(* ---------- additivity of the three modes over [a,b) ∪ [b,c) ---------- *)
Definition additive (stat : Q -> Q -> Q) : Prop :=
  forall a b c, a <= b -> b <= c -> stat a c == stat a b + stat b c.

Lemma tree_stat_additive (val : list Z -> Q) segs : additive (tree_stat val segs).
Proof.
  intros a b c H1 H2. unfold tree_stat.
  rewrite <- qsum_map_add. apply qsum_map_ext. intros s _.
  rewrite (overlap_additive _ _ a b c H1 H2). lra.
Qed.

Lemma Qle_bool_false a b : Qle_bool a b = false <-> b < a.
Proof.
  split; intros H.
  - apply Qnot_le_lt. intros C. apply Qle_bool_iff in C. congruence.
  - destruct (Qle_bool a b) eqn:E; [|reflexivity]. apply Qle_bool_iff in E. lra.
Qed.

Lemma in_window_split a b c x (v : Q) : a <= b -> b <= c ->
  (if in_window a c x then v else 0) ==
  (if in_window a b x then v else 0) + (if in_window b c x then v else 0).
Proof.
  intros H1 H2. unfold in_window, Qltb.
  destruct (Qle_bool a x) eqn:Eax; destruct (Qle_bool c x) eqn:Ecx;
  destruct (Qle_bool b x) eqn:Ebx; simpl; try lra;
  repeat match goal with
  | H : Qle_bool _ _ = true |- _ => apply Qle_bool_iff in H
  | H : Qle_bool _ _ = false |- _ => apply Qle_bool_false in H
  end; lra.
Qed.

Lemma site_stat_gen_additive (val : site -> Q) sites : additive (site_stat_gen val sites).
Proof.
  intros a b c H1 H2. unfold site_stat_gen.
  rewrite <- qsum_map_add. apply qsum_map_ext. intros s _.
  apply in_window_split; assumption.
Qed.

(* ---------- telescoping over a list of breakpoints ---------- *)
Fixpoint incr (ws : list Q) : Prop :=
  match ws with a :: ((b :: _) as t) => a <= b /\ incr t | _ => True end.
Fixpoint sincr (ws : list Q) : Prop :=
  match ws with a :: ((b :: _) as t) => a < b /\ sincr t | _ => True end.

Lemma sincr_incr ws : sincr ws -> incr ws.
Proof.
  induction ws as [|a t IH]; [simpl; auto|]. destruct t as [|b t]; [simpl; auto|].
  intros [H1 H2]. split; [lra | apply IH; assumption].
Qed.

Lemma incr_hd_le_last a t : incr (a :: t) -> a <= last (a :: t) 0.
Proof.
  revert a; induction t as [|b t IH]; intros a H.
  - simpl; lra.
  - destruct H as [H1 H2]. specialize (IH b H2).
    change (last (a :: b :: t) 0) with (last (b :: t) 0). lra.
Qed.

Lemma sincr_hd_lt_last a b t : sincr (a :: b :: t) -> a < last (a :: b :: t) 0.
Proof.
  intros [H1 H2]. pose proof (incr_hd_le_last b t (sincr_incr _ H2)).
  change (last (a :: b :: t) 0) with (last (b :: t) 0). lra.
Qed.

Lemma additive_empty stat a : additive stat -> stat a a == 0.
Proof. intros H. pose proof (H a a a (Qle_refl a) (Qle_refl a)). lra. Qed.

Lemma window_sum_telescopes stat : additive stat ->
  forall a t, incr (a :: t) ->
  qsum (windowed stat (a :: t)) == stat a (last (a :: t) 0).
Proof.
  intros Hadd a t; revert a; induction t as [|b t IH]; intros a H.
  - simpl. symmetry; apply additive_empty; assumption.
  - destruct H as [H1 H2].
    change (windowed stat (a :: b :: t)) with (stat a b :: windowed stat (b :: t)).
    change (last (a :: b :: t) 0) with (last (b :: t) 0).
    simpl qsum. rewrite (IH b H2).
    symmetry. apply Hadd; [assumption | apply incr_hd_le_last; assumption].
Qed.

(* ---------- refinements as groups of breakpoints ----------
   A refinement of coarse windows is given as one group of breakpoints per coarse
   window: group g subdivides [hd g, last g); consecutive groups share their end point. *)
Fixpoint join (gs : list (list Q)) : list Q :=
  match gs with
  | [] => []
  | [g] => g
  | g :: rest => removelast g ++ join rest
  end.
Fixpoint chained (gs : list (list Q)) : Prop :=
  match gs with
  | [] => True
  | g :: rest => (2 <= length g)%nat /\
      match rest with [] => True | h :: _ => last g 0 = hd 0 h end /\ chained rest
  end.
Definition coarse (gs : list (list Q)) : list Q :=
  match gs with [] => [] | g :: _ => hd 0 g :: map (fun g => last g 0) gs end.

Lemma windowed_app {A} (stat : Q -> Q -> A) pre x r :
  windowed stat (pre ++ x :: r) = windowed stat (pre ++ [x]) ++ windowed stat (x :: r).
Proof.
  induction pre as [|p pre IH].
  - reflexivity.
  - destruct pre as [|q pre'].
    + simpl. destruct r; reflexivity.
    + change ((p :: q :: pre') ++ x :: r) with (p :: (q :: pre') ++ x :: r).
      change ((p :: q :: pre') ++ [x]) with (p :: (q :: pre') ++ [x]).
      change (windowed stat (p :: (q :: pre') ++ x :: r))
        with (stat p q :: windowed stat ((q :: pre') ++ x :: r)).
      change (windowed stat (p :: (q :: pre') ++ [x]))
        with (stat p q :: windowed stat ((q :: pre') ++ [x])).
      rewrite IH. reflexivity.
Qed.

Lemma removelast_app_last (g : list Q) d : g <> [] -> removelast g ++ [last g d] = g.
Proof. intros H. symmetry. apply app_removelast_last. assumption. Qed.

Lemma join_hd g rest : (2 <= length g)%nat -> hd 0 (join (g :: rest)) = hd 0 g.
Proof.
  destruct rest as [|h rest]; [reflexivity|]. intros H.
  change (join (g :: h :: rest)) with (removelast g ++ join (h :: rest)).
  destruct g as [|x [|y g]]; simpl in H; try lia. reflexivity.
Qed.

Lemma join_cons_shape h rest : chained (h :: rest) -> exists r, join (h :: rest) = hd 0 h :: r.
Proof.
  intros [Hl _]. pose proof (join_hd h rest Hl) as E.
  destruct (join (h :: rest)) as [|x r] eqn:J.
  - destruct rest as [|h2 rest].
    + simpl in J. subst h. simpl in Hl. lia.
    + change (join (h :: h2 :: rest)) with (removelast h ++ join (h2 :: rest)) in J.
      destruct h as [|a [|b h']]; simpl in Hl; try lia. discriminate J.
  - exists r. simpl in E. subst x. reflexivity.
Qed.

(* the finer windows are exactly the groups' windows, in order *)
Lemma windowed_join {A} (stat : Q -> Q -> A) gs : chained gs ->
  windowed stat (join gs) = concat (map (windowed stat) gs).
Proof.
  induction gs as [|g rest IH]; intros H; [reflexivity|].
  destruct rest as [|h rest].
  - simpl. rewrite app_nil_r. reflexivity.
  - destruct H as [Hl [Hc Hr]].
    change (join (g :: h :: rest)) with (removelast g ++ join (h :: rest)).
    destruct (join_cons_shape h rest Hr) as [r Er]. rewrite Er.
    rewrite windowed_app. rewrite <- Er, (IH Hr).
    rewrite <- Hc. rewrite removelast_app_last by (destruct g; simpl in Hl; [lia | discriminate]).
    reflexivity.
Qed.

Lemma windowed_coarse {A} (stat : Q -> Q -> A) gs : chained gs ->
  windowed stat (coarse gs) = map (fun g => stat (hd 0 g) (last g 0)) gs.
Proof.
  destruct gs as [|g rest]; [reflexivity|]. unfold coarse.
  revert g; induction rest as [|h rest IH]; intros g H.
  - reflexivity.
  - destruct H as [Hl [Hc Hr]].
    change (map (fun g0 => last g0 0) (g :: h :: rest))
      with (last g 0 :: map (fun g0 => last g0 0) (h :: rest)).
    change (windowed stat (hd 0 g :: last g 0 :: map (fun g0 => last g0 0) (h :: rest)))
      with (stat (hd 0 g) (last g 0) :: windowed stat (last g 0 :: map (fun g0 => last g0 0) (h :: rest))).
    change (map (fun g0 => stat (hd 0 g0) (last g0 0)) (g :: h :: rest))
      with (stat (hd 0 g) (last g 0) :: map (fun g0 => stat (hd 0 g0) (last g0 0)) (h :: rest)).
    f_equal. rewrite Hc. apply (IH h Hr).
Qed.

Lemma group_sum stat g : additive stat -> incr g -> (2 <= length g)%nat ->
  qsum (windowed stat g) == stat (hd 0 g) (last g 0).
Proof.
  intros Ha Hi Hl. destruct g as [|a t]; [simpl in Hl; lia|].
  apply window_sum_telescopes; assumption.
Qed.

(* (a) window additivity over any refinement, un-normalised *)
Lemma refinement_additivity stat gs : additive stat -> chained gs -> Forall incr gs ->
  windowed stat (join gs) = concat (map (windowed stat) gs) /\
  Forall2 Qeq (map (fun g => qsum (windowed stat g)) gs) (windowed stat (coarse gs)).
Proof.
  intros Ha Hc Hi. split; [apply windowed_join; assumption|].
  rewrite (windowed_coarse stat gs Hc).
  clear Hc. induction gs as [|g rest IH]; [constructor|].
  inversion Hi as [|? ? Hg Hrest]; subst. simpl. constructor; [|apply IH; assumption].
  destruct g as [|a t]; [simpl; symmetry; apply additive_empty; assumption|].
  apply window_sum_telescopes; assumption.
Qed.

(* span-normalised: the coarse value is the span-weighted mean of the finer values *)
Lemma group_norm_mean stat g : additive stat -> sincr g -> (2 <= length g)%nat ->
  span_normalise1 (hd 0 g) (last g 0) (stat (hd 0 g) (last g 0)) ==
  qsum (windowed (fun x y => (y - x) * span_normalise1 x y (stat x y)) g) / (last g 0 - hd 0 g).
Proof.
  intros Ha Hs Hl.
  assert (E : qsum (windowed (fun x y => (y - x) * span_normalise1 x y (stat x y)) g)
              == qsum (windowed stat g)).
  { clear Hl. induction g as [|a t IH]; [reflexivity|]. destruct t as [|b t]; [reflexivity|].
    destruct Hs as [H1 H2].
    change (windowed ?s (a :: b :: t)) with (s a b :: windowed s (b :: t)).
    simpl qsum. rewrite (IH H2). unfold span_normalise1.
    assert (Hx : (b - a) * (stat a b / (b - a)) == stat a b) by (field; lra).
    rewrite Hx. reflexivity. }
  rewrite E, (group_sum stat g Ha (sincr_incr _ Hs) Hl). reflexivity.
Qed.

Lemma refinement_additivity_normalised stat gs : additive stat -> chained gs -> Forall sincr gs ->
  Forall2 Qeq
    (map (fun g => qsum (windowed (fun x y => (y - x) * span_normalise1 x y (stat x y)) g)
                   / (last g 0 - hd 0 g)) gs)
    (windowed_norm stat (coarse gs)).
Proof.
  intros Ha Hc Hs. unfold windowed_norm. rewrite (windowed_coarse _ gs Hc).
  induction gs as [|g rest IH]; [constructor|].
  inversion Hs as [|? ? Hg Hrest]; subst. destruct Hc as [Hl [_ Hr]].
  simpl. constructor; [|apply IH; assumption].
  symmetry. apply group_norm_mean; assumption.
Qed.

(* ---------- (b) span normalisation ---------- *)
Lemma span_normalise_mul a b v : a < b -> (b - a) * span_normalise1 a b v == v.
Proof. intros H. unfold span_normalise1. field. lra. Qed.

(* contiguous segments [x0,x1) [x1,x2) ... tiling [lo,hi) *)
Fixpoint tiles (segs : list seg) (lo hi : Q) : Prop :=
  match segs with
  | [] => lo == hi
  | s :: rest => s_left s == lo /\ s_left s <= s_right s /\ tiles rest (s_right s) hi
  end.

Lemma tiles_le segs lo hi : tiles segs lo hi -> lo <= hi.
Proof.
  revert lo; induction segs as [|s rest IH]; simpl; intros lo H; [lra|].
  destruct H as [H1 [H2 H3]]. specialize (IH _ H3). lra.
Qed.

Lemma overlap_split_lr lo r hi a b : lo <= r -> r <= hi ->
  overlap lo hi a b == overlap lo r a b + overlap r hi a b.
Proof. intros H1 H2. unfold overlap. qmm; lra. Qed.

Lemma overlap_tiles segs : forall lo hi a b, tiles segs lo hi ->
  qsum (map (fun s => overlap (s_left s) (s_right s) a b) segs) == overlap lo hi a b.
Proof.
  induction segs as [|s rest IH]; simpl; intros lo hi a b H.
  - unfold overlap. qmm; lra.
  - destruct H as [H1 [H2 H3]]. pose proof (tiles_le _ _ _ H3) as Hle.
    rewrite (IH _ _ a b H3).
    rewrite (overlap_split_lr lo (s_right s) hi a b) by lra.
    assert (E : overlap (s_left s) (s_right s) a b == overlap lo (s_right s) a b)
      by (unfold overlap; qmm; lra).
    rewrite E. reflexivity.
Qed.

Lemma overlap_inside lo hi a b : lo <= a -> a <= b -> b <= hi -> overlap lo hi a b == b - a.
Proof. intros. unfold overlap. qmm; lra. Qed.

(* the span-normalised statistic of a window inside the tiled range is the mean of the
   per-tree values weighted by overlap; for a constant per-tree value v it is v *)
Lemma normalised_constant (val : list Z -> Q) v segs lo hi a b :
  tiles segs lo hi -> lo <= a -> a < b -> b <= hi ->
  (forall s, In s segs -> val (s_parent s) == v) ->
  span_normalise1 a b (tree_stat val segs a b) == v.
Proof.
  intros Ht Ha Hab Hb Hv. unfold tree_stat.
  assert (E : qsum (map (fun s => overlap (s_left s) (s_right s) a b * val (s_parent s)) segs)
              == v * qsum (map (fun s => overlap (s_left s) (s_right s) a b) segs)).
  { rewrite <- qsum_map_scale. apply qsum_map_ext. intros s Hs. rewrite (Hv s Hs). lra. }
  unfold span_normalise1.
  rewrite E, (overlap_tiles segs lo hi a b Ht), (overlap_inside lo hi a b) by lra.
  field. lra.
Qed.

(* ---------- the three modes, packaged ---------- *)
Section Modes.
  Variable k : nat.
  Variable f : vec -> Q.
  Variable W : weights.
  Variable time : list Q.
  Variable polarised : bool.

  Lemma branch_stat_additive segs : additive (branch_stat k f W time polarised segs).
  Proof. apply tree_stat_additive. Qed.
  Lemma node_stat_additive segs u : additive (node_stat k f W polarised segs u).
  Proof. apply tree_stat_additive. Qed.
  Lemma site_stat_additive sites : additive (site_stat k f W polarised sites).
  Proof. apply site_stat_gen_additive. Qed.
End Modes.

(* sums of the finer windows, one per group *)
Definition fine_sums (stat : Q -> Q -> Q) (gs : list (list Q)) : list Q :=
  map (fun g => qsum (windowed stat g)) gs.
(* span-weighted means of the finer span-normalised windows, one per group *)
Definition fine_means (stat : Q -> Q -> Q) (gs : list (list Q)) : list Q :=
  map (fun g => qsum (windowed (fun x y => (y - x) * span_normalise1 x y (stat x y)) g)
                / (last g 0 - hd 0 g)) gs.

(* ---------- non-vacuity ---------- *)
Example ex_segs : list seg :=
  [mkseg 0 2 [2; 2; (-1)]%Z; mkseg 2 3 [(-1); 2; (-1)]%Z; mkseg 3 5 [2; 2; (-1)]%Z].
Example ex_W : weights := [(0%Z, [1]); (1%Z, [1])].
Example ex_f : vec -> Q := fun x => match x with [a] => a * (2 - a) / 2 | _ => 0 end.
Example ex_time : list Q := [0; 0; 3].
Example ex_groups : list (list Q) := [[0; 1 # 2; 2]; [2; 5 # 2]; [5 # 2; 3; 9 # 2; 5]].

Example ex_groups_ok : chained ex_groups /\ Forall sincr ex_groups.
Proof.
  split; [simpl; repeat split; auto with arith|].
  repeat constructor; simpl; repeat split; reflexivity.
Qed.
Example ex_join : join ex_groups = [0; 1 # 2; 2; 5 # 2; 3; 9 # 2; 5] /\ coarse ex_groups = [0; 2; 5 # 2; 5].
Proof. split; reflexivity. Qed.
(* the branch statistic of the example is not trivially zero: window [0,2) has value 12 *)
Example ex_branch_value : branch_stat 1 ex_f ex_W ex_time false ex_segs 0 2 == 12.
Proof. vm_compute. reflexivity. Qed.
Example ex_fine_sums :
  Forall2 Qeq (fine_sums (branch_stat 1 ex_f ex_W ex_time false ex_segs) ex_groups) [12; 3 # 2; 27 # 2].
Proof. vm_compute. repeat constructor. Qed.
Example ex_tiles : tiles ex_segs 0 5.
Proof. simpl. repeat split; try reflexivity; discriminate. Qed.

(* ---------- statements exported to Props/C08.v ---------- *)
Lemma window_additivity_all :
  forall (k : nat) (f : vec -> Q) (W : weights) (time : list Q) (polarised : bool)
         (segs : list seg) (sites : list site) (u : Z) (a b c : Q),
    a <= b -> b <= c ->
    branch_stat k f W time polarised segs a c ==
      branch_stat k f W time polarised segs a b + branch_stat k f W time polarised segs b c
    /\ node_stat k f W polarised segs u a c ==
      node_stat k f W polarised segs u a b + node_stat k f W polarised segs u b c
    /\ site_stat k f W polarised sites a c ==
      site_stat k f W polarised sites a b + site_stat k f W polarised sites b c.
Proof.
  intros k f W time pol segs sites u a b c H1 H2. repeat split.
  - exact (branch_stat_additive k f W time pol segs a b c H1 H2).
  - exact (node_stat_additive k f W pol segs u a b c H1 H2).
  - exact (site_stat_additive k f W pol sites a b c H1 H2).
Qed.

(* one of the three modes *)
Inductive mode_stat (k : nat) (f : vec -> Q) (W : weights) (time : list Q) (polarised : bool)
          (segs : list seg) (sites : list site) : (Q -> Q -> Q) -> Prop :=
| MBranch : mode_stat k f W time polarised segs sites (branch_stat k f W time polarised segs)
| MNode u : mode_stat k f W time polarised segs sites (node_stat k f W polarised segs u)
| MSite : mode_stat k f W time polarised segs sites (site_stat k f W polarised sites).

Lemma mode_stat_additive k f W time pol segs sites stat :
  mode_stat k f W time pol segs sites stat -> additive stat.
Proof.
  intros [ |u| ]; [apply branch_stat_additive | apply node_stat_additive | apply site_stat_additive].
Qed.

Lemma window_refinement_all :
  forall k f W time polarised segs sites stat (gs : list (list Q)),
    mode_stat k f W time polarised segs sites stat ->
    chained gs -> Forall incr gs ->
    windowed stat (join gs) = concat (map (windowed stat) gs) /\
    Forall2 Qeq (fine_sums stat gs) (windowed stat (coarse gs)).
Proof.
  intros k f W time pol segs sites stat gs Hm Hc Hi.
  exact (refinement_additivity stat gs (mode_stat_additive _ _ _ _ _ _ _ _ Hm) Hc Hi).
Qed.

Lemma window_refinement_normalised_all :
  forall k f W time polarised segs sites stat (gs : list (list Q)),
    mode_stat k f W time polarised segs sites stat ->
    chained gs -> Forall sincr gs ->
    Forall2 Qeq (fine_means stat gs) (windowed_norm stat (coarse gs)).
Proof.
  intros k f W time pol segs sites stat gs Hm Hc Hs.
  exact (refinement_additivity_normalised stat gs (mode_stat_additive _ _ _ _ _ _ _ _ Hm) Hc Hs).
Qed.

Lemma span_normalise_spec_all :
  (forall a b v : Q, a < b -> (b - a) * span_normalise1 a b v == v) /\
  (forall (val : list Z -> Q) (v : Q) segs lo hi a b,
      tiles segs lo hi -> lo <= a -> a < b -> b <= hi ->
      (forall s, In s segs -> val (s_parent s) == v) ->
      span_normalise1 a b (tree_stat val segs a b) == v).
Proof. split; [exact span_normalise_mul | exact normalised_constant]. Qed.

Example ex_refinement_instance :
  Forall2 Qeq (fine_sums (branch_stat 1 ex_f ex_W ex_time false ex_segs) ex_groups)
              (windowed (branch_stat 1 ex_f ex_W ex_time false ex_segs) [0; 2; 5 # 2; 5]).
Proof.
  destruct ex_groups_ok as [Hc Hs].
  apply (window_refinement_all 1 ex_f ex_W ex_time false ex_segs [] _ ex_groups (MBranch _ _ _ _ _ _ _) Hc).
  apply Forall_forall. intros g Hg. apply sincr_incr. revert g Hg. apply Forall_forall. exact Hs.
Qed.
