(* C08 — the port of tsk_treeseq_branch_general_stat equals the specification
   [branch_stat] over the trees it visits, for every window list, provided the edge
   operations of the sweep are valid (boolean [sweep_ok], what a valid indexed table gives)
   and the visited intervals tile the window range. *)
From Coq Require Import List ZArith QArith Qminmax Bool Lia Lqa Arith Setoid.
From TskVerif Require Import C08.Model C08.Incremental C08.WindowProofs C08.IncrementalProofs
  C08.AccountProofs C08.ForestProofs C08.StateProofs C08.SweepStateProofs.
Import ListNotations.
Open Scope Q_scope.

Lemma SweepProofs_filter_nil {A} (P : A -> bool) l : (forall x, In x l -> P x = false) -> filter P l = [].
Proof. induction l as [|a l IH]; intros H; simpl; [reflexivity|].
  rewrite (H a (or_introl eq_refl)). apply IH. intros x Hx. apply H. right. exact Hx. Qed.

Lemma vadd_zero_r_gen : forall (w : vec) k, length w = k -> veq w (vadd w (vzero k)).
Proof.
  induction w as [|a w IH]; intros [|k] H; simpl in *; try lia; constructor; [lra | apply IH; lia].
Qed.

Lemma inr_b_true n u : inr_b n u = true -> inr n u.
Proof. unfold inr_b, inr. intros H. apply andb_true_iff in H. destruct H as [H1 H2].
  apply Z.leb_le in H1. apply Z.ltb_lt in H2. lia. Qed.

Section Full.
  Variable k : nat.
  Variable f : vec -> Q.
  Variable W : weights.
  Variable time : list Q.
  Variable polarised : bool.
  Hypothesis f_proper : forall a b, veq a b -> f a == f b.

  Let N := length time.
  Let F := polar k f W polarised.
  Hypothesis HW : Wok k W N.

  Lemma remove_ok_tracks e s : Tracks k F W time N s -> remove_ok_b N e s = true ->
    Tracks k F W time N (remove_edge F e s).
  Proof.
    intros HT H. unfold remove_ok_b in H. apply andb_true_iff in H. destruct H as [H H3].
    apply andb_true_iff in H. destruct H as [H1 H2].
    apply (remove_tracks k F W time N HW e s HT).
    - apply inr_b_true. exact H1.
    - apply Z.eqb_eq. exact H2.
    - apply negb_true_iff in H3. apply Z.eqb_neq. exact H3.
  Qed.

  Lemma insert_ok_tracks e s : Tracks k F W time N s -> insert_ok_b time N e s = true ->
    Tracks k F W time N (insert_edge F time e s).
  Proof.
    intros HT H. unfold insert_ok_b in H. apply andb_true_iff in H. destruct H as [H H4].
    apply andb_true_iff in H. destruct H as [H H3]. apply andb_true_iff in H. destruct H as [H1 H2].
    apply (insert_tracks k F W time N HW e s HT).
    - apply inr_b_true. exact H1.
    - apply inr_b_true. exact H2.
    - apply Z.eqb_eq. exact H3.
    - apply ForestProofs.Qltb_true. exact H4.
  Qed.

  Lemma drain_out_tracks : forall fuel E O tk t_left s,
    Tracks k F W time N s -> drain_out_ok F N fuel E O tk t_left s = true ->
    Tracks k F W time N (snd (drain_out F fuel E O tk t_left s)).
  Proof.
    induction fuel as [|fu IH]; intros E O tk t_left s HT Hok; [exact HT|].
    cbn [drain_out drain_out_ok] in *.
    destruct ((tk <? Z.of_nat (length E))%Z && Qeq_bool (e_right (eget E (znth O tk 0%Z))) t_left); [|exact HT].
    apply andb_true_iff in Hok. destruct Hok as [H1 H2].
    apply IH; [apply remove_ok_tracks; assumption | exact H2].
  Qed.

  Lemma drain_in_tracks : forall fuel E I tj t_left s,
    Tracks k F W time N s -> drain_in_ok F time N fuel E I tj t_left s = true ->
    Tracks k F W time N (snd (drain_in F time fuel E I tj t_left s)).
  Proof.
    induction fuel as [|fu IH]; intros E I tj t_left s HT Hok; [exact HT|].
    cbn [drain_in drain_in_ok] in *.
    destruct ((tj <? Z.of_nat (length E))%Z && Qeq_bool (e_left (eget E (znth I tj 0%Z))) t_left); [|exact HT].
    apply andb_true_iff in Hok. destruct Hok as [H1 H2].
    apply IH; [apply insert_ok_tracks; assumption | exact H2].
  Qed.

  (* every visited tree carries the specification's value for its parent array *)
  Lemma sweep_trace_values : forall fuel E I O L tj tk t_left s tr,
    Tracks k F W time N s -> sweep_ok F time N fuel E I O L tj tk t_left s = true ->
    sweep_trace F time fuel E I O L tj tk t_left s = Some tr ->
    Forall (fun t => tr_v t == branch_tree k f W time polarised (tr_p t)) tr.
  Proof.
    induction fuel as [|fu IH]; intros E I O L tj tk t_left s tr HT Hok Htr; cbn [sweep_trace sweep_ok] in *.
    - destruct (negb _); [inversion Htr; constructor | discriminate].
    - destruct (negb _); [inversion Htr; constructor|].
      pose proof (drain_out_tracks (Datatypes.S (length E)) E O tk t_left s HT) as T1.
      destruct (drain_out F (Datatypes.S (length E)) E O tk t_left s) as [tk' s1]. simpl in T1.
      pose proof (drain_in_tracks (Datatypes.S (length E)) E I tj t_left s1) as T2.
      destruct (drain_in F time (Datatypes.S (length E)) E I tj t_left s1) as [tj' s2]. simpl in T2.
      cbv zeta in Hok, Htr.
      apply andb_true_iff in Hok. destruct Hok as [Hok H3]. apply andb_true_iff in Hok. destruct Hok as [H1 H2].
      specialize (T1 H1). specialize (T2 T1 H2).
      match type of Htr with context [sweep_trace F time fu E I O L tj' tk' ?tr s2] => set (t_right := tr) in * end.
      destruct (sweep_trace F time fu E I O L tj' tk' t_right s2) as [tr'|] eqn:Es; [|discriminate].
      inversion Htr; subst. constructor.
      + simpl. apply (tracks_running_sum k f W time N polarised f_proper s2 T2).
      + apply (IH E I O L tj' tk' t_right s2 tr' T2 H3 Es).
  Qed.

  (* ---------- the initial state ---------- *)
  Lemma znth_repeat {A} (a d : A) n u : (0 <= u < Z.of_nat n)%Z -> znth (repeat a n) u d = a.
  Proof.
    intros H. unfold znth. destruct (u <? 0)%Z eqn:E; [apply Z.ltb_lt in E; lia|].
    assert (G : forall m i, (i < m)%nat -> nth i (repeat a m) d = a).
    { induction m as [|m IHm]; intros [|i] Hi; simpl; try lia; try reflexivity. apply IHm. lia. }
    apply G. lia.
  Qed.

  Lemma init_lookup x : forall (l : weights) (acc : list vec),
    NoDup (map fst l) -> Forall (fun sw => inr N (fst sw)) l -> length acc = N ->
    znth (fold_left (fun a (sw : Z * vec) => zupd a (fst sw) (snd sw)) l acc) x [] =
    match filter (fun sw => (fst sw =? x)%Z) l with [] => znth acc x [] | sw :: _ => snd sw end.
  Proof.
    induction l as [|a l IH]; intros acc Hnd Hin Hlen; [reflexivity|].
    inversion Hnd as [|? ? Hna Hnd']; subst. inversion Hin as [|? ? Ha Hin']; subst.
    cbn [fold_left filter]. rewrite (IH _ Hnd' Hin') by (rewrite zupd_length; exact Hlen).
    destruct (fst a =? x)%Z eqn:E.
    - apply Z.eqb_eq in E.
      assert (Ef : filter (fun sw => (fst sw =? x)%Z) l = []).
      { apply SweepProofs_filter_nil. intros sw Hsw. apply Z.eqb_neq. intros C.
        apply Hna. rewrite E, <- C. apply in_map. exact Hsw. }
      rewrite Ef. subst x. apply znth_zupd_same. rewrite Hlen. exact Ha.
    - destruct (filter (fun sw => (fst sw =? x)%Z) l); [|reflexivity].
      apply znth_zupd_other. apply Z.eqb_neq. exact E.
  Qed.

  Lemma filter_key_unique x : forall (l : weights), NoDup (map fst l) ->
    match filter (fun sw => (fst sw =? x)%Z) l with _ :: _ :: _ => False | _ => True end.
  Proof.
    induction l as [|a l IH]; intros Hnd; [exact I|].
    inversion Hnd as [|? ? Hna Hnd']; subst. specialize (IH Hnd'). cbn [filter].
    destruct (fst a =? x)%Z eqn:E; [|exact IH].
    apply Z.eqb_eq in E.
    assert (Ef : filter (fun sw => (fst sw =? x)%Z) l = []).
    { apply SweepProofs_filter_nil. intros sw Hsw. apply Z.eqb_neq. intros C.
      apply Hna. rewrite E, <- C. apply in_map. exact Hsw. }
    rewrite Ef. exact I.
  Qed.

  Lemma init_tracks : NoDup (map fst W) -> Tracks k F W time N (init_state k F N W).
  Proof.
    intros Hnd.
    assert (Hin : Forall (fun sw : Z * vec => inr N (fst sw)) W)
      by (eapply Forall_impl; [|exact HW]; intros sw [_ H]; exact H).
    assert (Hwf0 : wf time N (repeat NULL N)).
    { split; [apply repeat_length|]. intros u Hu. left. unfold parent_of. apply znth_repeat. exact Hu. }
    assert (G : forall (l : weights) (acc : list vec),
               length (fold_left (fun a (sw : Z * vec) => zupd a (fst sw) (snd sw)) l acc) = length acc).
    { induction l as [|a l IH]; intros acc; simpl; [reflexivity|]. rewrite IH, zupd_length. reflexivity. }
    constructor.
    - apply init_state_inv.
    - exact Hwf0.
    - unfold init_state. cbn [b_state]. rewrite G. apply repeat_length.
    - intros x Hx. unfold init_state. cbn [b_state b_parent].
      rewrite (init_lookup x W _ Hnd Hin (repeat_length _ _)).
      rewrite (spec_state_anc k W time N _ x Hwf0).
      assert (Ef : filter (fun sw => anc N (repeat NULL N) (fst sw) x) W = filter (fun sw => (fst sw =? x)%Z) W).
      { apply filter_ext_in. intros sw Hsw. rewrite Forall_forall in Hin.
        apply (anc_root time N _ (fst sw) x Hwf0 (Hin sw Hsw)). unfold parent_of. apply znth_repeat. apply (Hin sw Hsw). }
      rewrite Ef. pose proof (filter_key_unique x W Hnd) as U.
      assert (Hk : Forall (fun sw : Z * vec => length (snd sw) = k) (filter (fun sw => (fst sw =? x)%Z) W)).
      { apply Forall_forall. intros sw Hsw. apply filter_In in Hsw. destruct Hsw as [Hsw _].
        unfold Wok in HW. rewrite Forall_forall in HW. apply (HW sw Hsw). }
      destruct (filter (fun sw => (fst sw =? x)%Z) W) as [|sw [|sw2 r]].
      + rewrite znth_repeat by exact Hx. apply veq_refl.
      + simpl. apply vadd_zero_r_gen. inversion Hk as [|? ? Hk1 _]. exact Hk1.
      + contradiction.
    - intros x Hx Hp. exfalso. apply Hp. unfold init_state. cbn [b_parent]. unfold parent_of. apply znth_repeat. exact Hx.
  Qed.

  (* ---------- the visited trees as specification segments ---------- *)
  Definition segs_of_trace (tr : list trec) : list seg :=
    map (fun t => mkseg (tr_l t) (tr_r t) (tr_p t)) tr.

  Lemma S_is_branch_stat tr a b :
    Forall (fun t => tr_v t == branch_tree k f W time polarised (tr_p t)) tr ->
    S tr a b == branch_stat k f W time polarised (segs_of_trace tr) a b.
  Proof.
    intros H. unfold S, branch_stat, tree_stat, segs_of_trace. rewrite map_map.
    induction H as [|t tr Ht Htr IH]; simpl; [reflexivity|]. rewrite IH, Ht. reflexivity.
  Qed.

  Lemma windowed_ext (g h : Q -> Q -> Q) : (forall a b, g a b == h a b) ->
    forall l, Forall2 Qeq (windowed g l) (windowed h l).
  Proof.
    intros H l. induction l as [|a t IH]; [constructor|]. destruct t as [|b t']; [constructor|].
    change (windowed ?f0 (a :: b :: t')) with (f0 a b :: windowed f0 (b :: t')).
    constructor; [apply H | exact IH].
  Qed.

  (* The port equals the specification over the trees it visits, for every window list. *)
  Lemma branch_incremental_is_branch_stat E I O L x ws' trace hi :
    NoDup (map fst W) ->
    sweep_ok F time N (2 * length E + 2) E I O L 0%Z 0%Z 0 (init_state k F N W) = true ->
    branch_trace k F time W E I O L = Some trace ->
    ttiles trace x hi -> sincr (x :: ws') -> Forall (fun b => b <= hi) ws' ->
    exists rows, branch_incremental k F time W E I O L (x :: ws') = Some rows /\
                 Forall2 Qeq rows (windowed (branch_stat k f W time polarised (segs_of_trace trace)) (x :: ws')).
  Proof.
    intros Hnd Hok Htr Ht Hs Hh.
    destruct (incremental_window_accounting k F time W E I O L x ws' trace hi Htr Ht Hs Hh) as [rows [R1 R2]].
    exists rows. split; [exact R1|].
    eapply Forall2_Qeq_trans; [exact R2|]. apply windowed_ext. intros a b.
    apply S_is_branch_stat.
    unfold branch_trace in Htr.
    apply (sweep_trace_values _ E I O L 0%Z 0%Z 0 (init_state k F (length time) W) trace (init_tracks Hnd) Hok Htr).
  Qed.
End Full.
