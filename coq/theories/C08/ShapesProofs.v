From Coq Require Import List ZArith Bool Lia PeanoNat.
From TskVerif Require Import C08.Shapes.
Import ListNotations.

Lemma broadcastable_refl s : broadcastable s s = true.
Proof. induction s as [|d s IH]; simpl; [reflexivity|]. rewrite Nat.eqb_refl, IH. reflexivity. Qed.

Lemma broadcastable_app_one s n : broadcastable (s ++ [1]) (s ++ [n]) = true.
Proof.
  induction s as [|d s IH]; simpl.
  - rewrite orb_true_r. reflexivity.
  - rewrite Nat.eqb_refl, IH. reflexivity.
Qed.

(* the repaired shaping never raises and gives the documented shape, for every combination
   of windows / mode / indexes *)
Lemma proportion_shape_total windows node_mode num_nodes indexes :
  proportion_shape windows node_mode num_nodes indexes =
  Some (documented_shape windows node_mode num_nodes indexes).
Proof.
  unfold proportion_shape, documented_shape, out_shape, denominator_shape.
  set (l := lead windows node_mode num_nodes).
  destruct indexes as [[[|] n]|].
  - replace (Nat.eqb (length l) (S (length l))) with false
      by (symmetry; apply Nat.eqb_neq; lia).
    rewrite broadcastable_refl. reflexivity.
  - rewrite app_length. simpl.
    replace (Nat.eqb (length l + 1) (S (length l))) with true
      by (symmetry; apply Nat.eqb_eq; lia).
    rewrite broadcastable_app_one. reflexivity.
  - replace (Nat.eqb (length l) (S (length l))) with false
      by (symmetry; apply Nat.eqb_neq; lia).
    rewrite broadcastable_refl. reflexivity.
Qed.

Example proportion_shape_former_witness :
  proportion_shape (Some 2) false 5 (Some (true, 1)) = Some [2] /\
  proportion_shape (Some 3) true 5 (Some (false, 2)) = Some [3; 5; 2].
Proof. split; reflexivity. Qed.

(* historical: the pinned pre-fix shaping raised for a documented call *)
Lemma proportion_shape_pinned_raises :
  exists windows node_mode num_nodes,
    proportion_shape_pinned windows node_mode num_nodes (Some (true, 1)) = None /\
    documented_shape windows node_mode num_nodes (Some (true, 1)) = [2].
Proof. exists (Some 2), false, 5. split; reflexivity. Qed.
