From Coq Require Import List ZArith Bool Lia.
From TskVerif Require Import C08.Shapes.
Import ListNotations.

(* a documented call (one index tuple, two windows) raises instead of returning shape [2] *)
Lemma proportion_shape_witness :
  proportion_shape (Some 2) false 5 (Some (true, 1)) = None /\
  documented_shape (Some 2) false 5 (Some (true, 1)) = [2].
Proof. split; reflexivity. Qed.

Lemma proportion_shape_raises :
  exists windows node_mode num_nodes,
    (* one index tuple: a documented way of calling the method *)
    proportion_shape windows node_mode num_nodes (Some (true, 1)) = None /\
    documented_shape windows node_mode num_nodes (Some (true, 1)) = [2].
Proof. exists (Some 2), false, 5. split; reflexivity. Qed.

(* with a list of index tuples (or indexes=None) the shaping always succeeds *)
Lemma set_last_app (s : shape) n v : set_last (s ++ [n]) v = s ++ [v].
Proof.
  induction s as [|h t IH]; [reflexivity|].
  change ((h :: t) ++ [n]) with (h :: (t ++ [n])).
  destruct t as [|h2 t2]; [reflexivity|].
  change (set_last (h :: (h2 :: t2) ++ [n]) v) with (h :: set_last ((h2 :: t2) ++ [n]) v).
  rewrite IH. reflexivity.
Qed.

Lemma size_app_one (s : shape) : size (s ++ [1]) = size s.
Proof. induction s as [|h t IH]; simpl; [reflexivity | rewrite IH; reflexivity]. Qed.

Lemma proportion_shape_ok_for_index_lists windows node_mode num_nodes n :
  proportion_shape windows node_mode num_nodes (Some (false, n)) =
  Some (documented_shape windows node_mode num_nodes (Some (false, n))) /\
  proportion_shape windows node_mode num_nodes None =
  Some (documented_shape windows node_mode num_nodes None).
Proof.
  split; [|reflexivity]. unfold proportion_shape, documented_shape, out_shape, denominator_shape.
  destruct (lead windows node_mode num_nodes) as [|d ds] eqn:E; [reflexivity|].
  unfold reshape. rewrite set_last_app, size_app_one, Nat.eqb_refl. reflexivity.
Qed.
