From Coq Require Import List ZArith QArith Bool.
From TskVerif Require Import C08.Model C08.RelVec.
Import ListNotations.
Open Scope Q_scope.

(* two samples (times 1) under a root (time 2) on [0,3), W = (3,4), focal sample 0 *)
Lemma grv_ignores_span_normalise :
  exists time W i segs ws,
    segs = [mkseg 0 3 [2; 2; (-1)]%Z] /\ ws = [0; 3] /\
    qlist_eqb (grv_code true time W i segs ws) [9] = true /\
    qlist_eqb (grv_spec true time W i segs ws) [3] = true.
Proof.
  exists [1; 1; 2], [(0%Z, 3); (1%Z, 4)], 0%Z, [mkseg 0 3 [2; 2; (-1)]%Z], [0; 3].
  repeat split; vm_compute; reflexivity.
Qed.

Example grv_agree_unnormalised :
  qlist_eqb (grv_code false [1; 1; 2] [(0%Z, 3); (1%Z, 4)] 1%Z [mkseg 0 3 [2; 2; (-1)]%Z] [0; 1; 3])
            (grv_spec false [1; 1; 2] [(0%Z, 3); (1%Z, 4)] 1%Z [mkseg 0 3 [2; 2; (-1)]%Z] [0; 1; 3]) = true.
Proof. vm_compute. reflexivity. Qed.
