(* C08-F4 — Tree.rf_distance (python/tskit/trees.py 2972-3016): the set of sample sets
   below every node of the tree (_get_sample_sets over tree.nodes(), i.e. the nodes under
   the roots), symmetric difference.  Executable definitions only. *)
From Coq Require Import List ZArith Bool Lia.
From TskVerif Require Import Base.Common C08.Model.
Import ListNotations.
Open Scope Z_scope.

Fixpoint root_of (p : list Z) (fuel : nat) (u : Z) : Z :=
  match fuel with
  | O => u
  | S f => let v := parent_of p u in if v <? 0 then u else root_of p f v
  end.

Definition clade (p : list Z) (samples : list Z) (u : Z) : list Z :=
  filter (fun s => anc_or_self p (length p) s u) samples.

(* tskit roots subtend at least one sample; tree.nodes() visits the nodes below the roots *)
Definition in_tree (p : list Z) (samples : list Z) (u : Z) : bool :=
  negb (match clade p samples (root_of p (length p) u) with [] => true | _ => false end).

Fixpoint ldedup (l : list (list Z)) : list (list Z) :=
  match l with
  | [] => []
  | x :: t => if existsb (zlist_eqb x) t then ldedup t else x :: ldedup t
  end.

Definition clades_code (p : list Z) (samples : list Z) : list (list Z) :=
  ldedup (map (clade p samples) (filter (in_tree p samples) (zseq (length p)))).
(* the documented notion: bipartitions of the samples, so only non-empty sample sets *)
Definition clades_spec (p : list Z) (samples : list Z) : list (list Z) :=
  filter (fun c => match c with [] => false | _ => true end) (clades_code p samples).

Definition symdiff (a b : list (list Z)) : Z :=
  Z.of_nat (length (filter (fun x => negb (existsb (zlist_eqb x) b)) a)
            + length (filter (fun x => negb (existsb (zlist_eqb x) a)) b)).

Definition rf_code (p1 p2 samples : list Z) : Z := symdiff (clades_code p1 samples) (clades_code p2 samples).
Definition rf_spec (p1 p2 samples : list Z) : Z := symdiff (clades_spec p1 samples) (clades_spec p2 samples).
