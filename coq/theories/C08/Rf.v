(* C08-F4 (fixed by e85e341) — Tree.rf_distance (python/tskit/trees.py 2972-3016): the set of sample sets
   below every node of the tree (_get_sample_sets over tree.nodes(), i.e. the nodes under
   the roots), symmetric difference.  Executable definitions only. *)
From Coq Require Import List ZArith Bool Lia.
From TskVerif Require Import Base.Common C08.Model.
Import ListNotations.
Open Scope Z_scope.

Fixpoint root_of (p : list Z) (fuel : nat) (u : Z) : Z :=
  match fuel with
  | O => u
  | S f => let v := parent_of p u in if v <? 0 then u else root_of p f v
  end.

Definition clade (p : list Z) (samples : list Z) (u : Z) : list Z :=
  filter (fun s => anc_or_self p (length p) s u) samples.

(* tskit roots subtend at least one sample; tree.nodes() visits the nodes below the roots *)
Definition in_tree (p : list Z) (samples : list Z) (u : Z) : bool :=
  negb (match clade p samples (root_of p (length p) u) with [] => true | _ => false end).

Fixpoint ldedup (l : list (list Z)) : list (list Z) :=
  match l with
  | [] => []
  | x :: t => if existsb (zlist_eqb x) t then ldedup t else x :: ldedup t
  end.

(* per-node sample sets: one entry per node of the tree (_get_sample_sets().values()); a
   unary node, or a node whose other children carry no samples, repeats its child's entry *)
Definition clade_list (p : list Z) (samples : list Z) : list (list Z) :=
  map (clade p samples) (filter (in_tree p samples) (zseq (length p))).
Definition nonempty (c : list Z) : bool := match c with [] => false | _ => true end.
(* the *set* of sample bipartitions carried by a list of per-node clades *)
Definition clade_set (l : list (list Z)) : list (list Z) := filter nonempty (ldedup l).

(* PINNED pre-fix code: set(self._get_sample_sets().values()), empty sets included *)
Definition clades_code_pinned (p : list Z) (samples : list Z) : list (list Z) :=
  ldedup (clade_list p samples).
(* repaired code: {s for s in self._get_sample_sets().values() if len(s) > 0} *)
Definition clades_code (p : list Z) (samples : list Z) : list (list Z) :=
  clade_set (clade_list p samples).
(* the documented notion: bipartitions of the samples = distinct non-empty sample sets
   below the nodes of the tree *)
Definition clades_spec (p : list Z) (samples : list Z) : list (list Z) :=
  ldedup (filter nonempty (clade_list p samples)).

Definition symdiff (a b : list (list Z)) : Z :=
  Z.of_nat (length (filter (fun x => negb (existsb (zlist_eqb x) b)) a)
            + length (filter (fun x => negb (existsb (zlist_eqb x) a)) b)).

Definition rf_code (p1 p2 samples : list Z) : Z := symdiff (clades_code p1 samples) (clades_code p2 samples).
Definition rf_code_pinned (p1 p2 samples : list Z) : Z :=
  symdiff (clades_code_pinned p1 samples) (clades_code_pinned p2 samples).
Definition rf_spec (p1 p2 samples : list Z) : Z := symdiff (clades_spec p1 samples) (clades_spec p2 samples).

(* rf as a function of the two per-node clade lists *)
Definition rf_of_lists (l1 l2 : list (list Z)) : Z := symdiff (clade_set l1) (clade_set l2).
