(* C08 — soundness of the Python work splitters used for threads
   (python/tskit/trees.py _chunk_windows, _chunk_sequence_by_tree, numpy.array_split,
   genealogical_nearest_neighbours) and schedule independence of the combination. *)
From Coq Require Import List ZArith QArith Qminmax Bool Lia Lqa Arith PeanoNat.
From TskVerif Require Import C08.Model C08.WindowProofs.
Import ListNotations.
Open Scope Q_scope.

(* ---------- numpy.array_split ---------- *)
Lemma list_sum_repeat a m : list_sum (repeat a m) = (a * m)%nat.
Proof. induction m; simpl; lia. Qed.

Lemma split_sizes_sum len n : (1 <= n)%nat -> list_sum (split_sizes len n) = len.
Proof.
  intros Hn. unfold split_sizes. rewrite list_sum_app, !list_sum_repeat.
  pose proof (Nat.div_mod len n ltac:(lia)) as E.
  pose proof (Nat.mod_upper_bound len n ltac:(lia)) as B.
  remember (len / n)%nat as q. remember (len mod n)%nat as r. nia.
Qed.

Lemma split_sizes_pos len n : (1 <= n)%nat -> (n <= len)%nat ->
  Forall (fun s => 1 <= s)%nat (split_sizes len n).
Proof.
  intros H1 H2. unfold split_sizes.
  assert (1 <= len / n)%nat by (apply Nat.div_le_lower_bound; lia).
  apply Forall_app; split; apply Forall_forall; intros x Hx; apply repeat_spec in Hx; lia.
Qed.

Lemma split_sizes_length len n : (1 <= n)%nat -> length (split_sizes len n) = n.
Proof.
  intros H. unfold split_sizes. rewrite app_length, !repeat_length.
  pose proof (Nat.mod_upper_bound len n ltac:(lia)). lia.
Qed.

Lemma take_parts_concat {A} sizes : forall (l : list A),
  list_sum sizes = length l -> concat (take_parts sizes l) = l.
Proof.
  induction sizes as [|s ss IH]; intros l H; simpl in *.
  - destruct l; [reflexivity | discriminate].
  - rewrite IH; [apply firstn_skipn|]. rewrite skipn_length. lia.
Qed.

Lemma take_parts_nonempty {A} sizes : forall (l : list A),
  list_sum sizes = length l -> Forall (fun s => 1 <= s)%nat sizes ->
  Forall (fun p => p <> []) (take_parts sizes l).
Proof.
  induction sizes as [|s ss IH]; intros l H Hp; simpl in *; [constructor|].
  inversion Hp as [|? ? Hs Hss]; subst. constructor.
  - destruct l as [|x l]; [simpl in H; lia|]. destruct s; [lia|]. simpl. discriminate.
  - apply IH; [rewrite skipn_length; lia | assumption].
Qed.

Lemma array_split_concat {A} (l : list A) n : (1 <= n)%nat -> concat (array_split l n) = l.
Proof. intros H. apply take_parts_concat. apply split_sizes_sum; assumption. Qed.

Lemma array_split_nonempty {A} (l : list A) n : (1 <= n)%nat -> (n <= length l)%nat ->
  Forall (fun p => p <> []) (array_split l n).
Proof.
  intros H1 H2. apply take_parts_nonempty;
    [apply split_sizes_sum; assumption | apply split_sizes_pos; assumption].
Qed.

Lemma array_split_length {A} (l : list A) n : (1 <= n)%nat -> length (array_split l n) = n.
Proof.
  intros H. unfold array_split. rewrite <- (split_sizes_length (length l) n H) at 2.
  generalize (split_sizes (length l) n). intros sizes. revert l.
  induction sizes as [|s ss IH]; intros l; simpl; [reflexivity | rewrite IH; reflexivity].
Qed.

(* ---------- closing the chunks: every chunk gets the next chunk's first breakpoint ---------- *)
Lemma removelast_snoc {A} (p : list A) x : removelast (p ++ [x]) = p.
Proof. apply removelast_last. Qed.

Lemma close_chunks_join parts final : parts <> [] -> Forall (fun p => p <> []) parts ->
  join (close_chunks parts final) = concat parts ++ [final].
Proof.
  induction parts as [|p rest IH]; intros Hne Hp; [congruence|].
  inversion Hp as [|? ? Hp1 Hrest]; subst.
  destruct rest as [|q rest'].
  - simpl. rewrite app_nil_r. reflexivity.
  - change (close_chunks (p :: q :: rest') final)
      with ((p ++ [hd final q]) :: close_chunks (q :: rest') final).
    assert (Hc : close_chunks (q :: rest') final <> []) by (destruct rest'; discriminate).
    destruct (close_chunks (q :: rest') final) as [|c cs] eqn:E; [congruence|].
    change (join ((p ++ [hd final q]) :: c :: cs)) with (removelast (p ++ [hd final q]) ++ join (c :: cs)).
    rewrite removelast_snoc, IH by (assumption || discriminate).
    simpl. rewrite app_assoc. reflexivity.
Qed.

Lemma hd_app_nonempty (q : list Q) d d' y : q <> [] -> hd d (q ++ y) = hd d' q.
Proof. destruct q; [congruence | reflexivity]. Qed.

Lemma close_chunks_hd q rest final : q <> [] ->
  hd 0 (hd [] (close_chunks (q :: rest) final)) = hd final q.
Proof.
  intros Hq. destruct rest as [|r rest']; simpl; destruct q; try congruence; reflexivity.
Qed.

Lemma last_snoc (p : list Q) x d : last (p ++ [x]) d = x.
Proof. apply last_last. Qed.

Lemma close_chunks_chained parts final : Forall (fun p => p <> []) parts ->
  chained (close_chunks parts final).
Proof.
  induction parts as [|p rest IH]; intros Hp; [exact I|].
  inversion Hp as [|? ? Hp1 Hrest]; subst.
  destruct rest as [|q rest'].
  - simpl. split; [|split; exact I].
    rewrite app_length; simpl. destruct p; [congruence | simpl; lia].
  - change (close_chunks (p :: q :: rest') final)
      with ((p ++ [hd final q]) :: close_chunks (q :: rest') final).
    inversion Hrest as [|? ? Hq _]; subst.
    pose proof (close_chunks_hd q rest' final Hq) as Hh.
    specialize (IH Hrest).
    destruct (close_chunks (q :: rest') final) as [|c cs] eqn:E.
    + destruct rest'; discriminate E.
    + simpl in Hh. split; [|split].
      * rewrite app_length; simpl. destruct p; [congruence | simpl; lia].
      * rewrite last_snoc. symmetry. exact Hh.
      * exact IH.
Qed.

(* (c) _chunk_windows: computing each chunk separately and stacking the results in chunk
   order gives exactly the un-chunked windows, for any result type (numbers, rows,
   matrices) and any number of chunks >= 1. *)
Lemma chunk_windows_sound {A} (stat : Q -> Q -> A) ws nc :
  (2 <= length ws)%nat -> (1 <= nc)%nat ->
  concat (map (windowed stat) (chunk_windows ws nc)) = windowed stat ws.
Proof.
  intros Hl Hn. unfold chunk_windows.
  set (n := Nat.min (length ws - 1) nc).
  assert (Hn1 : (1 <= n)%nat) by (unfold n; lia).
  assert (Hrl : length (removelast ws) = (length ws - 1)%nat).
  { destruct ws as [|w ws']; [simpl in Hl; lia|].
    rewrite (app_removelast_last 0 (l := w :: ws')) at 2 by discriminate.
    rewrite app_length. simpl. lia. }
  assert (Hn2 : (n <= length (removelast ws))%nat) by (rewrite Hrl; unfold n; lia).
  pose proof (array_split_nonempty (removelast ws) n Hn1 Hn2) as Hne.
  assert (Hparts : array_split (removelast ws) n <> []).
  { intros E. pose proof (array_split_length (removelast ws) n Hn1) as L. rewrite E in L. simpl in L. lia. }
  rewrite <- (windowed_join stat _ (close_chunks_chained _ (last ws 0) Hne)).
  rewrite (close_chunks_join _ (last ws 0) Hparts Hne).
  rewrite (array_split_concat _ n Hn1).
  rewrite <- app_removelast_last by (destruct ws; [simpl in Hl; lia | discriminate]).
  reflexivity.
Qed.

Lemma chunk_windows_count ws nc : (2 <= length ws)%nat -> (1 <= nc)%nat ->
  length (chunk_windows ws nc) = Nat.min (length ws - 1) nc.
Proof.
  intros Hl Hn. unfold chunk_windows.
  set (n := Nat.min (length ws - 1) nc).
  assert (Hn1 : (1 <= n)%nat) by (unfold n; lia).
  rewrite <- (array_split_length (removelast ws) n Hn1) at 2.
  generalize (array_split (removelast ws) n). intros parts.
  induction parts as [|p [|q r] IH]; simpl in *; try reflexivity. rewrite IH. reflexivity.
Qed.

(* ---------- _chunk_sequence_by_tree: per-chunk totals add up to the whole ---------- *)
Lemma incr_app_l l1 : forall l2, incr (l1 ++ l2) -> incr l1.
Proof.
  induction l1 as [|a l1 IH]; intros l2 H; [exact I|].
  destruct l1 as [|b l1']; [exact I|].
  destruct H as [H1 H2]. split; [assumption | apply (IH l2); assumption].
Qed.

Lemma incr_app_r l1 : forall l2, incr (l1 ++ l2) -> incr l2.
Proof.
  induction l1 as [|a l1 IH]; intros l2 H; [assumption|].
  apply IH. destruct l1 as [|b l1']; simpl in *.
  - destruct l2; [exact I | destruct H; assumption].
  - destruct H; assumption.
Qed.

Lemma chained_incr gs : chained gs -> incr (join gs) -> Forall incr gs.
Proof.
  induction gs as [|g rest IH]; intros Hc Hi; [constructor|].
  destruct rest as [|h rest'].
  - simpl in Hi. constructor; [assumption | constructor].
  - destruct Hc as [Hl [Hlast Hr]].
    change (join (g :: h :: rest')) with (removelast g ++ join (h :: rest')) in Hi.
    destruct (join_cons_shape h rest' Hr) as [r Er].
    assert (Hg : g <> []) by (destruct g; simpl in Hl; [lia | discriminate]).
    constructor.
    + rewrite Er, <- Hlast in Hi.
      change (removelast g ++ last g 0 :: r) with (removelast g ++ [last g 0] ++ r) in Hi.
      rewrite app_assoc, <- (app_removelast_last 0 Hg) in Hi.
      apply (incr_app_l g r); assumption.
    + apply IH; [assumption | apply (incr_app_r (removelast g)); assumption].
Qed.

Lemma chunk_sequence_by_tree_sound stat bps nc :
  additive stat -> incr bps -> (2 <= length bps)%nat -> (1 <= nc)%nat ->
  qsum (map (fun iv => stat (fst iv) (snd iv)) (chunk_sequence_by_tree bps nc))
  == stat (hd 0 bps) (last bps 0).
Proof.
  intros Ha Hi Hl Hn. unfold chunk_sequence_by_tree.
  set (n := Nat.min (length bps - 1) nc).
  assert (Hn1 : (1 <= n)%nat) by (unfold n; lia).
  assert (Hrl : length (removelast bps) = (length bps - 1)%nat).
  { destruct bps as [|w ws']; [simpl in Hl; lia|].
    rewrite (app_removelast_last 0 (l := w :: ws')) at 2 by discriminate.
    rewrite app_length. simpl. lia. }
  assert (Hn2 : (n <= length (removelast bps))%nat) by (rewrite Hrl; unfold n; lia).
  pose proof (array_split_nonempty (removelast bps) n Hn1 Hn2) as Hne.
  assert (Hparts : array_split (removelast bps) n <> []).
  { intros E. pose proof (array_split_length (removelast bps) n Hn1) as L. rewrite E in L. simpl in L. lia. }
  set (gs := close_chunks (array_split (removelast bps) n) (last bps 0)).
  pose proof (close_chunks_chained _ (last bps 0) Hne) as Hch. fold gs in Hch.
  assert (Hj : join gs = bps).
  { unfold gs. rewrite (close_chunks_join _ (last bps 0) Hparts Hne), (array_split_concat _ n Hn1).
    symmetry. apply app_removelast_last. destruct bps; [simpl in Hl; lia | discriminate]. }
  assert (Hgi : Forall incr gs) by (apply chained_incr; [assumption | rewrite Hj; assumption]).
  rewrite map_map. simpl.
  (* each chunk total is the sum of its windows; all windows together are those of bps *)
  assert (E : qsum (map (fun g => stat (hd 0 g) (last g 0)) gs) == qsum (windowed stat bps)).
  { rewrite <- Hj, (windowed_join stat gs Hch).
    clear Hj. induction gs as [|g rest IH]; [reflexivity|].
    inversion Hgi as [|? ? Hg1 Hg2]; subst. destruct Hch as [Hl1 [_ Hch2]].
    simpl. rewrite qsum_app, <- (IH Hch2 Hg2), (group_sum stat g Ha Hg1 Hl1). reflexivity. }
  rewrite E. destruct bps as [|a t]; [simpl in Hl; lia|].
  apply window_sum_telescopes; assumption.
Qed.

(* ---------- genealogical_nearest_neighbours: focal nodes split, rows stacked ---------- *)
Lemma split_map_sound {A B} (h : A -> B) (focal : list A) n : (1 <= n)%nat ->
  concat (map (map h) (array_split focal n)) = map h focal.
Proof. intros H. rewrite <- concat_map, array_split_concat by assumption. reflexivity. Qed.

(* ---------- schedule independence: any execution order of the workers ---------- *)
Lemma set_slot_length {A} (slots : list (option A)) i a : length (set_slot slots i a) = length slots.
Proof. revert i; induction slots as [|h t IH]; intros [|i]; simpl; auto. Qed.

Lemma set_slot_nth {A} (slots : list (option A)) i j a :
  nth_error (set_slot slots i a) j =
  if Nat.eqb i j then (if Nat.ltb i (length slots) then Some (Some a) else None) else nth_error slots j.
Proof.
  revert i j; induction slots as [|h t IH]; intros i j.
  - simpl. destruct (Nat.eqb i j); destruct j; destruct i; reflexivity.
  - destruct i as [|i]; destruct j as [|j]; simpl; try reflexivity.
    rewrite IH. destruct (Nat.eqb i j); [|reflexivity].
    change (S i <? S (length t))%nat with (i <? length t)%nat. reflexivity.
Qed.

Lemma run_schedule_nth {A B} (work : A -> B) chunks sched : forall slots,
  length slots = length chunks ->
  forall j c, nth_error chunks j = Some c ->
  nth_error (fold_left (fun slots i => match nth_error chunks i with
                                      | Some c => set_slot slots i (work c)
                                      | None => slots end) sched slots) j =
  if existsb (Nat.eqb j) sched then Some (Some (work c)) else nth_error slots j.
Proof.
  induction sched as [|i sched IH]; intros slots Hlen j c Hc; [reflexivity|].
  simpl. destruct (nth_error chunks i) as [ci|] eqn:Ei.
  - rewrite (IH _ (eq_trans (set_slot_length _ _ _) Hlen) j c Hc).
    destruct (existsb (Nat.eqb j) sched) eqn:Ex; [rewrite orb_true_r; reflexivity|].
    rewrite orb_false_r, set_slot_nth. rewrite (Nat.eqb_sym j i).
    destruct (Nat.eqb i j) eqn:Eij; [|reflexivity].
    apply Nat.eqb_eq in Eij; subst j. rewrite Ei in Hc; inversion Hc; subst.
    assert (i < length slots)%nat by (rewrite Hlen; apply nth_error_Some; congruence).
    destruct (Nat.ltb_spec i (length slots)); [reflexivity | lia].
  - rewrite (IH _ Hlen j c Hc).
    destruct (Nat.eqb j i) eqn:Eji; [|reflexivity].
    apply Nat.eqb_eq in Eji; subst. congruence.
Qed.

Lemma nth_error_ext {A} (l1 l2 : list A) :
  length l1 = length l2 -> (forall j, (j < length l1)%nat -> nth_error l1 j = nth_error l2 j) -> l1 = l2.
Proof.
  revert l2; induction l1 as [|a l1 IH]; intros [|b l2] Hl H; simpl in Hl; try lia; [reflexivity|].
  f_equal.
  - specialize (H 0%nat ltac:(simpl; lia)). simpl in H. congruence.
  - apply IH; [lia|]. intros j Hj. apply (H (S j)). simpl; lia.
Qed.

Lemma fold_set_slot_length {A B} (work : A -> B) chunks sched : forall slots,
  length (fold_left (fun slots i => match nth_error chunks i with
                                    | Some c => set_slot slots i (work c)
                                    | None => slots end) sched slots) = length slots.
Proof.
  induction sched as [|i sched IH]; intros slots; [reflexivity|]. simpl.
  rewrite IH. destruct (nth_error chunks i); [apply set_slot_length | reflexivity].
Qed.

(* every worker index occurs in the schedule (in any order, possibly repeated):
   the slots read in order are the in-order results *)
Lemma schedule_independent {A B} (work : A -> B) chunks sched :
  (forall j, (j < length chunks)%nat -> In j sched) ->
  run_schedule work chunks sched = map (fun c => Some (work c)) chunks.
Proof.
  intros Hall. unfold run_schedule. apply nth_error_ext.
  - rewrite fold_set_slot_length, repeat_length, map_length. reflexivity.
  - intros j Hj. rewrite fold_set_slot_length, repeat_length in Hj.
    destruct (nth_error chunks j) as [c|] eqn:Ec; [|apply nth_error_None in Ec; lia].
    rewrite (run_schedule_nth work chunks sched _ (repeat_length _ _) j c Ec).
    assert (Ex : existsb (Nat.eqb j) sched = true).
    { apply existsb_exists. exists j. split; [apply Hall; assumption | apply Nat.eqb_refl]. }
    rewrite Ex. rewrite nth_error_map, Ec. reflexivity.
Qed.

(* ---------- non-vacuity ---------- *)
Example ex_array_split : array_split [1; 2; 3; 4; 5; 6; 7] 3 = [[1; 2; 3]; [4; 5]; [6; 7]].
Proof. reflexivity. Qed.
Example ex_chunk_windows :
  chunk_windows [0; 1; 2; 3; 4; 5] 2 = [[0; 1; 2; 3]; [3; 4; 5]] /\
  chunk_windows [0; 1; 2] 8 = [[0; 1]; [1; 2]].
Proof. split; reflexivity. Qed.
Example ex_chunk_by_tree :
  chunk_sequence_by_tree [0; 2; 3; 5] 2 = [(0, 3); (3, 5)].
Proof. reflexivity. Qed.
Example ex_schedule :
  run_schedule (fun x : nat => (x * x)%nat) [1; 2; 3]%nat [2; 0; 1]%nat = [Some 1; Some 4; Some 9]%nat.
Proof. reflexivity. Qed.

(* ---------- statement exported to Props/C08.v ---------- *)
Lemma chunking_sound_all :
  (* _chunk_windows + np.vstack, any result type *)
  (forall (A : Type) (stat : Q -> Q -> A) (ws : list Q) (num_chunks : nat),
      (2 <= length ws)%nat -> (1 <= num_chunks)%nat ->
      concat (map (windowed stat) (chunk_windows ws num_chunks)) = windowed stat ws) /\
  (* _chunk_sequence_by_tree + sum(results) *)
  (forall (stat : Q -> Q -> Q) (bps : list Q) (num_chunks : nat),
      additive stat -> incr bps -> (2 <= length bps)%nat -> (1 <= num_chunks)%nat ->
      qsum (map (fun iv => stat (fst iv) (snd iv)) (chunk_sequence_by_tree bps num_chunks))
      == stat (hd 0 bps) (last bps 0)) /\
  (* genealogical_nearest_neighbours: np.array_split(focal) + np.vstack *)
  (forall (A B : Type) (row : A -> B) (focal : list A) (num_threads : nat),
      (1 <= num_threads)%nat ->
      concat (map (map row) (array_split focal num_threads)) = map row focal).
Proof.
  split; [|split].
  - intros A stat ws nc. exact (chunk_windows_sound stat ws nc).
  - exact chunk_sequence_by_tree_sound.
  - intros A B row focal n. exact (split_map_sound row focal n).
Qed.

Lemma schedule_independent_all :
  forall (A B : Type) (work : A -> B) (chunks : list A) (sched : list nat),
    (forall j, (j < length chunks)%nat -> In j sched) ->
    run_schedule work chunks sched = map (fun c => Some (work c)) chunks.
Proof. intros A B. exact (@schedule_independent A B). Qed.
