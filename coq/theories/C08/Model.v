(* C08 — specification model of tskit's windowed statistics (docs/stats.md, and the
   definitions in the docstring of TreeSequence.general_stat, python/tskit/trees.py
   7561-7648), over exact rationals Q.  Executable definitions only.

   What is modelled
   ----------------
   * a tree sequence as a list of segments [s_left, s_right) each carrying a marginal
     forest (parent array, -1 = TSK_NULL) -- "a forest per interval";
   * the state of a node = sum of the weight vectors of the samples at or below it
     (general_stat docstring: "propagates the weights W up the tree");
   * branch / node / site mode for an arbitrary summary function (Section variable),
     polarisation as in docs/stats.md "Polarisation", windows as breakpoint lists,
     span normalisation (c/tskit/trees.c span_normalise, 1845-1859);
   * the Python work splitters used for threads (python/tskit/trees.py
     _chunk_sequence_by_tree 8193-8208, _chunk_windows 8210-8229, numpy.array_split;
     genealogical_nearest_neighbours 10007-10020) as list functions;
   * the running-sum loop of tsk_treeseq_branch_general_stat (c/tskit/trees.c 1277-1448)
     as a Gallina port over Q (section "Incremental").
   Fuel: ancestor walks use fuel = number of nodes; on a valid (acyclic) forest this is
   never exhausted.  No theorem in Props/C08.v depends on what happens on exhaustion:
   they are stated for an arbitrary per-tree value function. *)
From Coq Require Import List ZArith QArith Qminmax Bool Lia.
Import ListNotations.
Open Scope Q_scope.

(* ---------- small vector library ---------- *)
Definition vec := list Q.
Fixpoint vadd (a b : vec) : vec :=
  match a, b with x :: a', y :: b' => (x + y) :: vadd a' b' | _, _ => [] end.
Fixpoint vsub (a b : vec) : vec :=
  match a, b with x :: a', y :: b' => (x - y) :: vsub a' b' | _, _ => [] end.
Definition vzero (k : nat) : vec := repeat 0 k.
Definition vsum (k : nat) (l : list vec) : vec := fold_right vadd (vzero k) l.
Definition qsum (l : list Q) : Q := fold_right Qplus 0 l.

Definition Qltb (a b : Q) : bool := negb (Qle_bool b a).

(* ---------- forests ---------- *)
Definition NULL : Z := (-1)%Z.
Definition znth {A} (l : list A) (i : Z) (d : A) : A :=
  if (i <? 0)%Z then d else nth (Z.to_nat i) l d.
Definition parent_of (p : list Z) (u : Z) : Z := znth p u NULL.

(* is [u] on the path from [s] to its root (s itself included)? *)
Fixpoint anc_or_self (p : list Z) (fuel : nat) (s u : Z) : bool :=
  (s =? u)%Z ||
  match fuel with
  | O => false
  | S f => let v := parent_of p s in
           if (v <? 0)%Z then false else anc_or_self p f v u
  end.

(* weights: one (sample node, weight vector) per sample *)
Definition weights := list (Z * vec).

Definition state (k : nat) (p : list Z) (W : weights) (u : Z) : vec :=
  vsum k (map snd (filter (fun sw => anc_or_self p (length p) (fst sw) u) W)).

Definition total_weight (k : nat) (W : weights) : vec := vsum k (map snd W).

Definition zseq (n : nat) : list Z := map Z.of_nat (seq 0 n).

(* ---------- segments and windows ---------- *)
Record seg := mkseg { s_left : Q; s_right : Q; s_parent : list Z }.

Definition overlap (l r a b : Q) : Q := Qmax 0 (Qmin b r - Qmax a l).

Fixpoint windowed {A} (stat : Q -> Q -> A) (ws : list Q) : list A :=
  match ws with
  | a :: ((b :: _) as t) => stat a b :: windowed stat t
  | _ => []
  end.

(* c/tskit/trees.c span_normalise: every window row divided by its span *)
Definition span_normalise1 (a b v : Q) : Q := v / (b - a).
Definition windowed_norm (stat : Q -> Q -> Q) (ws : list Q) : list Q :=
  windowed (fun a b => span_normalise1 a b (stat a b)) ws.

Section Stat.
  Variable k : nat.                 (* state dimension *)
  Variable f : vec -> Q.            (* one output component of the summary function *)
  Variable W : weights.
  Variable time : list Q.

  (* docs/stats.md Polarisation: branch/node use weight below and above unless polarised *)
  Definition polar (polarised : bool) (x : vec) : Q :=
    if polarised then f x else f x + f (vsub (total_weight k W) x).

  Section Trees.
    Variable polarised : bool.

    (* per-tree values *)
    Definition branch_tree (p : list Z) : Q :=
      qsum (map (fun u => let v := parent_of p u in
                          if (v <? 0)%Z then 0
                          else (znth time v 0 - znth time u 0) * polar polarised (state k p W u))
                (zseq (length p))).
    Definition node_tree (p : list Z) (u : Z) : Q := polar polarised (state k p W u).

    (* "multiplied by ... the span of the tree", restricted to the window [a,b) *)
    Definition tree_stat (val : list Z -> Q) (segs : list seg) (a b : Q) : Q :=
      qsum (map (fun s => overlap (s_left s) (s_right s) a b * val (s_parent s)) segs).

    Definition branch_stat (segs : list seg) (a b : Q) : Q := tree_stat branch_tree segs a b.
    Definition node_stat (segs : list seg) (u : Z) (a b : Q) : Q :=
      tree_stat (fun p => node_tree p u) segs a b.
  End Trees.

  (* ---------- sites ---------- *)
  (* m_parent: index of the parent mutation within the site's list, -1 = TSK_NULL *)
  Record mutation := mkmut { m_node : Z; m_state : Z; m_parent : Z }.
  Record site := mksite { st_pos : Q; st_anc : Z; st_muts : list mutation; st_parent : list Z }.

  (* derived state of the last mutation (list order = parents first) sitting on node u *)
  Definition last_on (muts : list mutation) (u : Z) : option Z :=
    fold_left (fun acc m => if (m_node m =? u)%Z then Some (m_state m) else acc) muts None.

  Fixpoint allele_of (s : site) (fuel : nat) (u : Z) : Z :=
    match last_on (st_muts s) u with
    | Some a => a
    | None =>
        match fuel with
        | O => st_anc s
        | S fu => let v := parent_of (st_parent s) u in
                  if (v <? 0)%Z then st_anc s else allele_of s fu v
        end
    end.
  Definition genotype (s : site) (smp : Z) : Z := allele_of s (length (st_parent s)) smp.

  Fixpoint dedup (seen l : list Z) : list Z :=
    match l with
    | [] => []
    | x :: t => if existsb (Z.eqb x) seen then dedup seen t else x :: dedup (x :: seen) t
    end.
  Definition alleles (s : site) : list Z := dedup [] (st_anc s :: map m_state (st_muts s)).

  Definition allele_weight (s : site) (a : Z) : vec :=
    vsum k (map snd (filter (fun sw => (genotype s (fst sw) =? a)%Z) W)).

  (* "Adds together the total summary value across all alleles", ancestral left out if polarised *)
  Definition site_val (polarised : bool) (s : site) : Q :=
    qsum (map (fun a => f (allele_weight s a))
              (if polarised then filter (fun a => negb (a =? st_anc s)%Z) (alleles s) else alleles s)).

  (* ---- port of get_allele_weights / compute_general_stat_site_result
          (c/tskit/trees.c 1450-1577): the allele table starts with the ancestral allele
          holding the total weight; every mutation adds the state of its node to its own
          allele and subtracts it from the allele of its parent mutation (or the ancestral
          allele).  The node states are the specification's [state]. ---- *)
  Fixpoint tbl_add (tbl : list (Z * vec)) (a : Z) (x : vec) (sign : bool) : list (Z * vec) :=
    match tbl with
    | [] => [(a, if sign then x else vsub (vzero k) x)]
    | (b, w) :: t => if (a =? b)%Z then (b, if sign then vadd w x else vsub w x) :: t
                     else (b, w) :: tbl_add t a x sign
    end.
  Definition allele_weights_c (s : site) : list (Z * vec) :=
    fold_left (fun tbl m =>
                 let x := state k (st_parent s) W (m_node m) in
                 let tbl1 := tbl_add tbl (m_state m) x true in
                 let alt := if (m_parent m <? 0)%Z then st_anc s
                            else m_state (znth (st_muts s) (m_parent m) (mkmut 0 (st_anc s) (-1))) in
                 tbl_add tbl1 alt x false)
              (st_muts s) [(st_anc s, total_weight k W)].
  Definition site_val_c (polarised : bool) (s : site) : Q :=
    let tbl := allele_weights_c s in
    qsum (map (fun aw => f (snd aw)) (if polarised then tl tbl else tbl)).

  Definition in_window (a b x : Q) : bool := Qle_bool a x && Qltb x b.

  Definition site_stat_gen (val : site -> Q) (sites : list site) (a b : Q) : Q :=
    qsum (map (fun s => if in_window a b (st_pos s) then val s else 0) sites).
  Definition site_stat (polarised : bool) := site_stat_gen (site_val polarised).
  Definition site_stat_c (polarised : bool) := site_stat_gen (site_val_c polarised).
End Stat.

(* ---------- numpy.array_split and the Python chunkers ---------- *)
(* numpy.array_split(l, n): the first (len mod n) parts have len/n + 1 items, the rest len/n *)
Fixpoint take_parts {A} (sizes : list nat) (l : list A) : list (list A) :=
  match sizes with
  | [] => []
  | s :: ss => firstn s l :: take_parts ss (skipn s l)
  end.
Definition split_sizes (len n : nat) : list nat :=
  (repeat (S (len / n)) (len mod n) ++ repeat (len / n) (n - len mod n))%nat.
Definition array_split {A} (l : list A) (n : nat) : list (list A) :=
  take_parts (split_sizes (length l) n) l.

(* _chunk_windows(windows, num_chunks): windows[:-1] split; every chunk gets the first
   element of the next chunk (the last one gets windows[-1]) appended. *)
Fixpoint close_chunks (parts : list (list Q)) (final : Q) : list (list Q) :=
  match parts with
  | [] => []
  | [p] => [p ++ [final]]
  | p :: ((q :: _) as rest) => (p ++ [hd final q]) :: close_chunks rest final
  end.
Definition chunk_windows (ws : list Q) (num_chunks : nat) : list (list Q) :=
  let n := Nat.min (length ws - 1)%nat num_chunks in
  close_chunks (array_split (removelast ws) n) (last ws 0).

(* _chunk_sequence_by_tree(num_chunks): breakpoints[:-1] split; intervals
   (splits[j][0], splits[j+1][0]) and finally (splits[-1][0], sequence_length) *)
Definition chunk_sequence_by_tree (bps : list Q) (num_chunks : nat) : list (Q * Q) :=
  let n := Nat.min (length bps - 1)%nat num_chunks in
  map (fun c => (hd 0 c, last c 0)) (close_chunks (array_split (removelast bps) n) (last bps 0)).

(* pool.map / futures: worker j writes slot j; the caller reads the slots in order *)
Fixpoint set_slot {A} (slots : list (option A)) (i : nat) (a : A) : list (option A) :=
  match slots, i with
  | [], _ => []
  | _ :: t, O => Some a :: t
  | h :: t, S i' => h :: set_slot t i' a
  end.
Definition run_schedule {A B} (work : A -> B) (chunks : list A) (sched : list nat) : list (option B) :=
  fold_left (fun slots i => match nth_error chunks i with
                            | Some c => set_slot slots i (work c)
                            | None => slots end)
            sched (repeat None (length chunks)).

(* ---------- concrete summary functions (docs/stats.md "Summary functions") ----------
   used by the per-run correspondence; [n] = sample-set sizes, [x] = state (counts).
   Division by zero is totalised to 0 by QArith; the correspondence never evaluates these
   on size vectors for which a denominator vanishes (tskit returns nan/inf there). *)
Definition qn (l : vec) (i : nat) : Q := nth i l 0.
Inductive sfun : Type :=
| SF_ident (j : nat)                       (* f(x) = x_j *)
| SF_sum                                   (* f(x) = sum x *)
| SF_xTx (T : Q)                           (* f(x) = x_0 (T - x_0) *)
| SF_poly2 (klast : nat)                   (* f(x) = x_0 x_{k-1} *)
| SF_cube (T : Q)                          (* f(x) = x_0^2 (T - x_0) *)
| SF_diversity (n : vec) (j : nat)
| SF_segsites (n : vec) (j : nat)
| SF_Y1 (n : vec) (j : nat)
| SF_divergence (n : vec) (i j : nat)
| SF_Y2 (n : vec) (i j : nat)
| SF_f2 (n : vec) (i j : nat)
| SF_Y3 (n : vec) (i j l : nat)
| SF_f3 (n : vec) (i j l : nat)
| SF_f4 (n : vec) (i j l m : nat)
| SF_relatedness (n : vec) (centre : bool) (i j : nat)
(* weights-based statistics (trees.c 3764-4023, 4605-4641); the state carries the extra
   last column the C code appends (proportion / count of samples below) *)
| SF_trait_cov (ns : Q) (j : nat)                      (* x_j^2 / (2 (n-1)^2), centred weights *)
| SF_trait_corr (ns var : Q) (j last : nat)            (* x_j^2/var / (2 c (1-c/n) (n-1)), 0<c<n *)
| SF_trait_lm (ns tot : Q) (j last : nat)              (* ((x_j - c tot/n)/(c - c^2/n))^2 / 2   *)
| SF_grw (centre : bool) (wi wj : Q) (i j last : nat). (* (x_i - w_i p)(x_j - w_j p) | x_i x_j  *)

Definition sf_eval (s : sfun) (x : vec) : Q :=
  match s with
  | SF_ident j => qn x j
  | SF_sum => qsum x
  | SF_xTx T => qn x 0 * (T - qn x 0)
  | SF_poly2 kl => qn x 0 * qn x kl
  | SF_cube T => qn x 0 * qn x 0 * (T - qn x 0)
  | SF_diversity n j => qn x j * (qn n j - qn x j) / (qn n j * (qn n j - 1))
  | SF_segsites n j => if Qltb 0 (qn x j) then 1 - qn x j / qn n j else 0
  | SF_Y1 n j => qn x j * (qn n j - qn x j) * (qn n j - qn x j - 1)
                 / (qn n j * (qn n j - 1) * (qn n j - 2))
  | SF_divergence n i j =>
      if Nat.eqb i j then qn x i * (qn n i - qn x i) / (qn n i * (qn n i - 1))
      else qn x i * (qn n j - qn x j) / (qn n i * qn n j)
  | SF_Y2 n i j => qn x i * (qn n j - qn x j) * (qn n j - qn x j - 1)
                   / (qn n i * qn n j * (qn n j - 1))
  | SF_f2 n i j =>
      (qn x i * (qn x i - 1) * (qn n j - qn x j) * (qn n j - qn x j - 1)
       - qn x i * (qn n i - qn x i) * (qn n j - qn x j) * qn x j)
      / (qn n i * (qn n i - 1) * qn n j * (qn n j - 1))
  | SF_Y3 n i j l => qn x i * (qn n j - qn x j) * (qn n l - qn x l) / (qn n i * qn n j * qn n l)
  | SF_f3 n i j l =>
      (qn x i * (qn x i - 1) * (qn n j - qn x j) * (qn n l - qn x l)
       - qn x i * (qn n i - qn x i) * (qn n j - qn x j) * qn x l)
      / (qn n i * (qn n i - 1) * qn n j * qn n l)
  | SF_f4 n i j l m =>
      (qn x i * qn x l * (qn n j - qn x j) * (qn n m - qn x m)
       - qn x i * qn x m * (qn n j - qn x j) * (qn n l - qn x l))
      / (qn n i * qn n j * qn n l * qn n m)
  | SF_relatedness n centre i j =>
      let p := map (fun ab => fst ab / snd ab) (combine x n) in
      let mbar := if centre then qsum p / inject_Z (Z.of_nat (length n)) else 0 in
      (qn p i - mbar) * (qn p j - mbar)
  | SF_trait_cov ns j => qn x j * qn x j / (2 * (ns - 1) * (ns - 1))
  | SF_trait_corr ns var j last =>
      let c := qn x last in
      if Qltb 0 c && Qltb c ns then qn x j * qn x j / var / (2 * c * (1 - c / ns) * (ns - 1)) else 0
  | SF_trait_lm ns tot j last =>
      let c := qn x last in
      if Qltb 0 c && Qltb c ns then
        let b := (qn x j - c * tot / ns) / (c - c * c / ns) in b * b / 2
      else 0
  | SF_grw centre wi wj i j last =>
      if centre then (qn x i - wi * qn x last) * (qn x j - wj * qn x last) else qn x i * qn x j
  end.

(* ---------- helpers for the per-run correspondence ---------- *)
Fixpoint qlist_eqb (a b : list Q) : bool :=
  match a, b with
  | [], [] => true
  | x :: a', y :: b' => Qeq_bool x y && qlist_eqb a' b'
  | _, _ => false
  end.
(* Fst = 1 - 2 (d(X) + d(Y)) / (d(X) + 2 d(X,Y) + d(Y)) from three windowed specification
   values (python/tskit/trees.py Fst); windows with a zero denominator are skipped (nan) *)
Fixpoint fst_check (dx dy dxy : list Q) (expected : list (option Q)) : bool :=
  match dx, dy, dxy, expected with
  | [], [], [], [] => true
  | a :: dx', b :: dy', c :: dxy', e :: ex' =>
      (match e with
       | Some v => Qeq_bool (a + b + 2 * c) 0        (* 0/0: undefined, anything goes *)
                   || Qeq_bool (1 - 2 * (a + b) / (a + b + 2 * c)) v
       | None => true
       end) && fst_check dx' dy' dxy' ex'
  | _, _, _, _ => false
  end.
Definition win_values (stat : Q -> Q -> Q) (norm : bool) (ws : list Q) : list Q :=
  if norm then windowed_norm stat ws else windowed stat ws.

Definition check_windows (stat : Q -> Q -> Q) (norm : bool) (ws expected : list Q) : bool :=
  qlist_eqb (if norm then windowed_norm stat ws else windowed stat ws) expected.
(* node mode: expected is window-major, node-minor *)
Definition check_windows_nodes (stat : Z -> Q -> Q -> Q) (num_nodes : nat) (norm : bool)
           (ws expected : list Q) : bool :=
  qlist_eqb (concat (windowed (fun a b => map (fun u =>
      if norm then span_normalise1 a b (stat u a b) else stat u a b) (zseq num_nodes)) ws)) expected.
