(* C08-F5 — genetic_relatedness_vector (branch mode, centre=False).
   Entry i of the product  sum_b W_b C_ib  (C = un-centred, polarised branch relatedness
   between samples) is the branch statistic with the two weight columns (indicator of i, W)
   and summary function x0 * x1.  The C implementation (tsk_matvec_calculator_*,
   c/tskit/trees.c 9960-10275) never reads TSK_STAT_SPAN_NORMALISE, and the Python wrapper
   (__weighted_vector_stat) does not normalise either.  Executable definitions only. *)
From Coq Require Import List ZArith QArith Bool.
From TskVerif Require Import C08.Model.
Import ListNotations.
Open Scope Q_scope.

Definition grv_weights (W : list (Z * Q)) (i : Z) : weights :=
  map (fun sw => (fst sw, [if (fst sw =? i)%Z then 1 else 0; snd sw])) W.

Definition grv_entry (time : list Q) (W : list (Z * Q)) (i : Z) (segs : list seg) : Q -> Q -> Q :=
  branch_stat 2 (sf_eval (SF_poly2 1)) (grv_weights W i) time true segs.

(* what the code returns: the span_normalise flag is accepted and ignored *)
Definition grv_code (span_normalise : bool) (time : list Q) (W : list (Z * Q)) (i : Z)
           (segs : list seg) (ws : list Q) : list Q :=
  windowed (grv_entry time W i segs) ws.

(* documented: "span_normalise: Whether to divide the result by the span of the window" *)
Definition grv_spec (span_normalise : bool) (time : list Q) (W : list (Z * Q)) (i : Z)
           (segs : list seg) (ws : list Q) : list Q :=
  if span_normalise then windowed_norm (grv_entry time W i segs) ws
  else windowed (grv_entry time W i segs) ws.
