(* C08 — branch-mode allele frequency spectrum, one sample set, polarised:
   (1) the documented definition ("the total area (length times span) of all branches
       that are above exactly j samples of S", branches above none or all of the
       tree sequence's samples excluded) and
   (2) a Gallina port of tsk_treeseq_branch_allele_frequency_spectrum /
       tsk_treeseq_update_branch_afs (c/tskit/trees.c 3470-3633) restricted to that
       configuration (no folding, one dimension).
   The port follows the repaired code (fix 093fdd5): last_update[u] = t_left when an edge
   above u is inserted.  The pre-fix behaviour (last_update[u] left alone, finding C08-F2) is
   kept as the [refresh = false] variant ([afs_branch_port_pinned]) for the historical
   record only.  Executable definitions. *)
From Coq Require Import List ZArith QArith Qminmax Bool Lia.
From TskVerif Require Import C08.Model C08.Incremental.
Import ListNotations.
Open Scope Q_scope.

(* ---------- definition ---------- *)
Definition count_below (p : list Z) (S : list Z) (u : Z) : Z :=
  Z.of_nat (length (filter (fun s => anc_or_self p (length p) s u) S)).

(* area of the branches of forest p lying above exactly c samples of S *)
Definition afs_tree (time : list Q) (S all : list Z) (p : list Z) (c : Z) : Q :=
  qsum (map (fun u => let v := parent_of p u in
                      let a := count_below p all u in
                      if (v <? 0)%Z then 0
                      else if ((0 <? a) && (a <? Z.of_nat (length all)) && (count_below p S u =? c))%Z
                           then znth time v 0 - znth time u 0 else 0)
            (zseq (length p))).
Definition afs_branch_spec (time : list Q) (S all : list Z) (segs : list seg) (c : Z) (a b : Q) : Q :=
  tree_stat (fun p => afs_tree time S all p c) segs a b.

(* ---------- port of the C algorithm ---------- *)
Record astate := mka {
  a_parent : list Z;
  a_bl : list Q;                 (* branch_length[] *)
  a_last : list Q;               (* last_update[]   *)
  a_cnt : list (Z * Z);          (* counts[u] = (in the sample set, among all samples) *)
  a_res : list (list Q)          (* result[window][count] *)
}.

Definition bump (res : list (list Q)) (wi : nat) (c : Z) (x : Q) : list (list Q) :=
  upd_nat res wi (zupd (nth wi res []) c (znth (nth wi res []) c 0 + x)).

(* tsk_treeseq_update_branch_afs, 3470-3506 *)
Definition update_afs (nall : Z) (u : Z) (right : Q) (wi : nat) (s : astate) : astate :=
  let x := (right - znth (a_last s) u 0) * znth (a_bl s) u 0 in
  let '(c, alls) := znth (a_cnt s) u (0, 0)%Z in
  let res := if ((0 <? alls) && (alls <? nall))%Z then bump (a_res s) wi c x else a_res s in
  mka (a_parent s) (a_bl s) (zupd (a_last s) u right) (a_cnt s) res.

Definition add_cnt (sign : Z) (a b : Z * Z) : Z * Z :=
  (fst a + sign * fst b, snd a + sign * snd b)%Z.

Fixpoint aclimb (fuel : nat) (nall sign : Z) (child v : Z) (t_left : Q) (wi : nat) (s : astate) : astate :=
  if (v <? 0)%Z then s else
  match fuel with
  | O => s
  | S f =>
      let s1 := update_afs nall v t_left wi s in
      let s2 := mka (a_parent s1) (a_bl s1) (a_last s1)
                    (zupd (a_cnt s1) v (add_cnt sign (znth (a_cnt s1) v (0, 0)%Z)
                                                     (znth (a_cnt s1) child (0, 0)%Z)))
                    (a_res s1) in
      aclimb f nall sign child (znth (a_parent s2) v NULL) t_left wi s2
  end.

(* 3552-3575 *)
Definition afs_remove (nall : Z) (e : edge) (t_left : Q) (wi : nat) (s : astate) : astate :=
  let u := e_child e in
  let s1 := update_afs nall u t_left wi s in
  let s2 := aclimb (S (length (a_parent s1))) nall (-1) u (e_parent e) t_left wi s1 in
  mka (zupd (a_parent s2) u NULL) (zupd (a_bl s2) u 0) (a_last s2) (a_cnt s2) (a_res s2).

(* insertion loop: parent[u] = v; branch_length[u] = ...; last_update[u] = t_left (the last
   assignment is the repair; refresh = false is the pinned pre-fix code) *)
Definition afs_insert (refresh : bool) (time : list Q) (nall : Z) (e : edge) (t_left : Q) (wi : nat) (s : astate) : astate :=
  let u := e_child e in
  let v := e_parent e in
  let s1 := mka (zupd (a_parent s) u v) (zupd (a_bl s) u (znth time v 0 - znth time u 0))
                (if refresh then zupd (a_last s) u t_left else a_last s) (a_cnt s) (a_res s) in
  aclimb (S (length (a_parent s1))) nall 1 u v t_left wi s1.

Fixpoint afs_drain_out (fuel : nat) (nall : Z) (E : list edge) (O : list Z) (tk : Z) (t_left : Q)
         (wi : nat) (s : astate) : Z * astate :=
  match fuel with
  | O => (tk, s)
  | S f =>
      if (tk <? Z.of_nat (length E))%Z && Qeq_bool (e_right (eget E (znth O tk 0%Z))) t_left
      then afs_drain_out f nall E O (tk + 1)%Z t_left wi (afs_remove nall (eget E (znth O tk 0%Z)) t_left wi s)
      else (tk, s)
  end.
Fixpoint afs_drain_in (refresh : bool) (fuel : nat) (time : list Q) (nall : Z) (E : list edge) (I : list Z) (tj : Z)
         (t_left : Q) (wi : nat) (s : astate) : Z * astate :=
  match fuel with
  | O => (tj, s)
  | S f =>
      if (tj <? Z.of_nat (length E))%Z && Qeq_bool (e_left (eget E (znth I tj 0%Z))) t_left
      then afs_drain_in refresh f time nall E I (tj + 1)%Z t_left wi (afs_insert refresh time nall (eget E (znth I tj 0%Z)) t_left wi s)
      else (tj, s)
  end.

(* 3604-3617: flush every node at each window end <= t_right *)
Fixpoint afs_flush (fuel : nat) (nall : Z) (ws : list Q) (wi : nat) (t_right : Q) (s : astate) : nat * astate :=
  match fuel with
  | O => (wi, s)
  | S f =>
      if Nat.ltb (S wi) (length ws) && Qle_bool (nth (S wi) ws 0) t_right then
        let w_right := nth (S wi) ws 0 in
        let s' := fold_left (fun st u => update_afs nall u w_right wi st) (zseq (length (a_parent s))) s in
        afs_flush f nall ws (S wi) t_right s'
      else (wi, s)
  end.

Fixpoint afs_sweep (refresh : bool) (fuel : nat) (time : list Q) (nall : Z) (E : list edge) (I O : list Z) (L : Q)
         (ws : list Q) (tj tk : Z) (t_left : Q) (wi : nat) (s : astate) : option astate :=
  if negb ((tj <? Z.of_nat (length E))%Z || Qltb t_left L) then Some s else
  match fuel with
  | O => None
  | S f =>
      let '(tk', s1) := afs_drain_out (S (length E)) nall E O tk t_left wi s in
      let '(tj', s2) := afs_drain_in refresh (S (length E)) time nall E I tj t_left wi s1 in
      let r1 := if (tj' <? Z.of_nat (length E))%Z then Qmin L (e_left (eget E (znth I tj' 0%Z))) else L in
      let t_right := if (tk' <? Z.of_nat (length E))%Z then Qmin r1 (e_right (eget E (znth O tk' 0%Z))) else r1 in
      let '(wi', s3) := afs_flush (S (length ws)) nall ws wi t_right s2 in
      afs_sweep refresh f time nall E I O L ws tj' tk' t_right wi' s3
  end.

Definition mem (x : Z) (l : list Z) : bool := existsb (Z.eqb x) l.

(* result[window][count], un-normalised; None = fuel exhausted *)
Definition afs_branch_port_gen (refresh : bool) (time : list Q) (S all : list Z) (E : list edge) (I O : list Z)
           (L : Q) (ws : list Q) : option (list (list Q)) :=
  let n := length time in
  let cnt := map (fun u => ((if mem u S then 1 else 0), (if mem u all then 1 else 0))%Z) (zseq n) in
  let s0 := mka (repeat NULL n) (repeat 0 n) (repeat 0 n) cnt
                (repeat (repeat 0 (Datatypes.S (length S))) (length ws - 1)) in
  match afs_sweep refresh (2 * length E + 2) time (Z.of_nat (length all)) E I O L ws 0%Z 0%Z 0 0%nat s0 with
  | Some s => Some (a_res s)
  | None => None
  end.

Definition afs_branch_port := afs_branch_port_gen true.           (* the code as repaired *)
Definition afs_branch_port_pinned := afs_branch_port_gen false.   (* pre-fix code, C08-F2 *)

(* the definition, as result[window][count] *)
Definition afs_branch_spec_table (time : list Q) (S all : list Z) (segs : list seg) (ws : list Q)
  : list (list Q) :=
  windowed (fun a b => map (fun c => afs_branch_spec time S all segs c a b) (zseq (Datatypes.S (length S)))) ws.

Fixpoint qtable_eqb (a b : list (list Q)) : bool :=
  match a, b with
  | [], [] => true
  | x :: a', y :: b' => qlist_eqb x y && qtable_eqb a' b'
  | _, _ => false
  end.

Definition normalise_table (norm : bool) (ws : list Q) (t : list (list Q)) : list (list Q) :=
  if norm then
    (fix go (ws : list Q) (t : list (list Q)) : list (list Q) :=
       match ws, t with
       | a :: ((b :: _) as r), row :: rows => map (fun v => v / (b - a)) row :: go r rows
       | _, _ => []
       end) ws t
  else t.

Definition check_afs_port (r : option (list (list Q))) (norm : bool) (ws : list Q)
           (expected : list (list Q)) : bool :=
  match r with Some t => qtable_eqb (normalise_table norm ws t) expected | None => false end.

Definition check_afs_spec (time : list Q) (S all : list Z) (segs : list seg) (norm : bool)
           (ws : list Q) (expected : list (list Q)) : bool :=
  qtable_eqb (normalise_table norm ws (afs_branch_spec_table time S all segs ws)) expected.
