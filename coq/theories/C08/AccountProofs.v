(* C08 (d), second part: the window accounting of tsk_treeseq_branch_general_stat.
   (1) the sweep with in-line accounting equals accounting over the trace of visited trees;
   (2) for a trace of contiguous, non-empty tree intervals tiling [lo,hi) and strictly
       increasing windows from lo to hi, the accounted values are, window by window,
       sum over the visited trees of  overlap(tree, window) * running_sum(tree). *)
From Coq Require Import List ZArith QArith Qminmax Bool Lia Lqa Setoid.
From TskVerif Require Import C08.Model C08.Incremental C08.WindowProofs.
Import ListNotations.
Open Scope Q_scope.

Fixpoint account_all (trace : list trec) (ws : list Q) (cur : Q) : list Q :=
  match trace with
  | [] => []
  | t :: rest => let '(out, ws', cur') := account ws cur (tr_l t) (tr_r t) (tr_v t) in
                 out ++ account_all rest ws' cur'
  end.

Lemma Forall2_refl_Qeq l : Forall2 Qeq l l.
Proof. induction l; constructor; [reflexivity | assumption]. Qed.

Lemma sweep_is_account_all F time fuel E I O L : forall ws cur tj tk t_left s,
  sweep F time fuel E I O L ws cur tj tk t_left s =
  match sweep_trace F time fuel E I O L tj tk t_left s with
  | Some tr => Some (account_all tr ws cur)
  | None => None
  end.
Proof.
  induction fuel as [|f IH]; intros ws cur tj tk t_left s; cbn [sweep sweep_trace].
  - destruct (negb _); reflexivity.
  - destruct (negb _); [reflexivity|]. cbv zeta.
    destruct (drain_out F (S (length E)) E O tk t_left s) as [tk' s1].
    destruct (drain_in F time (S (length E)) E I tj t_left s1) as [tj' s2].
    match goal with |- context [account ws cur t_left ?tr (b_rs s2)] => set (t_right := tr) end.
    destruct (account ws cur t_left t_right (b_rs s2)) as [[out ws'] cur'] eqn:EA.
    rewrite IH.
    destruct (sweep_trace F time f E I O L tj' tk' t_right s2) as [tr|]; [|reflexivity].
    simpl. rewrite EA. reflexivity.
Qed.

(* ---------- the accounted values ---------- *)
Definition S (trace : list trec) (x y : Q) : Q :=
  qsum (map (fun t => overlap (tr_l t) (tr_r t) x y * tr_v t) trace).

Lemma S_cons t rest x y : S (t :: rest) x y == overlap (tr_l t) (tr_r t) x y * tr_v t + S rest x y.
Proof. unfold S. simpl. reflexivity. Qed.

Fixpoint ttiles (trace : list trec) (lo hi : Q) : Prop :=
  match trace with
  | [] => lo == hi
  | t :: r => tr_l t == lo /\ tr_l t < tr_r t /\ ttiles r (tr_r t) hi
  end.

Lemma ttiles_le trace : forall lo hi, ttiles trace lo hi -> lo <= hi.
Proof.
  induction trace as [|t r IH]; simpl; intros lo hi H; [lra|].
  destruct H as [H1 [H2 H3]]. specialize (IH _ _ H3). lra.
Qed.

Lemma S_zero_before trace : forall lo hi x b, ttiles trace lo hi -> b <= lo -> S trace x b == 0.
Proof.
  induction trace as [|t r IH]; intros lo hi x b H Hb; [reflexivity|].
  destruct H as [H1 [H2 H3]]. rewrite S_cons, (IH _ _ x b H3) by lra.
  assert (E : overlap (tr_l t) (tr_r t) x b == 0) by (unfold overlap; qmm; lra).
  rewrite E. lra.
Qed.

Definition Alist (trace : list trec) (cur : Q) (ws : list Q) : list Q :=
  match ws with
  | x :: ((y :: _) as t) => (cur + S trace x y) :: windowed (S trace) t
  | _ => []
  end.

Lemma windowed_drop_trec t0 rest : forall b t, sincr (b :: t) -> tr_r t0 <= b -> tr_l t0 <= tr_r t0 ->
  Forall2 Qeq (windowed (S rest) (b :: t)) (windowed (S (t0 :: rest)) (b :: t)).
Proof.
  intros b t; revert b; induction t as [|c t IH]; intros b Hs Hb Hl; [constructor|].
  destruct Hs as [H1 H2].
  change (windowed ?f (b :: c :: t)) with (f b c :: windowed f (c :: t)).
  constructor; [|apply IH; [assumption | lra | assumption]].
  rewrite S_cons.
  assert (E : overlap (tr_l t0) (tr_r t0) b c == 0) by (unfold overlap; qmm; lra).
  rewrite E. lra.
Qed.

Lemma account_step x b t cur l r v :
  account (x :: b :: t) cur l r v =
  if Qltb x r then
    if Qle_bool b r then
      let '(out, rest, c) := account (b :: t) 0 l r v in
      (cur + v * (Qmin r b - Qmax l x) :: out, rest, c)
    else ([], x :: b :: t, cur + v * (Qmin r b - Qmax l x))
  else ([], x :: b :: t, cur).
Proof. reflexivity. Qed.

Lemma Qltb_true a b : Qltb a b = true <-> a < b.
Proof.
  unfold Qltb. split; intros H.
  - apply negb_true_iff in H. apply Qle_bool_false in H. exact H.
  - apply negb_true_iff. apply Qle_bool_false. exact H.
Qed.
Lemma Qltb_false a b : Qltb a b = false <-> b <= a.
Proof.
  unfold Qltb. split; intros H.
  - apply negb_false_iff in H. apply Qle_bool_iff in H. exact H.
  - apply negb_false_iff. apply Qle_bool_iff. exact H.
Qed.

Lemma sincr_all_gt : forall t b (lo : Q), sincr (b :: t) -> lo < b -> Forall (fun c => lo < c) t.
Proof.
  induction t as [|c t IH]; intros b lo Hs Hb; [constructor|]. destruct Hs as [H1 H2].
  constructor; [lra | apply (IH c lo H2); lra].
Qed.

Lemma account_correct (t0 : trec) rest hi : ttiles rest (tr_r t0) hi -> tr_l t0 < tr_r t0 ->
  forall ws' x cur,
    sincr (x :: ws') -> x <= tr_r t0 ->
    Forall (fun b => tr_l t0 < b) ws' -> Forall (fun b => b <= hi) ws' ->
    let '(out, rws, cur') := account (x :: ws') cur (tr_l t0) (tr_r t0) (tr_v t0) in
    Forall2 Qeq (out ++ Alist rest cur' rws) (Alist (t0 :: rest) cur (x :: ws')) /\
    exists x' ws'', rws = x' :: ws'' /\ sincr rws /\ x' <= tr_r t0 /\
                    Forall (fun b => tr_r t0 < b) ws'' /\ Forall (fun b => b <= hi) ws''.
Proof.
  intros Ht Hl. set (l := tr_l t0) in *. set (r := tr_r t0) in *. set (v := tr_v t0) in *.
  induction ws' as [|b t IH]; intros x cur Hs Hx Hgt Hhi.
  - simpl. split; [constructor|]. exists x, []. repeat split; auto.
  - destruct Hs as [Hxb Hs'].
    inversion Hgt as [|? ? Hlb Hgt']; subst. inversion Hhi as [|? ? Hbhi Hhi']; subst.
    rewrite account_step.
    destruct (Qltb x r) eqn:Exr.
    + apply Qltb_true in Exr. destruct (Qle_bool b r) eqn:Ebr.
      * apply Qle_bool_iff in Ebr.
        specialize (IH b 0 Hs' Ebr Hgt' Hhi'). revert IH.
        destruct (account (b :: t) 0 l r v) as [[out rws] c'].
        intros IH. cbv beta iota zeta in IH |- *. destruct IH as [IH1 IH2]. split; [|exact IH2].
        cbn [app Alist]. constructor.
        -- rewrite S_cons, (S_zero_before rest r hi x b Ht Ebr). fold l r v.
           assert (Eo : overlap l r x b == Qmin r b - Qmax l x) by (unfold overlap; qmm; lra).
           rewrite Eo. lra.
        -- assert (E1 : Forall2 Qeq (Alist (t0 :: rest) 0 (b :: t)) (windowed (S (t0 :: rest)) (b :: t))).
           { destruct t as [|c t']; [constructor|]. unfold Alist.
             change (windowed ?f (b :: c :: t')) with (f b c :: windowed f (c :: t')).
             constructor; [lra | apply Forall2_refl_Qeq]. }
           revert IH1 E1.
           generalize (out ++ Alist rest c' rws). generalize (Alist (t0 :: rest) 0 (b :: t)).
           generalize (windowed (S (t0 :: rest)) (b :: t)).
           intros cc bb aa Hab. revert cc. induction Hab as [|p q a' b' Hpq Hab IHab]; intros cc Hbc.
           ++ exact Hbc.
           ++ inversion Hbc; subst. constructor; [rewrite Hpq; assumption | apply IHab; assumption].
      * apply Qle_bool_false in Ebr. split.
        -- cbn [app Alist]. constructor.
           ++ rewrite S_cons. fold l r v.
              assert (Eo : overlap l r x b == Qmin r b - Qmax l x) by (unfold overlap; qmm; lra).
              rewrite Eo. lra.
           ++ apply windowed_drop_trec; [assumption | fold r; lra | fold l r; lra].
        -- exists x, (b :: t). split; [reflexivity|]. split; [split; assumption|].
           split; [lra|]. split; [|constructor; assumption].
           constructor; [exact Ebr | apply (sincr_all_gt t b r Hs' Ebr)].
    + apply Qltb_false in Exr. split.
      * cbn [app Alist]. constructor.
        -- rewrite S_cons. fold l r v.
           assert (Eo : overlap l r x b == 0) by (unfold overlap; qmm; lra).
           rewrite Eo. lra.
        -- apply windowed_drop_trec; [assumption | fold r; lra | fold l r; lra].
      * exists x, (b :: t). split; [reflexivity|]. split; [split; assumption|].
        split; [lra|]. split; [|constructor; assumption].
        constructor; [lra | apply (sincr_all_gt t b r Hs'); lra].
Qed.

Lemma Forall2_Qeq_trans a b c : Forall2 Qeq a b -> Forall2 Qeq b c -> Forall2 Qeq a c.
Proof.
  intros Hab. revert c. induction Hab as [|p q a' b' Hpq Hab IH]; intros c Hbc.
  - exact Hbc.
  - inversion Hbc; subst. constructor; [rewrite Hpq; assumption | apply IH; assumption].
Qed.

Lemma account_all_correct trace : forall hi l ws' x cur,
  ttiles trace l hi -> sincr (x :: ws') -> x <= l ->
  Forall (fun b => l < b) ws' -> Forall (fun b => b <= hi) ws' ->
  Forall2 Qeq (account_all trace (x :: ws') cur) (Alist trace cur (x :: ws')).
Proof.
  induction trace as [|t0 rest IH]; intros hi l ws' x cur Ht Hs Hx Hgt Hhi.
  - simpl in Ht. destruct ws' as [|b t]; [constructor|].
    inversion Hgt; subst. inversion Hhi; subst. lra.
  - destruct Ht as [H1 [H2 H3]]. cbn [account_all].
    assert (Hgt' : Forall (fun b => tr_l t0 < b) ws').
    { eapply Forall_impl; [|exact Hgt]. intros b Hb. simpl in Hb. lra. }
    pose proof (account_correct t0 rest hi H3 H2 ws' x cur Hs ltac:(lra) Hgt' Hhi) as A.
    revert A. destruct (account (x :: ws') cur (tr_l t0) (tr_r t0) (tr_v t0)) as [[out rws] cur'].
    intros A. cbv beta iota in A. destruct A as [A1 [x' [ws'' [Er [Hs' [Hx' [Hg'' Hh'']]]]]]]. subst rws.
    specialize (IH hi (tr_r t0) ws'' x' cur' H3 Hs' Hx' Hg'' Hh'').
    eapply Forall2_Qeq_trans; [|exact A1].
    apply Forall2_app; [apply Forall2_refl_Qeq | exact IH].
Qed.

(* ---------- statement exported to Props/C08.v ---------- *)
(* If the port returns rows for a window list, the trees it visited being [trace], and that
   trace is a contiguous sequence of non-empty intervals from the first breakpoint to the
   last (what sorted index arrays give), then row w is
   sum over the visited trees of overlap(tree, window w) * running_sum(tree). *)
Lemma incremental_window_accounting (k : nat) (F : vec -> Q) (time : list Q) (W : weights)
      (E : list edge) (I O : list Z) (L : Q) (x : Q) (ws' : list Q) (trace : list trec) (hi : Q) :
  branch_trace k F time W E I O L = Some trace ->
  ttiles trace x hi -> sincr (x :: ws') -> Forall (fun b => b <= hi) ws' ->
  exists rows, branch_incremental k F time W E I O L (x :: ws') = Some rows /\
               Forall2 Qeq rows (windowed (S trace) (x :: ws')).
Proof.
  intros Htr Ht Hs Hh. unfold branch_incremental, branch_trace in *.
  rewrite sweep_is_account_all, Htr. eexists. split; [reflexivity|].
  assert (Hgt : Forall (fun b => x < b) ws').
  { destruct ws' as [|b t]; [constructor|]. destruct Hs as [H1 H2].
    constructor; [exact H1 | apply (sincr_all_gt t b x H2 H1)]. }
  pose proof (account_all_correct trace hi x ws' x 0 Ht Hs ltac:(lra) Hgt Hh) as A.
  eapply Forall2_Qeq_trans; [exact A|].
  destruct ws' as [|b t]; [constructor|]. unfold Alist.
  change (windowed ?f (x :: b :: t)) with (f x b :: windowed f (b :: t)).
  constructor; [lra | apply Forall2_refl_Qeq].
Qed.

(* non-vacuity: the trace of the example of IncrementalProofs tiles [0,5) *)
Example ex_trace_tiles :
  match branch_trace 1 (polar 1 ex_f ex_W false) ex_time ex_W
          [mkedge 0 2 2 0; mkedge 3 5 2 0; mkedge 0 5 2 1] [0; 2; 1]%Z [0; 1; 2]%Z 5 with
  | Some tr => map (fun t => (Qred (tr_l t), Qred (tr_r t), Qred (tr_v t))) tr = [(0, 2, 6); (2, 3, 3); (3, 5, 6)]
  | None => False
  end.
Proof. vm_compute. reflexivity. Qed.
