(* C08-F3 (fixed by a2ba426; [fixed = false] is the pinned pre-fix code) — the window-span
   bookkeeping of tsk_treeseq_pair_coalescence_stat (c/tskit/trees.c 9441-9447, 9525-9592)
   used by span_normalise, against the documented "span of non-missing sequence in the
   window".  The C window cursor `w` into `windows[]` is rendered as the suffix of the
   breakpoint list starting at windows[w] (so windows[w] / windows[w+1] are the first two
   elements).  Executable definitions only. *)
From Coq Require Import List ZArith QArith Qminmax Bool Lia.
From TskVerif Require Import C08.Model.
Import ListNotations.
Open Scope Q_scope.

(* a tree of the sequence: interval and whether it has no edges at all (num_edges == 0) *)
Record ptree := mkpt { p_left : Q; p_right : Q; p_empty : bool }.

(* `while (w < num_windows && windows[w + 1] <= right)`: 9530, 9585-9592.
   Returns (spans of the flushed windows, remaining suffix, missing_span). *)
Fixpoint pcc_flush (fixed : bool) (ws : list Q) (right : Q) (empty : bool) (missing : Q)
  : list Q * list Q * Q :=
  match ws with
  | a :: ((b :: _) as t) =>
      if Qle_bool b right then
        let span0 := b - a - missing in                     (* window_span = w[w+1]-w[w]-missing_span *)
        let rem := right - b in                             (* remaining_span *)
        (* repaired: window_span += remaining_span;  pinned: window_span -= remaining_span *)
        let span := if empty then (if fixed then span0 + rem else span0 - rem) else span0 in
        let missing' := if empty then rem else 0 in         (* missing_span = 0; += remaining *)
        let '(out, rest, m) := pcc_flush fixed t right empty missing' in
        (span :: out, rest, m)
      else ([], ws, missing)
  | _ => ([], ws, missing)
  end.

Fixpoint pcc_code_spans_go (fixed : bool) (trees : list ptree) (ws : list Q) (missing : Q) : list Q :=
  match trees with
  | [] => []
  | t :: rest =>
      let missing1 := if p_empty t then missing + (p_right t - p_left t) else missing in   (* 9525-9527 *)
      let '(out, ws', m') := pcc_flush fixed ws (p_right t) (p_empty t) missing1 in
      out ++ pcc_code_spans_go fixed rest ws' m'
  end.
Definition pcc_code_spans (trees : list ptree) (ws : list Q) : list Q :=
  pcc_code_spans_go true trees ws 0.
Definition pcc_code_spans_pinned (trees : list ptree) (ws : list Q) : list Q :=
  pcc_code_spans_go false trees ws 0.

(* documented: span of the window covered by trees that have edges *)
Definition nonmissing_span (trees : list ptree) (a b : Q) : Q :=
  qsum (map (fun t => if p_empty t then 0 else overlap (p_left t) (p_right t) a b) trees).
Definition pcc_spec_spans (trees : list ptree) (ws : list Q) : list Q :=
  windowed (nonmissing_span trees) ws.

(* correspondence: spans implied by the implementation (un-normalised / normalised count),
   None where every count of the window is zero *)
Fixpoint check_spans (code : list Q) (implied : list (option Q)) : bool :=
  match code, implied with
  | [], [] => true
  | c :: code', Some v :: implied' => Qeq_bool c v && check_spans code' implied'
  | _ :: code', None :: implied' => check_spans code' implied'
  | _, _ => false
  end.
