(* C08-F3 (fixed by a2ba426; [fixed = false] is the pinned pre-fix code) — the window-span bookkeeping of tsk_treeseq_pair_coalescence_stat
   (c/tskit/trees.c 9441-9447, 9525-9592) used by span_normalise, against the documented
   "span of non-missing sequence in the window".  Executable definitions only. *)
From Coq Require Import List ZArith QArith Qminmax Bool Lia.
From TskVerif Require Import C08.Model.
Import ListNotations.
Open Scope Q_scope.

(* a tree of the sequence: interval and whether it has no edges at all (num_edges == 0) *)
Record ptree := mkpt { p_left : Q; p_right : Q; p_empty : bool }.

(* `while (w < num_windows && windows[w + 1] <= right)`: 9530, 9585-9592 *)
Fixpoint pcc_flush (fixed : bool) (fuel : nat) (ws : list Q) (w : nat) (right : Q) (empty : bool)
         (missing : Q) (acc : list Q) : nat * Q * list Q :=
  match fuel with
  | O => (w, missing, acc)
  | S f =>
      if Nat.ltb (S w) (length ws) && Qle_bool (nth (S w) ws 0) right then
        let span0 := nth (S w) ws 0 - nth w ws 0 - missing in
        let rem := right - nth (S w) ws 0 in
        (* repaired: window_span += remaining_span;  pinned: window_span -= remaining_span *)
        let span := if empty then (if fixed then span0 + rem else span0 - rem) else span0 in
        let missing' := if empty then rem else 0 in                  (* missing_span = 0; += remaining *)
        pcc_flush fixed f ws (S w) right empty missing' (acc ++ [span])
      else (w, missing, acc)
  end.

Fixpoint pcc_code_spans_go (fixed : bool) (trees : list ptree) (ws : list Q) (w : nat) (missing : Q) (acc : list Q) : list Q :=
  match trees with
  | [] => acc
  | t :: rest =>
      let missing1 := if p_empty t then missing + (p_right t - p_left t) else missing in   (* 9525-9527 *)
      let '(w', m', acc') := pcc_flush fixed (length ws) ws w (p_right t) (p_empty t) missing1 acc in
      pcc_code_spans_go fixed rest ws w' m' acc'
  end.
Definition pcc_code_spans (trees : list ptree) (ws : list Q) : list Q :=
  pcc_code_spans_go true trees ws 0 0 [].
Definition pcc_code_spans_pinned (trees : list ptree) (ws : list Q) : list Q :=
  pcc_code_spans_go false trees ws 0 0 [].

(* documented: span of the window covered by trees that have edges *)
Definition nonmissing_span (trees : list ptree) (a b : Q) : Q :=
  qsum (map (fun t => if p_empty t then 0 else overlap (p_left t) (p_right t) a b) trees).
Definition pcc_spec_spans (trees : list ptree) (ws : list Q) : list Q :=
  windowed (nonmissing_span trees) ws.

(* correspondence: spans implied by the implementation (un-normalised / normalised count),
   None where every count of the window is zero *)
Fixpoint check_spans (code : list Q) (implied : list (option Q)) : bool :=
  match code, implied with
  | [], [] => true
  | c :: code', Some v :: implied' => Qeq_bool c v && check_spans code' implied'
  | _ :: code', None :: implied' => check_spans code' implied'
  | _, _ => false
  end.
