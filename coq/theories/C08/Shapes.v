(* C08-F1 (fixed by af93ddc) — the array shaping of TreeSequence.genetic_relatedness(..., proportion=True),
   python/tskit/trees.py 8518-8547, as a function on shapes (lists of dimensions).
   numpy.reshape succeeds iff the number of elements is preserved. *)
From Coq Require Import List ZArith Bool Lia.
Import ListNotations.

Definition shape := list nat.
Definition size (s : shape) : nat := fold_right Nat.mul 1 s.
Definition reshape (from to : shape) : option shape :=
  if Nat.eqb (size from) (size to) then Some to else None.

Fixpoint set_last (s : shape) (v : nat) : shape :=
  match s with [] => [] | [_] => [v] | h :: t => h :: set_last t v end.

(* shape of a windowed statistic before the index/sample-set dimension: [windows] [nodes] *)
Definition lead (windows : option nat) (node_mode : bool) (num_nodes : nat) : shape :=
  (match windows with Some w => [w] | None => [] end) ++ (if node_mode then [num_nodes] else []).

(* __k_way_sample_set_stat: a single index tuple drops the last dimension *)
Definition out_shape (windows : option nat) (node_mode : bool) (num_nodes : nat)
           (indexes : option (bool * nat)) : shape :=
  match indexes with
  | None => lead windows node_mode num_nodes                       (* indexes=None: dropped *)
  | Some (true, _) => lead windows node_mode num_nodes             (* one k-tuple: dropped  *)
  | Some (false, n) => lead windows node_mode num_nodes ++ [n]     (* list of n tuples      *)
  end.

(* segregating_sites(sample_sets=<1-D array>): last dimension dropped *)
Definition denominator_shape (windows : option nat) (node_mode : bool) (num_nodes : nat) : shape :=
  lead windows node_mode num_nodes.

(* PINNED pre-fix code (lines 8540-8545 before af93ddc): None = ValueError("cannot reshape
   array ..."); `isinstance(denominator, float)` holds exactly for the 0-dimensional result *)
Definition proportion_shape_pinned (windows : option nat) (node_mode : bool) (num_nodes : nat)
           (indexes : option (bool * nat)) : option shape :=
  let out := out_shape windows node_mode num_nodes indexes in
  let den := denominator_shape windows node_mode num_nodes in
  match indexes, den with
  | None, _ => Some out
  | Some _, [] => Some out
  | Some _, _ => match reshape den (set_last out 1) with
                 | Some _ => Some out
                 | None => None
                 end
  end.

(* numpy broadcasting of `out /= denominator` (in place: the result keeps out's shape):
   equal rank here, every denominator dimension equal to out's or 1 *)
Fixpoint broadcastable (den out : shape) : bool :=
  match den, out with
  | [], [] => true
  | d :: den', o :: out' => (Nat.eqb d o || Nat.eqb d 1) && broadcastable den' out'
  | _, _ => false
  end.

(* repaired code: `if np.ndim(out) == np.ndim(denominator) + 1:
                      denominator = np.asarray(denominator)[..., np.newaxis]` *)
Definition proportion_shape (windows : option nat) (node_mode : bool) (num_nodes : nat)
           (indexes : option (bool * nat)) : option shape :=
  let out := out_shape windows node_mode num_nodes indexes in
  let den := denominator_shape windows node_mode num_nodes in
  let den' := if Nat.eqb (length out) (S (length den)) then den ++ [1] else den in
  if broadcastable den' out then Some out else None.

(* what the documentation promises: the shape of the un-normalised statistic *)
Definition documented_shape := out_shape.

Definition shape_eqb (a b : option shape) : bool :=
  match a, b with
  | Some x, Some y => (fix eq (x y : list nat) := match x, y with
                         | [], [] => true | p :: x', q :: y' => Nat.eqb p q && eq x' y' | _, _ => false end) x y
  | None, None => true
  | _, _ => false
  end.
