(* C08 — the specification's node state (sum of the weights of the samples at or below a
   node) under insertion of an edge above a root; vectors are compared component-wise
   up to Qeq. *)
From Coq Require Import List ZArith QArith Qminmax Bool Lia Lqa Arith Setoid.
From TskVerif Require Import C08.Model C08.Incremental C08.WindowProofs C08.IncrementalProofs C08.ForestProofs.
Import ListNotations.
Open Scope Q_scope.

Definition veq (a b : vec) : Prop := Forall2 Qeq a b.

Lemma veq_refl a : veq a a.
Proof. induction a; constructor; [reflexivity | assumption]. Qed.
Lemma veq_sym a b : veq a b -> veq b a.
Proof. induction 1; constructor; [symmetry; assumption | assumption]. Qed.
Lemma veq_trans a b c : veq a b -> veq b c -> veq a c.
Proof.
  intros H. revert c. induction H as [|x y a b Hxy Hab IH]; intros c Hbc; [exact Hbc|].
  inversion Hbc; subst. constructor; [rewrite Hxy; assumption | apply IH; assumption].
Qed.
Lemma veq_length a b : veq a b -> length a = length b.
Proof. induction 1; simpl; congruence. Qed.

Lemma veq_vadd a a' b b' : veq a a' -> veq b b' -> veq (vadd a b) (vadd a' b').
Proof.
  intros H. revert b b'. induction H as [|x y a a' Hxy Ha IH]; intros b b' Hb; [constructor|].
  inversion Hb; subst; simpl; constructor; [lra | apply IH; assumption].
Qed.
Lemma veq_vsub a a' b b' : veq a a' -> veq b b' -> veq (vsub a b) (vsub a' b').
Proof.
  intros H. revert b b'. induction H as [|x y a a' Hxy Ha IH]; intros b b' Hb; [constructor|].
  inversion Hb; subst; simpl; constructor; [lra | apply IH; assumption].
Qed.

Lemma vadd_length a : forall b, length a = length b -> length (vadd a b) = length a.
Proof. induction a as [|x a IH]; intros [|y b] H; simpl in *; try lia. rewrite IH; lia. Qed.
Lemma vsub_length a : forall b, length a = length b -> length (vsub a b) = length a.
Proof. induction a as [|x a IH]; intros [|y b] H; simpl in *; try lia. rewrite IH; lia. Qed.

Lemma vadd_assoc a : forall b c, veq (vadd a (vadd b c)) (vadd (vadd a b) c).
Proof. induction a as [|x a IH]; intros [|y b] [|z c]; simpl; try constructor; [lra | apply IH]. Qed.
Lemma vadd_swap a : forall b c, veq (vadd a (vadd b c)) (vadd b (vadd a c)).
Proof. induction a as [|x a IH]; intros [|y b] [|z c]; simpl; try constructor; [lra | apply IH]. Qed.
Lemma vadd_zero k : veq (vzero k) (vadd (vzero k) (vzero k)).
Proof. induction k; simpl; constructor; [lra | assumption]. Qed.

(* a == b + c  ->  a - c == b *)
Lemma veq_sub_of_add a : forall b c, length b = length c -> veq a (vadd b c) -> veq (vsub a c) b.
Proof.
  induction a as [|x a IH]; intros [|y b] [|z c] Hl H; simpl in *; try lia; inversion H; subst; try constructor.
  - lra.
  - apply IH; [lia | assumption].
Qed.

Section SpecState.
  Variable k : nat.
  Variable W : weights.
  Variable time : list Q.
  Variable N : nat.

  Definition Wok : Prop := Forall (fun sw => length (snd sw) = k /\ inr N (fst sw)) W.

  Lemma vsum_length l : Forall (fun w : vec => length w = k) l -> length (vsum k l) = k.
  Proof.
    induction 1 as [|w l Hw Hl IH]; simpl; [apply repeat_length|].
    rewrite vadd_length; [exact Hw | rewrite IH; exact Hw].
  Qed.

  Lemma Wok_filter (P : Z * vec -> bool) : Wok -> Forall (fun w : vec => length w = k) (map snd (filter P W)).
  Proof.
    unfold Wok. induction 1 as [|sw l [H1 H2] Hl IH]; simpl; [constructor|].
    destruct (P sw); simpl; [constructor; assumption | assumption].
  Qed.

  (* splitting a filtered sum into two disjoint parts *)
  Lemma vsum_split (A B C : Z * vec -> bool) : forall l,
    Forall (fun sw : Z * vec => length (snd sw) = k) l ->
    (forall sw, In sw l -> C sw = (A sw || B sw)) ->
    (forall sw, In sw l -> A sw && B sw = false) ->
    veq (vsum k (map snd (filter C l)))
        (vadd (vsum k (map snd (filter A l))) (vsum k (map snd (filter B l)))).
  Proof.
    induction l as [|sw l IH]; intros Hk HC HD; [apply vadd_zero|].
    inversion Hk as [|? ? Hk1 Hk2]; subst.
    assert (IH' := IH Hk2 (fun s H => HC s (or_intror H)) (fun s H => HD s (or_intror H))).
    pose proof (HC sw (or_introl eq_refl)) as E1. pose proof (HD sw (or_introl eq_refl)) as E2.
    simpl. rewrite E1. destruct (A sw) eqn:EA; destruct (B sw) eqn:EB; simpl in *; try discriminate.
    - eapply veq_trans; [apply veq_vadd; [apply veq_refl | exact IH']|]. apply vadd_assoc.
    - eapply veq_trans; [apply veq_vadd; [apply veq_refl | exact IH']|]. apply vadd_swap.
    - exact IH'.
  Qed.

  Definition spec_state (p : list Z) (x : Z) : vec := state k p W x.

  Lemma spec_state_anc p x : wf time N p ->
    spec_state p x = vsum k (map snd (filter (fun sw => anc N p (fst sw) x) W)).
  Proof. intros [Hl _]. unfold spec_state, state, anc. rewrite Hl. reflexivity. Qed.

  Lemma spec_state_length p x : Wok -> length (spec_state p x) = k.
  Proof. intros H. unfold spec_state, state. apply vsum_length. apply Wok_filter. exact H. Qed.

  (* the specification's state after inserting u -> v above the root u *)
  Lemma spec_state_insert p u v x :
    Wok -> wf time N p -> inr N u -> inr N v -> parent_of p u = NULL -> tm time u < tm time v ->
    veq (spec_state (zupd p u v) x)
        (if anc N p v x then vadd (spec_state p x) (spec_state p u) else spec_state p x).
  Proof.
    intros HW Hwf Hu Hv Hroot Ht.
    pose proof (wf_insert time N p u v Hwf Hu Hv Ht) as Hwf'.
    rewrite (spec_state_anc _ x Hwf'), (spec_state_anc p x Hwf), (spec_state_anc p u Hwf).
    assert (Hin : forall sw, In sw W -> inr N (fst sw)).
    { intros sw H. unfold Wok in HW. rewrite Forall_forall in HW. apply (HW sw H). }
    destruct (anc N p v x) eqn:Ev.
    - apply vsum_split.
      + unfold Wok in HW. eapply Forall_impl; [|exact HW]. intros sw [H _]. exact H.
      + intros sw H. rewrite (anc_insert time N p u v Hwf Hu Hv Hroot Ht (fst sw) (Hin sw H) x), Ev.
        rewrite andb_true_r. reflexivity.
      + intros sw H. destruct (anc N p (fst sw) u) eqn:E; [|apply andb_false_r].
        rewrite (anc_insert_disjoint time N p u v Hwf Hv Hroot Ht (fst sw) x (Hin sw H) E Ev). reflexivity.
    - assert (E : filter (fun sw => anc N (zupd p u v) (fst sw) x) W = filter (fun sw => anc N p (fst sw) x) W).
      { apply filter_ext_in. intros sw H.
        rewrite (anc_insert time N p u v Hwf Hu Hv Hroot Ht (fst sw) (Hin sw H) x), Ev.
        rewrite andb_false_r, orb_false_r. reflexivity. }
      rewrite E. apply veq_refl.
  Qed.

  Lemma spec_state_insert_child p u v :
    Wok -> wf time N p -> inr N u -> inr N v -> parent_of p u = NULL -> tm time u < tm time v ->
    spec_state (zupd p u v) u = spec_state p u.
  Proof.
    intros HW Hwf Hu Hv Hroot Ht.
    pose proof (wf_insert time N p u v Hwf Hu Hv Ht) as Hwf'.
    rewrite (spec_state_anc _ u Hwf'), (spec_state_anc p u Hwf). f_equal. f_equal.
    apply filter_ext_in. intros sw H.
    apply (anc_insert_child_unchanged time N p u v Hwf Hu Hv Hroot Ht).
    unfold Wok in HW. rewrite Forall_forall in HW. apply (HW sw H).
  Qed.
End SpecState.

(* ---------- array facts ---------- *)
Lemma znth_zupd_same {A} (l : list A) u a d : (0 <= u < Z.of_nat (length l))%Z -> znth (zupd l u a) u d = a.
Proof.
  intros H. unfold znth, zupd. destruct (u <? 0)%Z eqn:E; [lia|].
  assert (G : forall (l : list A) i, (i < length l)%nat -> nth i (upd_nat l i a) d = a).
  { induction l0 as [|h t IH]; intros [|i] Hi; simpl in *; try lia; try reflexivity. apply IH; lia. }
  apply G. lia.
Qed.

Lemma upd_nat_upd_nat {A} (l : list A) i a b : upd_nat (upd_nat l i a) i b = upd_nat l i b.
Proof. revert i; induction l as [|h t IH]; intros [|i]; simpl; try reflexivity. rewrite IH. reflexivity. Qed.
Lemma upd_nat_self {A} (l : list A) i d : upd_nat l i (nth i l d) = l.
Proof.
  revert i; induction l as [|h t IH]; intros [|i]; simpl; try reflexivity. rewrite IH. reflexivity.
Qed.
Lemma zupd_restore (p : list Z) u b : (0 <= u)%Z -> zupd (zupd p u b) u (parent_of p u) = p.
Proof.
  intros H. unfold zupd, parent_of, znth. destruct (u <? 0)%Z eqn:E; [lia|].
  rewrite upd_nat_upd_nat. apply upd_nat_self.
Qed.

Section SpecRemove.
  Variable k : nat.
  Variable W : weights.
  Variable time : list Q.
  Variable N : nat.

  Lemma wf_remove p u : wf time N p -> inr N u -> wf time N (zupd p u NULL).
  Proof.
    intros Hwf Hu. pose proof Hwf as [Hl Hw]. split; [rewrite zupd_length; exact Hl|].
    intros w Hw'. rewrite (parent_of_zupd time N p u NULL Hwf Hu w Hw').
    destruct (w =? u)%Z; [left; reflexivity | apply Hw; exact Hw'].
  Qed.

  Lemma parent_of_removed p u : wf time N p -> inr N u -> parent_of (zupd p u NULL) u = NULL.
  Proof. intros Hwf Hu. rewrite (parent_of_zupd time N p u NULL Hwf Hu u Hu), Z.eqb_refl. reflexivity. Qed.

  (* the specification's state after removing the edge u -> parent(u) *)
  Lemma spec_state_remove p u x :
    Wok k W N -> wf time N p -> inr N u -> parent_of p u <> NULL ->
    veq (spec_state k W (zupd p u NULL) x)
        (if anc N (zupd p u NULL) (parent_of p u) x
         then vsub (spec_state k W p x) (spec_state k W p u) else spec_state k W p x).
  Proof.
    intros HW Hwf Hu Hp. set (v := parent_of p u). set (q := zupd p u NULL).
    pose proof Hwf as [Hl Hw]. destruct (Hw u Hu) as [E|[Hv Ht]]; [congruence|]. fold v in Hv, Ht.
    pose proof (wf_remove p u Hwf Hu) as Hq. fold q in Hq.
    pose proof (parent_of_removed p u Hwf Hu) as Hr. fold q in Hr.
    assert (Ep : zupd q u v = p) by (unfold q, v; apply zupd_restore; unfold inr in Hu; lia).
    pose proof (spec_state_insert k W time N q u v x HW Hq Hu Hv Hr Ht) as S1.
    pose proof (spec_state_insert_child k W time N q u v HW Hq Hu Hv Hr Ht) as S2.
    rewrite Ep in S1, S2.
    destruct (anc N q v x); [|apply veq_sym; exact S1].
    apply veq_sym. rewrite S2. apply veq_sub_of_add; [|exact S1].
    rewrite (spec_state_length k W N q x HW), (spec_state_length k W N q u HW). reflexivity.
  Qed.
End SpecRemove.
