(* C05: kastore_find_item (bsearch with compare_items) on a store whose keys are strictly
   sorted finds exactly the item with the requested key. *)
From Coq Require Import List ZArith Bool Lia Sorted.
From TskVerif Require Import Base.Common Gen.Generated C05.Bytes C05.Kastore C05.KastoreProofs.
Import ListNotations.
Open Scope Z_scope.

Definition key_lt (a b : list Z) : Prop := key_cmp a b = Lt.

(* the keys of the items are all readable and strictly increasing *)
Definition keys_sorted (rs : list ritem) (ks : list (list Z)) : Prop :=
  map rkey rs = map (@Ok (list Z)) ks /\ StronglySorted key_lt ks.

Lemma sorted_nth ks : StronglySorted key_lt ks -> forall i j a b,
  (i < j)%nat -> nth_error ks i = Some a -> nth_error ks j = Some b -> key_lt a b.
Proof.
  induction 1 as [|k ks Hs IH Hk]; intros i j a b Hij Ha Hb.
  - destruct i; discriminate.
  - destruct j; [lia|]. destruct i.
    + cbn in Ha, Hb. inversion Ha; subst. rewrite Forall_forall in Hk. apply Hk. eapply nth_error_In; eauto.
    + cbn in Ha, Hb. apply (IH i j a b); [lia | exact Ha | exact Hb].
Qed.

Lemma rkey_nth rs ks i r : map rkey rs = map (@Ok (list Z)) ks -> nth_error rs i = Some r ->
  exists k, nth_error ks i = Some k /\ rkey r = Ok k.
Proof.
  intros Hm Hr. assert (H : nth_error (map rkey rs) i = Some (rkey r)) by (rewrite nth_error_map, Hr; reflexivity).
  rewrite Hm, nth_error_map in H. destruct (nth_error ks i) as [k|]; [|discriminate].
  cbn in H. inversion H. eauto.
Qed.

Lemma key_cmp_gt_lt a b : key_cmp a b = Gt -> key_cmp b a = Lt.
Proof. intros H. rewrite key_cmp_antisym, H. reflexivity. Qed.

(* loop invariant of the binary search: everything left of lo is smaller, everything from hi on
   is larger than the key searched for *)
Lemma bsearch_inv rs ks key : keys_sorted rs ks -> forall fuel lo hi,
  0 <= lo <= hi -> hi <= zlen rs -> (Z.to_nat (hi - lo) < fuel)%nat ->
  (forall j k, (j < Z.to_nat lo)%nat -> nth_error ks j = Some k -> key_lt k key) ->
  (forall j k, (Z.to_nat hi <= j)%nat -> nth_error ks j = Some k -> key_lt key k) ->
  (exists i r, nth_error rs i = Some r /\ rkey r = Ok key /\ bsearch fuel key rs lo hi = Ok (Some r))
  \/ (~ In key ks /\ bsearch fuel key rs lo hi = Ok None).
Proof.
  intros [Hm Hs]. induction fuel as [|fuel IH]; intros lo hi Hlo Hhi Hf Hl Hr; [lia|].
  cbn [bsearch]. destruct (hi <=? lo) eqn:E.
  - apply Z.leb_le in E. right. split; [|reflexivity].
    intros Hin. apply In_nth_error in Hin as [j Hj].
    destruct (Nat.lt_ge_cases j (Z.to_nat lo)) as [Hjl|Hjl].
    + specialize (Hl j key Hjl Hj). unfold key_lt in Hl. rewrite key_cmp_refl in Hl. discriminate.
    + assert (Z.to_nat hi <= j)%nat by lia. specialize (Hr j key H Hj). unfold key_lt in Hr.
      rewrite key_cmp_refl in Hr. discriminate.
  - apply Z.leb_gt in E.
    set (mid := (lo + hi) / 2).
    assert (Hmid : lo <= mid < hi) by (unfold mid; split; [apply Z.div_le_lower_bound | apply Z.div_lt_upper_bound]; lia).
    destruct (nth_error rs (Z.to_nat mid)) as [r|] eqn:Er.
    2:{ apply nth_error_None in Er. unfold zlen in Hhi. lia. }
    destruct (rkey_nth rs ks _ r Hm Er) as (k & Hk & Hrk). rewrite Hrk.
    destruct (key_cmp key k) eqn:C.
    + apply key_cmp_eq in C. subst k. left. eauto.
    + (* key < k: continue in [lo, mid) *)
      apply IH; try lia; auto.
      intros j k' Hj Hk'. destruct (Nat.eq_dec j (Z.to_nat mid)) as [->|Hne].
      * rewrite Hk in Hk'. inversion Hk'; subst. exact C.
      * assert (Hlt : (Z.to_nat mid < j)%nat) by lia.
        pose proof (sorted_nth ks Hs _ _ _ _ Hlt Hk Hk') as Hkk. unfold key_lt in *. eapply key_cmp_trans; eauto.
    + (* key > k: continue in [mid+1, hi) *)
      apply IH; try lia; auto.
      intros j k' Hj Hk'. apply key_cmp_gt_lt in C.
      destruct (Nat.eq_dec j (Z.to_nat mid)) as [->|Hne].
      * rewrite Hk in Hk'. inversion Hk'; subst. exact C.
      * assert (Hlt : (j < Z.to_nat mid)%nat) by lia.
        pose proof (sorted_nth ks Hs _ _ _ _ Hlt Hk' Hk) as Hkk. unfold key_lt in *. eapply key_cmp_trans; eauto.
Qed.

(* kastore_get on a sorted store: the item with that key if there is one, "not found" otherwise *)
Theorem kas_get_sorted rs ks key : keys_sorted rs ks ->
  (exists i r, nth_error rs i = Some r /\ rkey r = Ok key /\ kas_get rs key = Ok (Some r))
  \/ (~ In key ks /\ kas_get rs key = Ok None).
Proof.
  intros H. unfold kas_get. pose proof (zlen_nonneg rs) as Hz.
  apply (bsearch_inv rs ks key H (S (length rs)) 0 (zlen rs)).
  - lia.
  - lia.
  - unfold zlen. lia.
  - intros j k Hj. change (Z.to_nat 0) with 0%nat in Hj. lia.
  - intros j k Hj Hk. destruct H as [Hm _].
    assert (Hl : length ks = length rs) by (rewrite <- (map_length (@Ok (list Z)) ks), <- Hm, map_length; reflexivity).
    assert (Hn : nth_error ks j <> None) by congruence. apply nth_error_Some in Hn. unfold zlen in Hj. lia.
Qed.

Example kas_get_ex :
  let rs := [mk_ritem (Ok [97]) 1 0 (Ok []); mk_ritem (Ok [97; 47]) 1 0 (Ok []); mk_ritem (Ok [98]) 4 1 (Ok [1; 0; 0; 0])] in
  keys_sorted rs [[97]; [97; 47]; [98]] /\ kas_get rs [98] = Ok (Some (mk_ritem (Ok [98]) 4 1 (Ok [1; 0; 0; 0])))
  /\ kas_get rs [97; 48] = Ok None.
Proof.
  cbv zeta. split; [|split; reflexivity]. split; [reflexivity|].
  repeat constructor; reflexivity.
Qed.

Lemma item_of_key r it : item_of r = Ok it -> rkey r = Ok (ikey it).
Proof.
  unfold item_of. destruct (rkey r) as [k| | |], (rblock r) as [b| | |]; try discriminate.
  destruct (zlen b <? _); [discriminate|]. intros H. inversion H. reflexivity.
Qed.

Lemma items_of_keys rs : forall its, items_of rs = Ok its -> map rkey rs = map (@Ok (list Z)) (map ikey its).
Proof.
  induction rs as [|r rs IH]; intros its H; cbn [items_of] in H.
  - inversion H. reflexivity.
  - destruct (item_of r) as [it| | |] eqn:E; try discriminate.
    destruct (items_of rs) as [l| | |] eqn:E2; try discriminate.
    inversion H; subst. cbn [map]. rewrite (item_of_key r it E), (IH l eq_refl). reflexivity.
Qed.

Lemma items_of_nth rs : forall its i r, items_of rs = Ok its -> nth_error rs i = Some r ->
  exists it, nth_error its i = Some it /\ item_of r = Ok it.
Proof.
  induction rs as [|r0 rs IH]; intros its i r H Hn; [destruct i; discriminate|].
  cbn [items_of] in H. destruct (item_of r0) as [it0| | |] eqn:E; try discriminate.
  destruct (items_of rs) as [l| | |] eqn:E2; try discriminate. inversion H; subst.
  destruct i; cbn in Hn |- *.
  - inversion Hn; subst. eauto.
  - eapply IH; eauto.
Qed.

Lemma sorted_strict l : StronglySorted key_le l -> NoDup (map ikey l) -> StronglySorted key_lt (map ikey l).
Proof.
  induction 1 as [|x l Hs IH Hx]; intros Hnd; cbn [map]; constructor.
  - apply IH. inversion Hnd; auto.
  - inversion Hnd as [|? ? Hni _]; subst. apply Forall_forall. intros k Hk.
    apply in_map_iff in Hk as (y & <- & Hy). rewrite Forall_forall in Hx. specialize (Hx y Hy).
    unfold key_le, key_lt in *. destruct (key_cmp (ikey x) (ikey y)) eqn:C; try congruence.
    apply key_cmp_eq in C. exfalso. apply Hni. rewrite C. apply in_map. exact Hy.
Qed.

(* after a round trip, kastore_get finds every key that was put (with exactly its type, length
   and bytes) and reports every other key as absent: the lookup the table layer relies on *)
Theorem kas_lookup_after_roundtrip its rest key :
  Forall item_ok its -> zlen its < 4294967296 -> kas_size (sort_items its) < two64 -> NoDup (map ikey its) ->
  exists rs, kas_open true (kas_encode its ++ rest) = Ok (rs, rest) /\
    ((exists it r, In it its /\ ikey it = key /\ kas_get rs key = Ok (Some r) /\ item_of r = Ok it)
     \/ (~ In key (map ikey its) /\ kas_get rs key = Ok None)).
Proof.
  intros H Hn Hs Hnd. pose proof (kas_roundtrip its rest H Hn Hs) as R. unfold kas_decode in R.
  destruct (kas_open true (kas_encode its ++ rest)) as [[rs rest']| | |] eqn:E; try discriminate.
  destruct (items_of rs) as [l| | |] eqn:E2; try discriminate. inversion R; subst l rest'.
  exists rs. split; [reflexivity|].
  assert (Hperm := sort_perm its).
  assert (Hks : keys_sorted rs (map ikey (sort_items its))).
  { split; [apply items_of_keys; auto|]. apply sorted_strict; [apply sort_sorted|].
    eapply Permutation.Permutation_NoDup; [|exact Hnd]. apply Permutation.Permutation_map. symmetry. exact Hperm. }
  destruct (kas_get_sorted rs _ key Hks) as [(i & r & Hi & Hr & Hg)|(Hni & Hg)].
  - left. destruct (items_of_nth rs _ i r E2 Hi) as (it & Hit & Hio).
    exists it, r. repeat split; auto.
    + eapply Permutation.Permutation_in; [exact Hperm | eapply nth_error_In; eauto].
    + pose proof (item_of_key r it Hio) as Hk. rewrite Hr in Hk. inversion Hk. reflexivity.
  - right. split; auto. intros Hin. apply Hni.
    eapply Permutation.Permutation_in; [apply Permutation.Permutation_map; symmetry; exact Hperm | exact Hin].
Qed.
