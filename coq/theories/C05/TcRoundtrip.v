(* C05: tc_roundtrip - load (dump tc) = normalise tc for every well-formed table collection.
   Chain: kas_roundtrip / kas_lookup_after_roundtrip (container) -> every dumped item is answered by
   the opened store, every other key is absent ([answers_of_member]) -> the items tsk_dump puts are
   the ones load asks for (membership lemmas + consistency of the regenerated read/write schema,
   checked by computation) -> TableProofs.tsk_load_of_answers. *)
From Coq Require Import List ZArith Bool Lia.
From TskVerif Require Import Base.Common Gen.Generated C05.Bytes C05.Kastore C05.KastoreProofs C05.SearchProofs
  C05.TskFile C05.TskProofs C05.StreamProofs C05.TableProofs.
Import ListNotations.
Open Scope Z_scope.

(* ---- the opened store answers exactly the dumped items ---- *)
Lemma answers_of_member its rest rs :
  Forall item_ok its -> zlen its < 4294967296 -> kas_size (sort_items its) < two64 -> NoDup (map ikey its) ->
  kas_open true (kas_encode its ++ rest) = Ok (rs, rest) ->
  (forall it, In it its -> answers rs (ikey it) (itype it) (ilen it) (idata it))
  /\ (forall k, ~ In k (map ikey its) -> absent rs k).
Proof.
  intros H Hn Hs Hnd Hopen. split.
  - intros it Hin.
    destruct (kas_lookup_after_roundtrip its rest (ikey it) H Hn Hs Hnd) as (rs' & Ho & Hcase).
    rewrite Hopen in Ho. inversion Ho; subst rs'.
    destruct Hcase as [(it' & r & Hin' & Hk & Hg & Hio)|(Hni & _)].
    2:{ exfalso. apply Hni. apply in_map. exact Hin. }
    assert (it' = it) by (eapply (nodup_map_inj ikey its); eauto). subst it'.
    unfold answers, sget. rewrite Hg.
    unfold item_of in Hio. destruct (rkey r) as [k| | |]; destruct (rblock r) as [b| | |]; try discriminate.
    destruct (zlen b <? rlen r * type_size (rtype r)) eqn:E; [discriminate|].
    inversion Hio; subst. cbn [itype ilen idata]. exists b. split; [reflexivity|].
    unfold content. rewrite E. reflexivity.
  - intros k Hni.
    destruct (kas_lookup_after_roundtrip its rest k H Hn Hs Hnd) as (rs' & Ho & Hcase).
    rewrite Hopen in Ho. inversion Ho; subst rs'.
    destruct Hcase as [(it' & r & Hin' & Hk & _)|(_ & Hg)].
    + exfalso. apply Hni. rewrite <- Hk. apply in_map. exact Hin'.
    + unfold absent, sget. rewrite Hg. reflexivity.
Qed.

(* ---- which items tsk_dump contains ---- *)
Lemma assoc_key_combine {A} : forall (keys : list (list Z)) (vals : list A) j k v,
  NoDup keys -> nth_error keys j = Some k -> nth_error vals j = Some v -> assoc_key k (combine keys vals) = Some v.
Proof.
  induction keys as [|k0 keys IH]; intros vals j k v Hnd Hk Hv; [destruct j; discriminate|].
  destruct vals as [|v0 vals]; [destruct j; discriminate|]. inversion Hnd as [|? ? Hni Hnd']; subst.
  cbn [combine assoc_key]. destruct j as [|j]; cbn in Hk, Hv.
  - inversion Hk; inversion Hv; subst. rewrite zlist_eqb_refl. reflexivity.
  - destruct (zlist_eqb k k0) eqn:E.
    + apply zlist_eqb_eq in E. subst. exfalso. apply Hni. eapply nth_error_In; eauto.
    + eapply IH; eauto.
Qed.

Record schema_ok (s : tschema) : Prop := {
  sc_cols : Forall (fun c => In (ckey c, cty c, true) (s_wcols s) /\ 1 <= type_size (cty c)) (s_rcols s);
  sc_rag : Forall (fun c => In (ckey c, cty c) (s_wragged s) /\ 1 <= type_size (cty c)) (s_rragged s);
  sc_prop : match s_rprops s with [] => True | (k, ty) :: _ => In (k, ty, false) (s_wcols s) /\ type_size ty = 1 end;
  sc_nd1 : NoDup (map ckey (s_rcols s));
  sc_nd2 : NoDup (map ckey (s_rragged s));
  sc_ne : s_rcols s <> [] \/ s_rragged s <> [] }.

Lemma nodup_by_eqb (l : list (list Z)) :
  (fix go (l : list (list Z)) := match l with [] => true | x :: r => negb (existsb (zlist_eqb x) r) && go r end) l = true -> NoDup l.
Proof.
  induction l as [|x r IH]; intros H; [constructor|]. apply andb_true_iff in H as [H1 H2]. constructor; auto.
  intros Hin. apply negb_true_iff in H1. assert (existsb (zlist_eqb x) r = true); [|congruence].
  apply existsb_exists. exists x. split; auto. apply zlist_eqb_refl.
Qed.

Definition nodupb := fix go (l : list (list Z)) := match l with [] => true | x :: r => negb (existsb (zlist_eqb x) r) && go r end.

Definition schema_okb (s : tschema) : bool :=
  forallb (fun c => existsb (fun w : list Z * Z * bool => zlist_eqb (ckey c) (fst (fst w)) && (cty c =? snd (fst w)) && snd w) (s_wcols s)
                    && (1 <=? type_size (cty c))) (s_rcols s)
  && forallb (fun c => existsb (fun w : list Z * Z => zlist_eqb (ckey c) (fst w) && (cty c =? snd w)) (s_wragged s)
                       && (1 <=? type_size (cty c))) (s_rragged s)
  && match s_rprops s with
     | [] => true
     | (k, ty) :: _ => existsb (fun w : list Z * Z * bool => zlist_eqb k (fst (fst w)) && (ty =? snd (fst w)) && negb (snd w)) (s_wcols s)
                       && (type_size ty =? 1)
     end
  && nodupb (map ckey (s_rcols s)) && nodupb (map ckey (s_rragged s))
  && negb (match s_rcols s, s_rragged s with [], [] => true | _, _ => false end).

Lemma schema_okb_ok s : schema_okb s = true -> schema_ok s.
Proof.
  unfold schema_okb. rewrite !andb_true_iff. intros (((((H1 & H2) & H3) & H4) & H5) & H6).
  constructor.
  - apply Forall_forall. intros c Hc. rewrite forallb_forall in H1. specialize (H1 c Hc).
    apply andb_true_iff in H1 as [E L]. apply existsb_exists in E as ([[k ty] b] & Hin & E). cbn [fst snd] in E.
    apply andb_true_iff in E as [E Eb]. apply andb_true_iff in E as [Ek Et].
    apply zlist_eqb_eq in Ek. apply Z.eqb_eq in Et. subst. split; [exact Hin | apply Z.leb_le; exact L].
  - apply Forall_forall. intros c Hc. rewrite forallb_forall in H2. specialize (H2 c Hc).
    apply andb_true_iff in H2 as [E L]. apply existsb_exists in E as ([k ty] & Hin & E). cbn [fst snd] in E.
    apply andb_true_iff in E as [Ek Et]. apply zlist_eqb_eq in Ek. apply Z.eqb_eq in Et. subst.
    split; [exact Hin | apply Z.leb_le; exact L].
  - destruct (s_rprops s) as [|[k ty] r]; [exact I|]. apply andb_true_iff in H3 as [E S1].
    apply existsb_exists in E as ([[k' ty'] b] & Hin & E). cbn [fst snd] in E.
    apply andb_true_iff in E as [E Eb]. apply andb_true_iff in E as [Ek Et].
    apply zlist_eqb_eq in Ek. apply Z.eqb_eq in Et. apply negb_true_iff in Eb. subst.
    split; [exact Hin | apply Z.eqb_eq; exact S1].
  - apply nodup_by_eqb. exact H4.
  - apply nodup_by_eqb. exact H5.
  - apply negb_true_iff in H6. destruct (s_rcols s); [|left; discriminate]. destruct (s_rragged s); [discriminate | right; discriminate].
Qed.

Lemma all_schemas_ok : Forall schema_ok tsk_table_schemas.
Proof. apply Forall_forall. intros s Hs. apply schema_okb_ok. revert s Hs. apply forallb_forall. vm_compute. reflexivity. Qed.

Lemma Forall2_nth_intro {A B} (P : A -> B -> Prop) : forall l1 l2, length l1 = length l2 ->
  (forall j a b, nth_error l1 j = Some a -> nth_error l2 j = Some b -> P a b) -> Forall2 P l1 l2.
Proof.
  induction l1 as [|a l1 IH]; intros [|b l2] Hl H; try discriminate; constructor.
  - apply (H 0%nat); reflexivity.
  - apply IH; [cbn in Hl; lia|]. intros j x y Hx Hy. apply (H (S j)); assumption.
Qed.

Lemma in_combine_nth {A B} : forall (l1 : list A) (l2 : list B) j a b,
  nth_error l1 j = Some a -> nth_error l2 j = Some b -> In (a, b) (combine l1 l2).
Proof.
  induction l1 as [|x l1 IH]; intros [|y l2] [|j] a b H1 H2; try discriminate; cbn in *.
  - inversion H1; inversion H2; subst. auto.
  - right. eapply IH; eauto.
Qed.

Lemma in_dump_col s t j k ty opt c : schema_ok s ->
  nth_error (s_rcols s) j = Some (k, ty, opt) -> nth_error (t_cols t) j = Some c ->
  In (mk_col_item k ty c) (dump_table s t).
Proof.
  intros Hs Hk Hc. unfold dump_table. apply in_or_app. left. apply in_flat_map.
  exists (k, ty, true). split.
  - pose proof (sc_cols s Hs) as H. rewrite Forall_forall in H. apply (H (k, ty, opt)). eapply nth_error_In; eauto.
  - rewrite (assoc_key_combine (map (fun c0 : list Z * Z * bool => fst (fst c0)) (s_rcols s)) (t_cols t) j k c).
    + left. reflexivity.
    + exact (sc_nd1 s Hs).
    + rewrite nth_error_map, Hk. reflexivity.
    + exact Hc.
Qed.

Lemma in_dump_rag s t j k ty opt d offs : schema_ok s ->
  nth_error (s_rragged s) j = Some (k, ty, opt) -> nth_error (t_ragged t) j = Some (d, offs) ->
  In (mk_col_item k ty d) (dump_table s t) /\ In (offset_item k offs) (dump_table s t).
Proof.
  intros Hs Hk Hc. unfold dump_table.
  assert (Hin : In (k, ty) (s_wragged s)).
  { pose proof (sc_rag s Hs) as H. rewrite Forall_forall in H. apply (H (k, ty, opt)). eapply nth_error_In; eauto. }
  assert (Ha : assoc_key k (combine (map (fun c0 : list Z * Z * bool => fst (fst c0)) (s_rragged s)) (t_ragged t)) = Some (d, offs)).
  { apply (assoc_key_combine _ _ j); [exact (sc_nd2 s Hs) | rewrite nth_error_map, Hk; reflexivity | exact Hc]. }
  split; apply in_or_app; right; apply in_flat_map; exists (k, ty); (split; [exact Hin|]); rewrite Ha; cbn; auto.
Qed.

Lemma in_dump_prop s t k ty r : schema_ok s -> s_rprops s = (k, ty) :: r ->
  In (mk_col_item k ty (t_schema t)) (dump_table s t).
Proof.
  intros Hs Hp. pose proof (sc_prop s Hs) as H. rewrite Hp in H. destruct H as [H _].
  unfold dump_table. apply in_or_app. left. apply in_flat_map. exists (k, ty, false). split; [exact H | left; reflexivity].
Qed.

Lemma in_tsk_dump_table tc j s t x :
  nth_error tsk_table_schemas j = Some s -> nth_error (tc_tables tc) j = Some t ->
  In x (dump_table s t) -> In x (tsk_dump tc).
Proof.
  intros Hs Ht Hx. unfold tsk_dump. apply in_or_app. right. apply in_or_app. left.
  apply in_concat. exists (dump_table s t). split; [|exact Hx].
  apply in_map_iff. exists (s, t). split; [reflexivity|]. eapply in_combine_nth; eauto.
Qed.

(* well-formed collections: the table invariant of C13 (equal column lengths; offsets start at 0,
   are non-decreasing and end at the data length), a positive sequence length of 8 bytes, a
   36-byte uuid, index arrays of one entry per edge *)
Definition wf_table_rt (s : tschema) (t : table) : Prop :=
  0 <= t_n t < UNSET
  /\ Forall2 (fun c v => zlen v = t_n t * type_size (cty c)) (s_rcols s) (t_cols t)
  /\ Forall2 (fun c r => wf_offs (t_n t) (snd r) /\ zlen (fst r) = last (snd r) 0 * type_size (cty c)) (s_rragged s) (t_ragged t)
  /\ (s_rprops s = [] -> t_schema t = []).

Definition wf_tc (tc : tcoll) : Prop :=
  zlen (tc_L tc) = 8 /\ double_not_positive (tc_L tc) = false /\ zlen (tc_uuid tc) = tsk_uuid_size
  /\ Forall2 wf_table_rt tsk_table_schemas (tc_tables tc)
  /\ match tc_index tc with
     | Some (i, r) => let ne := t_n (nth edges_index (tc_tables tc) (mk_table 0 [] [] [])) in
                      zlen i = ne * type_size ix_ty /\ zlen r = ne * type_size ix_ty
     | None => True
     end.

Lemma mk_col_item_fields k ty d : ikey (mk_col_item k ty d) = k /\ itype (mk_col_item k ty d) = ty
  /\ ilen (mk_col_item k ty d) = zlen d / type_size ty /\ idata (mk_col_item k ty d) = d.
Proof. repeat split. Qed.

Lemma answers_col rs its k ty d len :
  (forall it, In it its -> answers rs (ikey it) (itype it) (ilen it) (idata it)) ->
  In (mk_col_item k ty d) its -> zlen d / type_size ty = len -> answers rs k ty len d.
Proof. intros H Hin <-. exact (H _ Hin). Qed.

Lemma table_answers_of_dump rs tc j s t :
  (forall it, In it (tsk_dump tc) -> answers rs (ikey it) (itype it) (ilen it) (idata it)) ->
  schema_ok s -> nth_error tsk_table_schemas j = Some s -> nth_error (tc_tables tc) j = Some t ->
  wf_table_rt s t -> table_answers rs (t_n t) s t.
Proof.
  intros Hans Hs Hsj Htj (Hn & Hc & Hr & Hp). unfold table_answers. split; [reflexivity|]. split; [|split; [|split]].
  - apply Forall2_nth_intro; [eapply Forall2_len; eauto|].
    intros i [[k ty] opt] c Hk Hcv.
    pose proof (sc_cols s Hs) as Hsc. rewrite Forall_forall in Hsc. destruct (Hsc _ (nth_error_In _ _ Hk)) as [_ Hsz].
    assert (Hz : zlen c = t_n t * type_size ty).
    { clear -Hc Hk Hcv. revert i Hk Hcv. induction Hc as [|? ? ? ? Hx ? IH]; intros [|i] Hk Hcv; try discriminate; cbn in *.
      - inversion Hk; inversion Hcv; subst. exact Hx.
      - eapply IH; eauto. }
    unfold ckey, cty in *. cbn [fst snd] in *.
    eapply answers_col; [exact Hans | eapply in_tsk_dump_table; eauto; eapply in_dump_col; eauto |].
    rewrite Hz. apply Z.div_mul. lia.
  - apply Forall2_nth_intro; [eapply Forall2_len; eauto|].
    intros i [[k ty] opt] [d offs] Hk Hcv.
    pose proof (sc_rag s Hs) as Hsc. rewrite Forall_forall in Hsc. destruct (Hsc _ (nth_error_In _ _ Hk)) as [_ Hsz].
    assert (Hz : wf_offs (t_n t) offs /\ zlen d = last offs 0 * type_size ty).
    { clear -Hr Hk Hcv. revert i Hk Hcv. induction Hr as [|? ? ? ? Hx ? IH]; intros [|i] Hk Hcv; try discriminate; cbn in *.
      - inversion Hk; inversion Hcv; subst. exact Hx.
      - eapply IH; eauto. }
    destruct Hz as [Hw Hz]. destruct (in_dump_rag s t i k ty opt d offs Hs Hk Hcv) as [I1 I2].
    unfold rag_answers, ckey, cty in *. cbn [fst snd] in *. split; [|split; [|exact Hw]].
    + eapply answers_col; [exact Hans | eapply in_tsk_dump_table; eauto |]. rewrite Hz. apply Z.div_mul. lia.
    + pose proof (Hans _ (in_tsk_dump_table tc j s t _ Hsj Htj I2)) as Ha. unfold offset_item in Ha. cbn [ikey itype ilen idata] in Ha.
      destruct Hw as (Hzl & _). rewrite Hzl in Ha. exact Ha.
  - destruct (s_rprops s) as [|[k ty] r] eqn:Ep; [apply Hp; reflexivity|].
    pose proof (sc_prop s Hs) as Hsp. rewrite Ep in Hsp. destruct Hsp as [_ Hs1].
    eapply answers_col; [exact Hans | eapply in_tsk_dump_table; eauto; eapply in_dump_prop; eauto |].
    rewrite Hs1. apply Z.div_1_r.
  - exact (sc_ne s Hs).
Qed.

(* ---- which keys tsk_dump can contain (for the absent optional groups) ---- *)
Definition table_keys (s : tschema) : list (list Z) :=
  map (fun w : list Z * Z * bool => fst (fst w)) (s_wcols s)
  ++ flat_map (fun w : list Z * Z => [fst w; fst w ++ offset_suffix]) (s_wragged s).
Definition base_keys : list (list Z) := map fst tsk_format_cols ++ flat_map table_keys tsk_table_schemas.

Lemma dump_table_keys s t x : In x (dump_table s t) -> In (ikey x) (table_keys s).
Proof.
  unfold dump_table, table_keys. intros H. apply in_app_or in H as [H|H]; apply in_or_app.
  - left. apply in_flat_map in H as ([[k ty] pr] & Hw & Hx). apply in_map_iff. exists (k, ty, pr). split; [|exact Hw].
    destruct pr.
    + destruct (assoc_key k _); [|contradiction]. destruct Hx as [<-|[]]. reflexivity.
    + destruct Hx as [<-|[]]. reflexivity.
  - right. apply in_flat_map in H as ([k ty] & Hw & Hx). apply in_flat_map. exists (k, ty). split; [exact Hw|].
    destruct (assoc_key k _) as [[d o]|]; [|contradiction]. destruct Hx as [<-|[<-|[]]]; cbn; auto.
Qed.

Lemma tsk_dump_keys tc x : In x (tsk_dump tc) ->
  In (ikey x) base_keys
  \/ (tc_index tc <> None /\ In (ikey x) [ix_key 0; ix_key 1])
  \/ (tc_refseq (tc_normalise tc) <> None /\ In (ikey x) (map fst tsk_refseq_cols)).
Proof.
  unfold tsk_dump. intros H. apply in_app_or in H as [H|H].
  - left. unfold base_keys. apply in_or_app. left.
    cbn [In] in H. repeat (destruct H as [<-|H]; [cbn; auto 10|]). contradiction.
  - apply in_app_or in H as [H|H].
    + left. unfold base_keys. apply in_or_app. right. apply in_concat in H as (l & Hl & Hx).
      apply in_map_iff in Hl as ([s t] & <- & Hst). apply in_flat_map. exists s. split; [eapply in_combine_l; eauto|].
      eapply dump_table_keys; eauto.
    + apply in_app_or in H as [H|H].
      * right. left. destruct (tc_index tc) as [[i r]|]; [|contradiction]. split; [discriminate|].
        destruct H as [<-|[<-|[]]]; cbn; auto.
      * right. right. unfold tc_normalise. cbn [tc_refseq]. destruct (tc_refseq tc) as [[[[d u] m] sc]|]; [|contradiction].
        destruct (refseq_is_null (d, u, m, sc)); [contradiction|]. split; [discriminate|].
        cbn in H. repeat (destruct H as [<-|H]; [cbn; auto 10|]). contradiction.
Qed.

Lemma optional_keys_fresh :
  forallb (fun k => negb (existsb (zlist_eqb k) base_keys)) ([ix_key 0; ix_key 1] ++ map fst tsk_refseq_cols) = true
  /\ forallb (fun k => negb (existsb (zlist_eqb k) (map fst tsk_refseq_cols))) [ix_key 0; ix_key 1] = true.
Proof. split; vm_compute; reflexivity. Qed.

Lemma not_in_by_eqb k l : negb (existsb (zlist_eqb k) l) = true -> ~ In k l.
Proof.
  intros H Hin. apply negb_true_iff in H. assert (existsb (zlist_eqb k) l = true); [|congruence].
  apply existsb_exists. exists k. split; auto. apply zlist_eqb_refl.
Qed.

Lemma absent_key tc rs k :
  (forall k, ~ In k (map ikey (tsk_dump tc)) -> absent rs k) ->
  ~ In k base_keys ->
  (tc_index tc <> None -> ~ In k [ix_key 0; ix_key 1]) ->
  (tc_refseq (tc_normalise tc) <> None -> ~ In k (map fst tsk_refseq_cols)) ->
  absent rs k.
Proof.
  intros Habs H1 H2 H3. apply Habs. intros Hin. apply in_map_iff in Hin as (x & <- & Hx).
  destruct (tsk_dump_keys tc x Hx) as [H|[[Hn H]|[Hn H]]]; [exact (H1 H) | exact (H2 Hn H) | exact (H3 Hn H)].
Qed.

Lemma store_answers_of_dump tc rs :
  wf_tc tc ->
  (forall it, In it (tsk_dump tc) -> answers rs (ikey it) (itype it) (ilen it) (idata it)) ->
  (forall k, ~ In k (map ikey (tsk_dump tc)) -> absent rs k) ->
  store_answers rs tc.
Proof.
  intros (HL & _ & Hu & Ht & Hi) Hans Habs.
  destruct optional_keys_fresh as [Hf1 Hf2]. rewrite forallb_forall in Hf1, Hf2.
  assert (Hfmt : forall i x len, (i < 7)%nat ->
            In (mk_col_item (fmt_key i) (fmt_ty i) x) (tsk_dump tc) -> zlen x / type_size (fmt_ty i) = len ->
            answers rs (fmt_key i) (fmt_ty i) len x).
  { intros i x len _ Hin Hl. eapply answers_col; eauto. }
  unfold store_answers. repeat split.
  - apply (Hfmt 0%nat); [lia | unfold tsk_dump; apply in_or_app; left; cbn [In]; auto 10 | reflexivity].
  - apply (Hfmt 1%nat); [lia | unfold tsk_dump; apply in_or_app; left; cbn [In]; auto 10 | reflexivity].
  - apply (Hfmt 2%nat); [lia | unfold tsk_dump; apply in_or_app; left; cbn [In]; auto 10 | rewrite HL; reflexivity].
  - apply (Hfmt 3%nat); [lia | unfold tsk_dump; apply in_or_app; left; cbn [In]; auto 10 | rewrite Hu; reflexivity].
  - apply (Hfmt 4%nat); [lia | unfold tsk_dump; apply in_or_app; left; cbn [In]; auto 10 | apply Z.div_1_r].
  - apply (Hfmt 5%nat); [lia | unfold tsk_dump; apply in_or_app; left; cbn [In]; auto 10 | apply Z.div_1_r].
  - apply (Hfmt 6%nat); [lia | unfold tsk_dump; apply in_or_app; left; cbn [In]; auto 10 | apply Z.div_1_r].
  - apply Forall2_nth_intro; [eapply Forall2_len; eauto|].
    intros j s t Hs Htj.
    assert (Hw : wf_table_rt s t).
    { clear -Ht Hs Htj. revert j Hs Htj. induction Ht as [|? ? ? ? Hx ? IH]; intros [|j] Hs Htj; try discriminate; cbn in *.
      - inversion Hs; inversion Htj; subst. exact Hx.
      - eapply IH; eauto. }
    split; [destruct Hw as [Hn _]; exact Hn|].
    pose proof all_schemas_ok as Hall. rewrite Forall_forall in Hall.
    eapply table_answers_of_dump; eauto. apply Hall. eapply nth_error_In; eauto.
  - cbv zeta. destruct (tc_index tc) as [[i r]|] eqn:Ei.
    + cbv zeta in Hi. destruct Hi as [Hi1 Hi2].
      assert (Hin : forall x, In x [mk_col_item (ix_key 0) ix_ty i; mk_col_item (ix_key 1) ix_ty r] -> In x (tsk_dump tc)).
      { intros x Hx. unfold tsk_dump. apply in_or_app. right. apply in_or_app. right. apply in_or_app. left. rewrite Ei. exact Hx. }
      split; (eapply answers_col; [exact Hans | apply Hin; cbn; auto |]).
      * rewrite Hi1. apply Z.div_mul. vm_compute. discriminate.
      * rewrite Hi2. apply Z.div_mul. vm_compute. discriminate.
    + split; apply (absent_key tc rs _ Habs).
      all: try (apply not_in_by_eqb; apply negb_true_iff; apply negb_true_iff; apply Hf1; cbn; auto 10).
      all: try (intros Hc; congruence).
      all: intros _; apply not_in_by_eqb; apply Hf2; cbn; auto.
  - destruct (tc_refseq (tc_normalise tc)) as [[[[d u] m] sc]|] eqn:Er.
    + assert (Hin : forall x, In x (map (fun p : list Z * Z * list Z => mk_col_item (fst (fst p)) (snd (fst p)) (snd p))
                                          (combine tsk_refseq_cols [d; u; m; sc])) -> In x (tsk_dump tc)).
      { intros x Hx. unfold tsk_dump. apply in_or_app. right. apply in_or_app. right. apply in_or_app. right.
        unfold tc_normalise in Er. cbn [tc_refseq] in Er. destruct (tc_refseq tc) as [r0|]; [|discriminate].
        destruct (refseq_is_null r0) eqn:En; [discriminate|]. inversion Er; subst. rewrite En. exact Hx. }
      repeat split; (eapply answers_col; [exact Hans | apply Hin; cbn; auto 10 | apply Z.div_1_r]).
    + repeat split; apply (absent_key tc rs _ Habs).
      all: try (apply not_in_by_eqb; apply Hf1; cbn; auto 10).
      all: try (intros Hc; congruence).
      all: intros Hc; apply not_in_by_eqb; vm_compute; reflexivity.
Qed.

(* (d) THE round trip of a table collection through dump and load: every column byte, every
   offset, schema, metadata, time units, sequence length, uuid, index and reference sequence come
   back (the null reference sequence normalised), and the stream is left at the end of the object.
   Hypotheses: the table invariant [wf_tc]; the dumped items are what kastore_put accepts and fit
   below 2^64 bytes ([enc_ok], a size/typing condition); the schema keys are distinct. *)
Theorem tc_roundtrip tc rest :
  wf_tc tc -> enc_ok (tsk_dump tc) -> NoDup (map ikey (tsk_dump tc)) ->
  tsk_load_bytes false false (tsk_dump_bytes tc ++ rest) = Ok (tc_normalise tc, rest).
Proof.
  intros Hwf (H1 & H2 & H3) Hnd.
  destruct (kas_lookup_after_roundtrip (tsk_dump tc) rest [] H1 H2 H3 Hnd) as (rs & Hopen & _).
  destruct (answers_of_member (tsk_dump tc) rest rs H1 H2 H3 Hnd Hopen) as [Hans Habs].
  unfold tsk_dump_bytes.
  eapply tsk_load_of_answers; [exact Hopen | apply store_answers_of_dump; auto | |].
  - destruct Hwf as (_ & HL & _). exact HL.
  - destruct Hwf as (_ & _ & _ & Ht & _).
    assert (Hlen : length (tc_tables tc) = 8%nat) by (rewrite <- (Forall2_len _ _ _ Ht); reflexivity).
    destruct (nth_error (tc_tables tc) edges_index) as [t|] eqn:E.
    + rewrite (nth_error_nth _ _ _ E).
      clear -Ht E. set (j := edges_index) in *. clearbody j. revert j E.
      induction Ht as [|? ? ? ? Hx ? IH]; intros [|j] E; try discriminate; cbn in *.
      * inversion E; subst. destruct Hx as [Hn _]. exact Hn.
      * eapply IH; eauto.
    + apply nth_error_None in E. unfold edges_index in E. lia.
Qed.

(* non-vacuity: the one-node collection with a reference sequence of StreamProofs.tc_ex *)
Example tc_roundtrip_nonvacuous :
  wf_tc tc_ex /\ enc_ok (tsk_dump tc_ex) /\ NoDup (map ikey (tsk_dump tc_ex)).
Proof.
  split; [|split; [apply enc_okb_ok; vm_compute; reflexivity | apply nodup_by_eqb; vm_compute; reflexivity]].
  unfold wf_tc. split; [reflexivity|]. split; [vm_compute; reflexivity|]. split; [reflexivity|]. split; [|exact I].
  unfold tc_ex. cbn [tc_tables].
  let x := eval vm_compute in (map empty_table (tl tsk_table_schemas)) in change (map empty_table (tl tsk_table_schemas)) with x.
  let y := eval vm_compute in tsk_table_schemas in change tsk_table_schemas with y.
  repeat (constructor; [unfold wf_table_rt; cbn [t_n t_cols t_ragged t_schema];
                        split; [rewrite unset_val; lia|]; split; [repeat constructor|];
                        split; [repeat (constructor; [split; [unfold wf_offs; cbn; repeat split; try lia; repeat constructor; lia | reflexivity]|]); constructor|];
                        first [reflexivity | intros; reflexivity | discriminate]|]).
  constructor.
Qed.
