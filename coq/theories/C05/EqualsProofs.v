(* C05: the equality functions decide byte-equality of exactly the non-ignored components
   ([equals_spec]), for well-formed collections (every column has num_rows entries, every offset
   column num_rows + 1 entries ending at the length of its data column). *)
From Coq Require Import List ZArith Bool Lia.
From TskVerif Require Import Base.Common Gen.Generated C05.Bytes C05.Kastore C05.KastoreProofs C05.TskFile C05.Equals.
Import ListNotations.
Open Scope Z_scope.

Lemma firstn_zlen {A} (l : list A) len : zlen l = len -> firstn (Z.to_nat len) l = l.
Proof. intros <-. unfold zlen. rewrite Nat2Z.id. apply firstn_all. Qed.

Lemma memcmp_full a b len : zlen a = len -> zlen b = len -> (memcmp_eq Z.eqb a b len = true <-> a = b).
Proof.
  intros Ha Hb. unfold memcmp_eq. rewrite (firstn_zlen a len Ha), (firstn_zlen b len Hb).
  apply list_eqb_eq. intros; apply Z.eqb_eq.
Qed.

Lemma string_equal_eq a b : string_equal a b = true <-> a = b.
Proof.
  unfold string_equal. rewrite andb_true_iff, Z.eqb_eq. split.
  - intros [Hl H]. apply (memcmp_full a b (zlen a)); auto.
  - intros ->. split; auto. apply (memcmp_full b b (zlen b)); auto.
Qed.

Definition wf_ragged (n sz : Z) (r : list Z * list Z) : Prop :=
  zlen (snd r) = n + 1 /\ zlen (fst r) = last (snd r) 0 * sz.

Definition wf_table (s : tschema) (t : table) : Prop :=
  Forall2 (fun sz c => zlen c = t_n t * sz) (col_sizes s) (t_cols t)
  /\ Forall2 (wf_ragged (t_n t)) (rag_sizes s) (t_ragged t).

Lemma cols_equal_eq n sizes : forall a b,
  Forall2 (fun sz c => zlen c = n * sz) sizes a -> Forall2 (fun sz c => zlen c = n * sz) sizes b ->
  (cols_equal n sizes a b = true <-> a = b).
Proof.
  induction sizes as [|sz ss IH]; intros a b Ha Hb; inversion Ha; inversion Hb; subst; cbn [cols_equal].
  - split; auto.
  - rewrite andb_true_iff, (memcmp_full _ _ (n * sz)), IH by auto. split; [intros [-> ->]; auto | intros E; inversion E; auto].
Qed.

Lemma ragged_equal_eq cl n sz x y : wf_ragged n sz x -> wf_ragged n sz y ->
  (ragged_equal cl n sz x y = true <-> x = y).
Proof.
  intros [Hx1 Hx2] [Hy1 Hy2]. unfold ragged_equal. split.
  - rewrite !andb_true_iff. intros [[_ Ho] Hd].
    apply (memcmp_full _ _ (n + 1)) in Ho; auto.
    assert (Hl : zlen (fst y) = zlen (fst x)) by (rewrite Hx2, Hy2, Ho; reflexivity).
    apply (memcmp_full _ _ (zlen (fst x))) in Hd; auto.
    destruct x, y; cbn in *; congruence.
  - intros ->. rewrite !andb_true_iff. repeat split.
    + destruct cl; auto. apply Z.eqb_refl.
    + apply (memcmp_full _ _ (n + 1)); auto.
    + apply (memcmp_full _ _ (zlen (fst y))); auto.
Qed.

Lemma raggeds_equal_eq cl n sizes : forall a b,
  Forall2 (wf_ragged n) sizes a -> Forall2 (wf_ragged n) sizes b ->
  (raggeds_equal cl n sizes a b = true <-> a = b).
Proof.
  induction sizes as [|sz ss IH]; intros a b Ha Hb; inversion Ha; inversion Hb; subst; cbn [raggeds_equal].
  - split; auto.
  - rewrite andb_true_iff, ragged_equal_eq, IH by auto. split; [intros [-> ->]; auto | intros E; inversion E; auto].
Qed.

Lemma Forall2_removelast {A B} (P : A -> B -> Prop) : forall l1 l2,
  Forall2 P l1 l2 -> Forall2 P (removelast l1) (removelast l2).
Proof.
  induction 1 as [|x y l1 l2 Hxy H IH]; [constructor|].
  cbn [removelast]. destruct H; [constructor|]. constructor; auto.
Qed.

Lemma Forall2_last {A B} (P : A -> B -> Prop) da db : forall l1 l2,
  Forall2 P l1 l2 -> l1 <> [] -> P (last l1 da) (last l2 db).
Proof.
  induction 1 as [|x y l1 l2 Hxy H IH]; intros Hne; [congruence|].
  destruct H; [exact Hxy|]. apply IH. discriminate.
Qed.

Lemma Forall2_nth_default {A B} (P : A -> B -> Prop) k da db : forall l1 l2,
  Forall2 P l1 l2 -> (k < length l1)%nat -> P (nth k l1 da) (nth k l2 db).
Proof.
  induction k as [|k IH]; intros l1 l2 H Hk; destruct H; cbn in *; try lia; auto. apply IH; auto. lia.
Qed.

(* what the comparison of two tables means *)
Definition table_core_eq (a b : table) : Prop :=
  t_n a = t_n b /\ t_cols a = t_cols b /\ removelast (t_ragged a) = removelast (t_ragged b).
Definition table_md_eq (a b : table) : Prop :=
  last (t_ragged a) ([], []) = last (t_ragged b) ([], []) /\ t_schema a = t_schema b.

Lemma std_table_equals_spec cl ign s a b :
  wf_table s a -> wf_table s b -> s_rragged s <> [] -> last (rag_sizes s) 1 = 1 ->
  (std_table_equals cl ign s a b = true <-> table_core_eq a b /\ (ign = true \/ table_md_eq a b)).
Proof.
  intros [Ha1 Ha2] [Hb1 Hb2] Hne Hmd. unfold std_table_equals, table_core_eq, table_md_eq.
  destruct (t_n a =? t_n b) eqn:En.
  2:{ apply Z.eqb_neq in En. cbn. split; [discriminate | intros [[H _] _]; congruence]. }
  apply Z.eqb_eq in En. rewrite <- En in Hb1, Hb2. cbn [andb].
  assert (Hrne : rag_sizes s <> []) by (unfold rag_sizes; destruct (s_rragged s); [congruence | discriminate]).
  pose proof (Forall2_last _ 1 ([], []) _ _ Ha2 Hrne) as Hla. pose proof (Forall2_last _ 1 ([], []) _ _ Hb2 Hrne) as Hlb.
  rewrite Hmd in Hla, Hlb.
  rewrite !andb_true_iff, orb_true_iff, !andb_true_iff.
  rewrite (cols_equal_eq _ _ _ _ Ha1 Hb1).
  rewrite (raggeds_equal_eq cl _ _ _ _ (Forall2_removelast _ _ _ Ha2) (Forall2_removelast _ _ _ Hb2)).
  rewrite (ragged_equal_eq true _ 1 _ _ Hla Hlb).
  rewrite Z.eqb_eq.
  split.
  - intros [[Hc Hr] Hm]. split; [auto|]. destruct Hm as [Hm|[[Hm1 Hm2] Hm3]]; [left; auto | right].
    split; auto. apply (memcmp_full _ _ (zlen (t_schema a))); auto.
  - intros [(_ & Hc & Hr) Hm]. split; [auto|]. destruct Hm as [Hm|[Hm1 Hm2]]; [left; auto | right].
    repeat split; auto; rewrite Hm2; auto. apply (memcmp_full _ _ (zlen (t_schema b))); auto.
Qed.

Definition prov_spec (ign_ts : bool) (a b : table) : Prop :=
  t_n a = t_n b /\ nth 1 (t_ragged a) ([], []) = nth 1 (t_ragged b) ([], [])
  /\ (ign_ts = true \/ nth 0 (t_ragged a) ([], []) = nth 0 (t_ragged b) ([], [])).

Lemma provenance_equals_spec ign_ts a b :
  Forall2 (wf_ragged (t_n a)) [1; 1] (t_ragged a) -> Forall2 (wf_ragged (t_n b)) [1; 1] (t_ragged b) ->
  (provenance_equals ign_ts a b = true <-> prov_spec ign_ts a b).
Proof.
  intros Ha Hb. unfold provenance_equals, prov_spec.
  destruct (t_n a =? t_n b) eqn:En.
  2:{ apply Z.eqb_neq in En. cbn. split; [discriminate | intros [H _]; congruence]. }
  apply Z.eqb_eq in En. rewrite <- En in Hb. cbn [andb].
  inversion Ha as [|? x0 ? ra H0 Ha']; subst. inversion Ha' as [|? x1 ? ? H1 Ha'']; subst. inversion Ha''; subst.
  inversion Hb as [|? y0 ? rb G0 Hb']; subst. inversion Hb' as [|? y1 ? ? G1 Hb'']; subst. inversion Hb''; subst.
  cbn [nth]. rewrite andb_true_iff, orb_true_iff.
  rewrite (ragged_equal_eq true _ 1 _ _ H1 G1), (ragged_equal_eq true _ 1 _ _ H0 G0). tauto.
Qed.

(* the collection level *)
Definition wf_tcoll (tc : tcoll) : Prop :=
  Forall2 wf_table tsk_table_schemas (tc_tables tc).

Definition refseq_spec (ign_md : bool) (a b : option (list Z * list Z * list Z * list Z)) : Prop :=
  match refseq_val a, refseq_val b with
  | (d1, u1, m1, s1), (d2, u2, m2, s2) => d1 = d2 /\ u1 = u2 /\ (ign_md = true \/ (m1 = m2 /\ s1 = s2))
  end.

Fixpoint std_tables_spec (ign_md : bool) (i : nat) (a b : list table) : Prop :=
  match a, b with
  | [], [] => True
  | x :: a', y :: b' =>
    (if Nat.eqb i 7 then True else table_core_eq x y /\ (ign_md = true \/ table_md_eq x y))
    /\ std_tables_spec ign_md (S i) a' b'
  | _, _ => False
  end.

(* equal = every component that is not ignored is byte-equal (sequence lengths equal as doubles) *)
Definition equals_meaning (o : cmp_opts) (a b : tcoll) : Prop :=
  double_eqb (tc_L a) (tc_L b) = true /\ tc_time_units a = tc_time_units b
  /\ (ign_tables o = true \/
      (std_tables_spec (ign_metadata o) 0 (tc_tables a) (tc_tables b)
       /\ (ign_provenance o = true \/
           prov_spec (ign_timestamps o) (nth 7 (tc_tables a) (mk_table 0 [] [] [])) (nth 7 (tc_tables b) (mk_table 0 [] [] [])))))
  /\ (ign_metadata o = true \/ ign_ts_metadata o = true \/
      (tc_metadata a = tc_metadata b /\ tc_metadata_schema a = tc_metadata_schema b))
  /\ (ign_refseq o = true \/ refseq_spec (ign_metadata o) (tc_refseq a) (tc_refseq b)).

Lemma refseq_equals_spec ign a b : refseq_equals ign a b = true <-> refseq_spec ign a b.
Proof.
  unfold refseq_equals, refseq_spec. destruct (refseq_val a) as [[[d1 u1] m1] s1], (refseq_val b) as [[[d2 u2] m2] s2].
  rewrite !andb_true_iff, orb_true_iff, andb_true_iff, !string_equal_eq. tauto.
Qed.

Lemma std_tables_equal_spec ign : forall ss i a b,
  Forall2 wf_table ss a -> Forall2 wf_table ss b ->
  (forall k s, nth_error ss k = Some s -> (i + k <> 7)%nat -> s_rragged s <> [] /\ last (rag_sizes s) 1 = 1) ->
  (std_tables_equal ign i ss a b = true <-> std_tables_spec ign i a b).
Proof.
  induction ss as [|s ss IH]; intros i a b Ha Hb Hs; inversion Ha; inversion Hb; subst; cbn [std_tables_equal std_tables_spec].
  - tauto.
  - rewrite andb_true_iff. rewrite (IH (S i)); auto.
    2:{ intros k s' Hk Hne. apply (Hs (S k) s'); [exact Hk | lia]. }
    destruct (Nat.eqb i 7) eqn:E; [tauto|].
    apply Nat.eqb_neq in E. destruct (Hs 0%nat s eq_refl ltac:(lia)) as [Hq1 Hq2].
    rewrite std_table_equals_spec by auto. tauto.
Qed.

Lemma schema_shape_for_equals : forall k s, nth_error tsk_table_schemas k = Some s -> (0 + k <> 7)%nat ->
  s_rragged s <> [] /\ last (rag_sizes s) 1 = 1.
Proof.
  intros k s H Hk. do 7 (destruct k as [|k]; [inversion H; subst; split; [discriminate | reflexivity]|]).
  destruct k; [lia|]. destruct k; discriminate.
Qed.

Theorem equals_spec o a b : wf_tcoll a -> wf_tcoll b ->
  (tc_equals o a b = true <-> equals_meaning o a b).
Proof.
  intros Ha Hb. unfold tc_equals, equals_meaning, wf_tcoll in *.
  assert (Hpa : Forall2 (wf_ragged (t_n (nth 7 (tc_tables a) (mk_table 0 [] [] [])))) [1; 1]
                        (t_ragged (nth 7 (tc_tables a) (mk_table 0 [] [] [])))).
  { pose proof (Forall2_nth_default _ 7 (nth 7 tsk_table_schemas ([], [], [], [], [])) (mk_table 0 [] [] []) _ _ Ha
                  ltac:(vm_compute; lia)) as [_ H]. exact H. }
  assert (Hpb : Forall2 (wf_ragged (t_n (nth 7 (tc_tables b) (mk_table 0 [] [] [])))) [1; 1]
                        (t_ragged (nth 7 (tc_tables b) (mk_table 0 [] [] [])))).
  { pose proof (Forall2_nth_default _ 7 (nth 7 tsk_table_schemas ([], [], [], [], [])) (mk_table 0 [] [] []) _ _ Hb
                  ltac:(vm_compute; lia)) as [_ H]. exact H. }
  rewrite !andb_true_iff, !orb_true_iff, !andb_true_iff, !orb_true_iff.
  rewrite !string_equal_eq, refseq_equals_spec.
  rewrite (std_tables_equal_spec _ _ 0 _ _ Ha Hb schema_shape_for_equals).
  rewrite (provenance_equals_spec _ _ _ Hpa Hpb).
  tauto.
Qed.

(* non-vacuity: the one-node collection of StreamProofs.tc_ex and a copy whose node metadata differs *)
Definition tc_eq_a : tcoll :=
  mk_tcoll [0; 0; 0; 0; 0; 0; 240; 63] (repeat 48 36) [116; 105; 99; 107; 115] [0; 255] [123; 125]
    (mk_table 1 [[0; 0; 0; 0; 0; 0; 0; 64]; [1; 0; 0; 0]; [255; 255; 255; 255]; [255; 255; 255; 255]] [([0; 255], [0; 2])] []
       :: map empty_table (tl tsk_table_schemas))
    None (Some ([65; 67], [], [], [])).
Definition tc_eq_b : tcoll :=
  mk_tcoll [0; 0; 0; 0; 0; 0; 240; 63] (repeat 49 36) [116; 105; 99; 107; 115] [0; 255] [123; 125]
    (mk_table 1 [[0; 0; 0; 0; 0; 0; 0; 64]; [1; 0; 0; 0]; [255; 255; 255; 255]; [255; 255; 255; 255]] [([0; 254], [0; 2])] []
       :: map empty_table (tl tsk_table_schemas))
    None (Some ([65; 67], [], [], [])).

Example equals_spec_ex :
  wf_tcoll tc_eq_a /\ wf_tcoll tc_eq_b
  /\ tc_equals (mk_opts false false false false false false) tc_eq_a tc_eq_b = false
  /\ tc_equals (mk_opts true false false false false false) tc_eq_a tc_eq_b = true
  /\ tc_equals (mk_opts false false false false false false) tc_eq_a tc_eq_a = true.
Proof.
  split; [|split; [|vm_compute; repeat split; reflexivity]];
    unfold wf_tcoll; repeat (constructor; [split; repeat (constructor; [first [reflexivity | split; reflexivity]|]); constructor|]); constructor.
Qed.
