(* C05: proofs about the kastore model (C05/Kastore.v): the reader inverts the writer
   ([kas_write_open], [kas_roundtrip]), sorting by key is canonical for distinct keys, stream
   behaviour.  Unbounded statements over all item lists / byte lists. *)
From Coq Require Import List ZArith Bool Lia Permutation Sorted.
From TskVerif Require Import Base.Common Gen.Generated C05.Bytes C05.Kastore.
Import ListNotations.
Open Scope Z_scope.

(* ---- constants (checked against Gen/Generated.v by computation) ---- *)
Lemma hs64 : kas_header_size = 64. Proof. reflexivity. Qed.
Lemma ds64 : kas_item_descriptor_size = 64. Proof. reflexivity. Qed.
Lemma al8 : kas_array_align = 8. Proof. reflexivity. Qed.
Lemma nt10 : kas_num_types = 10. Proof. reflexivity. Qed.
Lemma magic_len : length kas_magic = 8%nat. Proof. reflexivity. Qed.
Lemma magic_no_nul : forallb (fun b => negb (b =? 0)) kas_magic = true. Proof. reflexivity. Qed.
Lemma major_range : 0 <= kas_file_version_major < 65536. Proof. unfold kas_file_version_major; lia. Qed.
Lemma minor_range : 0 <= kas_file_version_minor < 65536. Proof. unfold kas_file_version_minor; lia. Qed.

Lemma type_size_pos t : 0 <= t < kas_num_types -> 1 <= type_size t <= 8.
Proof.
  intros H. rewrite nt10 in H. unfold type_size.
  assert (t = 0 \/ t = 1 \/ t = 2 \/ t = 3 \/ t = 4 \/ t = 5 \/ t = 6 \/ t = 7 \/ t = 8 \/ t = 9) as C by lia.
  repeat (destruct C as [C|C]; [subst; simpl; lia|]). subst; simpl; lia.
Qed.

(* ---- align8 ---- *)
Lemma align8_spec o : 0 <= o -> o <= align8 o < o + 8 /\ align8 o mod 8 = 0.
Proof.
  intros Ho. unfold align8. rewrite al8.
  pose proof (Z.mod_pos_bound o 8 ltac:(lia)) as Hm.
  destruct (o mod 8 =? 0) eqn:E.
  - apply Z.eqb_eq in E. lia.
  - apply Z.eqb_neq in E. split; [lia|].
    rewrite (Z.div_mod o 8) at 1 by lia.
    replace (8 * (o / 8) + o mod 8 + (8 - o mod 8)) with ((o / 8 + 1) * 8) by lia.
    apply Z.mod_mul. lia.
Qed.

Lemma align8_aligned o : o mod 8 = 0 -> align8 o = o.
Proof. intros H. unfold align8. rewrite al8, H. reflexivity. Qed.

Lemma zeros_length n : length (zeros n) = Z.to_nat n.
Proof. unfold zeros. apply repeat_length. Qed.

(* ---- generic list facts ---- *)
Lemma zlist_eqb_refl l : zlist_eqb l l = true.
Proof. unfold zlist_eqb. apply list_eqb_eq; [intros; apply Z.eqb_eq | reflexivity]. Qed.

Lemma zlist_eqb_eq a b : zlist_eqb a b = true <-> a = b.
Proof. unfold zlist_eqb. apply list_eqb_eq. intros; apply Z.eqb_eq. Qed.

Lemma slice_at pre mid post off len :
  length pre = Z.to_nat off -> length mid = Z.to_nat len -> slice (pre ++ mid ++ post) off len = mid.
Proof.
  intros H1 H2. unfold slice. rewrite <- H1, <- H2.
  rewrite skipn_app, Nat.sub_diag, skipn_all. simpl.
  rewrite firstn_app, Nat.sub_diag, firstn_all, firstn_O, app_nil_r. reflexivity.
Qed.

Lemma slice_at0 mid post len : length mid = Z.to_nat len -> slice (mid ++ post) 0 len = mid.
Proof. intros H. apply (slice_at [] mid post 0 len); auto. Qed.

Lemma firstn_app_exact {A} (a b : list A) n : length a = n -> firstn n (a ++ b) = a.
Proof. intros <-. rewrite firstn_app, Nat.sub_diag, firstn_all, firstn_O, app_nil_r. reflexivity. Qed.

Lemma skipn_app_exact {A} (a b : list A) n : length a = n -> skipn n (a ++ b) = b.
Proof. intros <-. rewrite skipn_app, Nat.sub_diag, skipn_all. reflexivity. Qed.

Lemma take_exact n a b : zlen a = n -> take n (a ++ b) = Some (a, b).
Proof. intros <-. apply take_app. Qed.

(* ---- header ---- *)
Lemma header_length major minor n fs r : length r = 40%nat ->
  length (header_bytes major minor n fs r) = 64%nat.
Proof. intros H. unfold header_bytes. rewrite !app_length, !le_enc_length, magic_len, H. reflexivity. Qed.

Lemma header_nonempty major minor n fs r : header_bytes major minor n fs r <> [].
Proof. unfold header_bytes. destruct kas_magic eqn:E; [discriminate E|discriminate]. Qed.

Definition read_header_body (s : list Z) : res (Z * Z * list Z) :=
  match take kas_header_size s with
  | None => Err E_FORMAT
  | Some (h, rest) =>
    if negb (zlist_eqb (slice h 0 8) kas_magic) then Err E_FORMAT else
    let major := le_dec (slice h 8 2) in
    if major <? kas_file_version_major then Err E_TOO_OLD else
    if kas_file_version_major <? major then Err E_TOO_NEW else
    let n := le_dec (slice h 12 4) in
    let fs := le_dec (slice h 16 8) in
    if fs <? kas_header_size then Err E_FORMAT else Ok (n, fs, rest)
  end.

Lemma read_header_nonempty s : s <> [] -> read_header s = read_header_body s.
Proof. destruct s; [congruence | reflexivity]. Qed.

Lemma read_header_ok minor n fs r rest :
  length r = 40%nat -> 0 <= n < 4294967296 -> 64 <= fs < two64 ->
  read_header (header_bytes kas_file_version_major minor n fs r ++ rest) = Ok (n, fs, rest).
Proof.
  intros Hr Hn Hfs.
  rewrite read_header_nonempty.
  2:{ intros E. apply app_eq_nil in E as [E _]. eapply header_nonempty; eauto. }
  unfold read_header_body.
  set (h := header_bytes kas_file_version_major minor n fs r).
  assert (Hh : zlen h = 64) by (unfold zlen, h; rewrite header_length; auto).
  rewrite hs64, (take_exact 64 h rest Hh).
  unfold h, header_bytes.
  rewrite (slice_at0 kas_magic _ 8) by reflexivity.
  rewrite zlist_eqb_refl. cbn [negb].
  rewrite (slice_at kas_magic (le_enc 2 kas_file_version_major) (le_enc 2 minor ++ le_enc 4 n ++ le_enc 8 fs ++ r) 8 2)
    by (try apply le_enc_length; reflexivity).
  rewrite le16_roundtrip by apply major_range.
  rewrite Z.ltb_irrefl.
  replace (kas_magic ++ le_enc 2 kas_file_version_major ++ le_enc 2 minor ++ le_enc 4 n ++ le_enc 8 fs ++ r)
    with ((kas_magic ++ le_enc 2 kas_file_version_major ++ le_enc 2 minor) ++ le_enc 4 n ++ le_enc 8 fs ++ r)
    by (rewrite <- !app_assoc; reflexivity).
  rewrite (slice_at _ (le_enc 4 n) (le_enc 8 fs ++ r) 12 4) by (rewrite ?app_length, ?le_enc_length, ?magic_len; reflexivity).
  replace ((kas_magic ++ le_enc 2 kas_file_version_major ++ le_enc 2 minor) ++ le_enc 4 n ++ le_enc 8 fs ++ r)
    with ((kas_magic ++ le_enc 2 kas_file_version_major ++ le_enc 2 minor ++ le_enc 4 n) ++ le_enc 8 fs ++ r)
    by (rewrite <- !app_assoc; reflexivity).
  rewrite (slice_at _ (le_enc 8 fs) r 16 8) by (rewrite ?app_length, ?le_enc_length, ?magic_len; reflexivity).
  rewrite le32_roundtrip, le64_roundtrip by lia.
  replace (fs <? 64) with false by (symmetry; apply Z.ltb_ge; lia).
  reflexivity.
Qed.

(* ---- descriptors ---- *)
Definition rdesc_ok (d : rdesc) : Prop :=
  0 <= d_type d < 256 /\ 0 <= d_ks d < two64 /\ 0 <= d_kl d < two64 /\ 0 <= d_as d < two64 /\ 0 <= d_al d < two64.

Lemma desc_length d r1 r2 : length r1 = 7%nat -> length r2 = 24%nat -> length (desc_bytes d r1 r2) = 64%nat.
Proof. intros H1 H2. unfold desc_bytes. rewrite !app_length, !le_enc_length, H1, H2. reflexivity. Qed.

Lemma parse_desc_bytes d r1 r2 rest : length r1 = 7%nat -> rdesc_ok d ->
  parse_desc (desc_bytes d r1 r2 ++ rest) = d.
Proof.
  intros H1 (Ht & Hks & Hkl & Has & Hal). unfold parse_desc, desc_bytes.
  destruct d as [t ks kl a al]; cbn [d_type d_ks d_kl d_as d_al] in *.
  assert (E0 : nth 0 (([t mod 256] ++ r1 ++ le_enc 8 ks ++ le_enc 8 kl ++ le_enc 8 a ++ le_enc 8 al ++ r2) ++ rest) 0 = t).
  { simpl. apply Z.mod_small; lia. }
  rewrite E0. f_equal.
  - replace (([t mod 256] ++ r1 ++ le_enc 8 ks ++ le_enc 8 kl ++ le_enc 8 a ++ le_enc 8 al ++ r2) ++ rest)
      with (([t mod 256] ++ r1) ++ le_enc 8 ks ++ (le_enc 8 kl ++ le_enc 8 a ++ le_enc 8 al ++ r2 ++ rest))
      by (rewrite <- !app_assoc; reflexivity).
    rewrite (slice_at _ (le_enc 8 ks) _ 8 8) by (rewrite ?app_length, ?le_enc_length, ?H1; reflexivity).
    apply le64_roundtrip; lia.
  - replace (([t mod 256] ++ r1 ++ le_enc 8 ks ++ le_enc 8 kl ++ le_enc 8 a ++ le_enc 8 al ++ r2) ++ rest)
      with (([t mod 256] ++ r1 ++ le_enc 8 ks) ++ le_enc 8 kl ++ (le_enc 8 a ++ le_enc 8 al ++ r2 ++ rest))
      by (rewrite <- !app_assoc; reflexivity).
    rewrite (slice_at _ (le_enc 8 kl) _ 16 8) by (rewrite ?app_length, ?le_enc_length, ?H1; reflexivity).
    apply le64_roundtrip; lia.
  - replace (([t mod 256] ++ r1 ++ le_enc 8 ks ++ le_enc 8 kl ++ le_enc 8 a ++ le_enc 8 al ++ r2) ++ rest)
      with (([t mod 256] ++ r1 ++ le_enc 8 ks ++ le_enc 8 kl) ++ le_enc 8 a ++ (le_enc 8 al ++ r2 ++ rest))
      by (rewrite <- !app_assoc; reflexivity).
    rewrite (slice_at _ (le_enc 8 a) _ 24 8) by (rewrite ?app_length, ?le_enc_length, ?H1; reflexivity).
    apply le64_roundtrip; lia.
  - replace (([t mod 256] ++ r1 ++ le_enc 8 ks ++ le_enc 8 kl ++ le_enc 8 a ++ le_enc 8 al ++ r2) ++ rest)
      with (([t mod 256] ++ r1 ++ le_enc 8 ks ++ le_enc 8 kl ++ le_enc 8 a) ++ le_enc 8 al ++ (r2 ++ rest))
      by (rewrite <- !app_assoc; reflexivity).
    rewrite (slice_at _ (le_enc 8 al) _ 32 8) by (rewrite ?app_length, ?le_enc_length, ?H1; reflexivity).
    apply le64_roundtrip; lia.
Qed.

Definition desc_checks (fs : Z) (d : rdesc) : Prop :=
  rdesc_ok d /\ d_type d < kas_num_types /\ (d_kl d <= fs /\ d_ks d <= fs - d_kl d)
  /\ (d_as d <= fs /\ d_al d <= (fs - d_as d) / type_size (d_type d)).

Lemma bound_false a b c d : a <= b -> c <= d -> (b <? a) || (d <? c) = false.
Proof. intros. apply orb_false_iff. split; apply Z.ltb_ge; lia. Qed.

Lemma descs_bytes_cons d r : descs_bytes (d :: r) = desc_bytes d (zeros 7) (zeros 24) ++ descs_bytes r.
Proof. reflexivity. Qed.

Lemma descs_bytes_length ds : length (descs_bytes ds) = (64 * length ds)%nat.
Proof.
  induction ds as [|d r IH]; [reflexivity|].
  rewrite descs_bytes_cons, app_length, IH, desc_length by reflexivity. simpl length. lia.
Qed.

Lemma parse_descs_bytes fs ds rest :
  Forall (desc_checks fs) ds -> parse_descs fs (length ds) (descs_bytes ds ++ rest) = Ok ds.
Proof.
  induction 1 as [|d r (Hok & Ht & (Hk1 & Hk2) & (Ha1 & Ha2)) Hr IH]; [reflexivity|].
  cbn [length parse_descs]. rewrite descs_bytes_cons, <- app_assoc.
  rewrite firstn_app_exact by (apply desc_length; reflexivity).
  rewrite skipn_app_exact by (apply desc_length; reflexivity).
  rewrite <- (app_nil_r (desc_bytes d (zeros 7) (zeros 24))), parse_desc_bytes by (auto; reflexivity).
  replace (kas_num_types <=? d_type d) with false by (symmetry; apply Z.leb_gt; lia).
  rewrite (bound_false _ _ _ _ Hk1 Hk2), (bound_false _ _ _ _ Ha1 Ha2).
  rewrite IH. reflexivity.
Qed.

Lemma w64_small x : 0 <= x < two64 -> w64 x = x.
Proof. intros. unfold w64. apply Z.mod_small; auto. Qed.

Lemma isize_nonneg it : item_ok it -> 0 <= isize it.
Proof. intros (Ht & Hl & _). unfold isize. pose proof (type_size_pos _ Ht). nia. Qed.

Lemma keys_len_nonneg its : 0 <= keys_len its.
Proof. induction its; simpl; [lia|]. pose proof (zlen_nonneg (ikey a)). lia. Qed.

Lemma layout_end_ge its : forall aoff, Forall item_ok its -> 0 <= aoff -> aoff <= layout_end aoff its.
Proof.
  induction its as [|it r IH]; intros aoff H Ha; [simpl; lia|].
  inversion H; subst. cbn [layout_end].
  pose proof (align8_spec aoff Ha). pose proof (isize_nonneg it H2).
  specialize (IH (align8 aoff + isize it) H3 ltac:(lia)). lia.
Qed.

Lemma layout_length its : forall koff aoff, length (layout koff aoff its) = length its.
Proof. induction its; intros; simpl; auto. Qed.

Lemma layout_props its : forall koff aoff fs,
  Forall item_ok its -> 0 <= koff -> 0 <= aoff ->
  koff + keys_len its <= fs -> layout_end aoff its <= fs -> fs < two64 ->
  Forall (desc_checks fs) (layout koff aoff its)
  /\ check_keys koff (layout koff aoff its) = Some (koff + keys_len its)
  /\ check_arrays aoff (layout koff aoff its) = Some (layout_end aoff its).
Proof.
  induction its as [|it r IH]; intros koff aoff fs H Hk Ha Hkl Hle Hfs.
  - simpl. repeat split; auto. f_equal; lia.
  - inversion H as [|? ? Hit Hr]; subst.
    cbn [layout keys_len layout_end check_keys check_arrays d_ks d_kl d_as d_al d_type] in *.
    pose proof (align8_spec aoff Ha) as [Hal _].
    pose proof (isize_nonneg it Hit) as Hsz.
    pose proof (zlen_nonneg (ikey it)) as Hkz.
    pose proof (keys_len_nonneg r) as Hkr.
    pose proof (layout_end_ge r (align8 aoff + isize it) Hr ltac:(lia)) as Hge.
    destruct Hit as (Ht & Hl & Hd & Hne).
    specialize (IH (koff + zlen (ikey it)) (align8 aoff + isize it) fs Hr ltac:(lia) ltac:(lia) ltac:(lia) Hle Hfs)
      as (IH1 & IH2 & IH3).
    split; [|split].
    + constructor; [|exact IH1].
      unfold desc_checks, rdesc_ok; cbn [d_ks d_kl d_as d_al d_type].
      assert (Hil : ilen it <= isize it) by (unfold isize; pose proof (type_size_pos _ Ht); nia).
      pose proof (type_size_pos _ Ht) as Hts.
      assert (Hdiv : ilen it <= (fs - align8 aoff) / type_size (itype it)).
      { apply Z.div_le_lower_bound; [lia|]. unfold isize in *. lia. }
      rewrite nt10 in *. repeat split; try lia.
    + rewrite Z.eqb_refl, w64_small by lia. rewrite IH2. f_equal. lia.
    + rewrite (w64_small (align8 aoff)) by lia. rewrite Z.eqb_refl.
      fold (isize it). rewrite w64_small by lia. exact IH3.
Qed.

(* ---- arrays: the writer's "padding then array" is the reader's "array then padding" ---- *)
Fixpoint blocks (a : Z) (its : list item) : list Z :=
  match its with
  | [] => []
  | it :: r =>
    let e := a + isize it in
    (idata it ++ match r with [] => [] | _ => zeros (align8 e - e) end) ++ blocks (align8 e) r
  end.

Lemma arrays_bytes_blocks its : forall off, its <> [] ->
  arrays_bytes off its = zeros (align8 off - off) ++ blocks (align8 off) its.
Proof.
  induction its as [|it r IH]; intros off H; [congruence|].
  cbn [arrays_bytes blocks]. f_equal.
  destruct r as [|it2 r2].
  - simpl. rewrite !app_nil_r. reflexivity.
  - rewrite IH by discriminate. rewrite <- !app_assoc. reflexivity.
Qed.

Fixpoint expect (kbuf : list Z) (k0 koff a : Z) (its : list item) : list ritem :=
  match its with
  | [] => []
  | it :: r =>
    let e := a + isize it in
    mk_ritem (cslice kbuf (w64 (koff - k0)) (zlen (ikey it))) (itype it) (ilen it)
             (Ok (idata it ++ match r with [] => [] | _ => zeros (align8 e - e) end))
      :: expect kbuf k0 (koff + zlen (ikey it)) (align8 e) r
  end.

Lemma read_blocks_ok its : forall fs k0 kbuf koff aoff rest,
  Forall item_ok its -> 0 <= aoff -> fs = layout_end aoff its -> fs < two64 ->
  read_blocks fs k0 kbuf (layout koff aoff its) (blocks (align8 aoff) its ++ rest)
  = Ok (expect kbuf k0 koff (align8 aoff) its, rest).
Proof.
  induction its as [|it r IH]; intros fs k0 kbuf koff aoff rest H Ha Hfs Hlt; [reflexivity|].
  inversion H as [|? ? Hit Hr]; subst.
  pose proof (align8_spec aoff Ha) as [Hal _].
  pose proof (isize_nonneg it Hit) as Hsz.
  assert (Hd : zlen (idata it) = isize it) by (destruct Hit as (_ & _ & Hd & _); exact Hd).
  set (a := align8 aoff) in *.
  pose proof (layout_end_ge r (a + isize it) Hr ltac:(lia)) as Hge.
  cbn [layout_end] in Hlt, Hge |- *. fold a in Hlt, Hge |- *.
  cbn [layout read_blocks blocks expect d_as d_ks d_kl d_al d_type]. fold a.
  destruct r as [|it2 r2].
  - cbn [layout layout_end blocks]. cbn [layout_end] in Hlt. rewrite !app_nil_r.
    replace (w64 (a + isize it - a)) with (zlen (idata it)).
    2:{ rewrite Hd. rewrite w64_small by lia. lia. }
    rewrite take_app. cbn [read_blocks]. reflexivity.
  - cbn [layout d_as].
    pose proof (align8_spec (a + isize it) ltac:(lia)) as [Hal2 _].
    set (e := a + isize it) in *.
    replace (w64 (align8 e - a)) with (zlen (idata it ++ zeros (align8 e - e))).
    2:{ rewrite zlen_app, Hd, zlen_zeros by lia. rewrite w64_small; [lia|].
        inversion Hr as [|? ? Hit2 Hr2]; subst.
        pose proof (isize_nonneg it2 Hit2).
        pose proof (layout_end_ge r2 (align8 e + isize it2) Hr2 ltac:(lia)).
        cbn [layout_end] in Hlt. lia. }
    rewrite <- app_assoc, take_app.
    specialize (IH (layout_end e (it2 :: r2)) k0 kbuf (koff + zlen (ikey it)) e rest Hr ltac:(lia) eq_refl Hlt).
    cbn [layout] in IH. rewrite IH. reflexivity.
Qed.

Lemma firstn_zlen_app {A} (a b : list A) : firstn (Z.to_nat (zlen a)) (a ++ b) = a.
Proof. unfold zlen. rewrite Nat2Z.id. apply firstn_app_exact. reflexivity. Qed.

Lemma item_eta it : mk_item (ikey it) (itype it) (ilen it) (idata it) = it.
Proof. destruct it; reflexivity. Qed.

Lemma expect_items kbuf k0 : forall its pre koff a tail,
  Forall item_ok its -> kbuf = pre ++ keys_bytes its ++ tail -> koff = k0 + zlen pre ->
  zlen pre + keys_len its < two64 ->
  items_of (expect kbuf k0 koff a its) = Ok its.
Proof.
  induction its as [|it r IH]; intros pre koff a tail H Hk Hko Hlt; [reflexivity|].
  inversion H as [|? ? Hit Hr]. subst koff.
  cbn [expect items_of]. unfold item_of. cbn [rkey rblock rtype rlen keys_len] in *.
  pose proof (zlen_nonneg pre). pose proof (zlen_nonneg (ikey it)). pose proof (keys_len_nonneg r).
  replace (k0 + zlen pre - k0) with (zlen pre) by lia. rewrite w64_small by lia.
  assert (Hc : cslice kbuf (zlen pre) (zlen (ikey it)) = Ok (ikey it)).
  { rewrite Hk. unfold keys_bytes. cbn [map concat]. fold (keys_bytes r). unfold cslice.
    replace (zlen pre <? 0) with false by (symmetry; apply Z.ltb_ge; lia).
    replace (zlen (ikey it) <? 0) with false by (symmetry; apply Z.ltb_ge; lia).
    replace (zlen (pre ++ (ikey it ++ keys_bytes r) ++ tail) <? zlen pre + zlen (ikey it)) with false.
    2:{ symmetry; apply Z.ltb_ge. rewrite !zlen_app. pose proof (zlen_nonneg (keys_bytes r)). pose proof (zlen_nonneg tail). lia. }
    cbn [orb]. rewrite <- app_assoc.
    rewrite (slice_at pre (ikey it) (keys_bytes r ++ tail) (zlen pre) (zlen (ikey it)))
      by (unfold zlen; rewrite Nat2Z.id; reflexivity).
    reflexivity. }
  rewrite Hc.
  destruct Hit as (Ht & Hl & Hd & Hne). fold (isize it). rewrite <- Hd.
  rewrite zlen_app.
  match goal with |- context [zlen (idata it) + ?p <? zlen (idata it)] =>
    pose proof (zlen_nonneg (A:=Z)) as Hnn;
    replace (zlen (idata it) + p <? zlen (idata it)) with false
      by (symmetry; apply Z.ltb_ge; unfold zlen; lia) end.
  rewrite firstn_zlen_app.
  rewrite item_eta.
  rewrite (IH (pre ++ ikey it) _ _ tail Hr).
  - reflexivity.
  - rewrite Hk. unfold keys_bytes. cbn [map concat]. rewrite <- !app_assoc. reflexivity.
  - rewrite zlen_app. lia.
  - rewrite zlen_app. lia.
Qed.

Lemma keys_bytes_length its : zlen (keys_bytes its) = keys_len its.
Proof.
  induction its as [|it r IH]; [reflexivity|].
  unfold keys_bytes in *. cbn [map concat keys_len]. rewrite zlen_app, IH. reflexivity.
Qed.

Lemma zlen_cons {A} (x : A) l : zlen (x :: l) = 1 + zlen l.
Proof. unfold zlen. cbn [length]. lia. Qed.

(* the reader inverts the writer, for any order of the items, and leaves the rest of the stream *)
Theorem kas_write_decode its rest : items_ok its ->
  kas_decode (kas_write its ++ rest) = Ok (its, rest).
Proof.
  intros (Hall & Hn & Hsz).
  unfold kas_decode, kas_open, kas_write, kas_size in *. cbv zeta in *.
  set (n := zlen its) in *. set (k := koff0 n) in *. set (a := k + keys_len its) in *.
  set (fs := layout_end a its) in *.
  pose proof (zlen_nonneg its) as Hn0. fold n in Hn0.
  pose proof (keys_len_nonneg its) as Hkl.
  assert (Hk : k = 64 + n * 64) by (unfold k, koff0; rewrite hs64, ds64; reflexivity).
  pose proof (layout_end_ge its a Hall ltac:(lia)) as Hge. fold fs in Hge.
  assert (Ha : a = k + keys_len its) by reflexivity.
  assert (Hfs : fs = layout_end a its) by reflexivity.
  rewrite <- !app_assoc.
  rewrite read_header_ok by (try apply zeros_length; lia).
  destruct its as [|it r].
  - (* empty store: header only *)
    cbn. reflexivity.
  - assert (Hnpos : 1 <= n) by (unfold n; rewrite zlen_cons; pose proof (zlen_nonneg r); lia).
    replace (n =? 0) with false by (symmetry; apply Z.eqb_neq; lia).
    assert (G1 : 0 <= k) by lia.
    assert (G2 : 0 <= a) by lia.
    assert (G3 : k + keys_len (it :: r) <= fs) by lia.
    assert (G4 : layout_end a (it :: r) <= fs) by (rewrite <- Hfs; lia).
    destruct (layout_props (it :: r) k a fs Hall G1 G2 G3 G4 Hsz) as (Hchk & Hck & Hca).
    (* descriptors *)
    unfold read_descriptors. rewrite hs64, ds64.
    replace (fs <? n * 64 + 64) with false by (symmetry; apply Z.ltb_ge; lia).
    rewrite (take_exact (n * 64) (descs_bytes (layout k a (it :: r)))).
    2:{ unfold zlen. rewrite descs_bytes_length, layout_length. unfold n, zlen. lia. }
    replace (Z.to_nat n) with (length (layout k a (it :: r)))
      by (rewrite layout_length; unfold n, zlen; rewrite Nat2Z.id; reflexivity).
    rewrite <- (app_nil_r (descs_bytes (layout k a (it :: r)))) at 1.
    rewrite parse_descs_bytes by exact Hchk.
    fold k. rewrite Hck. fold a. rewrite Hca, Z.eqb_refl.
    (* keys *)
    assert (Hkpos : 1 <= zlen (ikey it)).
    { inversion Hall as [|? ? (_ & _ & _ & Hne) _]; subst. destruct (ikey it); [congruence|].
      rewrite zlen_cons. pose proof (zlen_nonneg l). lia. }
    pose proof (align8_spec a ltac:(lia)) as [Hal _].
    cbn [layout hd d_as].
    assert (Hkl2 : 1 <= keys_len (it :: r)) by (cbn [keys_len]; pose proof (keys_len_nonneg r); lia).
    fold a in Hkl2.
    replace (w64 (align8 a - k)) with (zlen (keys_bytes (it :: r) ++ zeros (align8 a - a))).
    2:{ rewrite zlen_app, keys_bytes_length, zlen_zeros by lia. rewrite w64_small; unfold a in *; lia. }
    replace (zlen (keys_bytes (it :: r) ++ zeros (align8 a - a)) =? 0) with false.
    2:{ symmetry; apply Z.eqb_neq. rewrite zlen_app, keys_bytes_length, zlen_zeros by lia. unfold a in *; lia. }
    rewrite arrays_bytes_blocks by discriminate.
    replace (keys_bytes (it :: r) ++ (zeros (align8 a - a) ++ blocks (align8 a) (it :: r)) ++ rest)
      with ((keys_bytes (it :: r) ++ zeros (align8 a - a)) ++ blocks (align8 a) (it :: r) ++ rest)
      by (rewrite <- !app_assoc; reflexivity).
    rewrite take_app.
    change (mk_rdesc (itype it) k (zlen (ikey it)) (align8 a) (ilen it)
              :: layout (k + zlen (ikey it)) (align8 a + isize it) r) with (layout k a (it :: r)).
    rewrite read_blocks_ok by (auto; lia).
    rewrite (expect_items _ k (it :: r) [] k (align8 a) (zeros (align8 a - a))); auto.
    all: try (unfold zlen at 1; cbn [length]; lia).
Qed.

(* ---- key order (compare_items) is a total order; sorting is canonical ---- *)
Lemma key_cmp_refl a : key_cmp a a = Eq.
Proof. induction a; simpl; auto. rewrite Z.compare_refl. auto. Qed.

Lemma key_cmp_eq a : forall b, key_cmp a b = Eq -> a = b.
Proof.
  induction a as [|x a IH]; intros [|y b] H; simpl in H; try discriminate; auto.
  destruct (x ?= y) eqn:E; try discriminate. apply Z.compare_eq in E. subst. f_equal. auto.
Qed.

Lemma key_cmp_antisym a : forall b, key_cmp b a = CompOpp (key_cmp a b).
Proof.
  induction a as [|x a IH]; intros [|y b]; simpl; auto.
  rewrite (Z.compare_antisym x y). destruct (x ?= y); simpl; auto.
Qed.

Lemma key_cmp_trans a : forall b c, key_cmp a b = Lt -> key_cmp b c = Lt -> key_cmp a c = Lt.
Proof.
  induction a as [|x a IH]; intros [|y b] [|z c] H1 H2; simpl in *; try discriminate; auto.
  destruct (x ?= y) eqn:E1; try discriminate.
  - apply Z.compare_eq in E1. subst y. destruct (x ?= z) eqn:E2; try discriminate; auto. eauto.
  - destruct (y ?= z) eqn:E2; try discriminate.
    + apply Z.compare_eq in E2. subst z. rewrite E1. auto.
    + assert (Hxz : x ?= z = Lt).
      { rewrite Z.compare_lt_iff in *. lia. }
      rewrite Hxz. auto.
Qed.

Definition key_le (x y : item) : Prop := key_cmp (ikey x) (ikey y) <> Gt.

Lemma key_le_trans x y z : key_le x y -> key_le y z -> key_le x z.
Proof.
  unfold key_le. intros H1 H2.
  destruct (key_cmp (ikey x) (ikey y)) eqn:E1; try congruence.
  - apply key_cmp_eq in E1. rewrite E1. auto.
  - destruct (key_cmp (ikey y) (ikey z)) eqn:E2; try congruence.
    + apply key_cmp_eq in E2. rewrite <- E2, E1. discriminate.
    + rewrite (key_cmp_trans _ _ _ E1 E2). discriminate.
Qed.

Lemma insert_perm x l : Permutation (insert_item x l) (x :: l).
Proof.
  induction l as [|y r IH]; simpl; auto.
  destruct (key_ltb (ikey y) (ikey x)); auto.
  eapply perm_trans; [apply perm_skip, IH | apply perm_swap].
Qed.

Lemma sort_perm l : Permutation (sort_items l) l.
Proof. induction l; simpl; auto. eapply perm_trans; [apply insert_perm | auto]. Qed.

Lemma insert_sorted x l : StronglySorted key_le l -> StronglySorted key_le (insert_item x l).
Proof.
  induction 1 as [|y r Hr IH Hy]; simpl.
  - repeat constructor.
  - unfold key_ltb. destruct (key_cmp (ikey y) (ikey x)) eqn:E.
    + (* equal keys: x goes first *)
      constructor; [constructor; auto|]. constructor.
      * unfold key_le. rewrite key_cmp_antisym, E. discriminate.
      * apply key_cmp_eq in E. eapply Forall_impl; [|exact Hy]. intros z Hz. unfold key_le in *. rewrite <- E. auto.
    + constructor; auto.
      assert (Hxy : key_le y x) by (unfold key_le; rewrite E; discriminate).
      eapply Permutation_Forall; [symmetry; apply insert_perm|]. constructor; auto.
    + constructor; [constructor; auto|].
      assert (Hxy : key_le x y) by (unfold key_le; rewrite key_cmp_antisym, E; discriminate).
      constructor; auto. eapply Forall_impl; [|exact Hy]. intros z Hz. eapply key_le_trans; eauto.
Qed.

Lemma sort_sorted l : StronglySorted key_le (sort_items l).
Proof. induction l; simpl; [constructor | apply insert_sorted; auto]. Qed.

Lemma nodup_map_inj {A B} (f : A -> B) l x y :
  NoDup (map f l) -> In x l -> In y l -> f x = f y -> x = y.
Proof.
  induction l as [|a l IH]; simpl; intros Hnd Hx Hy E; [contradiction|].
  inversion Hnd as [|? ? Hna Hnd']; subst.
  destruct Hx as [<-|Hx], Hy as [<-|Hy]; auto.
  - exfalso. apply Hna. rewrite E. apply in_map. auto.
  - exfalso. apply Hna. rewrite <- E. apply in_map. auto.
Qed.

(* any two arrangements of the same items that are sorted by key coincide when keys are
   distinct: the result of the C library's qsort is the model's insertion sort *)
Lemma sorted_perm_unique l1 : forall l2,
  NoDup (map ikey l1) -> StronglySorted key_le l1 -> StronglySorted key_le l2 -> Permutation l1 l2 -> l1 = l2.
Proof.
  induction l1 as [|x l1 IH]; intros l2 Hnd S1 S2 P.
  - apply Permutation_nil in P. auto.
  - destruct l2 as [|y l2]; [apply Permutation_sym, Permutation_nil in P; discriminate|].
    inversion S1 as [|? ? S1' F1]; subst. inversion S2 as [|? ? S2' F2]; subst.
    assert (x = y).
    { assert (Hy : In y (x :: l1)) by (eapply Permutation_in; [symmetry; exact P | left; auto]).
      assert (Hx : In x (y :: l2)) by (eapply Permutation_in; [exact P | left; auto]).
      destruct Hy as [E|Hy]; auto. destruct Hx as [E|Hx]; auto.
      rewrite Forall_forall in F1, F2. specialize (F1 y Hy). specialize (F2 x Hx).
      unfold key_le in *. rewrite key_cmp_antisym in F2.
      destruct (key_cmp (ikey x) (ikey y)) eqn:E; simpl in *; try congruence.
      apply key_cmp_eq in E. eapply (nodup_map_inj ikey (x :: l1)); eauto; simpl; auto. }
    subst y. f_equal. apply IH; auto.
    + inversion Hnd; auto.
    + eapply Permutation_cons_inv; eauto.
Qed.

Lemma sort_items_ok l : Forall item_ok l -> Forall item_ok (sort_items l).
Proof. intros H. eapply Permutation_Forall; [symmetry; apply sort_perm | exact H]. Qed.

Lemma sort_items_length l : zlen (sort_items l) = zlen l.
Proof. unfold zlen. f_equal. apply Permutation_length, sort_perm. Qed.

(* (b) the container round-trips: what kastore_close writes, kastore_open reads back as the
   items in key order, byte for byte, leaving the rest of the stream untouched *)
Theorem kas_roundtrip its rest :
  Forall item_ok its -> zlen its < 4294967296 -> kas_size (sort_items its) < two64 ->
  kas_decode (kas_encode its ++ rest) = Ok (sort_items its, rest).
Proof.
  intros H Hn Hs. unfold kas_encode. apply kas_write_decode.
  split; [apply sort_items_ok; auto | split; [rewrite sort_items_length; auto | auto]].
Qed.

Theorem kas_roundtrip_any_sort (sorted : list item) its rest :
  Forall item_ok its -> zlen its < 4294967296 -> kas_size sorted < two64 ->
  NoDup (map ikey its) -> Permutation sorted its -> StronglySorted key_le sorted ->
  sorted = sort_items its /\ kas_decode (kas_write sorted ++ rest) = Ok (sort_items its, rest).
Proof.
  intros H Hn Hs Hnd P S.
  assert (E : sorted = sort_items its).
  { apply sorted_perm_unique; auto.
    - eapply Permutation_NoDup; [|exact Hnd]. apply Permutation_map. symmetry. exact P.
    - apply sort_sorted.
    - eapply perm_trans; [exact P | symmetry; apply sort_perm]. }
  split; auto. rewrite <- E. apply kas_write_decode.
  split; [eapply Permutation_Forall; [symmetry; exact P | exact H] | split; auto].
  unfold zlen. rewrite (Permutation_length P). exact Hn.
Qed.

Example kas_roundtrip_ex :
  let its := [mk_item [98] 4 2 [1; 0; 0; 0; 255; 255; 255; 255]; mk_item [97; 47; 120] 1 3 [0; 255; 7];
              mk_item [97] 9 0 []] in
  Forall item_ok its /\ kas_size (sort_items its) = 280 /\ length (kas_encode its) = 280%nat
  /\ kas_decode (kas_encode its ++ [1; 2]) = Ok (sort_items its, [1; 2])
  /\ map ikey (sort_items its) = [[97]; [97; 47; 120]; [98]].
Proof.
  cbv zeta. split; [|vm_compute; repeat split; reflexivity].
  repeat constructor; try (vm_compute; congruence); vm_compute; try reflexivity; discriminate.
Qed.

(* ---- the reader on header ++ descriptors ++ anything (used for truncation and streams) ---- *)
Definition kw_n (its : list item) := zlen its.
Definition kw_k (its : list item) := koff0 (zlen its).
Definition kw_a (its : list item) := kw_k its + keys_len its.
Definition kw_fs (its : list item) := layout_end (kw_a its) its.
Definition kw_header (its : list item) :=
  header_bytes kas_file_version_major kas_file_version_minor (kw_n its) (kw_fs its) (zeros 40).
Definition kw_descs (its : list item) := descs_bytes (layout (kw_k its) (kw_a its) its).
Definition kw_keys (its : list item) := keys_bytes its ++ zeros (align8 (kw_a its) - kw_a its).

Lemma kas_write_parts its : its <> [] ->
  kas_write its = kw_header its ++ kw_descs its ++ kw_keys its ++ blocks (align8 (kw_a its)) its.
Proof.
  intros H. unfold kas_write, kw_header, kw_descs, kw_keys, kw_n, kw_fs, kw_a, kw_k.
  rewrite arrays_bytes_blocks by auto. rewrite <- !app_assoc. reflexivity.
Qed.

Lemma kw_header_length its : zlen (kw_header its) = 64.
Proof. unfold zlen, kw_header. rewrite header_length; [reflexivity | apply zeros_length]. Qed.

Lemma kw_descs_length its : zlen (kw_descs its) = zlen its * 64.
Proof. unfold zlen, kw_descs. rewrite descs_bytes_length, layout_length. lia. Qed.

Lemma kw_facts its : items_ok its -> its <> [] ->
  1 <= kw_n its < 4294967296 /\ kw_k its = 64 + kw_n its * 64 /\ kw_k its + 1 <= kw_a its
  /\ kw_a its <= align8 (kw_a its) /\ align8 (kw_a its) <= kw_fs its /\ kw_fs its < two64
  /\ zlen (kw_keys its) = align8 (kw_a its) - kw_k its.
Proof.
  intros (Hall & Hn & Hsz) Hne. unfold kas_size in Hsz. cbv zeta in Hsz.
  fold (kw_k its) in Hsz. fold (kw_a its) in Hsz. fold (kw_fs its) in Hsz.
  destruct its as [|it r]; [congruence|].
  pose proof (zlen_nonneg r) as Hr.
  assert (H1 : kw_n (it :: r) = 1 + zlen r) by (unfold kw_n; apply zlen_cons).
  assert (H2 : kw_k (it :: r) = 64 + kw_n (it :: r) * 64) by (unfold kw_k, koff0, kw_n; rewrite hs64, ds64; reflexivity).
  assert (Hkpos : 1 <= zlen (ikey it)).
  { inversion Hall as [|? ? (_ & _ & _ & Hk) _]; subst. destruct (ikey it); [congruence|].
    rewrite zlen_cons. pose proof (zlen_nonneg l). lia. }
  assert (H3 : kw_k (it :: r) + 1 <= kw_a (it :: r)).
  { unfold kw_a. cbn [keys_len]. pose proof (keys_len_nonneg r). lia. }
  pose proof (align8_spec (kw_a (it :: r)) ltac:(lia)) as [H4 _].
  assert (H5 : align8 (kw_a (it :: r)) <= kw_fs (it :: r)).
  { unfold kw_fs. cbn [layout_end]. inversion Hall as [|? ? Hit Hr']; subst.
    pose proof (isize_nonneg it Hit).
    pose proof (layout_end_ge r (align8 (kw_a (it :: r)) + isize it) Hr' ltac:(lia)). lia. }
  repeat split; try lia.
  - unfold kw_n in *. lia.
  - unfold kw_keys. rewrite zlen_app, keys_bytes_length, zlen_zeros by lia. unfold kw_a. lia.
Qed.

Lemma kas_open_prefix_any (b : bool) its y : items_ok its -> its <> [] ->
  kas_open b (kw_header its ++ kw_descs its ++ y) =
  match take (zlen (kw_keys its)) y with
  | None => Err E_FORMAT
  | Some (kbuf, s3) =>
    if b then read_blocks (kw_fs its) (kw_k its) kbuf (layout (kw_k its) (kw_a its) its) s3
    else Ok (lazy_items (kw_k its) kbuf (kw_header its ++ kw_descs its ++ y) (layout (kw_k its) (kw_a its) its), [])
  end.
Proof.
  intros Hok Hne. pose proof (kw_facts its Hok Hne) as (Hn & Hk & Ha & Hal & Hfs & Hlt & Hkeys).
  destruct Hok as (Hall & _ & _).
  unfold kas_open, kw_header.
  rewrite read_header_ok by (try apply zeros_length; lia).
  replace (kw_n its =? 0) with false by (symmetry; apply Z.eqb_neq; lia).
  assert (G3 : kw_k its + keys_len its <= kw_fs its) by (fold (kw_a its); lia).
  assert (G4 : layout_end (kw_a its) its <= kw_fs its) by (fold (kw_fs its); lia).
  destruct (layout_props its (kw_k its) (kw_a its) (kw_fs its) Hall ltac:(lia) ltac:(lia) G3 G4 Hlt) as (Hchk & Hck & Hca).
  unfold read_descriptors. rewrite hs64, ds64.
  replace (kw_fs its <? kw_n its * 64 + 64) with false by (symmetry; apply Z.ltb_ge; lia).
  rewrite (take_exact (kw_n its * 64) (kw_descs its)) by (apply kw_descs_length).
  unfold kw_descs at 1.
  replace (Z.to_nat (kw_n its)) with (length (layout (kw_k its) (kw_a its) its))
    by (rewrite layout_length; unfold kw_n, zlen; rewrite Nat2Z.id; reflexivity).
  rewrite <- (app_nil_r (descs_bytes (layout (kw_k its) (kw_a its) its))).
  rewrite parse_descs_bytes by exact Hchk.
  change (koff0 (kw_n its)) with (kw_k its).
  rewrite Hck. fold (kw_a its). rewrite Hca. fold (kw_fs its). rewrite Z.eqb_refl.
  destruct its as [|it r]; [congruence|].
  cbn [layout hd d_as].
  replace (w64 (align8 (kw_a (it :: r)) - kw_k (it :: r))) with (zlen (kw_keys (it :: r)))
    by (rewrite w64_small; lia).
  replace (zlen (kw_keys (it :: r)) =? 0) with false by (symmetry; apply Z.eqb_neq; lia).
  reflexivity.
Qed.

Lemma kas_open_prefix its y : items_ok its -> its <> [] ->
  kas_open true (kw_header its ++ kw_descs its ++ y) =
  match take (zlen (kw_keys its)) y with
  | None => Err E_FORMAT
  | Some (kbuf, s3) => read_blocks (kw_fs its) (kw_k its) kbuf (layout (kw_k its) (kw_a its) its) s3
  end.
Proof. intros. rewrite (kas_open_prefix_any true) by auto. destruct (take _ y) as [[? ?]|]; reflexivity. Qed.


Definition block_of (a : Z) (it : item) (r : list item) : list Z :=
  idata it ++ match r with [] => [] | _ => zeros (align8 (a + isize it) - (a + isize it)) end.

Lemma blocks_cons a it r : blocks a (it :: r) = block_of a it r ++ blocks (align8 (a + isize it)) r.
Proof. reflexivity. Qed.

Lemma read_blocks_step it r : forall fs k0 kbuf koff aoff s,
  Forall item_ok (it :: r) -> 0 <= aoff -> fs = layout_end aoff (it :: r) -> fs < two64 ->
  read_blocks fs k0 kbuf (layout koff aoff (it :: r)) s =
  match take (zlen (block_of (align8 aoff) it r)) s with
  | None => Err E_FORMAT
  | Some (blk, s') =>
    match read_blocks fs k0 kbuf (layout (koff + zlen (ikey it)) (align8 aoff + isize it) r) s' with
    | Ok (its, s'') =>
      Ok (mk_ritem (cslice kbuf (w64 (koff - k0)) (zlen (ikey it))) (itype it) (ilen it) (Ok blk) :: its, s'')
    | e => e
    end
  end.
Proof.
  intros fs k0 kbuf koff aoff s H Ha Hfs Hlt.
  inversion H as [|? ? Hit Hr]; subst.
  pose proof (align8_spec aoff Ha) as [Hal _].
  pose proof (isize_nonneg it Hit) as Hsz.
  assert (Hd : zlen (idata it) = isize it) by (destruct Hit as (_ & _ & Hd & _); exact Hd).
  set (a := align8 aoff) in *.
  pose proof (layout_end_ge r (a + isize it) Hr ltac:(lia)) as Hge.
  cbn [layout_end] in Hlt, Hge |- *. fold a in Hlt, Hge |- *.
  cbn [layout read_blocks d_as d_ks d_kl d_al d_type]. fold a.
  unfold block_of.
  destruct r as [|it2 r2].
  - cbn [layout layout_end]. cbn [layout_end] in Hlt. rewrite !app_nil_r.
    replace (w64 (a + isize it - a)) with (zlen (idata it)); [reflexivity|].
    rewrite Hd. rewrite w64_small by lia. lia.
  - cbn [layout d_as].
    pose proof (align8_spec (a + isize it) ltac:(lia)) as [Hal2 _].
    replace (w64 (align8 (a + isize it) - a)) with (zlen (idata it ++ zeros (align8 (a + isize it) - (a + isize it)))); [reflexivity|].
    rewrite zlen_app, Hd, zlen_zeros by lia. rewrite w64_small; [lia|].
    inversion Hr as [|? ? Hit2 Hr2]; subst.
    pose proof (isize_nonneg it2 Hit2).
    pose proof (layout_end_ge r2 (align8 (a + isize it) + isize it2) Hr2 ltac:(lia)).
    cbn [layout_end] in Hlt. lia.
Qed.
