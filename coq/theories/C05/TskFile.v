(* C05/C10 shared model, part 3: the tskit table schema layer on top of the kastore model.
   Executable definitions only.  Source: /repo/c/tskit/tables.c
     write_table_cols (430-447), write_table_ragged_cols (407-428), write_offset_col (362-405),
     read_table_cols (106-146), cast_offset_array (148-166), read_table_ragged_cols (168-266),
     read_table_properties (268-300), read_table (302-334), check_offsets (467-491),
     check_ragged_column / takeset_ragged_column / takeset_optional_id_column (668-726),
     the per-table *_dump / *_load pairs (schema lists regenerated into Gen/Generated.v),
     tsk_table_collection_read_format_data (11484-11632), _dump_indexes / _load_indexes
     (11634-11698), _load_reference_sequence (11700-11761), _loadf_inited (11763-11853),
     _dump_reference_sequence (11910-11929), _dumpf (11962-12053).
   A column is the list of its bytes; an offset column is the list of its values. *)
From Coq Require Import List ZArith Bool Lia.
From TskVerif Require Import Base.Common Gen.Generated C05.Bytes C05.Kastore.
Import ListNotations.
Open Scope Z_scope.

(* error classes at the tskit level (what Python maps to an exception class + TSK_ERR id) *)
Definition T_EOF : Z := 1.                  (* TSK_ERR_EOF -> EOFError *)
Definition T_KAS : Z := 2.                  (* any kastore error -> FileFormatError *)
Definition T_IO : Z := 6.                   (* TSK_ERR_IO -> OSError *)
Definition T_FILE_FORMAT : Z := 10.
Definition T_VERSION_TOO_OLD : Z := 11.
Definition T_VERSION_TOO_NEW : Z := 12.
Definition T_BAD_COLUMN_TYPE : Z := 13.
Definition T_REQUIRED_COL_NOT_FOUND : Z := 14.
Definition T_BOTH_COLUMNS_REQUIRED : Z := 15.
Definition T_BAD_OFFSET : Z := 16.
Definition T_BAD_SEQUENCE_LENGTH : Z := 17.

Definition kas_err_to_tsk (e : Z) : Z :=
  if e =? E_EOF then T_EOF else if e =? E_IO then T_IO else T_KAS.

Record table := mk_table {
  t_n : Z;                                  (* num_rows *)
  t_cols : list (list Z);                   (* fixed-width columns, order of the read schema *)
  t_ragged : list (list Z * list Z);        (* (data bytes, offsets in elements), read-schema order *)
  t_schema : list Z }.                      (* metadata_schema ([] when the table has none) *)

Record tcoll := mk_tcoll {
  tc_L : list Z;                            (* the 8 bytes of the double sequence_length *)
  tc_uuid : list Z;
  tc_time_units : list Z;
  tc_metadata : list Z;
  tc_metadata_schema : list Z;
  tc_tables : list table;                   (* order of Generated.tsk_table_schemas (load order) *)
  tc_index : option (list Z * list Z);      (* insertion / removal order, bytes *)
  tc_refseq : option (list Z * list Z * list Z * list Z) }.   (* data, url, metadata, schema *)

Definition tschema := (list (list Z * Z * bool) * list (list Z * Z * bool) * list (list Z * Z)
                       * list (list Z * Z * bool) * list (list Z * Z))%type.
Definition s_rcols (s : tschema) := match s with (a, _, _, _, _) => a end.
Definition s_rragged (s : tschema) := match s with (_, b, _, _, _) => b end.
Definition s_rprops (s : tschema) := match s with (_, _, c, _, _) => c end.
Definition s_wcols (s : tschema) := match s with (_, _, _, d, _) => d end.
Definition s_wragged (s : tschema) := match s with (_, _, _, _, e) => e end.

Definition offset_suffix : list Z := [95; 111; 102; 102; 115; 101; 116].      (* "_offset" *)
Definition uint32_max : Z := 4294967295.

Fixpoint assoc_key {A} (k : list Z) (l : list (list Z * A)) : option A :=
  match l with
  | [] => None
  | (k', v) :: r => if zlist_eqb k k' then Some v else assoc_key k r
  end.

(* ---------------- dump ---------------- *)

Definition mk_col_item (key : list Z) (ty : Z) (data : list Z) : item :=
  mk_item key ty (zlen data / type_size ty) data.

(* write_offset_col: 32-bit unless the last offset exceeds UINT32_MAX (TSK_DUMP_FORCE_OFFSET_64 is
   not reachable from TableCollection.dump) *)
Definition narrow_type (offs : list Z) : Z :=
  if uint32_max <? last offs 0 then kas_uint64 else kas_uint32.
Definition enc_offsets (ty : Z) (offs : list Z) : list Z :=
  concat (map (le_enc (if ty =? kas_uint64 then 8 else 4)) offs).
Definition offset_item (key : list Z) (offs : list Z) : item :=
  let ty := narrow_type offs in
  mk_item (key ++ offset_suffix) ty (zlen offs) (enc_offsets ty offs).

Definition dump_table (s : tschema) (t : table) : list item :=
  let named := combine (map (fun c => fst (fst c)) (s_rcols s)) (t_cols t) in
  flat_map (fun c : list Z * Z * bool => match c with (k, ty, per_row) =>
              if per_row then match assoc_key k named with Some d => [mk_col_item k ty d] | None => [] end
              else [mk_col_item k ty (t_schema t)] end) (s_wcols s)
  ++ (let rnamed := combine (map (fun c => fst (fst c)) (s_rragged s)) (t_ragged t) in
      flat_map (fun c : list Z * Z => match c with (k, ty) =>
              match assoc_key k rnamed with
              | Some (d, offs) => [mk_col_item k ty d; offset_item k offs]
              | None => [] end end) (s_wragged s)).

Definition fmt_key (i : nat) : list Z := fst (nth i tsk_format_cols ([], 0)).
Definition fmt_ty (i : nat) : Z := snd (nth i tsk_format_cols ([], 0)).

Definition refseq_is_null (r : list Z * list Z * list Z * list Z) : bool :=
  match r with (d, u, m, s) => match d, u, m, s with [], [], [], [] => true | _, _, _, _ => false end end.

Definition tsk_dump (tc : tcoll) : list item :=
  [ mk_col_item (fmt_key 0) (fmt_ty 0) tsk_format_name;
    mk_col_item (fmt_key 1) (fmt_ty 1) (le_enc 4 tsk_file_format_version_major ++ le_enc 4 tsk_file_format_version_minor);
    mk_col_item (fmt_key 2) (fmt_ty 2) (tc_L tc);
    mk_col_item (fmt_key 3) (fmt_ty 3) (tc_uuid tc);
    mk_col_item (fmt_key 4) (fmt_ty 4) (tc_time_units tc);
    mk_col_item (fmt_key 5) (fmt_ty 5) (tc_metadata tc);
    mk_col_item (fmt_key 6) (fmt_ty 6) (tc_metadata_schema tc) ]
  ++ concat (map (fun p => dump_table (fst p) (snd p)) (combine tsk_table_schemas (tc_tables tc)))
  ++ match tc_index tc with
     | Some (ins, rem) =>
       [mk_col_item (fst (nth 0 tsk_index_cols ([], 0))) (snd (nth 0 tsk_index_cols ([], 0))) ins;
        mk_col_item (fst (nth 1 tsk_index_cols ([], 0))) (snd (nth 1 tsk_index_cols ([], 0))) rem]
     | None => []
     end
  ++ match tc_refseq tc with
     | Some (d, u, m, s) =>
       if refseq_is_null (d, u, m, s) then [] else
       map (fun p => mk_col_item (fst (fst p)) (snd (fst p)) (snd p)) (combine tsk_refseq_cols [d; u; m; s])
     | None => []
     end.

Definition tsk_dump_bytes (tc : tcoll) : list Z := kas_encode (tsk_dump tc).

(* ---------------- load ---------------- *)

Definition lift_kas {A} (r : res A) : res A :=
  match r with Err e => Err (kas_err_to_tsk e) | x => x end.

(* kastore_get: (type, array_len, block); the block is only looked at by [content] *)
Definition sget (rs : list ritem) (key : list Z) : res (option (Z * Z * list Z)) :=
  match kas_get rs key with
  | Ok None => Ok None
  | Ok (Some r) =>
    match rblock r with
    | Ok b => Ok (Some (rtype r, rlen r, b))
    | Err e => Err (kas_err_to_tsk e)         (* lazy read failed *)
    | OOB => OOB
    | Fuel => Fuel
    end
  | Err e => Err e
  | OOB => OOB
  | Fuel => Fuel
  end.

(* the array_len * size bytes the client then reads; beyond the block = out-of-bounds read *)
Definition content (ty len : Z) (b : list Z) : res (list Z) :=
  let sz := len * type_size ty in
  if zlen b <? sz then OOB else Ok (firstn (Z.to_nat sz) b).

(* kastore_gets_<type>: found + type as expected *)
Definition sget_typed (rs : list ritem) (key : list Z) (ty : Z) : res (Z * list Z) :=
  do o <- sget rs key;
  match o with
  | None => Err T_REQUIRED_COL_NOT_FOUND      (* KAS_ERR_KEY_NOT_FOUND, translated at out: (11619) *)
  | Some (t, len, b) => if t =? ty then Ok (len, b) else Err T_KAS   (* KAS_ERR_TYPE_MISMATCH *)
  end.

(* !(L[0] > 0.0) on the IEEE double with these little-endian bytes (fix cfb2bb6: a NaN is
   rejected like zero and negative values) *)
Definition double_not_positive (b : list Z) : bool :=
  let bits := le_dec b in
  let frac := bits mod 4503599627370496 in
  let ex := (bits / 4503599627370496) mod 2048 in
  let sign := bits / 9223372036854775808 in
  let is_nan := (ex =? 2047) && negb (frac =? 0) in
  is_nan || (sign =? 1) || ((ex =? 0) && (frac =? 0)).

(* !tsk_isfinite(L): exponent bits all ones (infinities and NaNs) *)
Definition double_not_finite (b : list Z) : bool :=
  (le_dec b / 4503599627370496) mod 2048 =? 2047.

(* the pinned (pre-fix) test `L[0] <= 0.0`, which a NaN passed: kept for the historical record *)
Definition double_le_zero_pinned (b : list Z) : bool :=
  let bits := le_dec b in
  let frac := bits mod 4503599627370496 in
  let ex := (bits / 4503599627370496) mod 2048 in
  let sign := bits / 9223372036854775808 in
  let is_nan := (ex =? 2047) && negb (frac =? 0) in
  negb is_nan && ((sign =? 1) || ((ex =? 0) && (frac =? 0))).

Definition dec_offsets (w : nat) (b : list Z) (n : nat) : list Z :=
  map (fun i => le_dec (firstn w (skipn (i * w) b))) (seq 0 n).

(* check_offsets(num_rows, offsets, 0, false) *)
Fixpoint monotone (l : list Z) : bool :=
  match l with
  | a :: ((b :: _) as r) => (a <=? b) && monotone r
  | _ => true
  end.
Definition check_offsets (n : Z) (offs : list Z) : res unit :=
  if zlen offs <? n + 1 then OOB else
  if negb (nth 0 offs 0 =? 0) then Err T_BAD_OFFSET else
  if monotone (firstn (Z.to_nat (n + 1)) offs) then Ok tt else Err T_BAD_OFFSET.

Definition UNSET : Z := 18446744073709551615.   (* TSK_NUM_ROWS_UNSET = (tsk_size_t) -1: a stored length of 2^64-1 is taken for "unset" *)

(* read_table_cols; the accumulator is (num_rows, columns read so far, reversed) *)
Fixpoint read_cols (rs : list ritem) (cols : list (list Z * Z * bool)) (nrows : Z)
  : res (Z * list (option (Z * list Z))) :=
  match cols with
  | [] => Ok (nrows, [])
  | (k, ty, optional) :: r =>
    do o <- sget rs k;
    match o with
    | Some (t, len, b) =>
      if negb (nrows =? UNSET) && negb (nrows =? len) then Err T_FILE_FORMAT else
      if negb (t =? ty) then Err T_BAD_COLUMN_TYPE else
      do '(n', l) <- read_cols rs r len;
      Ok (n', Some (len, b) :: l)
    | None =>
      if optional then (do '(n', l) <- read_cols rs r nrows; Ok (n', None :: l))
      else Err T_REQUIRED_COL_NOT_FOUND
    end
  end.

(* read_table_ragged_cols *)
Fixpoint read_ragged (rs : list ritem) (cols : list (list Z * Z * bool)) (nrows : Z)
  : res (Z * list (option (list Z * list Z))) :=
  match cols with
  | [] => Ok (nrows, [])
  | (k, ty, optional) :: r =>
    do o <- sget rs k;
    do dat <- match o with
              | Some (t, len, b) => if negb (t =? ty) then Err T_BAD_COLUMN_TYPE else Ok (Some (len, b))
              | None => if optional then Ok None else Err T_REQUIRED_COL_NOT_FOUND
              end;
    do oo <- sget rs (k ++ offset_suffix);
    match dat, oo with
    | Some _, None | None, Some _ => Err T_BOTH_COLUMNS_REQUIRED
    | None, None => do '(n', l) <- read_ragged rs r nrows; Ok (n', None :: l)
    | Some (dlen, db), Some (ot, olen, ob) =>
      if olen =? 0 then Err T_FILE_FORMAT else
      if negb (nrows =? UNSET) && negb (nrows =? olen - 1) then Err T_FILE_FORMAT else
      let n := olen - 1 in
      if negb ((ot =? kas_uint64) || (ot =? kas_uint32)) then Err T_BAD_COLUMN_TYPE else
      do obytes <- content ot olen ob;
      let offs := dec_offsets (if ot =? kas_uint64 then 8 else 4) obytes (Z.to_nat olen) in
      if negb (last offs 0 =? dlen) then Err T_BAD_OFFSET else
      do dbytes <- content ty dlen db;
      do '(n', l) <- read_ragged rs r n;
      Ok (n', Some (dbytes, offs) :: l)
    end
  end.

Definition read_props (rs : list ritem) (props : list (list Z * Z)) : res (list Z) :=
  match props with
  | [] => Ok []
  | (k, ty) :: _ =>
    do o <- sget rs k;
    match o with
    | Some (t, len, b) => if negb (t =? ty) then Err T_BAD_COLUMN_TYPE else content ty len b
    | None => Ok []
    end
  end.

Definition unknown_time_col (n : Z) : list Z :=
  concat (repeat (le_enc 8 tsk_unknown_time_bits) (Z.to_nat n)).

(* read_table + <T>_takeset_columns *)
Definition load_table (rs : list ritem) (s : tschema) : res table :=
  do '(n1, cols) <- read_cols rs (s_rcols s) UNSET;
  do '(n, rag) <- read_ragged rs (s_rragged s) n1;
  if n =? UNSET then Err T_FILE_FORMAT else
  do schema <- read_props rs (s_rprops s);
  (* takeset: offsets of every supplied ragged column are checked first *)
  do _ <- fold_right (fun (c : option (list Z * list Z)) (acc : res unit) =>
                        do _ <- acc; match c with Some (_, offs) => check_offsets n offs | None => Ok tt end)
                     (Ok tt) (rev rag);
  do cols' <- fold_right (fun (c : (list Z * Z * bool) * option (Z * list Z)) (acc : res (list (list Z))) =>
                        do l <- acc;
                        match c with
                        | ((_, ty, _), Some (_, b)) => do d <- content ty n b; Ok (d :: l)   (* num_rows entries are used *)
                        | (_, None) => Ok (unknown_time_col n :: l)     (* only mutations/time is optional *)
                        end) (Ok []) (combine (s_rcols s) cols);
  Ok (mk_table n cols'
               (map (fun c => match c with Some x => x | None => ([], repeat 0 (Z.to_nat (n + 1))) end) rag)
               schema).

Fixpoint load_tables (rs : list ritem) (ss : list tschema) : res (list table) :=
  match ss with
  | [] => Ok []
  | s :: r => do t <- load_table rs s; do l <- load_tables rs r; Ok (t :: l)
  end.

Definition empty_table (s : tschema) : table :=
  mk_table 0 (map (fun _ => []) (s_rcols s)) (map (fun _ => ([], [0])) (s_rragged s)) [].

Definition edges_index : nat := 1.   (* position of the edge table in tsk_table_schemas *)

Definition load_indexes (rs : list ritem) (num_edges : Z) : res (option (list Z * list Z)) :=
  let k0 := fst (nth 0 tsk_index_cols ([], 0)) in
  let k1 := fst (nth 1 tsk_index_cols ([], 0)) in
  let ty := snd (nth 0 tsk_index_cols ([], 0)) in
  do '(n, cols) <- read_cols rs [(k0, ty, true); (k1, ty, true)] UNSET;
  match cols with
  | [Some (l0, b0); Some (l1, b1)] =>
    if negb (n =? num_edges) then Err T_FILE_FORMAT else
    do d0 <- content ty l0 b0; do d1 <- content ty l1 b1; Ok (Some (d0, d1))
  | [None; None] => Ok None
  | _ => Err T_BOTH_COLUMNS_REQUIRED
  end.

Definition opt_prop (rs : list ritem) (i : nat) : res (option (list Z)) :=
  let k := fst (nth i tsk_refseq_cols ([], 0)) in
  let ty := snd (nth i tsk_refseq_cols ([], 0)) in
  do o <- sget rs k;
  match o with
  | Some (t, len, b) => if negb (t =? ty) then Err T_BAD_COLUMN_TYPE else do d <- content ty len b; Ok (Some d)
  | None => Ok None
  end.

Definition load_refseq (rs : list ritem) : res (option (list Z * list Z * list Z * list Z)) :=
  do d <- opt_prop rs 0; do u <- opt_prop rs 1; do m <- opt_prop rs 2; do s <- opt_prop rs 3;
  let v := fun o => match o with Some x => x | None => [] end in
  let r := (v d, v u, v m, v s) in
  if refseq_is_null r then Ok None else Ok (Some r).

Definition opt_top (rs : list ritem) (i : nat) (default : list Z) : res (list Z) :=
  do o <- sget rs (fmt_key i);
  match o with
  | Some (t, len, b) => if negb (t =? fmt_ty i) then Err T_KAS else content (fmt_ty i) len b
  | None => Ok default
  end.

(* tsk_table_collection_loadf_inited on the stream [s] *)
Definition tsk_load_bytes (skip_tables skip_refseq : bool) (s : list Z) : res (tcoll * list Z) :=
  do '(rs, rest) <- lift_kas (kas_open (negb (skip_tables || skip_refseq)) s);
  (* read_format_data *)
  do '(nl, nb) <- sget_typed rs (fmt_key 0) (fmt_ty 0);
  if negb (nl =? zlen tsk_format_name) then Err T_FILE_FORMAT else
  do name <- content (fmt_ty 0) nl nb;
  if negb (zlist_eqb name tsk_format_name) then Err T_FILE_FORMAT else
  do '(vl, vb) <- sget_typed rs (fmt_key 1) (fmt_ty 1);
  if negb (vl =? 2) then Err T_FILE_FORMAT else
  do ver <- content (fmt_ty 1) vl vb;
  let major := le_dec (firstn 4 ver) in
  if major <? tsk_file_format_version_major then Err T_VERSION_TOO_OLD else
  if tsk_file_format_version_major <? major then Err T_VERSION_TOO_NEW else
  do '(ll, lb) <- sget_typed rs (fmt_key 2) (fmt_ty 2);
  if negb (ll =? 1) then Err T_FILE_FORMAT else
  do L <- content (fmt_ty 2) ll lb;
  if double_not_positive L then Err T_BAD_SEQUENCE_LENGTH else
  do '(ul, ub) <- sget_typed rs (fmt_key 3) (fmt_ty 3);
  if negb (ul =? tsk_uuid_size) then Err T_FILE_FORMAT else
  do uuid <- content (fmt_ty 3) ul ub;
  do tu <- opt_top rs 4 tsk_time_units_unknown;
  do md <- opt_top rs 5 [];
  do ms <- opt_top rs 6 [];
  do tabs <- (if skip_tables then Ok (map empty_table tsk_table_schemas) else load_tables rs tsk_table_schemas);
  (* skip_tables: tsk_table_collection_build_index -> check_integrity, which (since c14733b)
     also rejects a non-finite sequence_length *)
  do idx <- (if skip_tables then (if double_not_finite L then Err T_BAD_SEQUENCE_LENGTH else Ok (Some ([], [])))
             else load_indexes rs (t_n (nth edges_index tabs (mk_table 0 [] [] []))));
  do rsq <- (if skip_refseq then Ok None else load_refseq rs);
  Ok (mk_tcoll L uuid tu md ms tabs idx rsq, rest).

(* the canonical form in which a collection comes back: an all-empty reference sequence is the
   null reference sequence *)
Definition tc_normalise (tc : tcoll) : tcoll :=
  mk_tcoll (tc_L tc) (tc_uuid tc) (tc_time_units tc) (tc_metadata tc) (tc_metadata_schema tc) (tc_tables tc)
           (tc_index tc)
           (match tc_refseq tc with Some r => if refseq_is_null r then None else Some r | None => None end).

(* decidable equality of collections, for the correspondence checks *)
Definition pair_eqb {A B} (fa : A -> A -> bool) (fb : B -> B -> bool) (x y : A * B) : bool :=
  fa (fst x) (fst y) && fb (snd x) (snd y).
Definition table_eqb (a b : table) : bool :=
  (t_n a =? t_n b) && list_eqb zlist_eqb (t_cols a) (t_cols b)
  && list_eqb (pair_eqb zlist_eqb zlist_eqb) (t_ragged a) (t_ragged b) && zlist_eqb (t_schema a) (t_schema b).
Definition tcoll_eqb (a b : tcoll) : bool :=
  zlist_eqb (tc_L a) (tc_L b) && zlist_eqb (tc_uuid a) (tc_uuid b)
  && zlist_eqb (tc_time_units a) (tc_time_units b) && zlist_eqb (tc_metadata a) (tc_metadata b)
  && zlist_eqb (tc_metadata_schema a) (tc_metadata_schema b)
  && list_eqb table_eqb (tc_tables a) (tc_tables b)
  && opt_eqb (pair_eqb zlist_eqb zlist_eqb) (tc_index a) (tc_index b)
  && opt_eqb (pair_eqb (pair_eqb (pair_eqb zlist_eqb zlist_eqb) zlist_eqb) zlist_eqb) (tc_refseq a) (tc_refseq b).

(* facts about the regenerated schema that the definitions above rely on *)
Example schema_shape :
  length tsk_table_schemas = 8%nat /\ length tsk_format_cols = 7%nat /\ length tsk_index_cols = 2%nat
  /\ length tsk_refseq_cols = 4%nat
  /\ forallb (fun s : tschema => (length (s_rprops s) <=? 1)%nat) tsk_table_schemas = true
  /\ nth edges_index tsk_table_names [] = [101; 100; 103; 101].
Proof. repeat split; reflexivity. Qed.
