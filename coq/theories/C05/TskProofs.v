(* C05: proofs about the table schema layer (C05/TskFile.v): offset columns survive the 32/64-bit
   narrowing of write_offset_col and the widening of read_table_ragged_cols / cast_offset_array. *)
From Coq Require Import List ZArith Bool Lia.
From TskVerif Require Import Base.Common Gen.Generated C05.Bytes C05.Kastore C05.KastoreProofs C05.TskFile.
Import ListNotations.
Open Scope Z_scope.

Lemma skipn_add_app {A} (a b : list A) w n : length a = w -> skipn (w + n) (a ++ b) = skipn n b.
Proof.
  intros <-. rewrite skipn_app. rewrite skipn_all2 by lia.
  replace (length a + n - length a)%nat with n by lia. reflexivity.
Qed.

Lemma dec_chunks w (Hw : (0 < w)%nat) : forall (offs : list Z) (tail : list Z),
  map (fun i => le_dec (firstn w (skipn (i * w) (concat (map (le_enc w) offs) ++ tail)))) (seq 0 (length offs))
  = map (fun o => o mod 256 ^ Z.of_nat w) offs.
Proof.
  induction offs as [|o r IH]; intros tail; [reflexivity|].
  cbn [length seq map concat]. f_equal.
  - rewrite Nat.mul_0_l. cbn [skipn]. rewrite <- app_assoc, firstn_app_exact by apply le_enc_length.
    apply le_dec_enc.
  - rewrite <- seq_shift, map_map. rewrite <- (IH tail).
    apply map_ext. intros i.
    replace (S i * w)%nat with (w + i * w)%nat by lia.
    rewrite <- app_assoc. rewrite skipn_add_app by apply le_enc_length. reflexivity.
Qed.

(* (c) widen (narrow offs) = offs: 32-bit storage exactly when the last offset fits in
   uint32 (offsets are non-decreasing, so every entry then fits), 64-bit otherwise *)
Theorem offsets_narrow_widen offs :
  Forall (fun o => 0 <= o <= last offs 0) offs -> last offs 0 < two64 ->
  let ty := narrow_type offs in
  (ty = kas_uint32 <-> last offs 0 <= uint32_max) /\ (ty = kas_uint64 <-> uint32_max < last offs 0) /\
  dec_offsets (if ty =? kas_uint64 then 8 else 4) (enc_offsets ty offs) (length offs) = offs.
Proof.
  intros Hall Hlast. cbv zeta. unfold narrow_type.
  destruct (uint32_max <? last offs 0) eqn:E.
  - apply Z.ltb_lt in E. split; [|split].
    + split; [discriminate | lia].
    + split; auto.
    + unfold dec_offsets, enc_offsets. rewrite Z.eqb_refl.
      rewrite <- (app_nil_r (concat _)). rewrite dec_chunks by lia.
      rewrite <- (map_id offs) at 2. apply map_ext_in. intros o Ho.
      rewrite Forall_forall in Hall. specialize (Hall o Ho). rewrite pow256_8. apply Z.mod_small. lia.
  - apply Z.ltb_ge in E. split; [|split].
    + split; auto.
    + split; [discriminate | lia].
    + unfold dec_offsets, enc_offsets. change (kas_uint32 =? kas_uint64) with false. cbv iota.
      rewrite <- (app_nil_r (concat _)). rewrite dec_chunks by lia.
      rewrite <- (map_id offs) at 2. apply map_ext_in. intros o Ho.
      rewrite Forall_forall in Hall. specialize (Hall o Ho). rewrite pow256_4. apply Z.mod_small.
      unfold uint32_max in E. lia.
Qed.

Example offsets_narrow_ex :
  narrow_type [0; 3; 4294967295] = kas_uint32 /\ narrow_type [0; 3; 4294967296] = kas_uint64 /\
  dec_offsets 4 (enc_offsets kas_uint32 [0; 3; 4294967295]) 3 = [0; 3; 4294967295] /\
  dec_offsets 8 (enc_offsets kas_uint64 [0; 3; 4294967296]) 3 = [0; 3; 4294967296] /\
  (* the wrong width would not: *) dec_offsets 4 (enc_offsets kas_uint32 [0; 3; 4294967296]) 3 = [0; 3; 0].
Proof. vm_compute. repeat split; reflexivity. Qed.
