(* C05: stream behaviour of the container reader and the byte level of the table-collection
   round trip. *)
From Coq Require Import List ZArith Bool Lia.
From TskVerif Require Import Base.Common Gen.Generated C05.Bytes C05.Kastore C05.KastoreProofs C05.TskFile.
Import ListNotations.
Open Scope Z_scope.

Definition enc_ok (its : list item) : Prop :=
  Forall item_ok its /\ zlen its < 4294967296 /\ kas_size (sort_items its) < two64.

(* (e) two stores back to back: the first read consumes exactly the first store, the second read
   the second, the third reports end-of-stream *)
Theorem stream_two a b : enc_ok a -> enc_ok b ->
  kas_decode (kas_encode a ++ kas_encode b) = Ok (sort_items a, kas_encode b)
  /\ kas_decode (kas_encode b) = Ok (sort_items b, [])
  /\ kas_decode [] = Err E_EOF.
Proof.
  intros (Ha1 & Ha2 & Ha3) (Hb1 & Hb2 & Hb3). split; [|split].
  - apply kas_roundtrip; auto.
  - rewrite <- (app_nil_r (kas_encode b)) at 1. apply kas_roundtrip; auto.
  - reflexivity.
Qed.

(* any number of stores: reading until end-of-stream returns them all, in order *)
Fixpoint read_all_stores (fuel : nat) (s : list Z) : res (list (list item)) :=
  match fuel with
  | O => Fuel
  | S fuel' =>
    match kas_decode s with
    | Ok (its, rest) => match read_all_stores fuel' rest with Ok l => Ok (its :: l) | e => e end
    | Err e => if e =? E_EOF then Ok [] else Err e
    | OOB => OOB
    | Fuel => Fuel
    end
  end.

Theorem stream_multi (stores : list (list item)) :
  Forall enc_ok stores ->
  read_all_stores (S (length stores)) (concat (map kas_encode stores)) = Ok (map sort_items stores).
Proof.
  induction stores as [|a r IH]; intros H; [reflexivity|].
  inversion H as [|? ? (Ha1 & Ha2 & Ha3) Hr]; subst.
  cbn [length map concat]. remember (S (length r)) as k. cbn [read_all_stores].
  rewrite kas_roundtrip by auto. subst k. rewrite IH by auto. reflexivity.
Qed.

Example stream_multi_ex :
  let a := [mk_item [120] 1 2 [7; 8]] in let b := [mk_item [122] 9 0 []; mk_item [121] 4 1 [1; 0; 0; 0]] in
  Forall enc_ok [a; b; a] /\
  read_all_stores 4 (kas_encode a ++ kas_encode b ++ kas_encode a) = Ok [sort_items a; sort_items b; sort_items a].
Proof.
  cbv zeta. split; [|vm_compute; reflexivity].
  repeat constructor; try (vm_compute; congruence); vm_compute; try reflexivity; discriminate.
Qed.

(* (d), byte level: every item tsk_table_collection_dumpf puts into the store is read back
   exactly (key, type, length, bytes), in key order, and the stream is left at the end of the
   object.  Full statement, kept as a goal:
     tc_roundtrip : forall tc rest, WF tc ->
       tsk_load_bytes false false (tsk_dump_bytes tc ++ rest) = Ok (tc_normalise tc, rest)
   Proved towards it: this byte-level round trip, the lookup (SearchProofs.kas_lookup_after_roundtrip:
   kastore_get finds exactly what was put) and the offset narrowing (TskProofs.offsets_narrow_widen).
   Missing: the schema-driven reconstruction of the columns (read_cols / read_ragged / load_table on
   the items written by dump_table, generic in the regenerated schema lists).
   That step is checked on every run instead: harness/props/c05.py evaluates
   [tcoll_eqb (load (dump tc)) (tc_normalise tc)] and [dump tc = the file tskit wrote] in Coq for
   every generated table collection. *)
Theorem tc_roundtrip_partial tc rest :
  enc_ok (tsk_dump tc) ->
  kas_decode (tsk_dump_bytes tc ++ rest) = Ok (sort_items (tsk_dump tc), rest).
Proof. intros (H1 & H2 & H3). unfold tsk_dump_bytes. apply kas_roundtrip; auto. Qed.

Lemma item_okb_ok it : item_okb it = true -> item_ok it.
Proof.
  unfold item_okb, item_ok. rewrite !andb_true_iff, negb_true_iff.
  intros ((((H1 & H2) & H3) & H4) & H5).
  apply Z.leb_le in H1, H3. apply Z.ltb_lt in H2. apply Z.eqb_eq in H4. apply Z.eqb_neq in H5.
  repeat split; auto. intros E. rewrite E in H5. apply H5. reflexivity.
Qed.

Lemma enc_okb_ok its :
  forallb item_okb its && (zlen its <? 4294967296) && (kas_size (sort_items its) <? two64) = true -> enc_ok its.
Proof.
  rewrite !andb_true_iff. intros ((H1 & H2) & H3). apply Z.ltb_lt in H2, H3.
  split; [|split]; auto. rewrite forallb_forall in H1. apply Forall_forall. intros x Hx. apply item_okb_ok; auto.
Qed.

(* non-vacuity: a collection with one node row (metadata 00 FF), sequence length 1.0 *)
Definition tc_ex : tcoll :=
  mk_tcoll [0; 0; 0; 0; 0; 0; 240; 63] (repeat 48 36) [116; 105; 99; 107; 115] [0; 255] [123; 125]
    (mk_table 1 [[0; 0; 0; 0; 0; 0; 0; 64]; [1; 0; 0; 0]; [255; 255; 255; 255]; [255; 255; 255; 255]] [([0; 255], [0; 2])] []
       :: map empty_table (tl tsk_table_schemas))
    None (Some ([65; 67], [], [], [])).

Example tc_roundtrip_ex :
  enc_ok (tsk_dump tc_ex) /\ length (tsk_dump tc_ex) = 64%nat /\
  match tsk_load_bytes false false (tsk_dump_bytes tc_ex ++ [9]) with
  | Ok (tc', rest) => tcoll_eqb tc' (tc_normalise tc_ex) && zlist_eqb rest [9]
  | _ => false
  end = true.
Proof. split; [apply enc_okb_ok; vm_compute; reflexivity | vm_compute; split; reflexivity]. Qed.
