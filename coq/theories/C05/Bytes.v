(* C05/C10 shared model, part 1: bytes, little-endian integers, 64-bit wrap-around
   arithmetic, stream reads.  A byte string is a [list Z] with every element in 0..255
   ([bytes_ok]); nothing below relies on that except where stated. *)
From Coq Require Import List ZArith Bool Lia.
From TskVerif Require Import Base.Common.
Import ListNotations.
Open Scope Z_scope.

Definition byte_ok (b : Z) : Prop := 0 <= b < 256.
Definition bytes_ok (l : list Z) : Prop := Forall byte_ok l.
Definition byte_okb (b : Z) : bool := (0 <=? b) && (b <? 256).
Definition bytes_okb (l : list Z) : bool := forallb byte_okb l.

(* memcpy of a uintN_t to/from the file on a little-endian machine (kastore.c:139-143,
   175-178, 238-243, 284-288).  Encoding reduces modulo 256^n, like the C casts. *)
Fixpoint le_enc (n : nat) (v : Z) : list Z :=
  match n with
  | O => []
  | S n' => (v mod 256) :: le_enc n' (v / 256)
  end.

Fixpoint le_dec (l : list Z) : Z :=
  match l with
  | [] => 0
  | b :: t => b + 256 * le_dec t
  end.

Definition two64 : Z := 18446744073709551616.
Definition w64 (x : Z) : Z := x mod two64.

(* bytes [off, off+len) of a buffer; total (short at the end), used only after a length check *)
Definition slice (l : list Z) (off len : Z) : list Z :=
  firstn (Z.to_nat len) (skipn (Z.to_nat off) l).

(* checked variant: OOB when the range is not inside the buffer *)
Definition cslice (l : list Z) (off len : Z) : res (list Z) :=
  if (off <? 0) || (len <? 0) || (zlen l <? off + len) then OOB else Ok (slice l off len).

(* fread(buf, n, 1, f) on the remaining stream: all n bytes or a short read *)
Definition take (n : Z) (s : list Z) : option (list Z * list Z) :=
  if (n <? 0) || (zlen s <? n) then None
  else Some (firstn (Z.to_nat n) s, skipn (Z.to_nat n) s).

Definition zeros (n : Z) : list Z := repeat 0 (Z.to_nat n).

(* ---- lemmas ---- *)

Lemma le_enc_length n v : length (le_enc n v) = n.
Proof. revert v; induction n; intros; simpl; auto. Qed.

Lemma le_enc_bytes_ok n v : bytes_ok (le_enc n v).
Proof.
  revert v; induction n; intros; simpl; constructor.
  - unfold byte_ok. apply Z.mod_pos_bound. lia.
  - apply IHn.
Qed.

Lemma le_dec_enc n v : le_dec (le_enc n v) = v mod 256 ^ Z.of_nat n.
Proof.
  revert v; induction n; intros v.
  - simpl. rewrite Z.mod_1_r. reflexivity.
  - cbn [le_enc le_dec]. rewrite IHn.
    replace (256 ^ Z.of_nat (S n)) with (256 * 256 ^ Z.of_nat n).
    + rewrite Z.rem_mul_r by (try lia; apply Z.pow_pos_nonneg; lia). reflexivity.
    + rewrite Nat2Z.inj_succ, Z.pow_succ_r by lia. reflexivity.
Qed.

Lemma le_dec_range l : bytes_ok l -> 0 <= le_dec l < 256 ^ Z.of_nat (length l).
Proof.
  induction 1 as [|b t Hb Ht IH].
  - simpl. lia.
  - cbn [le_dec length]. rewrite Nat2Z.inj_succ, Z.pow_succ_r by lia.
    unfold byte_ok in Hb. nia.
Qed.

Lemma le_enc_dec l : bytes_ok l -> le_enc (length l) (le_dec l) = l.
Proof.
  induction 1 as [|b t Hb Ht IH].
  - reflexivity.
  - cbn [le_dec length le_enc]. unfold byte_ok in Hb.
    replace ((b + 256 * le_dec t) mod 256) with b.
    + replace ((b + 256 * le_dec t) / 256) with (le_dec t).
      * rewrite IH. reflexivity.
      * rewrite Z.mul_comm, Z.div_add by lia. rewrite Z.div_small by lia. lia.
    + rewrite Z.mul_comm, Z.mod_add by lia. rewrite Z.mod_small by lia. reflexivity.
Qed.

Lemma le_dec_inj a b : bytes_ok a -> bytes_ok b -> length a = length b ->
  le_dec a = le_dec b -> a = b.
Proof.
  intros Ha Hb Hl E. rewrite <- (le_enc_dec a Ha), <- (le_enc_dec b Hb), Hl, E. reflexivity.
Qed.

Lemma pow256_2 : 256 ^ Z.of_nat 2 = 65536. Proof. reflexivity. Qed.
Lemma pow256_4 : 256 ^ Z.of_nat 4 = 4294967296. Proof. reflexivity. Qed.
Lemma pow256_8 : 256 ^ Z.of_nat 8 = two64. Proof. reflexivity. Qed.

(* the three widths the format uses *)
Lemma le16_roundtrip v : 0 <= v < 65536 -> le_dec (le_enc 2 v) = v.
Proof. intros. rewrite le_dec_enc, pow256_2. apply Z.mod_small; lia. Qed.
Lemma le32_roundtrip v : 0 <= v < 4294967296 -> le_dec (le_enc 4 v) = v.
Proof. intros. rewrite le_dec_enc, pow256_4. apply Z.mod_small; lia. Qed.
Lemma le64_roundtrip v : 0 <= v < two64 -> le_dec (le_enc 8 v) = v.
Proof. intros. rewrite le_dec_enc, pow256_8. apply Z.mod_small; lia. Qed.

Lemma le64_dec_w64 v : le_dec (le_enc 8 v) = w64 v.
Proof. rewrite le_dec_enc, pow256_8. reflexivity. Qed.

Lemma zlen_app {A} (a b : list A) : zlen (a ++ b) = zlen a + zlen b.
Proof. unfold zlen. rewrite app_length. lia. Qed.

Lemma zlen_nonneg {A} (a : list A) : 0 <= zlen a.
Proof. unfold zlen. lia. Qed.

Lemma zlen_le_enc n v : zlen (le_enc n v) = Z.of_nat n.
Proof. unfold zlen. rewrite le_enc_length. reflexivity. Qed.

Lemma zlen_zeros n : 0 <= n -> zlen (zeros n) = n.
Proof. intros. unfold zlen, zeros. rewrite repeat_length. lia. Qed.

Lemma bytes_ok_app a b : bytes_ok a -> bytes_ok b -> bytes_ok (a ++ b).
Proof. intros. apply Forall_app. split; assumption. Qed.

Lemma bytes_ok_zeros n : bytes_ok (zeros n).
Proof. unfold zeros. induction (Z.to_nat n); simpl; constructor; auto. unfold byte_ok; lia. Qed.

Lemma take_app a b : take (zlen a) (a ++ b) = Some (a, b).
Proof.
  unfold take. pose proof (zlen_nonneg a). rewrite zlen_app.
  pose proof (zlen_nonneg b).
  replace (zlen a <? 0) with false by (symmetry; apply Z.ltb_ge; lia).
  replace (zlen a + zlen b <? zlen a) with false by (symmetry; apply Z.ltb_ge; lia).
  simpl. unfold zlen. rewrite Nat2Z.id.
  rewrite firstn_app, Nat.sub_diag, firstn_all, firstn_O, app_nil_r.
  rewrite skipn_app, Nat.sub_diag, skipn_all. reflexivity.
Qed.

Lemma take_Some n s a b : take n s = Some (a, b) -> s = a ++ b /\ zlen a = n.
Proof.
  unfold take. destruct ((n <? 0) || (zlen s <? n)) eqn:E; [discriminate|].
  apply orb_false_iff in E as [E1 E2]. apply Z.ltb_ge in E1. apply Z.ltb_ge in E2.
  intros H; inversion H; subst. split.
  - symmetry. apply firstn_skipn.
  - unfold zlen in *. rewrite firstn_length. lia.
Qed.

Lemma take_short n s : zlen s < n -> take n s = None.
Proof.
  intros. unfold take. replace (zlen s <? n) with true by (symmetry; apply Z.ltb_lt; lia).
  rewrite orb_true_r. reflexivity.
Qed.

Lemma slice_app_exact a b c : slice (a ++ b ++ c) (zlen a) (zlen b) = b.
Proof.
  unfold slice, zlen. rewrite !Nat2Z.id.
  rewrite skipn_app, Nat.sub_diag, skipn_all. simpl.
  rewrite firstn_app, Nat.sub_diag, firstn_all, firstn_O, app_nil_r. reflexivity.
Qed.

Example le_enc_ex : le_enc 4 305419896 = [120; 86; 52; 18]. Proof. reflexivity. Qed.
Example le_dec_ex : le_dec [120; 86; 52; 18] = 305419896. Proof. reflexivity. Qed.
Example le_enc_wraps : le_enc 2 65537 = [1; 0]. Proof. reflexivity. Qed.
