(* C05 model, part 4: equality of table collections.  Executable definitions only.
   Source: /repo/c/tskit/tables.c  tsk_<T>_table_equals (individual 1801, node 2504, edge 3223,
   site 3851, mutation 4628, migration 5513, population 6123, provenance 6772),
   tsk_reference_sequence_equals (950), tsk_table_collection_equals (11155).
   tsk_memcmp(a, b, len) is modelled on the first len bytes / entries of both arrays. *)
From Coq Require Import List ZArith Bool Lia.
From TskVerif Require Import Base.Common Gen.Generated C05.Bytes C05.Kastore C05.TskFile.
Import ListNotations.
Open Scope Z_scope.

Record cmp_opts := mk_opts {
  ign_metadata : bool; ign_ts_metadata : bool; ign_provenance : bool; ign_timestamps : bool;
  ign_tables : bool; ign_refseq : bool }.

Definition memcmp_eq {A} (eqb : A -> A -> bool) (a b : list A) (len : Z) : bool :=
  list_eqb eqb (firstn (Z.to_nat len) a) (firstn (Z.to_nat len) b).

Definition col_sizes (s : tschema) : list Z := map (fun c => type_size (snd (fst c))) (s_rcols s).
Definition rag_sizes (s : tschema) : list Z := map (fun c => type_size (snd (fst c))) (s_rragged s).

Fixpoint cols_equal (n : Z) (sizes : list Z) (a b : list (list Z)) : bool :=
  match sizes, a, b with
  | [], [], [] => true
  | sz :: ss, x :: a', y :: b' => memcmp_eq Z.eqb x y (n * sz) && cols_equal n ss a' b'
  | _, _, _ => false
  end.

(* one ragged column: offsets over num_rows + 1 entries, data over self's length; [check_len]
   = the function also compares the two data lengths *)
Definition ragged_equal (check_len : bool) (n sz : Z) (x y : list Z * list Z) : bool :=
  (if check_len then zlen (fst x) =? zlen (fst y) else true)
  && memcmp_eq Z.eqb (snd x) (snd y) (n + 1) && memcmp_eq Z.eqb (fst x) (fst y) (zlen (fst x)).

Fixpoint raggeds_equal (check_len : bool) (n : Z) (sizes : list Z) (a b : list (list Z * list Z)) : bool :=
  match sizes, a, b with
  | [], [], [] => true
  | sz :: ss, x :: a', y :: b' => ragged_equal check_len n sz x y && raggeds_equal check_len n ss a' b'
  | _, _, _ => false
  end.

(* every table but provenances: fixed columns, the ragged columns before the last, and - unless
   TSK_CMP_IGNORE_METADATA - the last ragged column (metadata) with both lengths and the schema *)
Definition std_table_equals (check_len ign_md : bool) (s : tschema) (a b : table) : bool :=
  (t_n a =? t_n b)
  && cols_equal (t_n a) (col_sizes s) (t_cols a) (t_cols b)
  && raggeds_equal check_len (t_n a) (removelast (rag_sizes s)) (removelast (t_ragged a)) (removelast (t_ragged b))
  && (ign_md ||
      ragged_equal true (t_n a) 1 (last (t_ragged a) ([], [])) (last (t_ragged b) ([], []))
      && (zlen (t_schema a) =? zlen (t_schema b))
      && memcmp_eq Z.eqb (t_schema a) (t_schema b) (zlen (t_schema a))).

(* provenances: ragged columns [timestamp; record] *)
Definition provenance_equals (ign_ts : bool) (a b : table) : bool :=
  (t_n a =? t_n b)
  && ragged_equal true (t_n a) 1 (nth 1 (t_ragged a) ([], [])) (nth 1 (t_ragged b) ([], []))
  && (ign_ts || ragged_equal true (t_n a) 1 (nth 0 (t_ragged a) ([], [])) (nth 0 (t_ragged b) ([], []))).

(* self->sequence_length == other->sequence_length on doubles *)
Definition double_eqb (a b : list Z) : bool :=
  let nan := fun x => (((le_dec x / 4503599627370496) mod 2048) =? 2047) && negb (le_dec x mod 4503599627370496 =? 0) in
  let zero := fun x => le_dec x mod 9223372036854775808 =? 0 in
  negb (nan a) && negb (nan b) && ((le_dec a =? le_dec b) || (zero a && zero b)).

Definition string_equal (a b : list Z) : bool := (zlen a =? zlen b) && memcmp_eq Z.eqb a b (zlen a).

Definition refseq_val (r : option (list Z * list Z * list Z * list Z)) :=
  match r with Some x => x | None => ([], [], [], []) end.

Definition refseq_equals (ign_md : bool) (a b : option (list Z * list Z * list Z * list Z)) : bool :=
  match refseq_val a, refseq_val b with
  | (d1, u1, m1, s1), (d2, u2, m2, s2) =>
    string_equal d1 d2 && string_equal u1 u2 && (ign_md || string_equal m1 m2 && string_equal s1 s2)
  end.

(* positions in tc_tables (= order of Generated.tsk_table_schemas) and which table functions
   compare the data lengths of their non-metadata ragged columns explicitly *)
Definition check_len_of (i : nat) : bool := match i with 2%nat | 3%nat => true | _ => false end.

Fixpoint std_tables_equal (ign_md : bool) (i : nat) (ss : list tschema) (a b : list table) : bool :=
  match ss, a, b with
  | [], [], [] => true
  | s :: ss', x :: a', y :: b' =>
    (if Nat.eqb i 7 then true else std_table_equals (check_len_of i) ign_md s x y)
    && std_tables_equal ign_md (S i) ss' a' b'
  | _, _, _ => false
  end.

Definition tc_equals (o : cmp_opts) (a b : tcoll) : bool :=
  double_eqb (tc_L a) (tc_L b) && string_equal (tc_time_units a) (tc_time_units b)
  && (ign_tables o ||
      std_tables_equal (ign_metadata o) 0 tsk_table_schemas (tc_tables a) (tc_tables b)
      && (ign_provenance o ||
          provenance_equals (ign_timestamps o) (nth 7 (tc_tables a) (mk_table 0 [] [] []))
                            (nth 7 (tc_tables b) (mk_table 0 [] [] []))))
  && (ign_metadata o || ign_ts_metadata o ||
      string_equal (tc_metadata a) (tc_metadata b) && string_equal (tc_metadata_schema a) (tc_metadata_schema b))
  && (ign_refseq o || refseq_equals (ign_metadata o) (tc_refseq a) (tc_refseq b)).

(* the layout assumptions above, checked against the regenerated schema *)
Example equals_layout :
  map (fun s : tschema => length (s_rragged s)) tsk_table_schemas = [1; 1; 2; 2; 1; 3; 1; 2]%nat
  /\ nth 7 tsk_table_names [] = [112; 114; 111; 118; 101; 110; 97; 110; 99; 101]
  /\ nth 2 tsk_table_names [] = [115; 105; 116; 101] /\ nth 3 tsk_table_names [] = [109; 117; 116; 97; 116; 105; 111; 110]
  /\ forallb (fun s : tschema => match rev (s_rragged s) with
                                 | (k, _, _) :: _ => zlist_eqb (skipn (length k - 8) k) [109; 101; 116; 97; 100; 97; 116; 97]
                                 | [] => false end) (firstn 7 tsk_table_schemas) = true.
Proof. repeat split; reflexivity. Qed.

(* the 64 option sets, bit i of m = option i in the order of the record *)
Definition opts_of_bits (m : Z) : cmp_opts :=
  mk_opts (Z.testbit m 0) (Z.testbit m 1) (Z.testbit m 2) (Z.testbit m 3) (Z.testbit m 4) (Z.testbit m 5).
Definition all_opts : list cmp_opts := map (fun i => opts_of_bits (Z.of_nat i)) (seq 0 64).
Definition equals_matrix (a b : tcoll) : list bool := map (fun o => tc_equals o a b) all_opts.
