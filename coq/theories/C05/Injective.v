(* C05 — the written bytes DETERMINE the content: two well-formed table collections whose dumps
   are byte-identical are equal after normalisation, and two item lists that encode to the same
   kastore file are the same key-sorted list.  Corollaries of tc_roundtrip / kas_roundtrip:
   lossless storage stated as injectivity of dump. *)
From Coq Require Import List ZArith.
From TskVerif Require Import Base.Common C05.Bytes C05.Kastore C05.KastoreProofs C05.TskFile
  C05.StreamProofs C05.TcRoundtrip.
Import ListNotations.
Open Scope Z_scope.

Lemma kas_encode_injective_proof its1 its2 :
  Forall item_ok its1 -> zlen its1 < 4294967296 -> kas_size (sort_items its1) < two64 ->
  Forall item_ok its2 -> zlen its2 < 4294967296 -> kas_size (sort_items its2) < two64 ->
  kas_encode its1 = kas_encode its2 -> sort_items its1 = sort_items its2.
Proof.
  intros A1 B1 C1 A2 B2 C2 E.
  pose proof (kas_roundtrip its1 [] A1 B1 C1) as R1.
  pose proof (kas_roundtrip its2 [] A2 B2 C2) as R2.
  rewrite E in R1. rewrite R1 in R2. congruence.
Qed.

Lemma dump_injective_proof tc1 tc2 :
  wf_tc tc1 -> enc_ok (tsk_dump tc1) -> NoDup (map ikey (tsk_dump tc1)) ->
  wf_tc tc2 -> enc_ok (tsk_dump tc2) -> NoDup (map ikey (tsk_dump tc2)) ->
  tsk_dump_bytes tc1 = tsk_dump_bytes tc2 -> tc_normalise tc1 = tc_normalise tc2.
Proof.
  intros A1 B1 C1 A2 B2 C2 E.
  pose proof (tc_roundtrip tc1 [] A1 B1 C1) as R1.
  pose proof (tc_roundtrip tc2 [] A2 B2 C2) as R2.
  rewrite E in R1. rewrite R1 in R2. congruence.
Qed.
