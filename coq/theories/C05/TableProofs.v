(* C05: the schema-generic column reconstruction.  If the opened store answers every key of a
   table's schema with what dump_table put there, load_table returns the table; the same for the
   whole collection ([tsk_load_of_answers]); with the container round trip this gives
   [tc_roundtrip] (TcRoundtrip.v). *)
From Coq Require Import List ZArith Bool Lia.
From TskVerif Require Import Base.Common Gen.Generated C05.Bytes C05.Kastore C05.KastoreProofs C05.TskFile C05.TskProofs.
Import ListNotations.
Open Scope Z_scope.

(* the store returns, for key k, an array of [len] elements of type [ty] whose bytes are [d] *)
Definition answers (rs : list ritem) (k : list Z) (ty len : Z) (d : list Z) : Prop :=
  exists b, sget rs k = Ok (Some (ty, len, b)) /\ content ty len b = Ok d.
Definition absent (rs : list ritem) (k : list Z) : Prop := sget rs k = Ok None.

Definition ckey (c : list Z * Z * bool) := fst (fst c).
Definition cty (c : list Z * Z * bool) := snd (fst c).

Lemma unset_val : UNSET = 18446744073709551615. Proof. reflexivity. Qed.

Lemma Forall2_len {A B} (P : A -> B -> Prop) l1 l2 : Forall2 P l1 l2 -> length l1 = length l2.
Proof. induction 1; cbn; auto. Qed.

Section Table.
Variable rs : list ritem.
Variable n : Z.
Hypothesis Hn : 0 <= n < UNSET.

Lemma read_cols_ok : forall cols vals nrows,
  nrows = UNSET \/ nrows = n ->
  Forall2 (fun c v => answers rs (ckey c) (cty c) n v) cols vals ->
  exists l, read_cols rs cols nrows = Ok (match cols with [] => nrows | _ => n end, l)
            /\ Forall2 (fun c o => exists b, o = Some (n, b)) cols l
            /\ Forall2 (fun cv o => forall b, o = Some (n, b) -> content (cty (fst cv)) n b = Ok (snd cv)) (combine cols vals) l.
Proof.
  induction cols as [|[[k ty] opt] r IH]; intros vals nrows Hnr H; inversion H as [|? v ? vs (b & Hs & Hc) Hr]; subst.
  - exists []. repeat split; constructor.
  - cbn [read_cols]. unfold ckey, cty in Hs, Hc. cbn [fst snd] in Hs, Hc. rewrite Hs. cbn [bind].
    replace (negb (nrows =? UNSET) && negb (nrows =? n)) with false.
    2:{ destruct Hnr as [-> | ->]; [rewrite Z.eqb_refl; reflexivity | rewrite Z.eqb_refl, andb_false_r; reflexivity]. }
    rewrite Z.eqb_refl. cbn [negb].
    destruct (IH vs n (or_intror eq_refl) Hr) as (l & Hl & Hf1 & Hf2). rewrite Hl. cbn [bind].
    exists (Some (n, b) :: l). split; [|split].
    + destruct r; reflexivity.
    + constructor; eauto.
    + cbn [combine]. constructor; auto. intros b' E. inversion E; subst. exact Hc.
Qed.

Lemma cols_fold_ok : forall cols vals l,
  Forall2 (fun c o => exists b, o = Some (n, b)) cols l ->
  Forall2 (fun cv o => forall b, o = Some (n, b) -> content (cty (fst cv)) n b = Ok (snd cv)) (combine cols vals) l ->
  length cols = length vals ->
  fold_right (fun (c : (list Z * Z * bool) * option (Z * list Z)) (acc : res (list (list Z))) =>
                do l <- acc;
                match c with
                | ((_, ty, _), Some (_, b)) => do d <- content ty n b; Ok (d :: l)
                | (_, None) => Ok (unknown_time_col n :: l)
                end) (Ok []) (combine cols l) = Ok vals.
Proof.
  induction cols as [|[[k ty] opt] r IH]; intros vals l H1 H2 Hlen.
  - destruct vals; [reflexivity | discriminate].
  - destruct vals as [|v vs]; [discriminate|]. inversion H1 as [|? o ? l' (b & Ho) H1']; subst.
    cbn [combine] in H2. inversion H2 as [|? ? ? ? Hc H2']; subst.
    cbn [combine fold_right]. rewrite (IH vs l' H1' H2') by (cbn in Hlen; lia). cbn [bind].
    specialize (Hc b eq_refl). unfold cty in Hc. cbn [fst snd] in Hc. rewrite Hc. reflexivity.
Qed.

Definition wf_offs (offs : list Z) : Prop :=
  zlen offs = n + 1 /\ nth 0 offs 0 = 0 /\ monotone offs = true
  /\ Forall (fun o => 0 <= o <= last offs 0) offs /\ last offs 0 < two64.

Definition rag_answers (c : list Z * Z * bool) (r : list Z * list Z) : Prop :=
  answers rs (ckey c) (cty c) (last (snd r) 0) (fst r)
  /\ answers rs (ckey c ++ offset_suffix) (narrow_type (snd r)) (n + 1) (enc_offsets (narrow_type (snd r)) (snd r))
  /\ wf_offs (snd r).

Lemma narrow_type_cases offs : narrow_type offs = kas_uint64 \/ narrow_type offs = kas_uint32.
Proof. unfold narrow_type. destruct (uint32_max <? last offs 0); auto. Qed.

Lemma read_ragged_ok : forall cols rvals nrows,
  nrows = UNSET \/ nrows = n ->
  Forall2 rag_answers cols rvals ->
  read_ragged rs cols nrows = Ok (match cols with [] => nrows | _ => n end, map (@Some _) rvals).
Proof.
  induction cols as [|[[k ty] opt] r IH]; intros rvals nrows Hnr H; inversion H as [|? [d offs] ? rv Ha Hr]; subst.
  - reflexivity.
  - destruct Ha as ((b & Hs & Hc) & (ob & Hos & Hoc) & (Hz & H0 & Hm & Hall & Hlast)).
    unfold ckey, cty in *. cbn [fst snd] in *.
    cbn [read_ragged]. rewrite Hs. cbn [bind]. rewrite Z.eqb_refl. cbn [negb bind]. rewrite Hos. cbn [bind].
    replace (n + 1 =? 0) with false by (symmetry; apply Z.eqb_neq; lia).
    replace (n + 1 - 1) with n by lia.
    replace (negb (nrows =? UNSET) && negb (nrows =? n)) with false.
    2:{ destruct Hnr as [-> | ->]; [rewrite Z.eqb_refl; reflexivity | rewrite Z.eqb_refl, andb_false_r; reflexivity]. }
    replace (negb ((narrow_type offs =? kas_uint64) || (narrow_type offs =? kas_uint32))) with false.
    2:{ destruct (narrow_type_cases offs) as [-> | ->]; reflexivity. }
    rewrite Hoc. cbn [bind].
    destruct (offsets_narrow_widen offs Hall Hlast) as (_ & _ & Hdec). cbv zeta in Hdec.
    replace (Z.to_nat (n + 1)) with (length offs) by (unfold zlen in Hz; lia).
    rewrite Hdec. rewrite Z.eqb_refl. cbn [negb]. rewrite Hc. cbn [bind].
    rewrite (IH rv n (or_intror eq_refl) Hr). cbn [bind map].
    destruct r; reflexivity.
Qed.

Lemma check_offsets_ok offs : wf_offs offs -> check_offsets n offs = Ok tt.
Proof.
  intros (Hz & H0 & Hm & _). unfold check_offsets. rewrite Hz.
  replace (n + 1 <? n + 1) with false by (symmetry; apply Z.ltb_ge; lia).
  rewrite H0. cbn [Z.eqb negb].
  replace (firstn (Z.to_nat (n + 1)) offs) with offs.
  - rewrite Hm. reflexivity.
  - rewrite <- Hz. unfold zlen. rewrite Nat2Z.id. symmetry. apply firstn_all.
Qed.

Lemma offsets_fold_ok : forall rvals, Forall (fun r : list Z * list Z => wf_offs (snd r)) rvals ->
  fold_right (fun (c : option (list Z * list Z)) (acc : res unit) =>
                do _ <- acc; match c with Some (_, offs) => check_offsets n offs | None => Ok tt end)
             (Ok tt) (rev (map (@Some _) rvals)) = Ok tt.
Proof.
  intros rvals H. rewrite <- map_rev. apply Forall_rev in H. induction H as [|[d offs] l Hx Hl IH]; [reflexivity|].
  cbn [map fold_right]. rewrite IH. cbn [bind]. apply check_offsets_ok. exact Hx.
Qed.

(* what the store must answer for table t with schema s *)
Definition table_answers (s : tschema) (t : table) : Prop :=
  t_n t = n
  /\ Forall2 (fun c v => answers rs (ckey c) (cty c) n v) (s_rcols s) (t_cols t)
  /\ Forall2 rag_answers (s_rragged s) (t_ragged t)
  /\ match s_rprops s with
     | [] => t_schema t = []
     | (k, ty) :: _ => answers rs k ty (zlen (t_schema t)) (t_schema t)
     end
  /\ (s_rcols s <> [] \/ s_rragged s <> []).

Lemma table_eta t : mk_table (t_n t) (t_cols t) (t_ragged t) (t_schema t) = t.
Proof. destruct t; reflexivity. Qed.

Lemma load_table_ok s t : table_answers s t -> load_table rs s = Ok t.
Proof.
  intros (Hnt & Hc & Hr & Hp & Hne). unfold load_table.
  destruct (read_cols_ok (s_rcols s) (t_cols t) UNSET (or_introl eq_refl) Hc) as (l & Hl & Hf1 & Hf2).
  rewrite Hl. cbn [bind].
  assert (Hn1 : (match s_rcols s with [] => UNSET | _ => n end) = UNSET \/ (match s_rcols s with [] => UNSET | _ => n end) = n)
    by (destruct (s_rcols s); auto).
  rewrite (read_ragged_ok (s_rragged s) (t_ragged t) _ Hn1 Hr). cbn [bind].
  assert (Hfin : (match s_rragged s with [] => match s_rcols s with [] => UNSET | _ => n end | _ => n end) = n).
  { destruct (s_rragged s); [|reflexivity]. destruct (s_rcols s); [|reflexivity]. destruct Hne; congruence. }
  rewrite Hfin.
  replace (n =? UNSET) with false by (symmetry; apply Z.eqb_neq; lia).
  assert (Hprops : read_props rs (s_rprops s) = Ok (t_schema t)).
  { unfold read_props. destruct (s_rprops s) as [|[k ty] ?]; [rewrite Hp; reflexivity|].
    destruct Hp as (b & Hs & Hcn). rewrite Hs. cbn [bind]. rewrite Z.eqb_refl. cbn [negb]. exact Hcn. }
  rewrite Hprops. cbn [bind].
  rewrite offsets_fold_ok.
  2:{ clear -Hr. induction Hr as [|? ? ? ? (_ & _ & Hw) ? IH]; constructor; auto. }
  cbn [bind].
  rewrite (cols_fold_ok (s_rcols s) (t_cols t) l Hf1 Hf2) by (eapply Forall2_len; eauto).
  cbn [bind]. rewrite map_map. cbn. rewrite map_id. rewrite <- Hnt. rewrite table_eta. reflexivity.
Qed.

End Table.

(* ---- the whole collection ---- *)
Lemma load_tables_ok rs : forall ss ts,
  Forall2 (fun s t => 0 <= t_n t < UNSET /\ table_answers rs (t_n t) s t) ss ts -> load_tables rs ss = Ok ts.
Proof.
  induction 1 as [|s t ss ts [Hn Ht] H IH]; [reflexivity|].
  cbn [load_tables]. rewrite (load_table_ok rs (t_n t) Hn s t Ht). cbn [bind]. rewrite IH. reflexivity.
Qed.

Definition answers_str rs (i : nat) (x : list Z) : Prop := answers rs (fmt_key i) (fmt_ty i) (zlen x) x.

Definition ix_key (i : nat) := fst (nth i tsk_index_cols ([], 0)).
Definition ix_ty := snd (nth 0 tsk_index_cols ([], 0)).
Definition rq_key (i : nat) := fst (nth i tsk_refseq_cols ([], 0)).
Definition rq_ty (i : nat) := snd (nth i tsk_refseq_cols ([], 0)).

(* what the opened store must answer for the collection tc (= what tsk_dump puts there) *)
Definition store_answers (rs : list ritem) (tc : tcoll) : Prop :=
  answers rs (fmt_key 0) (fmt_ty 0) (zlen tsk_format_name) tsk_format_name
  /\ answers rs (fmt_key 1) (fmt_ty 1) 2 (le_enc 4 tsk_file_format_version_major ++ le_enc 4 tsk_file_format_version_minor)
  /\ answers rs (fmt_key 2) (fmt_ty 2) 1 (tc_L tc)
  /\ answers rs (fmt_key 3) (fmt_ty 3) tsk_uuid_size (tc_uuid tc)
  /\ answers_str rs 4 (tc_time_units tc) /\ answers_str rs 5 (tc_metadata tc) /\ answers_str rs 6 (tc_metadata_schema tc)
  /\ Forall2 (fun s t => 0 <= t_n t < UNSET /\ table_answers rs (t_n t) s t) tsk_table_schemas (tc_tables tc)
  /\ (let ne := t_n (nth edges_index (tc_tables tc) (mk_table 0 [] [] [])) in
      match tc_index tc with
      | Some (i, r) => answers rs (ix_key 0) ix_ty ne i /\ answers rs (ix_key 1) ix_ty ne r
      | None => absent rs (ix_key 0) /\ absent rs (ix_key 1)
      end)
  /\ match tc_refseq (tc_normalise tc) with
     | Some (d, u, m, s) =>
       answers rs (rq_key 0) (rq_ty 0) (zlen d) d /\ answers rs (rq_key 1) (rq_ty 1) (zlen u) u
       /\ answers rs (rq_key 2) (rq_ty 2) (zlen m) m /\ answers rs (rq_key 3) (rq_ty 3) (zlen s) s
     | None => absent rs (rq_key 0) /\ absent rs (rq_key 1) /\ absent rs (rq_key 2) /\ absent rs (rq_key 3)
     end.

Lemma sget_typed_answers rs k ty len d : answers rs k ty len d ->
  exists b, sget_typed rs k ty = Ok (len, b) /\ content ty len b = Ok d.
Proof. intros (b & Hs & Hc). exists b. unfold sget_typed. rewrite Hs. cbn [bind]. rewrite Z.eqb_refl. auto. Qed.

Lemma opt_top_answers rs i x dflt : answers_str rs i x -> opt_top rs i dflt = Ok x.
Proof. intros (b & Hs & Hc). unfold opt_top. rewrite Hs. cbn [bind]. rewrite Z.eqb_refl. cbn [negb]. exact Hc. Qed.

Lemma opt_prop_answers rs i x : answers rs (rq_key i) (rq_ty i) (zlen x) x -> opt_prop rs i = Ok (Some x).
Proof.
  intros (b & Hs & Hc). unfold opt_prop. fold (rq_key i). fold (rq_ty i). rewrite Hs. cbn [bind].
  rewrite Z.eqb_refl. cbn [negb]. rewrite Hc. reflexivity.
Qed.

Lemma opt_prop_absent rs i : absent rs (rq_key i) -> opt_prop rs i = Ok None.
Proof. intros Hs. unfold opt_prop. fold (rq_key i). rewrite Hs. reflexivity. Qed.

(* the table layer of tsk_table_collection_loadf_inited, given an opened store that answers as the
   dump prescribes: it returns the collection (with the null reference sequence normalised) *)
Theorem tsk_load_of_answers s rs rest tc :
  kas_open true s = Ok (rs, rest) -> store_answers rs tc ->
  double_not_positive (tc_L tc) = false ->
  0 <= t_n (nth edges_index (tc_tables tc) (mk_table 0 [] [] [])) < UNSET ->
  tsk_load_bytes false false s = Ok (tc_normalise tc, rest).
Proof.
  intros Hopen (H0 & H1 & H2 & H3 & H4 & H5 & H6 & Ht & Hi & Hr) HL Hne.
  unfold tsk_load_bytes. cbn [orb negb]. rewrite Hopen. cbn [lift_kas bind].
  destruct (sget_typed_answers _ _ _ _ _ H0) as (b0 & -> & C0). cbn [bind]. rewrite Z.eqb_refl. cbn [negb]. rewrite C0. cbn [bind].
  rewrite zlist_eqb_refl. cbn [negb].
  destruct (sget_typed_answers _ _ _ _ _ H1) as (b1 & -> & C1). cbn [bind]. rewrite Z.eqb_refl. cbn [negb]. rewrite C1. cbn [bind].
  rewrite firstn_app_exact by apply le_enc_length.
  rewrite le32_roundtrip by (unfold tsk_file_format_version_major; lia). rewrite !Z.ltb_irrefl.
  destruct (sget_typed_answers _ _ _ _ _ H2) as (b2 & -> & C2). cbn [bind]. rewrite Z.eqb_refl. cbn [negb]. rewrite C2. cbn [bind].
  rewrite HL.
  destruct (sget_typed_answers _ _ _ _ _ H3) as (b3 & -> & C3). cbn [bind]. rewrite Z.eqb_refl. cbn [negb]. rewrite C3. cbn [bind].
  rewrite (opt_top_answers _ _ _ _ H4), (opt_top_answers _ _ _ _ H5), (opt_top_answers _ _ _ _ H6). cbn [bind].
  rewrite (load_tables_ok rs _ _ Ht). cbn [bind].
  (* indexes *)
  set (ne := t_n (nth edges_index (tc_tables tc) (mk_table 0 [] [] []))) in *.
  assert (Hidx : load_indexes rs ne = Ok (tc_index tc)).
  { unfold load_indexes. fold (ix_key 0). fold (ix_key 1). fold ix_ty. cbv zeta in Hi.
    destruct (tc_index tc) as [[i r]|].
    - destruct Hi as [Ha Hb].
      destruct (read_cols_ok rs ne [(ix_key 0, ix_ty, true); (ix_key 1, ix_ty, true)] [i; r] UNSET (or_introl eq_refl))
        as (l & Hl & Hf1 & Hf2).
      { repeat constructor; assumption. }
      rewrite Hl. cbn [bind].
      inversion Hf1 as [|? o0 ? l1 (c0 & ->) Hf1']; subst. inversion Hf1' as [|? o1 ? l2 (c1 & ->) Hf1'']; subst. inversion Hf1''; subst.
      cbn [combine] in Hf2. inversion Hf2 as [|? ? ? ? Hc0 Hf2']; subst. inversion Hf2' as [|? ? ? ? Hc1 _]; subst.
      pose proof (Hc0 c0 eq_refl) as E0. pose proof (Hc1 c1 eq_refl) as E1. unfold cty in E0, E1. cbn [fst snd] in E0, E1.
      rewrite Z.eqb_refl. cbn [negb]. rewrite E0. cbn [bind]. rewrite E1. reflexivity.
    - destruct Hi as [Ha Hb]. cbn [read_cols]. unfold absent in Ha, Hb. rewrite Ha. cbn [bind]. rewrite Hb. reflexivity. }
  rewrite Hidx. cbn [bind].
  (* reference sequence *)
  assert (Hrq : load_refseq rs = Ok (tc_refseq (tc_normalise tc))).
  { unfold load_refseq. destruct (tc_refseq (tc_normalise tc)) as [[[[d u] m] sc]|] eqn:E.
    - destruct Hr as (Ra & Rb & Rc & Rd).
      rewrite (opt_prop_answers _ 0 _ Ra), (opt_prop_answers _ 1 _ Rb), (opt_prop_answers _ 2 _ Rc), (opt_prop_answers _ 3 _ Rd).
      cbn [bind].
      replace (refseq_is_null (d, u, m, sc)) with false; [reflexivity|].
      unfold tc_normalise in E. cbn [tc_refseq] in E. destruct (tc_refseq tc) as [r0|]; [|discriminate].
      destruct (refseq_is_null r0) eqn:En; [discriminate|]. inversion E; subst. auto.
    - destruct Hr as (Ra & Rb & Rc & Rd).
      rewrite (opt_prop_absent _ 0 Ra), (opt_prop_absent _ 1 Rb), (opt_prop_absent _ 2 Rc), (opt_prop_absent _ 3 Rd). reflexivity. }
  rewrite Hrq. cbn [bind]. unfold tc_normalise at 2. cbn [tc_refseq]. reflexivity.
Qed.
