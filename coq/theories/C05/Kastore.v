(* C05/C10 shared model, part 2: the kastore container, byte level.
   Executable definitions only.  Source: /repo/c/subprojects/kastore/kastore.c
     writer  kastore_write_file (463-484) = qsort by compare_items (100-111) ;
             kastore_pack_items (199-220) ; kastore_write_header (128-151) ;
             kastore_write_descriptors (222-252) ; kastore_write_data (339-379)
     reader  kastore_read (486-525) = kastore_read_header (153-196) ;
             kastore_read_descriptors (254-337) ; kastore_read_file (381-432) ;
             lazy arrays: kastore_read_item (434-461) ; lookup kastore_find_item (686-712, bsearch)
   The size_t / uint64_t sums of the packing loops are modelled modulo 2^64 ([w64]); the per-descriptor
   bound checks are the non-wrapping ones of the repaired code; the writer
   is modelled without wrap-around and every theorem about it assumes the file size is below
   2^64.  Constants come from Gen/Generated.v (regenerated from kastore.h / kastore.c). *)
From Coq Require Import List ZArith Bool Lia.
From TskVerif Require Import Base.Common Gen.Generated C05.Bytes.
Import ListNotations.
Open Scope Z_scope.

(* error classes of the reader (the KAS_ERR codes); all but E_EOF and E_IO reach Python as FileFormatError *)
Definition E_EOF : Z := 1.
Definition E_FORMAT : Z := 2.
Definition E_TOO_OLD : Z := 3.
Definition E_TOO_NEW : Z := 4.
Definition E_BAD_TYPE : Z := 5.
Definition E_IO : Z := 6.          (* fread of 0 bytes: KAS_ERR_IO or BAD_FILE_FORMAT depending on errno *)

Record item := mk_item { ikey : list Z; itype : Z; ilen : Z; idata : list Z }.

Definition type_size (t : Z) : Z := nth (Z.to_nat t) kas_type_size_map 0.
Definition isize (it : item) : Z := ilen it * type_size (itype it).

(* kastore.c:212-215  remainder = offset % 8; if (remainder != 0) offset += 8 - remainder *)
Definition align8 (o : Z) : Z := let r := o mod kas_array_align in if r =? 0 then o else o + (kas_array_align - r).

(* ---------------- writer ---------------- *)

Record rdesc := mk_rdesc { d_type : Z; d_ks : Z; d_kl : Z; d_as : Z; d_al : Z }.

Fixpoint keys_len (its : list item) : Z :=
  match its with [] => 0 | it :: r => zlen (ikey it) + keys_len r end.

(* kastore_pack_items: key offsets from [koff], array offsets from [aoff] (end of the keys) *)
Fixpoint layout (koff aoff : Z) (its : list item) : list rdesc :=
  match its with
  | [] => []
  | it :: r =>
    let a := align8 aoff in
    mk_rdesc (itype it) koff (zlen (ikey it)) a (ilen it)
      :: layout (koff + zlen (ikey it)) (a + isize it) r
  end.

Fixpoint layout_end (aoff : Z) (its : list item) : Z :=
  match its with
  | [] => aoff
  | it :: r => layout_end (align8 aoff + isize it) r
  end.

Definition header_bytes (major minor n fs : Z) (reserved : list Z) : list Z :=
  kas_magic ++ le_enc 2 major ++ le_enc 2 minor ++ le_enc 4 n ++ le_enc 8 fs ++ reserved.

Definition desc_bytes (d : rdesc) (res1 res2 : list Z) : list Z :=
  [d_type d mod 256] ++ res1 ++ le_enc 8 (d_ks d) ++ le_enc 8 (d_kl d) ++ le_enc 8 (d_as d)
    ++ le_enc 8 (d_al d) ++ res2.

Definition descs_bytes (ds : list rdesc) : list Z :=
  concat (map (fun d => desc_bytes d (zeros 7) (zeros 24)) ds).

Definition keys_bytes (its : list item) : list Z := concat (map ikey its).

(* kastore_write_data: padding up to the array start, then the array *)
Fixpoint arrays_bytes (off : Z) (its : list item) : list Z :=
  match its with
  | [] => []
  | it :: r => zeros (align8 off - off) ++ idata it ++ arrays_bytes (align8 off + isize it) r
  end.

Definition koff0 (n : Z) : Z := kas_header_size + n * kas_item_descriptor_size.

Definition kas_size (its : list item) : Z :=
  let k := koff0 (zlen its) in layout_end (k + keys_len its) its.

(* the file for items already in the order in which they are stored *)
Definition kas_write (its : list item) : list Z :=
  let n := zlen its in
  let k := koff0 n in
  let a := k + keys_len its in
  header_bytes kas_file_version_major kas_file_version_minor n (layout_end a its) (zeros 40)
    ++ descs_bytes (layout k a its) ++ keys_bytes its ++ arrays_bytes a its.

(* compare_items: memcmp over the common prefix (unsigned bytes), then by length *)
Fixpoint key_cmp (a b : list Z) : comparison :=
  match a, b with
  | [], [] => Eq
  | [], _ :: _ => Lt
  | _ :: _, [] => Gt
  | x :: a', y :: b' => match x ?= y with Eq => key_cmp a' b' | c => c end
  end.

Definition key_ltb (a b : list Z) : bool := match key_cmp a b with Lt => true | _ => false end.

(* insertion sort by key: with distinct keys every sorting algorithm (libc qsort) gives this
   result (KastoreProofs.sorted_perm_unique) *)
Fixpoint insert_item (x : item) (l : list item) : list item :=
  match l with
  | [] => [x]
  | y :: r => if key_ltb (ikey y) (ikey x) then y :: insert_item x r else x :: l
  end.

Fixpoint sort_items (l : list item) : list item :=
  match l with [] => [] | x :: r => insert_item x (sort_items r) end.

Definition kas_encode (its : list item) : list Z := kas_write (sort_items its).

(* ---------------- reader ---------------- *)

(* what the reader holds for one item: the key is a pointer into the key buffer (OOB if the
   descriptor points outside of it), the array is the block that was read for it (read-all
   mode: up to the next array start, padding included) or would be read on demand (lazy
   mode: exactly array_len*size bytes, Err E_FORMAT when the stream is too short). *)
Record ritem := mk_ritem { rkey : res (list Z); rtype : Z; rlen : Z; rblock : res (list Z) }.

Definition parse_desc (d : list Z) : rdesc :=
  mk_rdesc (nth 0 d 0) (le_dec (slice d 8 8)) (le_dec (slice d 16 8)) (le_dec (slice d 24 8))
           (le_dec (slice d 32 8)).

Definition read_header (s : list Z) : res (Z * Z * list Z) :=
  match s with
  | [] => Err E_EOF                       (* count == 0 && feof *)
  | _ =>
    match take kas_header_size s with
    | None => Err E_FORMAT                (* short read at end of file *)
    | Some (h, rest) =>
      if negb (zlist_eqb (slice h 0 8) kas_magic) then Err E_FORMAT else
      let major := le_dec (slice h 8 2) in
      if major <? kas_file_version_major then Err E_TOO_OLD else
      if kas_file_version_major <? major then Err E_TOO_NEW else
      let n := le_dec (slice h 12 4) in
      let fs := le_dec (slice h 16 8) in
      if fs <? kas_header_size then Err E_FORMAT else Ok (n, fs, rest)
    end
  end.

(* first loop of kastore_read_descriptors (281-305) *)
Fixpoint parse_descs (fs : Z) (n : nat) (buf : list Z) : res (list rdesc) :=
  match n with
  | O => Ok []
  | S n' =>
    let d := parse_desc (firstn 64 buf) in
    if kas_num_types <=? d_type d then Err E_BAD_TYPE else
    (* bounds written so that the sums cannot wrap around (fix fd85063):
       key_len > file_size || key_start > file_size - key_len, and
       array_start > file_size || array_len > (file_size - array_start) / type_size(type) *)
    if (fs <? d_kl d) || (fs - d_kl d <? d_ks d) then Err E_FORMAT else
    if (fs <? d_as d) || ((fs - d_as d) / type_size (d_type d) <? d_al d) then Err E_FORMAT else
    match parse_descs fs n' (skipn 64 buf) with
    | Ok r => Ok (d :: r)
    | e => e
    end
  end.

(* second and third loop (309-328): strict sequential packing *)
Fixpoint check_keys (off : Z) (ds : list rdesc) : option Z :=
  match ds with
  | [] => Some off
  | d :: r => if d_ks d =? off then check_keys (w64 (off + d_kl d)) r else None
  end.

Fixpoint check_arrays (off : Z) (ds : list rdesc) : option Z :=
  match ds with
  | [] => Some off
  | d :: r =>
    let a := w64 (align8 off) in
    if d_as d =? a then check_arrays (w64 (a + d_al d * type_size (d_type d))) r else None
  end.

Definition read_descriptors (n fs : Z) (s : list Z) : res (list rdesc * list Z) :=
  let size := n * kas_item_descriptor_size in
  if fs <? size + kas_header_size then Err E_FORMAT else
  match take size s with
  | None => Err E_FORMAT
  | Some (buf, rest) =>
    match parse_descs fs (Z.to_nat n) buf with
    | Ok ds =>
      match check_keys (koff0 n) ds with
      | None => Err E_FORMAT
      | Some off =>
        match check_arrays off ds with
        | None => Err E_FORMAT
        | Some off2 => if off2 =? fs then Ok (ds, rest) else Err E_FORMAT
        end
      end
    | Err e => Err e
    | OOB => OOB
    | Fuel => Fuel
    end
  end.

(* kastore_read_file, KAS_READ_ALL: one block per item up to the next array start *)
Fixpoint read_blocks (fs k0 : Z) (kbuf : list Z) (ds : list rdesc) (s : list Z)
  : res (list ritem * list Z) :=
  match ds with
  | [] => Ok ([], s)
  | d :: r =>
    let next := match r with [] => fs | d' :: _ => d_as d' end in
    match take (w64 (next - d_as d)) s with
    | None => Err E_FORMAT
    | Some (blk, s') =>
      match read_blocks fs k0 kbuf r s' with
      | Ok (its, s'') =>
        Ok (mk_ritem (cslice kbuf (w64 (d_ks d - k0)) (d_kl d)) (d_type d) (d_al d) (Ok blk) :: its, s'')
      | e => e
      end
    end
  end.

(* lazy mode (flags = 0): kastore_read_item seeks to file_offset + array_start and reads
   array_len * type_size bytes; [obj] is the stream from the first byte of this store *)
Definition lazy_items (k0 : Z) (kbuf obj : list Z) (ds : list rdesc) : list ritem :=
  map (fun d =>
         let size := w64 (d_al d * type_size (d_type d)) in
         mk_ritem (cslice kbuf (w64 (d_ks d - k0)) (d_kl d)) (d_type d) (d_al d)
                  (if size =? 0 then Ok []
                   else if zlen obj <? d_as d + size then Err E_FORMAT
                   else Ok (slice obj (d_as d) size))) ds.

(* kastore_read.  Result: the items in file order and the rest of the stream (read-all mode
   leaves the stream exactly at the end of the store; in lazy mode the position is wherever
   the last on-demand read ended and [] is returned as a placeholder). *)
Definition kas_open (read_all : bool) (s : list Z) : res (list ritem * list Z) :=
  match read_header s with
  | Ok (n, fs, s1) =>
    if n =? 0 then (if fs =? kas_header_size then Ok ([], s1) else Err E_FORMAT) else
    match read_descriptors n fs s1 with
    | Ok (ds, s2) =>
      let k0 := koff0 n in
      let size := w64 (d_as (hd (mk_rdesc 0 0 0 0 0) ds) - k0) in
      if size =? 0 then Err E_IO else
      match take size s2 with
      | None => Err E_FORMAT
      | Some (kbuf, s3) =>
        if read_all then read_blocks fs k0 kbuf ds s3
        else Ok (lazy_items k0 kbuf s ds, [])
      end
    | Err e => Err e
    | OOB => OOB
    | Fuel => Fuel
    end
  | Err e => Err e
  | OOB => OOB
  | Fuel => Fuel
  end.

(* what a client sees for an item: key bytes and the first array_len*size bytes of the block;
   OOB when the descriptor promises more than the block holds (array_len wrap-around) *)
Definition item_of (r : ritem) : res item :=
  match rkey r, rblock r with
  | Ok k, Ok b =>
    let sz := rlen r * type_size (rtype r) in
    if zlen b <? sz then OOB else Ok (mk_item k (rtype r) (rlen r) (firstn (Z.to_nat sz) b))
  | Err e, _ => Err e
  | _, Err e => Err e
  | _, _ => OOB
  end.

Fixpoint items_of (rs : list ritem) : res (list item) :=
  match rs with
  | [] => Ok []
  | r :: t =>
    match item_of r with
    | Ok it => match items_of t with Ok l => Ok (it :: l) | e => e end
    | Err e => Err e
    | OOB => OOB
    | Fuel => Fuel
    end
  end.

Definition kas_decode (s : list Z) : res (list item * list Z) :=
  match kas_open true s with
  | Ok (rs, rest) => match items_of rs with Ok its => Ok (its, rest) | Err e => Err e | OOB => OOB | Fuel => Fuel end
  | Err e => Err e
  | OOB => OOB
  | Fuel => Fuel
  end.

(* kastore_find_item: glibc bsearch over the items in file order with compare_items.
   (On a sorted, duplicate-free list every correct binary search finds the same item; the
   concrete probe sequence only matters for corrupted key regions.) *)
Fixpoint bsearch (fuel : nat) (key : list Z) (rs : list ritem) (lo hi : Z) : res (option ritem) :=
  match fuel with
  | O => Fuel
  | S fuel' =>
    if hi <=? lo then Ok None else
    let mid := (lo + hi) / 2 in
    match nth_error rs (Z.to_nat mid) with
    | None => OOB
    | Some r =>
      match rkey r with
      | Ok k =>
        match key_cmp key k with
        | Lt => bsearch fuel' key rs lo mid
        | Gt => bsearch fuel' key rs (mid + 1) hi
        | Eq => Ok (Some r)
        end
      | _ => OOB
      end
    end
  end.

Definition kas_get (rs : list ritem) (key : list Z) : res (option ritem) :=
  bsearch (S (length rs)) key rs 0 (zlen rs).

(* well-formed input of the writer (what kastore_put accepts: known type, non-empty key) *)
Definition item_ok (it : item) : Prop :=
  0 <= itype it < kas_num_types /\ 0 <= ilen it /\ zlen (idata it) = isize it /\ ikey it <> [].
Definition items_ok (its : list item) : Prop :=
  Forall item_ok its /\ zlen its < 4294967296 /\ kas_size its < two64.

Definition item_okb (it : item) : bool :=
  (0 <=? itype it) && (itype it <? kas_num_types) && (0 <=? ilen it) && (zlen (idata it) =? isize it)
  && negb (zlen (ikey it) =? 0).
