(* C17 — facts around the round trip: columns that are written but never read, the
   population back-fill of load_text, the repr path of base64_metadata=False. *)
From Coq Require Import String Ascii.
From Coq Require Import List ZArith Bool Lia.
From TskVerif Require Import Base.Common Gen.Generated C17.Model C17.B64Proofs C17.TsvProofs.
Import ListNotations.
Open Scope Z_scope.

Local Ltac Zify.zify_post_hook ::= Z.div_mod_to_equations.

(* ---- written, never read ---- *)

(* dump_text writes an edge "metadata" column; parse_edges looks up left/right/parent/child
   only (regenerated facts), so load_text cannot bring edge metadata back *)
Lemma edge_metadata_no_reader :
  In "metadata"%string c17_dump_header_edges
  /\ ~ In "metadata"%string (c17_parse_required_edges ++ c17_parse_optional_edges).
Proof. split; [cbn; tauto | cbn; intuition discriminate]. Qed.

(* provenances: a text writer, no parse_provenances and no load_text parameter *)
Lemma provenances_no_reader :
  c17_provenances_have_reader = false
  /\ ~ In "provenances"%string c17_load_text_params
  /\ c17_dump_header_provenances = ["id"; "timestamp"; "record"]%string
  /\ c17_dump_rowfmt_provenances = ["id|"; "timestamp|"; "record|"; ""]%string.
Proof. repeat split. cbn. intuition discriminate. Qed.

(* ---- wrapper level: every keyword is forwarded under its own name ---- *)

Lemma dump_text_forwards_every_keyword :
  c17_dump_text_keywords = map (fun p => (p ++ "=" ++ p)%string) c17_dump_text_params
  /\ c17_dump_text_params = c17_text_formats_dump_text_params.
Proof. split; reflexivity. Qed.

(* load_text: every parser gets the file of its own table, strict / encoding /
   base64_metadata as given, and writes into the table of the same name *)
Lemma load_text_forwards :
  c17_load_text_parse_calls =
    ["edges:strict=strict";
     "individuals:strict=strict,encoding=encoding,base64_metadata=base64_metadata,table=tc.individuals";
     "migrations:strict=strict,encoding=encoding,base64_metadata=base64_metadata,table=tc.migrations";
     "mutations:strict=strict,encoding=encoding,base64_metadata=base64_metadata,table=tc.mutations";
     "nodes:strict=strict,encoding=encoding,base64_metadata=base64_metadata,table=tc.nodes";
     "populations:strict=strict,encoding=encoding,base64_metadata=base64_metadata,table=tc.populations";
     "sites:strict=strict,encoding=encoding,base64_metadata=base64_metadata,table=tc.sites"]%string.
Proof. reflexivity. Qed.

(* ---- population back-fill ---- *)

Lemma fold_max_ge_init : forall l a, a <= fold_left Z.max l a.
Proof. induction l as [|x l IH]; intros a; cbn; [lia|]. specialize (IH (Z.max a x)). lia. Qed.

Lemma fold_max_ge : forall l a x, In x l -> x <= fold_left Z.max l a.
Proof.
  induction l as [|y l IH]; intros a x H; [destruct H|]. cbn. destruct H as [->|H].
  - pose proof (fold_max_ge_init l (Z.max a x)). lia.
  - apply IH. exact H.
Qed.

(* without a population file every population a node refers to exists afterwards, all
   added rows are empty, and nothing is added when no node refers to a population *)
Theorem backfill_spec : forall pops,
  (forall p, In p pops -> 0 <= p -> p < zlen (backfill_populations pops))
  /\ Forall (fun m => m = []) (backfill_populations pops)
  /\ (Forall (fun p => p = -1) pops -> backfill_populations pops = []).
Proof.
  intros pops. unfold backfill_populations, max_population.
  destruct pops as [|q t]; [repeat split; [intros p []|constructor]|].
  set (m := fold_left Z.max t q).
  assert (forall p, In p (q :: t) -> p <= m) as Hmax.
  { intros p [<-|H]; [apply fold_max_ge_init|apply fold_max_ge; exact H]. }
  repeat split.
  - intros p Hp H0. specialize (Hmax p Hp).
    destruct (m =? -1) eqn:E; [apply Z.eqb_eq in E; lia|].
    unfold zlen. rewrite repeat_length. lia.
  - destruct (m =? -1); [constructor|]. apply Forall_forall. intros x Hx.
    apply repeat_spec in Hx. exact Hx.
  - intros Hall. assert (m = -1) as ->; [|reflexivity].
    inversion Hall as [|? ? Hq Ht]; subst. subst m.
    clear Hmax Hall. induction t as [|x t IH]; [reflexivity|].
    inversion Ht; subst. cbn. apply IH. assumption.
Qed.

Example backfill_example : backfill_populations [-1; 2; 0; -1] = [[]; []; []]
  /\ backfill_populations [-1; -1] = [] /\ backfill_populations [] = [].
Proof. repeat split. Qed.

(* ---- repr(bytes): printable ASCII only, so a row written with base64_metadata=False
        still has its TABs and its newline where dump_text put them ---- *)

Definition printable (c : Z) : Prop := 32 <= c < 127.

Lemma hex_digit_printable : forall d, 0 <= d < 16 -> printable (hex_digit d).
Proof. intros d H. unfold hex_digit, printable. destruct (d <? 10) eqn:E; [apply Z.ltb_lt in E|apply Z.ltb_ge in E]; lia. Qed.

Lemma repr_byte_printable : forall q c, (q = 34 \/ q = 39) -> 0 <= c < 256 ->
  Forall printable (repr_byte q c).
Proof.
  intros q c Hq Hc. unfold repr_byte.
  destruct ((c =? q) || (c =? 92)) eqn:E1.
  { apply orb_true_iff in E1 as [E|E]; apply Z.eqb_eq in E; subst;
      repeat constructor; unfold printable; lia. }
  destruct (c =? 9); [repeat constructor; unfold printable; lia|].
  destruct (c =? 10); [repeat constructor; unfold printable; lia|].
  destruct (c =? 13); [repeat constructor; unfold printable; lia|].
  destruct ((c <? 32) || (127 <=? c)) eqn:E2.
  - repeat (apply Forall_cons); try (unfold printable; lia); try apply Forall_nil;
      apply hex_digit_printable; lia.
  - apply orb_false_iff in E2 as [E3 E4]. apply Z.ltb_ge in E3. apply Z.leb_gt in E4.
    repeat constructor; unfold printable; lia.
Qed.

Theorem bytes_repr_printable : forall l, Forall is_byte l -> Forall printable (bytes_repr l).
Proof.
  intros l H. unfold bytes_repr.
  assert (repr_quote l = 34 \/ repr_quote l = 39) as Hq
    by (unfold repr_quote; destruct (_ && _); auto).
  generalize dependent (repr_quote l). intros q Hq.
  constructor; [unfold printable; lia|]. constructor; [unfold printable; lia|].
  apply Forall_app. split.
  - induction l as [|c l IH]; [constructor|]. inversion H; subst. cbn [map concat].
    apply Forall_app. split; [apply repr_byte_printable; assumption|apply IH; assumption].
  - apply Forall_cons; [unfold printable; lia|apply Forall_nil].
Qed.

Corollary bytes_repr_clean : forall l, Forall is_byte l -> clean (bytes_repr l).
Proof.
  intros l H. pose proof (bytes_repr_printable l H) as HF.
  split; intros HI; eapply Forall_forall in HF; eauto; unfold printable, TAB, NL in *; lia.
Qed.

Example repr_examples :
  bytes_repr (bs "it's") = bs "b""it's"""
  /\ bytes_repr [39; 34] = [98; 39; 92; 39; 34; 39]
  /\ bytes_repr [9; 0; 255; 92] = bs "b'\t\x00\xff\\'".
Proof. repeat split. Qed.
