(* C17 — executable model of the text table format.

   Modelled code (read line by line):
     python/tskit/text_formats.py  dump_text (l.255-443), text_metadata (l.446-452)
     python/tskit/trees.py         parse_individuals (l.3425), parse_nodes (l.3497),
                                   parse_edges (l.3571), parse_sites (l.3610),
                                   parse_mutations (l.3660), parse_populations (l.3736),
                                   parse_migrations (l.3778)
     CPython Modules/binascii.c    binascii_b2a_base64_impl / binascii_a2b_base64_impl
                                   (strict_mode = 0), reached through base64.b64encode /
                                   base64.b64decode as called above.

   Strings are lists of bytes (Z in 0..255; utf-8).  TAB and NL are ASCII, so splitting
   the utf-8 bytes is the same as Python's str.split on the decoded text.

   Numbers are opaque: the float type [F] and the four conversions are parameters of
   the model (Section variables).  The correspondence instantiates them with the
   decimal integer codec below and with F := the token itself (the harness checks
   float(token) against the value separately).  Theorems assume
   [parse (print x) = Some x] and "no TAB / NL / ',' in a printed number".

   Only definitions here; proofs are in B64Proofs.v / TextProofs.v. *)
From Coq Require Import String Ascii.
From Coq Require Import List ZArith Bool Lia.
From TskVerif Require Import Base.Common Gen.Generated.
Import ListNotations.
Open Scope Z_scope.

Definition bytes := list Z.

Definition bs (s : string) : bytes :=
  map (fun a => Z.of_N (N_of_ascii a)) (list_ascii_of_string s).

Definition TAB : Z := 9.
Definition NL : Z := 10.
Definition COMMA : Z := 44.
Definition PAD : Z := 61.   (* '=' *)

(* error classes *)
Definition E_VALUE : Z := 1.   (* ValueError: header.index / int() / float() *)
Definition E_INDEX : Z := 2.   (* IndexError: tokens[i] *)
Definition E_B64 : Z := 3.     (* binascii.Error *)

Definition bytes_eqb := zlist_eqb.

(* ------------------------------------------------------------------ *)
(* Base64                                                               *)
(* ------------------------------------------------------------------ *)

(* table_b2a_base64: "ABC…Zabc…z0123456789+/" *)
Definition b64_char (v : Z) : Z :=
  if v <? 26 then v + 65
  else if v <? 52 then v + 71
  else if v <? 62 then v - 4
  else if v =? 62 then 43 else 47.

(* table_a2b_base64: None = an entry >= 64 (not in the alphabet) *)
Definition b64_val (c : Z) : option Z :=
  if (65 <=? c) && (c <=? 90) then Some (c - 65)
  else if (97 <=? c) && (c <=? 122) then Some (c - 71)
  else if (48 <=? c) && (c <=? 57) then Some (c + 4)
  else if c =? 43 then Some 62
  else if c =? 47 then Some 63
  else None.

(* b2a_base64 (newline=False).  The C loop shifts bytes into [leftchar] and emits a
   character whenever 6 bits are available; written here per group of three bytes
   (shifts as * and /, masks as mod; the groups never overlap), with the two tail
   cases of the code (leftbits == 2 -> "xx==", leftbits == 4 -> "xxx="). *)
Fixpoint b64encode (l : bytes) : bytes :=
  match l with
  | [] => []
  | [a] => [b64_char (a / 4); b64_char ((a mod 4) * 16); PAD; PAD]
  | [a; b] => [b64_char (a / 4); b64_char ((a mod 4) * 16 + b / 16);
               b64_char ((b mod 16) * 4); PAD]
  | a :: b :: c :: rest =>
      b64_char (a / 4) :: b64_char ((a mod 4) * 16 + b / 16)
      :: b64_char ((b mod 16) * 4 + c / 64) :: b64_char (c mod 64) :: b64encode rest
  end.

(* a2b_base64, strict_mode = 0: the state machine of the C loop.
     qp    = quad_pos (0..3),  lc = leftchar,  pads = number of '=' seen since the
     last alphabet character (only counted when quad_pos >= 2: `++pads` sits behind
     the short-circuit `quad_pos >= 2 &&`);  acc = output so far, reversed.
   Characters outside the alphabet are skipped; a '=' with
   quad_pos >= 2 && quad_pos + ++pads >= 4 ends the decoding (`goto done`), any other
   '=' is skipped; at the end of the input quad_pos != 0 is binascii.Error. *)
Fixpoint b64_loop (cs : bytes) (qp lc pads : Z) (acc : bytes) : res bytes :=
  match cs with
  | [] => if qp =? 0 then Ok (rev acc) else Err E_B64
  | c :: cs' =>
      if c =? PAD then
        if (2 <=? qp) && (4 <=? qp + (pads + 1)) then Ok (rev acc)
        else b64_loop cs' qp lc (if 2 <=? qp then pads + 1 else pads) acc
      else
        match b64_val c with
        | None => b64_loop cs' qp lc pads acc
        | Some v =>
            if qp =? 0 then b64_loop cs' 1 v 0 acc
            else if qp =? 1 then b64_loop cs' 2 (v mod 16) 0 ((lc * 4 + v / 16) :: acc)
            else if qp =? 2 then b64_loop cs' 3 (v mod 4) 0 ((lc * 16 + v / 4) :: acc)
            else b64_loop cs' 0 0 0 ((lc * 64 + v) :: acc)
        end
  end.

Definition b64decode (cs : bytes) : res bytes := b64_loop cs 0 0 0 [].

(* ------------------------------------------------------------------ *)
(* lines and tab separated fields                                       *)
(* ------------------------------------------------------------------ *)

(* str.split(sep) with a one-character separator: always at least one piece *)
Fixpoint split_on (sep : Z) (s : bytes) : list bytes :=
  match s with
  | [] => [[]]
  | c :: s' =>
      if c =? sep then [] :: split_on sep s'
      else match split_on sep s' with
           | h :: t => (c :: h) :: t
           | [] => [[c]]
           end
  end.

(* sep.join(fields) *)
Fixpoint join_with (sep : Z) (fs : list bytes) : bytes :=
  match fs with
  | [] => []
  | [f] => f
  | f :: fs' => f ++ sep :: join_with sep fs'
  end.

(* print(row, file=f) for every row: each line is followed by "\n" *)
Definition unlines (ls : list bytes) : bytes := concat (map (fun l => l ++ [NL]) ls).

(* The lines a text file object yields (readline / iteration), each with
   .rstrip("\n") applied: the pieces between newlines; a final piece exists only if
   the text does not end with a newline. *)
Definition file_lines (text : bytes) : list bytes :=
  let ps := split_on NL text in
  match rev ps with
  | [] :: r => rev r
  | _ => ps
  end.

(* header.index(name) *)
Fixpoint index_of (name : bytes) (hdr : list bytes) : option nat :=
  match hdr with
  | [] => None
  | h :: t => if bytes_eqb h name then Some O
              else match index_of name t with Some i => Some (S i) | None => None end
  end.

(* tokens[i] *)
Definition cell (tokens : list bytes) (i : nat) : res bytes :=
  match nth_error tokens i with Some t => Ok t | None => Err E_INDEX end.

(* `x_index = header.index(name)` (None when absent) followed, per row, by
   `tokens[x_index]` when the index is not None *)
Definition accessor (header tokens : list bytes) (name : bytes) : res (option bytes) :=
  match index_of name header with
  | None => Ok None
  | Some i => do t <- cell tokens i; Ok (Some t)
  end.

(* `if metadata_index is not None and metadata_index < len(tokens)` *)
Definition accessor_guarded (header tokens : list bytes) (name : bytes) : res (option bytes) :=
  match index_of name header with
  | None => Ok None
  | Some i => Ok (nth_error tokens i)
  end.

Definition check_required (required : list bytes) (header : list bytes) : res unit :=
  if forallb (fun n => match index_of n header with Some _ => true | None => false end) required
  then Ok tt else Err E_VALUE.

Fixpoint concat_res {A} (l : list (res (list A))) : res (list A) :=
  match l with
  | [] => Ok []
  | r :: t => do x <- r; do y <- concat_res t; Ok (x ++ y)
  end.

Fixpoint map_res {A B} (f : A -> res B) (l : list A) : res (list B) :=
  match l with
  | [] => Ok []
  | a :: t => do x <- f a; do y <- map_res f t; Ok (x :: y)
  end.

Definition acc_t := bytes -> res (option bytes).

(* The common shape of the seven parse_* functions:
     header = source.readline().rstrip("\n").split("\t")
     <required>_index = header.index(...)        (ValueError when absent)
     <optional>_index = None / header.index(...) inside try
     for line in source:
         tokens = line.rstrip("\n").split("\t")
         if len(tokens) >= k: <row>                                        *)
Definition parse_generic_with {R} (split : bytes -> list bytes) (required : list bytes) (min_tokens : nat)
    (row : acc_t -> acc_t -> res (list R)) (text : bytes) : res (list R) :=
  let ls := file_lines text in
  let header := split (hd [] ls) in
  do _ <- check_required required header;
  concat_res (map (fun line =>
      let tokens := split line in
      if Nat.ltb (length tokens) min_tokens then Ok []
      else row (accessor header tokens) (accessor_guarded header tokens)) (tl ls)).

(* strict=True: sep = "\t" *)
Notation parse_generic := (parse_generic_with (split_on TAB)).

(* strict=False: str.split(None) — runs of whitespace separate, leading and trailing
   whitespace is dropped, so there are no empty tokens.  ASCII whitespace as str.isspace:
   \t \n \v \f \r, 0x1c-0x1f and the space (non-ASCII spaces such as U+00A0 are outside
   this byte-level model). *)
Definition is_space (c : Z) : bool := ((9 <=? c) && (c <=? 13)) || ((28 <=? c) && (c <=? 32)).

Fixpoint split_ws_go (s : bytes) (cur : option bytes) : list bytes :=   (* cur: current word, reversed *)
  match s with
  | [] => match cur with Some w => [rev w] | None => [] end
  | c :: s' =>
      if is_space c then
        match cur with Some w => rev w :: split_ws_go s' None | None => split_ws_go s' None end
      else split_ws_go s' (Some (c :: match cur with Some w => w | None => [] end))
  end.

Definition split_ws (s : bytes) : list bytes := split_ws_go s None.

(* ------------------------------------------------------------------ *)
(* decimal integers (the concrete instance used by the correspondence)  *)
(* ------------------------------------------------------------------ *)

Fixpoint dec_digits (fuel : nat) (n : Z) (acc : bytes) : bytes :=
  match fuel with
  | O => acc
  | S f => if n <? 10 then (48 + n) :: acc else dec_digits f (n / 10) ((48 + n mod 10) :: acc)
  end.

(* str(int): enough fuel for any |z| (number of binary digits + 1) *)
Definition dec_print (z : Z) : bytes :=
  let n := Z.abs z in
  let d := dec_digits (S (Z.to_nat (Z.log2 n + 1))) n [] in
  if z <? 0 then 45 :: d else d.

Fixpoint dec_parse_digits (s : bytes) (acc : Z) : option Z :=
  match s with
  | [] => Some acc
  | c :: s' => if (48 <=? c) && (c <=? 57) then dec_parse_digits s' (acc * 10 + (c - 48)) else None
  end.

(* the subset of int(str) syntax that dump_text produces: [-]digits *)
Definition dec_parse (s : bytes) : option Z :=
  match s with
  | [] => None
  | 45 :: [] => None
  | 45 :: s' => match dec_parse_digits s' 0 with Some n => Some (- n) | None => None end
  | _ => dec_parse_digits s 0
  end.

(* ------------------------------------------------------------------ *)
(* the tables                                                           *)
(* ------------------------------------------------------------------ *)

Definition names (l : list string) : list bytes := map bs l.

Section Tables.
  Variable F : Type.                          (* float values *)
  Variable print_int : Z -> bytes.            (* "{:d}" / str(int) *)
  Variable parse_int : bytes -> option Z.     (* int(token) *)
  Variable print_fix : F -> bytes.            (* "{:.{precision}f}" *)
  Variable print_repr : F -> bytes.           (* str(float) / "{}" *)
  Variable parse_float : bytes -> option F.   (* float(token) *)

  Definition get_int (t : bytes) : res Z :=
    match parse_int t with Some z => Ok z | None => Err E_VALUE end.
  Definition get_float (t : bytes) : res F :=
    match parse_float t with Some x => Ok x | None => Err E_VALUE end.

  (* a required column: the index exists (check_required ran first) *)
  Definition req (a : acc_t) (name : string) : res bytes :=
    do o <- a (bs name);
    match o with Some t => Ok t | None => Err E_VALUE end.

  Definition opt_int (a : acc_t) (name : string) (default : Z) : res Z :=
    do o <- a (bs name);
    match o with Some t => get_int t | None => Ok default end.

  (* metadata = b""; if metadata_index is not None and metadata_index < len(tokens):
         metadata = base64.b64decode(tokens[metadata_index].encode(encoding)) *)
  Definition opt_metadata (g : acc_t) : res bytes :=
    do o <- g (bs "metadata");
    match o with Some t => b64decode t | None => Ok [] end.

  (* tuple(map(conv, s.split(","))) if len(s) > 0 else () *)
  Definition comma_list {A} (conv : bytes -> res A) (s : bytes) : res (list A) :=
    match s with [] => Ok [] | _ => map_res conv (split_on COMMA s) end.

  (* ---- nodes: (is_sample, time, population, individual, metadata) ---- *)
  Definition node_row : Type := bool * F * Z * Z * bytes.

  Definition row_nodes (a g : acc_t) : res (list node_row) :=
    do t_s <- req a "is_sample"; do is_sample <- get_int t_s;
    do t_t <- req a "time"; do time <- get_float t_t;
    do population <- opt_int a "population" (-1);
    do individual <- opt_int a "individual" (-1);
    do metadata <- opt_metadata g;
    Ok [(negb (is_sample =? 0), time, population, individual, metadata)].

  Definition parse_nodes : bytes -> res (list node_row) :=
    parse_generic (names c17_parse_required_nodes) c17_parse_min_tokens_nodes row_nodes.

  (* ---- edges: (left, right, parent, child); one row per comma separated child ---- *)
  Definition edge_row : Type := F * F * Z * Z.

  Definition row_edges (a g : acc_t) : res (list edge_row) :=
    do t_l <- req a "left"; do left <- get_float t_l;
    do t_r <- req a "right"; do right <- get_float t_r;
    do t_p <- req a "parent"; do parent <- get_int t_p;
    do t_c <- req a "child";
    do children <- map_res get_int (split_on COMMA t_c);
    Ok (map (fun c => (left, right, parent, c)) children).

  Definition parse_edges : bytes -> res (list edge_row) :=
    parse_generic (names c17_parse_required_edges) c17_parse_min_tokens_edges row_edges.

  (* ---- sites: (position, ancestral_state, metadata) ---- *)
  Definition site_row : Type := F * bytes * bytes.

  Definition row_sites (a g : acc_t) : res (list site_row) :=
    do t_p <- req a "position"; do position <- get_float t_p;
    do ancestral_state <- req a "ancestral_state";
    do metadata <- opt_metadata g;
    Ok [(position, ancestral_state, metadata)].

  Definition parse_sites : bytes -> res (list site_row) :=
    parse_generic (names c17_parse_required_sites) c17_parse_min_tokens_sites row_sites.

  (* ---- mutations: (site, node, time (None = UNKNOWN_TIME), derived_state, parent, metadata) ---- *)
  Definition mutation_row : Type := Z * Z * option F * bytes * Z * bytes.

  Definition UNKNOWN : bytes := bs "unknown".   (* tskit.TIME_UNITS_UNKNOWN *)

  Definition row_mutations (a g : acc_t) : res (list mutation_row) :=
    do t_s <- req a "site"; do site <- get_int t_s;
    do t_n <- req a "node"; do node <- get_int t_n;
    do o_t <- a (bs "time");
    do time <- match o_t with
               | None => Ok None
               | Some t => if bytes_eqb t UNKNOWN then Ok None
                           else do x <- get_float t; Ok (Some x)
               end;
    do derived_state <- req a "derived_state";
    do parent <- opt_int a "parent" (-1);
    do metadata <- opt_metadata g;
    Ok [(site, node, time, derived_state, parent, metadata)].

  Definition parse_mutations : bytes -> res (list mutation_row) :=
    parse_generic (names c17_parse_required_mutations) c17_parse_min_tokens_mutations row_mutations.

  (* ---- individuals: (flags, location, parents, metadata) ---- *)
  Definition individual_row : Type := Z * list F * list Z * bytes.

  Definition row_individuals (a g : acc_t) : res (list individual_row) :=
    do t_f <- req a "flags"; do flags <- get_int t_f;
    do o_l <- a (bs "location");
    do location <- match o_l with None => Ok [] | Some s => comma_list get_float s end;
    do o_p <- a (bs "parents");
    do parents <- match o_p with None => Ok [] | Some s => comma_list get_int s end;
    do metadata <- opt_metadata g;
    Ok [(flags, location, parents, metadata)].

  Definition parse_individuals : bytes -> res (list individual_row) :=
    parse_generic (names c17_parse_required_individuals) c17_parse_min_tokens_individuals row_individuals.

  (* ---- populations: metadata (required column, unguarded tokens[metadata_index]) ---- *)
  Definition row_populations (a g : acc_t) : res (list bytes) :=
    do t_m <- req a "metadata";
    do metadata <- b64decode t_m;
    Ok [metadata].

  Definition parse_populations : bytes -> res (list bytes) :=
    parse_generic (names c17_parse_required_populations) c17_parse_min_tokens_populations row_populations.

  (* ---- migrations: (left, right, node, source, dest, time, metadata) ---- *)
  Definition migration_row : Type := F * F * Z * Z * Z * F * bytes.

  Definition row_migrations (a g : acc_t) : res (list migration_row) :=
    do t_l <- req a "left"; do left <- get_float t_l;
    do t_r <- req a "right"; do right <- get_float t_r;
    do t_n <- req a "node"; do node <- get_int t_n;
    do t_s <- req a "source"; do source <- get_int t_s;
    do t_d <- req a "dest"; do dest <- get_int t_d;
    do t_t <- req a "time"; do time <- get_float t_t;
    do metadata <- opt_metadata g;
    Ok [(left, right, node, source, dest, time, metadata)].

  Definition parse_migrations : bytes -> res (list migration_row) :=
    parse_generic (names c17_parse_required_migrations) c17_parse_min_tokens_migrations row_migrations.

  (* ---------------- the same parsers with strict=False ---------------- *)
  Definition parse_nodes_ws : bytes -> res (list node_row) :=
    parse_generic_with split_ws (names c17_parse_required_nodes) c17_parse_min_tokens_nodes row_nodes.
  Definition parse_edges_ws : bytes -> res (list edge_row) :=
    parse_generic_with split_ws (names c17_parse_required_edges) c17_parse_min_tokens_edges row_edges.
  Definition parse_sites_ws : bytes -> res (list site_row) :=
    parse_generic_with split_ws (names c17_parse_required_sites) c17_parse_min_tokens_sites row_sites.
  Definition parse_mutations_ws : bytes -> res (list mutation_row) :=
    parse_generic_with split_ws (names c17_parse_required_mutations) c17_parse_min_tokens_mutations row_mutations.
  Definition parse_individuals_ws : bytes -> res (list individual_row) :=
    parse_generic_with split_ws (names c17_parse_required_individuals) c17_parse_min_tokens_individuals row_individuals.
  Definition parse_populations_ws : bytes -> res (list bytes) :=
    parse_generic_with split_ws (names c17_parse_required_populations) c17_parse_min_tokens_populations row_populations.
  Definition parse_migrations_ws : bytes -> res (list migration_row) :=
    parse_generic_with split_ws (names c17_parse_required_migrations) c17_parse_min_tokens_migrations row_migrations.

  (* ---------------- dump_text (base64_metadata = True, bytes metadata) ---------------- *)

  Definition dump_table (header : list string) (rows : list (list bytes)) : bytes :=
    unlines (join_with TAB (names header) :: map (join_with TAB) rows).

  Definition bool_int (b : bool) : Z := if b then 1 else 0.

  (* rows are numbered by their id (ts.nodes() order) *)
  Fixpoint number_from {A} (k : Z) (l : list A) : list (Z * A) :=
    match l with [] => [] | a :: t => (k, a) :: number_from (k + 1) t end.

  Definition dump_nodes (rows : list node_row) : bytes :=
    dump_table c17_dump_header_nodes
      (map (fun '(id, (s, t, p, i, m)) =>
              [print_int id; print_int (bool_int s); print_fix t; print_int p; print_int i; b64encode m])
           (number_from 0 rows)).

  (* the edge metadata column is written but never read back *)
  Definition dump_edges (rows : list (edge_row * bytes)) : bytes :=
    dump_table c17_dump_header_edges
      (map (fun '((l, r, p, c), m) => [print_fix l; print_fix r; print_int p; print_int c; b64encode m]) rows).

  Definition dump_sites (rows : list site_row) : bytes :=
    dump_table c17_dump_header_sites
      (map (fun '(x, a, m) => [print_fix x; a; b64encode m]) rows).

  Definition dump_mutations (rows : list mutation_row) : bytes :=
    dump_table c17_dump_header_mutations
      (map (fun '(s, n, t, d, p, m) =>
              [print_int s; print_int n; match t with None => UNKNOWN | Some x => print_repr x end;
               d; print_int p; b64encode m]) rows).

  Definition dump_individuals (rows : list individual_row) : bytes :=
    dump_table c17_dump_header_individuals
      (map (fun '(id, (f, loc, par, m)) =>
              [print_int id; print_int f; join_with COMMA (map print_repr loc);
               join_with COMMA (map print_int par); b64encode m])
           (number_from 0 rows)).

  Definition dump_populations (rows : list bytes) : bytes :=
    dump_table c17_dump_header_populations
      (map (fun '(id, m) => [print_int id; b64encode m]) (number_from 0 rows)).

  (* every migration row ends with a TAB ("{metadata}\t"): an extra empty field *)
  Definition dump_migrations (rows : list migration_row) : bytes :=
    dump_table c17_dump_header_migrations
      (map (fun '(l, r, n, s, d, t, m) =>
              [print_repr l; print_repr r; print_int n; print_int s; print_int d; print_repr t;
               b64encode m; []]) rows).
  (* provenances: "{id}\t{timestamp}\t{record}\t" — written, no reader exists *)
  Definition dump_provenances (rows : list (bytes * bytes)) : bytes :=
    dump_table c17_dump_header_provenances
      (map (fun '(id, (ts, rec)) => [print_int id; ts; rec; []]) (number_from 0 rows)).
End Tables.

(* ------------------------------------------------------------------ *)
(* load_text end to end (trees.py l.3847-3994)                          *)
(* ------------------------------------------------------------------ *)

Record tables (F : Type) : Type := mkTables {
  t_nodes : list (node_row F);
  t_edges : list (edge_row F);
  t_sites : list (site_row F);
  t_mutations : list (mutation_row F);
  t_individuals : list (individual_row F);
  t_populations : list bytes;
  t_migrations : list (migration_row F) }.
Arguments mkTables {F}. Arguments t_nodes {F}. Arguments t_edges {F}. Arguments t_sites {F}.
Arguments t_mutations {F}. Arguments t_individuals {F}. Arguments t_populations {F}.
Arguments t_migrations {F}.

(* the text files handed to load_text; sites ... migrations are optional arguments *)
Record text_files : Type := mkTexts {
  x_nodes : bytes; x_edges : bytes; x_sites : option bytes; x_mutations : option bytes;
  x_individuals : option bytes; x_populations : option bytes; x_migrations : option bytes }.

Definition opt_parse {A} (f : bytes -> res (list A)) (o : option bytes) : res (list A) :=
  match o with Some t => f t | None => Ok [] end.

Section LoadText.
  Variable F : Type.
  Variable parse_int : bytes -> option Z.
  Variable parse_float : bytes -> option F.
  Variable sort : tables F -> tables F.          (* tc.sort(): tsk_table_sorter_run (property C07) *)

  (* the order of the calls in load_text: edges, nodes, sites, mutations, individuals,
     populations (or the back-fill from the node table), migrations; then tc.sort() *)
  Definition load_text_parse (x : text_files) : res (tables F) :=
    do edges <- parse_edges F parse_int parse_float (x_edges x);
    do nodes <- parse_nodes F parse_int parse_float (x_nodes x);
    do sites <- opt_parse (parse_sites F parse_float) (x_sites x);
    do mutations <- opt_parse (parse_mutations F parse_int parse_float) (x_mutations x);
    do individuals <- opt_parse (parse_individuals F parse_int parse_float) (x_individuals x);
    do populations <- match x_populations x with
                      | Some t => parse_populations t
                      | None => Ok (match nodes with
                                    | [] => []
                                    | _ => let m := fold_left Z.max (map (fun '(_, _, p, _, _) => p) nodes) (-1) in
                                           if m =? -1 then [] else repeat [] (Z.to_nat (m + 1))
                                    end)
                      end;
    do migrations <- opt_parse (parse_migrations F parse_int parse_float) (x_migrations x);
    Ok (mkTables nodes edges sites mutations individuals populations migrations).

  Definition load_text_model (x : text_files) : res (tables F) :=
    do t <- load_text_parse x; Ok (sort t).
End LoadText.

(* dump_text of all seven tables (edge metadata goes with the edges) *)
Definition dump_all (F : Type) (print_int : Z -> bytes) (print_fix print_repr : F -> bytes)
    (t : tables F) (edge_metadata : list bytes) : text_files :=
  mkTexts (dump_nodes F print_int print_fix (t_nodes t))
          (dump_edges F print_int print_fix (combine (t_edges t) edge_metadata))
          (Some (dump_sites F print_fix (t_sites t)))
          (Some (dump_mutations F print_int print_repr (t_mutations t)))
          (Some (dump_individuals F print_int print_repr (t_individuals t)))
          (Some (dump_populations print_int (t_populations t)))
          (Some (dump_migrations F print_int print_repr (t_migrations t))).

(* ------------------------------------------------------------------ *)
(* load_text: the population back-fill (trees.py l.3970-3976)           *)
(* ------------------------------------------------------------------ *)

(* tc.nodes.population.max() *)
Definition max_population (pops : list Z) : option Z :=
  match pops with
  | [] => None                       (* `if len(tc.nodes) > 0` *)
  | p :: t => Some (fold_left Z.max t p)
  end.

(* populations=None: one empty row per id up to the largest one the nodes refer to *)
Definition backfill_populations (pops : list Z) : list bytes :=
  match max_population pops with
  | None => []
  | Some m => if m =? -1 then [] else repeat [] (Z.to_nat (m + 1))     (* range(max_population + 1) *)
  end.

(* ------------------------------------------------------------------ *)
(* base64_metadata=False: text_metadata writes repr(bytes)              *)
(* ------------------------------------------------------------------ *)

Definition hex_digit (d : Z) : Z := if d <? 10 then 48 + d else 87 + d.    (* lowercase *)

(* CPython bytes.__repr__: the quote is the apostrophe (39) unless the value contains an
   apostrophe and no double quote (34) *)
Definition repr_quote (l : bytes) : Z :=
  if existsb (fun c => c =? 39) l && negb (existsb (fun c => c =? 34) l) then 34 else 39.

Definition repr_byte (quote c : Z) : bytes :=
  if (c =? quote) || (c =? 92) then [92; c]
  else if c =? 9 then [92; 116]
  else if c =? 10 then [92; 110]
  else if c =? 13 then [92; 114]
  else if (c <? 32) || (127 <=? c) then [92; 120; hex_digit (c / 16); hex_digit (c mod 16)]
  else [c].

Definition bytes_repr (l : bytes) : bytes :=
  let q := repr_quote l in
  98 :: q :: concat (map (repr_byte q) l) ++ [q].        (* b'...' *)

(* ------------------------------------------------------------------ *)
(* instance used by the correspondence: floats are their own tokens     *)
(* ------------------------------------------------------------------ *)

Definition tok_id (t : bytes) : bytes := t.
Definition tok_some (t : bytes) : option bytes := Some t.

Definition pair_eqb {A B} (ea : A -> A -> bool) (eb : B -> B -> bool) (x y : A * B) : bool :=
  ea (fst x) (fst y) && eb (snd x) (snd y).

Definition res_eqb {A} (eqb : A -> A -> bool) (x y : res A) : bool :=
  match x, y with
  | Ok a, Ok b => eqb a b
  | Err c, Err d => c =? d
  | _, _ => false
  end.

Definition node_row_eqb : node_row bytes -> node_row bytes -> bool :=
  pair_eqb (pair_eqb (pair_eqb (pair_eqb Bool.eqb bytes_eqb) Z.eqb) Z.eqb) bytes_eqb.
Definition edge_row_eqb : edge_row bytes -> edge_row bytes -> bool :=
  pair_eqb (pair_eqb (pair_eqb bytes_eqb bytes_eqb) Z.eqb) Z.eqb.
Definition site_row_eqb : site_row bytes -> site_row bytes -> bool :=
  pair_eqb (pair_eqb bytes_eqb bytes_eqb) bytes_eqb.
Definition mutation_row_eqb : mutation_row bytes -> mutation_row bytes -> bool :=
  pair_eqb (pair_eqb (pair_eqb (pair_eqb (pair_eqb Z.eqb Z.eqb) (opt_eqb bytes_eqb)) bytes_eqb) Z.eqb) bytes_eqb.
Definition individual_row_eqb : individual_row bytes -> individual_row bytes -> bool :=
  pair_eqb (pair_eqb (pair_eqb Z.eqb (list_eqb bytes_eqb)) zlist_eqb) bytes_eqb.
Definition migration_row_eqb : migration_row bytes -> migration_row bytes -> bool :=
  pair_eqb (pair_eqb (pair_eqb (pair_eqb (pair_eqb (pair_eqb bytes_eqb bytes_eqb) Z.eqb) Z.eqb) Z.eqb) bytes_eqb) bytes_eqb.

Definition c_parse_nodes := parse_nodes bytes dec_parse tok_some.
Definition c_parse_edges := parse_edges bytes dec_parse tok_some.
Definition c_parse_sites := parse_sites bytes tok_some.
Definition c_parse_mutations := parse_mutations bytes dec_parse tok_some.
Definition c_parse_individuals := parse_individuals bytes dec_parse tok_some.
Definition c_parse_populations := parse_populations.
Definition c_parse_migrations := parse_migrations bytes dec_parse tok_some.

Definition c_parse_nodes_ws := parse_nodes_ws bytes dec_parse tok_some.
Definition c_parse_edges_ws := parse_edges_ws bytes dec_parse tok_some.
Definition c_parse_sites_ws := parse_sites_ws bytes tok_some.
Definition c_parse_mutations_ws := parse_mutations_ws bytes dec_parse tok_some.
Definition c_parse_individuals_ws := parse_individuals_ws bytes dec_parse tok_some.
Definition c_parse_populations_ws := parse_populations_ws.
Definition c_parse_migrations_ws := parse_migrations_ws bytes dec_parse tok_some.

Definition c_dump_nodes := dump_nodes bytes dec_print tok_id.
Definition c_dump_edges := dump_edges bytes dec_print tok_id.
Definition c_dump_sites := dump_sites bytes tok_id.
Definition c_dump_mutations := dump_mutations bytes dec_print tok_id.
Definition c_dump_individuals := dump_individuals bytes dec_print tok_id.
Definition c_dump_populations := dump_populations dec_print.
Definition c_dump_migrations := dump_migrations bytes dec_print tok_id.
Definition c_dump_provenances := dump_provenances dec_print.
