(* C17 — the decimal integer codec of the model is a codec: the assumptions of the
   round-trip theorems are satisfiable (and, for integers, proved rather than assumed). *)
From Coq Require Import String Ascii.
From Coq Require Import List ZArith Bool Lia.
From TskVerif Require Import Base.Common C17.Model C17.B64Proofs C17.TsvProofs C17.RoundtripProofs.
Import ListNotations.
Open Scope Z_scope.

Local Ltac Zify.zify_post_hook ::= Z.div_mod_to_equations.

Definition is_digit (c : Z) : Prop := 48 <= c <= 57.

Lemma digit_test : forall c, is_digit c -> (48 <=? c) && (c <=? 57) = true.
Proof. intros c [H1 H2]. apply andb_true_iff; split; apply Z.leb_le; assumption. Qed.

Lemma parse_digits_gen : forall fuel n acc, 0 <= n < 10 ^ Z.of_nat fuel ->
  dec_parse_digits (dec_digits fuel n acc) 0 = dec_parse_digits acc n.
Proof.
  induction fuel as [|f IH]; intros n acc Hn.
  - cbn in Hn. assert (n = 0) by lia. subst. reflexivity.
  - cbn [dec_digits]. destruct (n <? 10) eqn:E; [apply Z.ltb_lt in E|apply Z.ltb_ge in E].
    + cbn [dec_parse_digits]. rewrite digit_test by (unfold is_digit; lia). f_equal. lia.
    + rewrite IH.
      * cbn [dec_parse_digits]. rewrite digit_test by (unfold is_digit; lia). f_equal. lia.
      * rewrite Nat2Z.inj_succ, Z.pow_succ_r in Hn by lia. lia.
Qed.

Lemma digits_chars : forall fuel n acc, 0 <= n -> Forall is_digit acc ->
  Forall is_digit (dec_digits fuel n acc).
Proof.
  induction fuel as [|f IH]; intros n acc Hn Ha; [exact Ha|].
  cbn [dec_digits]. destruct (n <? 10) eqn:E; [apply Z.ltb_lt in E|apply Z.ltb_ge in E].
  - constructor; [unfold is_digit; lia|exact Ha].
  - apply IH; [lia|]. constructor; [unfold is_digit; lia|exact Ha].
Qed.

Lemma digits_nonempty : forall fuel n acc, dec_digits (S fuel) n acc <> [].
Proof.
  induction fuel as [|f IH]; intros n acc.
  - cbn. destruct (n <? 10); discriminate.
  - cbn [dec_digits]. destruct (n <? 10); [discriminate|]. apply IH.
Qed.

Lemma fuel_enough : forall n, 0 <= n -> n < 10 ^ Z.of_nat (S (Z.to_nat (Z.log2 n + 1))).
Proof.
  intros n Hn. rewrite Nat2Z.inj_succ, Z2Nat.id by (pose proof (Z.log2_nonneg n); lia).
  assert (n < 2 ^ (Z.log2 n + 1)) as H.
  { destruct (Z.eq_dec n 0) as [->|Hz]; [reflexivity|].
    pose proof (Z.log2_spec n ltac:(lia)) as [_ H]. rewrite <- Z.add_1_r in H. exact H. }
  assert (2 ^ (Z.log2 n + 1) <= 10 ^ (Z.log2 n + 1)) as H2
    by (apply Z.pow_le_mono_l; pose proof (Z.log2_nonneg n); lia).
  assert (10 ^ (Z.log2 n + 1) <= 10 ^ Z.succ (Z.log2 n + 1)) as H3
    by (apply Z.pow_le_mono_r; pose proof (Z.log2_nonneg n); lia).
  lia.
Qed.

Definition nat_digits (n : Z) : bytes := dec_digits (S (Z.to_nat (Z.log2 n + 1))) n [].

Lemma nat_digits_parse : forall n, 0 <= n -> dec_parse_digits (nat_digits n) 0 = Some n.
Proof. intros n Hn. unfold nat_digits. rewrite parse_digits_gen by (split; [lia|apply fuel_enough; lia]). reflexivity. Qed.

Lemma dec_print_eq : forall z,
  dec_print z = if z <? 0 then 45 :: nat_digits (Z.abs z) else nat_digits (Z.abs z).
Proof. reflexivity. Qed.

Lemma hd_digit_parse : forall s, s <> [] -> Forall is_digit s -> dec_parse s = dec_parse_digits s 0.
Proof.
  intros [|c s] Hne HF; [congruence|]. inversion HF as [|? ? Hc _]; subst. unfold is_digit in Hc.
  unfold dec_parse. destruct c as [|p|p]; try lia.
  (* c is a positive literal different from 45 *)
  destruct (Z.eq_dec (Z.pos p) 45) as [E|E]; [lia|].
  repeat (destruct p as [p|p|]; try reflexivity; try lia).
Qed.

Theorem dec_roundtrip : forall z, dec_parse (dec_print z) = Some z.
Proof.
  intros z. rewrite dec_print_eq.
  assert (Forall is_digit (nat_digits (Z.abs z))) as HD by (apply digits_chars; [lia|constructor]).
  assert (nat_digits (Z.abs z) <> []) as HN by apply digits_nonempty.
  destruct (z <? 0) eqn:E; [apply Z.ltb_lt in E|apply Z.ltb_ge in E].
  - unfold dec_parse. destruct (nat_digits (Z.abs z)) as [|d ds] eqn:Ed; [congruence|].
    rewrite <- Ed. rewrite nat_digits_parse by lia. f_equal. lia.
  - rewrite hd_digit_parse by assumption. rewrite nat_digits_parse by lia. f_equal. lia.
Qed.

Lemma dec_print_chars : forall z, Forall (fun c => c = 45 \/ is_digit c) (dec_print z).
Proof.
  intros z. rewrite dec_print_eq.
  assert (Forall (fun c => c = 45 \/ is_digit c) (nat_digits (Z.abs z))) as HD.
  { eapply Forall_impl; [|apply digits_chars; [lia|constructor]]. intros c Hc; right; exact Hc. }
  destruct (z <? 0); [constructor; [left; reflexivity|exact HD]|exact HD].
Qed.

Lemma dec_print_free : forall z x, x <> 45 -> ~ is_digit x -> free_of x (dec_print z).
Proof.
  intros z x H1 H2 HI. pose proof (dec_print_chars z) as HF.
  eapply Forall_forall in HF; eauto. destruct HF as [-> | HF]; [congruence|exact (H2 HF)].
Qed.

Lemma dec_print_nonempty : forall z, dec_print z <> [].
Proof.
  intros z. rewrite dec_print_eq. destruct (z <? 0); [discriminate|apply digits_nonempty].
Qed.

Lemma dec_print_not_unknown : forall z, dec_print z <> UNKNOWN.
Proof.
  intros z H. pose proof (dec_print_chars z) as HF. rewrite H in HF.
  inversion HF as [|? ? Hc _]; subst. unfold is_digit in Hc. lia.
Qed.

Lemma dec_clean : forall z, clean (dec_print z) /\ free_of COMMA (dec_print z) /\ dec_print z <> [].
Proof.
  intros z. repeat split; try (apply dec_print_free; unfold TAB, NL, COMMA, is_digit; lia).
  apply dec_print_nonempty.
Qed.

(* The hypotheses of the round-trip theorems hold for the decimal codec (with integers
   standing in for floats): the theorems are not vacuous, and their integer part needs
   no assumption about CPython at all. *)
Theorem codecs_ok_decimal : codecs_ok Z dec_print dec_parse dec_print dec_print dec_parse.
Proof.
  repeat split; try apply dec_roundtrip; try apply dec_clean; try apply dec_print_not_unknown.
Qed.

Example dec_examples : dec_print 0 = bs "0" /\ dec_print (-1) = bs "-1"
  /\ dec_print 4294967295 = bs "4294967295" /\ dec_parse (bs "-120") = Some (-120)
  /\ dec_parse (bs "") = None /\ dec_parse (bs "-") = None /\ dec_parse (bs "1.5") = None.
Proof. repeat split. Qed.
