(* C17 — Base64: decoding an encoding gives the bytes back, for every byte list. *)
From Coq Require Import List ZArith Bool Lia.
From TskVerif Require Import Base.Common C17.Model.
Import ListNotations.
Open Scope Z_scope.

Local Ltac Zify.zify_post_hook ::= Z.div_mod_to_equations.

Definition is_byte (b : Z) : Prop := 0 <= b < 256.

(* ---- the alphabet ---- *)

Lemma b64_val_char : forall v, 0 <= v < 64 -> b64_val (b64_char v) = Some v.
Proof.
  intros v Hv. unfold b64_char, b64_val.
  destruct (v <? 26) eqn:E1; [apply Z.ltb_lt in E1|apply Z.ltb_ge in E1].
  { replace ((65 <=? v + 65) && (v + 65 <=? 90)) with true
      by (symmetry; apply andb_true_iff; split; apply Z.leb_le; lia).
    f_equal; lia. }
  destruct (v <? 52) eqn:E2; [apply Z.ltb_lt in E2|apply Z.ltb_ge in E2].
  { replace ((65 <=? v + 71) && (v + 71 <=? 90)) with false
      by (symmetry; apply andb_false_iff; right; apply Z.leb_gt; lia).
    replace ((97 <=? v + 71) && (v + 71 <=? 122)) with true
      by (symmetry; apply andb_true_iff; split; apply Z.leb_le; lia).
    f_equal; lia. }
  destruct (v <? 62) eqn:E3; [apply Z.ltb_lt in E3|apply Z.ltb_ge in E3].
  { replace ((65 <=? v - 4) && (v - 4 <=? 90)) with false
      by (symmetry; apply andb_false_iff; left; apply Z.leb_gt; lia).
    replace ((97 <=? v - 4) && (v - 4 <=? 122)) with false
      by (symmetry; apply andb_false_iff; left; apply Z.leb_gt; lia).
    replace ((48 <=? v - 4) && (v - 4 <=? 57)) with true
      by (symmetry; apply andb_true_iff; split; apply Z.leb_le; lia).
    f_equal; lia. }
  assert (v = 62 \/ v = 63) as [-> | ->] by lia; reflexivity.
Qed.

(* every encoded character is one of A-Z a-z 0-9 + / *)
Definition b64_alphabet (c : Z) : Prop :=
  65 <= c <= 90 \/ 97 <= c <= 122 \/ 48 <= c <= 57 \/ c = 43 \/ c = 47.

Lemma b64_char_alphabet : forall v, 0 <= v < 64 -> b64_alphabet (b64_char v).
Proof.
  intros v Hv. unfold b64_char, b64_alphabet.
  destruct (v <? 26) eqn:E1; [apply Z.ltb_lt in E1; lia|apply Z.ltb_ge in E1].
  destruct (v <? 52) eqn:E2; [apply Z.ltb_lt in E2; lia|apply Z.ltb_ge in E2].
  destruct (v <? 62) eqn:E3; [apply Z.ltb_lt in E3; lia|apply Z.ltb_ge in E3].
  destruct (v =? 62); lia.
Qed.

Lemma b64_char_not_pad : forall v, 0 <= v < 64 -> (b64_char v =? PAD) = false.
Proof.
  intros v Hv. apply Z.eqb_neq. pose proof (b64_char_alphabet v Hv) as H.
  unfold b64_alphabet, PAD in *. lia.
Qed.

(* ---- one decoding step on an alphabet character ---- *)

Lemma loop_step : forall v cs qp lc pads acc, 0 <= v < 64 ->
  b64_loop (b64_char v :: cs) qp lc pads acc =
    if qp =? 0 then b64_loop cs 1 v 0 acc
    else if qp =? 1 then b64_loop cs 2 (v mod 16) 0 ((lc * 4 + v / 16) :: acc)
    else if qp =? 2 then b64_loop cs 3 (v mod 4) 0 ((lc * 16 + v / 4) :: acc)
    else b64_loop cs 0 0 0 ((lc * 64 + v) :: acc).
Proof.
  intros. cbn [b64_loop]. rewrite b64_char_not_pad, b64_val_char by assumption. reflexivity.
Qed.

Lemma step0 : forall v cs lc pads acc, 0 <= v < 64 ->
  b64_loop (b64_char v :: cs) 0 lc pads acc = b64_loop cs 1 v 0 acc.
Proof. intros. rewrite loop_step by assumption. reflexivity. Qed.
Lemma step1 : forall v cs lc pads acc, 0 <= v < 64 ->
  b64_loop (b64_char v :: cs) 1 lc pads acc = b64_loop cs 2 (v mod 16) 0 ((lc * 4 + v / 16) :: acc).
Proof. intros. rewrite loop_step by assumption. reflexivity. Qed.
Lemma step2 : forall v cs lc pads acc, 0 <= v < 64 ->
  b64_loop (b64_char v :: cs) 2 lc pads acc = b64_loop cs 3 (v mod 4) 0 ((lc * 16 + v / 4) :: acc).
Proof. intros. rewrite loop_step by assumption. reflexivity. Qed.
Lemma step3 : forall v cs lc pads acc, 0 <= v < 64 ->
  b64_loop (b64_char v :: cs) 3 lc pads acc = b64_loop cs 0 0 0 ((lc * 64 + v) :: acc).
Proof. intros. rewrite loop_step by assumption. reflexivity. Qed.

(* ---- induction three bytes at a time ---- *)

Lemma list_ind3 {A} (P : list A -> Prop) :
  P [] -> (forall a, P [a]) -> (forall a b, P [a; b]) ->
  (forall a b c l, P l -> P (a :: b :: c :: l)) -> forall l, P l.
Proof.
  intros H0 H1 H2 H3.
  assert (forall l, P l /\ (forall a, P (a :: l)) /\ (forall a b, P (a :: b :: l))) as H.
  { induction l as [|x l [IH0 [IH1 IH2]]]; repeat split; auto. }
  intro l; apply H.
Qed.

Lemma encode3 : forall a b c rest,
  b64encode (a :: b :: c :: rest) =
  b64_char (a / 4) :: b64_char ((a mod 4) * 16 + b / 16)
  :: b64_char ((b mod 16) * 4 + c / 64) :: b64_char (c mod 64) :: b64encode rest.
Proof. reflexivity. Qed.

Lemma loop_pad2 : forall lc acc, b64_loop [PAD; PAD] 2 lc 0 acc = Ok (rev acc).
Proof. reflexivity. Qed.
Lemma loop_pad1 : forall lc acc, b64_loop [PAD] 3 lc 0 acc = Ok (rev acc).
Proof. reflexivity. Qed.

Local Ltac fin :=
  f_equal; cbn [rev]; repeat (rewrite <- app_assoc; cbn [app]);
  repeat (f_equal; try lia).

Lemma dec_enc_gen : forall l, Forall is_byte l ->
  forall lc pads acc, b64_loop (b64encode l) 0 lc pads acc = Ok (rev acc ++ l).
Proof.
  induction l as [| a | a b | a b c l IH] using list_ind3; intros HB lc pads acc.
  - cbn. rewrite app_nil_r. reflexivity.
  - inversion HB as [|? ? Ha _]; subst. unfold is_byte in Ha.
    cbn [b64encode].
    rewrite step0 by lia. rewrite step1 by lia.
    rewrite ?loop_pad2, ?loop_pad1.
    fin.
  - inversion HB as [|? ? Ha HB']; subst. inversion HB' as [|? ? Hb _]; subst.
    unfold is_byte in *.
    cbn [b64encode].
    rewrite step0 by lia. rewrite step1 by lia. rewrite step2 by lia.
    rewrite ?loop_pad2, ?loop_pad1.
    fin.
  - inversion HB as [|? ? Ha HB']; subst. inversion HB' as [|? ? Hb HB'']; subst.
    inversion HB'' as [|? ? Hc HB3]; subst. unfold is_byte in *.
    rewrite encode3.
    rewrite step0 by lia. rewrite step1 by lia. rewrite step2 by lia. rewrite step3 by lia.
    rewrite IH by assumption. fin.
Qed.

Theorem b64_roundtrip_bytes : forall l, Forall is_byte l -> b64decode (b64encode l) = Ok l.
Proof. intros l H. unfold b64decode. rewrite dec_enc_gen by assumption. reflexivity. Qed.

(* ---- no TAB / NL / CR / ',' / space in an encoding ---- *)

Definition b64_out (c : Z) : Prop := b64_alphabet c \/ c = PAD.

Lemma b64encode_chars : forall l, Forall is_byte l -> Forall b64_out (b64encode l).
Proof.
  induction l as [| a | a b | a b c l IH] using list_ind3; intros HB.
  - constructor.
  - inversion HB as [|? ? Ha _]; subst. unfold is_byte in Ha. cbn [b64encode].
    repeat (apply Forall_cons; [first [left; apply b64_char_alphabet; lia | right; reflexivity]|]).
    apply Forall_nil.
  - inversion HB as [|? ? Ha HB']; subst. inversion HB' as [|? ? Hb _]; subst. unfold is_byte in *.
    cbn [b64encode].
    repeat (apply Forall_cons; [first [left; apply b64_char_alphabet; lia | right; reflexivity]|]).
    apply Forall_nil.
  - inversion HB as [|? ? Ha HB']; subst. inversion HB' as [|? ? Hb HB'']; subst.
    inversion HB'' as [|? ? Hc HB3]; subst. unfold is_byte in *. rewrite encode3.
    repeat (apply Forall_cons; [left; apply b64_char_alphabet; lia|]). auto.
Qed.

Theorem b64_no_separator : forall l, Forall is_byte l ->
  Forall (fun c => c <> TAB /\ c <> NL /\ c <> 13 /\ c <> COMMA /\ c <> 32) (b64encode l).
Proof.
  intros l H. eapply Forall_impl; [|apply b64encode_chars; exact H].
  intros c [Hc | Hc]; unfold b64_alphabet, PAD, TAB, NL, COMMA in *; lia.
Qed.

(* non-vacuity: a byte string with NUL, 0xFF, TAB and NL, of length 2 mod 3 *)
Example b64_example :
  b64encode [0; 255; 9; 10; 65] = [65; 80; 56; 74; 67; 107; 69; 61]   (* "AP8JCkE=" *)
  /\ b64decode [65; 80; 56; 74; 67; 107; 69; 61] = Ok [0; 255; 9; 10; 65].
Proof. split; reflexivity. Qed.

(* the decoder is tolerant, as the C code is: characters outside the alphabet are
   skipped and everything after a complete padding is ignored *)
Example b64_tolerant : b64decode [65; 32; 65; 61; 61; 33; 33] = Ok [0]     (* "A A==!!" *)
  /\ b64decode [65; 65; 65] = Err E_B64.                                  (* "AAA" *)
Proof. split; reflexivity. Qed.
