(* C17 — parse_X (dump_X rows) = rows, table by table. *)
From Coq Require Import String Ascii.
From Coq Require Import List ZArith Bool Lia.
From TskVerif Require Import Base.Common Gen.Generated C17.Model C17.B64Proofs C17.TsvProofs.
Import ListNotations.
Open Scope Z_scope.

Lemma facts_dump_headers :
  c17_dump_header_nodes = ["id"; "is_sample"; "time"; "population"; "individual"; "metadata"]%string
  /\ c17_dump_header_edges = ["left"; "right"; "parent"; "child"; "metadata"]%string
  /\ c17_dump_header_sites = ["position"; "ancestral_state"; "metadata"]%string
  /\ c17_dump_header_mutations = ["site"; "node"; "time"; "derived_state"; "parent"; "metadata"]%string
  /\ c17_dump_header_individuals = ["id"; "flags"; "location"; "parents"; "metadata"]%string
  /\ c17_dump_header_populations = ["id"; "metadata"]%string
  /\ c17_dump_header_migrations = ["left"; "right"; "node"; "source"; "dest"; "time"; "metadata"]%string.
Proof. repeat split. Qed.

(* the row formats of dump_text: which fields use a fixed precision ("{:.{precision}f}"),
   which are printed with "{}" (repr), "{:d}"; a trailing "" = the row ends with a TAB *)
Lemma facts_dump_rowfmt :
  c17_dump_rowfmt_nodes = ["id|d"; "is_sample|d"; "time|.{precision}f"; "population|d"; "individual|d"; "metadata|"]%string
  /\ c17_dump_rowfmt_edges = ["left|.{precision}f"; "right|.{precision}f"; "parent|d"; "child|d"; "metadata|"]%string
  /\ c17_dump_rowfmt_sites = ["position|.{precision}f"; "ancestral_state|"; "metadata|"]%string
  /\ c17_dump_rowfmt_mutations = ["site|"; "node|"; "time|"; "derived_state|"; "parent|"; "metadata|"]%string
  /\ c17_dump_rowfmt_individuals = ["id|"; "flags|"; "location|"; "parents|"; "metadata|"]%string
  /\ c17_dump_rowfmt_populations = ["id|"; "metadata|"]%string
  /\ c17_dump_rowfmt_migrations = ["left|"; "right|"; "node|"; "source|"; "dest|"; "time|"; "metadata|"; ""]%string.
Proof. repeat split. Qed.

Lemma clean_b64 : forall m, Forall is_byte m -> clean (b64encode m).
Proof.
  intros m H. pose proof (b64_no_separator m H) as HF. split; intros HI;
    eapply Forall_forall in HF; eauto; cbv beta in HF; intuition.
Qed.

Lemma b64_free_comma : forall m, Forall is_byte m -> free_of COMMA (b64encode m).
Proof.
  intros m H HI. pose proof (b64_no_separator m H) as HF.
  eapply Forall_forall in HF; eauto; cbv beta in HF; intuition.
Qed.

Lemma clean_nil : clean [].
Proof. split; intros []. Qed.

Lemma number_from_snd : forall {A} (l : list A) k, map snd (number_from k l) = l.
Proof. induction l as [|a l IH]; intros k; cbn; [reflexivity|]. rewrite IH. reflexivity. Qed.

Lemma concat_singletons : forall {A B} (f : A -> B) l, concat (map (fun a => [f a]) l) = map f l.
Proof. induction l as [|a l IH]; cbn; [reflexivity|]. rewrite IH. reflexivity. Qed.

Lemma in_number_from : forall {A} (l : list A) k p, In p (number_from k l) -> In (snd p) l.
Proof.
  induction l as [|a l IH]; intros k p H; [destruct H|].
  cbn in H. destruct H as [<-|H]; [left; reflexivity|right; eapply IH; eauto].
Qed.

Section Roundtrip.
  Variable F : Type.
  Variable print_int : Z -> bytes.
  Variable parse_int : bytes -> option Z.
  Variable print_fix : F -> bytes.
  Variable print_repr : F -> bytes.
  Variable parse_float : bytes -> option F.

  (* CPython's int <-> decimal and float <-> repr conversions (trusted base) *)
  Hypothesis int_rt : forall z, parse_int (print_int z) = Some z.
  Hypothesis repr_rt : forall x, parse_float (print_repr x) = Some x.
  Hypothesis int_clean : forall z, clean (print_int z) /\ free_of COMMA (print_int z) /\ print_int z <> [].
  Hypothesis repr_clean : forall x, clean (print_repr x) /\ free_of COMMA (print_repr x) /\ print_repr x <> []
                                    /\ print_repr x <> UNKNOWN.
  Hypothesis fix_clean : forall x, clean (print_fix x).

  (* "a precision sufficient for its coordinates": the fixed-precision rendering of
     this particular value converts back to it *)
  Definition fix_ok (x : F) : Prop := parse_float (print_fix x) = Some x.

  Local Ltac indexes :=
    repeat match goal with
    | |- context [index_of ?n ?h] =>
        let r := eval vm_compute in (index_of n h) in change (index_of n h) with r
    end.

  Local Ltac hdr_clean := split; [discriminate | repeat constructor; vm_compute; intuition discriminate].

  Local Ltac open_table :=
    unfold dump_table; fold (table_text);
    match goal with |- context [unlines (join_with TAB ?h :: map (join_with TAB) ?r)] =>
      change (unlines (join_with TAB h :: map (join_with TAB) r)) with (table_text h r) end.

  Lemma unknown_clean : clean UNKNOWN.
  Proof. split; vm_compute; intuition discriminate. Qed.

  Lemma clean_int : forall z, clean (print_int z).
  Proof. intros z; apply int_clean. Qed.
  Lemma clean_repr : forall x, clean (print_repr x).
  Proof. intros x; apply repr_clean. Qed.

  Local Ltac row_clean :=
    split; [discriminate|];
    repeat (apply Forall_cons;
            [first [ apply clean_int | apply clean_repr | apply fix_clean | apply clean_nil
                   | apply clean_b64; assumption | assumption
                   | match goal with |- clean (match ?t with _ => _ end) => destruct t end;
                     first [apply clean_repr | apply unknown_clean] ] |]);
    apply Forall_nil.

  Lemma get_int_print : forall z, get_int parse_int (print_int z) = Ok z.
  Proof. intros z. unfold get_int. rewrite int_rt. reflexivity. Qed.
  Lemma get_float_repr : forall x, get_float F parse_float (print_repr x) = Ok x.
  Proof. intros x. unfold get_float. rewrite repr_rt. reflexivity. Qed.
  Lemma get_float_fix : forall x, fix_ok x -> get_float F parse_float (print_fix x) = Ok x.
  Proof. intros x H. unfold get_float. rewrite H. reflexivity. Qed.

  (* ---------------- nodes ---------------- *)
  Definition node_ok (r : node_row F) : Prop :=
    let '(s, t, p, i, m) := r in fix_ok t /\ Forall is_byte m.

  Theorem load_dump_nodes : forall rows, Forall node_ok rows ->
    parse_nodes F parse_int parse_float (dump_nodes F print_int print_fix rows) = Ok rows.
  Proof.
    intros rows HR. unfold parse_nodes, dump_nodes, dump_table.
    match goal with |- context [unlines (join_with TAB ?h :: map (join_with TAB) ?r)] =>
      change (unlines (join_with TAB h :: map (join_with TAB) r)) with (table_text h r) end.
    rewrite parse_generic_tokens.
    - change (check_required (names c17_parse_required_nodes) (names c17_dump_header_nodes)) with (Ok tt).
      cbn [bind]. rewrite map_map.
      rewrite (concat_res_ok _ (fun p => [snd p])).
      + rewrite concat_singletons. f_equal. apply number_from_snd.
      + intros [id [[[[s t] p] i] m]] Hin.
        apply in_number_from in Hin. cbn [snd] in Hin.
        eapply Forall_forall in HR; eauto. destruct HR as [Ht Hm].
        cbn [length]. change (Nat.ltb 6 c17_parse_min_tokens_nodes) with false. cbv iota.
        unfold row_nodes, req, opt_int, opt_metadata, accessor, accessor_guarded, cell. indexes.
        cbn [nth_error bind snd].
        rewrite !get_int_print. cbn [bind]. rewrite get_float_fix by exact Ht. cbn [bind].
        rewrite b64_roundtrip_bytes by exact Hm. cbn [bind].
        destruct s; reflexivity.
    - hdr_clean.
    - apply Forall_forall. intros r Hr. apply in_map_iff in Hr as [[id [[[[s t] p] i] m]] [<- Hin]].
      apply in_number_from in Hin. cbn [snd] in Hin.
      eapply Forall_forall in HR; eauto. destruct HR as [Ht Hm].
      row_clean.
  Qed.

  (* ---------------- edges (the metadata column is written, never read) ---------------- *)
  Definition edge_ok (r : edge_row F * bytes) : Prop :=
    let '((l, r, p, c), m) := r in fix_ok l /\ fix_ok r /\ Forall is_byte m.

  Theorem load_dump_edges : forall rows, Forall edge_ok rows ->
    parse_edges F parse_int parse_float (dump_edges F print_int print_fix rows) = Ok (map fst rows).
  Proof.
    intros rows HR. unfold parse_edges, dump_edges, dump_table.
    match goal with |- context [unlines (join_with TAB ?h :: map (join_with TAB) ?r)] =>
      change (unlines (join_with TAB h :: map (join_with TAB) r)) with (table_text h r) end.
    rewrite parse_generic_tokens.
    - change (check_required (names c17_parse_required_edges) (names c17_dump_header_edges)) with (Ok tt).
      cbn [bind]. rewrite map_map.
      rewrite (concat_res_ok _ (fun p => [fst p])).
      + rewrite concat_singletons. reflexivity.
      + intros [[[[l r] p] c] m] Hin.
        eapply Forall_forall in HR; eauto. destruct HR as [Hl [Hr Hm]].
        cbn [length]. change (Nat.ltb 5 c17_parse_min_tokens_edges) with false. cbv iota.
        unfold row_edges, req, accessor, accessor_guarded, cell. indexes.
        cbn [nth_error bind fst].
        rewrite !get_float_fix by assumption. cbn [bind]. rewrite get_int_print. cbn [bind].
        rewrite split_on_free by apply int_clean. cbn [map_res]. rewrite get_int_print. reflexivity.
    - hdr_clean.
    - apply Forall_forall. intros r Hr. apply in_map_iff in Hr as [[[[[l r'] p] c] m] [<- Hin]].
      eapply Forall_forall in HR; eauto. destruct HR as [Hl [Hr Hm]].
      row_clean.
  Qed.

  (* ---------------- sites ---------------- *)
  Definition site_ok (r : site_row F) : Prop :=
    let '(x, a, m) := r in fix_ok x /\ clean a /\ Forall is_byte m.

  Theorem load_dump_sites : forall rows, Forall site_ok rows ->
    parse_sites F parse_float (dump_sites F print_fix rows) = Ok rows.
  Proof.
    intros rows HR. unfold parse_sites, dump_sites, dump_table.
    match goal with |- context [unlines (join_with TAB ?h :: map (join_with TAB) ?r)] =>
      change (unlines (join_with TAB h :: map (join_with TAB) r)) with (table_text h r) end.
    rewrite parse_generic_tokens.
    - change (check_required (names c17_parse_required_sites) (names c17_dump_header_sites)) with (Ok tt).
      cbn [bind]. rewrite map_map.
      rewrite (concat_res_ok _ (fun p => [p])).
      + rewrite concat_singletons, map_id. reflexivity.
      + intros [[x a] m] Hin.
        eapply Forall_forall in HR; eauto. destruct HR as [Hx [Ha Hm]].
        cbn [length]. change (Nat.ltb 3 c17_parse_min_tokens_sites) with false. cbv iota.
        unfold row_sites, req, opt_metadata, accessor, accessor_guarded, cell. indexes.
        cbn [nth_error bind].
        rewrite get_float_fix by assumption. cbn [bind].
        rewrite b64_roundtrip_bytes by exact Hm. reflexivity.
    - hdr_clean.
    - apply Forall_forall. intros r Hr. apply in_map_iff in Hr as [[[x a] m] [<- Hin]].
      eapply Forall_forall in HR; eauto. destruct HR as [Hx [Ha Hm]].
      row_clean.
  Qed.

  (* ---------------- mutations (unknown times, parents, any clean state incl. empty) ---------------- *)
  Definition mutation_ok (r : mutation_row F) : Prop :=
    let '(s, n, t, d, p, m) := r in clean d /\ Forall is_byte m.

  Theorem load_dump_mutations : forall rows, Forall mutation_ok rows ->
    parse_mutations F parse_int parse_float (dump_mutations F print_int print_repr rows) = Ok rows.
  Proof.
    intros rows HR. unfold parse_mutations, dump_mutations, dump_table.
    match goal with |- context [unlines (join_with TAB ?h :: map (join_with TAB) ?r)] =>
      change (unlines (join_with TAB h :: map (join_with TAB) r)) with (table_text h r) end.
    rewrite parse_generic_tokens.
    - change (check_required (names c17_parse_required_mutations) (names c17_dump_header_mutations)) with (Ok tt).
      cbn [bind]. rewrite map_map.
      rewrite (concat_res_ok _ (fun p => [p])).
      + rewrite concat_singletons, map_id. reflexivity.
      + intros [[[[[s n] t] d] p] m] Hin.
        eapply Forall_forall in HR; eauto. destruct HR as [Hd Hm].
        cbn [length]. change (Nat.ltb 6 c17_parse_min_tokens_mutations) with false. cbv iota.
        unfold row_mutations, req, opt_int, opt_metadata, accessor, accessor_guarded, cell. indexes.
        cbn [nth_error bind].
        rewrite !get_int_print. cbn [bind].
        rewrite b64_roundtrip_bytes by exact Hm.
        destruct t as [x|].
        * rewrite bytes_eqb_neq by apply repr_clean. rewrite get_float_repr. reflexivity.
        * rewrite bytes_eqb_refl. reflexivity.
    - hdr_clean.
    - apply Forall_forall. intros r Hr. apply in_map_iff in Hr as [[[[[[s n] t] d] p] m] [<- Hin]].
      eapply Forall_forall in HR; eauto. destruct HR as [Hd Hm].
      row_clean.
  Qed.

  (* ---------------- individuals (flags, ragged location and parents) ---------------- *)
  Definition individual_ok (r : individual_row F) : Prop :=
    let '(f, loc, par, m) := r in Forall is_byte m.

  Lemma comma_list_join : forall {A} (pr : A -> bytes) (conv : bytes -> res A) l,
    (forall a, conv (pr a) = Ok a) -> (forall a, free_of COMMA (pr a) /\ pr a <> []) ->
    comma_list conv (join_with COMMA (map pr l)) = Ok l.
  Proof.
    intros A pr conv l Hrt Hcl. destruct l as [|a l]; [reflexivity|].
    assert (join_with COMMA (map pr (a :: l)) <> []) as Hne.
    { cbn [map]. destruct (map pr l) eqn:E; cbn [join_with].
      - apply Hcl.
      - destruct (pr a) eqn:Ea; [exfalso; apply (proj2 (Hcl a)); exact Ea|discriminate]. }
    unfold comma_list. destruct (join_with COMMA (map pr (a :: l))) eqn:E; [congruence|].
    rewrite <- E. rewrite split_join.
    - clear E Hne. generalize (a :: l) as l'. induction l' as [|x l' IH]; [reflexivity|].
      cbn [map map_res]. rewrite Hrt. cbn [bind]. rewrite IH. reflexivity.
    - discriminate.
    - apply Forall_forall. intros t Ht. apply in_map_iff in Ht as [b0 [<- _]]. apply Hcl.
  Qed.

  Theorem load_dump_individuals : forall rows, Forall individual_ok rows ->
    parse_individuals F parse_int parse_float (dump_individuals F print_int print_repr rows) = Ok rows.
  Proof.
    intros rows HR. unfold parse_individuals, dump_individuals, dump_table.
    match goal with |- context [unlines (join_with TAB ?h :: map (join_with TAB) ?r)] =>
      change (unlines (join_with TAB h :: map (join_with TAB) r)) with (table_text h r) end.
    rewrite parse_generic_tokens.
    - change (check_required (names c17_parse_required_individuals) (names c17_dump_header_individuals)) with (Ok tt).
      cbn [bind]. rewrite map_map.
      rewrite (concat_res_ok _ (fun p => [snd p])).
      + rewrite concat_singletons. f_equal. apply number_from_snd.
      + intros [id [[[f loc] par] m]] Hin.
        apply in_number_from in Hin. cbn [snd] in Hin.
        eapply Forall_forall in HR; eauto. cbn in HR.
        cbn [length]. change (Nat.ltb 5 c17_parse_min_tokens_individuals) with false. cbv iota.
        unfold row_individuals, req, opt_metadata, accessor, accessor_guarded, cell. indexes.
        cbn [nth_error bind snd].
        rewrite get_int_print. cbn [bind].
        rewrite (comma_list_join print_repr) by (intros; first [apply get_float_repr | split; apply repr_clean]).
        cbn [bind].
        rewrite (comma_list_join print_int) by (intros; first [apply get_int_print | split; apply int_clean]).
        cbn [bind].
        rewrite b64_roundtrip_bytes by exact HR. reflexivity.
    - hdr_clean.
    - apply Forall_forall. intros r Hr. apply in_map_iff in Hr as [[id [[[f loc] par] m]] [<- Hin]].
      apply in_number_from in Hin. cbn [snd] in Hin.
      eapply Forall_forall in HR; eauto. cbn in HR.
      split; [discriminate|].
      apply Forall_cons; [apply clean_int|]. apply Forall_cons; [apply clean_int|].
      apply Forall_cons.
      { split; (apply join_free; [unfold COMMA, TAB, NL; lia|]); apply Forall_forall; intros t Ht;
          apply in_map_iff in Ht as [x [<- _]]; apply repr_clean. }
      apply Forall_cons.
      { split; (apply join_free; [unfold COMMA, TAB, NL; lia|]); apply Forall_forall; intros t Ht;
          apply in_map_iff in Ht as [x [<- _]]; apply int_clean. }
      apply Forall_cons; [apply clean_b64; exact HR|]. apply Forall_nil.
  Qed.

  (* ---------------- populations ---------------- *)
  Theorem load_dump_populations : forall rows, Forall (Forall is_byte) rows ->
    parse_populations (dump_populations print_int rows) = Ok rows.
  Proof.
    intros rows HR. unfold parse_populations, dump_populations, dump_table.
    match goal with |- context [unlines (join_with TAB ?h :: map (join_with TAB) ?r)] =>
      change (unlines (join_with TAB h :: map (join_with TAB) r)) with (table_text h r) end.
    rewrite parse_generic_tokens.
    - change (check_required (names c17_parse_required_populations) (names c17_dump_header_populations)) with (Ok tt).
      cbn [bind]. rewrite map_map.
      rewrite (concat_res_ok _ (fun p => [snd p])).
      + rewrite concat_singletons. f_equal. apply number_from_snd.
      + intros [id m] Hin.
        apply in_number_from in Hin. cbn [snd] in Hin.
        eapply Forall_forall in HR; eauto.
        cbn [length]. change (Nat.ltb 2 c17_parse_min_tokens_populations) with false. cbv iota.
        unfold row_populations, req, accessor, accessor_guarded, cell. indexes.
        cbn [nth_error bind snd].
        rewrite b64_roundtrip_bytes by exact HR. reflexivity.
    - hdr_clean.
    - apply Forall_forall. intros r Hr. apply in_map_iff in Hr as [[id m] [<- Hin]].
      apply in_number_from in Hin. cbn [snd] in Hin.
      eapply Forall_forall in HR; eauto. row_clean.
  Qed.

  (* ---------------- migrations (every row ends with a TAB) ---------------- *)
  Definition migration_ok (r : migration_row F) : Prop :=
    let '(l, r, n, s, d, t, m) := r in Forall is_byte m.

  Theorem load_dump_migrations : forall rows, Forall migration_ok rows ->
    parse_migrations F parse_int parse_float (dump_migrations F print_int print_repr rows) = Ok rows.
  Proof.
    intros rows HR. unfold parse_migrations, dump_migrations, dump_table.
    match goal with |- context [unlines (join_with TAB ?h :: map (join_with TAB) ?r)] =>
      change (unlines (join_with TAB h :: map (join_with TAB) r)) with (table_text h r) end.
    rewrite parse_generic_tokens.
    - change (check_required (names c17_parse_required_migrations) (names c17_dump_header_migrations)) with (Ok tt).
      cbn [bind]. rewrite map_map.
      rewrite (concat_res_ok _ (fun p => [p])).
      + rewrite concat_singletons, map_id. reflexivity.
      + intros [[[[[[l r] n] s] d] t] m] Hin.
        eapply Forall_forall in HR; eauto. cbn in HR.
        cbn [length]. change (Nat.ltb 8 c17_parse_min_tokens_migrations) with false. cbv iota.
        unfold row_migrations, req, opt_metadata, accessor, accessor_guarded, cell. indexes.
        cbn [nth_error bind].
        repeat first [rewrite get_float_repr | rewrite get_int_print | progress cbn [bind]].
        rewrite b64_roundtrip_bytes by exact HR. reflexivity.
    - hdr_clean.
    - apply Forall_forall. intros r Hr. apply in_map_iff in Hr as [[[[[[[l r'] n] s] d] t] m] [<- Hin]].
      eapply Forall_forall in HR; eauto. cbn in HR. row_clean.
  Qed.
End Roundtrip.

(* ------------------------------------------------------------------ *)
(* non-vacuity: concrete rows through the concrete instance             *)
(* ------------------------------------------------------------------ *)

Example nodes_example :
  let rows := [(true, bs "0.000", 0, -1, [0; 255]); (false, bs "1.500", -1, 2, [])] in
  c_dump_nodes rows = bs ("id" ++ String (ascii_of_nat 9) "is_sample" ++ String (ascii_of_nat 9) "time"
                          ++ String (ascii_of_nat 9) "population" ++ String (ascii_of_nat 9) "individual"
                          ++ String (ascii_of_nat 9) "metadata" ++ String (ascii_of_nat 10) "")%string
                      ++ bs "0" ++ [9] ++ bs "1" ++ [9] ++ bs "0.000" ++ [9] ++ bs "0" ++ [9] ++ bs "-1" ++ [9] ++ bs "AP8=" ++ [10]
                      ++ bs "1" ++ [9] ++ bs "0" ++ [9] ++ bs "1.500" ++ [9] ++ bs "-1" ++ [9] ++ bs "2" ++ [9] ++ [10]
  /\ c_parse_nodes (c_dump_nodes rows) = Ok rows.
Proof. split; reflexivity. Qed.

Example mutations_example :
  let rows := [(0, 3, None, bs "T", -1, [9; 10]); (0, 1, Some (bs "0.25"), [], 0, [])] in
  c_parse_mutations (c_dump_mutations rows) = Ok rows.
Proof. reflexivity. Qed.

Example individuals_example :
  let rows := [(3, [bs "0.1"; bs "-2.0"], [-1; 0], [255]); (0, [], [], [])] in
  c_parse_individuals (c_dump_individuals rows) = Ok rows.
Proof. reflexivity. Qed.

Example migrations_example :
  let rows := [(bs "0.0", bs "2.5", 1, 0, 1, bs "3.0", [0])] in
  c_parse_migrations (c_dump_migrations rows) = Ok rows.
Proof. reflexivity. Qed.

(* ------------------------------------------------------------------ *)
(* the assumptions about CPython's number <-> text conversions, bundled  *)
(* ------------------------------------------------------------------ *)

Definition codecs_ok (F : Type) (print_int : Z -> bytes) (parse_int : bytes -> option Z)
    (print_fix print_repr : F -> bytes) (parse_float : bytes -> option F) : Prop :=
  (forall z, parse_int (print_int z) = Some z)
  /\ (forall x, parse_float (print_repr x) = Some x)
  /\ (forall z, clean (print_int z) /\ free_of COMMA (print_int z) /\ print_int z <> [])
  /\ (forall x, clean (print_repr x) /\ free_of COMMA (print_repr x) /\ print_repr x <> []
                /\ print_repr x <> UNKNOWN)
  /\ (forall x, clean (print_fix x)).

Section Bundle.
  Variable F : Type.
  Variable print_int : Z -> bytes.
  Variable parse_int : bytes -> option Z.
  Variable print_fix print_repr : F -> bytes.
  Variable parse_float : bytes -> option F.
  Hypothesis C : codecs_ok F print_int parse_int print_fix print_repr parse_float.

  Theorem load_dump_text_all :
    (forall rows, Forall (node_ok F print_fix parse_float) rows ->
       parse_nodes F parse_int parse_float (dump_nodes F print_int print_fix rows) = Ok rows)
    /\ (forall rows, Forall (edge_ok F print_fix parse_float) rows ->
       parse_edges F parse_int parse_float (dump_edges F print_int print_fix rows) = Ok (map fst rows))
    /\ (forall rows, Forall (site_ok F print_fix parse_float) rows ->
       parse_sites F parse_float (dump_sites F print_fix rows) = Ok rows)
    /\ (forall rows, Forall (mutation_ok F) rows ->
       parse_mutations F parse_int parse_float (dump_mutations F print_int print_repr rows) = Ok rows)
    /\ (forall rows, Forall (individual_ok F) rows ->
       parse_individuals F parse_int parse_float (dump_individuals F print_int print_repr rows) = Ok rows)
    /\ (forall rows, Forall (Forall is_byte) rows ->
       parse_populations (dump_populations print_int rows) = Ok rows)
    /\ (forall rows, Forall (migration_ok F) rows ->
       parse_migrations F parse_int parse_float (dump_migrations F print_int print_repr rows) = Ok rows).
  Proof.
    destruct C as [H1 [H2 [H3 [H4 H5]]]].
    repeat split; intros rows HR.
    - apply load_dump_nodes; assumption.
    - apply load_dump_edges; assumption.
    - apply load_dump_sites; assumption.
    - eapply load_dump_mutations; eassumption.
    - eapply load_dump_individuals; eassumption.
    - eapply load_dump_populations; eassumption.
    - eapply load_dump_migrations; eassumption.
  Qed.
End Bundle.
