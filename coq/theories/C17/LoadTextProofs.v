(* C17 — load_text o dump_text, end to end, up to the documented normalisation of the final
   tc.sort().  The sorter is a Section parameter constrained by what property C07 proves about
   tsk_table_sorter_run (permutation, no inversion of the comparison keys, tables it does not
   touch); the key orders are parameters too. *)
From Coq Require Import String Ascii.
From Coq Require Import List ZArith Bool Lia Permutation Sorting.Sorted.
From TskVerif Require Import Base.Common Gen.Generated C17.Model C17.B64Proofs C17.TsvProofs
  C17.RoundtripProofs.
Import ListNotations.
Open Scope Z_scope.

(* ---- a sorted permutation of a strictly sorted list is that list ---- *)

Section SortUnique.
  Context {A : Type}.
  Variable lt : A -> A -> Prop.
  Hypothesis lt_trans : forall a b c, lt a b -> lt b c -> lt a c.
  Hypothesis lt_irrefl : forall a, ~ lt a a.

  (* no element is followed (anywhere later) by a strictly smaller one: what a comparison sort
     guarantees for its output, whatever it does with ties *)
  Definition no_inversion (l : list A) : Prop := StronglySorted (fun a b => ~ lt b a) l.

  Lemma strongly_sorted_nodup : forall l, StronglySorted lt l -> NoDup l.
  Proof.
    induction 1 as [|a l Hs IH Hall]; constructor; [|exact IH].
    intros Hin. eapply Forall_forall in Hall; eauto. exact (lt_irrefl a Hall).
  Qed.

  Lemma sorted_perm_head : forall a l b m,
    StronglySorted lt (a :: l) -> no_inversion (b :: m) -> Permutation (a :: l) (b :: m) -> a = b.
  Proof.
    intros a l b m Hs Hn Hp. inversion Hs as [|? ? _ Hal]; subst. inversion Hn as [|? ? _ Hbm]; subst.
    assert (In b (a :: l)) as Hb by (eapply Permutation_in; [apply Permutation_sym; exact Hp|left; reflexivity]).
    assert (In a (b :: m)) as Ha by (eapply Permutation_in; [exact Hp|left; reflexivity]).
    destruct Hb as [->|Hb]; [reflexivity|]. destruct Ha as [->|Ha]; [reflexivity|].
    eapply Forall_forall in Hal; eauto. eapply Forall_forall in Hbm; eauto. contradiction.
  Qed.

  Theorem sorted_permutation_unique : forall l s,
    StronglySorted lt l -> no_inversion s -> Permutation l s -> s = l.
  Proof.
    induction l as [|a l IH]; intros s Hs Hn Hp.
    - apply Permutation_nil in Hp. exact Hp.
    - destruct s as [|b m]; [apply Permutation_sym, Permutation_nil in Hp; discriminate|].
      assert (a = b) as <- by (eapply sorted_perm_head; eauto).
      f_equal. apply IH.
      + inversion Hs; assumption.
      + inversion Hn; assumption.
      + eapply Permutation_cons_inv; eauto.
  Qed.
End SortUnique.

(* ---- parsing what dump_text wrote: all seven tables at once ---- *)

Section EndToEnd.
  Variable F : Type.
  Variable print_int : Z -> bytes.
  Variable parse_int : bytes -> option Z.
  Variable print_fix print_repr : F -> bytes.
  Variable parse_float : bytes -> option F.
  Hypothesis C : codecs_ok F print_int parse_int print_fix print_repr parse_float.

  Definition tables_ok (t : tables F) (edge_md : list bytes) : Prop :=
    Forall (node_ok F print_fix parse_float) (t_nodes t)
    /\ Forall (edge_ok F print_fix parse_float) (combine (t_edges t) edge_md)
    /\ length edge_md = length (t_edges t)
    /\ Forall (site_ok F print_fix parse_float) (t_sites t)
    /\ Forall (mutation_ok F) (t_mutations t)
    /\ Forall (individual_ok F) (t_individuals t)
    /\ Forall (Forall is_byte) (t_populations t)
    /\ Forall (migration_ok F) (t_migrations t).

  Lemma map_fst_combine : forall {A B} (l : list A) (m : list B), length m = length l -> map fst (combine l m) = l.
  Proof. induction l as [|a l IH]; intros [|b m] H; cbn in *; try discriminate; [reflexivity|]. rewrite IH by lia. reflexivity. Qed.

  Theorem load_text_parse_dump : forall t edge_md, tables_ok t edge_md ->
    load_text_parse F parse_int parse_float (dump_all F print_int print_fix print_repr t edge_md) = Ok t.
  Proof.
    intros t edge_md [Hn [He [Hl [Hs [Hm [Hi [Hp Hg]]]]]]].
    destruct (load_dump_text_all F print_int parse_int print_fix print_repr parse_float C)
      as [Ln [Le [Ls [Lm [Li [Lp Lg]]]]]].
    unfold load_text_parse, dump_all. cbn [x_nodes x_edges x_sites x_mutations x_individuals x_populations x_migrations opt_parse].
    rewrite Le by exact He. cbn [bind]. rewrite Ln by exact Hn. cbn [bind].
    rewrite Ls by exact Hs. cbn [bind]. rewrite Lm by exact Hm. cbn [bind].
    rewrite Li by exact Hi. cbn [bind]. rewrite Lp by exact Hp. cbn [bind].
    rewrite Lg by exact Hg. cbn [bind]. rewrite map_fst_combine by exact Hl.
    destruct t; reflexivity.
  Qed.

  (* ---- the final tc.sort() ---- *)

  Variable sort : tables F -> tables F.
  Variable site_lt : site_row F -> site_row F -> Prop.          (* cmp_site: position *)
  Variable mutation_lt : mutation_row F -> mutation_row F -> Prop.   (* cmp_mutation: site, time, id *)
  Hypothesis site_lt_trans : forall a b c, site_lt a b -> site_lt b c -> site_lt a c.
  Hypothesis site_lt_irrefl : forall a, ~ site_lt a a.

  (* what tsk_table_sorter_run does (property C07), as far as this property needs it *)
  Hypothesis sort_keeps : forall t,
    t_nodes (sort t) = t_nodes t /\ t_individuals (sort t) = t_individuals t
    /\ t_populations (sort t) = t_populations t.
  Hypothesis sort_edges : forall t, Permutation (t_edges t) (t_edges (sort t)).
  Hypothesis sort_migrations : forall t, Permutation (t_migrations t) (t_migrations (sort t)).
  Hypothesis sort_sites : forall t,
    Permutation (t_sites t) (t_sites (sort t)) /\ no_inversion site_lt (t_sites (sort t)).
  (* with the sites in place no mutation is renumbered; an ordered mutation table is a fixed point *)
  Hypothesis sort_mutations : forall t, t_sites (sort t) = t_sites t ->
    StronglySorted mutation_lt (t_mutations t) -> t_mutations (sort t) = t_mutations t.

  (* load_text (dump_text ts) for a tree sequence whose sites and mutations satisfy the ordering
     requirements (they do for every valid tree sequence): every table comes back — nodes, sites,
     mutations, individuals, populations row by row, edges and migrations as the same multiset
     (the sorter may reorder them), edge metadata dropped. *)
  Theorem load_dump_text_end_to_end : forall t edge_md,
    tables_ok t edge_md ->
    StronglySorted site_lt (t_sites t) -> StronglySorted mutation_lt (t_mutations t) ->
    exists t',
      load_text_model F parse_int parse_float sort (dump_all F print_int print_fix print_repr t edge_md) = Ok t'
      /\ t_nodes t' = t_nodes t /\ t_sites t' = t_sites t /\ t_mutations t' = t_mutations t
      /\ t_individuals t' = t_individuals t /\ t_populations t' = t_populations t
      /\ Permutation (t_edges t) (t_edges t') /\ Permutation (t_migrations t) (t_migrations t').
  Proof.
    intros t edge_md Hok Hs Hm. unfold load_text_model.
    rewrite load_text_parse_dump by exact Hok. cbn [bind]. exists (sort t).
    destruct (sort_keeps t) as [K1 [K2 K3]]. destruct (sort_sites t) as [P N].
    assert (t_sites (sort t) = t_sites t) as ES
      by (eapply sorted_permutation_unique; eauto).
    repeat split; auto.
  Qed.
End EndToEnd.

(* non-vacuity of sorted_permutation_unique: Z with < *)
Example sort_unique_example :
  forall s, no_inversion Z.lt s -> Permutation [1; 4; 9] s -> s = [1; 4; 9].
Proof.
  intros s Hn Hp. eapply (sorted_permutation_unique Z.lt); eauto; try lia.
  repeat constructor; lia.
Qed.
