(* C17 — the text layers are INJECTIVE on what they accept: two byte strings with the same
   base64 text are equal, two rows of TAB-free fields with the same line are equal, two lists
   of NL-free lines with the same file text are equal.  Corollaries of the round trips: no two
   different contents share one text dump. *)
From Coq Require Import List ZArith Bool.
From TskVerif Require Import Base.Common C17.Model C17.B64Proofs C17.TsvProofs.
Import ListNotations.
Open Scope Z_scope.

Lemma b64_injective_proof (a b : bytes) :
  Forall (fun x => 0 <= x < 256) a -> Forall (fun x => 0 <= x < 256) b ->
  b64encode a = b64encode b -> a = b.
Proof.
  intros A B E. pose proof (b64_roundtrip_bytes a A) as Ra. pose proof (b64_roundtrip_bytes b B) as Rb.
  rewrite E in Ra. rewrite Ra in Rb. congruence.
Qed.

Lemma tsv_row_injective_proof sep (f1 f2 : list bytes) :
  f1 <> [] -> f2 <> [] -> Forall (fun f => ~ In sep f) f1 -> Forall (fun f => ~ In sep f) f2 ->
  join_with sep f1 = join_with sep f2 -> f1 = f2.
Proof.
  intros N1 N2 A B E. rewrite <- (split_join sep f1 N1 A), <- (split_join sep f2 N2 B), E. reflexivity.
Qed.

Lemma file_lines_injective_proof (l1 l2 : list bytes) :
  Forall (fun l => ~ In NL l) l1 -> Forall (fun l => ~ In NL l) l2 ->
  unlines l1 = unlines l2 -> l1 = l2.
Proof.
  intros A B E. rewrite <- (file_lines_unlines l1 A), <- (file_lines_unlines l2 B), E. reflexivity.
Qed.
