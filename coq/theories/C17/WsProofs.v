(* C17 — strict=False: str.split(None).  Any layout of whitespace between non-empty,
   whitespace-free tokens gives the tokens back; on such tables the relaxed parsers agree
   with the strict ones, so column-order invariance and the defaults carry over. *)
From Coq Require Import String Ascii.
From Coq Require Import List ZArith Bool Lia.
From TskVerif Require Import Base.Common Gen.Generated C17.Model C17.TsvProofs C17.OrderProofs.
Import ListNotations.
Open Scope Z_scope.

Definition all_space (g : bytes) : Prop := Forall (fun c => is_space c = true) g.
Definition word (f : bytes) : Prop := f <> [] /\ Forall (fun c => is_space c = false) f.

Lemma go_spaces : forall g r, all_space g -> split_ws_go (g ++ r) None = split_ws_go r None.
Proof.
  induction g as [|c g IH]; intros r H; [reflexivity|]. inversion H; subst.
  cbn. rewrite H2. apply IH. assumption.
Qed.

Lemma go_word_chars : forall f r w, Forall (fun c => is_space c = false) f ->
  split_ws_go (f ++ r) (Some w) = split_ws_go r (Some (rev f ++ w)).
Proof.
  induction f as [|c f IH]; intros r w H; [reflexivity|]. inversion H; subst.
  cbn [app split_ws_go]. rewrite H2. rewrite IH by assumption.
  cbn [rev]. rewrite <- app_assoc. reflexivity.
Qed.

Lemma go_word : forall f r, word f ->
  split_ws_go (f ++ r) None = split_ws_go r (Some (rev f)).
Proof.
  intros [|c f] r [Hne H]; [congruence|]. inversion H; subst.
  cbn [app split_ws_go]. rewrite H2. rewrite go_word_chars by assumption.
  cbn [rev]. reflexivity.
Qed.

Lemma go_end_space : forall c r w, is_space c = true ->
  split_ws_go (c :: r) (Some w) = rev w :: split_ws_go r None.
Proof. intros c r w H. cbn. rewrite H. reflexivity. Qed.

(* a line: gap0 word1 gap1 word2 ... gap_{n-1} word_n trail; every gap after the first is
   non-empty whitespace, the first gap and the trail are arbitrary whitespace *)
Fixpoint layout (items : list (bytes * bytes)) (trail : bytes) : bytes :=
  match items with
  | [] => trail
  | (g, f) :: t => g ++ f ++ layout t trail
  end.

Fixpoint inner_gaps_ok (items : list (bytes * bytes)) : Prop :=
  match items with
  | [] => True
  | (g, f) :: t => g <> [] /\ all_space g /\ word f /\ inner_gaps_ok t
  end.

Lemma go_after_word : forall t trail w, inner_gaps_ok t -> all_space trail ->
  split_ws_go (layout t trail) (Some w) = rev w :: map snd t.
Proof.
  induction t as [|[g f] t IH]; intros trail w Hi Ht.
  - cbn [layout map]. destruct trail as [|c trail]; [reflexivity|].
    inversion Ht; subst. rewrite go_end_space by assumption.
    rewrite <- (app_nil_r trail), go_spaces by assumption. reflexivity.
  - cbn [layout map snd]. destruct Hi as [Hg [Hs [Hf Hi]]].
    destruct g as [|c g]; [congruence|]. inversion Hs; subst.
    cbn [app]. rewrite go_end_space by assumption.
    rewrite go_spaces by assumption. rewrite go_word by assumption.
    rewrite IH by assumption. rewrite rev_involutive. reflexivity.
Qed.

(* str.split(None) returns exactly the words, whatever the whitespace around them *)
Theorem split_ws_layout : forall g0 f0 t trail,
  all_space g0 -> word f0 -> inner_gaps_ok t -> all_space trail ->
  split_ws (layout ((g0, f0) :: t) trail) = f0 :: map snd t.
Proof.
  intros g0 f0 t trail H0 Hf Hi Ht. unfold split_ws. cbn [layout].
  rewrite go_spaces by assumption. rewrite go_word by assumption.
  rewrite go_after_word by assumption. rewrite rev_involutive. reflexivity.
Qed.

Theorem split_ws_blank : forall g, all_space g -> split_ws g = [].
Proof. intros g H. unfold split_ws. rewrite <- (app_nil_r g), go_spaces by assumption. reflexivity. Qed.

(* ---- TAB-joined rows of words: both modes see the same tokens ---- *)

Definition word_row (r : list bytes) : Prop := r <> [] /\ Forall word r.

Lemma tab_is_space : is_space TAB = true.
Proof. reflexivity. Qed.

Lemma join_as_layout : forall f r, join_with TAB (f :: r) = layout (([], f) :: map (fun x => ([TAB], x)) r) [].
Proof.
  intros f r; revert f; induction r as [|x r IH]; intros f.
  - cbn. rewrite app_nil_r. reflexivity.
  - change (join_with TAB (f :: x :: r)) with (f ++ TAB :: join_with TAB (x :: r)).
    rewrite IH. cbn [map layout app]. reflexivity.
Qed.

Theorem split_ws_join : forall r, word_row r -> split_ws (join_with TAB r) = r.
Proof.
  intros [|f r] [Hne H]; [congruence|]. inversion H; subst.
  rewrite join_as_layout. rewrite split_ws_layout.
  - rewrite map_map. cbn [snd]. rewrite map_id. reflexivity.
  - constructor.
  - assumption.
  - clear - H3. induction r as [|x r IH]; [exact I|]. inversion H3; subst.
    cbn. split; [discriminate|]. split; [repeat constructor|]. split; [assumption|auto].
  - constructor.
Qed.

Lemma word_clean : forall f, word f -> clean f.
Proof.
  intros f [_ H]. split; intros HI; eapply Forall_forall in H; eauto; cbv in H; discriminate.
Qed.

Lemma word_row_clean : forall r, word_row r -> clean_row r.
Proof.
  intros r [Hne H]. split; [exact Hne|]. eapply Forall_impl; [|exact H]. apply word_clean.
Qed.

(* On a table whose header and cells are words the relaxed parser computes what the strict
   one computes (for every row function): all strict-mode theorems transfer. *)
Theorem ws_agrees_with_strict : forall {R} required min_tokens
    (row : acc_t -> acc_t -> res (list R)) hdr rows,
  word_row hdr -> Forall word_row rows ->
  parse_generic_with split_ws required min_tokens row (table_text hdr rows) =
  parse_generic required min_tokens row (table_text hdr rows).
Proof.
  intros R required min_tokens row hdr rows Hh Hr.
  rewrite parse_generic_tokens.
  2: apply word_row_clean; exact Hh.
  2:{ eapply Forall_impl; [|exact Hr]. apply word_row_clean. }
  unfold parse_generic_with, table_text.
  rewrite file_lines_unlines.
  2:{ constructor; [apply clean_row_line, word_row_clean; exact Hh|].
      apply Forall_forall. intros l Hl. apply in_map_iff in Hl as [r [<- Hr']].
      apply clean_row_line, word_row_clean. eapply Forall_forall in Hr; eauto. }
  cbn [hd tl]. rewrite split_ws_join by exact Hh.
  destruct (check_required required hdr); cbn [bind]; try reflexivity.
  rewrite map_map. apply concat_res_ext. intros r Hr'.
  rewrite split_ws_join; [reflexivity|]. eapply Forall_forall in Hr; eauto.
Qed.

(* hence: any column order / unknown extra columns, also with strict=False *)
Theorem column_order_invariant_ws : forall {R} (row : acc_t -> acc_t -> res (list R)) (known : list bytes),
  (forall a a' g g' : acc_t,
      (forall n, In n known -> a n = a' n) -> (forall n, In n known -> g n = g' n) ->
      row a g = row a' g') ->
  forall required min_tokens cols cols' (recs : list (bytes -> bytes)),
  incl required known ->
  word_row cols -> word_row cols' ->
  Nat.ltb (length cols) min_tokens = false -> Nat.ltb (length cols') min_tokens = false ->
  (forall rec c, In rec recs -> word (rec c)) ->
  (forall n, In n known -> (In n cols <-> In n cols')) ->
  parse_generic_with split_ws required min_tokens row (render cols recs) =
  parse_generic_with split_ws required min_tokens row (render cols' recs).
Proof.
  intros R row known Hext required min_tokens cols cols' recs Hincl Hc Hc' Hl Hl' Hw Hsame.
  assert (forall cs, word_row cs -> Forall word_row (map (fun rec => map rec cs) recs)) as Hrows.
  { intros cs [Hne _]. apply Forall_forall. intros r Hr. apply in_map_iff in Hr as [rec [<- Hin]].
    split; [destruct cs; [congruence|discriminate]|].
    apply Forall_forall. intros t Ht. apply in_map_iff in Ht as [c [<- _]]. apply Hw. exact Hin. }
  unfold render. rewrite !ws_agrees_with_strict by auto.
  apply (column_order_invariant row known Hext); auto.
  - split; [apply word_row_clean; exact Hc|split; [exact Hl|]]. intros rec c Hin _. apply word_clean, Hw, Hin.
  - split; [apply word_row_clean; exact Hc'|split; [exact Hl'|]]. intros rec c Hin _. apply word_clean, Hw, Hin.
Qed.

Example split_ws_examples :
  split_ws (bs "  a  bc" ++ [9; 13] ++ bs "d ") = [bs "a"; bs "bc"; bs "d"]
  /\ split_ws (bs "   ") = [] /\ split_ws [] = []
  /\ c_parse_nodes_ws (bs "time  is_sample" ++ [10] ++ bs " 0.5" ++ [9; 9] ++ bs "1 " ++ [10])
     = Ok [(true, bs "0.5", -1, -1, [])].
Proof. repeat split. Qed.
