(* C17 — the parsers look columns up by name: any column order, unknown columns are
   ignored, omitted optional columns give the documented defaults. *)
From Coq Require Import String Ascii.
From Coq Require Import List ZArith Bool Lia.
From TskVerif Require Import Base.Common Gen.Generated C17.Model C17.TsvProofs.
Import ListNotations.
Open Scope Z_scope.

(* A logical table: every record maps a column name to its token.  It is written
   with the column list [cols] (any order, any extra names). *)
Definition render (cols : list bytes) (recs : list (bytes -> bytes)) : bytes :=
  table_text cols (map (fun rec => map rec cols) recs).

(* what a row function sees of a record written with columns [cols]:
   the token when the column is present, None when it is not *)
Definition view (cols : list bytes) (rec : bytes -> bytes) : acc_t :=
  fun n => match index_of n cols with Some _ => Ok (Some (rec n)) | None => Ok None end.

Definition wf_table (min_tokens : nat) (cols : list bytes) (recs : list (bytes -> bytes)) : Prop :=
  clean_row cols /\ Nat.ltb (length cols) min_tokens = false /\
  forall rec c, In rec recs -> In c cols -> clean (rec c).

Lemma accessor_view : forall cols rec n, accessor cols (map rec cols) n = view cols rec n.
Proof.
  intros cols rec n. unfold accessor, view, cell.
  destruct (index_of n cols) as [i|] eqn:E; [|reflexivity].
  rewrite (index_of_nth_map rec n cols i E). reflexivity.
Qed.

Lemma accessor_guarded_view : forall cols rec n, accessor_guarded cols (map rec cols) n = view cols rec n.
Proof.
  intros cols rec n. unfold accessor_guarded, view.
  destruct (index_of n cols) as [i|] eqn:E; [|reflexivity].
  rewrite (index_of_nth_map rec n cols i E). reflexivity.
Qed.

Section Generic.
  Context {R : Type}.
  Variable row : acc_t -> acc_t -> res (list R).
  Variable known : list bytes.
  (* the row function consults the accessors on the known column names only *)
  Hypothesis row_ext : forall a a' g g',
    (forall n, In n known -> a n = a' n) -> (forall n, In n known -> g n = g' n) ->
    row a g = row a' g'.

  Theorem parse_render : forall required min_tokens cols recs,
    wf_table min_tokens cols recs ->
    parse_generic required min_tokens row (render cols recs) =
      (do _ <- check_required required cols;
       concat_res (map (fun rec => row (view cols rec) (view cols rec)) recs)).
  Proof.
    intros required min_tokens cols recs [Hc [Hlen Hrec]].
    unfold render. rewrite parse_generic_tokens.
    - destruct (check_required required cols); cbn [bind]; try reflexivity.
      rewrite map_map. apply concat_res_ext. intros rec Hr.
      rewrite map_length, Hlen.
      apply row_ext; intros n _; [apply accessor_view | apply accessor_guarded_view].
    - exact Hc.
    - apply Forall_forall. intros r Hr. apply in_map_iff in Hr as [rec [<- Hin]].
      destruct Hc as [Hne Hcl]. split.
      + destruct cols; [congruence|discriminate].
      + apply Forall_forall. intros t Ht. apply in_map_iff in Ht as [c [<- Hc']].
        apply Hrec; assumption.
  Qed.

  Lemma view_same : forall cols cols' rec n,
    (In n cols <-> In n cols') -> view cols rec n = view cols' rec n.
  Proof.
    intros cols cols' rec n H. unfold view.
    destruct (index_of n cols) as [i|] eqn:E; destruct (index_of n cols') as [j|] eqn:E'; try reflexivity.
    - assert (In n cols') as HI by (apply H; apply index_of_iff; eauto).
      apply index_of_iff in HI as [k Hk]. congruence.
    - assert (In n cols) as HI by (apply H; apply index_of_iff; eauto).
      apply index_of_iff in HI as [k Hk]. congruence.
  Qed.

  Lemma check_required_same : forall required cols cols',
    (forall n, In n required -> (In n cols <-> In n cols')) ->
    check_required required cols = check_required required cols'.
  Proof.
    intros required cols cols' H. unfold check_required.
    replace (forallb (fun n => match index_of n cols with Some _ => true | None => false end) required)
      with (forallb (fun n => match index_of n cols' with Some _ => true | None => false end) required);
      [reflexivity|].
    induction required as [|r req IH]; [reflexivity|]. cbn.
    rewrite IH by (intros n Hn; apply H; right; exact Hn). f_equal.
    assert (In r cols <-> In r cols') as Hr by (apply H; left; reflexivity).
    destruct (index_of r cols') as [i|] eqn:E; destruct (index_of r cols) as [j|] eqn:E'; try reflexivity.
    - assert (In r cols) as HI by (apply Hr; apply index_of_iff; eauto).
      apply index_of_iff in HI as [k Hk]. congruence.
    - assert (In r cols') as HI by (apply Hr; apply index_of_iff; eauto).
      apply index_of_iff in HI as [k Hk]. congruence.
  Qed.

  (* Two column lists with the same known columns (in any order, with any unknown
     extras) parse to the same rows — or to the same error. *)
  Theorem column_order_invariant : forall required min_tokens cols cols' recs,
    incl required known ->
    wf_table min_tokens cols recs -> wf_table min_tokens cols' recs ->
    (forall n, In n known -> (In n cols <-> In n cols')) ->
    parse_generic required min_tokens row (render cols recs) =
    parse_generic required min_tokens row (render cols' recs).
  Proof.
    intros required min_tokens cols cols' recs Hincl W W' Hsame.
    rewrite !parse_render by assumption.
    rewrite (check_required_same required cols cols') by (intros n Hn; apply Hsame, Hincl, Hn).
    destruct (check_required required cols'); cbn [bind]; try reflexivity.
    apply concat_res_ext. intros rec _.
    apply row_ext; intros n Hn; apply view_same, Hsame, Hn.
  Qed.
End Generic.

(* ------------------------------------------------------------------ *)
(* the seven row functions only look at their own column names          *)
(* ------------------------------------------------------------------ *)

Definition known_nodes := names (c17_parse_required_nodes ++ c17_parse_optional_nodes).
Definition known_edges := names (c17_parse_required_edges ++ c17_parse_optional_edges).
Definition known_sites := names (c17_parse_required_sites ++ c17_parse_optional_sites).
Definition known_mutations := names (c17_parse_required_mutations ++ c17_parse_optional_mutations).
Definition known_individuals := names (c17_parse_required_individuals ++ c17_parse_optional_individuals).
Definition known_populations := names (c17_parse_required_populations ++ c17_parse_optional_populations).
Definition known_migrations := names (c17_parse_required_migrations ++ c17_parse_optional_migrations).

(* the regenerated facts are the lists the model was written for *)
Lemma facts_nodes : c17_parse_required_nodes = ["is_sample"; "time"]%string
  /\ c17_parse_optional_nodes = ["population"; "individual"; "metadata"]%string
  /\ c17_parse_min_tokens_nodes = 2%nat.
Proof. repeat split. Qed.
Lemma facts_edges : c17_parse_required_edges = ["left"; "right"; "parent"; "child"]%string
  /\ c17_parse_optional_edges = [] /\ c17_parse_min_tokens_edges = 4%nat.
Proof. repeat split. Qed.
Lemma facts_sites : c17_parse_required_sites = ["position"; "ancestral_state"]%string
  /\ c17_parse_optional_sites = ["metadata"]%string /\ c17_parse_min_tokens_sites = 2%nat.
Proof. repeat split. Qed.
Lemma facts_mutations : c17_parse_required_mutations = ["site"; "node"; "derived_state"]%string
  /\ c17_parse_optional_mutations = ["time"; "parent"; "metadata"]%string
  /\ c17_parse_min_tokens_mutations = 3%nat.
Proof. repeat split. Qed.
Lemma facts_individuals : c17_parse_required_individuals = ["flags"]%string
  /\ c17_parse_optional_individuals = ["location"; "parents"; "metadata"]%string
  /\ c17_parse_min_tokens_individuals = 1%nat.
Proof. repeat split. Qed.
Lemma facts_populations : c17_parse_required_populations = ["metadata"]%string
  /\ c17_parse_optional_populations = [] /\ c17_parse_min_tokens_populations = 1%nat.
Proof. repeat split. Qed.
Lemma facts_migrations :
  c17_parse_required_migrations = ["left"; "right"; "node"; "source"; "dest"; "time"]%string
  /\ c17_parse_optional_migrations = ["metadata"]%string /\ c17_parse_min_tokens_migrations = 6%nat.
Proof. repeat split. Qed.

Local Ltac known n := (vm_compute; tauto).

Section Rows.
  Variable F : Type.
  Variable parse_int : bytes -> option Z.
  Variable parse_float : bytes -> option F.

  Local Ltac ext H G :=
    repeat match goal with
    | |- context [?a (bs ?s)] =>
        match type of H with
        | forall n, In n _ -> a n = ?a' n => rewrite (H (bs s)) by (vm_compute; tauto)
        end
    | |- context [?g (bs ?s)] =>
        match type of G with
        | forall n, In n _ -> g n = ?g' n => rewrite (G (bs s)) by (vm_compute; tauto)
        end
    end; reflexivity.

  Lemma row_nodes_ext : forall a a' g g',
    (forall n, In n known_nodes -> a n = a' n) -> (forall n, In n known_nodes -> g n = g' n) ->
    row_nodes F parse_int parse_float a g = row_nodes F parse_int parse_float a' g'.
  Proof. intros a a' g g' H G. unfold row_nodes, req, opt_int, opt_metadata. ext H G. Qed.

  Lemma row_edges_ext : forall a a' g g',
    (forall n, In n known_edges -> a n = a' n) -> (forall n, In n known_edges -> g n = g' n) ->
    row_edges F parse_int parse_float a g = row_edges F parse_int parse_float a' g'.
  Proof. intros a a' g g' H G. unfold row_edges, req. ext H G. Qed.

  Lemma row_sites_ext : forall a a' g g',
    (forall n, In n known_sites -> a n = a' n) -> (forall n, In n known_sites -> g n = g' n) ->
    row_sites F parse_float a g = row_sites F parse_float a' g'.
  Proof. intros a a' g g' H G. unfold row_sites, req, opt_metadata. ext H G. Qed.

  Lemma row_mutations_ext : forall a a' g g',
    (forall n, In n known_mutations -> a n = a' n) -> (forall n, In n known_mutations -> g n = g' n) ->
    row_mutations F parse_int parse_float a g = row_mutations F parse_int parse_float a' g'.
  Proof. intros a a' g g' H G. unfold row_mutations, req, opt_int, opt_metadata. ext H G. Qed.

  Lemma row_individuals_ext : forall a a' g g',
    (forall n, In n known_individuals -> a n = a' n) -> (forall n, In n known_individuals -> g n = g' n) ->
    row_individuals F parse_int parse_float a g = row_individuals F parse_int parse_float a' g'.
  Proof. intros a a' g g' H G. unfold row_individuals, req, opt_metadata. ext H G. Qed.

  Lemma row_populations_ext : forall a a' g g',
    (forall n, In n known_populations -> a n = a' n) -> (forall n, In n known_populations -> g n = g' n) ->
    row_populations a g = row_populations a' g'.
  Proof. intros a a' g g' H G. unfold row_populations, req. ext H G. Qed.

  Lemma row_migrations_ext : forall a a' g g',
    (forall n, In n known_migrations -> a n = a' n) -> (forall n, In n known_migrations -> g n = g' n) ->
    row_migrations F parse_int parse_float a g = row_migrations F parse_int parse_float a' g'.
  Proof. intros a a' g g' H G. unfold row_migrations, req, opt_metadata. ext H G. Qed.

  (* ---- column order / unknown columns, per table ---- *)

  Definition same_known (known cols cols' : list bytes) : Prop :=
    forall n, In n known -> (In n cols <-> In n cols').

  Lemma incl_names_app : forall a b, incl (names a) (names (a ++ b)).
  Proof. intros a b n H. unfold names in *. rewrite map_app. apply in_or_app; left; exact H. Qed.

  Theorem nodes_order : forall cols cols' recs,
    wf_table c17_parse_min_tokens_nodes cols recs -> wf_table c17_parse_min_tokens_nodes cols' recs ->
    same_known known_nodes cols cols' ->
    parse_nodes F parse_int parse_float (render cols recs) = parse_nodes F parse_int parse_float (render cols' recs).
  Proof. intros. eapply column_order_invariant; eauto using row_nodes_ext. apply incl_names_app. Qed.

  Theorem edges_order : forall cols cols' recs,
    wf_table c17_parse_min_tokens_edges cols recs -> wf_table c17_parse_min_tokens_edges cols' recs ->
    same_known known_edges cols cols' ->
    parse_edges F parse_int parse_float (render cols recs) = parse_edges F parse_int parse_float (render cols' recs).
  Proof. intros. eapply column_order_invariant; eauto using row_edges_ext. apply incl_names_app. Qed.

  Theorem sites_order : forall cols cols' recs,
    wf_table c17_parse_min_tokens_sites cols recs -> wf_table c17_parse_min_tokens_sites cols' recs ->
    same_known known_sites cols cols' ->
    parse_sites F parse_float (render cols recs) = parse_sites F parse_float (render cols' recs).
  Proof. intros. eapply column_order_invariant; eauto using row_sites_ext. apply incl_names_app. Qed.

  Theorem mutations_order : forall cols cols' recs,
    wf_table c17_parse_min_tokens_mutations cols recs -> wf_table c17_parse_min_tokens_mutations cols' recs ->
    same_known known_mutations cols cols' ->
    parse_mutations F parse_int parse_float (render cols recs) = parse_mutations F parse_int parse_float (render cols' recs).
  Proof. intros. eapply column_order_invariant; eauto using row_mutations_ext. apply incl_names_app. Qed.

  Theorem individuals_order : forall cols cols' recs,
    wf_table c17_parse_min_tokens_individuals cols recs -> wf_table c17_parse_min_tokens_individuals cols' recs ->
    same_known known_individuals cols cols' ->
    parse_individuals F parse_int parse_float (render cols recs) = parse_individuals F parse_int parse_float (render cols' recs).
  Proof. intros. eapply column_order_invariant; eauto using row_individuals_ext. apply incl_names_app. Qed.

  Theorem populations_order : forall cols cols' recs,
    wf_table c17_parse_min_tokens_populations cols recs -> wf_table c17_parse_min_tokens_populations cols' recs ->
    same_known known_populations cols cols' ->
    parse_populations (render cols recs) = parse_populations (render cols' recs).
  Proof. intros. eapply column_order_invariant; eauto using row_populations_ext. apply incl_names_app. Qed.

  Theorem migrations_order : forall cols cols' recs,
    wf_table c17_parse_min_tokens_migrations cols recs -> wf_table c17_parse_min_tokens_migrations cols' recs ->
    same_known known_migrations cols cols' ->
    parse_migrations F parse_int parse_float (render cols recs) = parse_migrations F parse_int parse_float (render cols' recs).
  Proof. intros. eapply column_order_invariant; eauto using row_migrations_ext. apply incl_names_app. Qed.

  (* ---- omitted optional columns: the documented defaults ---- *)

  (* a view in which only the required columns are present *)
  Definition only (present : list (string * bytes)) : acc_t :=
    fun n => Ok (match find (fun p => bytes_eqb (bs (fst p)) n) present with
                 | Some p => Some (snd p) | None => None end).

  Theorem nodes_defaults : forall ts tt s t,
    parse_int ts = Some s -> parse_float tt = Some t ->
    let v := only [("is_sample", ts); ("time", tt)]%string in
    row_nodes F parse_int parse_float v v = Ok [(negb (s =? 0), t, -1, -1, [])].
  Proof.
    intros ts tt s t Hs Ht v. unfold row_nodes, req, opt_int, opt_metadata, get_int, get_float.
    subst v. unfold only. cbn [find fst snd].
    repeat (match goal with |- context [bytes_eqb (bs ?a) (bs ?b)] =>
              let r := eval vm_compute in (bytes_eqb (bs a) (bs b)) in
              change (bytes_eqb (bs a) (bs b)) with r end; cbn [find fst snd bind]).
    rewrite Hs. cbn [bind]. rewrite Ht. reflexivity.
  Qed.

  Theorem sites_defaults : forall tp a p,
    parse_float tp = Some p ->
    let v := only [("position", tp); ("ancestral_state", a)]%string in
    row_sites F parse_float v v = Ok [(p, a, [])].
  Proof.
    intros tp a p Hp v. unfold row_sites, req, opt_metadata, get_float.
    subst v. unfold only. cbn [find fst snd].
    repeat (match goal with |- context [bytes_eqb (bs ?a) (bs ?b)] =>
              let r := eval vm_compute in (bytes_eqb (bs a) (bs b)) in
              change (bytes_eqb (bs a) (bs b)) with r end; cbn [find fst snd bind]).
    rewrite Hp. reflexivity.
  Qed.

  Theorem mutations_defaults : forall ts tn d s n,
    parse_int ts = Some s -> parse_int tn = Some n ->
    let v := only [("site", ts); ("node", tn); ("derived_state", d)]%string in
    row_mutations F parse_int parse_float v v = Ok [(s, n, None, d, -1, [])].
  Proof.
    intros ts tn d s n Hs Hn v. unfold row_mutations, req, opt_int, opt_metadata, get_int.
    subst v. unfold only. cbn [find fst snd].
    repeat (match goal with |- context [bytes_eqb (bs ?a) (bs ?b)] =>
              let r := eval vm_compute in (bytes_eqb (bs a) (bs b)) in
              change (bytes_eqb (bs a) (bs b)) with r end; cbn [find fst snd bind]).
    rewrite Hs. cbn [bind]. rewrite Hn. reflexivity.
  Qed.

  Theorem individuals_defaults : forall tf f,
    parse_int tf = Some f ->
    let v := only [("flags", tf)]%string in
    row_individuals F parse_int parse_float v v = Ok [(f, [], [], [])].
  Proof.
    intros tf f Hf v. unfold row_individuals, req, opt_metadata, get_int.
    subst v. unfold only. cbn [find fst snd].
    repeat (match goal with |- context [bytes_eqb (bs ?a) (bs ?b)] =>
              let r := eval vm_compute in (bytes_eqb (bs a) (bs b)) in
              change (bytes_eqb (bs a) (bs b)) with r end; cbn [find fst snd bind]).
    rewrite Hf. reflexivity.
  Qed.

  Theorem migrations_defaults : forall tl tr tn ts td tt l r n s d t,
    parse_float tl = Some l -> parse_float tr = Some r -> parse_int tn = Some n ->
    parse_int ts = Some s -> parse_int td = Some d -> parse_float tt = Some t ->
    let v := only [("left", tl); ("right", tr); ("node", tn); ("source", ts); ("dest", td); ("time", tt)]%string in
    row_migrations F parse_int parse_float v v = Ok [(l, r, n, s, d, t, [])].
  Proof.
    intros tl tr tn ts td tt l r n s d t Hl Hr Hn Hs Hd Ht v.
    unfold row_migrations, req, opt_metadata, get_int, get_float.
    subst v. unfold only. cbn [find fst snd].
    repeat (match goal with |- context [bytes_eqb (bs ?a) (bs ?b)] =>
              let r := eval vm_compute in (bytes_eqb (bs a) (bs b)) in
              change (bytes_eqb (bs a) (bs b)) with r end; cbn [find fst snd bind]).
    rewrite Hl. cbn [bind]. rewrite Hr. cbn [bind]. rewrite Hn. cbn [bind].
    rewrite Hs. cbn [bind]. rewrite Hd. cbn [bind]. rewrite Ht. reflexivity.
  Qed.
End Rows.

(* non-vacuity: two layouts of the same two node records — shuffled, with an unknown
   "id" column in one of them and the optional "population" column in both *)
Example order_example :
  let rec1 : bytes -> bytes := fun n =>
    if bytes_eqb n (bs "is_sample") then bs "1" else if bytes_eqb n (bs "time") then bs "0.5"
    else if bytes_eqb n (bs "population") then bs "2" else bs "junk" in
  let cols := [bs "id"; bs "time"; bs "population"; bs "is_sample"] in
  let cols' := [bs "is_sample"; bs "population"; bs "time"] in
  wf_table c17_parse_min_tokens_nodes cols [rec1] /\ wf_table c17_parse_min_tokens_nodes cols' [rec1]
  /\ c_parse_nodes (render cols [rec1]) = Ok [(true, bs "0.5", 2, -1, [])]
  /\ c_parse_nodes (render cols' [rec1]) = Ok [(true, bs "0.5", 2, -1, [])].
Proof.
  cbv zeta. split; [|split; [|split; reflexivity]].
  - split; [split; [discriminate|]|split; [reflexivity|]].
    + repeat constructor; vm_compute; intuition discriminate.
    + intros rec c [<-|[]] Hc. cbn in Hc.
      destruct Hc as [<-|[<-|[<-|[<-|[]]]]]; vm_compute; split; intuition discriminate.
  - split; [split; [discriminate|]|split; [reflexivity|]].
    + repeat constructor; vm_compute; intuition discriminate.
    + intros rec c [<-|[]] Hc. cbn in Hc.
      destruct Hc as [<-|[<-|[<-|[]]]]; vm_compute; split; intuition discriminate.
Qed.
