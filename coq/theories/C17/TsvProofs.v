(* C17 — lines, tab separated fields, header lookup: structural lemmas. *)
From Coq Require Import List ZArith Bool Lia.
From TskVerif Require Import Base.Common C17.Model.
Import ListNotations.
Open Scope Z_scope.

Definition free_of (sep : Z) (s : bytes) : Prop := ~ In sep s.

(* ---- split / join ---- *)

Lemma split_on_nonempty : forall sep s, split_on sep s <> [].
Proof.
  intros sep s; induction s as [|c s IH]; cbn; [discriminate|].
  destruct (c =? sep); [discriminate|]. destruct (split_on sep s); discriminate.
Qed.

Lemma split_on_free : forall sep s, free_of sep s -> split_on sep s = [s].
Proof.
  intros sep s; induction s as [|c s IH]; intros H; cbn; [reflexivity|].
  destruct (c =? sep) eqn:E.
  - apply Z.eqb_eq in E. exfalso; apply H; left; auto.
  - rewrite IH; [reflexivity|]. intros HI; apply H; right; exact HI.
Qed.

Lemma split_on_app : forall sep f rest, free_of sep f ->
  split_on sep (f ++ sep :: rest) = f :: split_on sep rest.
Proof.
  intros sep f rest; induction f as [|c f IH]; intros H; cbn.
  - rewrite Z.eqb_refl. reflexivity.
  - destruct (c =? sep) eqn:E.
    + apply Z.eqb_eq in E. exfalso; apply H; left; auto.
    + rewrite IH; [reflexivity|]. intros HI; apply H; right; exact HI.
Qed.

Theorem split_join : forall sep fs, fs <> [] -> Forall (free_of sep) fs ->
  split_on sep (join_with sep fs) = fs.
Proof.
  intros sep fs; induction fs as [|f fs IH]; intros Hne HF; [congruence|].
  inversion HF as [|? ? Hf HF']; subst.
  destruct fs as [|g fs].
  - cbn. apply split_on_free; assumption.
  - change (join_with sep (f :: g :: fs)) with (f ++ sep :: join_with sep (g :: fs)).
    rewrite split_on_app by assumption. rewrite IH; [reflexivity|discriminate|assumption].
Qed.

Lemma join_free : forall sep x fs, x <> sep -> Forall (free_of x) fs -> free_of x (join_with sep fs).
Proof.
  intros sep x fs Hx; induction fs as [|f fs IH]; intros HF; [intros []|].
  inversion HF as [|? ? Hf HF']; subst. destruct fs as [|g fs]; [exact Hf|].
  change (join_with sep (f :: g :: fs)) with (f ++ sep :: join_with sep (g :: fs)).
  intros HI. apply in_app_or in HI as [HI | [HI | HI]].
  - exact (Hf HI).
  - congruence.
  - exact (IH HF' HI).
Qed.

(* ---- lines ---- *)

Lemma split_unlines : forall ls, Forall (free_of NL) ls -> split_on NL (unlines ls) = ls ++ [[]].
Proof.
  induction ls as [|l ls IH]; intros HF; [reflexivity|].
  inversion HF as [|? ? Hl HF']; subst.
  unfold unlines in *. cbn [map concat]. rewrite <- app_assoc. cbn [app].
  rewrite split_on_app by assumption. rewrite IH by assumption. reflexivity.
Qed.

Theorem file_lines_unlines : forall ls, Forall (free_of NL) ls -> file_lines (unlines ls) = ls.
Proof.
  intros ls HF. unfold file_lines. rewrite split_unlines by assumption.
  rewrite rev_app_distr. cbn [rev app]. apply rev_involutive.
Qed.

(* ---- header.index ---- *)

Lemma bytes_eqb_eq : forall a b, bytes_eqb a b = true <-> a = b.
Proof. apply list_eqb_eq. intros x y; apply Z.eqb_eq. Qed.

Lemma bytes_eqb_refl : forall a, bytes_eqb a a = true.
Proof. intros a; apply bytes_eqb_eq; reflexivity. Qed.

Lemma bytes_eqb_neq : forall a b, a <> b -> bytes_eqb a b = false.
Proof.
  intros a b H. destruct (bytes_eqb a b) eqn:E; [|reflexivity].
  apply bytes_eqb_eq in E. congruence.
Qed.

Lemma index_of_none : forall name hdr, ~ In name hdr -> index_of name hdr = None.
Proof.
  intros name; induction hdr as [|h t IH]; intros H; cbn; [reflexivity|].
  rewrite bytes_eqb_neq by (intros ->; apply H; left; reflexivity).
  rewrite IH; [reflexivity|]. intros HI; apply H; right; exact HI.
Qed.

Lemma index_of_some : forall name hdr, In name hdr ->
  exists i, index_of name hdr = Some i /\ nth_error hdr i = Some name.
Proof.
  intros name; induction hdr as [|h t IH]; intros H; [destruct H|].
  cbn. destruct (bytes_eqb h name) eqn:E.
  - apply bytes_eqb_eq in E; subst. exists O; split; reflexivity.
  - destruct H as [-> | H]; [rewrite bytes_eqb_refl in E; discriminate|].
    destruct (IH H) as [i [Hi Hn]]. rewrite Hi. exists (S i); split; [reflexivity|exact Hn].
Qed.

(* the first occurrence: for duplicate-free headers any position found is the one *)
Lemma index_of_nth_map : forall {B} (f : bytes -> B) name hdr i,
  index_of name hdr = Some i -> nth_error (map f hdr) i = Some (f name).
Proof.
  intros B f name; induction hdr as [|h t IH]; intros i H; cbn in H; [discriminate|].
  destruct (bytes_eqb h name) eqn:E.
  - apply bytes_eqb_eq in E; subst. inversion H; subst. reflexivity.
  - destruct (index_of name t) eqn:Ei; [|discriminate]. inversion H; subst. cbn. apply IH; reflexivity.
Qed.

Lemma index_of_iff : forall name hdr, (exists i, index_of name hdr = Some i) <-> In name hdr.
Proof.
  intros name hdr; split.
  - intros [i H]. destruct (in_dec (list_eq_dec Z.eq_dec) name hdr) as [HI|HN]; [exact HI|].
    rewrite index_of_none in H by assumption. discriminate.
  - intros H. destruct (index_of_some name hdr H) as [i [Hi _]]. eauto.
Qed.

(* ---- res helpers ---- *)

Lemma concat_res_ext : forall {A B} (f g : A -> res (list B)) l,
  (forall a, In a l -> f a = g a) -> concat_res (map f l) = concat_res (map g l).
Proof.
  intros A B f g; induction l as [|a l IH]; intros H; [reflexivity|].
  cbn. rewrite H by (left; reflexivity). rewrite IH; [reflexivity|].
  intros b Hb; apply H; right; exact Hb.
Qed.

Lemma concat_res_singletons : forall {A B} (f : A -> res B) l,
  concat_res (map (fun a => do x <- f a; Ok [x]) l) = map_res f l.
Proof.
  intros A B f; induction l as [|a l IH]; [reflexivity|].
  cbn. destruct (f a) as [x| | |]; cbn; try reflexivity.
  rewrite IH. destruct (map_res f l); reflexivity.
Qed.

Lemma map_res_ok : forall {A B} (f : A -> res B) (g : A -> B) l,
  (forall a, In a l -> f a = Ok (g a)) -> map_res f l = Ok (map g l).
Proof.
  intros A B f g; induction l as [|a l IH]; intros H; [reflexivity|].
  cbn. rewrite H by (left; reflexivity). cbn. rewrite IH; [reflexivity|].
  intros b Hb; apply H; right; exact Hb.
Qed.

Lemma concat_res_ok : forall {A B} (f : A -> res (list B)) (g : A -> list B) l,
  (forall a, In a l -> f a = Ok (g a)) -> concat_res (map f l) = Ok (concat (map g l)).
Proof.
  intros A B f g; induction l as [|a l IH]; intros H; [reflexivity|].
  cbn. rewrite H by (left; reflexivity). cbn. rewrite IH; [reflexivity|].
  intros b Hb; apply H; right; exact Hb.
Qed.

(* ---- the text of a table, token level ---- *)

Definition table_text (hdr : list bytes) (rows : list (list bytes)) : bytes :=
  unlines (join_with TAB hdr :: map (join_with TAB) rows).

Definition clean (t : bytes) : Prop := free_of TAB t /\ free_of NL t.
Definition clean_row (r : list bytes) : Prop := r <> [] /\ Forall clean r.

Lemma clean_row_line : forall r, clean_row r -> free_of NL (join_with TAB r).
Proof.
  intros r [_ H]. apply join_free; [unfold NL, TAB; lia|].
  eapply Forall_impl; [|exact H]. intros t [_ Ht]; exact Ht.
Qed.

Lemma clean_row_split : forall r, clean_row r -> split_on TAB (join_with TAB r) = r.
Proof.
  intros r [Hne H]. apply split_join; [exact Hne|].
  eapply Forall_impl; [|exact H]. intros t [Ht _]; exact Ht.
Qed.

(* parse_generic on the text of a clean table works on the token lists *)
Theorem parse_generic_tokens : forall {R} required min_tokens
    (row : acc_t -> acc_t -> res (list R)) hdr rows,
  clean_row hdr -> Forall clean_row rows ->
  parse_generic required min_tokens row (table_text hdr rows) =
    (do _ <- check_required required hdr;
     concat_res (map (fun tokens =>
        if Nat.ltb (length tokens) min_tokens then Ok []
        else row (accessor hdr tokens) (accessor_guarded hdr tokens)) rows)).
Proof.
  intros R required min_tokens row hdr rows Hh Hr.
  unfold parse_generic_with, table_text.
  rewrite file_lines_unlines.
  2:{ constructor; [apply clean_row_line; exact Hh|].
      apply Forall_forall. intros l Hl. apply in_map_iff in Hl as [r [<- Hr']].
      apply clean_row_line. eapply Forall_forall in Hr; eauto. }
  cbn [hd tl]. rewrite clean_row_split by exact Hh.
  destruct (check_required required hdr); cbn [bind]; try reflexivity.
  rewrite map_map. apply concat_res_ext. intros r Hr'.
  rewrite clean_row_split; [reflexivity|]. eapply Forall_forall in Hr; eauto.
Qed.
