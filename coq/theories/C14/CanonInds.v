(* C14 — canonical order of individuals under a permutation of the individual rows, with the id
   renaming carried through.  PARTIAL: the correspondence of the sort keys (descendant counts
   computed by the queue algorithm, first referring node) between the two tables is an explicit
   hypothesis, not proved. *)
From Coq Require Import List ZArith Bool Lia ZifyBool Permutation Sorted.
From TskVerif Require Import Base.Common C14.Model C14.Spec C14.Basics C14.SubsetInd C14.UnionProofs C14.SortProofs
     C14.SortRemap C14.CanonInvariance.
Import ListNotations.
Open Scope Z_scope.

Definition rename_ind (pi : Z -> Z) (r : individual) : individual :=
  mkI (i_flags r) (i_loc r) (map (rename_ref pi) (i_parents r)) (i_md r).
Definition rename_indexed (pi : Z -> Z) (ir : Z * individual) : Z * individual :=
  (pi (fst ir), rename_ind pi (snd ir)).

Lemma individual_canonical_le_trans nd fn a b c :
  individual_canonical_le nd fn a b = true -> individual_canonical_le nd fn b c = true ->
  individual_canonical_le nd fn a c = true.
Proof.
  unfold individual_canonical_le.
  destruct (Z.compare_spec (nd (fst b)) (nd (fst a))); try discriminate;
  destruct (Z.compare_spec (nd (fst c)) (nd (fst b))); try discriminate;
  destruct (Z.compare_spec (nd (fst c)) (nd (fst a))); try lia; auto.
  destruct (Z.compare_spec (fn (fst a)) (fn (fst b))); try discriminate;
  destruct (Z.compare_spec (fn (fst b)) (fn (fst c))); try discriminate;
  destruct (Z.compare_spec (fn (fst a)) (fn (fst c))); try lia; auto.
Qed.

Lemma index_from_In {A} (l : list A) : forall k i a, In (i, a) (index_from k l) -> k <= i < k + zlen l /\ getz l (i - k) = Ok a.
Proof.
  induction l as [|x l IH]; intros k i a H; cbn [index_from] in H. { destruct H. }
  rewrite zlen_cons. pose proof (zlen_nonneg l). destruct H as [E|H].
  - inversion E; subst. rewrite Z.sub_diag, getz_cons_0. split; [lia|auto].
  - destruct (IH _ _ _ H) as [R G]. split; [lia|].
    replace (i - k) with ((i - (k + 1)) + 1) by lia. rewrite getz_cons_S by lia. exact G.
Qed.

Lemma strongly_sorted_map {X Y} (R : X -> X -> Prop) (R' : Y -> Y -> Prop) (f : X -> Y) l :
  (forall a b, In a l -> In b l -> R a b -> R' (f a) (f b)) ->
  StronglySorted R l -> StronglySorted R' (map f l).
Proof.
  intros H S. induction S as [|a l S IH F]; cbn [map]; constructor.
  - apply IH. intros x y Hx Hy. apply H; now right.
  - rewrite Forall_forall in *. intros y Hy. apply in_map_iff in Hy as [b [<- Hb]]. apply H; auto; [now left|now right].
Qed.

Theorem canonical_individual_order_invariant_partial_lemma :
  forall pi inds1 inds2 nd1 nd2 fn1 fn2,
  (* inds2 = inds1 with its rows permuted by pi and every id renamed *)
  Permutation (map (rename_indexed pi) (index_from 0 inds1)) (index_from 0 inds2) ->
  (* MISSING LEMMAS, as hypotheses: the sort keys of corresponding rows agree *)
  (forall i, 0 <= i < zlen inds1 -> nd2 (pi i) = nd1 i) ->
  (forall i, 0 <= i < zlen inds1 -> fn2 (pi i) = fn1 i) ->
  (* every individual has its own first referring node (all are referenced after subset) *)
  (forall i j, 0 <= i < zlen inds1 -> 0 <= j < zlen inds1 -> fn1 i = fn1 j -> i = j) ->
  isort (individual_canonical_le nd2 fn2) (index_from 0 inds2)
  = map (rename_indexed pi) (isort (individual_canonical_le nd1 fn1) (index_from 0 inds1)).
Proof.
  intros pi inds1 inds2 nd1 nd2 fn1 fn2 P Knd Kfn Dist.
  set (le1 := individual_canonical_le nd1 fn1). set (le2 := individual_canonical_le nd2 fn2).
  set (s1 := isort le1 (index_from 0 inds1)). set (s2 := isort le2 (index_from 0 inds2)).
  assert (Permutation s1 (index_from 0 inds1)) as P1 by apply isort_perm.
  assert (Permutation s2 (index_from 0 inds2)) as P2 by apply isort_perm.
  assert (forall x, In x s1 -> 0 <= fst x < zlen inds1) as R1.
  { intros [i a] Hx. apply (Permutation_in _ P1) in Hx. apply index_from_In in Hx as [Hr _]. cbn [fst]. lia. }
  assert (forall a b, In a s1 -> In b s1 -> le2 (rename_indexed pi a) (rename_indexed pi b) = le1 a b) as KE.
  { intros a b Ha Hb. pose proof (R1 a Ha) as Ra. pose proof (R1 b Hb) as Rb.
    unfold le1, le2, individual_canonical_le, rename_indexed. cbn [fst].
    rewrite !Knd, !Kfn by auto.
    destruct (Z.compare_spec (nd1 (fst b)) (nd1 (fst a))); auto.
    destruct (Z.compare_spec (fn1 (fst a)) (fn1 (fst b))) as [E| |]; auto.
    rewrite (Dist _ _ Ra Rb E). lia. }
  apply (sorted_perm_eq (fun a b => le2 a b = true)).
  - (* antisymmetric on the rows of inds2: ids are unique *)
    intros [i a] [j b] Hx Hy L1 L2. apply (Permutation_in _ P2) in Hx, Hy.
    assert (i = j).
    { unfold le2, individual_canonical_le in L1, L2. cbn [fst] in L1, L2.
      destruct (Z.compare_spec (nd2 j) (nd2 i)); destruct (Z.compare_spec (nd2 i) (nd2 j)); try discriminate; try lia.
      destruct (Z.compare_spec (fn2 i) (fn2 j)); destruct (Z.compare_spec (fn2 j) (fn2 i)); try discriminate; try lia. }
    subst j. apply index_from_In in Hx as [_ Gx]. apply index_from_In in Hy as [_ Gy]. rewrite Gx in Gy. now inversion Gy.
  - apply Sorted_StronglySorted. { intros x y z. apply individual_canonical_le_trans. }
    apply isort_sorted, individual_canonical_le_total.
  - apply (strongly_sorted_map (fun a b => le1 a b = true)).
    + intros a b Ha Hb H. now rewrite KE.
    + apply Sorted_StronglySorted. { intros x y z. apply individual_canonical_le_trans. }
      apply isort_sorted, individual_canonical_le_total.
  - rewrite P2, <- P. apply Permutation_map. apply Permutation_sym, P1.
Qed.

(* ---- one of the two key hypotheses discharged: the first referring node ---- *)
Definition rename_node_ind (pi : Z -> Z) (r : node) : node :=
  mkN (n_flags r) (n_time r) (n_pop r) (rename_ref pi (n_ind r)) (n_md r).

Definition fn_step (fn : zmap) (jn : Z * node) : zmap :=
  let '(j, nd) := jn in if n_ind nd =? NULL then fn else upd fn (n_ind nd) (Z.min j (fn (n_ind nd))).

Lemma first_nodes_unfold ns : first_nodes ns = fold_left fn_step (index_from 0 ns) (fun _ => zlen ns).
Proof. reflexivity. Qed.

Lemma first_nodes_fold_rename pi n :
  (forall p q, in_range n p = true -> in_range n q = true -> pi p = pi q -> p = q) ->
  (forall p, in_range n p = true -> 0 <= pi p) ->
  forall ns k f1 f2,
  (forall nd, In nd ns -> ref_ok n (n_ind nd) = true) ->
  (forall i, in_range n i = true -> f2 (pi i) = f1 i) ->
  forall i, in_range n i = true ->
    fold_left fn_step (index_from k (map (rename_node_ind pi) ns)) f2 (pi i) = fold_left fn_step (index_from k ns) f1 i.
Proof.
  intros Inj Nn. induction ns as [|nd ns IH]; intros k f1 f2 R H i Ri; cbn [map index_from fold_left]. { auto. }
  apply IH; auto. { intros; apply R; now right. }
  intros j Rj. unfold fn_step, rename_node_ind. cbn [n_ind]. unfold rename_ref.
  assert (ref_ok n (n_ind nd) = true) as Rn by (apply R; now left).
  destruct (n_ind nd =? NULL) eqn:E.
  - assert (NULL =? NULL = true) as -> by reflexivity. auto.
  - apply ref_ok_cases in Rn as [Rn|[_ Rn]]. { apply Z.eqb_neq in E. contradiction. }
    assert (pi (n_ind nd) =? NULL = false) as -> by (pose proof (Nn _ Rn); rewrite NULL_neg'; lia).
    unfold upd. rewrite (H _ Rn).
    destruct (j =? n_ind nd) eqn:F.
    + apply Z.eqb_eq in F. subst j. now rewrite Z.eqb_refl.
    + assert (pi j =? pi (n_ind nd) = false) as ->; auto.
      apply Z.eqb_neq. intros X. apply Z.eqb_neq in F. apply F. now apply Inj.
Qed.

Theorem first_nodes_rename_lemma : forall pi n ns,
  (forall p q, in_range n p = true -> in_range n q = true -> pi p = pi q -> p = q) ->
  (forall p, in_range n p = true -> 0 <= pi p) ->
  (forall nd, In nd ns -> ref_ok n (n_ind nd) = true) ->
  forall i, in_range n i = true ->
    first_nodes (map (rename_node_ind pi) ns) (pi i) = first_nodes ns i.
Proof.
  intros pi n ns Inj Nn R i Ri. rewrite !first_nodes_unfold, zlen_map.
  apply (first_nodes_fold_rename pi n Inj Nn); auto.
Qed.

(* non-vacuity: two individuals swapped *)
Example ex_canonical_order_swap :
  let a := mkI 1 [] [1] [7] in let b := mkI 2 [] [] [8] in
  let pi := fun i => 1 - i in
  isort (individual_canonical_le (fun i => if i =? 0 then 1 else 0) (fun i => 1 - i)) (index_from 0 [rename_ind pi b; rename_ind pi a])
  = map (rename_indexed pi) (isort (individual_canonical_le (fun i => if i =? 1 then 1 else 0) (fun i => i)) (index_from 0 [a; b])).
Proof. vm_compute. reflexivity. Qed.
