(* C14 — subset, part 3: populations, edges, sites and mutations
   (tables.c 13028-13109). *)
From Coq Require Import List ZArith Bool Lia ZifyBool.
From TskVerif Require Import Base.Common C14.Model C14.Spec C14.Basics C14.SubsetInd C14.SubsetLoop.
Import ListNotations.
Open Scope Z_scope.

(* ------------------------------------------------------------------ index_of *)
Lemma index_of_notin u l k : listed l u = false -> index_of u l k = NULL.
Proof.
  revert k. induction l as [|x l IH]; intros k H; auto.
  cbn [index_of]. unfold listed in H. cbn [existsb] in H. apply orb_false_iff in H as [H1 H2].
  rewrite Z.eqb_sym, H1. apply IH. exact H2.
Qed.

Lemma index_of_in u l k : listed l u = true -> 0 <= k -> k <= index_of u l k < k + zlen l.
Proof.
  revert k. induction l as [|x l IH]; intros k H Hk. { discriminate. }
  cbn [index_of]. rewrite zlen_cons. pose proof (zlen_nonneg l).
  unfold listed in H. cbn [existsb] in H. rewrite (Z.eqb_sym u x) in H.
  destruct (x =? u) eqn:E; cbv iota. { lia. }
  cbn [orb] in H. specialize (IH (k + 1) H). lia.
Qed.

Lemma index_of_app_in u l l2 k : listed l u = true -> index_of u (l ++ l2) k = index_of u l k.
Proof.
  revert k. induction l as [|x l IH]; intros k H. { discriminate. }
  cbn [app index_of]. unfold listed in H. cbn [existsb] in H. rewrite Z.eqb_sym in H.
  destruct (x =? u); auto.
Qed.

Lemma index_of_app_notin u l x k :
  listed l u = false -> index_of u (l ++ [x]) k = if x =? u then k + zlen l else NULL.
Proof.
  revert k. induction l as [|y l IH]; intros k H.
  - cbn [app index_of]. rewrite zlen_nil, Z.add_0_r. reflexivity.
  - unfold listed in H. cbn [existsb] in H. apply orb_false_iff in H as [H1 H2].
    cbn [app index_of]. rewrite Z.eqb_sym, H1. rewrite IH by exact H2. rewrite zlen_cons.
    destruct (x =? u); auto. lia.
Qed.

Lemma index_of_null_iff u l : index_of u l 0 = NULL <-> listed l u = false.
Proof.
  split; [|apply index_of_notin].
  intros H. destruct (listed l u) eqn:E; auto.
  pose proof (index_of_in u l 0 E ltac:(lia)). rewrite NULL_neg in H. lia.
Qed.

(* ------------------------------------------------------------------ populations *)
Lemma first_uses_snoc ps p :
  first_uses (ps ++ [p]) =
  if (p =? NULL) || listed (first_uses ps) p then first_uses ps else first_uses ps ++ [p].
Proof. unfold first_uses. rewrite fold_left_app. reflexivity. Qed.

Lemma rows_of_app {A} (l : list A) a b : rows_of l (a ++ b) = rows_of l a ++ rows_of l b.
Proof. unfold rows_of. apply flat_map_app. Qed.

Lemma rows_of_len {A} (l : list A) ids :
  forallb (in_range (zlen l)) ids = true -> zlen (rows_of l ids) = zlen ids.
Proof.
  induction ids as [|x ids IH]; intros H; auto.
  cbn [forallb] in H. apply andb_true_iff in H as [H1 H2].
  destruct (getz_in_range _ _ H1) as [r Hr].
  unfold rows_of. cbn [flat_map]. rewrite Hr. fold (rows_of l ids). cbn [app].
  rewrite !zlen_cons, IH; auto.
Qed.

Lemma pop_fold_identity rows ps pops :
  (forall p, In p ps -> p = NULL \/ 0 <= p) ->
  pop_fold rows ps (pops, identity_map) = (pops, identity_map).
Proof.
  induction ps as [|p ps IH]; intros H; auto.
  unfold pop_fold. cbn [fold_left]. fold (pop_fold rows ps).
  assert (pop_step rows (pops, identity_map) p = (pops, identity_map)) as ->.
  { unfold pop_step. cbn [snd]. destruct (p =? NULL) eqn:E; auto.
    unfold identity_map. rewrite E. reflexivity. }
  apply IH. intros; apply H; now right.
Qed.

Lemma pop_fold_fresh rows ps :
  (forall p, In p ps -> ref_ok (zlen rows) p = true) ->
  let r := pop_fold rows ps ([], mnull) in
  fst r = rows_of rows (first_uses ps) /\
  (forall q, snd r q = index_of q (first_uses ps) 0) /\
  forallb (in_range (zlen rows)) (first_uses ps) = true.
Proof.
  induction ps as [|p ps IH] using rev_ind; intros H.
  - cbn. repeat split; auto.
  - cbn zeta. unfold pop_fold. rewrite fold_left_app. fold (pop_fold rows ps ([], mnull)).
    destruct IH as [I1 [I2 I3]]. { intros; apply H; apply in_or_app; now left. }
    cbn zeta in I1, I2. destruct (pop_fold rows ps ([], mnull)) as [pops pm]. cbn [fst snd] in I1, I2.
    cbn [fold_left]. rewrite first_uses_snoc. unfold pop_step. cbn [fst snd].
    assert (ref_ok (zlen rows) p = true) as Hp by (apply H; apply in_or_app; right; now left).
    destruct (p =? NULL) eqn:E. { cbn [orb fst snd]. auto. }
    cbn [orb]. apply ref_ok_cases in Hp as [Hp|[_ Hp]]. { apply Z.eqb_neq in E. contradiction. }
    rewrite I2. destruct (listed (first_uses ps) p) eqn:L.
    + assert (index_of p (first_uses ps) 0 =? NULL = false) as ->.
      { apply Z.eqb_neq. intros N. apply index_of_null_iff in N. congruence. }
      cbn [fst snd]. auto.
    + assert (index_of p (first_uses ps) 0 =? NULL = true) as ->.
      { apply Z.eqb_eq. now apply index_of_null_iff. }
      destruct (getz_in_range _ _ Hp) as [row Hrow]. rewrite Hrow. cbn [fst snd].
      split; [|split].
      * rewrite rows_of_app, I1. f_equal. unfold rows_of. cbn [flat_map]. rewrite Hrow. reflexivity.
      * intros q. unfold upd. destruct (q =? p) eqn:F.
        -- apply Z.eqb_eq in F. subst q. rewrite index_of_app_notin by auto. rewrite Z.eqb_refl.
           rewrite I1, rows_of_len by auto. lia.
        -- rewrite I2. destruct (listed (first_uses ps) q) eqn:Lq.
           ++ now rewrite index_of_app_in.
           ++ rewrite index_of_app_notin by auto. rewrite Z.eqb_sym, F. now apply index_of_notin.
      * rewrite forallb_app, I3. cbn [forallb]. now rewrite Hp.
Qed.

Lemma unused_populations_spec pm order rows k :
  (forall q, pm q = index_of q order 0) ->
  unused_populations pm k rows = filteri (fun p => negb (listed order p)) k rows.
Proof.
  intros H. revert k. induction rows as [|r rows IH]; intros k; auto.
  cbn [unused_populations filteri]. rewrite H. rewrite !IH.
  destruct (listed order k) eqn:L.
  - assert (index_of k order 0 =? NULL = false) as ->; auto.
    apply Z.eqb_neq. intros N. apply index_of_null_iff in N. congruence.
  - assert (index_of k order 0 =? NULL = true) as ->; auto.
    apply Z.eqb_eq. now apply index_of_null_iff.
Qed.

(* ------------------------------------------------------------------ edges (13043-13056) *)
Lemma node_index_null_b nodes u : (node_index nodes u =? NULL) = negb (listed nodes u).
Proof.
  destruct (listed nodes u) eqn:L; cbn [negb].
  - apply Z.eqb_neq. intros N. apply node_index_null_iff in N. congruence.
  - apply Z.eqb_eq. now apply node_index_null_iff.
Qed.

Lemma subset_edges_spec nodes nmap nn es :
  (forall k, nmap k = node_index nodes k) ->
  (forall e, In e es -> in_range nn (e_parent e) = true /\ in_range nn (e_child e) = true) ->
  subset_edges nmap nn es = Ok (map (spec_edge nodes) (filter (edge_kept nodes) es)).
Proof.
  intros Hm. induction es as [|e es IH]; intros H; auto.
  cbn [subset_edges]. destruct (H e (or_introl eq_refl)) as [Hp Hc].
  unfold mget. rewrite Hp, Hc. cbn [bind]. rewrite IH by (intros; apply H; now right). cbn [bind].
  rewrite !Hm, !node_index_null_b, !negb_involutive. cbn [filter]. change (edge_kept nodes e) with (listed nodes (e_parent e) && listed nodes (e_child e)).
  destruct (listed nodes (e_parent e) && listed nodes (e_child e)); reflexivity.
Qed.

(* ------------------------------------------------------------------ mutations, first pass (13061-13072) *)
Section Pass1.
  Variables (nodes : list Z) (nmap : zmap) (nn ns : Z) (full : list mutation).
  Hypothesis Hm : forall k, nmap k = node_index nodes k.

  Definition keepq (q : Z) : bool :=
    match getz full q with Ok m => mut_kept_row nodes m | _ => false end.

  Lemma pass1_spec ms : forall pre j mmap smap,
    full = pre ++ ms ->
    (forall m, In m ms -> in_range nn (m_node m) = true /\ in_range ns (m_site m) = true) ->
    exists mmap' smap',
      mutation_pass1 nmap nn ns ms (zlen pre) j mmap smap = Ok (mmap', smap') /\
      (forall q, mmap' q = if (zlen pre <=? q) && (q <? zlen full) && keepq q
                           then j + count_from keepq (zlen pre) (Z.to_nat (q - zlen pre)) else mmap q) /\
      (forall s, (smap' s =? NULL) =
                 (smap s =? NULL) && negb (existsb (fun m => mut_kept_row nodes m && (m_site m =? s)) ms)).
  Proof.
    induction ms as [|m ms IH]; intros pre j mmap smap F H.
    - exists mmap, smap. split; [reflexivity|]. split.
      + intros q. assert (zlen full = zlen pre) as -> by (rewrite F, app_nil_r; reflexivity).
        assert ((zlen pre <=? q) && (q <? zlen pre) = false) as -> by lia. reflexivity.
      + intros s. cbn [existsb negb]. now rewrite andb_true_r.
    - cbn [mutation_pass1]. destruct (H m (or_introl eq_refl)) as [Hn Hs].
      unfold mget at 1. rewrite Hn. cbn [bind]. rewrite Hm, node_index_null_b.
      assert (getz full (zlen pre) = Ok m) as G.
      { rewrite F. replace (zlen pre) with (zlen pre + 0) by lia. rewrite getz_app_r by lia. apply getz_cons_0. }
      assert (keepq (zlen pre) = listed nodes (m_node m)) as K by (unfold keepq; now rewrite G).
      assert (full = (pre ++ [m]) ++ ms) as F' by (rewrite <- app_assoc; exact F).
      assert (zlen (pre ++ [m]) = zlen pre + 1) as Z1 by (rewrite zlen_app, zlen_cons, zlen_nil; lia).
      assert (zlen full = zlen pre + 1 + zlen ms) as ZF by (rewrite F', zlen_app, Z1; lia).
      pose proof (zlen_nonneg ms) as Nms. pose proof (zlen_nonneg pre) as Npre.
      destruct (listed nodes (m_node m)) eqn:L; cbn [negb].
      + (* kept *)
        unfold mget. rewrite Hs. cbn [bind].
        destruct (IH (pre ++ [m]) (j + 1) (upd mmap (zlen pre) j)
                     (if smap (m_site m) =? NULL then upd smap (m_site m) 1 else smap) F') as [mm [sm [E [Q Sx]]]].
        { intros; apply H; now right. }
        rewrite Z1 in E. rewrite E. exists mm, sm. split; [reflexivity|]. split.
        * intros q. rewrite Q, Z1.
          destruct (Z.eq_dec q (zlen pre)) as [->|N].
          -- assert ((zlen pre + 1 <=? zlen pre) && (zlen pre <? zlen full) = false) as -> by lia.
             cbn [andb]. rewrite upd_same' by reflexivity.
             assert ((zlen pre <=? zlen pre) && (zlen pre <? zlen full) = true) as -> by lia.
             rewrite K. cbn [andb]. rewrite Z.sub_diag. cbn. lia.
          -- rewrite upd_other by auto.
             destruct ((zlen pre <=? q) && (q <? zlen full)) eqn:R.
             ++ assert ((zlen pre + 1 <=? q) && (q <? zlen full) = true) as -> by lia.
                destruct (keepq q); cbn [andb]; auto.
                replace (Z.to_nat (q - zlen pre)) with (S (Z.to_nat (q - (zlen pre + 1)))) by lia.
                cbn [count_from]. rewrite K. lia.
             ++ assert ((zlen pre + 1 <=? q) && (q <? zlen full) = false) as -> by lia. reflexivity.
        * intros s. rewrite Sx. cbn [existsb]. change (mut_kept_row nodes m) with (listed nodes (m_node m)). rewrite L. cbn [andb].
          destruct (m_site m =? s) eqn:Es.
          -- apply Z.eqb_eq in Es. subst s. cbn [orb negb]. rewrite andb_false_r.
             destruct (smap (m_site m) =? NULL) eqn:Sn.
             ++ rewrite upd_same' by reflexivity. reflexivity.
             ++ rewrite Sn. reflexivity.
          -- cbn [orb]. destruct (smap (m_site m) =? NULL); auto.
             rewrite upd_other; auto. apply Z.eqb_neq in Es. congruence.
      + (* dropped *)
        destruct (IH (pre ++ [m]) j mmap smap F') as [mm [sm [E [Q Sx]]]].
        { intros; apply H; now right. }
        rewrite Z1 in E. rewrite E. exists mm, sm. split; [reflexivity|]. split.
        * intros q. rewrite Q, Z1.
          destruct (Z.eq_dec q (zlen pre)) as [->|N].
          -- assert ((zlen pre + 1 <=? zlen pre) && (zlen pre <? zlen full) = false) as -> by lia.
             rewrite K. rewrite !andb_false_r. reflexivity.
          -- destruct ((zlen pre <=? q) && (q <? zlen full)) eqn:R.
             ++ assert ((zlen pre + 1 <=? q) && (q <? zlen full) = true) as -> by lia.
                destruct (keepq q); cbn [andb]; auto.
                replace (Z.to_nat (q - zlen pre)) with (S (Z.to_nat (q - (zlen pre + 1)))) by lia.
                cbn [count_from]. rewrite K. lia.
             ++ assert ((zlen pre + 1 <=? q) && (q <? zlen full) = false) as -> by lia. reflexivity.
        * intros s. rewrite Sx. cbn [existsb]. change (mut_kept_row nodes m) with (listed nodes (m_node m)). rewrite L. reflexivity.
  Qed.
End Pass1.

(* ------------------------------------------------------------------ sites (13074-13088) *)
Lemma subset_sites_spec keep ss : forall k j smap,
  0 <= k ->
  let keep' := fun i => keep || negb (smap i =? NULL) in
  let r := subset_sites keep ss k j smap in
  fst r = filteri keep' k ss /\
  (forall i, snd r i = if (k <=? i) && (i <? k + zlen ss) && keep' i
                       then j + count_from keep' k (Z.to_nat (i - k)) else smap i).
Proof.
  induction ss as [|s ss IH]; intros k j smap Hk; cbn zeta.
  - split; auto. intros i. rewrite zlen_nil. assert ((k <=? i) && (i <? k + 0) = false) as -> by lia. reflexivity.
  - cbn [subset_sites filteri]. rewrite zlen_cons. pose proof (zlen_nonneg ss) as N.
    destruct (keep || negb (smap k =? NULL)) eqn:K.
    + specialize (IH (k + 1) (j + 1) (upd smap k j) ltac:(lia)). cbn zeta in IH.
      destruct (subset_sites keep ss (k + 1) (j + 1) (upd smap k j)) as [rest sm]. cbn [fst snd] in *.
      destruct IH as [I1 I2].
      assert (forall i, k < i -> (keep || negb (upd smap k j i =? NULL)) = (keep || negb (smap i =? NULL))) as X.
      { intros i Hi. rewrite upd_other by lia. reflexivity. }
      split.
      * rewrite I1. f_equal. apply filteri_ext. intros i Hi. apply X. lia.
      * intros i. rewrite I2.
        destruct (Z.eq_dec i k) as [->|Ni].
        -- assert ((k + 1 <=? k) && (k <? k + 1 + zlen ss) = false) as -> by lia. cbn [andb].
           rewrite upd_same' by reflexivity.
           assert ((k <=? k) && (k <? k + (1 + zlen ss)) = true) as -> by lia. rewrite K. cbn [andb].
           rewrite Z.sub_diag. cbn. lia.
        -- destruct ((k <=? i) && (i <? k + (1 + zlen ss))) eqn:R.
           ++ assert ((k + 1 <=? i) && (i <? k + 1 + zlen ss) = true) as -> by lia.
              rewrite X by lia. destruct (keep || negb (smap i =? NULL)); cbn [andb].
              ** replace (Z.to_nat (i - k)) with (S (Z.to_nat (i - (k + 1)))) by lia.
                 cbn [count_from]. rewrite K.
                 rewrite (count_from_ext (fun i0 => keep || negb (upd smap k j i0 =? NULL))
                                         (fun i0 => keep || negb (smap i0 =? NULL))).
                 { lia. } intros i0 Hi0. apply X. lia.
              ** apply upd_other. auto.
           ++ assert ((k + 1 <=? i) && (i <? k + 1 + zlen ss) = false) as -> by lia. cbn [andb].
              apply upd_other. auto.
    + specialize (IH (k + 1) j smap ltac:(lia)). cbn zeta in IH.
      destruct (subset_sites keep ss (k + 1) j smap) as [rest sm]. cbn [fst snd] in *.
      destruct IH as [I1 I2]. split; auto.
      intros i. rewrite I2.
      destruct (Z.eq_dec i k) as [->|Ni].
      * assert ((k + 1 <=? k) && (k <? k + 1 + zlen ss) = false) as -> by lia. rewrite K. rewrite !andb_false_r. reflexivity.
      * destruct ((k <=? i) && (i <? k + (1 + zlen ss))) eqn:R.
        -- assert ((k + 1 <=? i) && (i <? k + 1 + zlen ss) = true) as -> by lia.
           destruct (keep || negb (smap i =? NULL)); cbn [andb]; auto.
           replace (Z.to_nat (i - k)) with (S (Z.to_nat (i - (k + 1)))) by lia.
           cbn [count_from]. rewrite K. lia.
        -- assert ((k + 1 <=? i) && (i <? k + 1 + zlen ss) = false) as -> by lia. reflexivity.
Qed.

(* ------------------------------------------------------------------ mutations, last pass (13089-13109) *)
Lemma subset_mutations_spec nodes nmap mmap smap mm sm nn nm ns ms :
  (forall k, nmap k = node_index nodes k) ->
  agree_on nm mmap mm -> agree_on ns smap sm ->
  (forall m, In m ms -> in_range nn (m_node m) = true /\ in_range ns (m_site m) = true /\
                        ref_ok nm (m_parent m) = true) ->
  subset_mutations nmap mmap smap nn nm ns ms =
  Ok (map (fun m => mkM (sm (m_site m)) (node_index nodes (m_node m)) (m_derived m)
                        (remap_ref mm (m_parent m)) (m_time m) (m_md m))
          (filter (mut_kept_row nodes) ms)).
Proof.
  intros Hn Am As. induction ms as [|m ms IH]; intros H; auto.
  cbn [subset_mutations]. destruct (H m (or_introl eq_refl)) as [H1 [H2 H3]].
  unfold mget at 1. rewrite H1. cbn [bind]. rewrite IH by (intros; apply H; now right). cbn [bind].
  rewrite Hn, node_index_null_b. cbn [filter]. change (mut_kept_row nodes m) with (listed nodes (m_node m)).
  destruct (listed nodes (m_node m)); cbn [negb]; auto.
  unfold remap_ref. destruct (m_parent m =? NULL) eqn:E.
  - cbn [bind]. unfold mget. rewrite H2. cbn [bind map]. rewrite E. rewrite (As (m_site m)) by (now apply in_range_iff).
    reflexivity.
  - apply ref_ok_cases in H3 as [H3|[_ H3]]. { apply Z.eqb_neq in E. contradiction. }
    unfold mget. rewrite H3, H2. cbn [bind map]. rewrite E.
    rewrite (As (m_site m)) by (now apply in_range_iff). rewrite (Am (m_parent m)) by (now apply in_range_iff).
    reflexivity.
Qed.
