(* C14 — splitting with subset and re-joining with union, node / edge level, unbounded.
   For node lists A, B without repetitions such that every edge of the collection has both
   ends in A or both ends in B (the cover of the quantifier: a shared part plus two private
   parts with no edge between them), the union of the two subsets contains exactly the edges
   of the original, renamed by one node renumbering [cover_id], and every node of the
   original is found at its new id with its flags / time / metadata. *)
From Coq Require Import List ZArith Bool Lia ZifyBool Permutation.
From TskVerif Require Import Base.Common C14.Model C14.Spec C14.Basics C14.SubsetInd C14.SubsetLoop
     C14.SubsetRows C14.SubsetMain C14.SubsetCorollaries C14.UnionProofs.
Import ListNotations.
Open Scope Z_scope.

Definition cover_id (A B : list Z) (u : Z) : Z :=
  if listed A u then node_index A u
  else zlen A + rank (is_new (mapping_of A B)) (node_index B u).

Definition rename_edge (f : Z -> Z) (e : edge) : edge :=
  mkE (e_left e) (e_right e) (f (e_parent e)) (f (e_child e)) (e_md e).

(* ---- list facts ---- *)
Lemma getz_map {A B} (f : A -> B) l k a : getz l k = Ok a -> getz (map f l) k = Ok (f a).
Proof.
  revert k. induction l as [|x l IH]; intros k H. { rewrite getz_nil in H. discriminate. }
  cbn [map]. destruct (Z.eq_dec k 0) as [->|N]. { rewrite getz_cons_0 in *. now inversion H. }
  destruct (Z_lt_dec k 0). { rewrite getz_neg in H by lia. discriminate. }
  replace k with ((k - 1) + 1) in H by lia. replace k with ((k - 1) + 1) by lia.
  rewrite getz_cons_S in H by lia. rewrite getz_cons_S by lia. apply IH. exact H.
Qed.

Lemma NoDup_getz_inj {A} (l : list A) i j x : NoDup l -> getz l i = Ok x -> getz l j = Ok x -> i = j.
Proof.
  revert i j. induction l as [|a l IH]; intros i j N Hi Hj. { rewrite getz_nil in Hi. discriminate. }
  inversion N as [|? ? Na Nl]; subst.
  destruct (Z_lt_dec i 0). { rewrite getz_neg in Hi by lia. discriminate. }
  destruct (Z_lt_dec j 0). { rewrite getz_neg in Hj by lia. discriminate. }
  destruct (Z.eq_dec i 0) as [->|Ni], (Z.eq_dec j 0) as [->|Nj]; auto.
  - rewrite getz_cons_0 in Hi. inversion Hi; subst. replace j with ((j - 1) + 1) in Hj by lia.
    rewrite getz_cons_S in Hj by lia. apply getz_In in Hj. contradiction.
  - rewrite getz_cons_0 in Hj. inversion Hj; subst. replace i with ((i - 1) + 1) in Hi by lia.
    rewrite getz_cons_S in Hi by lia. apply getz_In in Hi. contradiction.
  - replace i with ((i - 1) + 1) in Hi by lia. replace j with ((j - 1) + 1) in Hj by lia.
    rewrite getz_cons_S in Hi, Hj by lia. specialize (IH _ _ Nl Hi Hj). lia.
Qed.

Lemma index_of_getz p l : forall k, 0 <= k -> listed l p = true -> getz l (index_of p l k - k) = Ok p.
Proof.
  induction l as [|x l IH]; intros k Hk L. { discriminate. }
  cbn [index_of]. unfold listed in L. cbn [existsb] in L. rewrite (Z.eqb_sym p x) in L.
  destruct (x =? p) eqn:E.
  - apply Z.eqb_eq in E. subst. rewrite Z.sub_diag. apply getz_cons_0.
  - cbn [orb] in L. pose proof (index_of_in p l (k + 1) L ltac:(lia)).
    replace (index_of p l (k + 1) - k) with ((index_of p l (k + 1) - (k + 1)) + 1) by lia.
    rewrite getz_cons_S by lia. apply IH; auto. lia.
Qed.

(* without repetitions the first and the last position coincide *)
Lemma index_of_node_index A p : NoDup A -> listed A p = true -> index_of p A 0 = node_index A p.
Proof.
  intros N L. pose proof (index_of_getz p A 0 ltac:(lia) L) as G1. rewrite Z.sub_0_r in G1.
  pose proof (node_index_listed A p L) as G2. eapply NoDup_getz_inj; eauto.
Qed.

Lemma filter_map_comm {A B} (f : B -> bool) (g : A -> B) l :
  filter f (map g l) = map g (filter (fun x => f (g x)) l).
Proof. induction l as [|a l IH]; cbn; auto. destruct (f (g a)); cbn; now rewrite IH. Qed.

Lemma filter_filter {A} (f g : A -> bool) l : filter f (filter g l) = filter (fun x => g x && f x) l.
Proof.
  induction l as [|a l IH]; cbn; auto. destruct (g a); cbn; [destruct (f a)|]; now rewrite ?IH.
Qed.

Lemma filter_split_perm {A} (f : A -> bool) l :
  Permutation (filter f l ++ filter (fun x => negb (f x)) l) l.
Proof.
  induction l as [|a l IH]; cbn; auto. destruct (f a); cbn.
  - now constructor.
  - rewrite <- Permutation_middle. now constructor.
Qed.

(* ---- the mapping built from the two node lists ---- *)
Lemma mapping_at A B p : listed B p = true ->
  getz (mapping_of A B) (node_index B p) = Ok (index_of p A 0).
Proof. intros L. unfold mapping_of. apply (getz_map (fun u => index_of u A 0)). now apply node_index_listed. Qed.

Lemma is_new_at A B p : listed B p = true ->
  is_new (mapping_of A B) (node_index B p) = negb (listed A p).
Proof.
  intros L. unfold is_new. rewrite mapping_at by auto.
  destruct (listed A p) eqn:LA; cbn [negb].
  - apply Z.eqb_neq. intros E. apply index_of_null_iff in E. congruence.
  - apply Z.eqb_eq. now apply index_of_null_iff.
Qed.

(* ---- the output of subset has in-range node and edge references ---- *)
Lemma spec_subset_nodes_len t nodes ku ncp :
  forallb (in_range (zlen (t_nodes t))) nodes = true ->
  zlen (t_nodes (spec_subset t nodes ku ncp)) = zlen nodes.
Proof. intros H. cbn [spec_subset t_nodes]. now apply (nodes_out_len t _ _ nodes). Qed.

Lemma first_uses_In ps p : In p (first_uses ps) <-> In p ps /\ p <> NULL.
Proof.
  induction ps as [|q ps IH] using rev_ind. { cbn. tauto. }
  rewrite first_uses_snoc. destruct (q =? NULL) eqn:E.
  - cbn [orb]. rewrite IH, in_app_iff. cbn [In]. apply Z.eqb_eq in E.
    split; [tauto|]. intros [[?|[<-|[]]] ?]; tauto.
  - cbn [orb]. apply Z.eqb_neq in E. destruct (listed (first_uses ps) q) eqn:L.
    + rewrite IH, in_app_iff. cbn [In]. split; [tauto|].
      intros [[?|[<-|[]]] ?]; auto. apply IH. now apply listed_In.
    + rewrite !in_app_iff, IH. cbn [In]. split; [intros [?|[<-|[]]]; tauto|]. intros [[?|[<-|[]]] ?]; tauto.
Qed.

Lemma rank_lt_total keep k n : 0 <= k < Z.of_nat n -> keep k = true -> rank keep k < count_from keep 0 n.
Proof.
  intros H K. assert (rank keep (k + 1) <= rank keep (Z.of_nat n)) by (apply rank_mono; lia).
  rewrite rank_succ, K in H0 by lia. unfold rank at 2 in H0. rewrite Nat2Z.id in H0. lia.
Qed.

Lemma spec_subset_edge_refs t nodes ku ncp :
  forallb (in_range (zlen (t_nodes t))) nodes = true ->
  edge_refs_ok (spec_subset t nodes ku ncp).
Proof.
  intros IR e He. rewrite spec_subset_nodes_len by auto.
  cbn [spec_subset t_edges] in He. unfold spec_edges in He. apply in_map_iff in He as [e0 [<- H0]].
  apply filter_In in H0 as [_ K]. unfold edge_kept in K. apply andb_true_iff in K as [K1 K2].
  cbn [spec_edge e_parent e_child]. split; eapply getz_ok_range; apply node_index_listed; eauto.
Qed.

Lemma spec_subset_node_refs t nodes ku ncp :
  refs_in_range t = true ->
  forallb (in_range (zlen (t_nodes t))) nodes = true ->
  node_refs_ok (spec_subset t nodes ku ncp).
Proof.
  intros R IR r' Hr'. cbn [spec_subset t_nodes t_populations t_individuals] in *.
  apply in_flat_map in Hr' as [u [Hu Hr']].
  destruct (node_row t u) as [r|] eqn:Hr; [|contradiction]. destruct Hr' as [<-|[]].
  assert (In r (t_nodes t)) as Ir.
  { unfold node_row in Hr. destruct (getz (t_nodes t) u) eqn:G; inversion Hr; subst. eapply getz_In; eauto. }
  destruct (refs_nodes t R r Ir) as [Rp Ri]. cbn [spec_node n_pop n_ind]. split.
  - (* population *)
    unfold ref_ok, remap_ref. destruct (n_pop r =? NULL) eqn:E. { reflexivity. }
    apply ref_ok_cases in Rp as [Rp|[_ Rp]]. { apply Z.eqb_neq in E. contradiction. }
    apply orb_true_iff. right. unfold pop_map, spec_populations. destruct ncp. { exact Rp. }
    assert (listed (pop_order t nodes) (n_pop r) = true) as L.
    { apply listed_In. apply first_uses_In. split; [|now apply Z.eqb_neq].
      unfold node_pops. apply in_map_iff. exists u. now rewrite Hr. }
    pose proof (index_of_in _ _ 0 L ltac:(lia)) as B.
    pose proof (pop_fold_fresh (t_populations t) (node_pops t nodes) (node_pops_ok t nodes R)) as [_ [_ F3]].
    fold (pop_order t nodes) in F3.
    apply in_range_iff. rewrite zlen_app, rows_of_len by auto.
    pose proof (zlen_nonneg (if ku then filteri (fun p => negb (listed (pop_order t nodes) p)) 0 (t_populations t) else [])).
    lia.
  - (* individual *)
    unfold ref_ok, remap_ref. destruct (n_ind r =? NULL) eqn:E. { reflexivity. }
    apply ref_ok_cases in Ri as [Ri|[_ Ri]]. { apply Z.eqb_neq in E. contradiction. }
    apply orb_true_iff. right. unfold spec_individuals. rewrite zlen_map, filteri_length.
    assert (ind_kept t nodes ku (n_ind r) = true) as K.
    { unfold ind_kept. apply orb_true_iff. right. unfold ind_referenced. apply existsb_exists.
      exists u. split; auto. rewrite Hr. apply Z.eqb_refl. }
    unfold ind_map, kept_map. rewrite K. apply in_range_iff. split; [apply rank_nonneg|].
    apply rank_lt_total; auto. apply in_range_iff in Ri. unfold zlen in Ri. lia.
Qed.

(* ---- the inverse law at the edge level ---- *)
Theorem subset_union_inverse_edges_lemma :
  forall T A B ku ncp chk addp S O U,
  refs_in_range T = true ->
  NoDup A -> NoDup B ->
  (* every edge lies inside one part *)
  (forall e, In e (t_edges T) -> edge_kept A e || edge_kept B e = true) ->
  subset T A ku ncp = Ok S ->
  subset T B ku ncp = Ok O ->
  union S O (mapping_of A B) chk addp = Ok U ->
  Permutation (t_edges U) (map (rename_edge (cover_id A B)) (t_edges T)).
Proof.
  intros T A B ku ncp chk addp S O U R NA NB Cov HS HO HU.
  destruct (subset_ok_in_range _ _ _ _ _ R HS) as [IA ->].
  destruct (subset_ok_in_range _ _ _ _ _ R HO) as [IB ->].
  destruct (union_adds_exactly_weak _ _ _ _ _ _ (spec_subset_node_refs T B ku ncp R IB)
              (spec_subset_edge_refs T B ku ncp IB) HU) as [_ [_ [_ P]]].
  rewrite P. clear P HU HS HO.
  cbn [spec_subset t_edges]. unfold spec_edges.
  set (l := t_edges T) in *. set (mp := mapping_of A B).
  (* self's edges *)
  assert (map (spec_edge A) (filter (edge_kept A) l) = map (rename_edge (cover_id A B)) (filter (edge_kept A) l)) as ->.
  { apply map_ext_in. intros e He. apply filter_In in He as [_ K]. unfold edge_kept in K.
    apply andb_true_iff in K as [K1 K2]. unfold spec_edge, rename_edge, cover_id. now rewrite K1, K2. }
  (* other's new edges *)
  rewrite filter_map_comm, filter_filter, map_map.
  assert (filter (fun x => edge_kept B x && edge_is_new mp (spec_edge B x)) l
          = filter (fun x => negb (edge_kept A x)) l) as ->.
  { apply filter_ext_in. intros e He. specialize (Cov e He).
    destruct (edge_kept B e) eqn:KB; cbn [andb].
    - unfold edge_kept in KB. apply andb_true_iff in KB as [K1 K2].
      unfold edge_is_new. cbn [spec_edge e_parent e_child]. unfold mp. rewrite !is_new_at by auto.
      unfold edge_kept. now rewrite negb_andb.
    - rewrite orb_false_r in Cov. now rewrite Cov. }
  assert (map (fun x => union_edge (spec_subset T A ku ncp) mp (spec_edge B x)) (filter (fun x => negb (edge_kept A x)) l)
          = map (rename_edge (cover_id A B)) (filter (fun x => negb (edge_kept A x)) l)) as ->.
  { apply map_ext_in. intros e He. apply filter_In in He as [Il KA]. specialize (Cov e Il).
    apply negb_true_iff in KA. rewrite KA in Cov. cbn [orb] in Cov.
    unfold edge_kept in Cov. apply andb_true_iff in Cov as [K1 K2].
    unfold union_edge, rename_edge. cbn [spec_edge e_left e_right e_parent e_child e_md].
    assert (forall p, listed B p = true -> union_node_id (spec_subset T A ku ncp) mp (node_index B p) = cover_id A B p) as X.
    { intros p Lp. unfold union_node_id, mp. rewrite mapping_at by auto. unfold cover_id.
      rewrite spec_subset_nodes_len by auto.
      destruct (listed A p) eqn:LA.
      - assert (index_of p A 0 =? NULL = false) as ->.
        { apply Z.eqb_neq. intros E. apply index_of_null_iff in E. congruence. }
        now apply index_of_node_index.
      - assert (index_of p A 0 =? NULL = true) as ->; auto.
        apply Z.eqb_eq. now apply index_of_null_iff. }
    now rewrite !X. }
  rewrite <- map_app. apply Permutation_map. apply filter_split_perm.
Qed.

(* ---- the inverse law at the node level ---- *)
Lemma nodes_out_getz t pm im nodes : forall k u r,
  forallb (in_range (zlen (t_nodes t))) nodes = true ->
  getz nodes k = Ok u -> node_row t u = Some r ->
  getz (nodes_out t pm im nodes) k = Ok (node_out pm im r).
Proof.
  induction nodes as [|x nodes IH]; intros k u r IR G Hr. { rewrite getz_nil in G. discriminate. }
  cbn [forallb] in IR. apply andb_true_iff in IR as [I1 I2].
  destruct (node_row_some t x I1) as [rx [Hx _]].
  unfold nodes_out. cbn [flat_map]. rewrite Hx. cbn [app]. fold (nodes_out t pm im nodes).
  destruct (Z.eq_dec k 0) as [->|N].
  - rewrite getz_cons_0 in *. inversion G; subst. rewrite Hx in Hr. now inversion Hr.
  - destruct (Z_lt_dec k 0). { rewrite getz_neg in G by lia. discriminate. }
    replace k with ((k - 1) + 1) in G by lia. replace k with ((k - 1) + 1) by lia.
    rewrite getz_cons_S in G by lia. rewrite getz_cons_S by lia. eapply IH; eauto.
Qed.

Lemma Forall2_getz {A B} (R : A -> B -> Prop) l1 l2 :
  Forall2 R l1 l2 -> forall j a, getz l1 j = Ok a -> exists b, getz l2 j = Ok b /\ R a b.
Proof.
  induction 1 as [|x y l1 l2 Hxy _ IH]; intros j a G. { rewrite getz_nil in G. discriminate. }
  destruct (Z.eq_dec j 0) as [->|N].
  - rewrite getz_cons_0 in *. inversion G; subst. eauto.
  - destruct (Z_lt_dec j 0). { rewrite getz_neg in G by lia. discriminate. }
    replace j with ((j - 1) + 1) in G by lia. replace j with ((j - 1) + 1) by lia.
    rewrite getz_cons_S in G by lia. rewrite getz_cons_S by lia. eauto.
Qed.

Lemma new_ids_getz full : forall suf pre k,
  full = pre ++ suf -> zlen pre <= k -> is_new full k = true ->
  getz (new_ids_from (zlen pre) suf)
       (count_from (is_new full) (zlen pre) (Z.to_nat (k - zlen pre))) = Ok k.
Proof.
  induction suf as [|m suf IH]; intros pre k F Hk K.
  - exfalso. unfold is_new in K. rewrite F, app_nil_r in K.
    unfold getz in K. assert (in_range (zlen pre) k = false) as E by (apply in_range_false; lia).
    rewrite E in K. discriminate.
  - assert (full = (pre ++ [m]) ++ suf) as F' by (rewrite <- app_assoc; exact F).
    assert (zlen (pre ++ [m]) = zlen pre + 1) as Z1 by (rewrite zlen_app, zlen_cons, zlen_nil; lia).
    assert (is_new full (zlen pre) = (m =? NULL)) as K0 by (unfold is_new; rewrite F, getz_mid; reflexivity).
    pose proof (zlen_nonneg pre) as Np.
    cbn [new_ids_from]. destruct (Z.eq_dec k (zlen pre)) as [->|N].
    + rewrite K0 in K. rewrite K, Z.sub_diag. cbn [Z.to_nat count_from]. apply getz_cons_0.
    + specialize (IH (pre ++ [m]) k F' ltac:(lia) K). rewrite Z1 in IH.
      replace (Z.to_nat (k - zlen pre)) with (S (Z.to_nat (k - (zlen pre + 1)))) by lia.
      cbn [count_from]. rewrite K0.
      pose proof (count_from_nonneg (is_new full) (zlen pre + 1) (Z.to_nat (k - (zlen pre + 1)))) as Nc.
      destruct (m =? NULL).
      * replace (1 + count_from (is_new full) (zlen pre + 1) (Z.to_nat (k - (zlen pre + 1))))
          with (count_from (is_new full) (zlen pre + 1) (Z.to_nat (k - (zlen pre + 1))) + 1) by lia.
        rewrite getz_cons_S by lia. exact IH.
      * rewrite Z.add_0_l. exact IH.
Qed.

Theorem subset_union_inverse_nodes_lemma :
  forall T A B ku ncp chk addp S O U,
  refs_in_range T = true ->
  NoDup A -> NoDup B ->
  subset T A ku ncp = Ok S ->
  subset T B ku ncp = Ok O ->
  union S O (mapping_of A B) chk addp = Ok U ->
  (* the union has one node per element of A ∪ B … *)
  zlen (t_nodes U) = zlen A + zlen (new_ids (mapping_of A B)) /\
  (* … and every listed node of T sits at its new id with its flags, time and metadata *)
  forall u r, listed A u || listed B u = true -> getz (t_nodes T) u = Ok r ->
    exists r', getz (t_nodes U) (cover_id A B u) = Ok r' /\
               n_flags r' = n_flags r /\ n_time r' = n_time r /\ n_md r' = n_md r.
Proof.
  intros T A B ku ncp chk addp S O U R NA NB HS HO HU.
  destruct (subset_ok_in_range _ _ _ _ _ R HS) as [IA ->].
  destruct (subset_ok_in_range _ _ _ _ _ R HO) as [IB ->].
  destruct (union_adds_exactly_weak _ _ _ _ _ _ (spec_subset_node_refs T B ku ncp R IB)
              (spec_subset_edge_refs T B ku ncp IB) HU) as [_ [_ [[[rows [N1 N2]] _] _]]].
  pose proof (spec_subset_nodes_len T A ku ncp IA) as LA.
  split.
  { rewrite N1, zlen_app, LA. f_equal.
    clear - N2. induction N2; auto. rewrite !zlen_cons. lia. }
  intros u r L G. assert (node_row T u = Some r) as Hr by (unfold node_row; now rewrite G).
  unfold cover_id. destruct (listed A u) eqn:LAu.
  - (* a node of self *)
    pose proof (node_index_listed A u LAu) as GA.
    rewrite N1, getz_app_l by (rewrite LA; eapply getz_ok_range; eauto).
    cbn [spec_subset t_nodes].
    change (flat_map _ A) with (nodes_out T (pop_map T A ncp) (ind_map T A ku) A).
    rewrite (nodes_out_getz T _ _ A _ u r IA GA Hr). eexists. split; [reflexivity|]. cbn. auto.
  - (* a node new to self *)
    cbn [orb] in L. pose proof (node_index_listed B u L) as GB.
    rewrite N1, <- LA, getz_app_r by apply rank_nonneg.
    assert (is_new (mapping_of A B) (node_index B u) = true) as K by (rewrite is_new_at by auto; now rewrite LAu).
    pose proof (new_ids_getz (mapping_of A B) (mapping_of A B) [] (node_index B u) eq_refl) as X.
    rewrite zlen_nil, Z.sub_0_r in X.
    assert (0 <= node_index B u) as Nn by (apply getz_ok_range in GB; apply in_range_iff in GB; lia).
    specialize (X Nn K). fold (rank (is_new (mapping_of A B)) (node_index B u)) in X.
    destruct (Forall2_getz _ _ _ N2 _ _ X) as [r' [Gr' [r0 [G0 [F1 [F2 [F3 _]]]]]]].
    exists r'. split; auto.
    cbn [spec_subset t_nodes] in G0.
    change (flat_map _ B) with (nodes_out T (pop_map T B ncp) (ind_map T B ku) B) in G0.
    rewrite (nodes_out_getz T _ _ B _ u r IB GB Hr) in G0. inversion G0; subst r0.
    cbn in F1, F2, F3. auto.
Qed.

(* ---- non-vacuity: the split of Examples.ex_t into {4,3,0,1} and {4,3,2} ---- *)
From TskVerif Require Import C14.Examples.

Example ex_cover : forallb (fun e => edge_kept [4;3;0;1] e || edge_kept [4;3;2] e) (t_edges ex_t) = true.
Proof. reflexivity. Qed.

Example ex_inverse_edges :
  match subset ex_t [4;3;0;1] false false, subset ex_t [4;3;2] false false with
  | Ok S0, Ok O0 =>
      match union S0 O0 (mapping_of [4;3;0;1] [4;3;2]) true true with
      | Ok U => list_eqb edge_eqb (t_edges U)
                  (isort (edge_le (node_time (t_nodes U))) (map (rename_edge (cover_id [4;3;0;1] [4;3;2])) (t_edges ex_t)))
      | _ => false
      end
  | _, _ => false
  end = true.
Proof. vm_compute. reflexivity. Qed.

(* a cover that cuts an edge (0 is under 3, but 3 is only in the first part and 0 only in the
   second) loses it: the hypothesis of the theorem is needed *)
Example ex_bad_cover_loses_edge :
  match subset ex_t [4;3;1] false false, subset ex_t [4;2;0] false false with
  | Ok S0, Ok O0 =>
      match union S0 O0 (mapping_of [4;3;1] [4;2;0]) true true with
      | Ok U => Z.of_nat (length (t_edges U))
      | _ => -1
      end
  | _, _ => -1
  end = 4.
Proof. vm_compute. reflexivity. Qed.
