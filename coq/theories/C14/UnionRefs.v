(* C14 — union, individuals and populations (add_and_remap_node 12838-12878, union 13255-13287):
   exact description of the rows appended to the individual and population tables, of the
   population / individual columns of the new nodes, and of the id maps used. *)
From Coq Require Import List ZArith Bool Lia ZifyBool Permutation.
From TskVerif Require Import Base.Common C14.Model C14.Spec C14.Basics C14.SubsetInd C14.SubsetLoop
     C14.SubsetRows C14.UnionProofs C14.SortProofs.
Import ListNotations.
Open Scope Z_scope.

(* "look the id up; if it has no image yet append the row and give it the next id" *)
Definition ref_step {A} (rows : list A) (s : list A * zmap) (p : Z) : list A * zmap :=
  if p =? NULL then s else
  if snd s p =? NULL then
    match getz rows p with Ok r => (fst s ++ [r], upd (snd s) p (zlen (fst s))) | _ => s end
  else s.
Definition ref_fold {A} (rows : list A) ps s0 := fold_left (ref_step rows) ps s0.

Lemma ref_step_mono {A} (rows : list A) s p q : snd s q <> NULL -> snd (ref_step rows s p) q = snd s q.
Proof.
  destruct s as [l m]. cbn [snd]. intros H. unfold ref_step. cbn [fst snd]. destruct (p =? NULL); auto.
  destruct (m p =? NULL) eqn:E; auto.
  destruct (getz rows p); auto. cbn [snd]. apply upd_other. intros ->. apply Z.eqb_eq in E. contradiction.
Qed.

Lemma ref_fold_mono {A} (rows : list A) ps : forall s q, snd s q <> NULL -> snd (ref_fold rows ps s) q = snd s q.
Proof.
  induction ps as [|p ps IH]; intros s q H; auto.
  change (ref_fold rows (p :: ps) s) with (ref_fold rows ps (ref_step rows s p)).
  rewrite IH; rewrite ref_step_mono; auto.
Qed.

Lemma ref_step_nonnull {A} (rows : list A) s p :
  p <> NULL -> in_range (zlen rows) p = true -> snd (ref_step rows s p) p <> NULL.
Proof.
  destruct s as [l m]. intros N R. unfold ref_step. cbn [fst snd]. apply Z.eqb_neq in N. rewrite N.
  destruct (m p =? NULL) eqn:E.
  - destruct (getz_in_range _ _ R) as [r ->]. cbn [snd]. rewrite (upd_same m p).
    pose proof (zlen_nonneg l). rewrite NULL_neg'. lia.
  - now apply Z.eqb_neq.
Qed.

Lemma ref_step_prefix {A} (rows : list A) s p : exists x, fst (ref_step rows s p) = fst s ++ x.
Proof.
  destruct s as [l m]. unfold ref_step. cbn [fst snd]. destruct (p =? NULL); [exists []; now rewrite app_nil_r|].
  destruct (m p =? NULL); [|exists []; now rewrite app_nil_r].
  destruct (getz rows p); try (exists []; now rewrite app_nil_r). cbn [fst]. eauto.
Qed.

(* first-use characterisation of the fold, from any initial map *)
Lemma ref_fold_spec {A} (rows : list A) ps l0 m0 :
  (forall p, In p ps -> ref_ok (zlen rows) p = true) ->
  let fu := first_uses (filter (fun p => m0 p =? NULL) ps) in
  let r := ref_fold rows ps (l0, m0) in
  fst r = l0 ++ rows_of rows fu /\
  (forall q, snd r q = if m0 q =? NULL
                       then (if listed fu q then zlen l0 + index_of q fu 0 else NULL) else m0 q) /\
  forallb (in_range (zlen rows)) fu = true.
Proof.
  induction ps as [|p ps IH] using rev_ind; intros H; cbn zeta.
  - cbn. rewrite app_nil_r. repeat split; auto. intros q. destruct (m0 q =? NULL) eqn:E; auto. now apply Z.eqb_eq in E.
  - unfold ref_fold. rewrite fold_left_app. fold (ref_fold rows ps (l0, m0)).
    destruct IH as [I1 [I2 I3]]. { intros; apply H; apply in_or_app; now left. }
    cbn zeta in I1, I2, I3. destruct (ref_fold rows ps (l0, m0)) as [l m]. cbn [fst snd] in I1, I2.
    cbn [fold_left]. rewrite filter_app. cbn [filter].
    set (fu := first_uses (filter (fun p0 => m0 p0 =? NULL) ps)) in *.
    assert (ref_ok (zlen rows) p = true) as Hp by (apply H; apply in_or_app; right; now left).
    unfold ref_step. cbn [fst snd].
    destruct (p =? NULL) eqn:E.
    { apply Z.eqb_eq in E. cbn [fst snd].
      assert (first_uses (filter (fun p0 => m0 p0 =? NULL) ps ++ (if m0 p =? NULL then [p] else [])) = fu) as ->.
      { destruct (m0 p =? NULL); [|now rewrite app_nil_r]. rewrite first_uses_snoc. subst p. reflexivity. }
      auto. }
    apply ref_ok_cases in Hp as [Hp|[_ Hp]]. { apply Z.eqb_neq in E. contradiction. }
    rewrite I2. destruct (m0 p =? NULL) eqn:M0.
    2:{ rewrite app_nil_r. assert (m0 p =? NULL = false) as Mn by exact M0. rewrite Mn. cbn [fst snd]. auto. }
    rewrite first_uses_snoc, E. cbn [orb]. fold fu.
    destruct (listed fu p) eqn:L.
    + assert (zlen l0 + index_of p fu 0 =? NULL = false) as ->.
      { pose proof (index_of_in p fu 0 L ltac:(lia)). pose proof (zlen_nonneg l0). rewrite NULL_neg'. lia. }
      cbn [fst snd]. auto.
    + assert (NULL =? NULL = true) as -> by reflexivity.
      destruct (getz_in_range _ _ Hp) as [row Hrow]. rewrite Hrow. cbn [fst snd].
      split; [|split].
      * rewrite rows_of_app, I1, <- app_assoc. do 2 f_equal. unfold rows_of. cbn [flat_map]. now rewrite Hrow.
      * intros q. unfold upd. destruct (q =? p) eqn:F.
        -- apply Z.eqb_eq in F. subst q. rewrite M0, listed_app, Z.eqb_refl, orb_true_r.
           rewrite index_of_app_notin by auto. rewrite Z.eqb_refl, I1, zlen_app, rows_of_len by auto. lia.
        -- rewrite I2. destruct (m0 q =? NULL); auto. rewrite listed_app, F, orb_false_r.
           destruct (listed fu q) eqn:Lq; auto. now rewrite index_of_app_in.
      * rewrite forallb_app, I3. cbn [forallb]. now rewrite Hp.
Qed.

(* ---- one call of add_and_remap_node, exactly ---- *)
Definition new_node_exact (addp : bool) (pm im : zmap) (r : node) : node :=
  mkN (n_flags r) (n_time r) (if addp then remap_ref pm (n_pop r) else n_pop r)
      (remap_ref im (n_ind r)) (n_md r).

Lemma add_node_exact other addp s k r :
  node_refs_ok other ->
  getz (t_nodes other) k = Ok r ->
  exists s',
    add_and_remap_node other addp s k = Ok s' /\
    (st_inds s', st_imap s') = ref_step (t_individuals other) (st_inds s, st_imap s) (n_ind r) /\
    (addp = true -> (st_pops s', st_pmap s') = ref_step (t_populations other) (st_pops s, st_pmap s) (n_pop r)) /\
    (addp = false -> st_pops s' = st_pops s) /\
    st_nodes s' = st_nodes s ++ [new_node_exact addp (st_pmap s') (st_imap s') r].
Proof.
  intros R G. unfold add_and_remap_node, get_row. rewrite G. cbn [bind].
  destruct (R r (getz_In _ _ _ G)) as [Rp Ri].
  unfold new_node_exact, ref_step, remap_ref. cbn [fst snd].
  (* individual *)
  destruct (n_ind r =? NULL) eqn:Ei.
  - cbn [bind]. destruct (n_pop r =? NULL) eqn:Ep.
    + cbn [bind]. eexists. split; [reflexivity|]. cbn. repeat split; auto. destruct addp; [reflexivity|]. apply Z.eqb_eq in Ep. now rewrite Ep.
    + apply ref_ok_cases in Rp as [Rp|[_ Rp]]. { apply Z.eqb_neq in Ep. contradiction. }
      destruct addp.
      * cbn [bind]. unfold mget. rewrite Rp. cbn [bind]. destruct (st_pmap s (n_pop r) =? NULL) eqn:F.
        -- destruct (getz_in_range _ _ Rp) as [row ->]. cbn [bind]. eexists. split; [reflexivity|]. cbn.
           rewrite (upd_same (st_pmap s) (n_pop r)). repeat split; auto; discriminate.
        -- cbn [bind]. eexists. split; [reflexivity|]. cbn. repeat split; auto; discriminate.
      * unfold mset, mget. rewrite Rp. cbn [bind]. rewrite (upd_same (st_pmap s) (n_pop r)), Ep.
        eexists. split; [reflexivity|]. cbn. repeat split; auto; discriminate.
  - apply ref_ok_cases in Ri as [Ri|[_ Ri]]. { apply Z.eqb_neq in Ei. contradiction. }
    unfold mget at 1. rewrite Ri. cbn [bind].
    destruct (st_imap s (n_ind r) =? NULL) eqn:Fi.
    + destruct (getz_in_range _ _ Ri) as [irow Hirow]. rewrite Hirow. cbn [bind].
      destruct (n_pop r =? NULL) eqn:Ep.
      * cbn [bind]. eexists. split; [reflexivity|]. cbn. rewrite (upd_same (st_imap s) (n_ind r)).
        repeat split; auto. destruct addp; [reflexivity|]. apply Z.eqb_eq in Ep. now rewrite Ep.
      * apply ref_ok_cases in Rp as [Rp|[_ Rp]]. { apply Z.eqb_neq in Ep. contradiction. }
        destruct addp.
        -- cbn [bind]. unfold mget. rewrite Rp. cbn [bind]. destruct (st_pmap s (n_pop r) =? NULL) eqn:F.
           ++ destruct (getz_in_range _ _ Rp) as [row ->]. cbn [bind]. eexists. split; [reflexivity|]. cbn.
              rewrite (upd_same (st_pmap s) (n_pop r)), (upd_same (st_imap s) (n_ind r)). repeat split; auto; discriminate.
           ++ cbn [bind]. eexists. split; [reflexivity|]. cbn. rewrite (upd_same (st_imap s) (n_ind r)).
              repeat split; auto; discriminate.
        -- unfold mset, mget. rewrite Rp. cbn [bind]. rewrite (upd_same (st_pmap s) (n_pop r)), Ep.
           eexists. split; [reflexivity|]. cbn. rewrite (upd_same (st_imap s) (n_ind r)). repeat split; auto; discriminate.
    + cbn [bind]. destruct (n_pop r =? NULL) eqn:Ep.
      * cbn [bind]. eexists. split; [reflexivity|]. cbn. repeat split; auto. destruct addp; [reflexivity|]. apply Z.eqb_eq in Ep. now rewrite Ep.
      * apply ref_ok_cases in Rp as [Rp|[_ Rp]]. { apply Z.eqb_neq in Ep. contradiction. }
        destruct addp.
        -- cbn [bind]. unfold mget. rewrite Rp. cbn [bind]. destruct (st_pmap s (n_pop r) =? NULL) eqn:F.
           ++ destruct (getz_in_range _ _ Rp) as [row ->]. cbn [bind]. eexists. split; [reflexivity|]. cbn.
              rewrite (upd_same (st_pmap s) (n_pop r)). repeat split; auto; discriminate.
           ++ cbn [bind]. eexists. split; [reflexivity|]. cbn. repeat split; auto; discriminate.
        -- unfold mset, mget. rewrite Rp. cbn [bind]. rewrite (upd_same (st_pmap s) (n_pop r)), Ep.
           eexists. split; [reflexivity|]. cbn. repeat split; auto; discriminate.
Qed.

(* ---- the node loop of union, exactly ---- *)
Lemma union_nodes_exact other addp :
  node_refs_ok other ->
  forall suf k s, 0 <= k -> k + zlen suf <= zlen (t_nodes other) ->
  exists s', union_nodes other addp k suf s = Ok s' /\
    let rows := rows_of (t_nodes other) (new_ids_from k suf) in
    (st_inds s', st_imap s') = ref_fold (t_individuals other) (map n_ind rows) (st_inds s, st_imap s) /\
    (addp = true -> (st_pops s', st_pmap s') = ref_fold (t_populations other) (map n_pop rows) (st_pops s, st_pmap s)) /\
    (addp = false -> st_pops s' = st_pops s) /\
    st_nodes s' = st_nodes s ++ map (new_node_exact addp (st_pmap s') (st_imap s')) rows.
Proof.
  intros R. induction suf as [|m suf IH]; intros k s Hk B; cbn zeta.
  - exists s. cbn. rewrite app_nil_r. auto.
  - rewrite zlen_cons in B. pose proof (zlen_nonneg suf) as Ns.
    cbn [union_nodes new_ids_from]. destruct (m =? NULL) eqn:E; cbn [negb bind].
    + destruct (getz_in_range (t_nodes other) k) as [r Hr]. { apply in_range_iff. lia. }
      destruct (add_node_exact other addp s k r R Hr) as [s1 [A1 [A2 [A3 [A4 A5]]]]].
      rewrite A1. cbn [bind].
      destruct (IH (k + 1) s1 ltac:(lia) ltac:(lia)) as [s' [I1 [I2 [I3 [I4 I5]]]]]. cbn zeta in *.
      exists s'. split; [exact I1|].
      unfold rows_of. cbn [flat_map]. rewrite Hr. cbn [app map].
      fold (rows_of (t_nodes other) (new_ids_from (k + 1) suf)).
      set (rows := rows_of (t_nodes other) (new_ids_from (k + 1) suf)) in *.
      destruct (R r (getz_In _ _ _ Hr)) as [Rp Ri].
      split. { rewrite I2, A2. reflexivity. }
      split. { intros Ha. rewrite (I3 Ha), (A3 Ha). reflexivity. }
      split. { intros Ha. rewrite (I4 Ha), (A4 Ha). reflexivity. }
      rewrite I5, A5, <- app_assoc. cbn [app]. do 2 f_equal.
      unfold new_node_exact. f_equal.
      * destruct addp; auto. unfold remap_ref. destruct (n_pop r =? NULL) eqn:Ep; auto.
        apply ref_ok_cases in Rp as [Rp|[_ Rp]]. { apply Z.eqb_neq in Ep. contradiction. }
        pose proof (I3 eq_refl) as X. pose proof (A3 eq_refl) as Y.
        assert (st_pmap s' = snd (ref_fold (t_populations other) (map n_pop rows) (st_pops s1, st_pmap s1))) as -> by now rewrite <- X.
        rewrite ref_fold_mono; auto. cbn [snd].
        assert (st_pmap s1 = snd (ref_step (t_populations other) (st_pops s, st_pmap s) (n_pop r))) as -> by now rewrite <- Y.
        apply ref_step_nonnull; auto. now apply Z.eqb_neq.
      * unfold remap_ref. destruct (n_ind r =? NULL) eqn:Ei; auto.
        apply ref_ok_cases in Ri as [Ri|[_ Ri]]. { apply Z.eqb_neq in Ei. contradiction. }
        assert (st_imap s' = snd (ref_fold (t_individuals other) (map n_ind rows) (st_inds s1, st_imap s1))) as -> by now rewrite <- I2.
        rewrite ref_fold_mono; auto. cbn [snd].
        assert (st_imap s1 = snd (ref_step (t_individuals other) (st_inds s, st_imap s) (n_ind r))) as -> by now rewrite <- A2.
        apply ref_step_nonnull; auto. now apply Z.eqb_neq.
    + set (s1 := mkSt (st_inds s) (st_pops s) (st_nodes s) (st_imap s) (st_pmap s) (upd (st_nmap s) k m)).
      destruct (IH (k + 1) s1 ltac:(lia) ltac:(lia)) as [s' [I1 I2]]. exists s'. split; [exact I1|exact I2].
Qed.

Lemma remap_new_parents_spec imap ni rows r :
  remap_new_parents imap ni rows = Ok r ->
  r = map (fun row => mkI (i_flags row) (i_loc row) (map (remap_ref imap) (i_parents row)) (i_md row)) rows.
Proof.
  revert r. induction rows as [|row rows IH]; intros r H; cbn [remap_new_parents] in H.
  - now inversion H.
  - destruct (mfold _ (i_parents row) []) as [ps| | |] eqn:E; cbn [bind] in H; try discriminate.
    destruct (remap_new_parents imap ni rows) as [rest| | |]; cbn [bind] in H; try discriminate.
    inversion H; subst r. cbn [map]. rewrite <- (IH rest eq_refl). do 2 f_equal.
    apply (mfold_snoc _ (fun p => if p =? NULL then Ok NULL else mget imap ni p)) in E as [ys [-> F]].
    2:{ intros acc p. destruct (p =? NULL); [reflexivity|destruct (mget imap ni p); reflexivity]. }
    cbn [app]. clear - F. induction F as [|p y l l' Hy _ IHf]; cbn [map]; auto. rewrite IHf. f_equal.
    unfold remap_ref. destruct (p =? NULL). { now inversion Hy. }
    unfold mget in Hy. destruct (in_range ni p); now inversion Hy.
Qed.

Lemma filter_mnull ps : filter (fun p => mnull p =? NULL) ps = ps.
Proof. induction ps as [|p ps IH]; cbn; auto. now rewrite IH. Qed.

Lemma skipn_app_exact {A} (a b : list A) : skipn (length a) (a ++ b) = b.
Proof. induction a; cbn; auto. Qed.

(* ---- union_raw: nodes, individuals, populations, exactly ---- *)
Definition union_new_rows (other : tables) (mapping : list Z) : list node :=
  rows_of (t_nodes other) (new_ids mapping).

Theorem union_raw_refs_lemma : forall self other mapping addp u,
  node_refs_ok other ->
  zlen mapping = zlen (t_nodes other) ->
  union_raw self other mapping addp = Ok u ->
  exists imap0,
    (* the individual map seeded from the shared nodes (13260-13266) *)
    seed_individual_map self other 0 mapping mnull = Ok imap0 /\
    let rows := union_new_rows other mapping in
    let fi := first_uses (filter (fun i => imap0 i =? NULL) (map n_ind rows)) in
    let fp := first_uses (map n_pop rows) in
    let im := fun q => if imap0 q =? NULL
                       then (if listed fi q then zlen (t_individuals self) + index_of q fi 0 else NULL)
                       else imap0 q in
    let pm := fun q => if listed fp q then zlen (t_populations self) + index_of q fp 0 else NULL in
    t_nodes u = t_nodes self ++ map (new_node_exact addp pm im) rows /\
    t_populations u = t_populations self ++ (if addp then rows_of (t_populations other) fp else []) /\
    t_individuals u = t_individuals self ++
       map (fun row => mkI (i_flags row) (i_loc row) (map (remap_ref im) (i_parents row)) (i_md row))
           (rows_of (t_individuals other) fi).
Proof.
  intros self other mapping addp u R L H. unfold union_raw in H.
  destruct (seed_individual_map self other 0 mapping mnull) as [imap0| | |]; cbn [bind] in H; try discriminate.
  exists imap0. split; [reflexivity|]. cbn zeta.
  destruct (union_nodes_exact other addp R mapping 0
              (mkSt (t_individuals self) (t_populations self) (t_nodes self) imap0 mnull mnull) ltac:(lia) ltac:(lia))
    as [s [U1 [U2 [U3 [U4 U5]]]]]. cbn zeta in *. cbn [st_inds st_imap st_pops st_pmap st_nodes] in *.
  fold (new_ids mapping) in U2, U3, U5. fold (union_new_rows other mapping) in U2, U3, U5.
  set (rows := union_new_rows other mapping) in *.
  rewrite U1 in H. cbn [bind] in H.
  assert (forall p, In p (map n_ind rows) -> ref_ok (zlen (t_individuals other)) p = true) as Ri.
  { intros p Hp. apply in_map_iff in Hp as [r [<- Hr]]. unfold rows, union_new_rows, rows_of in Hr.
    apply in_flat_map in Hr as [k [_ Hr]]. destruct (getz (t_nodes other) k) eqn:G; try contradiction.
    destruct Hr as [<-|[]]. now destruct (R _ (getz_In _ _ _ G)). }
  assert (forall p, In p (map n_pop rows) -> ref_ok (zlen (t_populations other)) p = true) as Rp.
  { intros p Hp. apply in_map_iff in Hp as [r [<- Hr]]. unfold rows, union_new_rows, rows_of in Hr.
    apply in_flat_map in Hr as [k [_ Hr]]. destruct (getz (t_nodes other) k) eqn:G; try contradiction.
    destruct Hr as [<-|[]]. now destruct (R _ (getz_In _ _ _ G)). }
  destruct (ref_fold_spec (t_individuals other) (map n_ind rows) (t_individuals self) imap0 Ri) as [Fi1' [Fi2' _]].
  pose proof (f_equal fst U2) as Ua. cbn [fst] in Ua. pose proof (eq_trans Ua Fi1') as Fi1.
  pose proof (f_equal snd U2) as Ub. cbn [snd] in Ub.
  assert (forall q, st_imap s q = _) as Fi2 by (intros q; rewrite Ub; apply Fi2').
  clear Fi1' Fi2' Ua Ub.
  destruct (remap_new_parents (st_imap s) (zlen (t_individuals other))
                              (skipn (length (t_individuals self)) (st_inds s))) as [new_inds| | |] eqn:RP;
    cbn [bind] in H; try discriminate.
  apply remap_new_parents_spec in RP.
  destruct (union_edges _ _ _ _) as [new_edges| | |]; cbn [bind] in H; try discriminate.
  destruct (union_sites _ _ _ _ _ _ _ _) as [[ss ms]| | |]; cbn [bind] in H; try discriminate.
  inversion H; subst u; clear H. cbn [t_nodes t_populations t_individuals].
  split; [|split].
  - rewrite U5. f_equal. apply map_ext_in. intros r Hr. unfold new_node_exact. f_equal.
    + destruct addp; auto. unfold remap_ref. destruct (n_pop r =? NULL); auto.
      destruct (ref_fold_spec (t_populations other) (map n_pop rows) (t_populations self) mnull Rp) as [_ [Fp2 _]].
      pose proof (f_equal snd (U3 eq_refl)) as Ub. cbn [snd] in Ub. rewrite Ub.
      etransitivity; [apply Fp2|]. rewrite filter_mnull. reflexivity.
    + unfold remap_ref. destruct (n_ind r =? NULL); auto.
  - destruct addp.
    + destruct (ref_fold_spec (t_populations other) (map n_pop rows) (t_populations self) mnull Rp) as [Fp1 _].
      pose proof (f_equal fst (U3 eq_refl)) as Ua. cbn [fst] in Ua. rewrite Ua.
      etransitivity; [apply Fp1|]. now rewrite filter_mnull.
    + rewrite (U4 eq_refl). now rewrite app_nil_r.
  - rewrite Fi1, firstn_app_exact. f_equal. rewrite RP, Fi1, skipn_app_exact.
    apply map_ext. intros row. f_equal. apply map_ext. intros p. unfold remap_ref.
    destruct (p =? NULL); auto.
Qed.

(* the seeded individual map only identifies an individual of `other` with the individual of
   the node of `self` that a shared node carrying it is mapped to *)
Lemma seed_spec self other full : forall suf pre m0 m,
  full = pre ++ suf ->
  seed_individual_map self other (zlen pre) suf m0 = Ok m ->
  forall q, m q <> m0 q ->
    exists j mj r rs, getz full j = Ok mj /\ mj <> NULL /\
      getz (t_nodes other) j = Ok r /\ getz (t_nodes self) mj = Ok rs /\ n_ind r = q /\ m q = n_ind rs.
Proof.
  induction suf as [|mj suf IH]; intros pre m0 m F H q N; cbn [seed_individual_map] in H.
  - inversion H; subst. contradiction.
  - assert (full = (pre ++ [mj]) ++ suf) as F' by (rewrite <- app_assoc; exact F).
    assert (zlen (pre ++ [mj]) = zlen pre + 1) as Z1 by (rewrite zlen_app, zlen_cons, zlen_nil; lia).
    destruct (getz (t_nodes other) (zlen pre)) as [nd| | |] eqn:G; cbn [bind] in H; try discriminate.
    destruct (negb (mj =? NULL) && negb (n_ind nd =? NULL)) eqn:C.
    + destruct (getz (t_nodes self) mj) as [sn| | |] eqn:Gs; cbn [bind] in H; try discriminate.
      unfold mset in H. destruct (in_range (zlen (t_individuals other)) (n_ind nd)); cbn [bind] in H; try discriminate.
      rewrite <- Z1 in H.
      destruct (Z.eq_dec (m q) (upd m0 (n_ind nd) (n_ind sn) q)) as [E|E].
      * unfold upd in E. destruct (q =? n_ind nd) eqn:Q; [|congruence].
        apply Z.eqb_eq in Q. apply andb_true_iff in C as [C1 _]. apply negb_true_iff, Z.eqb_neq in C1.
        exists (zlen pre), mj, nd, sn. repeat split; auto. rewrite F. apply getz_mid.
      * eapply IH; eauto.
    + cbn [bind] in H. rewrite <- Z1 in H. eapply IH; eauto.
Qed.

(* ---- the same for the result of union (the later passes do not touch these tables) ---- *)
Theorem union_refs_exact_lemma : forall self other mapping check_shared addp u,
  node_refs_ok other ->
  union self other mapping check_shared addp = Ok u ->
  exists imap0,
    seed_individual_map self other 0 mapping mnull = Ok imap0 /\
    (forall q, imap0 q <> NULL ->
       exists j mj r rs, getz mapping j = Ok mj /\ mj <> NULL /\
         getz (t_nodes other) j = Ok r /\ getz (t_nodes self) mj = Ok rs /\ n_ind r = q /\ imap0 q = n_ind rs) /\
    let rows := union_new_rows other mapping in
    let fi := first_uses (filter (fun i => imap0 i =? NULL) (map n_ind rows)) in
    let fp := first_uses (map n_pop rows) in
    let im := fun q => if imap0 q =? NULL
                       then (if listed fi q then zlen (t_individuals self) + index_of q fi 0 else NULL)
                       else imap0 q in
    let pm := fun q => if listed fp q then zlen (t_populations self) + index_of q fp 0 else NULL in
    t_nodes u = t_nodes self ++ map (new_node_exact addp pm im) rows /\
    t_populations u = t_populations self ++ (if addp then rows_of (t_populations other) fp else []) /\
    t_individuals u = t_individuals self ++
       map (fun row => mkI (i_flags row) (i_loc row) (map (remap_ref im) (i_parents row)) (i_md row))
           (rows_of (t_individuals other) fi).
Proof.
  intros self other mapping chk addp u R H. unfold union in H.
  destruct (zlen mapping =? zlen (t_nodes other)) eqn:L; cbn [negb] in H; [|discriminate].
  apply Z.eqb_eq in L.
  destruct (bad_map self mapping); [discriminate|].
  destruct (if chk then check_subset_equality self other mapping else Ok tt) as [[]| | |]; cbn [bind] in H; try discriminate.
  destruct (union_raw self other mapping addp) as [t1| | |] eqn:U; cbn [bind] in H; try discriminate.
  destruct (check_node_populations t1) as [[]| | |]; cbn [bind] in H; try discriminate.
  destruct (sort_tables t1) as [t2| | |] eqn:S1; cbn [bind] in H; try discriminate.
  destruct (deduplicate_sites t2) as [t3| | |] eqn:D; cbn [bind] in H; try discriminate.
  destruct (sort_tables t3) as [t4| | |] eqn:S2; cbn [bind] in H; try discriminate.
  destruct (union_raw_refs_lemma _ _ _ _ _ R L U) as [imap0 [Sd [N1 [N2 N3]]]].
  destruct (sort_tables_keeps _ _ S1) as [a1 [_ [a3 a4]]].
  destruct (dedup_keeps _ _ D) as [b1 [_ [b3 b4]]].
  destruct (sort_tables_keeps _ _ S2) as [c1 [_ [c3 c4]]].
  destruct (parents_keeps _ _ H) as [d1 [_ [d3 d4]]].
  exists imap0. split; auto. split.
  { intros q Nq. apply (seed_spec self other mapping mapping [] mnull imap0 eq_refl Sd q). exact Nq. }
  cbn zeta in *. rewrite d1, c1, b1, a1, d3, c3, b3, a3, d4, c4, b4, a4. auto.
Qed.

(* non-vacuity: in the example split, `other` contributes node 2 with individual 1 (parents
   [2; NULL; 0], both known to self through the shared nodes) and a population *)
From TskVerif Require Import C14.Examples.
Example ex_union_new_rows : map n_md (union_new_rows ex_other ex_mapping) = [[1;2]].
Proof. vm_compute. reflexivity. Qed.
Example ex_union_new_individual :
  match union ex_self ex_other ex_mapping true true with
  | Ok u => skipn 2 (t_individuals u)
  | _ => []
  end = [mkI 1 [3;4] [1; -1] []].   (* parent 0 of the original was already dropped by subset *)
Proof. vm_compute. reflexivity. Qed.
