(* C14 — row counts of subset: exactly one output node per requested node (in order), and no
   more edges than the input has.  Corollaries of subset_nodes_exact / subset_edges_exact. *)
From Coq Require Import List ZArith Bool Lia.
From TskVerif Require Import Base.Common C14.Model C14.Spec C14.Basics C14.SubsetMain C14.SubsetCorollaries.
Import ListNotations.
Open Scope Z_scope.

Lemma subset_node_count_proof t nodes ku ncp t' :
  refs_in_range t = true -> subset t nodes ku ncp = Ok t' ->
  length (t_nodes t') = length nodes.
Proof.
  intros R S. pose proof (subset_nodes_exact_lemma t nodes ku ncp t' R S) as F.
  symmetry. induction F as [|x y l l' _ _ IH]; cbn [length]; [reflexivity|now rewrite IH].
Qed.

Lemma subset_edge_count_le_proof t nodes ku ncp t' :
  refs_in_range t = true -> subset t nodes ku ncp = Ok t' ->
  (length (t_edges t') <= length (t_edges t))%nat.
Proof.
  intros R S. destruct (subset_edges_exact_lemma t nodes ku ncp t' R S) as (E & _).
  rewrite E, map_length. generalize (t_edges t). intros l.
  induction l as [|e l IH]; cbn [filter length]; [lia|]. destruct (edge_kept nodes e); cbn [length]; lia.
Qed.
