(* C14 — the canonical form does not depend on the row order of the input, edge table:
   two sorted permutations of one list are equal when the order is antisymmetric on it, so the
   edges of canonicalise / sort are the same whatever order the edge rows were written in
   (distinct (parent, child, left) keys — what a valid collection has).  For individuals and
   tied mutations the invariance is tied by the `union` correspondence family on permuted pairs
   and by the Examples below. *)
From Coq Require Import List ZArith Bool Lia ZifyBool Permutation Sorted.
From TskVerif Require Import Base.Common C14.Model C14.Spec C14.Basics C14.UnionProofs C14.SortProofs C14.Examples.
Import ListNotations.
Open Scope Z_scope.

Lemma sorted_perm_eq {A} (R : A -> A -> Prop) :
  forall l1 l2,
  (forall x y, In x l1 -> In y l1 -> R x y -> R y x -> x = y) ->
  StronglySorted R l1 -> StronglySorted R l2 -> Permutation l1 l2 -> l1 = l2.
Proof.
  induction l1 as [|a l1 IH]; intros l2 Anti S1 S2 P.
  - apply Permutation_nil in P. now subst.
  - destruct l2 as [|b l2]. { apply Permutation_sym, Permutation_nil in P. discriminate. }
    inversion S1 as [|? ? S1' F1]; subst. inversion S2 as [|? ? S2' F2]; subst.
    rewrite Forall_forall in F1, F2.
    assert (a = b) as ->.
    { assert (In a (b :: l2)) as Ia by (eapply Permutation_in; [exact P|now left]).
      assert (In b (a :: l1)) as Ib by (eapply Permutation_in; [apply Permutation_sym; exact P|now left]).
      destruct Ia as [->|Ia]; auto. destruct Ib as [->|Ib]; auto.
      apply Anti; auto; [now left|now right]. }
    f_equal. apply IH; auto.
    + intros x y Hx Hy. apply Anti; now right.
    + eapply Permutation_cons_inv; eauto.
Qed.

Lemma edge_le_trans tm a b c : edge_le tm a b = true -> edge_le tm b c = true -> edge_le tm a c = true.
Proof.
  unfold edge_le.
  destruct (Z.compare_spec (tm (e_parent a)) (tm (e_parent b))); try discriminate;
  destruct (Z.compare_spec (tm (e_parent b)) (tm (e_parent c))); try discriminate;
  destruct (Z.compare_spec (tm (e_parent a)) (tm (e_parent c))); try lia; auto.
  destruct (Z.compare_spec (e_parent a) (e_parent b)); try discriminate;
  destruct (Z.compare_spec (e_parent b) (e_parent c)); try discriminate;
  destruct (Z.compare_spec (e_parent a) (e_parent c)); try lia; auto.
  destruct (Z.compare_spec (e_child a) (e_child b)); try discriminate;
  destruct (Z.compare_spec (e_child b) (e_child c)); try discriminate;
  destruct (Z.compare_spec (e_child a) (e_child c)); try lia; auto.
Qed.

(* the sorted edge table is a function of the SET of edge rows, not of their order *)
Theorem sort_edges_order_invariant : forall ns es1 es2 sites1 sites2 m1 m2 i1 i2 p1 p2,
  Permutation es1 es2 ->
  (forall x y, In x es1 -> In y es1 ->
     edge_le (node_time ns) x y = true -> edge_le (node_time ns) y x = true -> x = y) ->
  sort_edges (mkT ns es1 sites1 m1 i1 p1) = sort_edges (mkT ns es2 sites2 m2 i2 p2).
Proof.
  intros ns es1 es2 s1 s2 m1 m2 i1 i2 p1 p2 P Anti. unfold sort_edges. cbn [t_nodes t_edges].
  set (le := edge_le (node_time ns)).
  assert (forall l, StronglySorted (fun a b => le a b = true) (isort le l)) as SS.
  { intros l. apply Sorted_StronglySorted. { intros x y z. apply edge_le_trans. }
    apply isort_sorted. apply edge_le_total. }
  apply (sorted_perm_eq (fun a b => le a b = true)); auto.
  - intros x y Hx Hy. apply Anti;
      [exact (Permutation_in _ (isort_perm le es1) Hx)|exact (Permutation_in _ (isort_perm le es1) Hy)].
  - rewrite isort_perm, P. symmetry. apply isort_perm.
Qed.

(* the shared-portion check accepts the same shared data written with its individual rows in
   another order (here: `other` of the Examples with its two individual rows swapped) *)
Definition ex_other_swapped : tables :=
  match t_individuals ex_other with
  | [a; b] =>
      mkT (map (fun nd => mkN (n_flags nd) (n_time nd) (n_pop nd)
                              (if n_ind nd =? 0 then 1 else if n_ind nd =? 1 then 0 else n_ind nd) (n_md nd))
               (t_nodes ex_other))
          (t_edges ex_other) (t_sites ex_other) (t_mutations ex_other)
          [mkI (i_flags b) (i_loc b) (map (fun p => if p =? 0 then 1 else if p =? 1 then 0 else p) (i_parents b)) (i_md b);
           mkI (i_flags a) (i_loc a) (map (fun p => if p =? 0 then 1 else if p =? 1 then 0 else p) (i_parents a)) (i_md a)]
          (t_populations ex_other)
  | _ => ex_other
  end.

Example ex_swapped_differs : tables_eqb ex_other_swapped ex_other = false.
Proof. vm_compute. reflexivity. Qed.
Example ex_shared_check_order_invariant :
  check_subset_equality ex_self ex_other ex_mapping = Ok tt /\
  check_subset_equality ex_self ex_other_swapped ex_mapping = Ok tt.
Proof. vm_compute. split; reflexivity. Qed.
