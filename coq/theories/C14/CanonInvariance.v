(* C14 — the canonical form does not depend on the row order of the input, edge table:
   two sorted permutations of one list are equal when the order is antisymmetric on it, so the
   edges of canonicalise / sort are the same whatever order the edge rows were written in
   (distinct (parent, child, left) keys — what a valid collection has).  For individuals and
   tied mutations the invariance is tied by the `union` correspondence family on permuted pairs
   and by the Examples below. *)
From Coq Require Import List ZArith Bool Lia ZifyBool Permutation Sorted.
From TskVerif Require Import Base.Common C14.Model C14.Spec C14.Basics C14.UnionProofs C14.SortProofs C14.Examples.
Import ListNotations.
Open Scope Z_scope.

Lemma sorted_perm_eq {A} (R : A -> A -> Prop) :
  forall l1 l2,
  (forall x y, In x l1 -> In y l1 -> R x y -> R y x -> x = y) ->
  StronglySorted R l1 -> StronglySorted R l2 -> Permutation l1 l2 -> l1 = l2.
Proof.
  induction l1 as [|a l1 IH]; intros l2 Anti S1 S2 P.
  - apply Permutation_nil in P. now subst.
  - destruct l2 as [|b l2]. { apply Permutation_sym, Permutation_nil in P. discriminate. }
    inversion S1 as [|? ? S1' F1]; subst. inversion S2 as [|? ? S2' F2]; subst.
    rewrite Forall_forall in F1, F2.
    assert (a = b) as ->.
    { assert (In a (b :: l2)) as Ia by (eapply Permutation_in; [exact P|now left]).
      assert (In b (a :: l1)) as Ib by (eapply Permutation_in; [apply Permutation_sym; exact P|now left]).
      destruct Ia as [->|Ia]; auto. destruct Ib as [->|Ib]; auto.
      apply Anti; auto; [now left|now right]. }
    f_equal. apply IH; auto.
    + intros x y Hx Hy. apply Anti; now right.
    + eapply Permutation_cons_inv; eauto.
Qed.

Lemma edge_le_trans tm a b c : edge_le tm a b = true -> edge_le tm b c = true -> edge_le tm a c = true.
Proof.
  unfold edge_le.
  destruct (Z.compare_spec (tm (e_parent a)) (tm (e_parent b))); try discriminate;
  destruct (Z.compare_spec (tm (e_parent b)) (tm (e_parent c))); try discriminate;
  destruct (Z.compare_spec (tm (e_parent a)) (tm (e_parent c))); try lia; auto.
  destruct (Z.compare_spec (e_parent a) (e_parent b)); try discriminate;
  destruct (Z.compare_spec (e_parent b) (e_parent c)); try discriminate;
  destruct (Z.compare_spec (e_parent a) (e_parent c)); try lia; auto.
  destruct (Z.compare_spec (e_child a) (e_child b)); try discriminate;
  destruct (Z.compare_spec (e_child b) (e_child c)); try discriminate;
  destruct (Z.compare_spec (e_child a) (e_child c)); try lia; auto.
Qed.

(* the sorted edge table is a function of the SET of edge rows, not of their order *)
Theorem sort_edges_order_invariant : forall ns es1 es2 sites1 sites2 m1 m2 i1 i2 p1 p2,
  Permutation es1 es2 ->
  (forall x y, In x es1 -> In y es1 ->
     edge_le (node_time ns) x y = true -> edge_le (node_time ns) y x = true -> x = y) ->
  sort_edges (mkT ns es1 sites1 m1 i1 p1) = sort_edges (mkT ns es2 sites2 m2 i2 p2).
Proof.
  intros ns es1 es2 s1 s2 m1 m2 i1 i2 p1 p2 P Anti. unfold sort_edges. cbn [t_nodes t_edges].
  set (le := edge_le (node_time ns)).
  assert (forall l, StronglySorted (fun a b => le a b = true) (isort le l)) as SS.
  { intros l. apply Sorted_StronglySorted. { intros x y z. apply edge_le_trans. }
    apply isort_sorted. apply edge_le_total. }
  apply (sorted_perm_eq (fun a b => le a b = true)); auto.
  - intros x y Hx Hy. apply Anti;
      [exact (Permutation_in _ (isort_perm le es1) Hx)|exact (Permutation_in _ (isort_perm le es1) Hy)].
  - rewrite isort_perm, P. symmetry. apply isort_perm.
Qed.

(* the shared-portion check accepts the same shared data written with its individual rows in
   another order (here: `other` of the Examples with its two individual rows swapped) *)
Definition ex_other_swapped : tables :=
  match t_individuals ex_other with
  | [a; b] =>
      mkT (map (fun nd => mkN (n_flags nd) (n_time nd) (n_pop nd)
                              (if n_ind nd =? 0 then 1 else if n_ind nd =? 1 then 0 else n_ind nd) (n_md nd))
               (t_nodes ex_other))
          (t_edges ex_other) (t_sites ex_other) (t_mutations ex_other)
          [mkI (i_flags b) (i_loc b) (map (fun p => if p =? 0 then 1 else if p =? 1 then 0 else p) (i_parents b)) (i_md b);
           mkI (i_flags a) (i_loc a) (map (fun p => if p =? 0 then 1 else if p =? 1 then 0 else p) (i_parents a)) (i_md a)]
          (t_populations ex_other)
  | _ => ex_other
  end.

Example ex_swapped_differs : tables_eqb ex_other_swapped ex_other = false.
Proof. vm_compute. reflexivity. Qed.
Example ex_shared_check_order_invariant :
  check_subset_equality ex_self ex_other ex_mapping = Ok tt /\
  check_subset_equality ex_self ex_other_swapped ex_mapping = Ok tt.
Proof. vm_compute. split; reflexivity. Qed.

(* ---- sites: the sorted site table is a function of the set of site rows ---- *)
Theorem sort_sites_order_invariant_lemma : forall ss1 ss2,
  Permutation ss1 ss2 ->
  (forall x y, In x ss1 -> In y ss1 -> s_pos x = s_pos y -> x = y) ->
  map snd (isort site_le (index_from 0 ss1)) = map snd (isort site_le (index_from 0 ss2)).
Proof.
  intros ss1 ss2 P Dist.
  assert (forall ss, StronglySorted (fun a b => s_pos a <= s_pos b) (map snd (isort site_le (index_from 0 ss)))) as SS.
  { intros ss. apply Sorted_StronglySorted. { intros x y z; lia. }
    apply sorted_site_pos. apply isort_sorted, site_le_total. }
  assert (forall ss, Permutation (map snd (isort site_le (index_from 0 ss))) ss) as PP.
  { intros ss. rewrite <- (index_from_snd ss 0) at 2. apply Permutation_map, isort_perm. }
  apply (sorted_perm_eq (fun a b => s_pos a <= s_pos b)); auto.
  - intros x y Hx Hy H1 H2. apply Dist; try lia; eapply Permutation_in; try apply PP; auto.
  - rewrite PP, P. symmetry. apply PP.
Qed.

(* for the sorter as a whole: whatever the mutation tables and comparison, two site tables that
   are permutations of each other (distinct positions) come out identical *)
Theorem sorted_sites_order_invariant : forall mle1 mle2 ss1 ss2 ms1 ms2 ss1' ms1' ss2' ms2',
  Permutation ss1 ss2 ->
  (forall x y, In x ss1 -> In y ss1 -> s_pos x = s_pos y -> x = y) ->
  sort_sites_mutations mle1 ss1 ms1 = Ok (ss1', ms1') ->
  sort_sites_mutations mle2 ss2 ms2 = Ok (ss2', ms2') ->
  ss1' = ss2'.
Proof.
  intros mle1 mle2 ss1 ss2 ms1 ms2 ss1' ms1' ss2' ms2' P Dist H1 H2.
  unfold sort_sites_mutations in H1, H2.
  destruct (mfold _ ms1 []) as [a1| | |]; cbn [bind] in H1; try discriminate.
  destruct (mfold _ (isort mle1 (index_from 0 a1)) []) as [b1| | |]; cbn [bind] in H1; try discriminate.
  destruct (mfold _ ms2 []) as [a2| | |]; cbn [bind] in H2; try discriminate.
  destruct (mfold _ (isort mle2 (index_from 0 a2)) []) as [b2| | |]; cbn [bind] in H2; try discriminate.
  inversion H1; inversion H2; subst. now apply sort_sites_order_invariant_lemma.
Qed.

(* ---- populations: subset / canonicalise order populations by first use, so the output is
        invariant under a permutation of the population rows (ids renamed in the node table) ---- *)
From TskVerif Require Import C14.SubsetInd C14.SubsetLoop C14.SubsetRows C14.SubsetMain C14.InverseProofs.

Definition rename_ref (pi : Z -> Z) (x : Z) : Z := if x =? NULL then NULL else pi x.
Definition rename_node_pop (pi : Z -> Z) (r : node) : node :=
  mkN (n_flags r) (n_time r) (rename_ref pi (n_pop r)) (n_ind r) (n_md r).

Section PopPerm.
  Variables (pi : Z -> Z) (np : Z).
  Hypothesis pi_inj : forall p q, in_range np p = true -> in_range np q = true -> pi p = pi q -> p = q.
  Hypothesis pi_nonneg : forall p, in_range np p = true -> 0 <= pi p.

  Lemma listed_map_pi l p :
    forallb (in_range np) l = true -> in_range np p = true -> listed (map pi l) (pi p) = listed l p.
  Proof.
    induction l as [|x l IH]; intros F Rp; auto. cbn [forallb] in F. apply andb_true_iff in F as [F1 F2].
    unfold listed in *. cbn [map existsb]. rewrite IH by auto. f_equal.
    destruct (p =? x) eqn:E.
    - apply Z.eqb_eq in E. subst. apply Z.eqb_refl.
    - apply Z.eqb_neq. intros H. apply Z.eqb_neq in E. apply E. now apply pi_inj.
  Qed.

  Lemma first_uses_map_pi ps :
    (forall p, In p ps -> ref_ok np p = true) ->
    first_uses (map (rename_ref pi) ps) = map pi (first_uses ps) /\ forallb (in_range np) (first_uses ps) = true.
  Proof.
    induction ps as [|p ps IH] using rev_ind; intros H. { split; reflexivity. }
    destruct IH as [I1 I2]. { intros; apply H; apply in_or_app; now left. }
    rewrite map_app. cbn [map]. rewrite !first_uses_snoc, I1.
    assert (ref_ok np p = true) as Hp by (apply H; apply in_or_app; right; now left).
    unfold rename_ref. destruct (p =? NULL) eqn:E.
    - assert (NULL =? NULL = true) as -> by reflexivity. cbn [orb]. auto.
    - apply ref_ok_cases in Hp as [Hp|[_ Hp]]. { apply Z.eqb_neq in E. contradiction. }
      assert (pi p =? NULL = false) as -> by (pose proof (pi_nonneg p Hp); rewrite NULL_neg'; lia).
      cbn [orb]. rewrite listed_map_pi by auto.
      destruct (listed (first_uses ps) p); [auto|].
      rewrite map_app. cbn [map]. split; auto. rewrite forallb_app, I2. cbn [forallb]. now rewrite Hp.
  Qed.

  Lemma index_of_map_pi l p : forall k,
    forallb (in_range np) l = true -> in_range np p = true -> index_of (pi p) (map pi l) k = index_of p l k.
  Proof.
    induction l as [|x l IH]; intros k F Rp; auto. cbn [forallb] in F. apply andb_true_iff in F as [F1 F2].
    cbn [map index_of]. rewrite IH by auto.
    destruct (x =? p) eqn:E.
    - apply Z.eqb_eq in E. subst. now rewrite Z.eqb_refl.
    - assert (pi x =? pi p = false) as ->; auto. apply Z.eqb_neq. intros H. apply Z.eqb_neq in E. apply E. now apply pi_inj.
  Qed.

  Lemma rows_of_map_pi {A} (rows rows2 : list A) l :
    zlen rows = np ->
    (forall p row, getz rows p = Ok row -> getz rows2 (pi p) = Ok row) ->
    forallb (in_range np) l = true -> rows_of rows2 (map pi l) = rows_of rows l.
  Proof.
    intros L Hr. induction l as [|x l IH]; intros F; auto. cbn [forallb] in F. apply andb_true_iff in F as [F1 F2].
    unfold rows_of. cbn [map flat_map]. fold (rows_of rows2 (map pi l)). fold (rows_of rows l). rewrite IH by auto.
    rewrite <- L in F1. destruct (getz_in_range _ _ F1) as [row G]. now rewrite G, (Hr _ _ G).
  Qed.
End PopPerm.

Theorem populations_order_invariant_lemma : forall t nodes pi pops2,
  refs_in_range t = true ->
  (forall p q, in_range (zlen (t_populations t)) p = true -> in_range (zlen (t_populations t)) q = true ->
               pi p = pi q -> p = q) ->
  (forall p, in_range (zlen (t_populations t)) p = true -> 0 <= pi p) ->
  (forall p row, getz (t_populations t) p = Ok row -> getz pops2 (pi p) = Ok row) ->
  let t2 := mkT (map (rename_node_pop pi) (t_nodes t)) (t_edges t) (t_sites t) (t_mutations t)
                (t_individuals t) pops2 in
  (* the retained population rows, in output order, are the same … *)
  rows_of pops2 (pop_order t2 nodes) = rows_of (t_populations t) (pop_order t nodes) /\
  (* … and every listed node gets the same new population id *)
  (forall u r, node_row t u = Some r ->
     remap_ref (pop_map t2 nodes false) (rename_ref pi (n_pop r)) = remap_ref (pop_map t nodes false) (n_pop r)).
Proof.
  intros t nodes pi pops2 R Inj Nn Hr. cbn zeta.
  set (np := zlen (t_populations t)) in *.
  set (t2 := mkT (map (rename_node_pop pi) (t_nodes t)) (t_edges t) (t_sites t) (t_mutations t) (t_individuals t) pops2).
  assert (forall u, node_row t2 u = option_map (rename_node_pop pi) (node_row t u)) as NR.
  { intros u. unfold node_row, t2. cbn [t_nodes]. unfold getz. rewrite zlen_map.
    destruct (in_range (zlen (t_nodes t)) u) eqn:E; auto.
    destruct (getz_in_range _ _ E) as [r G]. unfold getz in G. rewrite E in G.
    pose proof (getz_map (rename_node_pop pi) (t_nodes t) u r) as X. unfold getz in X. rewrite zlen_map, E in X.
    rewrite G. rewrite (X G). reflexivity. }
  assert (node_pops t2 nodes = map (rename_ref pi) (node_pops t nodes)) as NP.
  { unfold node_pops. rewrite map_map. apply map_ext. intros u. rewrite NR.
    destruct (node_row t u); reflexivity. }
  destruct (first_uses_map_pi pi np Inj Nn (node_pops t nodes) (node_pops_ok t nodes R)) as [F1 F2].
  unfold pop_order. rewrite NP, F1. split.
  - apply (rows_of_map_pi pi np); auto.
  - intros u r Hu. unfold remap_ref, rename_ref, pop_map.
    destruct (n_pop r =? NULL) eqn:E. { reflexivity. }
    assert (In r (t_nodes t)) as Ir.
    { unfold node_row in Hu. destruct (getz (t_nodes t) u) eqn:G; inversion Hu; subst. eapply getz_In; eauto. }
    destruct (refs_nodes t R r Ir) as [Rp _]. apply ref_ok_cases in Rp as [Rp|[_ Rp]]. { apply Z.eqb_neq in E. contradiction. }
    assert (pi (n_pop r) =? NULL = false) as -> by (pose proof (Nn _ Rp); rewrite NULL_neg'; lia).
    unfold pop_order. rewrite NP, F1. now apply (index_of_map_pi pi np).
Qed.
