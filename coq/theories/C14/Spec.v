(* C14 — specification-level definitions: what the property text says subset / union must
   produce, written as map / filter over the input row lists (no id-map arrays, no loops
   with state).  The theorems in SubsetProofs.v / UnionProofs.v show that the model of the C
   code (Model.v) computes exactly these. *)
From Coq Require Import List ZArith Bool Lia.
From TskVerif Require Import Base.Common C14.Model.
Import ListNotations.
Open Scope Z_scope.

(* u occurs in the node list *)
Definition listed (nodes : list Z) (u : Z) : bool := existsb (Z.eqb u) nodes.

(* position of u in the node list (the LAST one when u is listed several times; the C code
   overwrites node_map[u] at every occurrence), NULL when not listed *)
Fixpoint last_index_from (k : Z) (l : list Z) (u acc : Z) : Z :=
  match l with
  | [] => acc
  | x :: l' => last_index_from (k + 1) l' u (if x =? u then k else acc)
  end.
Definition node_index (nodes : list Z) (u : Z) : Z := last_index_from 0 nodes u NULL.

(* rows of a table whose index satisfies [keep], in table order *)
Fixpoint filteri {A} (keep : Z -> bool) (k : Z) (l : list A) : list A :=
  match l with
  | [] => []
  | a :: l' => if keep k then a :: filteri keep (k + 1) l' else filteri keep (k + 1) l'
  end.

(* number of kept indices in [s, s + n) *)
Fixpoint count_from (keep : Z -> bool) (s : Z) (n : nat) : Z :=
  match n with
  | O => 0
  | S n' => (if keep s then 1 else 0) + count_from keep (s + 1) n'
  end.
(* new id of a kept row = number of kept rows before it; NULL for a dropped row *)
Definition rank (keep : Z -> bool) (k : Z) : Z := count_from keep 0 (Z.to_nat k).
Definition kept_map (keep : Z -> bool) (k : Z) : Z := if keep k then rank keep k else NULL.

(* a reference column entry: NULL stays NULL, anything else goes through the id map *)
Definition remap_ref (m : zmap) (x : Z) : Z := if x =? NULL then NULL else m x.

(* ---------------- nodes ---------------- *)
Definition node_row (t : tables) (u : Z) : option node :=
  match getz (t_nodes t) u with Ok r => Some r | _ => None end.

(* ---------------- individuals ---------------- *)
Definition ind_referenced (t : tables) (nodes : list Z) (i : Z) : bool :=
  existsb (fun u => match node_row t u with Some r => n_ind r =? i | None => false end) nodes.
Definition ind_kept (t : tables) (nodes : list Z) (keep_unref : bool) (i : Z) : bool :=
  keep_unref || ind_referenced t nodes i.
Definition ind_map (t : tables) (nodes : list Z) (keep_unref : bool) : zmap :=
  kept_map (ind_kept t nodes keep_unref).
(* parents: a reference to an individual that is not retained is removed from the list *)
Definition spec_parents (m : zmap) (ps : list Z) : list Z :=
  map (remap_ref m) (filter (fun p => (p =? NULL) || negb (m p =? NULL)) ps).
Definition spec_individual (m : zmap) (r : individual) : individual :=
  mkI (i_flags r) (i_loc r) (spec_parents m (i_parents r)) (i_md r).
Definition spec_individuals (t : tables) (nodes : list Z) (keep_unref : bool) : list individual :=
  map (spec_individual (ind_map t nodes keep_unref))
      (filteri (ind_kept t nodes keep_unref) 0 (t_individuals t)).

(* ---------------- populations ---------------- *)
(* distinct non-NULL population ids in order of first use *)
Definition first_uses (ps : list Z) : list Z :=
  fold_left (fun acc p => if (p =? NULL) || listed acc p then acc else acc ++ [p]) ps [].
Definition node_pops (t : tables) (nodes : list Z) : list Z :=
  map (fun u => match node_row t u with Some r => n_pop r | None => NULL end) nodes.
Definition pop_order (t : tables) (nodes : list Z) : list Z := first_uses (node_pops t nodes).
Definition pop_map (t : tables) (nodes : list Z) (no_change_pop : bool) : zmap :=
  if no_change_pop then identity_map else fun p => index_of p (pop_order t nodes) 0.
Definition rows_of {A} (l : list A) (ids : list Z) : list A :=
  flat_map (fun p => match getz l p with Ok r => [r] | _ => [] end) ids.
Definition spec_populations (t : tables) (nodes : list Z) (keep_unref no_change_pop : bool) : list population :=
  if no_change_pop then t_populations t else
  rows_of (t_populations t) (pop_order t nodes) ++
  (if keep_unref then filteri (fun p => negb (listed (pop_order t nodes) p)) 0 (t_populations t) else []).

Definition spec_node (t : tables) (nodes : list Z) (keep_unref no_change_pop : bool) (r : node) : node :=
  mkN (n_flags r) (n_time r) (remap_ref (pop_map t nodes no_change_pop) (n_pop r))
      (remap_ref (ind_map t nodes keep_unref) (n_ind r)) (n_md r).

(* ---------------- edges ---------------- *)
Definition edge_kept (nodes : list Z) (e : edge) : bool :=
  listed nodes (e_parent e) && listed nodes (e_child e).
Definition spec_edge (nodes : list Z) (e : edge) : edge :=
  mkE (e_left e) (e_right e) (node_index nodes (e_parent e)) (node_index nodes (e_child e)) (e_md e).
Definition spec_edges (t : tables) (nodes : list Z) : list edge :=
  map (spec_edge nodes) (filter (edge_kept nodes) (t_edges t)).

(* ---------------- mutations and sites ---------------- *)
Definition mut_kept_row (nodes : list Z) (m : mutation) : bool := listed nodes (m_node m).
(* is mutation id k retained? *)
Definition mut_kept (t : tables) (nodes : list Z) (k : Z) : bool :=
  match getz (t_mutations t) k with Ok m => mut_kept_row nodes m | _ => false end.
Definition site_referenced (t : tables) (nodes : list Z) (s : Z) : bool :=
  existsb (fun m => mut_kept_row nodes m && (m_site m =? s)) (t_mutations t).
Definition site_kept (t : tables) (nodes : list Z) (keep_unref : bool) (s : Z) : bool :=
  keep_unref || site_referenced t nodes s.
Definition spec_sites (t : tables) (nodes : list Z) (keep_unref : bool) : list site :=
  filteri (site_kept t nodes keep_unref) 0 (t_sites t).
Definition spec_mutation (t : tables) (nodes : list Z) (keep_unref : bool) (m : mutation) : mutation :=
  mkM (kept_map (site_kept t nodes keep_unref) (m_site m))
      (node_index nodes (m_node m)) (m_derived m)
      (remap_ref (kept_map (mut_kept t nodes)) (m_parent m))
      (m_time m) (m_md m).
Definition spec_mutations (t : tables) (nodes : list Z) (keep_unref : bool) : list mutation :=
  map (spec_mutation t nodes keep_unref) (filter (mut_kept_row nodes) (t_mutations t)).

(* the whole output of subset, as the property text describes it *)
Definition spec_subset (t : tables) (nodes : list Z) (keep_unref no_change_pop : bool) : tables :=
  mkT (flat_map (fun u => match node_row t u with
                          | Some r => [spec_node t nodes keep_unref no_change_pop r] | None => [] end) nodes)
      (spec_edges t nodes) (spec_sites t nodes keep_unref) (spec_mutations t nodes keep_unref)
      (spec_individuals t nodes keep_unref) (spec_populations t nodes keep_unref no_change_pop).

(* references of a table collection stay inside the tables (part of what
   tsk_table_collection_check_integrity(…, 0) establishes at the entry of subset/union) *)
Definition ref_ok (n x : Z) : bool := (x =? NULL) || in_range n x.
Definition refs_in_range (t : tables) : bool :=
  let nn := zlen (t_nodes t) in
  forallb (fun r => ref_ok (zlen (t_populations t)) (n_pop r) && ref_ok (zlen (t_individuals t)) (n_ind r)) (t_nodes t) &&
  forallb (fun e => in_range nn (e_parent e) && in_range nn (e_child e)) (t_edges t) &&
  forallb (fun m => in_range nn (m_node m) && in_range (zlen (t_sites t)) (m_site m) &&
                    ref_ok (zlen (t_mutations t)) (m_parent m)) (t_mutations t) &&
  forallb (fun r => forallb (ref_ok (zlen (t_individuals t))) (i_parents r)) (t_individuals t).
