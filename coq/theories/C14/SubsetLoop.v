(* C14 — subset, part 2: the node loop (tables.c 13012-13018 with add_and_remap_node
   12823-12889), the population table and the node map. *)
From Coq Require Import List ZArith Bool Lia ZifyBool.
From TskVerif Require Import Base.Common C14.Model C14.Spec C14.Basics C14.SubsetInd.
Import ListNotations.
Open Scope Z_scope.

Definition node_out (pm im : zmap) (r : node) : node :=
  mkN (n_flags r) (n_time r) (remap_ref pm (n_pop r)) (remap_ref im (n_ind r)) (n_md r).
Definition nodes_out (t : tables) (pm im : zmap) (nodes : list Z) : list node :=
  flat_map (fun u => match node_row t u with Some r => [node_out pm im r] | None => [] end) nodes.

(* the population part of add_and_remap_node, add_populations = true *)
Definition pop_step (rows : list population) (s : list population * zmap) (p : Z) : list population * zmap :=
  if p =? NULL then s else
  if snd s p =? NULL then
    match getz rows p with Ok r => (fst s ++ [r], upd (snd s) p (zlen (fst s))) | _ => s end
  else s.
Definition pop_fold rows ps s0 := fold_left (pop_step rows) ps s0.

Lemma nodes_out_app t pm im a b : nodes_out t pm im (a ++ b) = nodes_out t pm im a ++ nodes_out t pm im b.
Proof. unfold nodes_out. apply flat_map_app. Qed.

Lemma nodes_out_len t pm im nodes :
  forallb (in_range (zlen (t_nodes t))) nodes = true -> zlen (nodes_out t pm im nodes) = zlen nodes.
Proof.
  induction nodes as [|x nodes IH]; intros H; auto.
  simpl in H. apply andb_true_iff in H as [H1 H2].
  destruct (node_row_some t x H1) as [r [Hr _]].
  unfold nodes_out. simpl. rewrite Hr. simpl. fold (nodes_out t pm im nodes).
  rewrite !zlen_cons. rewrite IH; auto.
Qed.

Lemma nodes_out_ext t pm1 pm2 im1 im2 nodes :
  (forall u r, In u nodes -> node_row t u = Some r ->
               remap_ref pm1 (n_pop r) = remap_ref pm2 (n_pop r) /\
               remap_ref im1 (n_ind r) = remap_ref im2 (n_ind r)) ->
  nodes_out t pm1 im1 nodes = nodes_out t pm2 im2 nodes.
Proof.
  induction nodes as [|x nodes IH]; intros H; auto.
  unfold nodes_out. simpl. fold (nodes_out t pm1 im1 nodes). fold (nodes_out t pm2 im2 nodes).
  rewrite IH by (intros; eapply H; eauto; now right).
  destruct (node_row t x) as [r|] eqn:E; auto.
  destruct (H x r (or_introl eq_refl) E) as [A B]. unfold node_out. now rewrite A, B.
Qed.

Lemma node_pops_app t a b : node_pops t (a ++ b) = node_pops t a ++ node_pops t b.
Proof. unfold node_pops. apply map_app. Qed.

Lemma NULL_neg : NULL = -1.
Proof. reflexivity. Qed.

(* ---- the loop invariant ---- *)
Lemma node_loop t nodes inds0 imap0 pops0 pmap0 :
  refs_in_range t = true ->
  forallb (in_range (zlen (t_nodes t))) nodes = true ->
  (forall u r, In u nodes -> node_row t u = Some r -> n_ind r <> NULL -> imap0 (n_ind r) <> NULL) ->
  exists s,
    mfold (add_and_remap_node t true) nodes (mkSt inds0 pops0 [] imap0 pmap0 mnull) = Ok s /\
    st_inds s = inds0 /\ st_imap s = imap0 /\
    (st_pops s, st_pmap s) = pop_fold (t_populations t) (node_pops t nodes) (pops0, pmap0) /\
    (forall k, st_nmap s k = node_index nodes k) /\
    st_nodes s = nodes_out t (st_pmap s) imap0 nodes /\
    (forall u r, In u nodes -> node_row t u = Some r -> n_pop r <> NULL -> st_pmap s (n_pop r) <> NULL).
Proof.
  intros R. induction nodes as [|x nodes IH] using rev_ind; intros H HI.
  - eexists. split; [reflexivity|]. cbn. repeat split; auto. all: try (intros u r []).
  - rewrite forallb_app in H. apply andb_true_iff in H as [H1 H2]. simpl in H2. rewrite andb_true_r in H2.
    destruct (IH H1) as [s [Hs [Si [Sm [Sp [Sn [So Snn]]]]]]].
    { intros u r Hu. apply HI. apply in_or_app. now left. }
    rewrite mfold_app, Hs. cbn [bind mfold].
    destruct (node_row_some t x H2) as [r [Hr Ir]].
    destruct (refs_nodes t R r Ir) as [Rp Ri].
    unfold add_and_remap_node. rewrite (get_row_node _ _ _ Hr). cbn [bind].
    (* individual part: never adds *)
    assert (exists new_ind,
      (if n_ind r =? NULL then Ok (st_inds s, st_imap s, NULL)
       else do cur <- mget (st_imap s) (zlen (t_individuals t)) (n_ind r);
            if cur =? NULL
            then do row <- get_row (t_individuals t) (n_ind r) ERR_INDIVIDUAL_OOB;
                 Ok (st_inds s ++ [row], upd (st_imap s) (n_ind r) (zlen (st_inds s)), zlen (st_inds s))
            else Ok (st_inds s, st_imap s, cur)) = Ok (inds0, imap0, new_ind)
      /\ new_ind = remap_ref imap0 (n_ind r)) as [new_ind [-> Eni]].
    { unfold remap_ref. destruct (n_ind r =? NULL) eqn:E.
      - eexists. rewrite Si, Sm. split; reflexivity.
      - apply ref_ok_cases in Ri as [Ri|[Ni Ri]]. { apply Z.eqb_neq in E. contradiction. }
        unfold mget. rewrite Ri. cbn [bind]. rewrite Sm.
        assert (imap0 (n_ind r) <> NULL) as Nn.
        { apply (HI x r); auto. apply in_or_app. right. now left. }
        apply Z.eqb_neq in Nn. rewrite Nn. eexists. rewrite Si. split; reflexivity. }
    cbn [bind].
    (* population part *)
    set (ps' := pop_step (t_populations t) (st_pops s, st_pmap s) (n_pop r)).
    assert (
      (if n_pop r =? NULL then Ok (st_pops s, st_pmap s, NULL)
       else do cur <- mget (st_pmap s) (zlen (t_populations t)) (n_pop r);
            if cur =? NULL
            then do row <- get_row (t_populations t) (n_pop r) ERR_POPULATION_OOB;
                 Ok (st_pops s ++ [row], upd (st_pmap s) (n_pop r) (zlen (st_pops s)), zlen (st_pops s))
            else Ok (st_pops s, st_pmap s, cur)) = Ok (fst ps', snd ps', remap_ref (snd ps') (n_pop r))
      /\ (forall q, st_pmap s q <> NULL -> snd ps' q = st_pmap s q)
      /\ (n_pop r <> NULL -> snd ps' (n_pop r) <> NULL)) as [-> [Mono Nnp]].
    { unfold ps', pop_step, remap_ref. cbn [fst snd]. destruct (n_pop r =? NULL) eqn:E.
      - split; [reflexivity|]. split; auto. intros N. apply Z.eqb_eq in E. contradiction.
      - apply ref_ok_cases in Rp as [Rp|[Np Rp]]. { apply Z.eqb_neq in E. contradiction. }
        unfold mget. rewrite Rp. cbn [bind].
        destruct (st_pmap s (n_pop r) =? NULL) eqn:F.
        + destruct (getz_in_range _ _ Rp) as [row Hrow]. unfold get_row. rewrite Hrow. cbn [bind fst snd].
          split; [|split].
          * rewrite (upd_same (st_pmap s) (n_pop r)). reflexivity.
          * intros q Hq. apply upd_other. intros ->. apply Z.eqb_eq in F. contradiction.
          * intros _. rewrite (upd_same (st_pmap s) (n_pop r)). pose proof (zlen_nonneg (st_pops s)). rewrite NULL_neg. lia.
        + cbn [fst snd]. split; [reflexivity|]. split; auto. intros _. now apply Z.eqb_neq. }
    cbn [bind].
    eexists. split; [reflexivity|]. cbn [st_inds st_imap st_pops st_pmap st_nmap st_nodes].
    split; auto. split; auto. split.
    { rewrite node_pops_app. unfold pop_fold. rewrite fold_left_app. fold (pop_fold (t_populations t) (node_pops t nodes) (pops0, pmap0)).
      rewrite <- Sp. unfold node_pops. cbn [map fold_left]. rewrite Hr. fold ps'. now destruct ps'. }
    split.
    { intros k. rewrite node_index_snoc. rewrite So, nodes_out_len by auto.
      unfold upd. rewrite (Z.eqb_sym k x). destruct (x =? k); auto. }
    split.
    { rewrite nodes_out_app. rewrite So. f_equal.
      - apply nodes_out_ext. intros u r0 Hu Hr0. split; auto.
        unfold remap_ref. destruct (n_pop r0 =? NULL) eqn:E; auto.
        symmetry. apply Mono. apply (Snn u r0); auto. now apply Z.eqb_neq.
      - unfold nodes_out. cbn [flat_map]. rewrite Hr. cbn [app]. unfold node_out. now rewrite Eni. }
    { intros u r0 Hu Hr0 N0. apply in_app_or in Hu as [Hu|[<-|[]]].
      - rewrite Mono; eauto.
      - rewrite Hr in Hr0. inversion Hr0; subst. auto. }
Qed.
