(* C14 — split with subset, re-join with union: mutations and sites, unbounded.  When every
   mutation sits on a node of A or of B and the mutation table is sorted by site, the re-joined
   collection holds exactly the original mutations (derived state, time, metadata; node renamed
   by [cover_id]) — each once —, its sites have pairwise distinct increasing positions and every
   site row is a site row of the original. *)
From Coq Require Import List ZArith Bool Lia ZifyBool Permutation Sorted.
From TskVerif Require Import Base.Common C14.Model C14.Spec C14.Basics C14.SubsetInd C14.SubsetLoop
     C14.SubsetRows C14.SubsetMain C14.SubsetCorollaries C14.UnionProofs C14.UnionRows C14.SortProofs
     C14.UnionFull C14.InverseProofs.
Import ListNotations.
Open Scope Z_scope.

Lemma union_node_id_cover T A B ku ncp p :
  NoDup A -> forallb (in_range (zlen (t_nodes T))) A = true -> listed B p = true ->
  union_node_id (spec_subset T A ku ncp) (mapping_of A B) (node_index B p) = cover_id A B p.
Proof.
  intros NA IA Lp. unfold union_node_id. rewrite mapping_at by auto. unfold cover_id.
  rewrite spec_subset_nodes_len by auto.
  destruct (listed A p) eqn:LA.
  - assert (index_of p A 0 =? NULL = false) as ->.
    { apply Z.eqb_neq. intros E. apply index_of_null_iff in E. congruence. }
    now apply index_of_node_index.
  - assert (index_of p A 0 =? NULL = true) as ->; auto.
    apply Z.eqb_eq. now apply index_of_null_iff.
Qed.

Lemma sorted_map_filter {X Y} (R : X -> X -> Prop) (R' : Y -> Y -> Prop) (f : X -> Y) (g : X -> bool) l :
  (forall a b, In a l -> In b l -> R a b -> g a = true -> g b = true -> R' (f a) (f b)) ->
  StronglySorted R l -> StronglySorted R' (map f (filter g l)).
Proof.
  intros H S. induction S as [|a l S IH F]; cbn [filter map]. { constructor. }
  assert (StronglySorted R' (map f (filter g l))) as IH'.
  { apply IH. intros x y Hx Hy. apply H; now right. }
  destruct (g a) eqn:Ga; auto. cbn [map]. constructor; auto.
  rewrite Forall_forall in *. intros y Hy. apply in_map_iff in Hy as [b [<- Hb]].
  apply filter_In in Hb as [Hb Gb]. apply H; auto; [now left|now right].
Qed.

Lemma filteri_In {X} keep (l : list X) : forall k s, In s (filteri keep k l) -> In s l.
Proof.
  induction l as [|x xs IH]; intros k s H; cbn [filteri] in H. { destruct H. }
  destruct (keep k); [destruct H as [<-|H]; [now left|]|]; right; eauto.
Qed.

Definition renamed_core (f : Z -> Z) (m : mutation) : Z * list Z * option Z * list Z :=
  (f (m_node m), m_derived m, m_time m, m_md m).

Theorem subset_union_inverse_mutations_lemma :
  forall T A B ku ncp chk addp S O U,
  refs_in_range T = true ->
  NoDup A -> NoDup B ->
  (* every mutation sits on a node of one of the parts; the table is sorted by site *)
  (forall m, In m (t_mutations T) -> listed A (m_node m) || listed B (m_node m) = true) ->
  StronglySorted (fun a b => m_site a <= m_site b) (t_mutations T) ->
  subset T A ku ncp = Ok S ->
  subset T B ku ncp = Ok O ->
  union S O (mapping_of A B) chk addp = Ok U ->
  Permutation (map mut_core (t_mutations U)) (map (renamed_core (cover_id A B)) (t_mutations T)) /\
  StronglySorted (fun a b => s_pos a < s_pos b) (t_sites U) /\
  (forall s, In s (t_sites U) -> In s (t_sites T)).
Proof.
  intros T A B ku ncp chk addp S O U R NA NB Cov Srt HS HO HU.
  destruct (subset_ok_in_range _ _ _ _ _ R HS) as [IA ->].
  destruct (subset_ok_in_range _ _ _ _ _ R HO) as [IB ->].
  set (SA := spec_subset T A ku ncp) in *. set (OB := spec_subset T B ku ncp) in *.
  set (l := t_mutations T) in *.
  assert (t_mutations OB = map (spec_mutation T B ku) (filter (mut_kept_row B) l)) as EO by reflexivity.
  assert (t_mutations SA = map (spec_mutation T A ku) (filter (mut_kept_row A) l)) as ES by reflexivity.
  (* hypotheses of the union theorem *)
  assert (forall m, In m (t_mutations OB) -> in_range (zlen (t_nodes OB)) (m_node m) = true) as Rm.
  { intros m Hm. rewrite EO in Hm. apply in_map_iff in Hm as [m0 [<- H0]]. apply filter_In in H0 as [_ K].
    unfold OB. rewrite spec_subset_nodes_len by auto. cbn [spec_mutation m_node].
    eapply getz_ok_range. apply node_index_listed. exact K. }
  assert (grouped 0 (length (t_sites OB)) (t_mutations OB) = true) as G.
  { apply sorted_grouped.
    - intros m Hm. rewrite EO in Hm. apply in_map_iff in Hm as [m0 [<- H0]]. apply filter_In in H0 as [I0 K].
      cbn [spec_mutation m_site]. destruct (refs_mutations T R m0 I0) as [_ [Rs _]].
      assert (site_kept T B ku (m_site m0) = true) as SK.
      { unfold site_kept, site_referenced. apply orb_true_iff. right. apply existsb_exists.
        exists m0. split; auto. now rewrite K, Z.eqb_refl. }
      unfold kept_map. rewrite SK. split; [apply rank_nonneg|]. rewrite Z.add_0_l.
      change (t_sites OB) with (filteri (site_kept T B ku) 0 (t_sites T)).
      assert (Z.of_nat (length (filteri (site_kept T B ku) 0 (t_sites T))) = zlen (filteri (site_kept T B ku) 0 (t_sites T))) as -> by reflexivity.
      rewrite filteri_length. apply rank_lt_total; auto. apply in_range_iff in Rs. unfold zlen in Rs. lia.
    - rewrite EO. apply (sorted_map_filter (fun a b => m_site a <= m_site b)); auto.
      intros a b Ia Ib Hab Ka Kb. cbn [spec_mutation m_site].
      assert (forall m0, In m0 l -> mut_kept_row B m0 = true -> site_kept T B ku (m_site m0) = true) as SK.
      { intros m0 I0 K0. unfold site_kept, site_referenced. apply orb_true_iff. right. apply existsb_exists.
        exists m0. split; auto. now rewrite K0, Z.eqb_refl. }
      unfold kept_map. rewrite (SK a Ia Ka), (SK b Ib Kb).
      destruct (refs_mutations T R a Ia) as [_ [Rs _]]. apply in_range_iff in Rs.
      apply rank_mono. lia. }
  destruct (union_sites_mutations_lemma _ _ _ _ _ _ (spec_subset_node_refs T B ku ncp R IB) G Rm HU)
    as [PM [SS [Sin _]]].
  split; [|split; [exact SS|]].
  - rewrite PM. unfold union_raw_mutations. fold OB. rewrite map_app, ES, EO, !map_map.
    rewrite filter_map_comm, filter_filter, map_map.
    (* self's mutations *)
    assert (map (fun x => mut_core (spec_mutation T A ku x)) (filter (mut_kept_row A) l)
            = map (renamed_core (cover_id A B)) (filter (mut_kept_row A) l)) as ->.
    { apply map_ext_in. intros m Hm. apply filter_In in Hm as [_ K]. unfold mut_kept_row in K.
      unfold mut_core, renamed_core, cover_id. cbn [spec_mutation m_node m_derived m_time m_md]. now rewrite K. }
    (* other's mutations on new nodes *)
    assert (filter (fun x => mut_kept_row B x && mut_new (mapping_of A B) (spec_mutation T B ku x)) l
            = filter (fun x => negb (mut_kept_row A x)) l) as ->.
    { apply filter_ext_in. intros m Hm. specialize (Cov m Hm). unfold mut_kept_row in *.
      destruct (listed B (m_node m)) eqn:KB; cbn [andb].
      - unfold mut_new. cbn [spec_mutation m_node]. now rewrite is_new_at.
      - rewrite orb_false_r in Cov. now rewrite Cov. }
    match goal with |- Permutation (_ ++ map ?F _) _ =>
      rewrite (map_ext_in F (renamed_core (cover_id A B)) (filter (fun x => negb (mut_kept_row A x)) l)) end.
    2:{ intros m Hm. apply filter_In in Hm as [Il KA]. specialize (Cov m Il).
      apply negb_true_iff in KA. unfold mut_kept_row in KA. rewrite KA in Cov. cbn [orb] in Cov.
      unfold mut_core, renamed_core, union_mut. cbn [spec_mutation m_node m_derived m_time m_md].
      unfold SA. now rewrite union_node_id_cover. }
    rewrite <- map_app. apply Permutation_map. apply filter_split_perm.
  - intros s Hs. apply Sin in Hs. unfold union_raw_sites in Hs. apply in_app_or in Hs as [Hs|Hs].
    + exact (filteri_In _ _ _ _ Hs).
    + apply filteri_In in Hs. exact (filteri_In _ _ _ _ Hs).
Qed.
